#!/bin/bash
# usage: tools/sweep_thorough.sh [Cxx ...]  — the thorough tier of the named checks (default: all) on the unchanged tree, one line each.
cd "$(dirname "$0")/.."
export VERIF_EVIDENCE_DIR=$PWD/.sweep-evidence; mkdir -p $VERIF_EVIDENCE_DIR
[ -d lean/.lake ] || ./check --setup >/dev/null 2>&1 || { echo "setup failed"; exit 2; }
[ $# -eq 0 ] && set -- C01 C02 C03 C04 C05 C06 C07 C08 C09 C10 C11 C12 C13 C14 C15 C16 C17 C18 C19 C20
rc=0
for p in "$@"; do
  out=$(./check $p --tier thorough 2>&1 | grep -v KNOWN-FINDING | tail -2 | tr '\n' ' ')
  echo "thorough $p :: $out"
  case "$out" in *VIOLATION*|*FAIL*) rc=1;; esac
done
exit $rc
