#!/usr/bin/env python3
"""regenerate the per-property status table of DESIGN.md (STATUS-TABLE markers) from props/*.json and evidence/*.json"""
import json, os, glob
V = os.path.dirname(os.path.dirname(os.path.abspath(__file__)))
rows = []
for p in sorted(glob.glob(os.path.join(V, 'props', 'C*.json'))):
    c = json.load(open(p)); i = c['id']
    ev = {}
    try: ev = json.load(open(os.path.join(V, 'evidence', i + '.json')))['coverage']
    except Exception: pass
    ths = list((ev.get('theorems') or {}).keys())
    rows.append(f"| {i} | {c.get('level','proof')} | {len(ths)}: " + ', '.join(f'`{t}`' for t in ths) + f" | {', '.join(c.get('gen', []))} | {ev.get('evaluations','?')} / {ev.get('distinct_nontrivial','?')} | " + '; '.join(c.get('assumptions', [])[:6]).replace('|', '/') + " |")
t = "| id | level | property theorems (Props/Cxx.lean) | regenerated Gen modules | quick run: cases / distinct non-trivial | assumptions, partial parts, modelled-not-verified |\n|---|---|---|---|---|---|\n" + "\n".join(rows) + "\n"
d = os.path.join(V, 'DESIGN.md'); s = open(d).read()
a, b = '<!-- STATUS-TABLE-BEGIN -->', '<!-- STATUS-TABLE-END -->'
s = s[:s.index(a) + len(a)] + "\n" + t + s[s.index(b):]
open(d, 'w').write(s); print(len(rows), 'rows')
