#!/bin/bash
# usage: mkmut.sh <Cxx> <sfx>  — scratch worktree /tmp/mut/<Cxx><sfx>, instructions /tmp/mut/<Cxx><sfx>-out/INSTRUCTIONS.md
id=$1; sfx=$2
W=/tmp/mut/$id$sfx
git -C /repo worktree add -q --detach $W HEAD || exit 2
mkdir -p $W-out
python3 - "$id" "$sfx" <<'PY'
import json,sys,glob
id,sfx=sys.argv[1:3]
t=open('/verif/tools/prompts/mutator.txt').read()
prop=[json.loads(l) for l in open('/verif/properties.jsonl') if json.loads(l)['id']==id][0]
av=[]
for p in sorted(glob.glob(f'/verif/seeded/{id}-mut*/meta.json')):
    m=json.load(open(p)); av.append('- '+(m.get('title') or '')+' ('+', '.join(m.get('files') or [])+')')
avoid='Changes of the following kinds have ALREADY been made by others for this property; yours must hit DIFFERENT mechanisms (different functions, different clauses of the property):\n'+'\n'.join(av)+'\n'
t=t.replace('@ID@',id).replace('@SFX@',sfx).replace('@AVOID@',avoid)
t+=json.dumps({k:prop[k] for k in ('id','title','statement','quantifier','why_tests_cant','anchors') if k in prop},indent=1,ensure_ascii=False)
open(f'/tmp/mut/{id}{sfx}-out/INSTRUCTIONS.md','w').write(t)
PY
echo $W-out/INSTRUCTIONS.md
