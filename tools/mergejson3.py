#!/usr/bin/env python3
"""usage: tools/mergejson3.py <path>  — semantic three-way merge of a conflicted props/*.json (git index stages 1/2/3):
lists: base + what ours added + what theirs added (minus what either removed); strings changed on both sides: character-level
three-way merge (both sides' edits applied to the base; overlapping edits: ours then theirs); other values: the changed side."""
import json, subprocess, sys, difflib
p = sys.argv[1]
def stage(n): return json.loads(subprocess.check_output(['git', 'show', f':{n}:{p}']))
base, ours, theirs = stage(1), stage(2), stage(3)
def merge_str(b, o, t):
    if o == t or t == b: return o
    if o == b: return t
    eo = [x for x in difflib.SequenceMatcher(None, b, o, autojunk=False).get_opcodes() if x[0] != 'equal']
    et = [x for x in difflib.SequenceMatcher(None, b, t, autojunk=False).get_opcodes() if x[0] != 'equal']
    edits = [(i1, i2, o[j1:j2], 0) for _, i1, i2, j1, j2 in eo] + [(i1, i2, t[j1:j2], 1) for _, i1, i2, j1, j2 in et]
    edits.sort(key=lambda e: (e[0], e[3]))
    out, pos = [], 0
    for i1, i2, rep, _ in edits:
        if i1 < pos:            # overlapping edit: keep the replacement text, do not delete twice
            out.append(rep); pos = max(pos, i2); continue
        out.append(b[pos:i1]); out.append(rep); pos = i2
    out.append(b[pos:])
    return ''.join(out)
def merge(b, o, t):
    if o == t: return o
    if isinstance(o, dict) and isinstance(t, dict):
        b = b if isinstance(b, dict) else {}
        return {k: merge(b.get(k), o.get(k, t.get(k)), t.get(k, o.get(k))) for k in list(o) + [k for k in t if k not in o]}
    if isinstance(o, list) and isinstance(t, list):
        b = b if isinstance(b, list) else []
        res = [x for x in o if not (x in b and x not in t)]
        return res + [x for x in t if x not in b and x not in res]
    if isinstance(o, str) and isinstance(t, str):
        return merge_str(b if isinstance(b, str) else '', o, t)
    return t if o == b else o
res = merge(base, ours, theirs)
json.dump(res, open(p, 'w'), indent=1, ensure_ascii=False); open(p, 'a').write('\n')
json.load(open(p)); print('merged (3-way), valid json')
