#!/bin/bash
# usage: tools/trymany.sh <outfile> id[:check] ...   — run seeded changes against checks, one line of result per run
out=$1; shift
for x in "$@"; do
  id=${x%%:*}; chk=${x#*:}; [ "$chk" = "$x" ] && chk=${id%%-*}
  p=/verif/seeded/$id/patch.diff; [ -f /verif/seeded/$id/patch_rebased.diff ] && p=/verif/seeded/$id/patch_rebased.diff
  r=$(/verif/tools/trymut.sh $p $chk 2>&1 | grep -v KNOWN-FINDING | tail -2 | tr '\n' ' ')
  echo "$id vs $chk :: $r" >> $out
done
