#!/usr/bin/env python3
"""regenerate the defect table in DESIGN.md (between FINDINGS-TABLE markers) from KNOWN_FINDINGS.txt"""
import re, os
V = os.path.dirname(os.path.dirname(os.path.abspath(__file__)))
fixed, finds = [], []
for l in open(os.path.join(V, 'KNOWN_FINDINGS.txt')):
    m = re.match(r'fixed:\s+property=(\S+)\s+([0-9a-f]+)\s+(.*)', l)
    if m: fixed.append(m.groups())
    m = re.match(r'finding:\s+property=(\S+)\s+key=(\S+)\s+::\s*(.*)', l)
    if m: finds.append(m.groups())
t = "**Repaired (`fix:` commits on /repo; each reproduced on the real code first, baseline tests of the touched packages pass):**\n\n| property | commit | what failed |\n|---|---|---|\n"
for p, h, w in sorted(fixed):
    t += f"| {p} | `{h}` | {w.strip().replace('|','/')} |\n"
t += "\n**Recorded findings (genuine, not repaired; the check prints `KNOWN-FINDING` for exactly the matching cases):**\n\n| property | key (regex over the case line) | what fails and why it is not repaired |\n|---|---|---|\n"
for p, k, w in sorted(finds):
    t += f"| {p} | `{k.replace('|', '¦')}` | {w.strip().replace('|','/')} |\n"
d = os.path.join(V, 'DESIGN.md'); s = open(d).read()
a, b = '<!-- FINDINGS-TABLE-BEGIN -->', '<!-- FINDINGS-TABLE-END -->'
s = s[:s.index(a) + len(a)] + "\n" + t + s[s.index(b):]
open(d, 'w').write(s); print(len(fixed), 'fixed,', len(finds), 'findings')
