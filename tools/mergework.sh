#!/bin/bash
# usage: tools/mergework.sh <name> — merge a builder's verif branch and cherry-pick its /repo commits onto /repo's main
n=$1
cd /verif || exit 1
git diff --quiet && git diff --cached --quiet || { echo "/verif not clean"; exit 2; }
git merge --no-edit work/$n 2>&1 | tail -3
# evidence files are rewritten by the integrator's own runs: keep ours on conflict
for f in $(git status --short | grep '^UU evidence/\|^AA evidence/' | cut -c4-); do git checkout --ours $f; git add $f; done
# props/*.json: both sides usually appended to the same long strings
for f in $(git status --short | grep '^UU props/' | cut -c4-); do (python3 tools/mergejson3.py $f || python3 tools/mergejson.py $f) && git add $f; done
if ! git status --short | grep -q '^UU\|^AA'; then git diff --cached --quiet || git commit -qm "Merge branch 'work/$n'"; fi
if git status --short | grep -q '^UU\|^AA'; then echo "CONFLICTS:"; git status --short | grep '^UU\|^AA'; exit 3; fi
cd /repo
for c in $(git log --reverse --format=%H main..work/$n); do
  git cherry-pick $c >/dev/null 2>&1 && echo "picked $(git log -1 --format='%h %s' | cut -c1-110)" || { echo "CHERRY-PICK CONFLICT at $c"; git status --short | grep -v '^??' | head; exit 4; }
done
