#!/bin/bash
# usage: tools/sweep.sh <seed> [<seed> ...]   — every quick check on the unchanged tree for each seed; one result line per run.
# Meant for `vp run -- tools/sweep.sh 2 3 4` (snapshot of the committed /verif: runs ./check --setup there first).
cd "$(dirname "$0")/.."
export VERIF_EVIDENCE_DIR=$PWD/.sweep-evidence; mkdir -p $VERIF_EVIDENCE_DIR
[ -d lean/.lake ] || ./check --setup >/dev/null 2>&1 || { echo "setup failed"; exit 2; }
rc=0
for s in "$@"; do
  for i in 01 02 03 04 05 06 07 08 09 10 11 12 13 14 15 16 17 18 19 20; do
    out=$(VERIF_SEED=$s ./check C$i 2>&1 | grep -v KNOWN-FINDING | tail -2 | tr '\n' ' ')
    echo "seed=$s C$i :: $out"
    case "$out" in *VIOLATION*|*FAIL*) rc=1;; esac
  done
done
exit $rc
