#!/usr/bin/env python3
"""usage: tools/rectry.py <trymany outfile>  — record every line of a tools/trymany.sh result file in seeded/<id>/meta.json"""
import re, sys, subprocess
for l in open(sys.argv[1]):
    m = re.match(r'(\S+) vs (\S+) :: (.*)', l.strip())
    if not m: continue
    i, c, r = m.groups()
    st = re.search(r'(theorems=.*?known=\d+)', r)
    st = ' [' + st.group(1) + ']' if st else ''
    if 'VIOLATION' in r:
        if 'no-failing-input-found' in r:
            t = 'caught (quick): VIOLATION naming the broken obligation / correspondence, no-failing-input-found' + st
        else:
            t = 'caught (quick): VIOLATION with a failing input as replay' + st
    elif '-> ok' in r or '-> OK' in r or 'PASS' in r:
        t = 'MISSED by the quick tier' + st
    else:
        t = 'unclear: ' + r[:200]
    subprocess.run(['python3', '/verif/tools/recmut.py', i, c, t])
    print(i, c, t[:90])
