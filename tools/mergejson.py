#!/usr/bin/env python3
"""usage: tools/mergejson.py <file> — resolve git conflict hunks in a props/*.json file whose two sides both APPENDED text to the
same long string values (or each added list items): line-wise, key lines are merged as common-prefix + ours-suffix + theirs-suffix,
lines that are list items are kept from both sides. The result must parse as JSON."""
import re, sys, json
p = sys.argv[1]
s = open(p).read()
def strip_term(x):
    x = x.rstrip()
    comma = x.endswith(',')
    if comma: x = x[:-1]
    assert x.endswith('"'), x[-40:]
    return x[:-1], comma
def merge_line(a, b):
    if a == b: return [a]
    ka = re.match(r'\s*"([A-Za-z_]+)":\s*"', a); kb = re.match(r'\s*"([A-Za-z_]+)":\s*"', b)
    if ka and kb and ka.group(1) == kb.group(1):
        xa, ca = strip_term(a); xb, cb = strip_term(b)
        n = 0
        while n < min(len(xa), len(xb)) and xa[n] == xb[n]: n += 1
        sa, sb = xa[n:], xb[n:]
        sep = '' if (not sa or not sb) else (' ' if not ka.group(1).endswith('regex') else '')
        return [xa[:n] + sa + sep + sb + '"' + (',' if (ca or cb) else '')]
    # list items: keep both
    a2 = a.rstrip(); b2 = b.rstrip()
    if not a2.endswith(','): a2 += ','
    return [a2, b2]
def repl(m):
    la, lb = m.group(1).splitlines(), m.group(2).splitlines()
    out = []
    if len(la) == len(lb):
        for x, y in zip(la, lb): out += merge_line(x, y)
    else:
        out = la + lb
    return '\n'.join(out) + '\n'
s2 = re.sub(r'<<<<<<< [^\n]*\n(.*?)=======\n(.*?)>>>>>>> [^\n]*\n', repl, s, flags=re.S)
open(p, 'w').write(s2)
json.load(open(p)); print('merged, valid json')
