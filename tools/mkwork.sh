#!/bin/sh
# usage: tools/mkwork.sh <name>   — private workspace for one builder: /root/work/<name>/{verif,repo}
set -e
n=$1
mkdir -p /root/work/$n
git -C /verif worktree add -q -b work/$n /root/work/$n/verif HEAD
git -C /repo worktree add -q -b work/$n /root/work/$n/repo HEAD
# reuse the compiled Lean objects so the first build is incremental
mkdir -p /root/work/$n/verif/lean
cp -a /verif/lean/.lake /root/work/$n/verif/lean/.lake 2>/dev/null || true
echo "workspace /root/work/$n ready: export VERIF_REPO=/root/work/$n/repo; cd /root/work/$n/verif"
