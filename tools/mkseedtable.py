#!/usr/bin/env python3
"""regenerate the table of seeded changes in DESIGN.md (between the SEEDED-TABLE markers) from seeded/*/meta.json"""
import json, glob, os, re
V = os.path.dirname(os.path.dirname(os.path.abspath(__file__)))
rows = []
for p in sorted(glob.glob(os.path.join(V, 'seeded', '*', 'meta.json'))):
    m = json.load(open(p))
    res = m.get('check_results', {})
    r = '; '.join(f"`./check {k}`: {v}" for k, v in sorted(res.items())) or 'not yet run against a check'
    title = (m.get('title') or '').replace('|', '/')
    files = ', '.join(os.path.basename(f) for f in (m.get('files') or []))
    needs = (m.get('needs_to_manifest') or '').replace('|', '/').replace('\n', ' ')
    if len(needs) > 220: needs = needs[:217] + '...'
    rows.append(f"| {m['id']} | {m.get('property')} | {title} ({files}) | {needs} | {r.replace('|','/')} |")
tab = "| seeded change | property | what it changes | needs to manifest | result |\n|---|---|---|---|---|\n" + "\n".join(rows) + "\n"
d = os.path.join(V, 'DESIGN.md')
s = open(d).read()
a, b = '<!-- SEEDED-TABLE-BEGIN -->', '<!-- SEEDED-TABLE-END -->'
if a in s:
    s = s[:s.index(a) + len(a)] + "\n" + tab + s[s.index(b):]
    open(d, 'w').write(s)
    print('table updated:', len(rows), 'rows')
else:
    print('markers not found')
