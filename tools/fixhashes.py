#!/usr/bin/env python3
"""rewrite the commit ids of `fixed:` lines in KNOWN_FINDINGS.txt to the ids the same commits have on /repo's main
(builders recorded the ids of their own branches; cherry-picking changes them). Matching is by commit subject."""
import re, subprocess
def git(*a): return subprocess.run(['git', '-C', '/repo'] + list(a), capture_output=True, text=True).stdout
main = {}
for l in git('log', '--format=%h %s', 'main').splitlines():
    h, s = l.split(' ', 1); main.setdefault(s, h)
mainids = set(main.values())
out = []
for line in open('/verif/KNOWN_FINDINGS.txt'):
    m = re.match(r'(fixed:\s+property=\S+\s+)([0-9a-f]{7,40})(\s.*)', line)
    if m and not any(x.startswith(m.group(2)[:9]) or m.group(2).startswith(x) for x in mainids):
        subj = git('log', '-1', '--format=%s', m.group(2)).strip()
        if subj in main:
            line = m.group(1) + main[subj] + m.group(3) + '\n'
        else:
            print('UNMAPPED', m.group(2), subj[:80])
    out.append(line)
open('/verif/KNOWN_FINDINGS.txt', 'w').writelines(out)
