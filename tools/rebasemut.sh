#!/bin/bash
# usage: tools/rebasemut.sh <seeded id> — try to re-apply seeded/<id>/patch.diff on /repo's current HEAD with fuzz; writes patch_rebased.diff
id=$1; W=/root/scratch/rb.$$
git -C /repo worktree add -q --detach $W HEAD || exit 2
trap "git -C /repo worktree remove --force $W" EXIT
cd $W && patch -p1 --fuzz=3 --no-backup-if-mismatch < /verif/seeded/$id/patch.diff || { echo "REBASE FAILED"; exit 1; }
find . -name '*.orig' -delete; find . -name '*.rej' -delete
git diff > /verif/seeded/$id/patch_rebased.diff; echo "rebased -> seeded/$id/patch_rebased.diff ($(wc -l < /verif/seeded/$id/patch_rebased.diff) lines)"
