#!/usr/bin/env python3
"""usage: tools/recmut.py <seeded id> <check id> <result text>  — record what a check did with a seeded change"""
import json, sys
i, c, r = sys.argv[1:4]
p = f'/verif/seeded/{i}/meta.json'
m = json.load(open(p)); m.setdefault('check_results', {})[c] = r
json.dump(m, open(p, 'w'), indent=1)
