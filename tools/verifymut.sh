#!/bin/bash
# usage: tools/verifymut.sh <mutdir> <demo dest path rel. to repo> <go test -run regex> <pkgdir for baseline tests> [more pkgdirs]
# Confirms a seeded change in a scratch worktree: demo passes without / fails with the patch, tree builds, baseline tests of the
# touched packages still pass. Prints a one-line verdict.
set -u
d=$1; dest=$2; rx=$3; shift 3
export GOFLAGS=-mod=mod GOPROXY=off GOSUMDB=off GOTOOLCHAIN=local
W=/root/scratch/vm.$$
mkdir -p /root/scratch
git -C /repo worktree add -q --detach $W HEAD || exit 2
cleanup() { git -C /repo worktree remove --force $W; }
trap cleanup EXIT
pk=./$(dirname $dest)/
cp $d/demo_test.go $W/$dest
(cd $W && go test -vet=off -count=1 -run "$rx" $pk >/tmp/vm.$$.a 2>&1); a=$?
git -C $W apply $d/patch.diff || { echo "VERDICT patch does not apply"; exit 1; }
(cd $W && go build ./pkg/... ./cmd/... >/tmp/vm.$$.b 2>&1); b=$?
(cd $W && go test -vet=off -count=1 -run "$rx" $pk >/tmp/vm.$$.c 2>&1); c=$?
rm $W/$dest
VERIF_REPO=$W python3 /verif/tools/basecheck.py "$@" >/tmp/vm.$$.d 2>&1; e=$?
echo "VERDICT demo_without_patch_exit=$a build_with_patch_exit=$b demo_with_patch_exit=$c baseline_tests_with_patch_exit=$e"
tail -2 /tmp/vm.$$.d
[ $a -eq 0 ] && [ $b -eq 0 ] && [ $c -ne 0 ] && [ $e -eq 0 ] && echo CONFIRMED || { echo NOT-CONFIRMED; tail -5 /tmp/vm.$$.a /tmp/vm.$$.c; }
rm -f /tmp/vm.$$.*
