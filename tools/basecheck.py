#!/usr/bin/env python3
"""Run the baseline tests of given /repo packages (guard OFF) and compare with BASELINE.json stable_pass.
usage: basecheck.py [pkgdir ...]   (relative to /repo, e.g. pkg/router). No args = whole repo."""
import json, subprocess, sys, os
base = json.load(open("/root/.vp/BASELINE.json"))
REPO = os.environ.get("VERIF_REPO", "/repo")
stable = set(base['stable_pass'])
pkgs = sys.argv[1:] or ['./...']
env = dict(os.environ, GOFLAGS='-mod=mod', GOPROXY='off', GOSUMDB='off')
bad = 0
for p in pkgs:
    mod = REPO
    target = p if p.startswith('./') else './' + p.rstrip('/')
    if p.startswith('pkg/networkextention'):
        mod = REPO + '/pkg/networkextention'; target = './...'
    pr = subprocess.run(['go', 'test', '-p', os.environ.get('BASECHECK_P', '16'), '-json', '-vet=off', '-count=1', '-timeout', '25m', target], cwd=mod, env=env,
                        capture_output=True, text=True)
    res = {}
    for line in pr.stdout.splitlines():
        try: ev = json.loads(line)
        except Exception: continue
        if ev.get('Action') in ('pass', 'fail', 'skip') and ev.get('Test'):
            res[ev['Package'] + '::' + ev['Test']] = ev['Action']
    pk = set(k.split('::')[0] for k in res)
    want = [t for t in stable if t.split('::')[0] in pk]
    missing = [t for t in want if res.get(t) != 'pass']
    print(f'{p}: ran {len(res)} tests, baseline stable in these packages {len(want)}, not passing: {len(missing)}')
    for t in missing[:40]: print('   NOTPASS', t, res.get(t))
    bad += len(missing)
sys.exit(1 if bad else 0)
