#!/bin/bash
# usage: tools/keepmut.sh <mutdir> <seeded id e.g. C06-mutA> "<what I ran / result>"  — store a confirmed seeded change
d=$1; id=$2; note=$3
mkdir -p /verif/seeded/$id
cp $d/patch.diff /verif/seeded/$id/patch.diff
cp $d/demo_test.go /verif/seeded/$id/demo_test.go 2>/dev/null || cp -r $d/demo /verif/seeded/$id/
python3 - "$d" "$id" "$note" <<'PY'
import json,sys
d,id,note=sys.argv[1:4]
m=json.load(open(d+'/meta.json'))
out={'id':id,'property':m.get('property'),'title':m.get('title'),'files':m.get('files'),'breaks':m.get('what_breaks'),
     'needs_to_manifest':m.get('needs_to_manifest'),'demo_cmd':m.get('demo_cmd'),'author_tests':m.get('tests_run'),'confirmed_by_integrator':note}
json.dump(out,open(f'/verif/seeded/{id}/meta.json','w'),indent=1)
PY
echo kept $id
