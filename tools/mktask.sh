#!/bin/bash
# usage: mktask.sh <name>  — workspace + TASK.md from /verif/tools/prompts/common.txt and /verif/tools/prompts/tasks/<name>.txt
n=$1
/verif/tools/mkwork.sh $n >/dev/null
sed "s/@NAME@/$n/g" /verif/tools/prompts/common.txt > /root/work/$n/TASK.md
cat /verif/tools/prompts/tasks/$n.txt >> /root/work/$n/TASK.md
echo /root/work/$n/TASK.md
