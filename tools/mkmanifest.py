#!/usr/bin/env python3
"""regenerate /verif/MANIFEST.json from props/*.json (one file per claimed property)"""
import json, glob, os, subprocess
V = os.path.dirname(os.path.dirname(os.path.abspath(__file__)))
ids = [json.loads(l)['id'] for l in open(os.path.join(V, 'properties.jsonl'))]
checks, na = [], []
hooks = []
try:
    out = subprocess.run(['git', '-C', '/repo', 'log', '--format=%H %s'], capture_output=True, text=True).stdout
    hooks = [l.split()[0] for l in out.splitlines() if l.split(' ', 1)[1].startswith('verif hook')]
except Exception:
    pass
prev = {}
if os.path.exists(os.path.join(V, 'MANIFEST.json')):
    prev = json.load(open(os.path.join(V, 'MANIFEST.json')))
if not hooks:
    hooks = prev.get('hooks', {}).get('source_commits', [])
for i in ids:
    p = os.path.join(V, 'props', i + '.json')
    if not os.path.exists(p):
        na.append({'property_id': i, 'reason': 'not claimed yet: model/theorems/tie for this property are not built in this round (planned in DESIGN.md section 8); the technique applies'})
        continue
    c = json.load(open(p))
    if c.get('unclaimed'):
        na.append({'property_id': i, 'reason': c['unclaimed']}); continue
    checks.append({
        'property_id': i,
        'quick_cmd': f'./check {i} --tier quick',
        'thorough_cmd': f'./check {i} --tier thorough',
        'evidence_file': f'/verif/evidence/{i}.json',
        'replay_cmd_template': f'./check {i} --replay {{path}}',
        'engine': 'lean4-model+correspondence',
        'level_claimed': {'category': c.get('level', 'proof'), 'text': c['level_text'], 'design_ref': c.get('design_ref', 'DESIGN.md section 5 ' + i)},
        'level_note': c['level_note'],
        'technique': c.get('technique', 'machine-checked proof in Lean 4 over an executable model; model tied to /repo by a regenerating translator and an in-process differential correspondence check'),
    })
m = {
    'version': 1,
    'setup_cmd': './check --setup',
    'hooks': {
        'guard': 'verif (Go build tag)',
        'enable': 'go build -tags verif (the harness module /verif/harness replaces mosn.io/mosn by /repo)',
        'baseline_off_cmd': "cd /repo && for m in . ./pkg/networkextention; do (cd $m && go test -mod=mod -json -vet=off -count=1 -timeout 25m ./...); done",
        'source_commits': hooks,
        'add_only': True,
    },
    'engines': [{'name': 'lean4-model+correspondence', 'path': '/verif/check', 'serves_properties': [c['property_id'] for c in checks],
                 'kind_free_text': 'Lean 4 theorems over executable models (lean/MosnVerif), Gen/*.lean regenerated from the Go AST by /verif/extract, differential correspondence of model vs real code through /verif/harness (Go, -tags verif) and the native driver mosnmodel'}],
    'checks': checks,
    'not_applicable': na,
    'notes': 'See DESIGN.md. KNOWN_FINDINGS.txt lists recorded findings and fixed defects.',
}
json.dump(m, open(os.path.join(V, 'MANIFEST.json'), 'w'), indent=1)
print('claimed', [c['property_id'] for c in checks], 'unclaimed', [n['property_id'] for n in na])
