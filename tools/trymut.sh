#!/bin/sh
# usage: tools/trymut.sh <patch.diff> <Cxx> [tier]  — apply a seeded change to /repo, run the check, undo it
p=$(readlink -f $1); id=$2; tier=${3:-quick}
git -C /repo diff --quiet || { echo "/repo not clean"; exit 2; }
git -C /repo apply "$p" || { echo "patch does not apply"; exit 2; }
cd /verif && ./check $id --tier $tier | tail -4
rc=$?
git -C /repo checkout -- . 
git -C /repo status --short | grep -v '^??' | head
