#!/bin/bash
# usage: tools/trymut.sh <patch.diff> <Cxx> [tier]  — apply a seeded change to a scratch worktree of /repo's HEAD, run the
# check against it (VERIF_REPO), remove the worktree. /repo itself is not touched.
p=$(readlink -f $1); id=$2; tier=${3:-quick}
W=/root/scratch/tm.$$
mkdir -p /root/scratch
git -C /repo worktree add -q --detach $W HEAD || exit 2
trap "git -C /repo worktree remove --force $W" EXIT
git -C $W apply "$p" || { echo "patch does not apply"; exit 2; }
mkdir -p /root/scratch/ev; cd ${TRY_VERIF:-/verif} && VERIF_EVIDENCE_DIR=/root/scratch/ev VERIF_REPO=$W ./check $id --tier $tier | tail -4
