#!/bin/bash
# usage: confirm1.sh <Cxx> <sfx> <A|B> <letter>
id=$1; sfx=$2; x=$3; L=$4
d=/tmp/mut/$id$sfx-out/mut$x
read dest rx pk < <(python3 - $d <<'PY'
import re,sys,os
d=sys.argv[1]
src=open(d+'/demo_test.go').read()
dest=re.search(r'(pkg/[\w/\.\-]+_test\.go)',src).group(1)
rx=re.search(r"-run\s+'?([\w\|\^\$]+)'?",src).group(1)
print(dest,rx,os.path.dirname(dest))
PY
)
out=$(/verif/tools/verifymut.sh $d $dest "$rx" $pk 2>&1 | tail -4)
echo "$id mut$x -> $id-mut$L :: $(echo "$out" | tr '\n' ' ' | cut -c1-400)"
if echo "$out" | grep -q '^CONFIRMED'; then
  /verif/tools/keepmut.sh $d $id-mut$L "tools/verifymut.sh in a scratch worktree: demo ($rx in $pk) passes without the patch and fails with it; go build ./pkg/... ./cmd/... ok; baseline (stable_pass) tests of $pk all pass with the patch." >/dev/null
fi
