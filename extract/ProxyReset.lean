-- translation-unsupported ProxyReset: open -out/pkg/types/stream.go: no such file or directory
namespace MosnVerif.Gen.ProxyReset
end MosnVerif.Gen.ProxyReset
