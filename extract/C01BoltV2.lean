-- translation-unsupported C01BoltV2: open -out/pkg/protocol/xprotocol/boltv2/decoder.go: no such file or directory
namespace MosnVerif.Gen.C01BoltV2
end MosnVerif.Gen.C01BoltV2
