-- translation-unsupported C08H1Loop: open -out/pkg/stream/http/stream.go: no such file or directory
namespace MosnVerif.Gen.C08H1Loop
end MosnVerif.Gen.C08H1Loop
