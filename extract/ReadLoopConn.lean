-- translation-unsupported ReadLoopConn: open -out/pkg/network/connection.go: no such file or directory
namespace MosnVerif.Gen.ReadLoopConn
end MosnVerif.Gen.ReadLoopConn
