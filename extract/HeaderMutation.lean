-- translation-unsupported HeaderMutation: open -out/pkg/router/header_parser.go: no such file or directory
namespace MosnVerif.Gen.HeaderMutation
end MosnVerif.Gen.HeaderMutation
