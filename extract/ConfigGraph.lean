-- translation-unsupported ConfigGraph: open -out/pkg/config/v2: no such file or directory
namespace MosnVerif.Gen.ConfigGraph
end MosnVerif.Gen.ConfigGraph
