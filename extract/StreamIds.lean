-- translation-unsupported StreamIds: open -out/pkg/protocol/xprotocol/bolt/protocol.go: no such file or directory
namespace MosnVerif.Gen.StreamIds
end MosnVerif.Gen.StreamIds
