package main

// Gen/PoolDial.lean (C09 / C10, pool10): the STATEMENT ORDER inside the windows between a successful dial and the
// pool's bookkeeping, as step programs (yield points of verif_yield_dial.go included as markers):
//   ppDialProg      poolPingPong.newActiveClient after `Connect()` succeeded, then GetActiveClient's guarded increment
//   ppCloseProg     activeClientPingPong.OnEvent, close branch, removeFromPool inlined
//   ppNewStreamProg poolPingPong.NewStream from the registration of the end listener to the closed test
//   mxInitProg      poolMultiplex.init, with the lock depth at the dial; mxCloseLocked: the close handler's delete is
//                   under clientMux and guarded by the identity test
// codes: 10/11/12 request gauges +1 / Requests().Increase() | 20/21 connection_active -1 | 22/23 connection_active +1
//        30 totalClientCount.Inc() | 31 totalClientCount.Dec() | 32 Dec guarded by a test of the counter
//        40..43 yield sites (pp dialed, pp built, pp listening, pp counted) | 44 yield site mux dialed
//        50 AddEventListener(end) | 51 closed test { ResetStream; end.OnDestroyStream(); return ConnectionFailure }
//        60 clientMux.Lock | 61 shutdown test | 62 dial (newActiveClient) | 63 store-or-delete | 64 clientMux.Unlock
// Statements of these bodies that touch none of the counters, locks, slots or listeners are skipped; a statement that
// mentions one of them and is not recognised makes the translation fail.

import (
	"fmt"
	"go/ast"
	"go/types"
	"strings"
)

func init() { register("PoolDial", c09dGen) }

func c09dSrc(n ast.Node) string {
	switch x := n.(type) {
	case ast.Expr:
		return types.ExprString(x)
	case *ast.ExprStmt:
		return types.ExprString(x.X)
	}
	return ""
}

var c09dSensitive = []string{"totalClientCount", "UpstreamConnectionActive", "UpstreamRequestActive", "Requests()", "clientMux",
	"activeClients", "AddEventListener", "verifDialYield", "OnDestroyStream", "ResetStream", "newActiveClient", "idleClients"}

func c09dMentions(s ast.Stmt) string {
	hit := ""
	ast.Inspect(s, func(n ast.Node) bool {
		if e, ok := n.(ast.Expr); ok && hit == "" {
			t := types.ExprString(e)
			for _, k := range c09dSensitive {
				if strings.Contains(t, k) {
					hit = k
				}
			}
		}
		return hit == ""
	})
	return hit
}

var c09dYield = map[string]int{"verifDialSitePPDialed": 40, "verifDialSitePPBuilt": 41, "verifDialSitePPListening": 42,
	"verifDialSitePPCounted": 43, "verifDialSiteMuxDialed": 44}

// c09dSimple: the code of a simple statement (0: not a counted one).
func c09dSimple(s ast.Stmt) int {
	t := c09dSrc(s)
	if code, ok := c09wMoves[t]; ok {
		return code
	}
	switch {
	case strings.HasPrefix(t, "verifDialYield("):
		for k, v := range c09dYield {
			if strings.HasPrefix(t, "verifDialYield("+k+",") {
				return v
			}
		}
	case t == "p.totalClientCount.Inc()":
		return 30
	case t == "p.totalClientCount.Dec()":
		return 31
	case strings.HasSuffix(t, "clientMux.Lock()"):
		return 60
	case strings.HasSuffix(t, "clientMux.Unlock()"):
		return 64
	case strings.HasSuffix(t, ".AddEventListener(end)"):
		return 50
	}
	return 0
}

// c09dFlat: codes of a statement list; `inline` maps a call text to the function whose body replaces it.
func c09dFlat(l []ast.Stmt, inline map[string]*ast.FuncDecl, depth int) ([]int, error) {
	var out []int
	for _, s := range l {
		if code := c09dSimple(s); code != 0 {
			out = append(out, code)
			continue
		}
		if d, ok := s.(*ast.DeferStmt); ok {
			if strings.HasSuffix(types.ExprString(d.Call), "clientMux.Unlock()") {
				continue // released at the end of the body: the caller appends 64
			}
		}
		if fd, ok := inline[c09dSrc(s)]; ok && depth < 3 {
			in, err := c09dFlat(fd.Body.List, inline, depth+1)
			if err != nil {
				return nil, err
			}
			out = append(out, in...)
			continue
		}
		if ifs, ok := s.(*ast.IfStmt); ok && ifs.Else == nil && ifs.Init == nil {
			cond := types.ExprString(ifs.Cond)
			if cond == "c.host.Connection.State() == api.ConnClosed" && len(ifs.Body.List) == 3 &&
				strings.HasSuffix(c09dSrc(ifs.Body.List[0]), ".ResetStream(types.StreamConnectionFailed)") &&
				c09dSrc(ifs.Body.List[1]) == "end.OnDestroyStream()" {
				if r, isRet := ifs.Body.List[2].(*ast.ReturnStmt); isRet && len(r.Results) == 3 && types.ExprString(r.Results[2]) == "types.ConnectionFailure" {
					out = append(out, 51)
					continue
				}
			}
			body, err := c09dFlat(ifs.Body.List, inline, depth)
			if err != nil {
				return nil, err
			}
			switch {
			case len(body) == 1 && body[0] == 31 && strings.Contains(cond, "totalClientCount"):
				out = append(out, 32)
				continue
			case cond == `c != nil && reason == ""`:
				out = append(out, body...)
				continue
			case len(body) == 0 && c09dMentions(s) == "":
				continue
			}
			return nil, fmt.Errorf("unsupported if `%s`", cond)
		}
		if k := c09dMentions(s); k != "" {
			if _, isRange := s.(*ast.RangeStmt); isRange && k == "idleClients" {
				continue // removal from the idle list
			}
			return nil, fmt.Errorf("unsupported statement mentioning %s: %T", k, s)
		}
	}
	return out, nil
}

// c09dAfter: the statements of l after the first one whose source contains marker.
func c09dAfter(l []ast.Stmt, marker string) ([]ast.Stmt, bool) {
	for i, s := range l {
		found := false
		ast.Inspect(s, func(n ast.Node) bool {
			if e, ok := n.(ast.Expr); ok && strings.Contains(types.ExprString(e), marker) {
				found = true
			}
			return !found
		})
		if found {
			return l[i+1:], true
		}
	}
	return nil, false
}

func c09dFindIf(n ast.Node, cond string) *ast.IfStmt {
	var r *ast.IfStmt
	ast.Inspect(n, func(x ast.Node) bool {
		if i, ok := x.(*ast.IfStmt); ok && r == nil && types.ExprString(i.Cond) == cond {
			r = i
		}
		return r == nil
	})
	return r
}

func c09dGen() (string, error) {
	const ppsrc = "pkg/stream/xprotocol/connpool_pingpong.go"
	const mxsrc = "pkg/stream/xprotocol/connpool_multiplex.go"
	var sb strings.Builder
	sb.WriteString(header("PoolDial", ppsrc, mxsrc))
	f, err := parse(ppsrc)
	if err != nil {
		return "", err
	}
	dial := findFunc(f, "poolPingPong", "newActiveClient")
	get := findFunc(f, "poolPingPong", "GetActiveClient")
	ev := findFunc(f, "activeClientPingPong", "OnEvent")
	rm := findFunc(f, "activeClientPingPong", "removeFromPool")
	ns := findFunc(f, "poolPingPong", "NewStream")
	if dial == nil || get == nil || ev == nil || rm == nil || ns == nil {
		return "", fmt.Errorf("ping-pong pool: functions not found")
	}
	// 1. the dial window
	after, ok := c09dAfter(dial.Body.List, "Connection.Connect()")
	if !ok {
		return "", fmt.Errorf("newActiveClient: Connect() not found")
	}
	p1, err := c09dFlat(after, nil, 0)
	if err != nil {
		return "", fmt.Errorf("newActiveClient: %v", err)
	}
	branch := c09dFindIf(get, "maxConns == 0 || p.totalClientCount.Load() < maxConns")
	if branch == nil {
		return "", fmt.Errorf("GetActiveClient: dial branch not found")
	}
	unlockedBefore := false
	for _, s := range branch.Body.List {
		if c09dSimple(s) == 64 {
			unlockedBefore = true
		}
		if strings.Contains(c09dMentionsSrc(s), "newActiveClient") {
			break
		}
	}
	after, ok = c09dAfter(branch.Body.List, "p.newActiveClient(")
	if !ok {
		return "", fmt.Errorf("GetActiveClient: dial not found")
	}
	p2, err := c09dFlat(after, nil, 0)
	if err != nil {
		return "", fmt.Errorf("GetActiveClient: %v", err)
	}
	sb.WriteString(c09wList("ppDialProg", "poolPingPong: newActiveClient after Connect() succeeded, then GetActiveClient after newActiveClient returned", append(p1, p2...)))
	fmt.Fprintf(&sb, "/-- GetActiveClient releases clientMux before it dials -/\ndef ppDialUnlocked : Bool := %v\n", unlockedBefore)
	// 2. the close handler
	var closeBody []ast.Stmt
	ast.Inspect(ev, func(n ast.Node) bool {
		if cc, ok := n.(*ast.CaseClause); ok && len(cc.List) == 1 && types.ExprString(cc.List[0]) == "event.IsClose()" {
			closeBody = cc.Body
		}
		return closeBody == nil
	})
	if closeBody == nil {
		return "", fmt.Errorf("OnEvent: close branch not found")
	}
	var flatClose []ast.Stmt
	for _, s := range closeBody {
		if _, isSwitch := s.(*ast.SwitchStmt); isSwitch && c09dMentions(s) == "" {
			continue
		}
		flatClose = append(flatClose, s)
	}
	p3, err := c09dFlat(flatClose, map[string]*ast.FuncDecl{"ac.removeFromPool()": rm}, 0)
	if err != nil {
		return "", fmt.Errorf("OnEvent close branch: %v", err)
	}
	var p3c []int
	for _, c := range p3 {
		if c != 60 && c != 64 {
			p3c = append(p3c, c)
		}
	}
	sb.WriteString(c09wList("ppCloseProg", "activeClientPingPong.OnEvent, close branch, removeFromPool inlined (locks dropped)", p3c))
	// 3. NewStream from the registration of the end listener on
	var nsTail []ast.Stmt
	for i, s := range ns.Body.List {
		if c09dSimple(s) == 50 {
			nsTail = ns.Body.List[i:]
			break
		}
	}
	if nsTail == nil {
		return "", fmt.Errorf("NewStream: AddEventListener(end) not found")
	}
	var nsStmts []ast.Stmt
	for _, s := range nsTail {
		if i, ok := s.(*ast.IfStmt); ok && types.ExprString(i.Cond) == "receiver == nil" {
			continue // one-way: nothing is counted
		}
		if _, ok := s.(*ast.ReturnStmt); ok {
			continue
		}
		nsStmts = append(nsStmts, s)
	}
	p4, err := c09dFlat(nsStmts, nil, 0)
	if err != nil {
		return "", fmt.Errorf("NewStream: %v", err)
	}
	sb.WriteString(c09wList("ppNewStreamProg", "poolPingPong.NewStream from AddEventListener(end) to the closed test", p4))
	// 4. multiplex init and close handler
	g, err := parse(mxsrc)
	if err != nil {
		return "", err
	}
	ini := findFunc(g, "poolMultiplex", "init")
	oce := findFunc(g, "poolMultiplex", "onConnectionEvent")
	mdial := findFunc(g, "poolMultiplex", "newActiveClient")
	if ini == nil || oce == nil || mdial == nil {
		return "", fmt.Errorf("multiplex pool: functions not found")
	}
	var body []ast.Stmt
	ast.Inspect(ini, func(n ast.Node) bool {
		if fl, ok := n.(*ast.FuncLit); ok && body == nil {
			body = fl.Body.List
		}
		return body == nil
	})
	if body == nil {
		return "", fmt.Errorf("init: goroutine body not found")
	}
	var prog []int
	depth, deferred, dialDepth, storeDepth := 0, false, -1, -1
	skipsGoaway := false
	for _, s := range body {
		t := c09dSrc(s)
		switch {
		case c09dSimple(s) == 60:
			depth++
			prog = append(prog, 60)
		case c09dSimple(s) == 64:
			depth--
			prog = append(prog, 64)
		case func() bool { d, ok := s.(*ast.DeferStmt); return ok && strings.HasSuffix(types.ExprString(d.Call), "clientMux.Unlock()") }():
			deferred = true
		default:
			if as, ok := s.(*ast.AssignStmt); ok && len(as.Rhs) == 1 && strings.HasPrefix(types.ExprString(as.Rhs[0]), "p.newActiveClient(") {
				dialDepth = depth
				prog = append(prog, 62)
				continue
			}
			if i, ok := s.(*ast.IfStmt); ok {
				cond := types.ExprString(i.Cond)
				if cond == "p.shutdown" {
					prog = append(prog, 61)
					continue
				}
				if strings.HasPrefix(cond, "client != nil") && i.Else != nil && strings.Contains(c09dMentionsSrc(i.Body), "activeClients[index].Store(sub, client)") {
					storeDepth = depth
					skipsGoaway = strings.Contains(cond, "client.goaway) != GoAway")
					prog = append(prog, 63)
					continue
				}
				if c09dMentions(s) == "" {
					continue
				}
				return "", fmt.Errorf("init: unsupported if `%s`", cond)
			}
			if k := c09dMentions(s); k != "" {
				return "", fmt.Errorf("init: unsupported statement mentioning %s (%s)", k, t)
			}
		}
	}
	if deferred {
		prog = append(prog, 64)
	}
	if dialDepth < 0 || storeDepth < 0 {
		return "", fmt.Errorf("init: dial / store not found")
	}
	sb.WriteString(c09wList("mxInitProg", "poolMultiplex.init (60 lock, 61 shutdown test, 62 dial, 63 store Connected or delete, 64 unlock)", prog))
	fmt.Fprintf(&sb, "/-- init holds clientMux while it dials -/\ndef mxDialLocked : Bool := %v\n", dialDepth > 0)
	fmt.Fprintf(&sb, "/-- init holds clientMux while it stores the client -/\ndef mxStoreLocked : Bool := %v\n", storeDepth > 0)
	fmt.Fprintf(&sb, "/-- init does not store a client that was told to go away while it dialled -/\ndef mxInitSkipsGoaway : Bool := %v\n", skipsGoaway)
	// the close handler: `if state != GoAway { Lock; if cur == ac { Delete }; Unlock }`
	outer := c09dFindIf(oce, "atomic.LoadUint32(&ac.state) != GoAway")
	closeLocked := false
	if outer != nil && len(outer.Body.List) == 3 && c09dSimple(outer.Body.List[0]) == 60 && c09dSimple(outer.Body.List[2]) == 64 {
		if i, ok := outer.Body.List[1].(*ast.IfStmt); ok && strings.HasSuffix(types.ExprString(i.Cond), "ok && cur == ac") &&
			len(i.Body.List) == 1 && strings.HasSuffix(c09dSrc(i.Body.List[0]), ".Delete(ac.subProtocol)") {
			closeLocked = true
		}
	}
	if !closeLocked {
		return "", fmt.Errorf("onConnectionEvent: the guarded delete under clientMux was not recognised")
	}
	fmt.Fprintf(&sb, "/-- the close handler deletes the slot's entry under clientMux, only while it is this client, and not for a client in state GoAway -/\ndef mxCloseLocked : Bool := %v\n", closeLocked)
	md, err := c09dFlatAfterConnect(mdial)
	if err != nil {
		return "", err
	}
	sb.WriteString(c09wList("mxDialProg", "poolMultiplex.newActiveClient after Connect() succeeded", md))
	sb.WriteString(footer("PoolDial"))
	return sb.String(), nil
}

func c09dFlatAfterConnect(fd *ast.FuncDecl) ([]int, error) {
	after, ok := c09dAfter(fd.Body.List, "codecClient.Connect()")
	if !ok {
		return nil, fmt.Errorf("multiplex newActiveClient: Connect() not found")
	}
	return c09dFlat(after, nil, 0)
}

// c09dMentionsSrc: the source text of every expression below n, joined (for substring tests).
func c09dMentionsSrc(n ast.Node) string {
	var sb strings.Builder
	ast.Inspect(n, func(x ast.Node) bool {
		if e, ok := x.(ast.Expr); ok {
			sb.WriteString(types.ExprString(e))
			sb.WriteByte(' ')
		}
		return true
	})
	return sb.String()
}
