-- translation-unsupported Transfer: open -out/pkg/network/transfer.go: no such file or directory
namespace MosnVerif.Gen.Transfer
end MosnVerif.Gen.Transfer
