package main

// Gen module GaugeSites (C10, builder c10r7): EVERY movement of a metrics counter / gauge (`<owner>.<Metric>.Inc(n)`,
// `.Dec(n)`, `.Update(x)`) in the non-test Go files of pkg/proxy and in the connection pools
// (pkg/stream/{http,http2,xprotocol}/connpool*.go), together with the CONDITION LIST it is nested under:
//   - the condition of every enclosing `if` (negated in the else branch),
//   - the negated condition of every earlier `if … { …; return }` of an enclosing block (early-return guard),
//   - the clause of an enclosing switch / select, an enclosing loop, an enclosing closure (defer / go / func literal).
// Beside it the call sites (with their condition lists) of the functions that carry the per-request gauge movements
// (newActiveStream, requestMetrics, cleanStream): the ledger of C10 counts "+1 when the request is created, -1 when it is
// cleaned" for EVERY valuation of the request-info flags only if the regenerated movements of a gauge are condition-matched.

import (
	"fmt"
	"go/ast"
	"go/token"
	"os"
	"path/filepath"
	"sort"
	"strings"
)

func init() { register("GaugeSites", c10r7GenGaugeSites) }

type c10r7Lit struct {
	neg  bool
	atom string
}

type c10r7Move struct {
	file, fn, owner, metric, op, amount string
	conds                               []c10r7Lit
	line                                int
}

type c10r7Call struct {
	file, caller, callee string
	conds                []c10r7Lit
	line                 int
}

var c10r7Callees = map[string]bool{"newActiveStream": true, "requestMetrics": true, "cleanStream": true, "DownstreamUpdateRequestCode": true}

type c10r7Walker struct {
	file, fn string
	moves    *[]c10r7Move
	calls    *[]c10r7Call
}

func c10r7LitOf(e ast.Expr, neg bool) c10r7Lit {
	for {
		switch x := e.(type) {
		case *ast.ParenExpr:
			e = x.X
			continue
		case *ast.UnaryExpr:
			if x.Op == token.NOT {
				e = x.X
				neg = !neg
				continue
			}
		}
		break
	}
	return c10r7Lit{neg, src(e)}
}

func c10r7With(c []c10r7Lit, l c10r7Lit) []c10r7Lit {
	out := make([]c10r7Lit, 0, len(c)+1)
	out = append(out, c...)
	return append(out, l)
}

func c10r7Owner(x string) string {
	switch {
	case strings.Contains(x, "listenerStats"):
		return "listener"
	case strings.HasSuffix(x, ".stats") || x == "s":
		return "proxy"
	case strings.HasSuffix(x, "HostStats()"):
		return "host"
	case strings.HasSuffix(x, ".Stats()"):
		return "cluster"
	}
	return "other"
}

// c10r7Terminates: the block always leaves the enclosing function / loop iteration
func c10r7Terminates(b *ast.BlockStmt) bool {
	if b == nil || len(b.List) == 0 {
		return false
	}
	switch x := b.List[len(b.List)-1].(type) {
	case *ast.ReturnStmt:
		return true
	case *ast.BranchStmt:
		return x.Tok == token.CONTINUE || x.Tok == token.BREAK || x.Tok == token.GOTO
	case *ast.ExprStmt:
		if ce, ok := x.X.(*ast.CallExpr); ok {
			if id, ok := ce.Fun.(*ast.Ident); ok && id.Name == "panic" {
				return true
			}
		}
	}
	return false
}

// exprs: record the movements and calls inside an expression / simple statement (closures are walked as blocks)
func (w *c10r7Walker) exprs(n ast.Node, conds []c10r7Lit) {
	if n == nil {
		return
	}
	ast.Inspect(n, func(m ast.Node) bool {
		switch x := m.(type) {
		case *ast.FuncLit:
			w.block(x.Body.List, c10r7With(conds, c10r7Lit{false, "closure"}))
			return false
		case *ast.CallExpr:
			se, ok := x.Fun.(*ast.SelectorExpr)
			if !ok {
				if id, ok := x.Fun.(*ast.Ident); ok && c10r7Callees[id.Name] {
					*w.calls = append(*w.calls, c10r7Call{w.file, w.fn, id.Name, conds, fset.Position(x.Pos()).Line})
				}
				return true
			}
			if c10r7Callees[se.Sel.Name] {
				*w.calls = append(*w.calls, c10r7Call{w.file, w.fn, se.Sel.Name, conds, fset.Position(x.Pos()).Line})
				return true
			}
			op := map[string]string{"Inc": "inc", "Dec": "dec", "Update": "update"}[se.Sel.Name]
			if op == "" || len(x.Args) != 1 {
				return true
			}
			ms, ok := se.X.(*ast.SelectorExpr)
			if !ok || !ast.IsExported(ms.Sel.Name) {
				return true
			}
			*w.moves = append(*w.moves, c10r7Move{w.file, w.fn, c10r7Owner(src(ms.X)), ms.Sel.Name, op, src(x.Args[0]), conds, fset.Position(x.Pos()).Line})
		}
		return true
	})
}

func (w *c10r7Walker) block(stmts []ast.Stmt, conds []c10r7Lit) {
	for _, st := range stmts {
		conds = w.stmt(st, conds)
	}
}

// stmt walks one statement under conds and returns the conditions of the statements that follow it in the same block
func (w *c10r7Walker) stmt(st ast.Stmt, conds []c10r7Lit) []c10r7Lit {
	switch x := st.(type) {
	case *ast.IfStmt:
		if x.Init != nil {
			w.exprs(x.Init, conds)
		}
		w.exprs(x.Cond, conds)
		pos, neg := c10r7LitOf(x.Cond, false), c10r7LitOf(x.Cond, true)
		w.block(x.Body.List, c10r7With(conds, pos))
		thenEnds := c10r7Terminates(x.Body)
		elseEnds := false
		switch e := x.Else.(type) {
		case *ast.BlockStmt:
			w.block(e.List, c10r7With(conds, neg))
			elseEnds = c10r7Terminates(e)
		case *ast.IfStmt:
			w.stmt(e, c10r7With(conds, neg))
		}
		if thenEnds && !elseEnds {
			return c10r7With(conds, neg)
		}
		if elseEnds && !thenEnds {
			return c10r7With(conds, pos)
		}
	case *ast.BlockStmt:
		w.block(x.List, conds)
	case *ast.ForStmt:
		if x.Init != nil {
			w.exprs(x.Init, conds)
		}
		hd := "loop"
		if x.Cond != nil {
			hd = "loop " + src(x.Cond)
		}
		in := c10r7With(conds, c10r7Lit{false, hd})
		if x.Post != nil {
			w.exprs(x.Post, in)
		}
		w.block(x.Body.List, in)
	case *ast.RangeStmt:
		w.exprs(x.X, conds)
		w.block(x.Body.List, c10r7With(conds, c10r7Lit{false, "range " + src(x.X)}))
	case *ast.SwitchStmt:
		if x.Init != nil {
			w.exprs(x.Init, conds)
		}
		tag := ""
		if x.Tag != nil {
			w.exprs(x.Tag, conds)
			tag = src(x.Tag) + " "
		}
		for _, c := range x.Body.List {
			cc := c.(*ast.CaseClause)
			var es []string
			for _, e := range cc.List {
				es = append(es, src(e))
			}
			lbl := "switch " + tag + "default"
			if len(es) > 0 {
				lbl = "switch " + tag + "case " + strings.Join(es, ", ")
			}
			w.block(cc.Body, c10r7With(conds, c10r7Lit{false, lbl}))
		}
	case *ast.TypeSwitchStmt:
		for _, c := range x.Body.List {
			cc := c.(*ast.CaseClause)
			var es []string
			for _, e := range cc.List {
				es = append(es, src(e))
			}
			w.block(cc.Body, c10r7With(conds, c10r7Lit{false, "typeswitch " + src(x.Assign) + " case " + strings.Join(es, ", ")}))
		}
	case *ast.SelectStmt:
		for _, c := range x.Body.List {
			cc := c.(*ast.CommClause)
			lbl := "select default"
			if cc.Comm != nil {
				lbl = "select " + src(cc.Comm)
			}
			w.block(cc.Body, c10r7With(conds, c10r7Lit{false, lbl}))
		}
	case *ast.LabeledStmt:
		return w.stmt(x.Stmt, conds)
	case *ast.DeferStmt:
		if fl, ok := x.Call.Fun.(*ast.FuncLit); ok {
			w.block(fl.Body.List, c10r7With(conds, c10r7Lit{false, "defer"}))
			for _, a := range x.Call.Args {
				w.exprs(a, conds)
			}
		} else {
			w.exprs(x.Call, c10r7With(conds, c10r7Lit{false, "defer"}))
		}
	case *ast.GoStmt:
		w.exprs(x.Call, c10r7With(conds, c10r7Lit{false, "go"}))
	default:
		w.exprs(st, conds)
	}
	return conds
}

func c10r7FnName(fd *ast.FuncDecl) string {
	name := fd.Name.Name
	if fd.Recv != nil && len(fd.Recv.List) == 1 {
		rt := fd.Recv.List[0].Type
		if st, ok := rt.(*ast.StarExpr); ok {
			rt = st.X
		}
		name = src(rt) + "." + name
	}
	return name
}

func c10r7Lits(c []c10r7Lit) string {
	var p []string
	for _, l := range c {
		p = append(p, fmt.Sprintf("⟨%v, %q⟩", l.neg, l.atom))
	}
	return "[" + strings.Join(p, ", ") + "]"
}

func c10r7GenGaugeSites() (string, error) {
	var files []string
	ents, err := os.ReadDir(filepath.Join(repo, "pkg/proxy"))
	if err != nil {
		return "", err
	}
	for _, e := range ents {
		n := e.Name()
		if !e.IsDir() && strings.HasSuffix(n, ".go") && !strings.HasSuffix(n, "_test.go") && !strings.HasPrefix(n, "verif_") {
			files = append(files, "pkg/proxy/"+n)
		}
	}
	for _, d := range []string{"pkg/stream/http", "pkg/stream/http2", "pkg/stream/xprotocol"} {
		ents, err := os.ReadDir(filepath.Join(repo, d))
		if err != nil {
			return "", err
		}
		for _, e := range ents {
			n := e.Name()
			if !e.IsDir() && strings.HasPrefix(n, "connpool") && strings.HasSuffix(n, ".go") && !strings.HasSuffix(n, "_test.go") {
				files = append(files, d+"/"+n)
			}
		}
	}
	sort.Strings(files)
	var moves []c10r7Move
	var calls []c10r7Call
	for _, rel := range files {
		f, err := parse(rel)
		if err != nil {
			return "", err
		}
		for _, d := range f.Decls {
			fd, ok := d.(*ast.FuncDecl)
			if !ok || fd.Body == nil {
				continue
			}
			w := &c10r7Walker{file: rel, fn: c10r7FnName(fd), moves: &moves, calls: &calls}
			w.block(fd.Body.List, nil)
		}
	}
	if len(moves) == 0 {
		return "", fmt.Errorf("no counter movement found under pkg/proxy")
	}
	sort.SliceStable(moves, func(i, j int) bool {
		if moves[i].file != moves[j].file {
			return moves[i].file < moves[j].file
		}
		return moves[i].line < moves[j].line
	})
	sort.SliceStable(calls, func(i, j int) bool {
		if calls[i].file != calls[j].file {
			return calls[i].file < calls[j].file
		}
		return calls[i].line < calls[j].line
	})
	s := header("GaugeSites", "pkg/proxy/*.go, pkg/stream/{http,http2,xprotocol}/connpool*.go (every <owner>.<Metric>.Inc/Dec/Update with its enclosing conditions)")
	s += "/-- one literal of a condition list: the Go text of the condition (`atom`), negated or not -/\n"
	s += "structure Lit where\n  neg : Bool\n  atom : String\n  deriving DecidableEq, Repr\n"
	s += "inductive Owner where\n  | proxy | listener | host | cluster | other\n  deriving DecidableEq, Repr\n"
	s += "inductive Op where\n  | inc | dec | update\n  deriving DecidableEq, Repr\n"
	s += "structure Move where\n  file : String\n  fn : String\n  owner : Owner\n  metric : String\n  op : Op\n  amount : String\n  gauge : Bool\n  conds : List Lit\n  deriving DecidableEq, Repr\n"
	s += "structure Call where\n  file : String\n  caller : String\n  callee : String\n  conds : List Lit\n  deriving DecidableEq, Repr\n"
	s += "/-- every counter / gauge movement, in source order per file (`gauge`: the metric's name ends in `Active`) -/\ndef moves : List Move := [\n"
	for i, m := range moves {
		sep := ","
		if i == len(moves)-1 {
			sep = ""
		}
		s += fmt.Sprintf("  ⟨%q, %q, .%s, %q, .%s, %q, %v, %s⟩%s\n", m.file, m.fn, m.owner, m.metric, m.op, m.amount, strings.HasSuffix(m.metric, "Active"), c10r7Lits(m.conds), sep)
	}
	s += "]\n"
	s += "/-- call sites of newActiveStream / requestMetrics / cleanStream / DownstreamUpdateRequestCode -/\ndef calls : List Call := [\n"
	for i, c := range calls {
		sep := ","
		if i == len(calls)-1 {
			sep = ""
		}
		s += fmt.Sprintf("  ⟨%q, %q, %q, %s⟩%s\n", c.file, c.caller, c.callee, c10r7Lits(c.conds), sep)
	}
	s += "]\n"
	s += footer("GaugeSites")
	return s, nil
}
