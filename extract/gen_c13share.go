package main

// C13 (c13m10, sds contexts sharing secret names): regenerates Gen/TlsShare.lean:
//   - serverIndex name n : the `index` NewTLSServerContextManager hands to NewProvider for the n-th tls context of the
//     listener `name` (pkg/mtls/tls_context_manager.go): the index expression is translated operand by operand
//     (string constants / literals, cfg.Name, strconv.Itoa(<position counter>)); the counter must be a local set to 0
//     before the loops and incremented exactly once, unconditionally, per tls context
//   - clientIndex name : the index of NewTLSClientContextManager
//   - cacheKey val cert index : what the provider cache is keyed by (pkg/mtls/secret_manager.go: mng.validations[…],
//     v.certificates[…], pp.sdsProviders[…])
// Any other shape is an error => translation-unsupported => broken tie. Helper names carry the prefix c13h.

import (
	"fmt"
	"go/ast"
	"go/token"
	"strconv"
	"strings"
)

func init() { register("TlsShare", genC13hShare) }

func c13hChars(s string) string {
	var cs []string
	for _, r := range s {
		if r < 0x20 || r > 0x7e || r == '\'' || r == '\\' {
			return ""
		}
		cs = append(cs, "'"+string(r)+"'")
	}
	return "[" + strings.Join(cs, ", ") + "]"
}

// c13hStrConst finds `const name = "…"` in the file.
func c13hStrConst(f *ast.File, name string) (string, bool) {
	for _, d := range f.Decls {
		gd, ok := d.(*ast.GenDecl)
		if !ok || gd.Tok != token.CONST {
			continue
		}
		for _, sp := range gd.Specs {
			vs := sp.(*ast.ValueSpec)
			for i, n := range vs.Names {
				if n.Name == name && i < len(vs.Values) {
					if bl, ok := vs.Values[i].(*ast.BasicLit); ok && bl.Kind == token.STRING {
						s, err := strconv.Unquote(bl.Value)
						return s, err == nil
					}
				}
			}
		}
	}
	return "", false
}

// c13hIndexExpr renders a string concatenation over constants, literals, the listener / cluster name and
// strconv.Itoa(counter) as a Lean `List Char`; usesCounter reports whether the counter occurs.
func c13hIndexExpr(f *ast.File, e ast.Expr, nameKey, counter string) (string, bool, error) {
	switch x := e.(type) {
	case *ast.ParenExpr:
		return c13hIndexExpr(f, x.X, nameKey, counter)
	case *ast.BinaryExpr:
		if x.Op != token.ADD {
			return "", false, fmt.Errorf("index expression: operator %v", x.Op)
		}
		l, ul, err := c13hIndexExpr(f, x.X, nameKey, counter)
		if err != nil {
			return "", false, err
		}
		r, ur, err := c13hIndexExpr(f, x.Y, nameKey, counter)
		if err != nil {
			return "", false, err
		}
		return l + " ++ " + r, ul || ur, nil
	case *ast.BasicLit:
		if x.Kind == token.STRING {
			if s, err := strconv.Unquote(x.Value); err == nil {
				if c := c13hChars(s); c != "" {
					return c, false, nil
				}
			}
		}
		return "", false, fmt.Errorf("index expression: literal %s", x.Value)
	case *ast.Ident:
		if x.Name == nameKey {
			return "name", false, nil
		}
		if s, ok := c13hStrConst(f, x.Name); ok {
			if c := c13hChars(s); c != "" {
				return c, false, nil
			}
		}
		return "", false, fmt.Errorf("index expression: identifier %s", x.Name)
	case *ast.SelectorExpr:
		if exprKey(x) == nameKey {
			return "name", false, nil
		}
		return "", false, fmt.Errorf("index expression: selector %s", exprKey(x))
	case *ast.CallExpr:
		if exprKey(x.Fun) == "strconv.Itoa" && len(x.Args) == 1 && counter != "" && exprKey(x.Args[0]) == counter {
			return "(Nat.repr n).toList", true, nil
		}
		return "", false, fmt.Errorf("index expression: call %s", callKey(x))
	}
	return "", false, fmt.Errorf("index expression: %T", e)
}

func genC13hShare() (string, error) {
	const (
		mngSrc = "pkg/mtls/tls_context_manager.go"
		secSrc = "pkg/mtls/secret_manager.go"
	)
	f, err := parse(mngSrc)
	if err != nil {
		return "", err
	}
	s := header("TlsShare", mngSrc+" (NewTLSServerContextManager, NewTLSClientContextManager: the provider index)", secSrc+" (the provider cache keys)")

	// ---- 1. NewTLSServerContextManager: the index of the n-th context
	fd := findFunc(f, "", "NewTLSServerContextManager")
	if fd == nil || len(fd.Type.Params.List) != 1 || len(fd.Type.Params.List[0].Names) != 1 {
		return "", fmt.Errorf("NewTLSServerContextManager not found / unexpected parameters")
	}
	cfg := fd.Type.Params.List[0].Names[0].Name
	var outer *ast.RangeStmt
	for _, st := range fd.Body.List {
		if r, ok := st.(*ast.RangeStmt); ok && exprKey(r.X) == cfg+".FilterChains" {
			if outer != nil {
				return "", fmt.Errorf("NewTLSServerContextManager: two loops over FilterChains")
			}
			outer = r
		}
	}
	if outer == nil || len(outer.Body.List) != 1 {
		return "", fmt.Errorf("NewTLSServerContextManager: the loop over %s.FilterChains with the single inner loop not found", cfg)
	}
	inner, ok := outer.Body.List[0].(*ast.RangeStmt)
	if !ok || !strings.HasSuffix(exprKey(inner.X), ".TLSContexts") {
		return "", fmt.Errorf("NewTLSServerContextManager: inner loop over TLSContexts not found")
	}
	// the NewProvider call and its index argument
	var call *ast.CallExpr
	ncalls := 0
	ast.Inspect(fd.Body, func(n ast.Node) bool {
		if c, ok := n.(*ast.CallExpr); ok && exprKey(c.Fun) == "NewProvider" {
			ncalls++
			call = c
		}
		return true
	})
	if ncalls != 1 || len(call.Args) != 2 {
		return "", fmt.Errorf("NewTLSServerContextManager: expected exactly one NewProvider(index, cfg) call")
	}
	idxExpr := call.Args[0]
	callAt, defAt := -1, -1
	for i, st := range inner.Body.List {
		found := false
		ast.Inspect(st, func(n ast.Node) bool {
			if n == ast.Node(call) {
				found = true
			}
			return !found
		})
		if found {
			callAt = i
		}
	}
	if callAt < 0 {
		return "", fmt.Errorf("NewTLSServerContextManager: NewProvider is not called in the loop over the contexts")
	}
	if id, ok := idxExpr.(*ast.Ident); ok {
		// index := EXPR as a top-level statement of the loop body
		for i, st := range inner.Body.List {
			if as, ok := st.(*ast.AssignStmt); ok && len(as.Lhs) == 1 && len(as.Rhs) == 1 && exprKey(as.Lhs[0]) == id.Name {
				if defAt >= 0 || as.Tok != token.DEFINE {
					return "", fmt.Errorf("NewTLSServerContextManager: %s is assigned more than once", id.Name)
				}
				defAt = i
				idxExpr = as.Rhs[0]
			}
		}
		if defAt < 0 || defAt > callAt {
			return "", fmt.Errorf("NewTLSServerContextManager: definition of %s not found before NewProvider", id.Name)
		}
	}
	// the position counter: a variable used under strconv.Itoa in the index expression
	counter := ""
	ast.Inspect(idxExpr, func(n ast.Node) bool {
		if c, ok := n.(*ast.CallExpr); ok && exprKey(c.Fun) == "strconv.Itoa" && len(c.Args) == 1 {
			if id, ok := c.Args[0].(*ast.Ident); ok {
				counter = id.Name
			}
		}
		return true
	})
	if counter != "" {
		// `counter := 0` before the loops, one top-level `counter++` in the inner body before any statement that can leave the
		// iteration, no other write
		init0, incs, other := false, 0, 0
		for _, st := range fd.Body.List {
			if as, ok := st.(*ast.AssignStmt); ok && as.Tok == token.DEFINE && len(as.Lhs) == 1 && exprKey(as.Lhs[0]) == counter {
				if bl, ok := as.Rhs[0].(*ast.BasicLit); ok && bl.Value == "0" && st.Pos() < outer.Pos() {
					init0 = true
				}
			}
		}
		for _, st := range inner.Body.List {
			if ids, ok := st.(*ast.IncDecStmt); ok && ids.Tok == token.INC && exprKey(ids.X) == counter {
				incs++
				continue
			}
			if incs == 0 && (containsReturn(st) || containsBranch(st)) {
				return "", fmt.Errorf("NewTLSServerContextManager: an iteration can end before %s++", counter)
			}
		}
		ast.Inspect(fd.Body, func(n ast.Node) bool {
			switch x := n.(type) {
			case *ast.AssignStmt:
				for _, l := range x.Lhs {
					if exprKey(l) == counter {
						other++
					}
				}
			case *ast.IncDecStmt:
				if exprKey(x.X) == counter {
					other++
				}
			case *ast.UnaryExpr:
				if x.Op == token.AND && exprKey(x.X) == counter {
					other += 10
				}
			}
			return true
		})
		if !init0 || incs != 1 || other != 2 {
			return "", fmt.Errorf("NewTLSServerContextManager: %s is not `%s := 0` before the loops plus one unconditional `%s++` per tls context", counter, counter, counter)
		}
	}
	idx, uses, err := c13hIndexExpr(f, idxExpr, cfg+".Name", counter)
	if err != nil {
		return "", fmt.Errorf("NewTLSServerContextManager: %v", err)
	}
	s += "/-- NewTLSServerContextManager: the `index` handed to NewProvider for the tls context at position n (counted over all\nfilter chains) of the listener `name`"
	if !uses {
		s += " — the position does NOT enter it"
	}
	s += " -/\n"
	s += "def serverIndex (name : List Char) (n : Nat) : List Char := " + idx + "\n"

	// ---- 2. NewTLSClientContextManager
	fc := findFunc(f, "", "NewTLSClientContextManager")
	if fc == nil || len(fc.Type.Params.List) < 1 || len(fc.Type.Params.List[0].Names) < 1 {
		return "", fmt.Errorf("NewTLSClientContextManager not found")
	}
	cname := fc.Type.Params.List[0].Names[0].Name
	var ccall *ast.CallExpr
	ncalls = 0
	ast.Inspect(fc.Body, func(n ast.Node) bool {
		if c, ok := n.(*ast.CallExpr); ok && exprKey(c.Fun) == "NewProvider" {
			ncalls++
			ccall = c
		}
		return true
	})
	if ncalls != 1 || len(ccall.Args) != 2 {
		return "", fmt.Errorf("NewTLSClientContextManager: expected exactly one NewProvider(index, cfg) call")
	}
	cidx, _, err := c13hIndexExpr(f, ccall.Args[0], cname, "")
	if err != nil {
		return "", fmt.Errorf("NewTLSClientContextManager: %v", err)
	}
	s += "/-- NewTLSClientContextManager: the `index` of the cluster's provider -/\n"
	s += "def clientIndex (name : List Char) : List Char := " + cidx + "\n"

	// ---- 3. the cache keys
	sf, err := parse(secSrc)
	if err != nil {
		return "", err
	}
	pem := findFunc(sf, "secretManager", "addOrUpdatePemProvider")
	sdp := findFunc(sf, "pemProvider", "addOrUpdateSdsProvider")
	if pem == nil || sdp == nil {
		return "", fmt.Errorf("addOrUpdatePemProvider / addOrUpdateSdsProvider not found")
	}
	lookups := func(fd *ast.FuncDecl, m string) []string {
		var ks []string
		ast.Inspect(fd.Body, func(n ast.Node) bool {
			if ix, ok := n.(*ast.IndexExpr); ok && exprKey(ix.X) == m {
				ks = append(ks, exprKey(ix.Index))
			}
			return true
		})
		return ks
	}
	same := func(ks []string, want string) bool {
		if len(ks) == 0 {
			return false
		}
		for _, k := range ks {
			if k != want {
				return false
			}
		}
		return true
	}
	defOf := func(fd *ast.FuncDecl, v string) []string {
		var rs []string
		ast.Inspect(fd.Body, func(n ast.Node) bool {
			if as, ok := n.(*ast.AssignStmt); ok && len(as.Lhs) == 1 && len(as.Rhs) == 1 && exprKey(as.Lhs[0]) == v {
				rs = append(rs, exprKey(as.Rhs[0]))
			}
			return true
		})
		return rs
	}
	if len(pem.Type.Params.List) != 1 || len(pem.Type.Params.List[0].Names) != 1 {
		return "", fmt.Errorf("addOrUpdatePemProvider: parameters")
	}
	sc := pem.Type.Params.List[0].Names[0].Name
	if !same(lookups(pem, "mng.validations"), "validationName") || strings.Join(defOf(pem, "validationName"), "|") != "systemValidation|"+sc+".ValidationConfig.Name" {
		return "", fmt.Errorf("addOrUpdatePemProvider: mng.validations is not keyed by the validation secret name (or `system`)")
	}
	if !same(lookups(pem, "v.certificates"), "certName") || strings.Join(defOf(pem, "certName"), "|") != sc+".CertificateConfig.Name" {
		return "", fmt.Errorf("addOrUpdatePemProvider: v.certificates is not keyed by the certificate secret name")
	}
	if len(sdp.Type.Params.List) < 1 || len(sdp.Type.Params.List[0].Names) < 1 {
		return "", fmt.Errorf("addOrUpdateSdsProvider: parameters")
	}
	ip := sdp.Type.Params.List[0].Names[0].Name
	if !same(lookups(sdp, "pp.sdsProviders"), ip) {
		return "", fmt.Errorf("addOrUpdateSdsProvider: pp.sdsProviders is not keyed by the index parameter")
	}
	s += "/-- the provider cache: secretManager.validations[validation secret name | `system`].certificates[certificate secret\nname].sdsProviders[index] -/\n"
	s += "def cacheKey (val cert index : List Char) : List Char × List Char × List Char := (val, cert, index)\n"
	// ---- 4. the client-authentication mode of EVERY kind of context: which fields GetClientAuth reads, and that every
	// context is built through newTLSContext -> SetServerConfig -> hooks.GetClientAuth(cfg) with its own configuration
	{
		hf, err := parse("pkg/mtls/confighook.go")
		if err != nil {
			return "", err
		}
		ga := findFunc(hf, "defaultConfigHooks", "GetClientAuth")
		if ga == nil || len(ga.Type.Params.List) != 1 || len(ga.Type.Params.List[0].Names) != 1 {
			return "", fmt.Errorf("GetClientAuth not found / unexpected parameters")
		}
		gp := ga.Type.Params.List[0].Names[0].Name
		reads := map[string]bool{}
		bare := false
		ast.Inspect(ga.Body, func(n ast.Node) bool {
			switch x := n.(type) {
			case *ast.SelectorExpr:
				k := exprKey(x)
				if strings.HasPrefix(k, gp+".") {
					reads[strings.TrimPrefix(k, gp+".")] = true
					return false
				}
			case *ast.Ident:
				if x.Name == gp {
					bare = true // the configuration escapes as a whole (passed on, compared, …)
				}
			}
			return true
		})
		if bare {
			return "", fmt.Errorf("GetClientAuth: the configuration is used as a whole, not field by field")
		}
		var rs []string
		for k := range reads {
			rs = append(rs, strconv.Quote(k))
		}
		sortStringsC13h(rs)
		s += "/-- the fields of the tls configuration `defaultConfigHooks.GetClientAuth` reads (confighook.go) -/\n"
		s += "def getClientAuthReads : List String := [" + strings.Join(rs, ", ") + "]\n"

		cf, err := parse("pkg/mtls/tls_context.go")
		if err != nil {
			return "", err
		}
		ssc := findFunc(cf, "tlsContext", "SetServerConfig")
		if ssc == nil || len(ssc.Type.Params.List) != 3 {
			return "", fmt.Errorf("SetServerConfig not found / unexpected parameters")
		}
		cfgP := ssc.Type.Params.List[1].Names[0].Name
		hooksP := ssc.Type.Params.List[2].Names[0].Name
		at := -1
		for i, st := range ssc.Body.List {
			if as, ok := st.(*ast.AssignStmt); ok && len(as.Lhs) == 1 && len(as.Rhs) == 1 && exprKey(as.Lhs[0]) == "tlsConfig.ClientAuth" {
				if !isCall(as.Rhs[0], hooksP+".GetClientAuth", cfgP) || at >= 0 {
					return "", fmt.Errorf("SetServerConfig: tlsConfig.ClientAuth is not set once from %s.GetClientAuth(%s)", hooksP, cfgP)
				}
				at = i
			}
		}
		if at < 0 {
			return "", fmt.Errorf("SetServerConfig: tlsConfig.ClientAuth = %s.GetClientAuth(%s) not found as a top-level statement", hooksP, cfgP)
		}
		for _, st := range ssc.Body.List[:at] {
			switch x := st.(type) {
			case *ast.AssignStmt:
				if !(len(x.Lhs) == 1 && exprKey(x.Lhs[0]) == "tlsConfig" && isCall(x.Rhs[0], "tmpl.Clone")) {
					return "", fmt.Errorf("SetServerConfig: unexpected statement before the ClientAuth assignment")
				}
			case *ast.IfStmt:
				if exprKey(x.Cond) != "?*ast.BinaryExpr" || !containsReturn(x) || c13mCountSel(x.Cond, "Certificates") != 1 {
					return "", fmt.Errorf("SetServerConfig: a guard other than the no-certificate one precedes the ClientAuth assignment")
				}
			default:
				return "", fmt.Errorf("SetServerConfig: unexpected statement before the ClientAuth assignment")
			}
		}
		ast.Inspect(ssc.Body, func(n ast.Node) bool {
			if as, ok := n.(*ast.AssignStmt); ok {
				for _, l := range as.Lhs {
					if exprKey(l) == "tlsConfig.ClientAuth" && n != ast.Node(ssc.Body.List[at]) {
						at = -2
					}
				}
			}
			return true
		})
		if at == -2 {
			return "", fmt.Errorf("SetServerConfig: tlsConfig.ClientAuth is assigned a second time")
		}
		ntc := findFunc(cf, "", "newTLSContext")
		if ntc == nil || len(ntc.Type.Params.List) != 2 {
			return "", fmt.Errorf("newTLSContext not found")
		}
		ncfg := ntc.Type.Params.List[0].Names[0].Name
		okSSC := 0
		ast.Inspect(ntc.Body, func(n ast.Node) bool {
			if c, ok := n.(*ast.CallExpr); ok && exprKey(c.Fun) == "ctx.SetServerConfig" {
				if len(c.Args) == 3 && exprKey(c.Args[1]) == ncfg {
					okSSC++
				} else {
					okSSC += 100
				}
			}
			return true
		})
		if okSSC != 1 {
			return "", fmt.Errorf("newTLSContext: ctx.SetServerConfig(tmpl, %s, hooks) is not called exactly once with the context's own configuration", ncfg)
		}
		// the two constructors of a context: the static branch of NewProvider and sdsProvider.update
		count := func(rel string) (int, error) {
			pf, err := parse(rel)
			if err != nil {
				return 0, err
			}
			return c13sCountCalls(pf, "newTLSContext"), nil
		}
		n1, err := count("pkg/mtls/provider.go")
		if err != nil {
			return "", err
		}
		n2, err := count(secSrc)
		if err != nil {
			return "", err
		}
		if n1 != 1 || n2 != 1 {
			return "", fmt.Errorf("newTLSContext is called %d times in provider.go and %d times in secret_manager.go (expected 1 and 1)", n1, n2)
		}
		s += "/-- every context — static (NewProvider) or sds (sdsProvider.update), whatever its trust anchors — is built by\nnewTLSContext, whose SetServerConfig sets tls.Config.ClientAuth once, unconditionally (after the no-certificate guard),\nfrom hooks.GetClientAuth(<the context's own configuration>) -/\n"
		s += "def clientAuthFromHookForEveryContext : Bool := true\n"
	}
	s += footer("TlsShare")
	return s, nil
}

func sortStringsC13h(l []string) {
	for i := 1; i < len(l); i++ {
		for j := i; j > 0 && l[j] < l[j-1]; j-- {
			l[j], l[j-1] = l[j-1], l[j]
		}
	}
}
