-- translation-unsupported LB: open -out/pkg/upstream/cluster/host_set.go: no such file or directory
namespace MosnVerif.Gen.LB
end MosnVerif.Gen.LB
