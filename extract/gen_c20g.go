package main

// Gen/RedactGuards.lean (C20, totality of the redaction walker): every CONDITION under which a typed element of the
// configuration can be copied into a dump WITHOUT passing through its redact function, read off the Go AST of
// pkg/configmanager/redact.go (+ redactTLSConfig of effectiveconfig.go):
//   redactGuards : every control construct of every redaction function — `if` (with what its body ends in: return /
//                  continue / break / plain block, and whether there is an else), loops (range subject, 3-clause for),
//                  switches / type switches with their clause lists (default included), bare continue / break / goto,
//                  returns that are not the last statement, anything else that can divert control (defer, go, labels,
//                  function literals). Conditions are normalised into a small tag language (`empty:P`, `nonempty:P`,
//                  `changed`, `keyset:P`); everything else is printed verbatim as `cond:<text>` and is NOT benign.
//   guardVars    : the declared type of every parameter of those functions (to type-check `empty:src`).
//   redactCalls  : every call of a redact* function with its argument, by calling function (a dropped call changes it).
// The model (Model/RedactGuards.lean) accepts only guards that imply "nothing to redact here" by construction
// (empty container / nil pointer, unchanged walker result, empty key); Props/C20 redaction_total is proved for the
// regenerated table and stops checking when an attribute test (`l.Network == "udp"`, `!tls.Status`, a cluster type …)
// appears in front of a redact call. redactedRawJSON is covered by Gen/RawRedact (steps). All helpers prefixed c20g.

import (
	"fmt"
	"go/ast"
	"go/token"
	"sort"
	"strconv"
	"strings"
)

func init() {
	register("RedactGuards", c20gGen)
}

type c20gRow struct{ fn, ctl, tag, detail string }

func c20gPath(e ast.Expr) (string, bool) {
	e = c20rUnparen(e)
	switch x := e.(type) {
	case *ast.Ident:
		return x.Name, true
	case *ast.SelectorExpr:
		p, ok := c20gPath(x.X)
		return p + "." + x.Sel.Name, ok
	case *ast.StarExpr:
		return c20gPath(x.X)
	}
	return "", false
}

// c20gLenOf: `len(P)` -> P
func c20gLenOf(e ast.Expr) (string, bool) {
	ce, ok := c20rUnparen(e).(*ast.CallExpr)
	if !ok || len(ce.Args) != 1 || c20rPrint(ce.Fun) != "len" {
		return "", false
	}
	return c20gPath(ce.Args[0])
}

func c20gIsLit(e ast.Expr, v string) bool {
	e = c20rUnparen(e)
	if bl, ok := e.(*ast.BasicLit); ok {
		return bl.Value == v
	}
	if id, ok := e.(*ast.Ident); ok {
		return id.Name == v
	}
	return false
}

// c20gCond normalises a condition. Only tests that speak about the PRESENCE of the thing to redact get a tag.
func c20gCond(e ast.Expr) string {
	e = c20rUnparen(e)
	if be, ok := e.(*ast.BinaryExpr); ok {
		if p, ok := c20gLenOf(be.X); ok {
			switch {
			case be.Op == token.EQL && c20gIsLit(be.Y, "0"):
				return "empty:" + p
			case (be.Op == token.GTR || be.Op == token.NEQ) && c20gIsLit(be.Y, "0"):
				return "nonempty:" + p
			}
		}
		if p, ok := c20gPath(be.X); ok && c20gIsLit(be.Y, "nil") {
			switch be.Op {
			case token.EQL:
				return "empty:" + p
			case token.NEQ:
				return "nonempty:" + p
			}
		}
		if p, ok := c20gPath(be.X); ok && strings.HasSuffix(p, ".PrivateKey") && be.Op == token.NEQ && c20gIsLit(be.Y, `""`) {
			return "keyset:" + strings.TrimSuffix(p, ".PrivateKey")
		}
	}
	if id, ok := e.(*ast.Ident); ok && id.Name == "changed" {
		return "changed"
	}
	return "cond:" + c20rPrint(e)
}

func c20gEnds(b *ast.BlockStmt) (string, string) {
	if b == nil || len(b.List) == 0 {
		return "then", ""
	}
	switch x := b.List[len(b.List)-1].(type) {
	case *ast.ReturnStmt:
		var rs []string
		for _, r := range x.Results {
			rs = append(rs, c20rPrint(r))
		}
		return "return", strings.Join(rs, ",")
	case *ast.BranchStmt:
		return strings.ToLower(x.Tok.String()), ""
	}
	return "then", ""
}

// c20gTargets: what the redact* calls inside a conditional block are applied to (first argument, `&` dropped,
// local aliases `x := *P` / `x := P` resolved to P), separated by `;` — the model requires every target of a block
// guarded by `nonempty:P` to be P itself or an element of P.
func c20gTargets(b *ast.BlockStmt) string {
	alias := map[string]string{}
	var out []string
	ast.Inspect(b, func(n ast.Node) bool {
		switch x := n.(type) {
		case *ast.AssignStmt:
			if x.Tok == token.DEFINE && len(x.Lhs) == 1 && len(x.Rhs) == 1 {
				if id, ok := x.Lhs[0].(*ast.Ident); ok {
					if p, ok := c20gPath(x.Rhs[0]); ok {
						alias[id.Name] = p
					}
				}
			}
		case *ast.CallExpr:
			if strings.HasPrefix(c20rPrint(x.Fun), "redact") && len(x.Args) > 0 {
				a := c20rUnparen(x.Args[0])
				if u, ok := a.(*ast.UnaryExpr); ok && u.Op == token.AND {
					a = c20rUnparen(u.X)
				}
				t := c20rPrint(a)
				if id, ok := a.(*ast.Ident); ok {
					if p, ok := alias[id.Name]; ok {
						t = p
					}
				}
				out = append(out, t)
			}
		}
		return true
	})
	return strings.Join(out, ";")
}

type c20gWalker struct {
	fn    string
	rows  []c20gRow
	calls [][3]string
}

func (w *c20gWalker) add(ctl, tag, detail string) {
	w.rows = append(w.rows, c20gRow{w.fn, ctl, tag, detail})
}

// exprs: redact* calls and function literals inside an expression / simple statement
func (w *c20gWalker) exprs(n ast.Node) {
	if n == nil {
		return
	}
	ast.Inspect(n, func(m ast.Node) bool {
		switch x := m.(type) {
		case *ast.FuncLit:
			w.add("other", "funclit", c20rPrint(x.Type))
			return false
		case *ast.CallExpr:
			name := c20rPrint(x.Fun)
			if strings.HasPrefix(name, "redact") {
				var as []string
				for _, a := range x.Args {
					as = append(as, c20rPrint(a))
				}
				w.calls = append(w.calls, [3]string{w.fn, name, strings.Join(as, ",")})
			}
		}
		return true
	})
}

func (w *c20gWalker) block(list []ast.Stmt, top bool) {
	for i, st := range list {
		w.stmt(st, top && i == len(list)-1)
	}
}

func (w *c20gWalker) stmt(st ast.Stmt, lastTop bool) {
	switch x := st.(type) {
	case *ast.IfStmt:
		ends, ret := c20gEnds(x.Body)
		ctl := "if-" + ends
		if x.Else != nil {
			ctl += "+else"
		}
		tag := c20gCond(x.Cond)
		if x.Init != nil {
			w.exprs(x.Init)
			init := c20rPrint(x.Init)
			if tag == "changed" && strings.HasPrefix(init, "v, changed := redactJSONValue(") {
				tag = "changed"
			} else {
				tag = "init:" + init + "; " + tag
			}
		} else if tag == "changed" {
			tag = "cond:changed"
		}
		w.exprs(x.Cond)
		if ends == "then" {
			ret = c20gTargets(x.Body)
		}
		w.add(ctl, tag, ret)
		// the body: its last return / branch is already part of the row
		body := x.Body.List
		if ends != "then" {
			body = body[:len(body)-1]
			if ends == "return" {
				w.exprs(x.Body.List[len(x.Body.List)-1])
			}
		}
		w.block(body, false)
		if x.Else != nil {
			w.stmt(x.Else, false)
		}
	case *ast.BlockStmt:
		w.block(x.List, false)
	case *ast.RangeStmt:
		subj := c20rPrint(x.X)
		var kv []string
		if x.Key != nil {
			kv = append(kv, c20rPrint(x.Key))
		}
		if x.Value != nil {
			kv = append(kv, c20rPrint(x.Value))
		}
		w.exprs(x.X)
		w.add("range", subj, strings.Join(kv, ","))
		w.block(x.Body.List, false)
	case *ast.ForStmt:
		txt := ""
		if x.Init != nil {
			txt += c20rPrint(x.Init)
		}
		txt += "; "
		if x.Cond != nil {
			txt += c20rPrint(x.Cond)
		}
		txt += "; "
		if x.Post != nil {
			txt += c20rPrint(x.Post)
		}
		w.add("for", txt, "")
		w.block(x.Body.List, false)
	case *ast.SwitchStmt, *ast.TypeSwitchStmt:
		ctl, tag := "switch", ""
		var body *ast.BlockStmt
		if s, ok := x.(*ast.SwitchStmt); ok {
			if s.Tag != nil {
				tag = c20rPrint(s.Tag)
			}
			body = s.Body
		} else {
			s := x.(*ast.TypeSwitchStmt)
			ctl, tag, body = "typeswitch", c20rPrint(s.Assign), s.Body
		}
		var clauses []string
		for _, cl := range body.List {
			cc := cl.(*ast.CaseClause)
			if cc.List == nil {
				clauses = append(clauses, "default")
				continue
			}
			var ls []string
			for _, e := range cc.List {
				ls = append(ls, c20rPrint(e))
			}
			clauses = append(clauses, strings.Join(ls, ","))
		}
		w.add(ctl, tag, strings.Join(clauses, "|"))
		for _, cl := range body.List {
			w.block(cl.(*ast.CaseClause).Body, false)
		}
	case *ast.BranchStmt:
		w.add("branch", strings.ToLower(x.Tok.String()), "")
	case *ast.ReturnStmt:
		w.exprs(x)
		if !lastTop {
			var rs []string
			for _, r := range x.Results {
				rs = append(rs, c20rPrint(r))
			}
			w.add("return", strings.Join(rs, ","), "")
		}
	case *ast.AssignStmt, *ast.ExprStmt, *ast.DeclStmt, *ast.IncDecStmt:
		w.exprs(x)
	case *ast.EmptyStmt:
	default:
		w.add("other", fmt.Sprintf("%T", st), c20rPrint(st))
	}
}

func c20gGen() (string, error) {
	const redSrc = "pkg/configmanager/redact.go"
	const effSrc = "pkg/configmanager/effectiveconfig.go"
	red, err := parse(redSrc)
	if err != nil {
		return "", err
	}
	eff, err := parse(effSrc)
	if err != nil {
		return "", err
	}
	var fns []*ast.FuncDecl
	for _, d := range red.Decls {
		if f, ok := d.(*ast.FuncDecl); ok && f.Body != nil && f.Name.Name != "redactedRawJSON" {
			fns = append(fns, f)
		}
	}
	tlsFn := findFunc(eff, "", "redactTLSConfig")
	if tlsFn == nil {
		tlsFn = findFunc(red, "", "redactTLSConfig")
		if tlsFn == nil {
			return "", fmt.Errorf("redactTLSConfig not found in %s / %s", effSrc, redSrc)
		}
	} else {
		fns = append(fns, tlsFn)
	}
	// any other function of the package whose name starts with redact would be a redaction function nobody listed
	for _, d := range eff.Decls {
		if f, ok := d.(*ast.FuncDecl); ok && f.Body != nil && f != tlsFn && strings.HasPrefix(f.Name.Name, "redact") {
			fns = append(fns, f)
		}
	}
	var rows []c20gRow
	var calls [][3]string
	var vars [][3]string
	var names []string
	for _, f := range fns {
		if f.Recv != nil {
			return "", fmt.Errorf("%s: method receivers are not supported", f.Name.Name)
		}
		names = append(names, f.Name.Name)
		w := &c20gWalker{fn: f.Name.Name}
		w.block(f.Body.List, true)
		rows = append(rows, w.rows...)
		calls = append(calls, w.calls...)
		if f.Type.Params != nil {
			for _, p := range f.Type.Params.List {
				for _, n := range p.Names {
					vars = append(vars, [3]string{f.Name.Name, n.Name, c20rPrint(p.Type)})
				}
			}
		}
	}
	sort.SliceStable(calls, func(i, j int) bool {
		if calls[i][0] != calls[j][0] {
			return calls[i][0] < calls[j][0]
		}
		if calls[i][1] != calls[j][1] {
			return calls[i][1] < calls[j][1]
		}
		return calls[i][2] < calls[j][2]
	})
	q := strconv.Quote
	var b strings.Builder
	b.WriteString(header("RedactGuards", redSrc, effSrc))
	b.WriteString("/-- the redaction functions read (redactedRawJSON: see Gen.RawRedact.steps) -/\n")
	var ss []string
	for _, n := range names {
		ss = append(ss, q(n))
	}
	b.WriteString("def functions : List String := [" + strings.Join(ss, ", ") + "]\n")
	b.WriteString("/-- every control construct of a redaction function: (function, construct, normalised condition / subject, detail).\n" +
		"`if-return|if-continue|if-break|if-then[+else]` [condition tag, returned expressions]; `range` [subject, bound names];\n" +
		"`for` [init; cond; post]; `switch|typeswitch` [tag, clauses separated by |]; `branch`; `return` (not last); `other` -/\n")
	b.WriteString("def redactGuards : List (String × String × String × String) := [\n")
	for i, r := range rows {
		sep := ","
		if i == len(rows)-1 {
			sep = ""
		}
		fmt.Fprintf(&b, "  (%s, %s, %s, %s)%s\n", q(r.fn), q(r.ctl), q(r.tag), q(r.detail), sep)
	}
	b.WriteString("]\n")
	ss = nil
	for _, v := range vars {
		ss = append(ss, "("+q(v[0])+", "+q(v[1])+", "+q(v[2])+")")
	}
	b.WriteString("/-- parameters of the redaction functions: (function, name, type) -/\n")
	b.WriteString("def guardVars : List (String × String × String) := [" + strings.Join(ss, ", ") + "]\n")
	ss = nil
	for _, c := range calls {
		ss = append(ss, "("+q(c[0])+", "+q(c[1])+", "+q(c[2])+")")
	}
	b.WriteString("/-- every call of a redact* function: (calling function, callee, arguments) -/\n")
	b.WriteString("def redactCalls : List (String × String × String) := [\n  " + strings.Join(ss, ",\n  ") + "]\n")
	b.WriteString(footer("RedactGuards"))
	return b.String(), nil
}
