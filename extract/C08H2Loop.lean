-- translation-unsupported C08H2Loop: open -out/pkg/stream/http2/stream.go: no such file or directory
namespace MosnVerif.Gen.C08H2Loop
end MosnVerif.Gen.C08H2Loop
