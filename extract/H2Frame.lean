-- translation-unsupported H2Frame: open -out/pkg/module/http2: no such file or directory
namespace MosnVerif.Gen.H2Frame
end MosnVerif.Gen.H2Frame
