-- translation-unsupported C08Loop: open -out/pkg/stream/xprotocol/conn.go: no such file or directory
namespace MosnVerif.Gen.C08Loop
end MosnVerif.Gen.C08Loop
