package main

// Gen.H2Limits (property C18, builder c18r6): EVERY limit comparison of the re-implemented HTTP/2 framer and of the
// server / client connection, as Lean decision functions, plus the values MOSN advertises in its first SETTINGS
// frame and the values it configures its own framer with.
//
//	MFramer.ReadFrame            size test (fh.Length > fr.maxReadSize => ErrFrameTooLarge), payload completeness test,
//	                             and their order
//	MFramer.readFrameHeader      header completeness test
//	Framer.SetMaxReadFrameSize   clamp
//	Setting.Valid                ENABLE_PUSH / INITIAL_WINDOW_SIZE / MAX_FRAME_SIZE ranges and the error codes
//	parseSettingsFrame           ACK-with-payload, length % 6, INITIAL_WINDOW_SIZE > 2^31-1
//	MClientConn.processSettings  INITIAL_WINDOW_SIZE > math.MaxInt32
//	parseWindowUpdateFrame       length, zero increment
//	parsePriority/RSTStream/Ping/GoAway fixed-length tests, parsePushPromise padding test
//	MFramer.readMetaFrame        header list size test
//	MServerConn.processHeaders   concurrent streams test
//	MServerConn.Init / NewServerConn, MClientConn.WriteInitFrame / NewClientConn   advertised vs configured limits

import (
	"fmt"
	"go/ast"
	"go/constant"
	"go/token"
	"sort"
	"strconv"
	"strings"
)

func init() { register("H2Limits", c18r6GenLimits) }

const c18r6Dir = "pkg/module/http2"

// c18r6Stdlib: constants of the standard library the limit code refers to (type-checked stubs have no values).
var c18r6Stdlib = map[string]int64{
	"math.MaxInt32":              2147483647,
	"math.MaxUint32":             4294967295,
	"http.DefaultMaxHeaderBytes": 1 << 20,
}

// c18r6Const evaluates a constant expression: literals, package constants, the listed stdlib constants, locals bound
// by `x := <const>` (given in `locals`), conversions, + - * << and parentheses.
func c18r6Const(e ast.Expr, locals map[string]int64) (int64, bool) {
	switch x := e.(type) {
	case *ast.BasicLit:
		if x.Kind == token.INT {
			v, err := strconv.ParseInt(x.Value, 0, 64)
			return v, err == nil
		}
	case *ast.ParenExpr:
		return c18r6Const(x.X, locals)
	case *ast.Ident:
		if v, ok := locals[x.Name]; ok {
			return v, true
		}
		cs, err := pkgConsts(c18r6Dir)
		if err != nil {
			return 0, false
		}
		if c, ok := cs[x.Name]; ok {
			return constant.Int64Val(constant.ToInt(c))
		}
		// a package-level `var x = <constant expression>` of mhttp2.go that is assigned nowhere else ("todo: support configuration")
		if x.Obj != nil && x.Obj.Kind == ast.Var {
			if vs, ok := x.Obj.Decl.(*ast.ValueSpec); ok && len(vs.Names) == 1 && len(vs.Values) == 1 {
				return c18r6Const(vs.Values[0], nil)
			}
		}
		if f, err := parse(c18r6Dir + "/mhttp2.go"); err == nil {
			for _, d := range f.Decls {
				if gd, ok := d.(*ast.GenDecl); ok && gd.Tok == token.VAR {
					for _, sp := range gd.Specs {
						if vs, ok := sp.(*ast.ValueSpec); ok && len(vs.Names) == 1 && len(vs.Values) == 1 && vs.Names[0].Name == x.Name {
							return c18r6Const(vs.Values[0], nil)
						}
					}
				}
			}
		}
	case *ast.SelectorExpr:
		v, ok := c18r6Stdlib[exprKey(x)]
		return v, ok
	case *ast.CallExpr:
		if len(x.Args) == 1 {
			switch exprKey(x.Fun) {
			case "int", "int32", "int64", "uint32", "uint64", "uint":
				return c18r6Const(x.Args[0], locals)
			}
		}
	case *ast.BinaryExpr:
		l, ok1 := c18r6Const(x.X, locals)
		r, ok2 := c18r6Const(x.Y, locals)
		if ok1 && ok2 {
			switch x.Op {
			case token.SHL:
				return l << uint(r), true
			case token.ADD:
				return l + r, true
			case token.SUB:
				return l - r, true
			case token.MUL:
				return l * r, true
			}
		}
	}
	return 0, false
}

// c18r6Fold replaces every constant subexpression by its value, so that env.expr only sees literals, the named
// operands and + - comparison && ||.
func c18r6Fold(e ast.Expr, names map[string]string) ast.Expr {
	if _, named := names[exprKey(e)]; named {
		return e
	}
	if v, ok := c18r6Const(e, nil); ok {
		return &ast.BasicLit{Kind: token.INT, Value: strconv.FormatInt(v, 10)}
	}
	switch x := e.(type) {
	case *ast.ParenExpr:
		return &ast.ParenExpr{X: c18r6Fold(x.X, names)}
	case *ast.BinaryExpr:
		return &ast.BinaryExpr{X: c18r6Fold(x.X, names), Op: x.Op, Y: c18r6Fold(x.Y, names)}
	case *ast.UnaryExpr:
		return &ast.UnaryExpr{Op: x.Op, X: c18r6Fold(x.X, names)}
	case *ast.CallExpr:
		if len(x.Args) == 1 {
			switch exprKey(x.Fun) {
			case "int", "int32", "int64", "uint32", "uint64", "uint", "len":
				return &ast.CallExpr{Fun: x.Fun, Args: []ast.Expr{c18r6Fold(x.Args[0], names)}}
			}
		}
	}
	return e
}

// c18r6If finds THE if statement of fd whose condition text contains `mention` (exactly one) and, when `ret` is not
// empty, whose body's text contains `ret` (what the branch returns).
func c18r6If(fd *ast.FuncDecl, mention, ret string) (*ast.IfStmt, error) {
	var hits []*ast.IfStmt
	ast.Inspect(fd.Body, func(n ast.Node) bool {
		if is, ok := n.(*ast.IfStmt); ok && strings.Contains(exprText(is.Cond), mention) {
			hits = append(hits, is)
		}
		return true
	})
	if len(hits) != 1 {
		return nil, fmt.Errorf("%s: %d if-statements mention %q (want 1)", fd.Name.Name, len(hits), mention)
	}
	if ret != "" {
		found := false
		ast.Inspect(hits[0].Body, func(n ast.Node) bool {
			if r, ok := n.(*ast.ReturnStmt); ok {
				for _, e := range r.Results {
					ast.Inspect(e, func(m ast.Node) bool {
						if id, ok := m.(*ast.Ident); ok && id.Name == ret {
							found = true
						}
						return true
					})
				}
			}
			return true
		})
		if !found {
			return nil, fmt.Errorf("%s: the branch of `%s` does not return %s", fd.Name.Name, exprText(hits[0].Cond), ret)
		}
	}
	return hits[0], nil
}

func c18r6Render(cond ast.Expr, names map[string]string) (string, error) {
	env := &Env{Names: names, Calls: map[string]string{"int": "", "int32": "", "uint32": "", "uint64": "", "len": ""}}
	return env.expr(c18r6Fold(cond, names))
}

type c18r6Job struct {
	file, recv, fn  string
	mention, ret    string
	lean, params    string
	names           map[string]string
	doc             string
}

func c18r6GenLimits() (string, error) {
	s := header("H2Limits", c18r6Dir+"/mhttp2.go", c18r6Dir+"/frame.go", c18r6Dir+"/http2.go")
	files := map[string]*ast.File{}
	get := func(name string) (*ast.File, error) {
		if f, ok := files[name]; ok {
			return f, nil
		}
		f, err := parse(c18r6Dir + "/" + name)
		if err == nil {
			files[name] = f
		}
		return f, err
	}
	jobs := []c18r6Job{
		{"mhttp2.go", "MFramer", "ReadFrame", "maxReadSize", "ErrFrameTooLarge", "readTooLarge", "(length maxReadSize : Int)",
			map[string]string{"fh.Length": "length", "fr.maxReadSize": "maxReadSize"},
			"MFramer.ReadFrame: the frame is refused with ErrFrameTooLarge"},
		{"mhttp2.go", "MFramer", "ReadFrame", "data.Len()", "ErrAGAIN", "readPayloadIncomplete", "(length dataLen off : Int)",
			map[string]string{"fh.Length": "length", "data.Len()": "dataLen", "off": "off"},
			"MFramer.ReadFrame: the payload is not completely buffered (ErrAGAIN)"},
		{"mhttp2.go", "MFramer", "readFrameHeader", "data.Len()", "ErrAGAIN", "readHeaderIncomplete", "(dataLen off : Int)",
			map[string]string{"data.Len()": "dataLen", "off": "off"},
			"MFramer.readFrameHeader: fewer than frameHeaderLen octets buffered (ErrAGAIN)"},
		{"frame.go", "Framer", "SetMaxReadFrameSize", "maxFrameSize", "", "readSizeClamped", "(v : Int)",
			map[string]string{"v": "v"}, "Framer.SetMaxReadFrameSize: the requested value is clamped"},
		{"frame.go", "", "parseSettingsFrame", "FlagSettingsAck", "ErrCodeFrameSize", "settingsAckWithPayload", "(ack : Bool) (length : Int)",
			map[string]string{"fh.Flags.Has(FlagSettingsAck)": "ack", "fh.Length": "length"}, "parseSettingsFrame: ACK with a payload"},
		{"frame.go", "", "parseSettingsFrame", "len(p)%", "ErrCodeFrameSize", "settingsBadLength", "(lenP : Int)",
			map[string]string{"p": "lenP"}, "parseSettingsFrame: payload is not a whole number of settings"},
		{"frame.go", "", "parseSettingsFrame", "ok&&v>", "ErrCodeFlowControl", "settingsFrameWindowTooBig", "(v : Int) (ok : Bool)",
			map[string]string{"v": "v", "ok": "ok"}, "parseSettingsFrame: INITIAL_WINDOW_SIZE beyond the maximum window"},
		{"mhttp2.go", "MClientConn", "processSettings", "s.Val>", "ErrCodeFlowControl", "clientWindowTooBig", "(val : Int)",
			map[string]string{"s.Val": "val"}, "MClientConn.processSettings: INITIAL_WINDOW_SIZE beyond the maximum window"},
		{"frame.go", "", "parseWindowUpdateFrame", "len(p)", "ErrCodeFrameSize", "windowUpdateBadLength", "(lenP : Int)",
			map[string]string{"p": "lenP"}, "parseWindowUpdateFrame: fixed length"},
		{"frame.go", "", "parseWindowUpdateFrame", "inc==", "ErrCodeProtocol", "windowUpdateZero", "(inc : Int)",
			map[string]string{"inc": "inc"}, "parseWindowUpdateFrame: zero increment"},
		{"frame.go", "", "parsePriorityFrame", "len(payload)", "ErrCodeFrameSize", "priorityBadLength", "(lenP : Int)",
			map[string]string{"payload": "lenP"}, "parsePriorityFrame: fixed length"},
		{"frame.go", "", "parseRSTStreamFrame", "len(p)", "ErrCodeFrameSize", "rstBadLength", "(lenP : Int)",
			map[string]string{"p": "lenP"}, "parseRSTStreamFrame: fixed length"},
		{"frame.go", "", "parsePingFrame", "len(payload)", "ErrCodeFrameSize", "pingBadLength", "(lenP : Int)",
			map[string]string{"payload": "lenP"}, "parsePingFrame: fixed length"},
		{"frame.go", "", "parseGoAwayFrame", "len(p)", "ErrCodeFrameSize", "goAwayBadLength", "(lenP : Int)",
			map[string]string{"p": "lenP"}, "parseGoAwayFrame: minimum length"},
		{"frame.go", "", "parsePushPromise", "padLength", "ErrCodeProtocol", "pushPadTooBig", "(padLength lenP : Int)",
			map[string]string{"padLength": "padLength", "p": "lenP"}, "parsePushPromise: padding test (lenP = len(p) after pad length and promised id)"},
		{"mhttp2.go", "MFramer", "readMetaFrame", "remainSize", "", "headerListOver", "(size remainSize : Int)",
			map[string]string{"size": "size", "remainSize": "remainSize"}, "MFramer.readMetaFrame: the field does not fit the remaining header list size"},
		{"mhttp2.go", "MServerConn", "processHeaders", "advMaxStreams", "streamError", "tooManyStreams", "(cur adv : Int)",
			map[string]string{"sc.curClientStreams": "cur", "sc.advMaxStreams": "adv"}, "MServerConn.processHeaders: the new stream exceeds the advertised concurrency"},
	}
	for _, j := range jobs {
		f, err := get(j.file)
		if err != nil {
			return "", err
		}
		fd := findFunc(f, j.recv, j.fn)
		if fd == nil {
			return "", fmt.Errorf("%s.%s not found", j.recv, j.fn)
		}
		is, err := c18r6If(fd, j.mention, j.ret)
		if err != nil {
			return "", err
		}
		c, err := c18r6Render(is.Cond, j.names)
		if err != nil {
			return "", fmt.Errorf("%s: %v", j.fn, err)
		}
		s += fmt.Sprintf("/-- %s — Go: `%s` -/\ndef %s %s : Bool := %s\n", j.doc, exprText(is.Cond), j.lean, j.params, c)
	}

	// order of the two tests of ReadFrame: size before completeness (a too-large frame is refused from its header alone)
	mf, _ := get("mhttp2.go")
	rf := findFunc(mf, "MFramer", "ReadFrame")
	iSize, iCompl := -1, -1
	for i, st := range rf.Body.List {
		if is, ok := st.(*ast.IfStmt); ok {
			t := exprText(is.Cond)
			if strings.Contains(t, "maxReadSize") {
				iSize = i
			} else if strings.Contains(t, "data.Len()") {
				iCompl = i
			}
		}
	}
	if iSize < 0 || iCompl < 0 {
		return "", fmt.Errorf("ReadFrame: the size / completeness tests are not top-level statements")
	}
	s += fmt.Sprintf("/-- ReadFrame tests the size before the completeness of the payload -/\ndef readSizeTestFirst : Bool := %v\n", iSize < iCompl)

	// SetMaxReadFrameSize: the clamp value
	ff, _ := get("frame.go")
	sm := findFunc(ff, "Framer", "SetMaxReadFrameSize")
	clamp := int64(-1)
	ast.Inspect(sm.Body, func(n ast.Node) bool {
		if is, ok := n.(*ast.IfStmt); ok && len(is.Body.List) == 1 {
			if as, ok := is.Body.List[0].(*ast.AssignStmt); ok && len(as.Lhs) == 1 && exprKey(as.Lhs[0]) == "v" {
				if v, ok := c18r6Const(as.Rhs[0], nil); ok {
					clamp = v
				}
			}
		}
		return true
	})
	if clamp < 0 {
		return "", fmt.Errorf("SetMaxReadFrameSize: clamp assignment not found")
	}
	s += fmt.Sprintf("def readSizeClamp : Int := %d\n", clamp)

	// Setting.Valid: one test per setting id + the error code of its branch
	hf, err := get("http2.go")
	if err != nil {
		return "", err
	}
	sv := findFunc(hf, "Setting", "Valid")
	if sv == nil {
		return "", fmt.Errorf("Setting.Valid not found")
	}
	var sw *ast.SwitchStmt
	for _, st := range sv.Body.List {
		if x, ok := st.(*ast.SwitchStmt); ok && exprKey(x.Tag) == "s.ID" {
			sw = x
		}
	}
	if sw == nil {
		return "", fmt.Errorf("Setting.Valid: switch s.ID not found")
	}
	var arms []string
	for _, cl := range sw.Body.List {
		cc := cl.(*ast.CaseClause)
		if len(cc.List) != 1 || len(cc.Body) != 1 {
			return "", fmt.Errorf("Setting.Valid: unsupported case shape")
		}
		id, ok := c18r6Const(cc.List[0], nil)
		if !ok {
			return "", fmt.Errorf("Setting.Valid: case label %s", exprText(cc.List[0]))
		}
		is, ok := cc.Body[0].(*ast.IfStmt)
		if !ok || len(is.Body.List) != 1 {
			return "", fmt.Errorf("Setting.Valid: case body is not one if")
		}
		ret, ok := is.Body.List[0].(*ast.ReturnStmt)
		if !ok || len(ret.Results) != 1 {
			return "", fmt.Errorf("Setting.Valid: branch is not a return")
		}
		call, ok := ret.Results[0].(*ast.CallExpr)
		if !ok || exprKey(call.Fun) != "ConnectionError" || len(call.Args) != 1 {
			return "", fmt.Errorf("Setting.Valid: branch does not return ConnectionError(code)")
		}
		code, ok := c18r6Const(call.Args[0], nil)
		if !ok {
			return "", fmt.Errorf("Setting.Valid: error code %s", exprText(call.Args[0]))
		}
		c, err := c18r6Render(is.Cond, map[string]string{"s.Val": "val"})
		if err != nil {
			return "", fmt.Errorf("Setting.Valid: %v", err)
		}
		arms = append(arms, fmt.Sprintf("  if decide (id = %d) then (if %s then %d else 0) else -- %s: `%s`", id, c, code, exprText(cc.List[0]), exprText(is.Cond)))
	}
	s += "/-- Setting.Valid: 0 = valid, else the HTTP/2 error code of the connection error -/\ndef settingInvalidCode (id val : Int) : Int :=\n" +
		strings.Join(arms, "\n") + "\n  0\n"
	for _, c := range []string{"SettingHeaderTableSize", "SettingEnablePush", "SettingMaxConcurrentStreams", "SettingInitialWindowSize",
		"SettingMaxFrameSize", "SettingMaxHeaderListSize", "ErrCodeProtocol", "ErrCodeFlowControl", "ErrCodeFrameSize", "ErrCodeRefusedStream",
		"defaultMaxReadFrameSize", "initialMaxFrameSize", "minMaxFrameSize", "maxFrameSize", "initialWindowSize"} {
		v, err := intConst(c18r6Dir, c)
		if err != nil {
			return "", err
		}
		s += fmt.Sprintf("def %s : Nat := %d\n", strings.ToLower(c[:1])+c[1:], v)
	}

	// advertised (first SETTINGS frame) and configured limits
	locals := func(fd *ast.FuncDecl) map[string]int64 {
		m := map[string]int64{}
		ast.Inspect(fd.Body, func(n ast.Node) bool {
			if as, ok := n.(*ast.AssignStmt); ok && as.Tok == token.DEFINE && len(as.Lhs) == 1 && len(as.Rhs) == 1 {
				if id, ok := as.Lhs[0].(*ast.Ident); ok {
					if v, ok := c18r6Const(as.Rhs[0], m); ok {
						m[id.Name] = v
					}
				}
			}
			return true
		})
		return m
	}
	settingsOf := func(fd *ast.FuncDecl) (string, error) {
		loc := locals(fd)
		got := map[int64]int64{}
		var bad error
		ast.Inspect(fd.Body, func(n ast.Node) bool {
			cl, ok := n.(*ast.CompositeLit)
			if !ok || len(cl.Elts) != 2 {
				return true
			}
			if cl.Type != nil && exprKey(cl.Type) != "Setting" {
				return true
			}
			var idE, valE ast.Expr = cl.Elts[0], cl.Elts[1]
			if kv, ok := idE.(*ast.KeyValueExpr); ok {
				idE = kv.Value
			}
			if kv, ok := valE.(*ast.KeyValueExpr); ok {
				valE = kv.Value
			}
			if !strings.HasPrefix(exprKey(idE), "Setting") {
				return true
			}
			id, ok1 := c18r6Const(idE, loc)
			v, ok2 := c18r6Const(valE, loc)
			if !ok1 || !ok2 {
				bad = fmt.Errorf("%s: setting {%s, %s} is not constant", fd.Name.Name, exprText(idE), exprText(valE))
				return true
			}
			got[id] = v
			return true
		})
		if bad != nil {
			return "", bad
		}
		if len(got) == 0 {
			return "", fmt.Errorf("%s: no settings found", fd.Name.Name)
		}
		var ids []int64
		for id := range got {
			ids = append(ids, id)
		}
		sort.Slice(ids, func(i, j int) bool { return ids[i] < ids[j] })
		var ps []string
		for _, id := range ids {
			ps = append(ps, fmt.Sprintf("(%d, %d)", id, got[id]))
		}
		return "[" + strings.Join(ps, ", ") + "]", nil
	}
	// configured: `<x>.SetMaxReadFrameSize(c)`, `<x>.MaxHeaderListSize = c`, `sc.advMaxStreams = c`
	configured := func(fd *ast.FuncDecl, lhsSuffix string, call bool) (int64, error) {
		loc := locals(fd)
		res, n := int64(0), 0
		ast.Inspect(fd.Body, func(nd ast.Node) bool {
			switch x := nd.(type) {
			case *ast.CallExpr:
				if call && strings.HasSuffix(exprKey(x.Fun), lhsSuffix) && len(x.Args) == 1 {
					if v, ok := c18r6Const(x.Args[0], loc); ok {
						res, n = v, n+1
					}
				}
			case *ast.AssignStmt:
				if !call && len(x.Lhs) == 1 && len(x.Rhs) == 1 && strings.HasSuffix(exprKey(x.Lhs[0]), lhsSuffix) {
					if v, ok := c18r6Const(x.Rhs[0], loc); ok {
						res, n = v, n+1
					}
				}
			}
			return true
		})
		if n != 1 {
			return 0, fmt.Errorf("%s: %d constant settings of %s (want 1)", fd.Name.Name, n, lhsSuffix)
		}
		return res, nil
	}
	initFd := findFunc(mf, "MServerConn", "Init")
	wif := findFunc(mf, "MClientConn", "WriteInitFrame")
	nsc := findFunc(mf, "", "NewServerConn")
	ncc := findFunc(mf, "", "NewClientConn")
	if initFd == nil || wif == nil || nsc == nil || ncc == nil {
		return "", fmt.Errorf("Init / WriteInitFrame / NewServerConn / NewClientConn not found")
	}
	adv, err := settingsOf(initFd)
	if err != nil {
		return "", err
	}
	s += "/-- MServerConn.Init: the (id, value) pairs of the first SETTINGS frame -/\ndef serverAdvertised : List (Nat × Nat) := " + adv + "\n"
	adv, err = settingsOf(wif)
	if err != nil {
		return "", err
	}
	s += "/-- MClientConn.WriteInitFrame: the (id, value) pairs of the first SETTINGS frame -/\ndef clientAdvertised : List (Nat × Nat) := " + adv + "\n"
	for _, c := range []struct {
		lean string
		fd   *ast.FuncDecl
		what string
		call bool
	}{
		{"serverReadSizeArg", nsc, "SetMaxReadFrameSize", true},
		{"serverMaxHeaderListSize", nsc, "MaxHeaderListSize", false},
		{"serverAdvMaxStreams", nsc, "advMaxStreams", false},
		{"clientReadSizeArg", ncc, "SetMaxReadFrameSize", true},
		{"clientMaxHeaderListSize", ncc, "MaxHeaderListSize", false},
	} {
		v, err := configured(c.fd, c.what, c.call)
		if err != nil {
			return "", err
		}
		s += fmt.Sprintf("/-- %s: %s -/\ndef %s : Nat := %d\n", c.fd.Name.Name, c.what, c.lean, v)
	}
	s += footer("H2Limits")
	return s, nil
}
