-- translation-unsupported FilterFactories: open -out/pkg/filter/stream: no such file or directory
namespace MosnVerif.Gen.FilterFactories
end MosnVerif.Gen.FilterFactories
