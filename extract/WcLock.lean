-- translation-unsupported WcLock: open -out/pkg/router/base_rule.go: no such file or directory
namespace MosnVerif.Gen.WcLock
end MosnVerif.Gen.WcLock
