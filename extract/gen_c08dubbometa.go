package main

// Gen/C08DubboMeta.lean (C08): pkg/protocol/xprotocol/dubbo/decoder.go getServiceAwareMeta walks the hessian2 fields of a
// request (framework version, path, version, method, [argument types, arguments, attachments]).  Regenerated:
//   * the RISKY sites of the function in source order — every type assertion that is NOT in comma-ok form, every index
//     expression that is not a write/read of the result map, every slice expression with a bound, every call of a
//     function of the package itself (it gets input-derived arguments) — and for each whether it is DOMINATED by the
//     deferred recover: the `defer func(){ … recover() … }()` statement is a direct statement of a block and the site
//     lies in a LATER statement of that same block (Go has no goto here; a defer, once executed, covers the rest of the
//     function);
//   * per position of the walk what happens to a field that is not a string: comma-ok test (=> error return) or an
//     unchecked assertion (=> panic, recovered iff dominated);
//   * assertions on `<pool>.Get()` (sync.Pool whose New returns the asserted type: not input dependent) are counted apart;
//   * how many decoder.Decode() calls precede the recover (the hessian2 library is a black box: its panics there are only
//     observed by the harness).
// Helpers carry the prefix c08m.

import (
	"fmt"
	"go/ast"
	"go/token"
	"strings"
)

func init() { register("C08DubboMeta", c08mGen) }

func c08mIsRecoverDefer(s ast.Stmt) bool {
	d, ok := s.(*ast.DeferStmt)
	if !ok {
		return false
	}
	lit, ok := d.Call.Fun.(*ast.FuncLit)
	if !ok {
		return false
	}
	found := false
	ast.Inspect(lit.Body, func(n ast.Node) bool {
		if c, ok := n.(*ast.CallExpr); ok {
			if id, ok := c.Fun.(*ast.Ident); ok && id.Name == "recover" && len(c.Args) == 0 {
				found = true
			}
		}
		return true
	})
	return found
}

func c08mGen() (string, error) {
	const file = "pkg/protocol/xprotocol/dubbo/decoder.go"
	f, err := parse(file)
	if err != nil {
		return "", err
	}
	fd := findFunc(f, "", "getServiceAwareMeta")
	if fd == nil {
		return "", fmt.Errorf("getServiceAwareMeta not found")
	}
	for _, bad := range []string{} {
		_ = bad
	}
	// no goto / labels
	labelled := false
	ast.Inspect(fd.Body, func(n ast.Node) bool {
		switch x := n.(type) {
		case *ast.LabeledStmt:
			labelled = true
		case *ast.BranchStmt:
			if x.Tok == token.GOTO {
				labelled = true
			}
		}
		return true
	})
	if labelled {
		return "", fmt.Errorf("getServiceAwareMeta: labels / goto")
	}
	// the recover defer: the block it is a direct statement of, and its index
	var covFrom, covTo token.Pos // positions covered: (end of the defer statement, end of its block)
	nDefer := 0
	ast.Inspect(fd.Body, func(n ast.Node) bool {
		if _, ok := n.(*ast.FuncLit); ok {
			return false
		}
		if b, ok := n.(*ast.BlockStmt); ok {
			for _, s := range b.List {
				if c08mIsRecoverDefer(s) {
					nDefer++
					if nDefer == 1 {
						covFrom, covTo = s.End(), b.End()
					}
				}
			}
		}
		return true
	})
	if nDefer > 1 {
		return "", fmt.Errorf("getServiceAwareMeta: %d deferred recovers", nDefer)
	}
	dominated := func(p token.Pos) bool { return nDefer == 1 && p > covFrom && p < covTo }
	// the name of the result map
	resMap := ""
	if fd.Type.Results != nil && len(fd.Type.Results.List) > 0 && len(fd.Type.Results.List[0].Names) == 1 {
		if _, ok := fd.Type.Results.List[0].Type.(*ast.MapType); ok {
			resMap = fd.Type.Results.List[0].Names[0].Name
		}
	}
	// comma-ok assertions
	commaOk := map[*ast.TypeAssertExpr]bool{}
	ast.Inspect(fd.Body, func(n ast.Node) bool {
		if a, ok := n.(*ast.AssignStmt); ok && len(a.Lhs) == 2 && len(a.Rhs) == 1 {
			if ta, ok := a.Rhs[0].(*ast.TypeAssertExpr); ok {
				commaOk[ta] = true
			}
		}
		if v, ok := n.(*ast.ValueSpec); ok && len(v.Names) == 2 && len(v.Values) == 1 {
			if ta, ok := v.Values[0].(*ast.TypeAssertExpr); ok {
				commaOk[ta] = true
			}
		}
		return true
	})
	localFuncs := map[string]bool{}
	for _, d := range f.Decls {
		if g, ok := d.(*ast.FuncDecl); ok && g.Recv == nil {
			localFuncs[g.Name.Name] = true
		}
	}
	type site struct {
		kind, text string
		dom        bool
		pos        token.Pos
	}
	var sites []site
	poolAsserts, decodeBefore, decodeAfter := 0, 0, 0
	var walk func(n ast.Node)
	walk = func(root ast.Node) {
		ast.Inspect(root, func(n ast.Node) bool {
			switch x := n.(type) {
			case *ast.FuncLit:
				return false // the deferred closures themselves
			case *ast.TypeSwitchStmt:
				return true
			case *ast.TypeAssertExpr:
				if x.Type == nil || commaOk[x] {
					return true
				}
				if c, ok := x.X.(*ast.CallExpr); ok {
					if s, ok := c.Fun.(*ast.SelectorExpr); ok && s.Sel.Name == "Get" && strings.Contains(strings.ToLower(exprKey(s.X)), "pool") && len(c.Args) == 0 {
						poolAsserts++
						return true
					}
				}
				sites = append(sites, site{"assert", c08fSrc(x), dominated(x.Pos()), x.Pos()})
			case *ast.IndexExpr:
				if resMap != "" && exprKey(x.X) == resMap {
					return true
				}
				sites = append(sites, site{"index", c08fSrc(x), dominated(x.Pos()), x.Pos()})
			case *ast.SliceExpr:
				if x.Low == nil && x.High == nil && x.Max == nil {
					return true
				}
				sites = append(sites, site{"slice", c08fSrc(x), dominated(x.Pos()), x.Pos()})
			case *ast.CallExpr:
				if id, ok := x.Fun.(*ast.Ident); ok && localFuncs[id.Name] {
					sites = append(sites, site{"call", id.Name, dominated(x.Pos()), x.Pos()})
				}
				if s, ok := x.Fun.(*ast.SelectorExpr); ok && s.Sel.Name == "Decode" && len(x.Args) == 0 {
					if dominated(x.Pos()) {
						decodeAfter++
					} else {
						decodeBefore++
					}
				}
			}
			return true
		})
	}
	walk(fd.Body)
	// the walk's positions: for the k-th `field, err = decoder.Decode()` at the top level of the walk, how a non-string is
	// treated: "ok" (comma-ok test) / "assert" (unchecked) / "none" (not asserted to string)
	var sb strings.Builder
	sb.WriteString(header("C08DubboMeta", file))
	sb.WriteString("/-- getServiceAwareMeta has a `defer func(){ … recover() … }()` -/\n")
	fmt.Fprintf(&sb, "def recoverPresent : Bool := %s\n", c08dBool(nDefer == 1))
	sb.WriteString("/-- the risky sites of getServiceAwareMeta in source order (kind, source text, dominated by the deferred recover):\nunchecked type assertions, index / bounded slice expressions (the result map apart), calls of functions of the package -/\n")
	sb.WriteString("def riskySites : List (String × String × Bool) := [")
	for i, s := range sites {
		if i > 0 {
			sb.WriteString(", ")
		}
		fmt.Fprintf(&sb, "(%q, %q, %s)", s.kind, s.text, c08dBool(s.dom))
	}
	sb.WriteString("]\n")
	// the unchecked assertion to string on the walk variable: the argument-types field
	typesAssertDom := "true"
	nFieldAsserts := 0
	for _, s := range sites {
		if s.kind == "assert" && strings.HasSuffix(s.text, ".(string)") {
			nFieldAsserts++
			typesAssertDom = c08dBool(s.dom)
		}
	}
	if nFieldAsserts > 1 {
		return "", fmt.Errorf("getServiceAwareMeta: %d unchecked string assertions (the model knows one: the argument-types field)", nFieldAsserts)
	}
	fmt.Fprintf(&sb, "/-- number of unchecked `.(string)` assertions on a decoded field (the argument-types descriptor) -/\ndef uncheckedStringAsserts : Nat := %d\n", nFieldAsserts)
	fmt.Fprintf(&sb, "/-- … and whether it is dominated by the deferred recover (true when there is none) -/\ndef typesAssertRecovered : Bool := %s\n", typesAssertDom)
	fmt.Fprintf(&sb, "/-- assertions on `<pool>.Get()` (not input dependent) -/\ndef poolAsserts : Nat := %d\n", poolAsserts)
	fmt.Fprintf(&sb, "/-- decoder.Decode() calls in front of / behind the deferred recover (hessian2 is a black box) -/\ndef decodeCallsBeforeRecover : Nat := %d\ndef decodeCallsBehindRecover : Nat := %d\n", decodeBefore, decodeAfter)
	sb.WriteString(footer("C08DubboMeta"))
	return sb.String(), nil
}
