package main

// Gen/ConfigDir.lean (C19): how the directory ("dynamic") mode of ClusterManagerConfig.MarshalJSON and
// RouterConfiguration.MarshalJSON derives the file name of one cluster / virtual host from its name — the sequence of
// operations applied to `fileName` between `fileName := <item>.Name` and `delete(allFiles, fileName)`, in source order
// (default for an empty name, truncation bound, separator replacement, extension, uniqueness within the dump) — the
// truncation bound MaxFilePath, the path separator, and the extension the loader (utils.ReadJsonFile of mosn.io/pkg,
// version from go.mod) accepts.

import (
	"fmt"
	"go/ast"
	"go/token"
	"os"
	"path/filepath"
	"regexp"
	"strconv"
	"strings"
)

func init() {
	register("ConfigDir", genConfigDir)
}

func leanBytes(s string) string {
	var p []string
	for i := 0; i < len(s); i++ {
		p = append(p, strconv.Itoa(int(s[i])))
	}
	return "[" + strings.Join(p, ", ") + "]"
}

type dirCtx struct {
	maxFilePath int64
	sep         string
}

// strConst resolves a string operand: a literal, or the package constant `sep` (= string(os.PathSeparator)).
func (dc *dirCtx) strConst(e ast.Expr) (string, error) {
	switch x := e.(type) {
	case *ast.BasicLit:
		if x.Kind == token.STRING {
			return strconv.Unquote(x.Value)
		}
	case *ast.Ident:
		if x.Name == "sep" {
			return dc.sep, nil
		}
	}
	return "", fmt.Errorf("unsupported string operand %s", exprKey(e))
}

func (dc *dirCtx) intConstExpr(e ast.Expr) (int64, error) {
	switch x := e.(type) {
	case *ast.BasicLit:
		if x.Kind == token.INT {
			return strconv.ParseInt(x.Value, 0, 64)
		}
	case *ast.Ident:
		if x.Name == "MaxFilePath" {
			return dc.maxFilePath, nil
		}
		return intConst("pkg/config/v2", x.Name)
	}
	return 0, fmt.Errorf("unsupported integer operand %s", exprKey(e))
}

// nameExpr renders an expression over `fileName` as the operations it applies, innermost first.
func (dc *dirCtx) nameExpr(e ast.Expr) ([]string, error) {
	switch x := e.(type) {
	case *ast.ParenExpr:
		return dc.nameExpr(x.X)
	case *ast.Ident:
		if x.Name == "fileName" {
			return nil, nil
		}
	case *ast.BinaryExpr:
		if x.Op == token.ADD {
			ops, err := dc.nameExpr(x.X)
			if err != nil {
				return nil, err
			}
			s, err := dc.strConst(x.Y)
			if err != nil {
				return nil, err
			}
			return append(ops, ".append "+leanBytes(s)), nil
		}
	case *ast.SliceExpr:
		if x.Low == nil && x.High != nil && !x.Slice3 {
			ops, err := dc.nameExpr(x.X)
			if err != nil {
				return nil, err
			}
			n, err := dc.intConstExpr(x.High)
			if err != nil {
				return nil, err
			}
			return append(ops, fmt.Sprintf(".truncate %d %d", n, n)), nil
		}
	case *ast.CallExpr:
		switch funKey(x) {
		case "strings.ReplaceAll":
			if len(x.Args) == 3 {
				ops, err := dc.nameExpr(x.Args[0])
				if err != nil {
					return nil, err
				}
				old, err := dc.strConst(x.Args[1])
				if err != nil {
					return nil, err
				}
				nw, err := dc.strConst(x.Args[2])
				if err != nil {
					return nil, err
				}
				if len(old) != 1 {
					return nil, fmt.Errorf("ReplaceAll of a %d-byte pattern", len(old))
				}
				return append(ops, fmt.Sprintf(".replaceAll %d %s", old[0], leanBytes(nw))), nil
			}
		case "uniqueFileName":
			if len(x.Args) == 2 && exprKey(x.Args[1]) == "written" {
				ops, err := dc.nameExpr(x.Args[0])
				if err != nil {
					return nil, err
				}
				return append(ops, ".unique"), nil
			}
		}
	}
	return nil, fmt.Errorf("unsupported file name expression %s", exprKey(e))
}

func funKey(c *ast.CallExpr) string { return exprKey(c.Fun) }

func callKey2(e ast.Expr) string {
	if c, ok := e.(*ast.CallExpr); ok {
		return funKey(c)
	}
	return ""
}

// nameOps walks the body of the per-item loop of a directory-mode MarshalJSON.
func (dc *dirCtx) nameOps(fd *ast.FuncDecl, coll string) ([]string, error) {
	var loop *ast.RangeStmt
	ast.Inspect(fd.Body, func(n ast.Node) bool {
		if r, ok := n.(*ast.RangeStmt); ok && exprKey(r.X) == coll {
			loop = r
		}
		return true
	})
	if loop == nil {
		return nil, fmt.Errorf("range over %s not found", coll)
	}
	item, ok := loop.Value.(*ast.Ident)
	if !ok {
		return nil, fmt.Errorf("range value is not an identifier")
	}
	var ops []string
	started, done, wrote, joined := false, false, false, false
	for _, st := range loop.Body.List {
		switch s := st.(type) {
		case *ast.AssignStmt:
			if len(s.Lhs) == 1 && exprKey(s.Lhs[0]) == "fileName" && len(s.Rhs) == 1 {
				if s.Tok == token.DEFINE {
					if exprKey(s.Rhs[0]) != item.Name+".Name" || started {
						return nil, fmt.Errorf("fileName is not initialised from %s.Name", item.Name)
					}
					started = true
					continue
				}
				if callKey2(s.Rhs[0]) == "filepath.Join" {
					if !done {
						return nil, fmt.Errorf("the path is joined before delete(allFiles, fileName)")
					}
					joined = true
					continue
				}
				// an assignment after delete(allFiles, fileName) is part of the name computation too: the position of
				// the in-use mark among the operations is emitted (.mark) and judged by the model (opsOK wants it last)
				if !started || joined {
					return nil, fmt.Errorf("assignment to fileName outside the name computation")
				}
				o, err := dc.nameExpr(s.Rhs[0])
				if err != nil {
					return nil, err
				}
				ops = append(ops, o...)
				continue
			}
			for _, l := range s.Lhs {
				if exprKey(l) == "fileName" {
					return nil, fmt.Errorf("unsupported assignment to fileName")
				}
			}
		case *ast.IfStmt:
			mentions := false
			ast.Inspect(s, func(n ast.Node) bool {
				if a, ok := n.(*ast.AssignStmt); ok {
					for _, l := range a.Lhs {
						if exprKey(l) == "fileName" {
							mentions = true
						}
					}
				}
				return true
			})
			if !mentions {
				if ifInitCalls(s, "utils.WriteFileSafety") {
					wrote = true
				}
				continue
			}
			if !started || joined || s.Init != nil || s.Else != nil || len(s.Body.List) != 1 {
				return nil, fmt.Errorf("unsupported conditional assignment to fileName")
			}
			as, ok := s.Body.List[0].(*ast.AssignStmt)
			if !ok || len(as.Lhs) != 1 || exprKey(as.Lhs[0]) != "fileName" || as.Tok != token.ASSIGN {
				return nil, fmt.Errorf("unsupported conditional assignment to fileName")
			}
			cond, ok := s.Cond.(*ast.BinaryExpr)
			if !ok {
				return nil, fmt.Errorf("unsupported condition on fileName")
			}
			switch {
			case cond.Op == token.EQL && exprKey(cond.X) == "fileName" && exprKey(cond.Y) == `""`:
				// if fileName == "" { fileName = fmt.Sprintf("%d", time.Now().UnixNano()) }
				c, ok := as.Rhs[0].(*ast.CallExpr)
				if !ok || funKey(c) != "fmt.Sprintf" || len(c.Args) != 2 || exprKey(c.Args[0]) != `"%d"` || !strings.Contains(exprKey(c.Args[1]), "UnixNano") {
					return nil, fmt.Errorf("unsupported default for an empty name")
				}
				ops = append(ops, ".orStamp")
			case cond.Op == token.GTR && callKey2(cond.X) == "len" && exprKey(cond.X.(*ast.CallExpr).Args[0]) == "fileName":
				// if len(fileName) > A { fileName = fileName[:B] }
				lim, err := dc.intConstExpr(cond.Y)
				if err != nil {
					return nil, err
				}
				sl, ok := as.Rhs[0].(*ast.SliceExpr)
				if !ok || exprKey(sl.X) != "fileName" || sl.Low != nil || sl.High == nil || sl.Slice3 {
					return nil, fmt.Errorf("unsupported truncation of fileName")
				}
				keep, err := dc.intConstExpr(sl.High)
				if err != nil {
					return nil, err
				}
				ops = append(ops, fmt.Sprintf(".truncate %d %d", lim, keep))
			default:
				return nil, fmt.Errorf("unsupported condition on fileName")
			}
		case *ast.ExprStmt:
			if callKey2(s.X) == "delete" {
				c := s.X.(*ast.CallExpr)
				if len(c.Args) == 2 && exprKey(c.Args[0]) == "allFiles" && exprKey(c.Args[1]) == "fileName" {
					if !started || done || joined {
						return nil, fmt.Errorf("delete(allFiles, fileName) out of place")
					}
					done = true
					ops = append(ops, ".mark")
				}
			}
		}
	}
	if !started || !done || !wrote {
		return nil, fmt.Errorf("loop over %s: name initialisation / delete(allFiles, fileName) / WriteFileSafety not found in this order", coll)
	}
	return ops, nil
}

func ifInitCalls(s *ast.IfStmt, name string) bool {
	found := false
	if s.Init != nil {
		ast.Inspect(s.Init, func(n ast.Node) bool {
			if c, ok := n.(*ast.CallExpr); ok && funKey(c) == name {
				found = true
			}
			return true
		})
	}
	return found
}

// readerExt: the extension utils.ReadJsonFile accepts (JsonExt) in the version of mosn.io/pkg the repo requires.
func readerExt() (string, string, error) {
	gomod, err := os.ReadFile(filepath.Join(repo, "go.mod"))
	if err != nil {
		return "", "", err
	}
	m := regexp.MustCompile(`(?m)^\s*mosn\.io/pkg\s+(v\S+)`).FindSubmatch(gomod)
	if m == nil {
		return "", "", fmt.Errorf("mosn.io/pkg not required in go.mod")
	}
	cache := os.Getenv("GOMODCACHE")
	if cache == "" {
		gp := os.Getenv("GOPATH")
		if gp == "" {
			home, _ := os.UserHomeDir()
			gp = filepath.Join(home, "go")
		}
		cache = filepath.Join(gp, "pkg", "mod")
	}
	rel := filepath.Join("mosn.io", "pkg@"+string(m[1]), "utils", "file.go")
	src, err := os.ReadFile(filepath.Join(cache, rel))
	if err != nil {
		return "", "", err
	}
	c := regexp.MustCompile(`(?m)^const\s+JsonExt\s*=\s*("[^"]*")`).FindSubmatch(src)
	if c == nil {
		return "", "", fmt.Errorf("JsonExt not found in %s", rel)
	}
	if !regexp.MustCompile(`path\.Ext\(file\)\s*!=\s*JsonExt`).Match(src) {
		return "", "", fmt.Errorf("ReadJsonFile no longer selects files by path.Ext(file) != JsonExt")
	}
	ext, err := strconv.Unquote(string(c[1]))
	return ext, rel, err
}

func genConfigDir() (string, error) {
	dc := &dirCtx{}
	var err error
	if dc.maxFilePath, err = intConst("pkg/config/v2", "MaxFilePath"); err != nil {
		return "", err
	}
	// const sep = string(os.PathSeparator)
	cf, err := parse("pkg/config/v2/common.go")
	if err != nil {
		return "", err
	}
	ast.Inspect(cf, func(n ast.Node) bool {
		if vs, ok := n.(*ast.ValueSpec); ok && len(vs.Names) == 1 && vs.Names[0].Name == "sep" && len(vs.Values) == 1 {
			if exprKey(vs.Values[0]) == "string(os.PathSeparator)" {
				dc.sep = "/"
			}
		}
		return true
	})
	if dc.sep == "" {
		return "", fmt.Errorf("const sep = string(os.PathSeparator) not found")
	}
	type site struct{ file, recv, coll, def string }
	sites := []site{{"pkg/config/v2/upstream.go", "ClusterManagerConfig", "cc.Clusters", "clusterNameOps"},
		{"pkg/config/v2/route.go", "RouterConfiguration", "rc.VirtualHosts", "vhostNameOps"}}
	ext, extSrc, err := readerExt()
	if err != nil {
		return "", err
	}
	s := "-- GENERATED by /verif/extract from pkg/config/v2/upstream.go, pkg/config/v2/route.go, pkg/config/v2/common.go, " + extSrc + " — do not edit; regenerated on every check\n"
	s += "import MosnVerif.Model.DirTypes\nnamespace MosnVerif.Gen.ConfigDir\nopen MosnVerif.Model.DirTypes\n\n"
	s += fmt.Sprintf("/-- MaxFilePath -/\ndef maxFilePath : Nat := %d\n\n", dc.maxFilePath)
	s += fmt.Sprintf("/-- os.PathSeparator -/\ndef pathSep : UInt8 := %d\n\n", dc.sep[0])
	s += fmt.Sprintf("/-- utils.JsonExt: ReadJsonFile ignores every file whose path.Ext differs -/\ndef readExt : List UInt8 := %s\n\n", leanBytes(ext))
	for _, st := range sites {
		f, err := parse(st.file)
		if err != nil {
			return "", err
		}
		fd := findFunc(f, st.recv, "MarshalJSON")
		if fd == nil {
			return "", fmt.Errorf("%s.MarshalJSON not found", st.recv)
		}
		ops, err := dc.nameOps(fd, st.coll)
		if err != nil {
			return "", fmt.Errorf("%s.MarshalJSON: %v", st.recv, err)
		}
		s += fmt.Sprintf("/-- %s.MarshalJSON, loop over %s: operations on `fileName`, in source order -/\ndef %s : List NameOp := [%s]\n\n",
			st.recv, st.coll, st.def, strings.Join(ops, ", "))
	}
	// uniqueFileName: the candidate format and the first counter
	fd := findFunc(cf, "", "uniqueFileName")
	if fd == nil {
		return "", fmt.Errorf("uniqueFileName not found")
	}
	usep, ustart, found := "", int64(-1), 0
	ast.Inspect(fd.Body, func(n ast.Node) bool {
		switch x := n.(type) {
		case *ast.CallExpr:
			if funKey(x) == "fmt.Sprintf" && len(x.Args) == 4 && exprKey(x.Args[1]) == "base" && exprKey(x.Args[2]) == "i" && exprKey(x.Args[3]) == "ext" {
				if f, err := dc.strConst(x.Args[0]); err == nil {
					if m := regexp.MustCompile(`^%s(.*)%d%s$`).FindStringSubmatch(f); m != nil && !strings.Contains(m[1], "%") {
						usep = m[1]
						found++
					}
				}
			}
		case *ast.ForStmt:
			if as, ok := x.Init.(*ast.AssignStmt); ok && len(as.Lhs) == 1 && exprKey(as.Lhs[0]) == "i" && len(as.Rhs) == 1 {
				if v, err := dc.intConstExpr(as.Rhs[0]); err == nil {
					ustart = v
				}
			}
		}
		return true
	})
	if found != 1 || ustart < 0 {
		return "", fmt.Errorf("uniqueFileName: candidate format / first counter not recognised")
	}
	s += fmt.Sprintf("/-- uniqueFileName: candidates are base ++ uniqueSep ++ decimal i ++ ext for i = uniqueStart, uniqueStart+1, … -/\ndef uniqueSep : List UInt8 := %s\ndef uniqueStart : Nat := %d\n\n", leanBytes(usep), ustart)
	s += footer("ConfigDir")
	return s, nil
}

// ---------------------------------------------------------------- Gen/ConfigPairs.lean

func init() {
	register("ConfigPairs", genConfigPairs)
}

type pairInfo struct {
	cfg    string            // config struct both methods go through
	durs   map[string]string // derived field -> config member (duration copies)
	metas  map[string]string // derived field -> config member (metadata)
	plain  map[string]string // derived field -> config member (plain copies)
	boxed  string
	ok     bool
}

// stripConv removes a one-argument conversion such as uint64(x) or time.Duration(x).
func c19StripConv(e ast.Expr) ast.Expr {
	if c, ok := e.(*ast.CallExpr); ok && len(c.Args) == 1 {
		switch exprKey(c.Fun) {
		case "uint64", "int64", "time.Duration":
			return c.Args[0]
		}
	}
	return e
}

// member resolves r.C.F / r.F (promoted through the embedded config) / local.F to the config member F.
func cfgMember(key, recv, cfg, local string) (string, bool) {
	for _, p := range []string{recv + "." + cfg + ".", local + ".", recv + "."} {
		if p != "." && strings.HasPrefix(key, p) {
			rest := key[len(p):]
			if rest != "" && !strings.Contains(rest, ".") {
				return rest, true
			}
		}
	}
	return "", false
}

func recvVar(fd *ast.FuncDecl) string {
	if fd.Recv != nil && len(fd.Recv.List) == 1 && len(fd.Recv.List[0].Names) == 1 {
		return fd.Recv.List[0].Names[0].Name
	}
	return ""
}

func classifyUnmarshal(fd *ast.FuncDecl, embedded map[string]bool, privateCfg map[string]string) pairInfo {
	pi := pairInfo{durs: map[string]string{}, metas: map[string]string{}, plain: map[string]string{}}
	r := recvVar(fd)
	st := fd.Body.List
	if len(st) == 1 { // return json.Unmarshal(b, &r.F)
		if ret, ok := st[0].(*ast.ReturnStmt); ok && len(ret.Results) == 1 {
			if c, ok := ret.Results[0].(*ast.CallExpr); ok && exprKey(c.Fun) == "json.Unmarshal" && len(c.Args) == 2 {
				k := exprKey(c.Args[1])
				if strings.HasPrefix(k, "&"+r+".") && !strings.Contains(k[len(r)+2:], ".") {
					pi.boxed, pi.ok = k[len(r)+2:], true
				}
			}
		}
		return pi
	}
	local := ""
	i := 0
	// optional: cfg := T{}
	if as, ok := st[0].(*ast.AssignStmt); ok && as.Tok == token.DEFINE && len(as.Lhs) == 1 && len(as.Rhs) == 1 {
		if cl, ok := as.Rhs[0].(*ast.CompositeLit); ok && len(cl.Elts) == 0 {
			local = exprKey(as.Lhs[0])
			pi.cfg = exprKey(cl.Type)
			i = 1
		}
	}
	if i >= len(st) {
		return pi
	}
	ifs, ok := st[i].(*ast.IfStmt)
	if !ok || ifs.Init == nil || !ifInitCalls(ifs, "json.Unmarshal") {
		return pi
	}
	var target string
	ast.Inspect(ifs.Init, func(n ast.Node) bool {
		if c, ok := n.(*ast.CallExpr); ok && exprKey(c.Fun) == "json.Unmarshal" && len(c.Args) == 2 {
			target = exprKey(c.Args[1])
		}
		return true
	})
	if local != "" {
		if target != "&"+local {
			return pi
		}
	} else {
		if !strings.HasPrefix(target, "&"+r+".") {
			return pi
		}
		pi.cfg = target[len(r)+2:]
		if !embedded[pi.cfg] {
			return pi
		}
	}
	for _, s := range st[i+1:] {
		switch x := s.(type) {
		case *ast.ReturnStmt:
			if len(x.Results) == 1 && exprKey(x.Results[0]) == "nil" {
				pi.ok = true
			}
			return pi
		case *ast.AssignStmt:
			if x.Tok != token.ASSIGN || len(x.Lhs) != 1 || len(x.Rhs) != 1 {
				return pi
			}
			lhs := exprKey(x.Lhs[0])
			if !strings.HasPrefix(lhs, r+".") || strings.Contains(lhs[len(r)+1:], ".") {
				return pi
			}
			d := lhs[len(r)+1:]
			rhs := c19StripConv(x.Rhs[0])
			if c, ok := rhs.(*ast.CallExpr); ok && exprKey(c.Fun) == "configToMetadata" && len(c.Args) == 1 {
				f, ok := cfgMember(exprKey(c.Args[0]), r, pi.cfg, local)
				if !ok {
					return pi
				}
				pi.metas[d] = f
				continue
			}
			k := exprKey(rhs)
			if local != "" && k == local { // r.raw = cfg
				if privateCfg[d] != pi.cfg {
					return pi
				}
				pi.plain[d] = "*"
				continue
			}
			if strings.HasSuffix(k, ".Duration") {
				f, ok := cfgMember(strings.TrimSuffix(k, ".Duration"), r, pi.cfg, local)
				if !ok {
					return pi
				}
				pi.durs[d] = f
				continue
			}
			f, ok := cfgMember(k, r, pi.cfg, local)
			if !ok {
				return pi
			}
			pi.plain[d] = f
		default:
			return pi
		}
	}
	return pi
}

func classifyMarshal(fd *ast.FuncDecl, embedded map[string]bool, privateCfg map[string]string) (pairInfo, []string) {
	pi := pairInfo{durs: map[string]string{}, metas: map[string]string{}, plain: map[string]string{}}
	var notes []string
	r := recvVar(fd)
	st := fd.Body.List
	for idx, s := range st {
		switch x := s.(type) {
		case *ast.ReturnStmt:
			if idx != len(st)-1 || len(x.Results) != 1 {
				return pi, notes
			}
			c, ok := x.Results[0].(*ast.CallExpr)
			if !ok || exprKey(c.Fun) != "json.Marshal" || len(c.Args) != 1 {
				return pi, notes
			}
			k := exprKey(c.Args[0])
			if !strings.HasPrefix(k, r+".") || strings.Contains(k[len(r)+1:], ".") {
				return pi, notes
			}
			f := k[len(r)+1:]
			switch {
			case embedded[f]:
				pi.cfg, pi.ok = f, true
			case privateCfg[f] != "":
				pi.cfg, pi.ok = privateCfg[f], true
				pi.plain[f] = "*"
			default:
				if len(st) == 1 {
					pi.boxed, pi.ok = f, true
				}
			}
			return pi, notes
		case *ast.AssignStmt:
			if x.Tok != token.ASSIGN || len(x.Lhs) != 1 || len(x.Rhs) != 1 {
				return pi, notes
			}
			lhs := exprKey(x.Lhs[0])
			rhs := c19StripConv(x.Rhs[0])
			if c, ok := rhs.(*ast.CallExpr); ok && exprKey(c.Fun) == "metadataToConfig" && len(c.Args) == 1 {
				d := exprKey(c.Args[0])
				if !strings.HasPrefix(d, r+".") {
					return pi, notes
				}
				pi.metas[d[len(r)+1:]] = lhs // resolved below
				continue
			}
			d := exprKey(rhs)
			if !strings.HasPrefix(d, r+".") || strings.Contains(d[len(r)+1:], ".") {
				return pi, notes
			}
			if strings.HasSuffix(lhs, ".Duration") {
				pi.durs[d[len(r)+1:]] = strings.TrimSuffix(lhs, ".Duration")
			} else {
				pi.plain[d[len(r)+1:]] = lhs
			}
		case *ast.IfStmt:
			// `if pm, ok := x.F.(proto.Message); ok { … }`: a branch for values that were not produced by UnmarshalJSON
			if as, ok := x.Init.(*ast.AssignStmt); ok && len(as.Rhs) == 1 {
				if ta, ok := as.Rhs[0].(*ast.TypeAssertExpr); ok && exprKey(ta.Type) == "proto.Message" {
					notes = append(notes, "type-assertion branch on proto.Message ignored (never taken for a value loaded from JSON)")
					continue
				}
			}
			return pi, notes
		default:
			return pi, notes
		}
	}
	return pi, notes
}

func genConfigPairs() (string, error) {
	dir := filepath.Join(repo, "pkg/config/v2")
	pkgs, err := parserParseDir(dir)
	if err != nil {
		return "", err
	}
	type stInfo struct {
		fields   map[string]string // field name -> json key ("-" …)
		embedded map[string]bool
		private  map[string]string // unexported field -> struct type name
		um, m    *ast.FuncDecl
	}
	structs := map[string]*stInfo{}
	var names []string
	for _, f := range pkgs {
		for _, d := range f.Decls {
			gd, ok := d.(*ast.GenDecl)
			if !ok || gd.Tok != token.TYPE {
				continue
			}
			for _, sp := range gd.Specs {
				ts := sp.(*ast.TypeSpec)
				stt, ok := ts.Type.(*ast.StructType)
				if !ok {
					continue
				}
				si := &stInfo{fields: map[string]string{}, embedded: map[string]bool{}, private: map[string]string{}}
				for _, fl := range stt.Fields.List {
					key := ""
					if fl.Tag != nil {
						raw, _ := strconv.Unquote(fl.Tag.Value)
						if m := regexp.MustCompile(`json:"([^",]*)`).FindStringSubmatch(raw); m != nil {
							key = m[1]
						}
					}
					if len(fl.Names) == 0 {
						si.embedded[exprKey(fl.Type)] = true
						continue
					}
					for _, n := range fl.Names {
						si.fields[n.Name] = key
						if !ast.IsExported(n.Name) {
							si.private[n.Name] = exprKey(fl.Type)
						}
					}
				}
				structs[ts.Name.Name] = si
				names = append(names, ts.Name.Name)
			}
		}
	}
	for _, f := range pkgs {
		for _, d := range f.Decls {
			fd, ok := d.(*ast.FuncDecl)
			if !ok || fd.Recv == nil || len(fd.Recv.List) != 1 || fd.Body == nil {
				continue
			}
			t := fd.Recv.List[0].Type
			if s, ok := t.(*ast.StarExpr); ok {
				t = s.X
			}
			si := structs[exprKey(t)]
			if si == nil {
				continue
			}
			switch fd.Name.Name {
			case "MarshalJSON":
				si.m = fd
			case "UnmarshalJSON":
				si.um = fd
			}
		}
	}
	sortStrings(names)
	var rows []string
	for _, n := range names {
		si := structs[n]
		if si.m == nil && si.um == nil {
			continue
		}
		kind := ".other"
		note := ""
		if si.m != nil && si.um != nil {
			u := classifyUnmarshal(si.um, si.embedded, si.private)
			m, notes := classifyMarshal(si.m, si.embedded, si.private)
			if len(notes) > 0 {
				note = "  -- " + strings.Join(notes, "; ")
			}
			if u.ok && m.ok {
				switch {
				case u.boxed != "" && u.boxed == m.boxed && si.fields[u.boxed] == "":
					kind = fmt.Sprintf(".boxed %q", u.boxed)
				case u.cfg != "" && u.cfg == m.cfg && u.boxed == "" && m.boxed == "":
					good := true
					// the same derived fields are copied in both directions, to and from the same members
					same := func(a, b map[string]string, viaCfg bool) {
						if len(a) != len(b) {
							good = false
						}
						for d, f := range a {
							g, ok := b[d]
							if !ok {
								good = false
								continue
							}
							if viaCfg {
								r := recvVar(si.m)
								if mf, ok2 := cfgMember(g, r, m.cfg, ""); !ok2 || mf != f {
									if !(f == "*" && g == "*") {
										good = false
									}
								}
							}
							if key, ok := si.fields[d]; !ok || (key != "-" && ast.IsExported(d)) {
								good = false
							}
						}
					}
					same(u.durs, m.durs, true)
					same(u.metas, m.metas, true)
					// plain copies: name <-> cfg member, raw <-> whole config
					for d, f := range u.plain {
						if f == "*" {
							continue
						}
						if g, ok := m.plain[d]; ok {
							r := recvVar(si.m)
							if mf, ok2 := cfgMember(strings.Replace(g, r+"."+privateField(si.private, m.cfg)+".", r+"."+m.cfg+".", 1), r, m.cfg, ""); !ok2 || mf != f {
								good = false
							}
						}
						// a plain member that is only read (never written back) does not change what is encoded
					}
					for d := range m.plain {
						if _, ok := u.plain[d]; !ok && m.plain[d] != "*" {
							good = false
						}
					}
					if good && len(u.metas) == 1 {
						cfgSt := structs[u.cfg]
						for _, f := range u.metas {
							if cfgSt != nil && cfgSt.fields[f] != "" {
								kind = fmt.Sprintf(".metadata %q %q", u.cfg, cfgSt.fields[f])
							}
						}
					} else if good && len(u.metas) == 0 {
						kind = fmt.Sprintf(".mirror %q", u.cfg)
					}
				}
			}
		}
		rows = append(rows, fmt.Sprintf("  (%q, %s)", n, kind)+note)
	}
	s := "-- GENERATED by /verif/extract from the MarshalJSON / UnmarshalJSON bodies of pkg/config/v2/*.go — do not edit; regenerated on every check\n"
	s += "import MosnVerif.Model.PairTypes\nnamespace MosnVerif.Gen.ConfigPairs\nopen MosnVerif.Model.PairTypes\n\n"
	s += "/-- every struct of pkg/config/v2 with a custom MarshalJSON or UnmarshalJSON, classified by the bodies of the two methods -/\n"
	s += "def customKinds : List (String × CustomKind) := [\n" + strings.Join(rows, ",\n") + "\n]\n\n"
	s += footer("ConfigPairs")
	// Lean does not allow a comment between list elements and the separating comma on the same line: move notes up
	return fixListComments(s), nil
}

func privateField(private map[string]string, cfg string) string {
	for f, t := range private {
		if t == cfg {
			return f
		}
	}
	return ""
}

func fixListComments(s string) string {
	lines := strings.Split(s, "\n")
	for i, l := range lines {
		if j := strings.Index(l, "  -- "); j > 0 && strings.HasPrefix(strings.TrimSpace(l), "(") {
			body, note := l[:j], l[j:]
			comma := ""
			if i+1 < len(lines) && strings.HasPrefix(lines[i+1], ",") {
				comma = ""
			}
			_ = comma
			lines[i] = body + " " + strings.TrimSpace(note)
		}
	}
	return strings.Join(lines, "\n")
}

func sortStrings(a []string) {
	for i := 1; i < len(a); i++ {
		for j := i; j > 0 && a[j] < a[j-1]; j-- {
			a[j], a[j-1] = a[j-1], a[j]
		}
	}
}

func parserParseDir(dir string) ([]*ast.File, error) {
	ents, err := os.ReadDir(dir)
	if err != nil {
		return nil, err
	}
	var out []*ast.File
	for _, e := range ents {
		n := e.Name()
		if !strings.HasSuffix(n, ".go") || strings.HasSuffix(n, "_test.go") {
			continue
		}
		f, err := parse(filepath.Join("pkg/config/v2", n))
		if err != nil {
			return nil, err
		}
		out = append(out, f)
	}
	return out, nil
}
