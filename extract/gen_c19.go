package main

// Gen/ConfigDir.lean (C19): how the directory ("dynamic") mode of ClusterManagerConfig.MarshalJSON and
// RouterConfiguration.MarshalJSON derives the file name of one cluster / virtual host from its name — the sequence of
// operations applied to `fileName` between `fileName := <item>.Name` and `delete(allFiles, fileName)`, in source order
// (default for an empty name, truncation bound, separator replacement, extension, uniqueness within the dump) — the
// truncation bound MaxFilePath, the path separator, and the extension the loader (utils.ReadJsonFile of mosn.io/pkg,
// version from go.mod) accepts.

import (
	"fmt"
	"go/ast"
	"go/token"
	"os"
	"path/filepath"
	"regexp"
	"strconv"
	"strings"
)

func init() {
	register("ConfigDir", genConfigDir)
}

func leanBytes(s string) string {
	var p []string
	for i := 0; i < len(s); i++ {
		p = append(p, strconv.Itoa(int(s[i])))
	}
	return "[" + strings.Join(p, ", ") + "]"
}

type dirCtx struct {
	maxFilePath int64
	sep         string
}

// strConst resolves a string operand: a literal, or the package constant `sep` (= string(os.PathSeparator)).
func (dc *dirCtx) strConst(e ast.Expr) (string, error) {
	switch x := e.(type) {
	case *ast.BasicLit:
		if x.Kind == token.STRING {
			return strconv.Unquote(x.Value)
		}
	case *ast.Ident:
		if x.Name == "sep" {
			return dc.sep, nil
		}
	}
	return "", fmt.Errorf("unsupported string operand %s", exprKey(e))
}

func (dc *dirCtx) intConstExpr(e ast.Expr) (int64, error) {
	switch x := e.(type) {
	case *ast.BasicLit:
		if x.Kind == token.INT {
			return strconv.ParseInt(x.Value, 0, 64)
		}
	case *ast.Ident:
		if x.Name == "MaxFilePath" {
			return dc.maxFilePath, nil
		}
		return intConst("pkg/config/v2", x.Name)
	}
	return 0, fmt.Errorf("unsupported integer operand %s", exprKey(e))
}

// nameExpr renders an expression over `fileName` as the operations it applies, innermost first.
func (dc *dirCtx) nameExpr(e ast.Expr) ([]string, error) {
	switch x := e.(type) {
	case *ast.ParenExpr:
		return dc.nameExpr(x.X)
	case *ast.Ident:
		if x.Name == "fileName" {
			return nil, nil
		}
	case *ast.BinaryExpr:
		if x.Op == token.ADD {
			ops, err := dc.nameExpr(x.X)
			if err != nil {
				return nil, err
			}
			s, err := dc.strConst(x.Y)
			if err != nil {
				return nil, err
			}
			return append(ops, ".append "+leanBytes(s)), nil
		}
	case *ast.SliceExpr:
		if x.Low == nil && x.High != nil && !x.Slice3 {
			ops, err := dc.nameExpr(x.X)
			if err != nil {
				return nil, err
			}
			n, err := dc.intConstExpr(x.High)
			if err != nil {
				return nil, err
			}
			return append(ops, fmt.Sprintf(".truncate %d %d", n, n)), nil
		}
	case *ast.CallExpr:
		switch funKey(x) {
		case "strings.ReplaceAll":
			if len(x.Args) == 3 {
				ops, err := dc.nameExpr(x.Args[0])
				if err != nil {
					return nil, err
				}
				old, err := dc.strConst(x.Args[1])
				if err != nil {
					return nil, err
				}
				nw, err := dc.strConst(x.Args[2])
				if err != nil {
					return nil, err
				}
				if len(old) != 1 {
					return nil, fmt.Errorf("ReplaceAll of a %d-byte pattern", len(old))
				}
				return append(ops, fmt.Sprintf(".replaceAll %d %s", old[0], leanBytes(nw))), nil
			}
		case "uniqueFileName":
			if len(x.Args) == 2 && exprKey(x.Args[1]) == "written" {
				ops, err := dc.nameExpr(x.Args[0])
				if err != nil {
					return nil, err
				}
				return append(ops, ".unique"), nil
			}
		}
	}
	return nil, fmt.Errorf("unsupported file name expression %s", exprKey(e))
}

func funKey(c *ast.CallExpr) string { return exprKey(c.Fun) }

func callKey2(e ast.Expr) string {
	if c, ok := e.(*ast.CallExpr); ok {
		return funKey(c)
	}
	return ""
}

// nameOps walks the body of the per-item loop of a directory-mode MarshalJSON.
func (dc *dirCtx) nameOps(fd *ast.FuncDecl, coll string) ([]string, error) {
	var loop *ast.RangeStmt
	ast.Inspect(fd.Body, func(n ast.Node) bool {
		if r, ok := n.(*ast.RangeStmt); ok && exprKey(r.X) == coll {
			loop = r
		}
		return true
	})
	if loop == nil {
		return nil, fmt.Errorf("range over %s not found", coll)
	}
	item, ok := loop.Value.(*ast.Ident)
	if !ok {
		return nil, fmt.Errorf("range value is not an identifier")
	}
	var ops []string
	started, done, wrote := false, false, false
	for _, st := range loop.Body.List {
		switch s := st.(type) {
		case *ast.AssignStmt:
			if len(s.Lhs) == 1 && exprKey(s.Lhs[0]) == "fileName" && len(s.Rhs) == 1 {
				if s.Tok == token.DEFINE {
					if exprKey(s.Rhs[0]) != item.Name+".Name" || started {
						return nil, fmt.Errorf("fileName is not initialised from %s.Name", item.Name)
					}
					started = true
					continue
				}
				if callKey2(s.Rhs[0]) == "filepath.Join" {
					if !done {
						return nil, fmt.Errorf("the path is joined before delete(allFiles, fileName)")
					}
					continue
				}
				if !started || done {
					return nil, fmt.Errorf("assignment to fileName outside the name computation")
				}
				o, err := dc.nameExpr(s.Rhs[0])
				if err != nil {
					return nil, err
				}
				ops = append(ops, o...)
				continue
			}
			for _, l := range s.Lhs {
				if exprKey(l) == "fileName" {
					return nil, fmt.Errorf("unsupported assignment to fileName")
				}
			}
		case *ast.IfStmt:
			mentions := false
			ast.Inspect(s, func(n ast.Node) bool {
				if a, ok := n.(*ast.AssignStmt); ok {
					for _, l := range a.Lhs {
						if exprKey(l) == "fileName" {
							mentions = true
						}
					}
				}
				return true
			})
			if !mentions {
				if ifInitCalls(s, "utils.WriteFileSafety") {
					wrote = true
				}
				continue
			}
			if !started || done || s.Init != nil || s.Else != nil || len(s.Body.List) != 1 {
				return nil, fmt.Errorf("unsupported conditional assignment to fileName")
			}
			as, ok := s.Body.List[0].(*ast.AssignStmt)
			if !ok || len(as.Lhs) != 1 || exprKey(as.Lhs[0]) != "fileName" || as.Tok != token.ASSIGN {
				return nil, fmt.Errorf("unsupported conditional assignment to fileName")
			}
			cond, ok := s.Cond.(*ast.BinaryExpr)
			if !ok {
				return nil, fmt.Errorf("unsupported condition on fileName")
			}
			switch {
			case cond.Op == token.EQL && exprKey(cond.X) == "fileName" && exprKey(cond.Y) == `""`:
				// if fileName == "" { fileName = fmt.Sprintf("%d", time.Now().UnixNano()) }
				c, ok := as.Rhs[0].(*ast.CallExpr)
				if !ok || funKey(c) != "fmt.Sprintf" || len(c.Args) != 2 || exprKey(c.Args[0]) != `"%d"` || !strings.Contains(exprKey(c.Args[1]), "UnixNano") {
					return nil, fmt.Errorf("unsupported default for an empty name")
				}
				ops = append(ops, ".orStamp")
			case cond.Op == token.GTR && callKey2(cond.X) == "len" && exprKey(cond.X.(*ast.CallExpr).Args[0]) == "fileName":
				// if len(fileName) > A { fileName = fileName[:B] }
				lim, err := dc.intConstExpr(cond.Y)
				if err != nil {
					return nil, err
				}
				sl, ok := as.Rhs[0].(*ast.SliceExpr)
				if !ok || exprKey(sl.X) != "fileName" || sl.Low != nil || sl.High == nil || sl.Slice3 {
					return nil, fmt.Errorf("unsupported truncation of fileName")
				}
				keep, err := dc.intConstExpr(sl.High)
				if err != nil {
					return nil, err
				}
				ops = append(ops, fmt.Sprintf(".truncate %d %d", lim, keep))
			default:
				return nil, fmt.Errorf("unsupported condition on fileName")
			}
		case *ast.ExprStmt:
			if callKey2(s.X) == "delete" {
				c := s.X.(*ast.CallExpr)
				if len(c.Args) == 2 && exprKey(c.Args[0]) == "allFiles" && exprKey(c.Args[1]) == "fileName" {
					if !started || done {
						return nil, fmt.Errorf("delete(allFiles, fileName) out of place")
					}
					done = true
				}
			}
		}
	}
	if !started || !done || !wrote {
		return nil, fmt.Errorf("loop over %s: name initialisation / delete(allFiles, fileName) / WriteFileSafety not found in this order", coll)
	}
	return ops, nil
}

func ifInitCalls(s *ast.IfStmt, name string) bool {
	found := false
	if s.Init != nil {
		ast.Inspect(s.Init, func(n ast.Node) bool {
			if c, ok := n.(*ast.CallExpr); ok && funKey(c) == name {
				found = true
			}
			return true
		})
	}
	return found
}

// readerExt: the extension utils.ReadJsonFile accepts (JsonExt) in the version of mosn.io/pkg the repo requires.
func readerExt() (string, string, error) {
	gomod, err := os.ReadFile(filepath.Join(repo, "go.mod"))
	if err != nil {
		return "", "", err
	}
	m := regexp.MustCompile(`(?m)^\s*mosn\.io/pkg\s+(v\S+)`).FindSubmatch(gomod)
	if m == nil {
		return "", "", fmt.Errorf("mosn.io/pkg not required in go.mod")
	}
	cache := os.Getenv("GOMODCACHE")
	if cache == "" {
		gp := os.Getenv("GOPATH")
		if gp == "" {
			home, _ := os.UserHomeDir()
			gp = filepath.Join(home, "go")
		}
		cache = filepath.Join(gp, "pkg", "mod")
	}
	rel := filepath.Join("mosn.io", "pkg@"+string(m[1]), "utils", "file.go")
	src, err := os.ReadFile(filepath.Join(cache, rel))
	if err != nil {
		return "", "", err
	}
	c := regexp.MustCompile(`(?m)^const\s+JsonExt\s*=\s*("[^"]*")`).FindSubmatch(src)
	if c == nil {
		return "", "", fmt.Errorf("JsonExt not found in %s", rel)
	}
	if !regexp.MustCompile(`path\.Ext\(file\)\s*!=\s*JsonExt`).Match(src) {
		return "", "", fmt.Errorf("ReadJsonFile no longer selects files by path.Ext(file) != JsonExt")
	}
	ext, err := strconv.Unquote(string(c[1]))
	return ext, rel, err
}

func genConfigDir() (string, error) {
	dc := &dirCtx{}
	var err error
	if dc.maxFilePath, err = intConst("pkg/config/v2", "MaxFilePath"); err != nil {
		return "", err
	}
	// const sep = string(os.PathSeparator)
	cf, err := parse("pkg/config/v2/common.go")
	if err != nil {
		return "", err
	}
	ast.Inspect(cf, func(n ast.Node) bool {
		if vs, ok := n.(*ast.ValueSpec); ok && len(vs.Names) == 1 && vs.Names[0].Name == "sep" && len(vs.Values) == 1 {
			if exprKey(vs.Values[0]) == "string(os.PathSeparator)" {
				dc.sep = "/"
			}
		}
		return true
	})
	if dc.sep == "" {
		return "", fmt.Errorf("const sep = string(os.PathSeparator) not found")
	}
	type site struct{ file, recv, coll, def string }
	sites := []site{{"pkg/config/v2/upstream.go", "ClusterManagerConfig", "cc.Clusters", "clusterNameOps"},
		{"pkg/config/v2/route.go", "RouterConfiguration", "rc.VirtualHosts", "vhostNameOps"}}
	ext, extSrc, err := readerExt()
	if err != nil {
		return "", err
	}
	s := "-- GENERATED by /verif/extract from pkg/config/v2/upstream.go, pkg/config/v2/route.go, pkg/config/v2/common.go, " + extSrc + " — do not edit; regenerated on every check\n"
	s += "import MosnVerif.Model.DirTypes\nnamespace MosnVerif.Gen.ConfigDir\nopen MosnVerif.Model.DirTypes\n\n"
	s += fmt.Sprintf("/-- MaxFilePath -/\ndef maxFilePath : Nat := %d\n\n", dc.maxFilePath)
	s += fmt.Sprintf("/-- os.PathSeparator -/\ndef pathSep : UInt8 := %d\n\n", dc.sep[0])
	s += fmt.Sprintf("/-- utils.JsonExt: ReadJsonFile ignores every file whose path.Ext differs -/\ndef readExt : List UInt8 := %s\n\n", leanBytes(ext))
	for _, st := range sites {
		f, err := parse(st.file)
		if err != nil {
			return "", err
		}
		fd := findFunc(f, st.recv, "MarshalJSON")
		if fd == nil {
			return "", fmt.Errorf("%s.MarshalJSON not found", st.recv)
		}
		ops, err := dc.nameOps(fd, st.coll)
		if err != nil {
			return "", fmt.Errorf("%s.MarshalJSON: %v", st.recv, err)
		}
		s += fmt.Sprintf("/-- %s.MarshalJSON, loop over %s: operations on `fileName`, in source order -/\ndef %s : List NameOp := [%s]\n\n",
			st.recv, st.coll, st.def, strings.Join(ops, ", "))
	}
	// uniqueFileName: the candidate format and the first counter
	fd := findFunc(cf, "", "uniqueFileName")
	if fd == nil {
		return "", fmt.Errorf("uniqueFileName not found")
	}
	usep, ustart, found := "", int64(-1), 0
	ast.Inspect(fd.Body, func(n ast.Node) bool {
		switch x := n.(type) {
		case *ast.CallExpr:
			if funKey(x) == "fmt.Sprintf" && len(x.Args) == 4 && exprKey(x.Args[1]) == "base" && exprKey(x.Args[2]) == "i" && exprKey(x.Args[3]) == "ext" {
				if f, err := dc.strConst(x.Args[0]); err == nil {
					if m := regexp.MustCompile(`^%s(.*)%d%s$`).FindStringSubmatch(f); m != nil && !strings.Contains(m[1], "%") {
						usep = m[1]
						found++
					}
				}
			}
		case *ast.ForStmt:
			if as, ok := x.Init.(*ast.AssignStmt); ok && len(as.Lhs) == 1 && exprKey(as.Lhs[0]) == "i" && len(as.Rhs) == 1 {
				if v, err := dc.intConstExpr(as.Rhs[0]); err == nil {
					ustart = v
				}
			}
		}
		return true
	})
	if found != 1 || ustart < 0 {
		return "", fmt.Errorf("uniqueFileName: candidate format / first counter not recognised")
	}
	s += fmt.Sprintf("/-- uniqueFileName: candidates are base ++ uniqueSep ++ decimal i ++ ext for i = uniqueStart, uniqueStart+1, … -/\ndef uniqueSep : List UInt8 := %s\ndef uniqueStart : Nat := %d\n\n", leanBytes(usep), ustart)
	s += footer("ConfigDir")
	return s, nil
}
