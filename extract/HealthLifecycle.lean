-- translation-unsupported HealthLifecycle: open -out/pkg/upstream/healthcheck/healthchecker.go: no such file or directory
namespace MosnVerif.Gen.HealthLifecycle
end MosnVerif.Gen.HealthLifecycle
