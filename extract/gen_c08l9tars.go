package main

// [c08l9] tarsProtocol.Decode: what the status PACKAGE_ERROR of TarsGo's TarsRequest (an announced length that can
// never become a package) is mapped to: a decode error (the connection is closed) or `nil, nil` (= need more data, for
// ever).  Emitted into Gen.FrameConsts as `tars_packageErrorFails`.

import (
	"fmt"
	"go/ast"
	"go/token"
)

func c08l9TarsStatus() (string, error) {
	f, err := parse(xp + "tars/protocol.go")
	if err != nil {
		return "", err
	}
	fd := findFunc(f, "tarsProtocol", "Decode")
	if fd == nil {
		return "", fmt.Errorf("tarsProtocol.Decode not found")
	}
	// the status variable is the second result of tarsprotocol.TarsRequest(data.Bytes())
	status := ""
	for _, st := range fd.Body.List {
		if as, ok := st.(*ast.AssignStmt); ok && len(as.Lhs) == 2 && len(as.Rhs) == 1 && exprText(as.Rhs[0]) == "tarsprotocol.TarsRequest(data.Bytes())" {
			status = exprText(as.Lhs[1])
		}
	}
	if status == "" {
		return "", fmt.Errorf("tarsProtocol.Decode: TarsRequest call not found")
	}
	fails, full := false, false
	for i, st := range fd.Body.List {
		is, ok := st.(*ast.IfStmt)
		if !ok {
			continue
		}
		switch exprText(is.Cond) {
		case status + "==tarsprotocol.PACKAGE_FULL":
			full = true
		case status + "==tarsprotocol.PACKAGE_ERROR":
			if is.Init != nil || len(is.Body.List) == 0 {
				return "", fmt.Errorf("tarsProtocol.Decode: PACKAGE_ERROR branch shape")
			}
			rs, ok := is.Body.List[len(is.Body.List)-1].(*ast.ReturnStmt)
			if !ok || len(rs.Results) != 2 {
				return "", fmt.Errorf("tarsProtocol.Decode: PACKAGE_ERROR branch does not return")
			}
			if id, ok := rs.Results[1].(*ast.Ident); !(ok && id.Name == "nil") && exprText(rs.Results[0]) == "nil" {
				fails = true
			}
		default:
			return "", fmt.Errorf("tarsProtocol.Decode: unexpected test %s", exprText(is.Cond))
		}
		_ = i
	}
	last, ok := fd.Body.List[len(fd.Body.List)-1].(*ast.ReturnStmt)
	if !full || !ok || len(last.Results) != 2 || exprText(last.Results[0]) != "nil" || exprText(last.Results[1]) != "nil" {
		return "", fmt.Errorf("tarsProtocol.Decode: shape (PACKAGE_FULL test, final `return nil, nil`)")
	}
	_ = token.ASSIGN
	return fmt.Sprintf("/-- tarsProtocol.Decode: status PACKAGE_ERROR (announced length < min or > max) is returned as a decode error (false: as `nil, nil` = need more data) -/\ndef tars_packageErrorFails : Bool := %v\n", fails), nil
}
