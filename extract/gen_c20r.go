package main

// Gen/RawRedact.lean (C20, raw level): the statement structure of configmanager.redactedRawJSON — which tests can
// return the RAW bytes before / instead of the decode-walk-encode pipeline, in order, with the condition of every
// early return — plus every call site of redactedRawJSON / redactJSONValue and every expression of redact.go that
// mentions the key constant. A guard that inspects the raw bytes (`bytes.Contains(bytes.ToLower(raw), …)`) becomes a
// step of the list; the theorems of Props/C20 (raw_hole_clean) are proved for the regenerated list and stop
// checking when it changes. All helpers are prefixed c20r.

import (
	"bytes"
	"fmt"
	"go/ast"
	"go/printer"
	"go/token"
	"sort"
	"strconv"
	"strings"
)

func init() {
	register("RawRedact", c20rGen)
}

func c20rPrint(n ast.Node) string {
	var b bytes.Buffer
	if err := printer.Fprint(&b, token.NewFileSet(), n); err != nil {
		return "?" + err.Error()
	}
	return strings.Join(strings.Fields(b.String()), " ")
}

type c20rStep struct {
	kind string
	args []string
}

// c20rSingleReturn: `{ return X }` -> printed X
func c20rSingleReturn(b *ast.BlockStmt) (string, bool) {
	if b == nil || len(b.List) != 1 {
		return "", false
	}
	rs, ok := b.List[0].(*ast.ReturnStmt)
	if !ok || len(rs.Results) != 1 {
		return "", false
	}
	return c20rPrint(rs.Results[0]), true
}

func c20rUnparen(e ast.Expr) ast.Expr {
	for {
		p, ok := e.(*ast.ParenExpr)
		if !ok {
			return e
		}
		e = p.X
	}
}

// c20rStringArg: the string a `[]byte(X)` / `X` argument denotes (literal or string constant of the package)
func c20rStringArg(e ast.Expr, consts map[string]string) (string, bool) {
	e = c20rUnparen(e)
	if ce, ok := e.(*ast.CallExpr); ok && len(ce.Args) == 1 {
		f := c20rPrint(ce.Fun)
		if f == "[]byte" || f == "string" {
			return c20rStringArg(ce.Args[0], consts)
		}
		return "", false
	}
	if bl, ok := e.(*ast.BasicLit); ok && bl.Kind == token.STRING {
		s, err := strconv.Unquote(bl.Value)
		return s, err == nil
	}
	if id, ok := e.(*ast.Ident); ok {
		s, ok := consts[id.Name]
		return s, ok
	}
	return "", false
}

// c20rCond classifies the condition of an early return. Recognised forms get a short tag the model interprets;
// everything else is `cond:<printed expression>` (the model treats it as an unknown test of the raw bytes).
func c20rCond(e ast.Expr, param string, consts map[string]string) string {
	e = c20rUnparen(e)
	txt := c20rPrint(e)
	switch txt {
	case "len(" + param + ") == 0", param + " == nil":
		return "len0"
	case "!changed":
		return "not:changed"
	case "err != nil":
		return "err"
	}
	neg := false
	inner := e
	if u, ok := e.(*ast.UnaryExpr); ok && u.Op == token.NOT {
		neg = true
		inner = c20rUnparen(u.X)
	}
	if ce, ok := inner.(*ast.CallExpr); ok && len(ce.Args) == 2 {
		fn := c20rPrint(ce.Fun)
		if fn == "bytes.Contains" || fn == "strings.Contains" {
			needle, okN := c20rStringArg(ce.Args[1], consts)
			hay := c20rPrint(c20rUnparen(ce.Args[0]))
			tag := ""
			switch hay {
			case param, "string(" + param + ")":
				tag = "contains"
			case "bytes.ToLower(" + param + ")", "strings.ToLower(string(" + param + "))":
				tag = "contains-lower"
			}
			if okN && tag != "" {
				if neg {
					tag = "not-" + tag
				}
				return tag + ":" + needle
			}
		}
	}
	return "cond:" + txt
}

func c20rGen() (string, error) {
	const redSrc = "pkg/configmanager/redact.go"
	red, err := parse(redSrc)
	if err != nil {
		return "", err
	}
	cs, err := pkgConsts("pkg/configmanager")
	if err != nil {
		return "", err
	}
	consts := map[string]string{}
	for n, v := range cs {
		if v.Kind().String() == "String" {
			s, err := strconv.Unquote(v.ExactString())
			if err == nil {
				consts[n] = s
			}
		}
	}
	fd := findFunc(red, "", "redactedRawJSON")
	if fd == nil {
		return "", fmt.Errorf("redactedRawJSON not found in %s", redSrc)
	}
	if fd.Type.Params == nil || len(fd.Type.Params.List) != 1 || len(fd.Type.Params.List[0].Names) != 1 {
		return "", fmt.Errorf("redactedRawJSON: expected one parameter")
	}
	param := fd.Type.Params.List[0].Names[0].Name
	if c20rPrint(fd.Type.Params.List[0].Type) != "json.RawMessage" || fd.Type.Results == nil ||
		len(fd.Type.Results.List) != 1 || c20rPrint(fd.Type.Results.List[0].Type) != "json.RawMessage" {
		return "", fmt.Errorf("redactedRawJSON: signature is not func(json.RawMessage) json.RawMessage")
	}
	var steps []c20rStep
	add := func(kind string, args ...string) { steps = append(steps, c20rStep{kind, args}) }
	for _, st := range fd.Body.List {
		switch x := st.(type) {
		case *ast.IfStmt:
			ret, single := c20rSingleReturn(x.Body)
			if !single || x.Else != nil {
				add("other", c20rPrint(x))
				continue
			}
			if x.Init != nil {
				// if err := dec.Decode(&v); err != nil { return raw }
				init := c20rPrint(x.Init)
				if as, ok := x.Init.(*ast.AssignStmt); ok && len(as.Rhs) == 1 {
					if ce, ok := as.Rhs[0].(*ast.CallExpr); ok && strings.HasSuffix(c20rPrint(ce.Fun), ".Decode") &&
						len(ce.Args) == 1 && c20rPrint(x.Cond) == "err != nil" {
						add("decode", c20rPrint(ce.Fun), c20rPrint(ce.Args[0]), ret)
						continue
					}
				}
				add("other", init+"; "+c20rPrint(x.Cond))
				continue
			}
			add("return-if", c20rCond(x.Cond, param, consts), ret)
		case *ast.AssignStmt:
			if len(x.Rhs) == 1 {
				if ce, ok := x.Rhs[0].(*ast.CallExpr); ok {
					var lhs, args []string
					for _, l := range x.Lhs {
						lhs = append(lhs, c20rPrint(l))
					}
					for _, a := range ce.Args {
						args = append(args, c20rPrint(a))
					}
					add("call", strings.Join(lhs, ","), c20rPrint(ce.Fun), strings.Join(args, ","))
					continue
				}
			}
			add("other", c20rPrint(x))
		case *ast.ExprStmt:
			if ce, ok := x.X.(*ast.CallExpr); ok && len(ce.Args) == 0 {
				add("call", "", c20rPrint(ce.Fun), "")
				continue
			}
			add("other", c20rPrint(x))
		case *ast.DeclStmt:
			add("var", c20rPrint(x))
		case *ast.ReturnStmt:
			if len(x.Results) == 1 {
				add("return", c20rPrint(x.Results[0]))
				continue
			}
			add("other", c20rPrint(x))
		default:
			add("other", c20rPrint(st))
		}
	}
	// every call of the two hole redactors in the package, every expression mentioning the key constant
	type site struct{ fn, callee, arg string }
	var sites []site
	var keyUses []string
	for _, d := range red.Decls {
		f, ok := d.(*ast.FuncDecl)
		if !ok || f.Body == nil {
			continue
		}
		var stack []ast.Node
		ast.Inspect(f.Body, func(n ast.Node) bool {
			if n == nil {
				stack = stack[:len(stack)-1]
				return true
			}
			stack = append(stack, n)
			if ce, ok := n.(*ast.CallExpr); ok {
				name := c20rPrint(ce.Fun)
				if (name == "redactedRawJSON" || name == "redactJSONValue") && len(ce.Args) == 1 && f.Name.Name != name {
					sites = append(sites, site{f.Name.Name, name, c20rPrint(ce.Args[0])})
				}
			}
			if id, ok := n.(*ast.Ident); ok && id.Name == "privateKeyJSONKey" {
				// the innermost enclosing call or comparison that is not a plain conversion
				for i := len(stack) - 2; i >= 0; i-- {
					switch p := stack[i].(type) {
					case *ast.CallExpr:
						if fn := c20rPrint(p.Fun); fn == "[]byte" || fn == "string" {
							continue
						}
						keyUses = append(keyUses, f.Name.Name+": "+c20rPrint(p))
						return true
					case *ast.BinaryExpr:
						keyUses = append(keyUses, f.Name.Name+": "+c20rPrint(p))
						return true
					}
				}
				keyUses = append(keyUses, f.Name.Name+": "+c20rPrint(id))
			}
			return true
		})
	}
	sort.Slice(sites, func(i, j int) bool {
		if sites[i].fn != sites[j].fn {
			return sites[i].fn < sites[j].fn
		}
		return sites[i].arg < sites[j].arg
	})
	sort.Strings(keyUses)

	var b strings.Builder
	b.WriteString(header("RawRedact", redSrc))
	q := func(s string) string { return strconv.Quote(s) }
	b.WriteString("/-- statements of `redactedRawJSON(" + param + ")` in order: (kind, arguments).\n" +
		"`return-if` [condition tag, returned expression]; `decode` [method, target, returned on error];\n" +
		"`call` [assigned names, function, arguments]; `var`; `return` [expression]; `other` = not recognised -/\n")
	b.WriteString("def steps : List (String × List String) := [\n")
	for i, s := range steps {
		var as []string
		for _, a := range s.args {
			as = append(as, q(a))
		}
		sep := ","
		if i == len(steps)-1 {
			sep = ""
		}
		fmt.Fprintf(&b, "  (%s, [%s])%s\n", q(s.kind), strings.Join(as, ", "), sep)
	}
	b.WriteString("]\n")
	b.WriteString("/-- name of the parameter holding the raw bytes -/\ndef param : String := " + q(param) + "\n")
	var ss []string
	for _, s := range sites {
		ss = append(ss, "("+q(s.fn)+", "+q(s.callee)+", "+q(s.arg)+")")
	}
	b.WriteString("/-- every call of a hole redactor in redact.go: (calling function, callee, argument) -/\n")
	b.WriteString("def callSites : List (String × String × String) := [" + strings.Join(ss, ", ") + "]\n")
	ss = nil
	for _, k := range keyUses {
		ss = append(ss, q(k))
	}
	b.WriteString("/-- every expression of redact.go that tests something against privateKeyJSONKey -/\n")
	b.WriteString("def keyUses : List String := [" + strings.Join(ss, ", ") + "]\n")
	// the callers of the hole redactors, statement by statement (a test of the raw bytes in front of the call,
	// a dropped copy of the slice, a `continue` … all change the text)
	b.WriteString("/-- top-level statements of the two functions that hand holes to the redactors -/\n")
	b.WriteString("def callerBodies : List (String × List String) := [\n")
	for i, fn := range []string{"redactedExtends", "redactedFilters"} {
		f := findFunc(red, "", fn)
		if f == nil {
			return "", fmt.Errorf("%s not found in %s", fn, redSrc)
		}
		var sts []string
		for _, st := range f.Body.List {
			sts = append(sts, q(c20rPrint(st)))
		}
		sep := ","
		if i == 1 {
			sep = ""
		}
		fmt.Fprintf(&b, "  (%s, [%s])%s\n", q(fn), strings.Join(sts, ",\n    "), sep)
	}
	b.WriteString("]\n")
	// redactJSONValue: every store into a container (index assignment, copy), by type-switch clause, with the
	// container written; and what those containers are (every assignment to their names)
	wf := findFunc(red, "", "redactJSONValue")
	if wf == nil {
		return "", fmt.Errorf("redactJSONValue not found in %s", redSrc)
	}
	type store struct{ clause, base, stmt string }
	var stores []store
	bases := map[string]bool{}
	var walkStmts func(list []ast.Stmt, clause string)
	var walkStmt func(st ast.Stmt, clause string)
	walkStmt = func(st ast.Stmt, clause string) {
		switch x := st.(type) {
		case *ast.AssignStmt:
			for _, l := range x.Lhs {
				if ix, ok := l.(*ast.IndexExpr); ok {
					base := c20rPrint(ix.X)
					stores = append(stores, store{clause, base, c20rPrint(x)})
					bases[base] = true
				}
			}
		case *ast.ExprStmt:
			if ce, ok := x.X.(*ast.CallExpr); ok && c20rPrint(ce.Fun) == "copy" && len(ce.Args) == 2 {
				base := c20rPrint(ce.Args[0])
				stores = append(stores, store{clause, base, c20rPrint(x)})
				bases[base] = true
			}
		case *ast.IfStmt:
			if x.Init != nil {
				walkStmt(x.Init, clause)
			}
			walkStmts(x.Body.List, clause)
			if x.Else != nil {
				walkStmt(x.Else, clause)
			}
		case *ast.BlockStmt:
			walkStmts(x.List, clause)
		case *ast.ForStmt:
			walkStmts(x.Body.List, clause)
		case *ast.RangeStmt:
			walkStmts(x.Body.List, clause)
		case *ast.TypeSwitchStmt:
			for _, cl := range x.Body.List {
				cc := cl.(*ast.CaseClause)
				name := "default"
				if len(cc.List) > 0 {
					var ns []string
					for _, e := range cc.List {
						ns = append(ns, c20rPrint(e))
					}
					name = strings.Join(ns, ",")
				}
				walkStmts(cc.Body, name)
			}
		case *ast.SwitchStmt:
			for _, cl := range x.Body.List {
				walkStmts(cl.(*ast.CaseClause).Body, clause)
			}
		}
	}
	walkStmts = func(list []ast.Stmt, clause string) {
		for _, st := range list {
			walkStmt(st, clause)
		}
	}
	walkStmts(wf.Body.List, "-")
	var defs []string
	ast.Inspect(wf.Body, func(n ast.Node) bool {
		if as, ok := n.(*ast.AssignStmt); ok && len(as.Lhs) == len(as.Rhs) {
			for i, l := range as.Lhs {
				if id, ok := l.(*ast.Ident); ok && bases[id.Name] {
					defs = append(defs, id.Name+" = "+c20rPrint(as.Rhs[i]))
				}
			}
		}
		return true
	})
	// names bound by the function itself that are NOT allocations: parameters and type-switch / range bindings
	ss = nil
	for _, st := range stores {
		ss = append(ss, "("+q(st.clause)+", "+q(st.base)+", "+q(st.stmt)+")")
	}
	b.WriteString("/-- redactJSONValue: every store into a container: (type-switch clause, container written, statement) -/\n")
	b.WriteString("def walkerStores : List (String × String × String) := [" + strings.Join(ss, ",\n  ") + "]\n")
	ss = nil
	for _, d := range defs {
		ss = append(ss, q(d))
	}
	b.WriteString("/-- redactJSONValue: every assignment to a name that is written as a container -/\n")
	b.WriteString("def walkerContainerDefs : List String := [" + strings.Join(ss, ", ") + "]\n")
	b.WriteString(footer("RawRedact"))
	return b.String(), nil
}
