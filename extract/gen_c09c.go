package main

// Gen/PoolMux.lean (C09, helpers prefixed c09c): the decisions of the xprotocol multiplex pool
// (pkg/stream/xprotocol/connpool_multiplex.go): state constants, number of slots, the ready test and the
// re-connect transitions of CheckAndInit, the admission test of NewStream, when OnDestroyStream closes a drained
// connection, what OnGoAway records, when a close event empties the slot.

import (
	"fmt"
	"go/ast"
	"go/token"
	"go/types"
	"strings"
)

func init() {
	register("PoolMux", genPoolMux)
}

func c09cStateNames() (map[string]string, error) {
	m := map[string]string{}
	for _, n := range []string{"Init", "Connecting", "Connected", "GoAway"} {
		if _, err := intConst("pkg/stream/xprotocol", n); err != nil {
			return nil, err
		}
		m[n] = "mux" + n
	}
	return m, nil
}

// c09cVarInit returns the initialiser literal of a package-level var.
func c09cVarInit(f *ast.File, name string) (string, error) {
	for _, d := range f.Decls {
		gd, ok := d.(*ast.GenDecl)
		if !ok || gd.Tok != token.VAR {
			continue
		}
		for _, sp := range gd.Specs {
			vs := sp.(*ast.ValueSpec)
			for i, n := range vs.Names {
				if n.Name == name && i < len(vs.Values) {
					if l, ok := vs.Values[i].(*ast.BasicLit); ok && l.Kind == token.INT {
						return l.Value, nil
					}
				}
			}
		}
	}
	return "", fmt.Errorf("var %s with an integer initialiser not found", name)
}

func genPoolMux() (string, error) {
	const src = "pkg/stream/xprotocol/connpool_multiplex.go"
	f, err := parse(src)
	if err != nil {
		return "", err
	}
	var sb strings.Builder
	sb.WriteString(header("PoolMux", src, "pkg/stream/xprotocol/connpool.go"))
	states, err := c09cStateNames()
	if err != nil {
		return "", err
	}
	for _, n := range []string{"Init", "Connecting", "Connected", "GoAway"} {
		v, _ := intConst("pkg/stream/xprotocol", n)
		fmt.Fprintf(&sb, "def mux%s : Nat := %d\n", n, v)
	}
	names := func(extra map[string]string) map[string]string {
		m := map[string]string{}
		for k, v := range states {
			m[k] = v
		}
		for k, v := range extra {
			m[k] = v
		}
		return m
	}

	// --- number of slots: NewPoolMultiplex + isValidMaxNum
	limit, err := c09cVarInit(f, "connNumberLimit")
	if err != nil {
		return "", err
	}
	defMax, err := c09cVarInit(f, "defaultMaxConn")
	if err != nil {
		return "", err
	}
	valid := findFunc(f, "", "isValidMaxNum")
	if valid == nil || len(valid.Body.List) != 1 {
		return "", fmt.Errorf("isValidMaxNum: unexpected shape")
	}
	ret, ok := valid.Body.List[0].(*ast.ReturnStmt)
	if !ok || len(ret.Results) != 1 {
		return "", fmt.Errorf("isValidMaxNum: unexpected shape")
	}
	vc, err := boolEnv(map[string]string{"maxConns": "maxConns", "connNumberLimit": limit}).expr(ret.Results[0])
	if err != nil {
		return "", fmt.Errorf("isValidMaxNum: %v", err)
	}
	np := findFunc(f, "", "NewPoolMultiplex")
	if np == nil {
		return "", fmt.Errorf("NewPoolMultiplex not found")
	}
	ovr := findIf(np.Body, "isValidMaxNum(maxConns)")
	if ovr == nil || types.ExprString(ovr.Cond) != "!isValidMaxNum(maxConns)" || len(ovr.Body.List) != 1 ||
		types.ExprString(ovr.Body.List[0].(*ast.AssignStmt).Rhs[0]) != "uint64(defaultMaxConn)" {
		return "", fmt.Errorf("NewPoolMultiplex: default override not recognised")
	}
	fmt.Fprintf(&sb, "/-- isValidMaxNum -/\ndef muxValidMax (maxConns : Int) : Bool :=\n  %s\n", vc)
	fmt.Fprintf(&sb, "/-- NewPoolMultiplex: number of slots (defaultMaxConn = %s unless configured otherwise) -/\ndef muxSlots (maxConns : Int) : Int :=\n  if muxValidMax maxConns then maxConns else %s\n", defMax, defMax)

	// --- CheckAndInit: ready test and re-connect transitions
	ci := findFunc(f, "poolMultiplex", "CheckAndInit")
	if ci == nil {
		return "", fmt.Errorf("CheckAndInit not found")
	}
	ready := findIf(ci.Body, "atomic.LoadUint32(&client.state)")
	if ready == nil || len(ready.Body.List) != 1 || types.ExprString(ready.Body.List[0].(*ast.ReturnStmt).Results[0]) != "true" {
		return "", fmt.Errorf("CheckAndInit: ready test not recognised")
	}
	rc, err := boolEnv(names(map[string]string{"atomic.LoadUint32(&client.state)": "state"})).expr(ready.Cond)
	if err != nil {
		return "", fmt.Errorf("CheckAndInit ready: %v", err)
	}
	fmt.Fprintf(&sb, "/-- CheckAndInit answers true (the slot's client can be used) -/\ndef muxReady (state : Nat) : Bool :=\n  %s\n", rc)
	cas := findIf(ci.Body, "atomic.CompareAndSwapUint32(&client.state")
	if cas == nil {
		return "", fmt.Errorf("CheckAndInit: re-connect test not found")
	}
	var froms []string
	target := ""
	var walk func(e ast.Expr) error
	walk = func(e ast.Expr) error {
		switch x := e.(type) {
		case *ast.ParenExpr:
			return walk(x.X)
		case *ast.BinaryExpr:
			if x.Op != token.LOR {
				return fmt.Errorf("re-connect test: operator %v", x.Op)
			}
			if err := walk(x.X); err != nil {
				return err
			}
			return walk(x.Y)
		case *ast.CallExpr:
			if types.ExprString(x.Fun) != "atomic.CompareAndSwapUint32" || len(x.Args) != 3 || types.ExprString(x.Args[0]) != "&client.state" {
				return fmt.Errorf("re-connect test: %s", types.ExprString(x))
			}
			from, ok1 := states[types.ExprString(x.Args[1])]
			to, ok2 := states[types.ExprString(x.Args[2])]
			if !ok1 || !ok2 || (target != "" && target != to) {
				return fmt.Errorf("re-connect test: states not recognised")
			}
			target = to
			froms = append(froms, from)
			return nil
		}
		return fmt.Errorf("re-connect test: %T", e)
	}
	if err := walk(cas.Cond); err != nil {
		return "", err
	}
	if len(cas.Body.List) != 1 || !strings.HasPrefix(types.ExprString(cas.Body.List[0].(*ast.ExprStmt).X), "p.init(") {
		return "", fmt.Errorf("CheckAndInit: the re-connect branch does not call p.init")
	}
	fmt.Fprintf(&sb, "/-- CheckAndInit starts a connect when it moves the client's state word from one of these states … -/\ndef muxReinitFrom : List Nat := [%s]\n/-- … to this one -/\ndef muxReinitTo : Nat := %s\n", strings.Join(froms, ", "), target)

	// --- init: shutdown guard before the dial; success stores Connected
	in := findFunc(f, "poolMultiplex", "init")
	if in == nil {
		return "", fmt.Errorf("init not found")
	}
	posGuard, posDial := token.NoPos, token.NoPos
	connectedStore := ""
	ast.Inspect(in.Body, func(n ast.Node) bool {
		switch x := n.(type) {
		case *ast.IfStmt:
			if types.ExprString(x.Cond) == "p.shutdown" && c09bIsOnlyReturn(x.Body) && posGuard == token.NoPos {
				posGuard = x.Pos()
			}
		case *ast.CallExpr:
			if types.ExprString(x.Fun) == "p.newActiveClient" && posDial == token.NoPos {
				posDial = x.Pos()
			}
		case *ast.AssignStmt:
			if len(x.Lhs) == 1 && types.ExprString(x.Lhs[0]) == "client.state" {
				connectedStore = states[types.ExprString(x.Rhs[0])]
			}
		}
		return true
	})
	if posDial == token.NoPos || connectedStore == "" {
		return "", fmt.Errorf("init: dial or state assignment not found")
	}
	fmt.Fprintf(&sb, "/-- init returns without dialling when the pool is shut down -/\ndef muxInitChecksShutdown : Bool := %v\n", posGuard != token.NoPos && posGuard < posDial)
	fmt.Fprintf(&sb, "/-- state of a freshly connected client -/\ndef muxFreshState : Nat := %s\n", connectedStore)

	// --- NewStream: usable client
	ns := findFunc(f, "poolMultiplex", "NewStream")
	if ns == nil {
		return "", fmt.Errorf("NewStream not found")
	}
	un := findIf(ns.Body, "atomic.LoadUint32(&activeClient.state)")
	if un == nil {
		return "", fmt.Errorf("NewStream: state test not found")
	}
	if r, ok := un.Body.List[len(un.Body.List)-1].(*ast.ReturnStmt); !ok || types.ExprString(r.Results[2]) != "types.ConnectionFailure" {
		return "", fmt.Errorf("NewStream: state test does not refuse with ConnectionFailure")
	}
	uc, err := boolEnv(names(map[string]string{"atomic.LoadUint32(&activeClient.state)": "state"})).expr(un.Cond)
	if err != nil {
		return "", fmt.Errorf("NewStream state test: %v", err)
	}
	fmt.Fprintf(&sb, "/-- NewStream refuses with ConnectionFailure because of the client's state -/\ndef muxUnusable (state : Nat) : Bool :=\n  %s\n", uc)
	// the breaker comes after the client tests
	posBr := token.NoPos
	ast.Inspect(ns.Body, func(n ast.Node) bool {
		if c, ok := n.(*ast.CallExpr); ok && strings.HasSuffix(types.ExprString(c.Fun), "Requests().CanCreate") && posBr == token.NoPos {
			posBr = c.Pos()
		}
		return true
	})
	if posBr == token.NoPos || posBr < un.Pos() {
		return "", fmt.Errorf("NewStream: requests breaker is not consulted after the client tests")
	}

	// --- OnDestroyStream: close the drained connection
	od := findFunc(f, "activeClientMultiplex", "OnDestroyStream")
	og := findFunc(f, "activeClientMultiplex", "OnGoAway")
	oe := findFunc(f, "poolMultiplex", "onConnectionEvent")
	if od == nil || og == nil || oe == nil {
		return "", fmt.Errorf("OnDestroyStream / OnGoAway / onConnectionEvent not found")
	}
	acNames := names(map[string]string{
		"atomic.LoadUint32(&ac.state)":       "state",
		"atomic.LoadUint32(&ac.goaway)":      "goaway",
		"ac.codecClient.ActiveRequestsNum()": "active",
		"?*ast.CallExpr.ActiveRequestsNum()": "active",
		"ac.codecClient.ActiveRequestsNum":   "active",
	})
	cl := findIf(od.Body, "ActiveRequestsNum()")
	if cl == nil || len(cl.Body.List) != 1 || types.ExprString(cl.Body.List[0].(*ast.ExprStmt).X) != "ac.codecClient.Close()" {
		return "", fmt.Errorf("OnDestroyStream: close test not recognised")
	}
	dc, err := boolEnv(acNames).expr(cl.Cond)
	if err != nil {
		return "", fmt.Errorf("OnDestroyStream close test: %v", err)
	}
	fmt.Fprintf(&sb, "/-- activeClientMultiplex.OnDestroyStream closes the connection (state / goaway words of the client, requests still in its table) -/\ndef muxCloseOnDestroy (state goaway : Nat) (active : Int) : Bool :=\n  %s\n", dc)
	// OnGoAway: the words it stores, then the same close test on the table
	setsFlag, stState := false, ""
	for _, s := range og.Body.List {
		es, ok := s.(*ast.ExprStmt)
		if !ok {
			continue
		}
		c, ok := es.X.(*ast.CallExpr)
		if !ok || types.ExprString(c.Fun) != "atomic.StoreUint32" || len(c.Args) != 2 {
			continue
		}
		v, okv := states[types.ExprString(c.Args[1])]
		switch types.ExprString(c.Args[0]) {
		case "&ac.goaway":
			if !okv || v != "muxGoAway" {
				return "", fmt.Errorf("OnGoAway: goaway word stored with %s", types.ExprString(c.Args[1]))
			}
			setsFlag = true
		case "&ac.state":
			if !okv {
				return "", fmt.Errorf("OnGoAway: state stored with %s", types.ExprString(c.Args[1]))
			}
			stState = v
		}
	}
	if stState == "" {
		return "", fmt.Errorf("OnGoAway: state store not found")
	}
	gcl := findIf(og.Body, "ActiveRequestsNum()")
	if gcl == nil || len(gcl.Body.List) != 1 || types.ExprString(gcl.Body.List[0].(*ast.ExprStmt).X) != "ac.codecClient.Close()" {
		return "", fmt.Errorf("OnGoAway: close test not recognised")
	}
	gc, err := boolEnv(acNames).expr(gcl.Cond)
	if err != nil {
		return "", fmt.Errorf("OnGoAway close test: %v", err)
	}
	fmt.Fprintf(&sb, "/-- OnGoAway stores GoAway into the client's separate goaway word -/\ndef muxGoAwaySetsFlag : Bool := %v\n/-- OnGoAway stores this into the state word -/\ndef muxGoAwayState : Nat := %s\n/-- OnGoAway closes the connection at once -/\ndef muxCloseOnGoAway (active : Int) : Bool :=\n  %s\n", setsFlag, stState, gc)

	// --- onConnectionEvent, close branch: when is the slot emptied
	closeIf := findIf(oe.Body, "event.IsClose()")
	if closeIf == nil {
		return "", fmt.Errorf("onConnectionEvent: close branch not found")
	}
	var del *ast.IfStmt
	for _, i := range ifs(closeIf.Body) {
		if strings.Contains(types.ExprString(i.Cond), "atomic.LoadUint32(&ac.state)") {
			del = i
		}
	}
	if del == nil {
		return "", fmt.Errorf("onConnectionEvent: delete test not found")
	}
	dcond, err := boolEnv(acNames).expr(del.Cond)
	if err != nil {
		return "", fmt.Errorf("onConnectionEvent delete test: %v", err)
	}
	// inside: either an unconditional Delete, or `if cur, ok := …Load(ac.subProtocol); ok && cur == ac { Delete }`
	identity := false
	deletes := 0
	for _, s := range del.Body.List {
		switch x := s.(type) {
		case *ast.ExprStmt:
			t := types.ExprString(x.X)
			if strings.HasSuffix(t, ".Delete(ac.subProtocol)") {
				deletes++
			} else if t != "p.clientMux.Lock()" && t != "p.clientMux.Unlock()" {
				return "", fmt.Errorf("onConnectionEvent: statement %s in the delete branch is not read", t)
			}
		case *ast.IfStmt:
			c := types.ExprString(x.Cond)
			if x.Init == nil || !strings.Contains(types.ExprString(x.Init.(*ast.AssignStmt).Rhs[0]), ".Load(ac.subProtocol)") || (c != "ok && cur == ac" && c != "ok && cur.(*activeClientMultiplex) == ac") {
				return "", fmt.Errorf("onConnectionEvent: inner test %s is not read", c)
			}
			if len(x.Body.List) != 1 || !strings.HasSuffix(types.ExprString(x.Body.List[0].(*ast.ExprStmt).X), ".Delete(ac.subProtocol)") {
				return "", fmt.Errorf("onConnectionEvent: inner branch is not a Delete")
			}
			identity = true
			deletes++
		default:
			return "", fmt.Errorf("onConnectionEvent: statement %T in the delete branch is not read", s)
		}
	}
	if deletes != 1 {
		return "", fmt.Errorf("onConnectionEvent: %d Delete calls in the delete branch", deletes)
	}
	inner := "true"
	if identity {
		inner = "isCurrent"
	}
	fmt.Fprintf(&sb, "/-- a close event of the client's connection empties its slot (isCurrent: the slot still holds this very client) -/\ndef muxDeleteOnClose (state : Nat) (isCurrent : Bool) : Bool :=\n  %s && %s\n", dcond, inner)
	sb.WriteString(footer("PoolMux"))
	return sb.String(), nil
}
