-- translation-unsupported C01DubboThrift: open -out/pkg/protocol/xprotocol/dubbothrift/decoder.go: no such file or directory
namespace MosnVerif.Gen.C01DubboThrift
end MosnVerif.Gen.C01DubboThrift
