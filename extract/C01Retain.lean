-- translation-unsupported C01Retain: open -out/pkg/protocol/xprotocol/bolt/encoder.go: no such file or directory
namespace MosnVerif.Gen.C01Retain
end MosnVerif.Gen.C01Retain
