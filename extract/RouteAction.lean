-- translation-unsupported RouteAction: open -out/pkg/proxy/downstream.go: no such file or directory
namespace MosnVerif.Gen.RouteAction
end MosnVerif.Gen.RouteAction
