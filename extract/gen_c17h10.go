package main

// C17, header mutations over the real protocol header maps: headerParser.evaluateHeaders (pkg/router/header_parser.go)
// regenerated STATEMENT BY STATEMENT as a state-passing Lean function over an abstract header map (get / set / add / del):
// which map operation is called with which name and value in which order, under which condition. The Lean model
// (Model/HeaderMaps.lean) instantiates the operations with the protocol maps (fasthttp request / response header,
// net/http.Header, bolt key-value list, CommonHeader). Every statement must be recognised; anything else stops the
// translation.

import (
	"fmt"
	"go/ast"
	"go/token"
	"strings"
)

func init() { register("HeaderEval", genC17h10HeaderEval) }

type c17h10Walker struct {
	env *Env
}

func c17h10Env(nameVar string) *Env {
	return &Env{
		Names: map[string]string{
			"value": "value", "v": "v", "ok": "ok",
			nameVar:                          "headerName",
			"toAdd.headerFormatter.append()": "isAppend",
			"len(v)":                         "(v.length : Int)",
			"len(value)":                     "(value.length : Int)",
		},
		Calls: map[string]string{},
	}
}

// c17h10Sprintf renders fmt.Sprintf(<format of %s verbs and literal text>, args...) as a Lean string concatenation.
func (w *c17h10Walker) sprintf(c *ast.CallExpr) (string, error) {
	if len(c.Args) < 1 {
		return "", fmt.Errorf("Sprintf without format")
	}
	bl, ok := c.Args[0].(*ast.BasicLit)
	if !ok || bl.Kind != token.STRING || !strings.HasPrefix(bl.Value, "\"") {
		return "", fmt.Errorf("Sprintf format is not a string literal")
	}
	format := strings.Trim(bl.Value, "\"")
	if strings.ContainsAny(format, "\\") {
		return "", fmt.Errorf("Sprintf format with escapes")
	}
	parts := strings.Split(format, "%s")
	if strings.Contains(strings.Join(parts, ""), "%") || len(parts)-1 != len(c.Args)-1 {
		return "", fmt.Errorf("unsupported Sprintf format %s", bl.Value)
	}
	var out []string
	for i, p := range parts {
		if p != "" {
			out = append(out, "\""+p+"\"")
		}
		if i < len(parts)-1 {
			a, err := w.env.expr(c.Args[i+1])
			if err != nil {
				return "", err
			}
			out = append(out, a)
		}
	}
	if len(out) == 0 {
		return "\"\"", nil
	}
	return "(" + strings.Join(out, " ++ ") + ")", nil
}

// strExpr: a string-valued expression: identifier, Sprintf, the formatter's value, concatenation
func (w *c17h10Walker) strExpr(e ast.Expr) (string, error) {
	switch x := e.(type) {
	case *ast.CallExpr:
		switch exprKey(x.Fun) {
		case "fmt.Sprintf":
			return w.sprintf(x)
		case "toAdd.headerFormatter.format":
			if len(x.Args) == 1 && exprKey(x.Args[0]) == "ctx" {
				return "formatted", nil
			}
		}
		return "", fmt.Errorf("unsupported string call %s", callKey(x))
	case *ast.BinaryExpr:
		if x.Op == token.ADD {
			l, err := w.strExpr(x.X)
			if err != nil {
				return "", err
			}
			r, err := w.strExpr(x.Y)
			if err != nil {
				return "", err
			}
			return "(" + l + " ++ " + r + ")", nil
		}
	}
	return w.env.expr(e)
}

// block renders the statements as lets over (value, s) and ends with the pair
func (w *c17h10Walker) block(stmts []ast.Stmt, ind string) (string, error) {
	var b strings.Builder
	for _, st := range stmts {
		switch x := st.(type) {
		case *ast.AssignStmt:
			if len(x.Lhs) != 1 || len(x.Rhs) != 1 || exprKey(x.Lhs[0]) != "value" || (x.Tok != token.DEFINE && x.Tok != token.ASSIGN) {
				return "", fmt.Errorf("unsupported assignment to %s", exprKey(x.Lhs[0]))
			}
			r, err := w.strExpr(x.Rhs[0])
			if err != nil {
				return "", err
			}
			b.WriteString(ind + "let value := " + r + "\n")
		case *ast.ExprStmt:
			c, ok := x.X.(*ast.CallExpr)
			if !ok {
				return "", fmt.Errorf("unsupported expression statement")
			}
			var args []string
			for _, a := range c.Args {
				s, err := w.strExpr(a)
				if err != nil {
					return "", err
				}
				args = append(args, s)
			}
			switch head := exprKey(c.Fun); {
			case head == "headers.Set" && len(args) == 2:
				b.WriteString(ind + "let s := o.set s " + args[0] + " " + args[1] + "\n")
			case head == "headers.Add" && len(args) == 2:
				b.WriteString(ind + "let s := o.add s " + args[0] + " " + args[1] + "\n")
			case head == "headers.Del" && len(args) == 1:
				b.WriteString(ind + "let s := o.del s " + args[0] + "\n")
			default:
				return "", fmt.Errorf("unsupported call statement %s", callKey(c))
			}
		case *ast.IfStmt:
			if c17r5LogOnly(x) {
				continue
			}
			s, err := w.ifStmt(x, ind)
			if err != nil {
				return "", err
			}
			b.WriteString(s)
		default:
			return "", fmt.Errorf("unsupported statement %T", st)
		}
	}
	b.WriteString(ind + "(value, s)\n")
	return b.String(), nil
}

func (w *c17h10Walker) ifStmt(x *ast.IfStmt, ind string) (string, error) {
	var b strings.Builder
	if x.Init != nil {
		as, ok := x.Init.(*ast.AssignStmt)
		if !ok || len(as.Lhs) != 2 || len(as.Rhs) != 1 || as.Tok != token.DEFINE || exprKey(as.Lhs[0]) != "v" || exprKey(as.Lhs[1]) != "ok" {
			return "", fmt.Errorf("unsupported if-initialiser")
		}
		c, ok := as.Rhs[0].(*ast.CallExpr)
		if !ok || exprKey(c.Fun) != "headers.Get" || len(c.Args) != 1 {
			return "", fmt.Errorf("unsupported read in if-initialiser")
		}
		k, err := w.strExpr(c.Args[0])
		if err != nil {
			return "", err
		}
		b.WriteString(ind + "let (v, ok) : String × Bool := match (o.get s " + k + ") with | some v => (v, true) | none => (\"\", false)\n")
	}
	b.WriteString(ind + "let (value, s) : String × σ :=\n")
	s, err := w.ifChain(x, ind+"  ")
	if err != nil {
		return "", err
	}
	b.WriteString(s)
	return b.String(), nil
}

func (w *c17h10Walker) ifChain(x *ast.IfStmt, ind string) (string, error) {
	c, err := w.env.expr(x.Cond)
	if err != nil {
		return "", err
	}
	th, err := w.block(x.Body.List, ind+"  ")
	if err != nil {
		return "", err
	}
	out := ind + "if " + c + " then\n" + th + ind + "else\n"
	switch e := x.Else.(type) {
	case nil:
		out += ind + "  (value, s)\n"
	case *ast.BlockStmt:
		el, err := w.block(e.List, ind+"  ")
		if err != nil {
			return "", err
		}
		out += el
	case *ast.IfStmt:
		if e.Init != nil {
			return "", fmt.Errorf("else-if with initialiser")
		}
		el, err := w.ifChain(e, ind+"  ")
		if err != nil {
			return "", err
		}
		out += el
	default:
		return "", fmt.Errorf("unsupported else")
	}
	return out, nil
}

func genC17h10HeaderEval() (string, error) {
	const src = "pkg/router/header_parser.go"
	f, err := parse(src)
	if err != nil {
		return "", err
	}
	fd := findFunc(f, "headerParser", "evaluateHeaders")
	if fd == nil {
		return "", fmt.Errorf("evaluateHeaders not found")
	}
	var steps, folds []string
	for i, st := range fd.Body.List {
		switch x := st.(type) {
		case *ast.IfStmt:
			// the nil-receiver guard (first statement): `if h == nil { return }`
			if i == 0 && x.Init == nil && x.Else == nil && exprKey(x.Cond) == "?*ast.BinaryExpr" {
				if be := x.Cond.(*ast.BinaryExpr); be.Op == token.EQL && exprKey(be.X) == "h" && exprKey(be.Y) == "nil" && len(x.Body.List) == 1 {
					if r, ok := x.Body.List[0].(*ast.ReturnStmt); ok && len(r.Results) == 0 {
						continue
					}
				}
			}
			return "", fmt.Errorf("evaluateHeaders: unsupported top-level if")
		case *ast.RangeStmt:
			if x.Key == nil || exprKey(x.Key) != "_" || x.Value == nil {
				return "", fmt.Errorf("evaluateHeaders: unsupported range form")
			}
			switch exprKey(x.X) {
			case "h.headersToAdd":
				if exprKey(x.Value) != "toAdd" {
					return "", fmt.Errorf("evaluateHeaders: additions loop variable renamed")
				}
				w := &c17h10Walker{env: c17h10Env("toAdd.headerName")}
				body, err := w.block(x.Body.List, "  ")
				if err != nil {
					return "", fmt.Errorf("additions loop: %v", err)
				}
				steps = append(steps, "/-- one iteration of the additions loop (`formatted` = toAdd.headerFormatter.format(ctx)), every statement -/\n"+
					"def addStep {σ : Type} (o : MapOps σ) (headerName formatted : String) (isAppend : Bool) (s : σ) : σ :=\n"+
					"  let value := \"\"\n  let r : String × σ :=\n"+indentC17h10(body, "  ")+"  r.2\n")
				folds = append(folds, "  let s := adds.foldl (fun s a => addStep o a.1 a.2.1 a.2.2 s) s\n")
			case "h.headersToRemove":
				if exprKey(x.Value) != "toRemove" {
					return "", fmt.Errorf("evaluateHeaders: removals loop variable renamed")
				}
				w := &c17h10Walker{env: c17h10Env("toRemove")}
				body, err := w.block(x.Body.List, "  ")
				if err != nil {
					return "", fmt.Errorf("removals loop: %v", err)
				}
				steps = append(steps, "/-- one iteration of the removals loop, every statement -/\n"+
					"def removeStep {σ : Type} (o : MapOps σ) (headerName : String) (s : σ) : σ :=\n"+
					"  let value := \"\"\n  let r : String × σ :=\n"+indentC17h10(body, "  ")+"  r.2\n")
				folds = append(folds, "  let s := removes.foldl (fun s r => removeStep o r s) s\n")
			default:
				return "", fmt.Errorf("evaluateHeaders: loop over %s", exprKey(x.X))
			}
		default:
			return "", fmt.Errorf("evaluateHeaders: unsupported top-level statement %T", st)
		}
	}
	if len(steps) != 2 || !strings.Contains(strings.Join(steps, ""), "def addStep") || !strings.Contains(strings.Join(steps, ""), "def removeStep") {
		return "", fmt.Errorf("evaluateHeaders: expected one additions loop and one removals loop")
	}
	s := header("HeaderEval", src+" (headerParser.evaluateHeaders)")
	s += "/-- the operations of types.HeaderMap that evaluateHeaders may call -/\n"
	s += "structure MapOps (σ : Type) where\n  get : σ → String → Option String\n  set : σ → String → String → σ\n  add : σ → String → String → σ\n  del : σ → String → σ\n"
	s += strings.Join(steps, "")
	s += "/-- `(*headerParser).evaluateHeaders` on a non-nil parser: the loops in source order; an addition = (lower-cased name, formatted value, append flag) -/\n"
	s += "def evaluateHeaders {σ : Type} (o : MapOps σ) (adds : List (String × String × Bool)) (removes : List String) (s : σ) : σ :=\n"
	s += strings.Join(folds, "") + "  s\n"
	s += footer("HeaderEval")
	return s, nil
}

func indentC17h10(s, ind string) string {
	lines := strings.Split(strings.TrimRight(s, "\n"), "\n")
	for i := range lines {
		lines[i] = ind + lines[i]
	}
	return strings.Join(lines, "\n") + "\n"
}
