-- translation-unsupported HandoverLock: open -out/pkg/network/connection.go: no such file or directory
namespace MosnVerif.Gen.HandoverLock
end MosnVerif.Gen.HandoverLock
