package main

// Gen/SubsetRequest.lean for C15 (request path): how a request's match criteria are assembled.
//
//   * pkg/proxy/downstream.go  downStream.MetadataMatchCriteria — the statements after the two input reads (varMeta from
//     the VarRouterMeta variable, routerMeta from the route entry) are translated, continuation style, into a Lean
//     function over abstract primitives: `copyRoute cond` (the loop that writes the route's pairs into the variable map
//     under a condition on "key already present"), `retRoute` (return the route's shared object), `retNew`
//     (router.NewMetadataMatchCriteriaImpl(varMeta): a new object), `retMerge` (routerMeta.MergeMatchCriteria(varMeta):
//     whatever that method does to its receiver), `retNil`.
//   * pkg/router/configutility.go  NewMetadataMatchCriteriaImpl and MetadataMatchCriteriaImpl.MergeMatchCriteria — which
//     object `merge` is called on, which object is its parent and which object is returned (0 = nil, 1 = the method's
//     receiver, 2 = an object allocated in the function): this is the fact "the merge result is a fresh object or the
//     receiver";  merge — its shape is checked statement by statement and its two decisions are translated; Less.
//   * pkg/router/base_rule.go  when a route (or a weighted cluster of it) owns a criteria object.
//
// Anything that does not have the expected shape is an error (=> translation-unsupported => broken tie).

import (
	"fmt"
	"go/ast"
	"go/token"
	"strings"
)

func init() { register("SubsetRequest", genSubsetRequest) }

const (
	c15down   = "pkg/proxy/downstream.go"
	c15rcfg   = "pkg/router/configutility.go"
	c15rbase  = "pkg/router/base_rule.go"
	c15cm     = "pkg/upstream/cluster/cluster_manager.go"
	c15mmType = "MetadataMatchCriteriaImpl"
)

// ---- downStream.MetadataMatchCriteria

type c15asm struct {
	env    c15env
	copied bool // the variable's map is copied into a local map before the route's pairs are written
}

func c15isCall(e ast.Expr, key string, nargs int) (*ast.CallExpr, bool) {
	c, ok := e.(*ast.CallExpr)
	if !ok || goKey(c.Fun) != key || len(c.Args) != nargs {
		return nil, false
	}
	return c, true
}

func (a *c15asm) ret(r *ast.ReturnStmt) (string, error) {
	if len(r.Results) != 1 {
		return "", fmt.Errorf("return with %d results", len(r.Results))
	}
	e := r.Results[0]
	switch {
	case isNilIdent(e):
		return "retNil s", nil
	case goKey(e) == "routerMeta":
		return "retRoute s", nil
	}
	if c, ok := c15isCall(e, "router.NewMetadataMatchCriteriaImpl", 1); ok && goKey(c.Args[0]) == "varMeta" {
		return "retNew s", nil
	}
	if c, ok := c15isCall(e, "routerMeta.MergeMatchCriteria", 1); ok && goKey(c.Args[0]) == "varMeta" {
		return "retMerge s", nil
	}
	return "", fmt.Errorf("unsupported return value %s", c15print(e))
}

// copyLoop recognises
//
//	for _, kv := range routerMeta.MetadataMatchCriteria() {
//	    if _, ok := varMeta[kv.MetadataKeyName()]; <cond(ok)> { varMeta[kv.MetadataKeyName()] = kv.MetadataValue() } }
func (a *c15asm) copyLoop(rs *ast.RangeStmt) (string, error) {
	bad := func(why string) (string, error) { return "", fmt.Errorf("range loop: %s", why) }
	if rs.Tok != token.DEFINE || rs.Key == nil || goKey(rs.Key) != "_" || rs.Value == nil {
		return bad("not `for _, v := range`")
	}
	v := goKey(rs.Value)
	if c, ok := c15isCall(rs.X, "routerMeta.MetadataMatchCriteria", 0); !ok || c == nil {
		return bad("does not range over routerMeta.MetadataMatchCriteria()")
	}
	if len(rs.Body.List) != 1 {
		return bad("body is not a single if")
	}
	is, ok := rs.Body.List[0].(*ast.IfStmt)
	if !ok || is.Else != nil || is.Init == nil || len(is.Body.List) != 1 {
		return bad("body is not `if _, ok := varMeta[k]; cond { … }`")
	}
	in, ok := is.Init.(*ast.AssignStmt)
	if !ok || in.Tok != token.DEFINE || len(in.Lhs) != 2 || len(in.Rhs) != 1 || goKey(in.Lhs[0]) != "_" {
		return bad("if-init is not `_, ok := varMeta[k]`")
	}
	okName := goKey(in.Lhs[1])
	keyExpr := "varMeta[" + v + ".MetadataKeyName()]"
	if goKey(in.Rhs[0]) != keyExpr {
		return bad("lookup is not " + keyExpr)
	}
	as, ok := is.Body.List[0].(*ast.AssignStmt)
	if !ok || as.Tok != token.ASSIGN || len(as.Lhs) != 1 || len(as.Rhs) != 1 ||
		goKey(as.Lhs[0]) != keyExpr || goKey(as.Rhs[0]) != v+".MetadataValue()" {
		return bad("guarded statement is not `" + keyExpr + " = " + v + ".MetadataValue()`")
	}
	env := c15env{names: map[string]string{okName: "ok"}, nonNil: map[string]string{}}
	c, err := env.expr(is.Cond)
	if err != nil {
		return "", err
	}
	return "copyRoute (fun ok => " + c + ")", nil
}

func (a *c15asm) stmts(l []ast.Stmt, ind string) (string, error) {
	if len(l) == 0 {
		return "", fmt.Errorf("control reaches the end of the function without return")
	}
	switch st := l[0].(type) {
	case *ast.ReturnStmt:
		r, err := a.ret(st)
		return ind + r, err
	case *ast.IfStmt:
		if st.Init != nil {
			return "", fmt.Errorf("if with init statement: %s", c15print(st.Cond))
		}
		c, err := a.env.expr(st.Cond)
		if err != nil {
			return "", err
		}
		thenL := append(append([]ast.Stmt{}, st.Body.List...), l[1:]...)
		if endsInReturn(st.Body.List) {
			thenL = st.Body.List
		}
		t, err := a.stmts(thenL, ind+"  ")
		if err != nil {
			return "", err
		}
		elseL := l[1:]
		switch e := st.Else.(type) {
		case nil:
		case *ast.BlockStmt:
			elseL = append(append([]ast.Stmt{}, e.List...), l[1:]...)
			if endsInReturn(e.List) {
				elseL = e.List
			}
		default:
			return "", fmt.Errorf("else-if chain")
		}
		e, err := a.stmts(elseL, ind+"  ")
		if err != nil {
			return "", err
		}
		return ind + "if " + c + " then\n" + t + "\n" + ind + "else\n" + e, nil
	case *ast.AssignStmt:
		// merged := make(map[string]string, …); for k, v := range varMeta { merged[k] = v }; varMeta = merged
		if n := c15qCopyGroup(l); n > 0 {
			a.copied = true
			return a.stmts(l[n:], ind)
		}
		return "", fmt.Errorf("unsupported assignment %s", c15print(st.Lhs[0]))
	case *ast.RangeStmt:
		c, err := a.copyLoop(st)
		if err != nil {
			return "", err
		}
		rest, err := a.stmts(l[1:], ind)
		if err != nil {
			return "", err
		}
		return ind + "let s := " + c + " s\n" + rest, nil
	}
	return "", fmt.Errorf("unsupported statement %T", l[0])
}

// containsReturn / assignsOnly: the two input reads must not return and may assign only the named variable.
func c15inputRead(st ast.Stmt, target string, mustMention string) error {
	is, ok := st.(*ast.IfStmt)
	if !ok {
		return fmt.Errorf("input read of %s is not an if statement", target)
	}
	mention, bad := false, ""
	ast.Inspect(is, func(n ast.Node) bool {
		switch x := n.(type) {
		case *ast.ReturnStmt:
			bad = "returns"
		case *ast.AssignStmt:
			if x.Tok == token.ASSIGN {
				for _, l := range x.Lhs {
					if goKey(l) != target {
						bad = "assigns " + goKey(l)
					}
				}
			}
		case *ast.SelectorExpr:
			if strings.Contains(goKey(x), mustMention) {
				mention = true
			}
		case *ast.RangeStmt, *ast.ForStmt:
			bad = "loops"
		}
		return true
	})
	if bad != "" {
		return fmt.Errorf("input read of %s %s", target, bad)
	}
	if !mention {
		return fmt.Errorf("input read of %s does not mention %s", target, mustMention)
	}
	return nil
}

func c15varDecl(st ast.Stmt, name string) bool {
	ds, ok := st.(*ast.DeclStmt)
	if !ok {
		return false
	}
	gd, ok := ds.Decl.(*ast.GenDecl)
	if !ok || gd.Tok != token.VAR || len(gd.Specs) != 1 {
		return false
	}
	vs := gd.Specs[0].(*ast.ValueSpec)
	return len(vs.Names) == 1 && vs.Names[0].Name == name && len(vs.Values) == 0
}

func genAssemble(f *ast.File) (string, error) {
	fd := findFunc(f, "downStream", "MetadataMatchCriteria")
	if fd == nil {
		return "", fmt.Errorf("downStream.MetadataMatchCriteria not found")
	}
	l := fd.Body.List
	if len(l) < 5 || !c15varDecl(l[0], "varMeta") || !c15varDecl(l[2], "routerMeta") {
		return "", fmt.Errorf("downStream.MetadataMatchCriteria: expected `var varMeta …; if …; var routerMeta …; if …; …`")
	}
	if err := c15inputRead(l[1], "varMeta", "types.VarRouterMeta"); err != nil {
		return "", err
	}
	if err := c15inputRead(l[3], "routerMeta", "RouteEntry().MetadataMatchCriteria"); err != nil {
		return "", err
	}
	a := &c15asm{env: c15env{names: map[string]string{}, nonNil: map[string]string{"varMeta": "varNonNil", "routerMeta": "routeNonNil"}}}
	body, err := a.stmts(l[4:], "  ")
	if err != nil {
		return "", fmt.Errorf("downStream.MetadataMatchCriteria: %v", err)
	}
	s := "set_option linter.unusedVariables false in\n/-- downStream.MetadataMatchCriteria after its two input reads (`varMeta` = the VarRouterMeta variable when it holds a\n" +
		"map, `routerMeta` = the route entry's criteria object for the chosen cluster), over abstract primitives: `copyRoute c` writes\n" +
		"each pair of the route's object into the variable map when `c (key already present)`; `retRoute` returns the route's shared\n" +
		"object; `retNew` = router.NewMetadataMatchCriteriaImpl(varMeta); `retMerge` = routerMeta.MergeMatchCriteria(varMeta). -/\n"
	s += "def assemble {σ ρ : Type} (copyRoute : (Bool → Bool) → σ → σ) (retRoute retNew retMerge retNil : σ → ρ)\n" +
		"    (varNonNil routeNonNil : Bool) (s : σ) : ρ :=\n" + body + "\n"
	s += "/-- the route's pairs are written into a COPY of the variable's map (`merged := make(…); for k, v := range varMeta {…}; varMeta = merged`\n" +
		"directly before the loop): the map a stream filter stored in the variable is never modified. -/\n"
	s += fmt.Sprintf("def varCopiedBeforeMerge : Bool := %v\n", a.copied)
	return s, nil
}

// ---- NewMetadataMatchCriteriaImpl / MergeMatchCriteria: which objects

// c15objFacts reads a body of the form  [x := &MetadataMatchCriteriaImpl{}]  <o>.merge(<p>, metadataMatches)  return <r>
// and returns the codes of o, p, r: 0 nil, 1 the method receiver, 2 the allocated object.
func c15objFacts(fd *ast.FuncDecl, recv string) (o, p, r int, err error) {
	fresh := ""
	code := func(e ast.Expr) (int, error) {
		switch {
		case isNilIdent(e):
			return 0, nil
		case recv != "" && goKey(e) == recv:
			return 1, nil
		case fresh != "" && goKey(e) == fresh:
			return 2, nil
		}
		return 0, fmt.Errorf("%s: unknown object %s", fd.Name.Name, c15print(e))
	}
	if len(fd.Type.Params.List) != 1 || len(fd.Type.Params.List[0].Names) != 1 {
		return 0, 0, 0, fmt.Errorf("%s: expected one parameter", fd.Name.Name)
	}
	param := fd.Type.Params.List[0].Names[0].Name
	merged, returned := false, false
	for _, st := range fd.Body.List {
		if returned {
			return 0, 0, 0, fmt.Errorf("%s: statement after return", fd.Name.Name)
		}
		switch x := st.(type) {
		case *ast.AssignStmt:
			// x := &MetadataMatchCriteriaImpl{}
			if x.Tok != token.DEFINE || len(x.Lhs) != 1 || len(x.Rhs) != 1 || fresh != "" || merged {
				return 0, 0, 0, fmt.Errorf("%s: unsupported assignment", fd.Name.Name)
			}
			u, ok := x.Rhs[0].(*ast.UnaryExpr)
			if !ok || u.Op != token.AND {
				return 0, 0, 0, fmt.Errorf("%s: unsupported assignment", fd.Name.Name)
			}
			cl, ok := u.X.(*ast.CompositeLit)
			if !ok || goKey(cl.Type) != c15mmType || len(cl.Elts) != 0 {
				return 0, 0, 0, fmt.Errorf("%s: allocation is not &%s{}", fd.Name.Name, c15mmType)
			}
			fresh = goKey(x.Lhs[0])
		case *ast.ExprStmt:
			c, ok := x.X.(*ast.CallExpr)
			if !ok || merged || len(c.Args) != 2 || goKey(c.Args[1]) != param {
				return 0, 0, 0, fmt.Errorf("%s: unsupported statement %s", fd.Name.Name, c15print(x.X))
			}
			sel, ok := c.Fun.(*ast.SelectorExpr)
			if !ok || sel.Sel.Name != "merge" {
				return 0, 0, 0, fmt.Errorf("%s: call is not <object>.merge(…)", fd.Name.Name)
			}
			if o, err = code(sel.X); err != nil {
				return
			}
			if o == 0 {
				return 0, 0, 0, fmt.Errorf("%s: merge on nil", fd.Name.Name)
			}
			if p, err = code(c.Args[0]); err != nil {
				return
			}
			merged = true
		case *ast.ReturnStmt:
			if !merged || len(x.Results) != 1 {
				return 0, 0, 0, fmt.Errorf("%s: return before merge", fd.Name.Name)
			}
			if r, err = code(x.Results[0]); err != nil {
				return
			}
			returned = true
		default:
			return 0, 0, 0, fmt.Errorf("%s: unsupported statement %T", fd.Name.Name, st)
		}
	}
	if !returned {
		return 0, 0, 0, fmt.Errorf("%s: no return", fd.Name.Name)
	}
	return
}

// ---- merge: shape check + decisions

func genMerge(f *ast.File) (string, error) {
	fd := findFunc(f, c15mmType, "merge")
	if fd == nil {
		return "", fmt.Errorf("merge not found")
	}
	bad := func(why string) (string, error) { return "", fmt.Errorf("merge: %s", why) }
	recv := fd.Recv.List[0].Names[0].Name
	ps := fd.Type.Params.List
	if len(ps) != 2 || len(ps[0].Names) != 1 || len(ps[1].Names) != 1 {
		return bad("expected (parent, metadataMatches)")
	}
	parent, mm := ps[0].Names[0].Name, ps[1].Names[0].Name
	l := fd.Body.List
	if len(l) != 6 {
		return bad(fmt.Sprintf("expected 6 statements, found %d", len(l)))
	}
	// 0: var arr []…   (a new, empty array: the parent's array is never written)
	ds, ok := l[0].(*ast.DeclStmt)
	if !ok {
		return bad("statement 1 is not a var declaration")
	}
	vs := ds.Decl.(*ast.GenDecl).Specs[0].(*ast.ValueSpec)
	if len(vs.Names) != 1 || len(vs.Values) != 0 {
		return bad("statement 1 is not `var arr []…` without a value")
	}
	arr := vs.Names[0].Name
	// 1: var existing = make(map…)
	ds, ok = l[1].(*ast.DeclStmt)
	if !ok {
		return bad("statement 2 is not a var declaration")
	}
	vs = ds.Decl.(*ast.GenDecl).Specs[0].(*ast.ValueSpec)
	if len(vs.Names) != 1 || len(vs.Values) != 1 {
		return bad("statement 2 is not `var m = make(map…)`")
	}
	if c, ok := vs.Values[0].(*ast.CallExpr); !ok || goKey(c.Fun) != "make" {
		return bad("statement 2 is not `var m = make(map…)`")
	}
	ex := vs.Names[0].Name
	// 2: if parent != nil { for _, v := range parent.MetadataMatchCriteria() { ex[v.MetadataKeyName()] = uint32(len(arr)); arr = append(arr, v) } }
	is, ok := l[2].(*ast.IfStmt)
	if !ok || is.Init != nil || is.Else != nil || len(is.Body.List) != 1 {
		return bad("statement 3 is not `if parent != nil { for … }`")
	}
	env := c15env{names: map[string]string{}, nonNil: map[string]string{parent: "parentNonNil"}}
	takes, err := env.expr(is.Cond)
	if err != nil {
		return "", err
	}
	rs, ok := is.Body.List[0].(*ast.RangeStmt)
	if !ok || rs.Value == nil || goKey(rs.Key) != "_" || goKey(rs.X) != parent+".MetadataMatchCriteria()" || len(rs.Body.List) != 2 {
		return bad("parent loop has an unexpected shape")
	}
	v := goKey(rs.Value)
	a0, ok0 := rs.Body.List[0].(*ast.AssignStmt)
	a1, ok1 := rs.Body.List[1].(*ast.AssignStmt)
	if !ok0 || !ok1 || len(a0.Lhs) != 1 || len(a1.Lhs) != 1 ||
		goKey(a0.Lhs[0]) != ex+"["+v+".MetadataKeyName()]" || c15print(a0.Rhs[0]) != "uint32(len("+arr+"))" ||
		goKey(a1.Lhs[0]) != arr || c15print(a1.Rhs[0]) != "append("+arr+", "+v+")" {
		return bad("parent loop body is not `existing[key] = len(arr); arr = append(arr, v)`")
	}
	// 3: for k, v := range mm { c := &MetadataMatchCriterionImpl{Name: k, Value: v}; if index, ok := ex[k]; ok { arr[index] = c } else { arr = append(arr, c) } }
	rs, ok = l[3].(*ast.RangeStmt)
	if !ok || rs.Key == nil || rs.Value == nil || goKey(rs.X) != mm || len(rs.Body.List) != 2 {
		return bad("statement 4 is not the loop over the map")
	}
	k, val := goKey(rs.Key), goKey(rs.Value)
	def, ok := rs.Body.List[0].(*ast.AssignStmt)
	if !ok || def.Tok != token.DEFINE || len(def.Lhs) != 1 {
		return bad("map loop: first statement is not `c := &MetadataMatchCriterionImpl{…}`")
	}
	cn := goKey(def.Lhs[0])
	if u, ok := def.Rhs[0].(*ast.UnaryExpr); !ok || u.Op != token.AND {
		return bad("map loop: first statement is not `c := &MetadataMatchCriterionImpl{…}`")
	} else if cl, ok := u.X.(*ast.CompositeLit); !ok || goKey(cl.Type) != "MetadataMatchCriterionImpl" || len(cl.Elts) != 2 {
		return bad("map loop: criterion literal has an unexpected shape")
	} else {
		got := map[string]string{}
		for _, e := range cl.Elts {
			kv, ok := e.(*ast.KeyValueExpr)
			if !ok {
				return bad("map loop: criterion literal without field names")
			}
			got[goKey(kv.Key)] = goKey(kv.Value)
		}
		if got["Name"] != k || got["Value"] != val {
			return bad("map loop: criterion literal is not {Name: key, Value: value}")
		}
	}
	is, ok = rs.Body.List[1].(*ast.IfStmt)
	if !ok || is.Init == nil || is.Else == nil || len(is.Body.List) != 1 {
		return bad("map loop: second statement is not `if index, ok := existing[k]; … { … } else { … }`")
	}
	in, ok := is.Init.(*ast.AssignStmt)
	if !ok || in.Tok != token.DEFINE || len(in.Lhs) != 2 || goKey(in.Rhs[0]) != ex+"["+k+"]" {
		return bad("map loop: lookup is not `index, ok := existing[k]`")
	}
	idx, okName := goKey(in.Lhs[0]), goKey(in.Lhs[1])
	env = c15env{names: map[string]string{okName: "ok"}, nonNil: map[string]string{}}
	upd, err := env.expr(is.Cond)
	if err != nil {
		return "", err
	}
	th, okT := is.Body.List[0].(*ast.AssignStmt)
	eb, okB := is.Else.(*ast.BlockStmt)
	if !okT || !okB || len(eb.List) != 1 || goKey(th.Lhs[0]) != arr+"["+idx+"]" || goKey(th.Rhs[0]) != cn {
		return bad("map loop: then-branch is not `arr[index] = c`")
	}
	el, ok := eb.List[0].(*ast.AssignStmt)
	if !ok || goKey(el.Lhs[0]) != arr || c15print(el.Rhs[0]) != "append("+arr+", "+cn+")" {
		return bad("map loop: else-branch is not `arr = append(arr, c)`")
	}
	// 4: recv.MatchCriteriaArray = arr      5: sort.Sort(recv)
	st, ok := l[4].(*ast.AssignStmt)
	if !ok || st.Tok != token.ASSIGN || goKey(st.Lhs[0]) != recv+".MatchCriteriaArray" || goKey(st.Rhs[0]) != arr {
		return bad("statement 5 is not `receiver.MatchCriteriaArray = arr`")
	}
	es, ok := l[5].(*ast.ExprStmt)
	if !ok || c15print(es.X) != "sort.Sort("+recv+")" {
		return bad("statement 6 is not `sort.Sort(receiver)`")
	}
	s := "/-- merge(parent, m), shape checked: a new array receives the parent's pairs iff `mergeTakesParent`, then for every pair of the map\n" +
		"the parent's pair with that key is replaced iff `mergeUpdates (key is one of the parent's)`, otherwise the pair is appended; the array is\n" +
		"stored into the RECEIVER and sorted with `Less`. — Go: `" + c15print(l[2].(*ast.IfStmt).Cond) + "`, `" + c15print(is.Cond) + "` -/\n"
	s += "def mergeTakesParent (parentNonNil : Bool) : Bool :=\n  " + takes + "\n"
	s += "def mergeUpdates (ok : Bool) : Bool :=\n  " + upd + "\n"
	return s, nil
}

func genLess(f *ast.File) (string, error) {
	fd := findFunc(f, c15mmType, "Less")
	if fd == nil || len(fd.Body.List) != 1 {
		return "", fmt.Errorf("Less: not a single return")
	}
	recv := fd.Recv.List[0].Names[0].Name
	r, ok := fd.Body.List[0].(*ast.ReturnStmt)
	if !ok || len(r.Results) != 1 {
		return "", fmt.Errorf("Less: not a single return")
	}
	b, ok := r.Results[0].(*ast.BinaryExpr)
	if !ok {
		return "", fmt.Errorf("Less: not a comparison")
	}
	ps := fd.Type.Params.List
	var names []string
	for _, p := range ps {
		for _, n := range p.Names {
			names = append(names, n.Name)
		}
	}
	if len(names) != 2 {
		return "", fmt.Errorf("Less: expected (i, j)")
	}
	side := func(e ast.Expr) (string, error) {
		for i, n := range names {
			if goKey(e) == recv+".MatchCriteriaArray["+n+"].MetadataKeyName()" {
				return []string{"ki", "kj"}[i], nil
			}
		}
		return "", fmt.Errorf("Less: operand %s is not the key name of element i or j", c15print(e))
	}
	x, err := side(b.X)
	if err != nil {
		return "", err
	}
	y, err := side(b.Y)
	if err != nil {
		return "", err
	}
	op, ok := map[token.Token]string{token.LSS: "<", token.LEQ: "≤", token.GTR: ">", token.GEQ: "≥"}[b.Op]
	if !ok {
		return "", fmt.Errorf("Less: operator %v", b.Op)
	}
	return "/-- MetadataMatchCriteriaImpl.Less over the key names of elements i and j — Go: `" + goKey(b.X) + " " + b.Op.String() + " " + goKey(b.Y) + "` -/\n" +
		"def critLess (ki kj : String) : Bool :=\n  decide (" + x + " " + op + " " + y + ")\n", nil
}

func genSubsetRequest() (string, error) {
	fdown, err := parse(c15down)
	if err != nil {
		return "", err
	}
	fcfg, err := parse(c15rcfg)
	if err != nil {
		return "", err
	}
	fbase, err := parse(c15rbase)
	if err != nil {
		return "", err
	}
	fcm, err := parse(c15cm)
	if err != nil {
		return "", err
	}
	byFile := map[string]*ast.File{c15rbase: fbase, c15cm: fcm}
	s := header("SubsetRequest", c15down, c15rcfg, c15rbase, c15cm)
	asm, err := genAssemble(fdown)
	if err != nil {
		return "", err
	}
	s += asm

	// object facts
	fd := findFunc(fcfg, "", "NewMetadataMatchCriteriaImpl")
	if fd == nil {
		return "", fmt.Errorf("NewMetadataMatchCriteriaImpl not found")
	}
	o, p, r, err := c15objFacts(fd, "")
	if err != nil {
		return "", err
	}
	s += "/-- objects: 0 = nil, 1 = the method's receiver, 2 = the object allocated in the function (`&MetadataMatchCriteriaImpl{}`).\n" +
		"NewMetadataMatchCriteriaImpl(m): `merge` is called on `newImplRecv` with parent `newImplParent`; `newImplRet` is returned. -/\n"
	s += fmt.Sprintf("def newImplRecv : Int := %d\ndef newImplParent : Int := %d\ndef newImplRet : Int := %d\n", o, p, r)
	fd = findFunc(fcfg, c15mmType, "MergeMatchCriteria")
	if fd == nil {
		return "", fmt.Errorf("MergeMatchCriteria not found")
	}
	o, p, r, err = c15objFacts(fd, fd.Recv.List[0].Names[0].Name)
	if err != nil {
		return "", err
	}
	s += "/-- MetadataMatchCriteriaImpl.MergeMatchCriteria(m): `merge` is called on `mergeMatchRecv` with parent `mergeMatchParent`;\n" +
		"`mergeMatchRet` is returned (1/1/1 = the merge is done in place, into the receiver, and the receiver is returned). -/\n"
	s += fmt.Sprintf("def mergeMatchRecv : Int := %d\ndef mergeMatchParent : Int := %d\ndef mergeMatchRet : Int := %d\n", o, p, r)

	m, err := genMerge(fcfg)
	if err != nil {
		return "", err
	}
	s += m
	ls, err := genLess(fcfg)
	if err != nil {
		return "", err
	}
	s += ls

	// base_rule.go: which object a route owns
	for _, d := range []c15def{
		{c15rbase, "", "NewRouteRuleImplBase", "len(route.Route.MetadataMatch)", "routeOwnsCriteria", "(n : Int)", "Bool",
			c15env{names: map[string]string{"len(route.Route.MetadataMatch)": "n"}},
			"NewRouteRuleImplBase: the route gets its own criteria object iff its metadata_match map satisfies this (a weighted cluster always gets one)"},
		{c15rbase, "RouteRuleImplBase", "MetadataMatchCriteria", "len(rri.weightedClusters)", "weightedConsulted", "(n : Int)", "Bool",
			c15env{names: map[string]string{"len(rri.weightedClusters)": "n"}},
			"RouteRuleImplBase.MetadataMatchCriteria(cluster): the weighted clusters are looked up (and win when the name is found) iff this holds"},
		{c15cm, "clusterManager", "getActiveConnectionPool", "try ==", "noHostWhen", "(n : Int)", "Bool",
			c15env{names: map[string]string{"try": "n"}},
			"clusterManager.getActiveConnectionPool: with `try := snapshot.HostNum(criteria)`, no host is chosen at all iff this holds; otherwise the first ChooseHost result is used (the fixture's pools are always ready)"},
	} {
		fd := findFunc(byFile[d.file], d.recv, d.fn)
		if fd == nil {
			return "", fmt.Errorf("%s not found", d.fn)
		}
		is := c15findIf(fd.Body, d.needle)
		if is == nil || is.Init != nil {
			return "", fmt.Errorf("%s: no plain `if` mentioning %q", d.fn, d.needle)
		}
		lean, err := d.env.expr(is.Cond)
		if err != nil {
			return "", fmt.Errorf("%s: %v", d.name, err)
		}
		s += "/-- " + d.doc + " — Go: `" + c15print(is.Cond) + "` -/\n"
		s += "def " + d.name + " " + d.params + " : " + d.ret + " :=\n  " + lean + "\n"
	}
	s += footer("SubsetRequest")
	return s, nil
}

// c15qCopyGroup recognises, at the head of l,
//
//	m := make(map[string]string[, n]); for k, v := range varMeta { m[k] = v }; varMeta = m
//
// directly followed by the loop that writes the route's pairs; returns the number of statements (3) or 0.
func c15qCopyGroup(l []ast.Stmt) int {
	if len(l) < 4 {
		return 0
	}
	as, ok := l[0].(*ast.AssignStmt)
	if !ok || as.Tok != token.DEFINE || len(as.Lhs) != 1 || len(as.Rhs) != 1 {
		return 0
	}
	m := goKey(as.Lhs[0])
	mk, ok := as.Rhs[0].(*ast.CallExpr)
	if !ok || goKey(mk.Fun) != "make" || len(mk.Args) < 1 || len(mk.Args) > 2 {
		return 0
	}
	if mt, ok := mk.Args[0].(*ast.MapType); !ok || goKey(mt.Key) != "string" || goKey(mt.Value) != "string" {
		return 0
	}
	rs, ok := l[1].(*ast.RangeStmt)
	if !ok || rs.Tok != token.DEFINE || rs.Key == nil || rs.Value == nil || goKey(rs.X) != "varMeta" || len(rs.Body.List) != 1 {
		return 0
	}
	k, v := goKey(rs.Key), goKey(rs.Value)
	st, ok := rs.Body.List[0].(*ast.AssignStmt)
	if !ok || st.Tok != token.ASSIGN || len(st.Lhs) != 1 || len(st.Rhs) != 1 || goKey(st.Rhs[0]) != v {
		return 0
	}
	ix, ok := st.Lhs[0].(*ast.IndexExpr)
	if !ok || goKey(ix.X) != m || goKey(ix.Index) != k {
		return 0
	}
	fin, ok := l[2].(*ast.AssignStmt)
	if !ok || fin.Tok != token.ASSIGN || len(fin.Lhs) != 1 || len(fin.Rhs) != 1 || goKey(fin.Lhs[0]) != "varMeta" || goKey(fin.Rhs[0]) != m {
		return 0
	}
	if _, ok := l[3].(*ast.RangeStmt); !ok {
		return 0
	}
	return 3
}
