package main

// C13 (c13r9, sds-backed contexts under configuration updates): regenerates Gen/TlsSds.lean from
// pkg/mtls/secret_manager.go and pkg/mtls/provider.go:
//   - sdsProvider.updateConfig: is the new configuration stored (first, unconditionally), and is the context rebuilt:
//     `p.update()` as an unconditional statement after the store  -> updateConfigRebuilds g = true
//     `p.update()` only inside an `if` / other guard             -> updateConfigRebuilds g = g   (g = value of the guard,
//                                                                   an oracle the theorems quantify over)
//     no `p.update()`                                             -> false
//   - sdsProvider.setCertificate / setValidation: store the secret, then p.update() unconditionally  -> secretPushRebuilds
//   - sdsProvider.update: returns unless p.info.Full(); builds newTLSContext(<p.config.Load()>, p.info); stores it
//   - pemProvider.addOrUpdateSdsProvider: p.updateConfig(cfg) runs for a new and for an existing provider
//   - NewProvider: an sds configuration goes to addOrUpdateProvider(index, cfg)
// Every other shape is an error => translation-unsupported => broken tie. Helper names carry the prefix c13s.

import (
	"fmt"
	"go/ast"
	"go/token"
)

func init() { register("TlsSds", genC13sSds) }

// c13sTopCall reports whether statement st is the bare call `key(args…)`.
func c13sTopCall(st ast.Stmt, key string) (*ast.CallExpr, bool) {
	es, ok := st.(*ast.ExprStmt)
	if !ok {
		return nil, false
	}
	c, ok := es.X.(*ast.CallExpr)
	if !ok || exprKey(c.Fun) != key {
		return nil, false
	}
	return c, true
}

// c13sCountCalls counts calls of key anywhere under n.
func c13sCountCalls(n ast.Node, key string) int {
	k := 0
	ast.Inspect(n, func(x ast.Node) bool {
		if c, ok := x.(*ast.CallExpr); ok && exprKey(c.Fun) == key {
			k++
		}
		return true
	})
	return k
}

// c13sHasEarlyExit: a return / panic / goto somewhere in the statements (other than a final bare return).
func c13sHasEarlyExit(l []ast.Stmt) bool {
	found := false
	for _, st := range l {
		ast.Inspect(st, func(x ast.Node) bool {
			switch x.(type) {
			case *ast.ReturnStmt, *ast.BranchStmt:
				found = true
			case *ast.FuncLit:
				return false
			}
			return true
		})
	}
	return found
}

func genC13sSds() (string, error) {
	const (
		smSrc = "pkg/mtls/secret_manager.go"
		pvSrc = "pkg/mtls/provider.go"
	)
	s := header("TlsSds", smSrc, pvSrc)
	f, err := parse(smSrc)
	if err != nil {
		return "", err
	}

	// ---- sdsProvider.updateConfig
	uc := findFunc(f, "sdsProvider", "updateConfig")
	if uc == nil || len(uc.Type.Params.List) != 1 || len(uc.Type.Params.List[0].Names) != 1 {
		return "", fmt.Errorf("sdsProvider.updateConfig not found / unexpected parameters")
	}
	cfgName := uc.Type.Params.List[0].Names[0].Name
	storeAt, updAt := -1, -1
	for i, st := range uc.Body.List {
		if c, ok := c13sTopCall(st, "p.config.Store"); ok {
			if len(c.Args) != 1 || exprKey(c.Args[0]) != cfgName || storeAt >= 0 {
				return "", fmt.Errorf("updateConfig: p.config.Store is not given the new configuration exactly once")
			}
			storeAt = i
		}
		if _, ok := c13sTopCall(st, "p.update"); ok && updAt < 0 {
			updAt = i
		}
	}
	if storeAt < 0 || c13sCountCalls(uc.Body, "p.config.Store") != 1 {
		return "", fmt.Errorf("updateConfig: the new configuration is not stored by one unconditional p.config.Store(%s)", cfgName)
	}
	if c13sHasEarlyExit(uc.Body.List[:storeAt+1]) {
		return "", fmt.Errorf("updateConfig: an exit before the configuration is stored")
	}
	nUpd := c13sCountCalls(uc.Body, "p.update")
	rebuild, how := "", ""
	switch {
	case nUpd == 0:
		rebuild, how = "false", "no p.update() call"
	case updAt > storeAt && !c13sHasEarlyExit(uc.Body.List[:updAt]):
		rebuild, how = "true", "p.update() is an unconditional statement after the store"
	case updAt >= 0 && updAt < storeAt && nUpd == 1:
		return "", fmt.Errorf("updateConfig: p.update() runs before the new configuration is stored")
	default:
		rebuild, how = "g", "p.update() is reached only under a condition (g = that condition holds)"
	}
	s += "/-- `sdsProvider.updateConfig`: the new configuration is stored unconditionally before anything else that matters -/\n"
	s += "def updateConfigStores : Bool := true\n"
	s += "/-- `sdsProvider.updateConfig`: whether the TLS context is rebuilt (p.update()) after the store: " + how + " -/\n"
	s += "def updateConfigRebuilds (g : Bool) : Bool := " + rebuild + "\n"

	// ---- setCertificate / setValidation: the secret is stored, then p.update() unconditionally
	for _, nm := range []string{"setCertificate", "setValidation"} {
		fd := findFunc(f, "sdsProvider", nm)
		if fd == nil || len(fd.Body.List) < 2 {
			return "", fmt.Errorf("sdsProvider.%s not found / unexpected shape", nm)
		}
		l := fd.Body.List
		if _, ok := c13sTopCall(l[len(l)-1], "p.update"); !ok || c13sHasEarlyExit(l) {
			return "", fmt.Errorf("sdsProvider.%s does not end in an unconditional p.update()", nm)
		}
		for _, st := range l[:len(l)-1] {
			as, ok := st.(*ast.AssignStmt)
			if !ok || as.Tok != token.ASSIGN || len(as.Lhs) != 1 || len(as.Rhs) != 1 {
				return "", fmt.Errorf("sdsProvider.%s: unexpected statement", nm)
			}
			lk := exprKey(as.Lhs[0])
			if lk != "p.info.Certificate" && lk != "p.info.PrivateKey" && lk != "p.info.Validation" {
				return "", fmt.Errorf("sdsProvider.%s writes %s", nm, lk)
			}
			if _, ok := as.Rhs[0].(*ast.Ident); !ok {
				return "", fmt.Errorf("sdsProvider.%s: %s is not assigned a parameter", nm, lk)
			}
		}
	}
	s += "/-- `sdsProvider.setCertificate` / `setValidation`: the secret is stored in p.info and p.update() follows unconditionally -/\n"
	s += "def secretPushRebuilds : Bool := true\n"

	// ---- sdsProvider.update
	up := findFunc(f, "sdsProvider", "update")
	if up == nil || len(up.Body.List) < 3 {
		return "", fmt.Errorf("sdsProvider.update not found")
	}
	g0, ok := up.Body.List[0].(*ast.IfStmt)
	if !ok || g0.Init != nil || g0.Else != nil || exprKey(g0.Cond) != "!p.info.Full()" || len(g0.Body.List) != 1 {
		return "", fmt.Errorf("sdsProvider.update does not start with `if !p.info.Full() { return }`")
	}
	if r, ok := g0.Body.List[0].(*ast.ReturnStmt); !ok || len(r.Results) != 0 {
		return "", fmt.Errorf("sdsProvider.update: the Full() guard does not return")
	}
	loadVar, cfgVar, ctxVar := "", "", ""
	built, storedCtx := false, false
	guards := 0
	for _, st := range up.Body.List[1:] {
		switch x := st.(type) {
		case *ast.AssignStmt:
			if len(x.Rhs) != 1 || x.Tok != token.DEFINE {
				return "", fmt.Errorf("sdsProvider.update: unexpected assignment")
			}
			rk := exprKey(x.Rhs[0])
			switch {
			case rk == "p.config.Load()" && len(x.Lhs) == 1:
				loadVar = exprKey(x.Lhs[0])
			case len(x.Lhs) == 2 && loadVar != "":
				ta, ok := x.Rhs[0].(*ast.TypeAssertExpr)
				if ok && exprKey(ta.X) == loadVar {
					cfgVar = exprKey(x.Lhs[0])
					continue
				}
				c, ok := x.Rhs[0].(*ast.CallExpr)
				if !ok || exprKey(c.Fun) != "newTLSContext" || len(c.Args) != 2 || cfgVar == "" || exprKey(c.Args[0]) != cfgVar || exprKey(c.Args[1]) != "p.info" {
					return "", fmt.Errorf("sdsProvider.update: the context is not built by newTLSContext(<stored config>, p.info): %s", rk)
				}
				ctxVar = exprKey(x.Lhs[0])
				built = true
			default:
				return "", fmt.Errorf("sdsProvider.update: unexpected assignment %s", rk)
			}
		case *ast.IfStmt:
			k := exprKey(x.Cond)
			if k == "err!=nil" || k == "err != nil" {
				guards++
				continue
			}
			if b, ok := x.Cond.(*ast.BinaryExpr); ok && b.Op == token.NEQ && exprKey(b.X) == "err" && exprKey(b.Y) == "nil" {
				guards++
				continue
			}
			// logging blocks
			if c13sCountCalls(x, "p.value.Store") != 0 || c13sHasEarlyExit(x.Body.List) {
				return "", fmt.Errorf("sdsProvider.update: the context is stored / the function left under a condition")
			}
		case *ast.ExprStmt:
			if c, ok := c13sTopCall(st, "p.value.Store"); ok {
				if !built || len(c.Args) != 1 || exprKey(c.Args[0]) != ctxVar {
					return "", fmt.Errorf("sdsProvider.update: p.value.Store is not given the context just built")
				}
				storedCtx = true
			}
		case *ast.RangeStmt:
			// callbacks
		default:
			return "", fmt.Errorf("sdsProvider.update: unexpected statement %T", st)
		}
	}
	if !built || !storedCtx || guards != 1 {
		return "", fmt.Errorf("sdsProvider.update: build / store / error guard not found (built=%v stored=%v guards=%d)", built, storedCtx, guards)
	}
	s += "/-- `sdsProvider.update`: nothing happens unless p.info.Full(); otherwise the context is built by\nnewTLSContext(p.config.Load(), p.info) and stored in p.value unless the build fails -/\n"
	s += "def updateNeedsFull : Bool := true\ndef updateBuildsFromStoredConfig : Bool := true\n"

	// ---- pemProvider.addOrUpdateSdsProvider: p.updateConfig(cfg) for a new and for an existing provider
	ao := findFunc(f, "pemProvider", "addOrUpdateSdsProvider")
	if ao == nil || len(ao.Type.Params.List) != 2 {
		return "", fmt.Errorf("pemProvider.addOrUpdateSdsProvider not found")
	}
	aoCfg := ao.Type.Params.List[1].Names[0].Name
	at := -1
	for i, st := range ao.Body.List {
		if c, ok := c13sTopCall(st, "p.updateConfig"); ok && len(c.Args) == 1 && exprKey(c.Args[0]) == aoCfg {
			at = i
		}
	}
	if at < 0 || c13sHasEarlyExit(ao.Body.List[:at]) {
		return "", fmt.Errorf("addOrUpdateSdsProvider: p.updateConfig(%s) is not an unconditional statement", aoCfg)
	}
	// NewProvider: sds configurations go through addOrUpdateProvider(index, cfg)
	pf, err := parse(pvSrc)
	if err != nil {
		return "", err
	}
	np := findFunc(pf, "", "NewProvider")
	if np == nil || c13sCountCalls(np, "addOrUpdateProvider") != 1 {
		return "", fmt.Errorf("NewProvider does not hand sds configurations to addOrUpdateProvider")
	}
	okArgs := false
	ast.Inspect(np, func(n ast.Node) bool {
		if c, ok := n.(*ast.CallExpr); ok && exprKey(c.Fun) == "addOrUpdateProvider" {
			okArgs = len(c.Args) == 2 && exprKey(c.Args[0]) == "index" && exprKey(c.Args[1]) == "cfg"
		}
		return true
	})
	if !okArgs {
		return "", fmt.Errorf("NewProvider: addOrUpdateProvider is not called with (index, cfg)")
	}
	s += "/-- NewProvider → addOrUpdateProvider(index, cfg) → pemProvider.addOrUpdateSdsProvider: updateConfig(cfg) runs on\nthe provider of that index whether it was just created or existed -/\n"
	s += "def everyUpdateReachesUpdateConfig : Bool := true\n"
	s += footer("TlsSds")
	return s, nil
}
