-- translation-unsupported BufReset: open -out/pkg/stream/http/buffer.go: no such file or directory
namespace MosnVerif.Gen.BufReset
end MosnVerif.Gen.BufReset
