package main

// C13 (c13r9, the accept path with use_original_dst): regenerates Gen/TlsAccept.lean from pkg/server/handler.go and
// pkg/filter/listener/originaldst/factory.go as a decision tree:
//   - activeListener.OnAccept: the conditions ENCLOSING the block that calls al.tlsMng.Conn(rawc)      -> acceptWrapGuard
//     the block that marks the raw connection and appends the original-dst listener filter             -> acceptAddsOrigDst
//   - activeRawConn.ContinueFilterChain: what happens after the last listener filter said Continue     -> chainEnd
//   - originalDst.OnAccept (the listener filter): Continue / Stop / hand over to UseOriginalDst, as a
//     function of GetUseOriginalDst(), "the original destination was read", "the connection is TCP"   -> origDstFilter
//   - activeRawConn.UseOriginalDst: the three branches {a listener matches ip:port, the fallback-ip
//     listener of that port, nothing matches}: which listener gets the connection and HOW
//     (<listener>.OnAccept(arc.rawc, <flag>, …) = accepted again, or <listener>.newConnection(ctx, arc.rawc) = served as
//     it is)                                                                                           -> useOriginalDstNext
// Any other statement shape is an error => translation-unsupported => broken tie. Helper names carry the prefix c13o.

import (
	"fmt"
	"go/ast"
	"go/token"
	"strings"
)

func init() { register("TlsAccept", genC13oAccept) }

func c13oKey(e ast.Expr) string {
	switch x := e.(type) {
	case *ast.BinaryExpr:
		return c13oKey(x.X) + " " + x.Op.String() + " " + c13oKey(x.Y)
	case *ast.ParenExpr:
		return "(" + c13oKey(x.X) + ")"
	case *ast.UnaryExpr:
		return x.Op.String() + c13oKey(x.X)
	case *ast.TypeAssertExpr:
		return c13oKey(x.X) + ".(" + c13oKey(x.Type) + ")"
	case *ast.StarExpr:
		return "*" + c13oKey(x.X)
	case *ast.SelectorExpr:
		return c13oKey(x.X) + "." + x.Sel.Name
	case *ast.CallExpr:
		var a []string
		for _, y := range x.Args {
			a = append(a, c13oKey(y))
		}
		return c13oKey(x.Fun) + "(" + strings.Join(a, ",") + ")"
	}
	return exprKey(e)
}

var c13oTargets = map[string]string{"arc.activeListener": "Target.self", "listener": "Target.matched", "localListener": "Target.localFallback"}

// c13oNext classifies a statement that passes the raw connection on.
func c13oNext(st ast.Stmt) (string, bool, error) {
	es, ok := st.(*ast.ExprStmt)
	if !ok {
		return "", false, nil
	}
	c, ok := es.X.(*ast.CallExpr)
	if !ok {
		return "", false, nil
	}
	sel, ok := c.Fun.(*ast.SelectorExpr)
	if !ok {
		return "", false, nil
	}
	switch sel.Sel.Name {
	case "OnAccept":
		t, ok := c13oTargets[c13oKey(sel.X)]
		if !ok {
			return "", false, fmt.Errorf("OnAccept of an unknown listener expression %s", c13oKey(sel.X))
		}
		if len(c.Args) < 2 || c13oKey(c.Args[0]) != "arc.rawc" {
			return "", false, fmt.Errorf("OnAccept is not given arc.rawc")
		}
		fl := c13oKey(c.Args[1])
		if fl != "true" && fl != "false" {
			return "", false, fmt.Errorf("OnAccept: useOriginalDst argument %s", fl)
		}
		return "Next.reaccept " + t + " " + fl, true, nil
	case "newConnection":
		t, ok := c13oTargets[c13oKey(sel.X)]
		if !ok {
			return "", false, fmt.Errorf("newConnection of an unknown listener expression %s", c13oKey(sel.X))
		}
		if len(c.Args) != 2 || c13oKey(c.Args[1]) != "arc.rawc" {
			return "", false, fmt.Errorf("newConnection is not given arc.rawc")
		}
		return "Next.serve " + t, true, nil
	}
	return "", false, nil
}

func c13oIsLog(st ast.Stmt) bool {
	switch x := st.(type) {
	case *ast.IfStmt:
		return strings.HasPrefix(c13oKey(x.Cond), "log.DefaultLogger.GetLogLevel()") && x.Else == nil
	case *ast.ExprStmt:
		return strings.HasPrefix(c13oKey(x.X), "log.")
	}
	return false
}

// c13oBranch: the single hand-over statement of a branch of UseOriginalDst.
func c13oBranch(l []ast.Stmt, needReturn bool) (string, error) {
	out := ""
	for i, st := range l {
		if c13oIsLog(st) {
			continue
		}
		if n, ok, err := c13oNext(st); err != nil {
			return "", err
		} else if ok {
			if out != "" {
				return "", fmt.Errorf("two hand-over statements in one branch")
			}
			out = n
			continue
		}
		if r, ok := st.(*ast.ReturnStmt); ok && len(r.Results) == 0 && i == len(l)-1 && out != "" {
			continue
		}
		return "", fmt.Errorf("unexpected statement %T in a branch of UseOriginalDst", st)
	}
	if out == "" {
		return "", fmt.Errorf("a branch of UseOriginalDst hands the connection to nobody")
	}
	if needReturn {
		if _, ok := l[len(l)-1].(*ast.ReturnStmt); !ok {
			return "", fmt.Errorf("a branch of UseOriginalDst does not return after the hand-over")
		}
	}
	return out, nil
}

// ---- the listener filter: a tiny evaluator over its statements
type c13oFilt struct {
	addrSet    bool
	redirected bool
	tcpOK      string
}

func (f *c13oFilt) irrelevant(n ast.Node) bool {
	bad := false
	ast.Inspect(n, func(x ast.Node) bool {
		switch y := x.(type) {
		case *ast.ReturnStmt:
			bad = true
		case *ast.CallExpr:
			k := c13oKey(y.Fun)
			if k == "cb.UseOriginalDst" || k == "cb.SetOriginalAddr" || k == "cb.SetUseOriginalDst" || k == "cb.ContinueFilterChain" {
				bad = true
			}
		}
		return true
	})
	return !bad
}

func (f *c13oFilt) block(l []ast.Stmt, ind string) (string, error) {
	st := *f
	for i, s := range l {
		switch x := s.(type) {
		case *ast.ReturnStmt:
			if len(x.Results) != 1 {
				return "", fmt.Errorf("filter: unexpected return")
			}
			switch c13oKey(x.Results[0]) {
			case "api.Continue":
				if st.redirected {
					return "", fmt.Errorf("filter: Continue after the connection was handed to UseOriginalDst")
				}
				return "FilterOut.continue", nil
			case "api.Stop":
				if st.redirected {
					return fmt.Sprintf("FilterOut.redirect %v", st.addrSet), nil
				}
				return "FilterOut.stop", nil
			}
			return "", fmt.Errorf("filter: returns %s", c13oKey(x.Results[0]))
		case *ast.ExprStmt:
			switch k := c13oKey(x.X); {
			case strings.HasPrefix(k, "cb.SetOriginalAddr("):
				st.addrSet = true
			case strings.HasPrefix(k, "cb.UseOriginalDst("):
				if st.redirected {
					return "", fmt.Errorf("filter: UseOriginalDst twice")
				}
				st.redirected = true
			case strings.HasPrefix(k, "log.") || strings.HasPrefix(k, "variable.SetString("):
			default:
				return "", fmt.Errorf("filter: unexpected call %s", k)
			}
		case *ast.DeclStmt:
		case *ast.AssignStmt:
			if !st.irrelevant(x) {
				return "", fmt.Errorf("filter: unexpected assignment")
			}
		case *ast.IfStmt:
			if st.irrelevant(x) {
				continue // reads the address / logs / sets the fallback variable
			}
			cond := ""
			switch k := c13oKey(x.Cond); {
			case x.Init == nil && k == "!cb.GetUseOriginalDst()":
				cond = "(!useOrig)"
			case x.Init == nil && k == "cb.GetUseOriginalDst()":
				cond = "useOrig"
			case x.Init == nil && k == "err != nil":
				cond = "(!lookupOk)"
			case x.Init == nil && k == "err == nil":
				cond = "lookupOk"
			case x.Init != nil:
				as, ok := x.Init.(*ast.AssignStmt)
				if !ok || len(as.Lhs) != 2 || len(as.Rhs) != 1 || c13oKey(as.Rhs[0]) != "cb.Conn().(*net.TCPConn)" {
					return "", fmt.Errorf("filter: unexpected if-init")
				}
				okName := c13oKey(as.Lhs[1])
				switch k {
				case okName:
					cond = "isTCP"
				case "!" + okName:
					cond = "(!isTCP)"
				default:
					return "", fmt.Errorf("filter: condition %s over a type assertion", k)
				}
			default:
				return "", fmt.Errorf("filter: unsupported condition %s", k)
			}
			if x.Else != nil {
				return "", fmt.Errorf("filter: else branch on a deciding condition")
			}
			if !endsInReturn(x.Body.List) {
				return "", fmt.Errorf("filter: a deciding branch that does not return")
			}
			sub := st
			a, err := sub.block(x.Body.List, ind+"  ")
			if err != nil {
				return "", err
			}
			rest := st
			b, err := rest.block(l[i+1:], ind+"  ")
			if err != nil {
				return "", err
			}
			return "if " + cond + " then\n" + ind + "  " + a + "\n" + ind + "else\n" + ind + "  " + b, nil
		default:
			return "", fmt.Errorf("filter: unexpected statement %T", s)
		}
	}
	return "", fmt.Errorf("filter: falls off the end")
}

func genC13oAccept() (string, error) {
	const (
		hdlSrc = "pkg/server/handler.go"
		fltSrc = "pkg/filter/listener/originaldst/factory.go"
	)
	s := header("TlsAccept", hdlSrc, fltSrc)
	s += `/-- the listener a branch of activeRawConn.UseOriginalDst names: the accepting one (arc.activeListener), the one whose
ip:port equals the original destination, the one listening on the fallback ip with that port -/
inductive Target where
  | self | matched | localFallback
  deriving DecidableEq, Repr
/-- how the raw connection is passed on: <t>.OnAccept(arc.rawc, useOriginalDst, …) — accepted again — or
<t>.newConnection(ctx, arc.rawc) — served as it is -/
inductive Next where
  | reaccept (t : Target) (useOriginalDst : Bool)
  | serve (t : Target)
  deriving DecidableEq, Repr
/-- what the original-dst listener filter answers: Continue, Stop without doing anything, Stop after
cb.UseOriginalDst (addrSet = cb.SetOriginalAddr ran before) -/
inductive FilterOut where
  | continue | stop | redirect (addrSet : Bool)
  deriving DecidableEq, Repr
`
	f, err := parse(hdlSrc)
	if err != nil {
		return "", err
	}

	// ---- A. OnAccept
	fd := findFunc(f, "activeListener", "OnAccept")
	if fd == nil || len(fd.Type.Params.List) < 2 || len(fd.Type.Params.List[1].Names) != 1 || fd.Type.Params.List[1].Names[0].Name != "useOriginalDst" {
		return "", fmt.Errorf("OnAccept not found / second parameter is not useOriginalDst")
	}
	var guards []string
	found := 0
	var walk func(l []ast.Stmt, g []string) error
	walk = func(l []ast.Stmt, g []string) error {
		for _, st := range l {
			is, ok := st.(*ast.IfStmt)
			if !ok {
				// the block must not hide in a loop / switch / closure
				n := 0
				ast.Inspect(st, func(x ast.Node) bool {
					if c, ok := x.(*ast.CallExpr); ok && exprKey(c.Fun) == "al.tlsMng.Conn" {
						n++
					}
					return true
				})
				if n > 0 {
					return fmt.Errorf("OnAccept: al.tlsMng.Conn is called outside an if block (%T)", st)
				}
				continue
			}
			direct := false
			for _, b := range is.Body.List {
				if as, ok := b.(*ast.AssignStmt); ok && len(as.Rhs) == 1 && isCall(as.Rhs[0], "al.tlsMng.Conn", "rawc") {
					direct = true
				}
			}
			if direct {
				found++
				guards = append([]string{}, g...)
				continue
			}
			k := c13oKey(is.Cond)
			var pos, neg string
			switch k {
			case "useOriginalDst":
				pos, neg = "useOriginalDst", "(!useOriginalDst)"
			case "!useOriginalDst":
				pos, neg = "(!useOriginalDst)", "useOriginalDst"
			default:
				pos, neg = "?"+k, "?!"+k
			}
			if is.Init != nil {
				pos, neg = "?init", "?init"
			}
			if err := walk(is.Body.List, append(append([]string{}, g...), pos)); err != nil {
				return err
			}
			switch e := is.Else.(type) {
			case *ast.BlockStmt:
				if err := walk(e.List, append(append([]string{}, g...), neg)); err != nil {
					return err
				}
			case *ast.IfStmt:
				if err := walk([]ast.Stmt{e}, append(append([]string{}, g...), neg)); err != nil {
					return err
				}
			}
		}
		return nil
	}
	if err := walk(fd.Body.List, nil); err != nil {
		return "", err
	}
	if found != 1 {
		return "", fmt.Errorf("OnAccept: %d blocks call al.tlsMng.Conn(rawc)", found)
	}
	for _, g := range guards {
		if strings.HasPrefix(g, "?") {
			return "", fmt.Errorf("OnAccept: the TLS block is guarded by an unsupported condition %s", g[1:])
		}
	}
	wg := "true"
	if len(guards) > 0 {
		wg = strings.Join(guards, " && ")
	}
	s += "/-- `activeListener.OnAccept`: the conditions enclosing the block `if al.tlsMng != nil && ch == nil { al.tlsMng.Conn(rawc) … }`\n(the block itself is Gen.TlsConnect.acceptDecision) -/\n"
	s += "def acceptWrapGuard (useOriginalDst : Bool) : Bool := " + wg + "\n"
	// the original-dst marking block + the owner of the raw connection + the final ContinueFilterChain
	marks, arcOK, contOK := "false", false, false
	for i, st := range fd.Body.List {
		switch x := st.(type) {
		case *ast.AssignStmt:
			if len(x.Lhs) == 1 && len(x.Rhs) == 1 && c13oKey(x.Lhs[0]) == "arc" {
				if c13oKey(x.Rhs[0]) != "newActiveRawConn(rawc,al)" {
					return "", fmt.Errorf("OnAccept: arc := %s", c13oKey(x.Rhs[0]))
				}
				arcOK = true
			}
		case *ast.IfStmt:
			sets, adds := false, false
			for _, b := range x.Body.List {
				if as, ok := b.(*ast.AssignStmt); ok && len(as.Lhs) == 1 && len(as.Rhs) == 1 {
					if c13oKey(as.Lhs[0]) == "arc.useOriginalDst" && c13oKey(as.Rhs[0]) == "true" {
						sets = true
					}
					if c13oKey(as.Lhs[0]) == "arc.acceptedFilters" && strings.Contains(c13oKey(as.Rhs[0]), "originaldst.NewOriginalDst(") {
						adds = true
					}
				}
			}
			if sets || adds {
				if !(sets && adds) || x.Else != nil || x.Init != nil || c13oKey(x.Cond) != "useOriginalDst" || !arcOK {
					return "", fmt.Errorf("OnAccept: the original-dst marking block has an unexpected shape")
				}
				marks = "useOriginalDst"
			}
		case *ast.ExprStmt:
			if c13oKey(x.X) == "arc.ContinueFilterChain(ctx,true)" && i == len(fd.Body.List)-1 {
				contOK = true
			}
		}
	}
	if !arcOK || !contOK {
		return "", fmt.Errorf("OnAccept: newActiveRawConn(rawc, al) / final arc.ContinueFilterChain(ctx, true) not found")
	}
	s += "/-- `activeListener.OnAccept`: the raw connection is marked (arc.useOriginalDst = true) and the original-dst listener\nfilter is appended to its filter chain -/\n"
	s += "def acceptAddsOrigDst (useOriginalDst : Bool) : Bool := " + marks + "\n"

	// ---- B. ContinueFilterChain
	cf := findFunc(f, "activeRawConn", "ContinueFilterChain")
	if cf == nil || len(cf.Body.List) != 3 {
		return "", fmt.Errorf("ContinueFilterChain not found / unexpected shape")
	}
	g0, ok := cf.Body.List[0].(*ast.IfStmt)
	if !ok || c13oKey(g0.Cond) != "!success" || !endsInReturn(g0.Body.List) {
		return "", fmt.Errorf("ContinueFilterChain: first statement")
	}
	loop, ok := cf.Body.List[1].(*ast.ForStmt)
	if !ok || len(loop.Body.List) != 2 {
		return "", fmt.Errorf("ContinueFilterChain: the filter loop")
	}
	la, ok1 := loop.Body.List[0].(*ast.AssignStmt)
	li, ok2 := loop.Body.List[1].(*ast.IfStmt)
	if !ok1 || !ok2 || len(la.Rhs) != 1 || c13oKey(la.Rhs[0]) != "arc.acceptedFilters[arc.acceptedFilterIndex].OnAccept(arc)" && !strings.HasSuffix(c13oKey(la.Rhs[0]), ".OnAccept(arc)") ||
		c13oKey(li.Cond) != c13oKey(la.Lhs[0])+" == api.Stop" || !endsInReturn(li.Body.List) || len(li.Body.List) != 1 {
		return "", fmt.Errorf("ContinueFilterChain: the filter loop body")
	}
	end, ok, err := c13oNext(cf.Body.List[2])
	if err != nil || !ok {
		return "", fmt.Errorf("ContinueFilterChain: the statement after the loop is not a hand-over (%v)", err)
	}
	s += "/-- `activeRawConn.ContinueFilterChain`: a filter answering Stop ends it; after the last Continue: -/\n"
	s += "def chainEnd : Next := " + end + "\n"

	// ---- C. UseOriginalDst
	ud := findFunc(f, "activeRawConn", "UseOriginalDst")
	if ud == nil {
		return "", fmt.Errorf("UseOriginalDst not found")
	}
	var branches []string
	loopOK := false
	tail := -1
	for i, st := range ud.Body.List {
		switch x := st.(type) {
		case *ast.RangeStmt:
			if c13oKey(x.X) != "arc.activeListener.handler.listeners" || len(x.Body.List) != 2 {
				return "", fmt.Errorf("UseOriginalDst: the lookup loop")
			}
			i1, ok1 := x.Body.List[0].(*ast.IfStmt)
			i2, ok2 := x.Body.List[1].(*ast.IfStmt)
			v := c13oKey(x.Value)
			if !ok1 || !ok2 ||
				c13oKey(i1.Cond) != v+".listenIP == arc.originalDstIP && "+v+".listenPort == arc.originalDstPort" ||
				c13oKey(i2.Cond) != v+".listenPort == arc.originalDstPort && "+v+".listenIP == fallbackip" ||
				len(i1.Body.List) != 2 || len(i2.Body.List) != 1 {
				return "", fmt.Errorf("UseOriginalDst: the lookup conditions changed")
			}
			a1, _ := i1.Body.List[0].(*ast.AssignStmt)
			b1, _ := i1.Body.List[1].(*ast.BranchStmt)
			a2, _ := i2.Body.List[0].(*ast.AssignStmt)
			if a1 == nil || b1 == nil || a2 == nil || b1.Tok != token.BREAK ||
				c13oKey(a1.Lhs[0]) != "listener" || c13oKey(a1.Rhs[0]) != v || c13oKey(a2.Lhs[0]) != "localListener" || c13oKey(a2.Rhs[0]) != v {
				return "", fmt.Errorf("UseOriginalDst: the lookup assignments changed")
			}
			loopOK = true
		case *ast.IfStmt:
			k := c13oKey(x.Cond)
			if k == "listener != nil" || k == "localListener != nil" {
				if !loopOK || x.Else != nil || x.Init != nil {
					return "", fmt.Errorf("UseOriginalDst: branch %s", k)
				}
				want := []string{"listener != nil", "localListener != nil"}[len(branches)%2]
				if k != want || len(branches) >= 2 {
					return "", fmt.Errorf("UseOriginalDst: branches out of order")
				}
				b, err := c13oBranch(x.Body.List, true)
				if err != nil {
					return "", fmt.Errorf("UseOriginalDst (%s): %v", k, err)
				}
				branches = append(branches, b)
				tail = i + 1
			}
		}
	}
	if len(branches) != 2 || tail < 0 {
		return "", fmt.Errorf("UseOriginalDst: the two matching branches were not found")
	}
	selfB, err := c13oBranch(ud.Body.List[tail:], false)
	if err != nil {
		return "", fmt.Errorf("UseOriginalDst (nothing matches): %v", err)
	}
	s += "/-- `activeRawConn.UseOriginalDst`: matched = a listener with listenIP:listenPort = the original destination exists;\nlocalMatched = a listener with the fallback ip (0.0.0.0, or 127.0.0.1 with fallback_to_local) and that port exists -/\n"
	s += "def useOriginalDstNext (matched localMatched : Bool) : Next :=\n  if matched then " + branches[0] + "\n  else if localMatched then " + branches[1] + "\n  else " + selfB + "\n"

	// ---- D. the listener filter
	ff, err := parse(fltSrc)
	if err != nil {
		return "", err
	}
	fo := findFunc(ff, "originalDst", "OnAccept")
	if fo == nil {
		return "", fmt.Errorf("originalDst.OnAccept not found")
	}
	ev := &c13oFilt{}
	body, err := ev.block(fo.Body.List, "  ")
	if err != nil {
		return "", err
	}
	s += "/-- `originalDst.OnAccept` (listener filter): useOrig = cb.GetUseOriginalDst(), lookupOk = the original destination\nwas read (err == nil), isTCP = cb.Conn() is a *net.TCPConn -/\n"
	s += "def origDstFilter (useOrig lookupOk isTCP : Bool) : FilterOut :=\n  " + body + "\n"
	s += footer("TlsAccept")
	return s, nil
}
