package main

// C13, listener UPDATE path: regenerates Gen/TlsUpdate.lean from pkg/server/handler.go and
// pkg/mtls/tls_context_manager.go:
//   - which expression supplies Name / Inspector / TLS contexts of the v2.Listener handed to
//     mtls.NewTLSServerContextManager in the update branch of connHandler.AddOrUpdateListener (the update `lc`,
//     or the configuration being replaced `al.listener.Config()`)                     -> updMgrCfg
//   - what the update writes into the stored (dumped) configuration                     -> updStored
//   - whether the new manager is installed (`al.tlsMng = updatedTLSMng`)                -> updInstalls
//   - the add branch: newActiveListener(l, lc, …) building the manager from lc          -> addMgrCfg / addStored
//   - NewTLSServerContextManager: where mng.inspector comes from                        -> mngInspector
// The statements are evaluated symbolically over a tiny expression language (fields of `old` = the stored
// configuration before the update, and of `lc` = the update). Everything outside the expected shapes is an error
// => translation-unsupported => broken tie.

import (
	"fmt"
	"go/ast"
	"go/token"
	"strings"
)

func init() {
	register("TlsUpdate", genC13Update)
}

// c13uKey prints an expression like exprKey, with index expressions and composite literals.
func c13uKey(e ast.Expr) string {
	switch x := e.(type) {
	case *ast.Ident:
		return x.Name
	case *ast.SelectorExpr:
		return c13uKey(x.X) + "." + x.Sel.Name
	case *ast.ParenExpr:
		return c13uKey(x.X)
	case *ast.StarExpr:
		return "*" + c13uKey(x.X)
	case *ast.UnaryExpr:
		return x.Op.String() + c13uKey(x.X)
	case *ast.BasicLit:
		return x.Value
	case *ast.IndexExpr:
		return c13uKey(x.X) + "[" + c13uKey(x.Index) + "]"
	case *ast.CallExpr:
		var a []string
		for _, y := range x.Args {
			a = append(a, c13uKey(y))
		}
		return c13uKey(x.Fun) + "(" + strings.Join(a, ",") + ")"
	case *ast.CompositeLit:
		var a []string
		for _, y := range x.Elts {
			a = append(a, c13uKey(y))
		}
		t := ""
		if x.Type != nil {
			t = c13uKey(x.Type)
		}
		return t + "{" + strings.Join(a, ",") + "}"
	case *ast.KeyValueExpr:
		return c13uKey(x.Key) + ":" + c13uKey(x.Value)
	case *ast.ArrayType:
		return "[]" + c13uKey(x.Elt)
	}
	return fmt.Sprintf("?%T", e)
}

// c13uRec is the symbolic value of the three fields of a v2.Listener the TLS policy reads.
type c13uRec struct{ name, inspector, contexts string }

func (r c13uRec) lean() string {
	return "{ name := " + r.name + ", inspector := " + r.inspector + ", contexts := " + r.contexts + " }"
}

// c13uSym evaluates field expressions. olds = expressions denoting the stored configuration of the active listener
// (al.listener.Config() and its local aliases), lcName = the parameter holding the update.
type c13uSym struct {
	olds   map[string]bool
	lcName string
	locals map[string]string // other local names with a known symbolic value (e.g. listenerName)
}

func (s *c13uSym) root(k string) (string, string, bool) {
	// longest old-alias prefix first
	for o := range s.olds {
		if k == o {
			return "old", "", true
		}
		if strings.HasPrefix(k, o+".") {
			return "old", k[len(o)+1:], true
		}
	}
	if k == s.lcName {
		return "lc", "", true
	}
	if strings.HasPrefix(k, s.lcName+".") {
		return "lc", k[len(s.lcName)+1:], true
	}
	return "", "", false
}

func (s *c13uSym) field(e ast.Expr, want string) (string, error) {
	k := c13uKey(e)
	if v, ok := s.locals[k]; ok && want == "name" {
		return v, nil
	}
	// []v2.FilterChain{{TLSContexts: X}}
	if cl, ok := e.(*ast.CompositeLit); ok && want == "contexts" {
		if c13uKey(cl.Type) != "[]v2.FilterChain" || len(cl.Elts) != 1 {
			return "", fmt.Errorf("filter chains literal of unexpected shape: %s", k)
		}
		in, ok := cl.Elts[0].(*ast.CompositeLit)
		if !ok || len(in.Elts) != 1 {
			return "", fmt.Errorf("filter chain literal of unexpected shape: %s", k)
		}
		kv, ok := in.Elts[0].(*ast.KeyValueExpr)
		if !ok || c13uKey(kv.Key) != "TLSContexts" {
			return "", fmt.Errorf("filter chain literal of unexpected shape: %s", k)
		}
		return s.field(kv.Value, "contexts")
	}
	r, rest, ok := s.root(k)
	if !ok {
		if want == "inspector" && (k == "true" || k == "false") {
			return k, nil
		}
		return "", fmt.Errorf("unsupported source expression %s", k)
	}
	switch {
	case want == "name" && rest == "Name":
		return r + ".name", nil
	case want == "inspector" && rest == "Inspector":
		return r + ".inspector", nil
	case want == "contexts" && (rest == "FilterChains[0].TLSContexts" || rest == "FilterChains"):
		// the number of filter chains is checked to be 1 before anything else
		return r + ".contexts", nil
	}
	return "", fmt.Errorf("unsupported source expression %s for %s", k, want)
}

// whole evaluates an expression denoting a whole listener configuration.
func (s *c13uSym) whole(e ast.Expr, recs map[string]*c13uRec) (c13uRec, error) {
	k := c13uKey(e)
	if r, ok := recs[k]; ok {
		return *r, nil
	}
	if r, rest, ok := s.root(k); ok && rest == "" {
		return c13uRec{r + ".name", r + ".inspector", r + ".contexts"}, nil
	}
	return c13uRec{}, fmt.Errorf("unsupported listener configuration expression %s", k)
}

func c13uIsAlNotNil(e ast.Expr) bool {
	b, ok := e.(*ast.BinaryExpr)
	return ok && b.Op == token.NEQ && c13uKey(b.X) == "al" && c13uKey(b.Y) == "nil"
}

func c13uEndsInReturn(b *ast.BlockStmt) bool {
	if b == nil || len(b.List) == 0 {
		return false
	}
	_, ok := b.List[len(b.List)-1].(*ast.ReturnStmt)
	return ok
}

const c13uOldExpr = "al.listener.Config()"

func genC13Update() (string, error) {
	const (
		hSrc = "pkg/server/handler.go"
		mSrc = "pkg/mtls/tls_context_manager.go"
	)
	s := header("TlsUpdate", hSrc, mSrc)
	f, err := parse(hSrc)
	if err != nil {
		return "", err
	}
	fd := findFunc(f, "connHandler", "AddOrUpdateListener")
	if fd == nil || len(fd.Type.Params.List) != 1 || len(fd.Type.Params.List[0].Names) != 1 {
		return "", fmt.Errorf("AddOrUpdateListener not found / unexpected parameters")
	}
	lc := fd.Type.Params.List[0].Names[0].Name

	// ---- locate: the lookup of the active listener, the validation block, the update/add block
	var seenLookup bool
	var blocks []*ast.IfStmt
	mgrVar := "" // the function-level variable carrying the new manager to the update block
	for _, st := range fd.Body.List {
		switch x := st.(type) {
		case *ast.AssignStmt:
			if len(x.Lhs) == 1 && len(x.Rhs) == 1 && c13uKey(x.Lhs[0]) == "al" {
				if c13uKey(x.Rhs[0]) != "ch.findActiveListenerByName(listenerName)" {
					return "", fmt.Errorf("AddOrUpdateListener: al is not found by the listener name: %s", c13uKey(x.Rhs[0]))
				}
				seenLookup = true
			}
		case *ast.DeclStmt:
			if gd, ok := x.Decl.(*ast.GenDecl); ok && gd.Tok == token.VAR {
				for _, sp := range gd.Specs {
					vs := sp.(*ast.ValueSpec)
					if vs.Type != nil && c13uKey(vs.Type) == "types.TLSContextManager" && len(vs.Names) == 1 && len(vs.Values) == 0 {
						mgrVar = vs.Names[0].Name
					}
				}
			}
		case *ast.IfStmt:
			if seenLookup && c13uIsAlNotNil(x.Cond) && x.Init == nil {
				blocks = append(blocks, x)
			}
		}
	}
	if !seenLookup || len(blocks) != 2 || blocks[0].Else != nil || blocks[1].Else == nil {
		return "", fmt.Errorf("AddOrUpdateListener: expected `if al != nil {validate+build}` followed by `if al != nil {update} else {add}` (found %d blocks)", len(blocks))
	}
	// listenerName is lc.Name (it is assigned from lc.Name, or lc.Name is assigned from it, before the lookup)
	sym := &c13uSym{olds: map[string]bool{c13uOldExpr: true}, lcName: lc, locals: map[string]string{"listenerName": "lc.name", "al.listener.Name()": "old.name"}}

	// ---- validation block: the configuration handed to NewTLSServerContextManager
	recs := map[string]*c13uRec{}
	var mgrCfg *c13uRec
	mgrLocal := ""
	assignedOut := false
	for _, st := range blocks[0].Body.List {
		switch x := st.(type) {
		case *ast.IfStmt:
			if !c13uEndsInReturn(x.Body) || x.Else != nil {
				return "", fmt.Errorf("update validation: an if that is not a guard")
			}
		case *ast.ExprStmt:
			return "", fmt.Errorf("update validation: unexpected call %s", c13uKey(x.X))
		case *ast.AssignStmt:
			if len(x.Rhs) != 1 {
				return "", fmt.Errorf("update validation: multi-value assignment")
			}
			l0 := c13uKey(x.Lhs[0])
			rk := c13uKey(x.Rhs[0])
			switch {
			case len(x.Lhs) == 1 && x.Tok == token.DEFINE && rk == c13uOldExpr:
				sym.olds[l0] = true
			case len(x.Lhs) == 1 && x.Tok == token.DEFINE && rk == "&v2.Listener{}":
				recs[l0] = &c13uRec{name: `""`, inspector: "false", contexts: "[]"}
			case len(x.Lhs) == 2 && strings.HasPrefix(rk, "mtls.NewTLSServerContextManager("):
				if mgrCfg != nil {
					return "", fmt.Errorf("update validation: two context managers are built")
				}
				call := x.Rhs[0].(*ast.CallExpr)
				if len(call.Args) != 1 {
					return "", fmt.Errorf("update validation: NewTLSServerContextManager arguments")
				}
				r, err := sym.whole(call.Args[0], recs)
				if err != nil {
					return "", err
				}
				mgrCfg = &r
				mgrLocal = l0
			case len(x.Lhs) == 1 && x.Tok == token.ASSIGN && mgrVar != "" && l0 == mgrVar:
				if mgrLocal == "" || rk != mgrLocal {
					return "", fmt.Errorf("update validation: %s is assigned %s, not the manager just built", mgrVar, rk)
				}
				assignedOut = true
			case len(x.Lhs) == 1 && x.Tok == token.ASSIGN:
				// field of a scratch listener configuration
				dot := strings.IndexByte(l0, '.')
				if dot < 0 {
					return "", fmt.Errorf("update validation: unexpected assignment to %s", l0)
				}
				base, fld := l0[:dot], l0[dot+1:]
				r, ok := recs[base]
				if !ok {
					// a write into the stored configuration (or anything else) before the manager is built
					return "", fmt.Errorf("update validation: unexpected assignment to %s", l0)
				}
				if mgrCfg != nil {
					return "", fmt.Errorf("update validation: %s written after the manager was built", l0)
				}
				var err error
				switch fld {
				case "Name":
					r.name, err = sym.field(x.Rhs[0], "name")
				case "Inspector":
					r.inspector, err = sym.field(x.Rhs[0], "inspector")
				case "FilterChains":
					r.contexts, err = sym.field(x.Rhs[0], "contexts")
				default:
					err = fmt.Errorf("update validation: unexpected field %s of the scratch configuration", fld)
				}
				if err != nil {
					return "", err
				}
			default:
				return "", fmt.Errorf("update validation: unexpected assignment %s := %s", l0, rk)
			}
		default:
			return "", fmt.Errorf("update validation: unexpected statement %T", st)
		}
	}
	if mgrCfg == nil || !assignedOut {
		return "", fmt.Errorf("update validation: the new TLS context manager is not built / not handed on")
	}

	// ---- update block: what is written into the stored configuration; is the manager installed
	stored := c13uRec{"old.name", "old.inspector", "old.contexts"}
	installs := false
	setConfig := false
	for _, st := range blocks[1].Body.List {
		switch x := st.(type) {
		case *ast.AssignStmt:
			if len(x.Lhs) != 1 || len(x.Rhs) != 1 {
				continue
			}
			l0 := c13uKey(x.Lhs[0])
			rk := c13uKey(x.Rhs[0])
			if x.Tok == token.DEFINE {
				if rk == c13uOldExpr {
					sym.olds[l0] = true
				}
				continue
			}
			if l0 == "al.tlsMng" {
				if rk != mgrVar {
					return "", fmt.Errorf("update: al.tlsMng is assigned %s", rk)
				}
				installs = true
				continue
			}
			r, rest, ok := sym.root(l0)
			if !ok || r != "old" {
				continue
			}
			var err error
			switch {
			case rest == "Name":
				stored.name, err = sym.field(x.Rhs[0], "name")
			case rest == "Inspector":
				stored.inspector, err = sym.field(x.Rhs[0], "inspector")
			case rest == "FilterChains[0].TLSContexts":
				stored.contexts, err = sym.field(x.Rhs[0], "contexts")
			case rest == "FilterChains" || rest == "FilterChains[0]":
				err = fmt.Errorf("update: whole filter chains are replaced (%s)", l0)
			}
			if err != nil {
				return "", err
			}
		case *ast.ExprStmt:
			k := c13uKey(x.X)
			if strings.HasPrefix(k, "al.listener.SetConfig(") {
				call := x.X.(*ast.CallExpr)
				if len(call.Args) != 1 || !sym.olds[c13uKey(call.Args[0])] {
					return "", fmt.Errorf("update: SetConfig of something that is not the updated stored configuration: %s", k)
				}
				setConfig = true
			}
		}
	}
	if !setConfig {
		// the stored configuration is modified in place through the pointer; SetConfig is what the code does today
		return "", fmt.Errorf("update: al.listener.SetConfig(<stored configuration>) not found")
	}

	// ---- add block: newActiveListener(l, lc, …) with l := network.GetListenerFactory()(lc)
	addOK := false
	lVar := ""
	if eb, ok := blocks[1].Else.(*ast.BlockStmt); ok {
		for _, st := range eb.List {
			as, ok := st.(*ast.AssignStmt)
			if !ok || len(as.Rhs) != 1 {
				continue
			}
			rk := c13uKey(as.Rhs[0])
			if rk == "network.GetListenerFactory()()("+lc+")" || rk == "network.GetListenerFactory()("+lc+")" {
				lVar = c13uKey(as.Lhs[0])
			}
			if call, ok := as.Rhs[0].(*ast.CallExpr); ok && c13uKey(call.Fun) == "newActiveListener" {
				if len(call.Args) < 2 || lVar == "" || c13uKey(call.Args[0]) != lVar || c13uKey(call.Args[1]) != lc {
					return "", fmt.Errorf("add: newActiveListener is not called with the new listener and the added configuration")
				}
				addOK = true
			}
		}
	}
	if !addOK {
		return "", fmt.Errorf("add: newActiveListener(l, %s, …) with l := network.GetListenerFactory()(%s) not found (factory call key)", lc, lc)
	}
	// newActiveListener: mgr built from its second parameter and installed
	nal := findFunc(f, "", "newActiveListener")
	if nal == nil {
		return "", fmt.Errorf("newActiveListener not found")
	}
	var pnames []string
	for _, p := range nal.Type.Params.List {
		for _, n := range p.Names {
			pnames = append(pnames, n.Name)
		}
	}
	if len(pnames) < 2 {
		return "", fmt.Errorf("newActiveListener: parameters")
	}
	nalMgr, nalInst := "", false
	for _, st := range nal.Body.List {
		as, ok := st.(*ast.AssignStmt)
		if !ok || len(as.Rhs) != 1 {
			continue
		}
		rk := c13uKey(as.Rhs[0])
		if strings.HasPrefix(rk, "mtls.NewTLSServerContextManager(") {
			if rk != "mtls.NewTLSServerContextManager("+pnames[1]+")" {
				return "", fmt.Errorf("newActiveListener: the manager is built from %s", rk)
			}
			nalMgr = c13uKey(as.Lhs[0])
		}
		if len(as.Lhs) == 1 && c13uKey(as.Lhs[0]) == "al.tlsMng" {
			if nalMgr == "" || rk != nalMgr {
				return "", fmt.Errorf("newActiveListener: al.tlsMng is assigned %s", rk)
			}
			nalInst = true
		}
	}
	if !nalInst {
		return "", fmt.Errorf("newActiveListener: the TLS context manager is not built from the configuration / not installed")
	}

	// ---- NewTLSServerContextManager: mng.inspector
	mf, err := parse(mSrc)
	if err != nil {
		return "", err
	}
	nm := findFunc(mf, "", "NewTLSServerContextManager")
	if nm == nil || len(nm.Type.Params.List) != 1 || len(nm.Type.Params.List[0].Names) != 1 {
		return "", fmt.Errorf("NewTLSServerContextManager not found / unexpected parameters")
	}
	cfgName := nm.Type.Params.List[0].Names[0].Name
	inspSrc := ""
	ast.Inspect(mf, func(n ast.Node) bool {
		switch x := n.(type) {
		case *ast.CompositeLit:
			if x.Type != nil && c13uKey(x.Type) == "serverContextManager" {
				for _, e := range x.Elts {
					if kv, ok := e.(*ast.KeyValueExpr); ok && c13uKey(kv.Key) == "inspector" {
						if inspSrc != "" {
							inspSrc = "?twice"
						} else {
							inspSrc = c13uKey(kv.Value)
						}
					}
				}
			}
		case *ast.AssignStmt:
			for _, l := range x.Lhs {
				if strings.HasSuffix(c13uKey(l), ".inspector") {
					inspSrc = "?assigned:" + c13uKey(l)
				}
			}
		}
		return true
	})
	var inspLean string
	switch inspSrc {
	case cfgName + ".Inspector":
		inspLean = "cfg.inspector"
	case "!" + cfgName + ".Inspector":
		inspLean = "!cfg.inspector"
	case "true", "false":
		inspLean = inspSrc
	case "":
		inspLean = "false" // field never set: Go zero value
	default:
		return "", fmt.Errorf("NewTLSServerContextManager: inspector comes from %s", inspSrc)
	}
	// the providers are built from every TLSContexts entry of every filter chain of the argument, in order
	ranges := 0
	ast.Inspect(nm.Body, func(n ast.Node) bool {
		if r, ok := n.(*ast.RangeStmt); ok {
			k := c13uKey(r.X)
			if (ranges == 0 && k == cfgName+".FilterChains") || (ranges == 1 && strings.HasSuffix(k, ".TLSContexts")) {
				ranges++
			}
		}
		return true
	})
	if ranges != 2 {
		return "", fmt.Errorf("NewTLSServerContextManager: the providers are not built by ranging over %s.FilterChains / TLSContexts", cfgName)
	}

	s += "/-- the fields of a v2.Listener the TLS policy reads: Name, Inspector, FilterChains[0].TLSContexts -/\n"
	s += "structure ListenerTls (κ : Type) where\n  name : String\n  inspector : Bool\n  contexts : List κ\n  deriving DecidableEq, Repr\n"
	s += "/-- update branch of connHandler.AddOrUpdateListener: the v2.Listener handed to mtls.NewTLSServerContextManager\n(old = al.listener.Config() before the update is applied, lc = the update) -/\n"
	s += "def updMgrCfg {κ : Type} (old lc : ListenerTls κ) : ListenerTls κ :=\n  " + mgrCfg.lean() + "\n"
	s += "/-- update branch: the stored configuration (al.listener.Config(), what a dump shows) after the update -/\n"
	s += "def updStored {κ : Type} (old lc : ListenerTls κ) : ListenerTls κ :=\n  " + stored.lean() + "\n"
	s += fmt.Sprintf("/-- update branch: `al.tlsMng = %s` is executed -/\ndef updInstalls : Bool := %v\n", mgrVar, installs)
	s += "/-- add branch: newActiveListener builds the manager from the added configuration and the listener keeps it -/\n"
	s += "def addMgrCfg {κ : Type} (lc : ListenerTls κ) : ListenerTls κ :=\n  { name := lc.name, inspector := lc.inspector, contexts := lc.contexts }\n"
	s += "def addStored {κ : Type} (lc : ListenerTls κ) : ListenerTls κ :=\n  { name := lc.name, inspector := lc.inspector, contexts := lc.contexts }\n"
	s += "/-- NewTLSServerContextManager: `inspector:` of the serverContextManager literal -/\n"
	s += "def mngInspector {κ : Type} (cfg : ListenerTls κ) : Bool := " + inspLean + "\n"
	s += footer("TlsUpdate")
	return s, nil
}
