package main

// gen_c16_dispatch.go — C16, the DISPATCH LOOP of sessionChecker.Start (pkg/upstream/healthcheck/session_checker.go).
//
// Gen/HealthDispatch.lean: the loop of Start as a step program. For every branch of the inner select (an accepted
// answer, an expired answer, a timeout) the ORDERED list of the actions the loop goroutine performs on the two timers,
// the id counter and the result handlers; the same for the statements before the loop, the deferred exit block,
// OnCheck and OnTimeout; and the capacity of the two channels.
//
//	c.checkTimeout.Stop()                                              -> .stopTimeout
//	c.checkTimer.Stop()                                                -> .stopCheck
//	if resp.Healthy { c.HandleSuccess() } else { c.HandleFailure(types.FailureActive) }   -> .handle
//	c.HandleFailure(types.FailureNetwork)                              -> .handleNet
//	c.Session.OnTimeout()                                              -> .sessionOnTimeout
//	atomic.AddUint64(&c.checkID, 1)                                    -> .advance
//	c.checkTimer = utils.NewTimer(<d>, c.OnCheck)                      -> .armCheck
//	c.checkTimeout = utils.NewTimer(c.HealthChecker.timeout, c.OnTimeout) -> .armTimeout
//	id := atomic.LoadUint64(&c.checkID)                                -> .readID
//	c.resp <- checkResponse{ID: id, Healthy: c.Session.CheckHealth()}  -> .checkAndSend
//	c.timeout <- true   |   c.timeout <- id (OnTimeout's parameter)    -> .sendTimeout
//	verifDispatchYield(site, c.Host)                                    -> skipped (verif yield point, empty without the tag)
//
// The timeout case of the select is read in two shapes: `case <-c.timeout: BODY` (timeoutGuarded = false) and
// `case id := <-c.timeout: if id == currentID { BODY } else { STALE }` (timeoutGuarded = true, onStaleTimeout = STALE).
// timeoutCarriesID: OnCheck arms the timeout timer with `func() { c.OnTimeout(id) }` where id is the value it read from
// checkID, and OnTimeout(id) sends that parameter on c.timeout.
//
// Log statements guarded by the log level and the stats counter are skipped; anything else is rejected
// (translation-unsupported). All helpers are prefixed c16d.

import (
	"bytes"
	"fmt"
	"go/ast"
	"go/printer"
	"go/token"
	"strings"
)

func c16dSrc(n ast.Node) string {
	var b bytes.Buffer
	printer.Fprint(&b, fset, n)
	return strings.Join(strings.Fields(b.String()), " ")
}

func init() { register("HealthDispatch", c16dGen) }

// c16dIsLog: a statement that only logs (possibly under a log-level guard) or bumps a stats counter
func c16dIsLog(s ast.Stmt) bool {
	switch x := s.(type) {
	case *ast.ExprStmt:
		c, ok := x.X.(*ast.CallExpr)
		if !ok {
			return false
		}
		k := c16dSrc(c.Fun)
		if k == "verifDispatchYield" {
			for _, a := range c.Args {
				if _, isCall := a.(*ast.CallExpr); isCall {
					return false
				}
			}
			return true
		}
		if strings.HasPrefix(k, "log.DefaultLogger.") {
			for _, a := range c.Args {
				if c16dSensitive(a) {
					return false
				}
			}
			return true
		}
		return strings.HasSuffix(k, ".stats.attempt.Inc")
	case *ast.IfStmt:
		if x.Init != nil || x.Else != nil || !strings.HasPrefix(c16dSrc(x.Cond), "log.DefaultLogger.GetLogLevel() >=") {
			return false
		}
		for _, b := range x.Body.List {
			if !c16dIsLog(b) {
				return false
			}
		}
		return true
	}
	return false
}

// c16dSensitive: the subtree calls something or touches a timer / channel / counter of the checker
func c16dSensitive(n ast.Node) bool {
	hit := false
	ast.Inspect(n, func(m ast.Node) bool {
		switch y := m.(type) {
		case *ast.CallExpr:
			hit = true
		case *ast.UnaryExpr:
			if y.Op == token.ARROW {
				hit = true
			}
		case *ast.SelectorExpr:
			switch y.Sel.Name {
			case "checkTimer", "checkTimeout", "checkID", "resp", "timeout", "stop":
				hit = true
			}
		}
		return !hit
	})
	return hit
}

func c16dCall(s ast.Stmt) (string, []ast.Expr) {
	es, ok := s.(*ast.ExprStmt)
	if !ok {
		return "", nil
	}
	c, ok := es.X.(*ast.CallExpr)
	if !ok {
		return "", nil
	}
	return exprKey(c.Fun), c.Args
}

// c16dAct reads one statement of the loop goroutine / of OnCheck / of OnTimeout
func c16dAct(s ast.Stmt, recv string) (string, error) {
	if c16dIsLog(s) {
		return "", nil
	}
	if k, args := c16dCall(s); k != "" {
		switch {
		case k == recv+".checkTimeout.Stop" && len(args) == 0:
			return ".stopTimeout", nil
		case k == recv+".checkTimer.Stop" && len(args) == 0:
			return ".stopCheck", nil
		case k == recv+".Session.OnTimeout" && len(args) == 0:
			return ".sessionOnTimeout", nil
		case k == recv+".HandleFailure" && len(args) == 1 && exprKey(args[0]) == "types.FailureNetwork":
			return ".handleNet", nil
		case k == "atomic.AddUint64" && len(args) == 2 && exprKey(args[0]) == "&"+recv+".checkID" && exprKey(args[1]) == "1":
			return ".advance", nil
		}
	}
	switch x := s.(type) {
	case *ast.IfStmt:
		// if resp.Healthy { c.HandleSuccess() } else { c.HandleFailure(types.FailureActive) }
		if x.Init == nil && strings.HasSuffix(exprKey(x.Cond), ".Healthy") && len(x.Body.List) == 1 {
			if eb, ok := x.Else.(*ast.BlockStmt); ok && len(eb.List) == 1 {
				k1, a1 := c16dCall(x.Body.List[0])
				k2, a2 := c16dCall(eb.List[0])
				if k1 == recv+".HandleSuccess" && len(a1) == 0 && k2 == recv+".HandleFailure" && len(a2) == 1 && exprKey(a2[0]) == "types.FailureActive" {
					return ".handle", nil
				}
			}
		}
	case *ast.AssignStmt:
		if len(x.Lhs) == 1 && len(x.Rhs) == 1 {
			l := exprKey(x.Lhs[0])
			if c, ok := x.Rhs[0].(*ast.CallExpr); ok {
				k := exprKey(c.Fun)
				if k == "utils.NewTimer" && len(c.Args) == 2 && x.Tok == token.ASSIGN {
					cb := exprKey(c.Args[1])
					if l == recv+".checkTimer" && cb == recv+".OnCheck" {
						return ".armCheck", nil
					}
					if l == recv+".checkTimeout" && exprKey(c.Args[0]) == recv+".HealthChecker.timeout" &&
						(cb == recv+".OnTimeout" || c16dTimeoutClosureArg(c.Args[1], recv) != "") {
						return ".armTimeout", nil
					}
				}
				if k == "atomic.LoadUint64" && len(c.Args) == 1 && exprKey(c.Args[0]) == "&"+recv+".checkID" && x.Tok == token.DEFINE {
					return ".readID", nil
				}
			}
		}
	case *ast.SendStmt:
		ch := exprKey(x.Chan)
		if _, isIdent := x.Value.(*ast.Ident); ch == recv+".timeout" && isIdent {
			return ".sendTimeout", nil // true, or OnTimeout's parameter (c16dCarriesID tells which)
		}
		if ch == recv+".resp" {
			if cl, ok := x.Value.(*ast.CompositeLit); ok && len(cl.Elts) == 2 {
				var id, hv string
				for _, e := range cl.Elts {
					if kv, ok := e.(*ast.KeyValueExpr); ok {
						switch exprKey(kv.Key) {
						case "ID":
							id = exprKey(kv.Value)
						case "Healthy":
							hv = exprKey(kv.Value)
						}
					}
				}
				if id == "id" && hv == recv+".Session.CheckHealth()" {
					return ".checkAndSend", nil
				}
			}
		}
	}
	return "", fmt.Errorf("statement at %s has a shape the dispatch model has no reading for", fset.Position(s.Pos()))
}

func c16dSeq(l []ast.Stmt, recv string) ([]string, error) {
	var out []string
	for _, s := range l {
		a, err := c16dAct(s, recv)
		if err != nil {
			return nil, err
		}
		if a != "" {
			out = append(out, a)
		}
	}
	return out, nil
}

func c16dList(l []string) string { return "[" + strings.Join(l, ", ") + "]" }

// c16dChanCap: capacity of the channel stored in field `name` by newChecker (make(chan T) = 0)
func c16dChanCap(f *ast.File, name string) (int, error) {
	nc := findFunc(f, "", "newChecker")
	if nc == nil {
		return 0, fmt.Errorf("newChecker not found")
	}
	capv := -1
	ast.Inspect(nc.Body, func(n ast.Node) bool {
		kv, ok := n.(*ast.KeyValueExpr)
		if !ok || exprKey(kv.Key) != name {
			return true
		}
		if c, ok := kv.Value.(*ast.CallExpr); ok && exprKey(c.Fun) == "make" {
			if _, isChan := c.Args[0].(*ast.ChanType); isChan {
				if len(c.Args) == 1 {
					capv = 0
				} else if bl, ok := c.Args[1].(*ast.BasicLit); ok {
					fmt.Sscan(bl.Value, &capv)
				}
			}
		}
		return true
	})
	if capv < 0 {
		return 0, fmt.Errorf("newChecker: channel %s is not made with a literal capacity", name)
	}
	return capv, nil
}

func c16dGen() (string, error) {
	const src = "pkg/upstream/healthcheck/session_checker.go"
	f, err := parse(src)
	if err != nil {
		return "", err
	}
	start := findFunc(f, "sessionChecker", "Start")
	if start == nil || start.Body == nil {
		return "", fmt.Errorf("Start not found")
	}
	recv := start.Recv.List[0].Names[0].Name
	// Start = defer func(){ recover…; STOPS }(); PROLOGUE; for { select { case <-c.stop: return; default: currentID := Load; select{…} } }
	var prologue, onExit []string
	var loop *ast.ForStmt
	for i, s := range start.Body.List {
		switch x := s.(type) {
		case *ast.DeferStmt:
			fl, ok := x.Call.Fun.(*ast.FuncLit)
			if !ok || i != 0 {
				return "", fmt.Errorf("Start: unexpected defer")
			}
			for _, d := range fl.Body.List {
				if ifs, ok := d.(*ast.IfStmt); ok && ifs.Init != nil && strings.Contains(c16dSrc(ifs.Init), "recover()") && !c16dSensitiveTimers(ifs) {
					continue // the recover block
				}
				a, err := c16dAct(d, recv)
				if err != nil {
					return "", err
				}
				if a != "" {
					onExit = append(onExit, a)
				}
			}
		case *ast.ForStmt:
			if x.Init != nil || x.Cond != nil || x.Post != nil || i != len(start.Body.List)-1 {
				return "", fmt.Errorf("Start: the loop is not a trailing `for {}`")
			}
			loop = x
		default:
			a, err := c16dAct(s, recv)
			if err != nil {
				return "", err
			}
			if a != "" {
				prologue = append(prologue, a)
			}
		}
	}
	if loop == nil || len(loop.Body.List) != 1 {
		return "", fmt.Errorf("Start: loop body is not a single select")
	}
	outer, ok := loop.Body.List[0].(*ast.SelectStmt)
	if !ok || len(outer.Body.List) != 2 {
		return "", fmt.Errorf("Start: loop body is not `select { case <-stop; default }`")
	}
	var def *ast.CommClause
	for _, c := range outer.Body.List {
		cc := c.(*ast.CommClause)
		if cc.Comm == nil {
			def = cc
		} else if commKey(cc.Comm) != recv+".stop" || len(cc.Body) != 1 {
			return "", fmt.Errorf("Start: outer select has a case other than `<-stop: return`")
		} else if _, ok := cc.Body[0].(*ast.ReturnStmt); !ok {
			return "", fmt.Errorf("Start: outer stop case does not return")
		}
	}
	if def == nil || len(def.Body) != 2 {
		return "", fmt.Errorf("Start: default branch is not `currentID := …; select {…}`")
	}
	if as, ok := def.Body[0].(*ast.AssignStmt); !ok || len(as.Lhs) != 1 || exprKey(as.Lhs[0]) != "currentID" ||
		c16dSrc(as.Rhs[0]) != "atomic.LoadUint64(&"+recv+".checkID)" {
		return "", fmt.Errorf("Start: currentID is not loaded from checkID at the top of the iteration")
	}
	inner, ok := def.Body[1].(*ast.SelectStmt)
	if !ok || len(inner.Body.List) != 3 {
		return "", fmt.Errorf("Start: inner select does not have the three cases stop / resp / timeout")
	}
	var onResp, onExpired, onTimeout, onStale []string
	guarded := false
	seen := map[string]bool{}
	for _, c := range inner.Body.List {
		cc := c.(*ast.CommClause)
		if cc.Comm == nil {
			return "", fmt.Errorf("Start: inner select has a default")
		}
		switch commKey(cc.Comm) {
		case recv + ".stop":
			if _, ok := cc.Body[0].(*ast.ReturnStmt); !ok || len(cc.Body) != 1 {
				return "", fmt.Errorf("Start: inner stop case does not return")
			}
			seen["stop"] = true
		case recv + ".resp":
			if len(cc.Body) != 1 {
				return "", fmt.Errorf("Start: resp case is not a single `if resp.ID == currentID`")
			}
			ifs, ok := cc.Body[0].(*ast.IfStmt)
			if !ok || ifs.Init != nil || c16dSrc(ifs.Cond) != "resp.ID == currentID" {
				return "", fmt.Errorf("Start: resp case is not guarded by resp.ID == currentID")
			}
			if onResp, err = c16dSeq(ifs.Body.List, recv); err != nil {
				return "", err
			}
			if eb, ok := ifs.Else.(*ast.BlockStmt); ok {
				if onExpired, err = c16dSeq(eb.List, recv); err != nil {
					return "", err
				}
			} else if ifs.Else != nil {
				return "", fmt.Errorf("Start: else-if in the resp case")
			}
			seen["resp"] = true
		case recv + ".timeout":
			body := cc.Body
			if as, ok := cc.Comm.(*ast.AssignStmt); ok {
				// case id := <-c.timeout: if id == currentID { … } else { … }
				if len(as.Lhs) != 1 || as.Tok != token.DEFINE || len(cc.Body) != 1 {
					return "", fmt.Errorf("Start: timeout case binds the received value but is not a single `if <value> == currentID`")
				}
				ifs, ok := cc.Body[0].(*ast.IfStmt)
				if !ok || ifs.Init != nil || c16dSrc(ifs.Cond) != exprKey(as.Lhs[0])+" == currentID" {
					return "", fmt.Errorf("Start: timeout case binds the received value but is not guarded by `<value> == currentID`")
				}
				guarded = true
				body = ifs.Body.List
				if eb, ok := ifs.Else.(*ast.BlockStmt); ok {
					if onStale, err = c16dSeq(eb.List, recv); err != nil {
						return "", err
					}
				} else if ifs.Else != nil {
					return "", fmt.Errorf("Start: else-if in the timeout case")
				}
			}
			if onTimeout, err = c16dSeq(body, recv); err != nil {
				return "", err
			}
			seen["timeout"] = true
		default:
			return "", fmt.Errorf("Start: inner select receives from %s", commKey(cc.Comm))
		}
	}
	if !seen["stop"] || !seen["resp"] || !seen["timeout"] {
		return "", fmt.Errorf("Start: inner select lacks one of stop / resp / timeout")
	}
	oc := findFunc(f, "sessionChecker", "OnCheck")
	ot := findFunc(f, "sessionChecker", "OnTimeout")
	if oc == nil || ot == nil {
		return "", fmt.Errorf("OnCheck / OnTimeout not found")
	}
	onCheck, err := c16dSeq(oc.Body.List, oc.Recv.List[0].Names[0].Name)
	if err != nil {
		return "", err
	}
	onTimeoutFn, err := c16dSeq(ot.Body.List, ot.Recv.List[0].Names[0].Name)
	if err != nil {
		return "", err
	}
	carries := c16dCarriesID(oc, ot)
	capT, err := c16dChanCap(f, "timeout")
	if err != nil {
		return "", err
	}
	capR, err := c16dChanCap(f, "resp")
	if err != nil {
		return "", err
	}
	s := header("HealthDispatch", src+" (Start loop, OnCheck, OnTimeout, newChecker)")
	s += "/-- one action of the checker goroutine / of the timer callbacks (see extract/gen_c16_dispatch.go) -/\n"
	s += "inductive Act where\n  | stopTimeout | stopCheck | handle | handleNet | sessionOnTimeout | advance | armCheck | armTimeout\n  | readID | checkAndSend | sendTimeout\n  deriving DecidableEq, Repr\n"
	s += "/-- Start before the loop -/\ndef prologue : List Act := " + c16dList(prologue) + "\n"
	s += "/-- inner select, answer carrying the awaited id -/\ndef onResp : List Act := " + c16dList(onResp) + "\n"
	s += "/-- inner select, answer carrying another id -/\ndef onExpired : List Act := " + c16dList(onExpired) + "\n"
	s += "/-- inner select, timeout -/\ndef onTimeout : List Act := " + c16dList(onTimeout) + "\n"
	s += "/-- inner select, timeout whose id is not the awaited one (only when timeoutGuarded) -/\ndef onStaleTimeout : List Act := " + c16dList(onStale) + "\n"
	s += fmt.Sprintf("/-- the timeout case is `case id := <-c.timeout: if id == currentID {onTimeout} else {onStaleTimeout}` -/\ndef timeoutGuarded : Bool := %v\n", guarded)
	s += fmt.Sprintf("/-- the value sent on c.timeout is the id OnCheck read from checkID when it armed the timer -/\ndef timeoutCarriesID : Bool := %v\n", carries)
	s += "/-- deferred block of Start -/\ndef onExit : List Act := " + c16dList(onExit) + "\n"
	s += "/-- OnCheck (callback of the check timer, its own goroutine) -/\ndef onCheck : List Act := " + c16dList(onCheck) + "\n"
	s += "/-- OnTimeout (callback of the timeout timer, its own goroutine) -/\ndef onTimeoutFn : List Act := " + c16dList(onTimeoutFn) + "\n"
	s += fmt.Sprintf("/-- capacities of c.timeout / c.resp (0 = unbuffered: a fired timer's goroutine waits until the loop receives) -/\ndef timeoutChanCap : Nat := %d\ndef respChanCap : Nat := %d\n", capT, capR)
	s += footer("HealthDispatch")
	return s, nil
}

func c16dSensitiveTimers(n ast.Node) bool {
	hit := false
	ast.Inspect(n, func(m ast.Node) bool {
		if y, ok := m.(*ast.SelectorExpr); ok {
			switch y.Sel.Name {
			case "checkTimer", "checkTimeout", "checkID", "resp", "timeout", "stop":
				hit = true
			}
		}
		return !hit
	})
	return hit
}

// c16dTimeoutClosureArg: `func() { c.OnTimeout(<ident>) }` -> the identifier, else ""
func c16dTimeoutClosureArg(e ast.Expr, recv string) string {
	fl, ok := e.(*ast.FuncLit)
	if !ok || len(fl.Type.Params.List) != 0 || len(fl.Body.List) != 1 {
		return ""
	}
	k, args := c16dCall(fl.Body.List[0])
	if k != recv+".OnTimeout" || len(args) != 1 {
		return ""
	}
	if id, ok := args[0].(*ast.Ident); ok {
		return id.Name
	}
	return ""
}

// c16dCarriesID: OnCheck reads `x := atomic.LoadUint64(&c.checkID)`, arms the timeout timer with func() { c.OnTimeout(x) },
// x is assigned nowhere else in OnCheck, and OnTimeout(p uint64) sends p on c.timeout
func c16dCarriesID(oc, ot *ast.FuncDecl) bool {
	recv := oc.Recv.List[0].Names[0].Name
	readVar, armVar := "", ""
	assigns := map[string]int{}
	ast.Inspect(oc.Body, func(n ast.Node) bool {
		if as, ok := n.(*ast.AssignStmt); ok {
			for _, l := range as.Lhs {
				assigns[exprKey(l)]++
			}
			if len(as.Lhs) == 1 && len(as.Rhs) == 1 {
				if c, ok := as.Rhs[0].(*ast.CallExpr); ok {
					switch exprKey(c.Fun) {
					case "atomic.LoadUint64":
						if len(c.Args) == 1 && exprKey(c.Args[0]) == "&"+recv+".checkID" && as.Tok == token.DEFINE {
							readVar = exprKey(as.Lhs[0])
						}
					case "utils.NewTimer":
						if len(c.Args) == 2 && exprKey(as.Lhs[0]) == recv+".checkTimeout" {
							armVar = c16dTimeoutClosureArg(c.Args[1], recv)
						}
					}
				}
			}
		}
		if u, ok := n.(*ast.UnaryExpr); ok && u.Op == token.AND {
			assigns[exprKey(u.X)] += 2 // address taken
		}
		if ids, ok := n.(*ast.IncDecStmt); ok {
			assigns[exprKey(ids.X)] += 2
		}
		return true
	})
	if readVar == "" || armVar != readVar || assigns[readVar] != 1 {
		return false
	}
	if ot.Type.Params == nil || len(ot.Type.Params.List) != 1 || len(ot.Type.Params.List[0].Names) != 1 {
		return false
	}
	param := ot.Type.Params.List[0].Names[0].Name
	trecv := ot.Recv.List[0].Names[0].Name
	sends, ok := 0, true
	ast.Inspect(ot.Body, func(n ast.Node) bool {
		switch x := n.(type) {
		case *ast.SendStmt:
			sends++
			if exprKey(x.Chan) != trecv+".timeout" || exprKey(x.Value) != param {
				ok = false
			}
		case *ast.AssignStmt:
			for _, l := range x.Lhs {
				if exprKey(l) == param {
					ok = false
				}
			}
		case *ast.IncDecStmt:
			if exprKey(x.X) == param {
				ok = false
			}
		}
		return true
	})
	return ok && sends == 1
}
