-- translation-unsupported H2WriteLock: open -out/pkg/module/http2/mhttp2.go: no such file or directory
namespace MosnVerif.Gen.H2WriteLock
end MosnVerif.Gen.H2WriteLock
