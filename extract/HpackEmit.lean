-- translation-unsupported HpackEmit: open -out/pkg/module/http2/hpack/hpack.go: no such file or directory
namespace MosnVerif.Gen.HpackEmit
end MosnVerif.Gen.HpackEmit
