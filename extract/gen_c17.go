package main

import (
	"fmt"
	"go/ast"
	"strings"
)

func init() {
	register("ProxyTimeout", genProxyTimeout)
	register("HeaderMutation", genHeaderMutation)
}

// genProxyTimeout translates parseProxyTimeout (pkg/proxy/util.go) statement by statement.
func genProxyTimeout() (string, error) {
	const src = "pkg/proxy/util.go"
	f, err := parse(src)
	if err != nil {
		return "", err
	}
	fd := findFunc(f, "", "parseProxyTimeout")
	if fd == nil {
		return "", fmt.Errorf("parseProxyTimeout not found")
	}
	def, err := intConst("pkg/types", "GlobalTimeout")
	if err != nil {
		return "", err
	}
	cs, err := pkgConsts("pkg/types")
	if err != nil {
		return "", err
	}
	str := func(n string) string { return strings.Trim(cs[n].ExactString(), "\"") }
	env := &Env{
		Names: map[string]string{
			"timeout.GlobalTimeout": "GlobalTimeout",
			"timeout.TryTimeout":    "TryTimeout",
			"route":                 "hasRoute",
			"nil":                   "false",
			"route.RouteRule().GlobalTimeout()":                       "routeGlobal",
			"route.RouteRule().Policy().RetryPolicy().TryTimeout()":   "routeTry",
			"time.Millisecond":      "1000000",
			"types.GlobalTimeout":   fmt.Sprint(def),
		},
		Calls: map[string]string{"time.Duration": ""},
		Types: map[string]string{},
		OptCalls: map[string]string{
			"headers.Get(types.HeaderTryTimeout)":                  "hdrTry",
			"headers.Get(types.HeaderGlobalTimeout)":               "hdrGlobal",
			"variable.GetString(ctx,types.VarProxyTryTimeout)":     "varTry",
			"variable.GetString(ctx,types.VarProxyGlobalTimeout)":  "varGlobal",
			"strconv.ParseInt(tto,10,bitSize64)":                   "(parseInt tto)",
			"strconv.ParseInt(gto,10,bitSize64)":                   "(parseInt gto)",
		},
		Ret:  func(rs []string) string { return "(GlobalTimeout, TryTimeout)" },
		Fall: "(GlobalTimeout, TryTimeout)",
	}
	body, err := env.block(fd.Body.List, "  ")
	if err != nil {
		return "", err
	}
	s := header("ProxyTimeout", src+" (parseProxyTimeout)")
	s += "def headerTryTimeout : String := \"" + str("HeaderTryTimeout") + "\"\n"
	s += "def headerGlobalTimeout : String := \"" + str("HeaderGlobalTimeout") + "\"\n"
	s += "def varTryTimeout : String := \"" + str("VarProxyTryTimeout") + "\"\n"
	s += "def varGlobalTimeout : String := \"" + str("VarProxyGlobalTimeout") + "\"\n"
	s += fmt.Sprintf("def defaultGlobalTimeout : Int := %d\n", def)
	s += "/-- durations in nanoseconds (time.Duration), unbounded `Int`; `parseInt` = strconv.ParseInt(·,10,64) as an oracle;\n`hdr*`/`var*` = the request header / context variable if present; (GlobalTimeout, TryTimeout) in and out. -/\n"
	s += "def parseProxyTimeout (parseInt : String → Option Int) (GlobalTimeout TryTimeout : Int) (hasRoute : Bool) (routeGlobal routeTry : Int)\n    (hdrTry hdrGlobal varTry varGlobal : Option String) : Int × Int :=\n  " + body + "\n"
	s += footer("ProxyTimeout")
	return s, nil
}

// genHeaderMutation extracts from pkg/router: the append condition of headerParser.evaluateHeaders, the order
// adds-then-removes, and the order of the three levels in finalizeRequestHeaders / FinalizeResponseHeaders.
func genHeaderMutation() (string, error) {
	f, err := parse("pkg/router/header_parser.go")
	if err != nil {
		return "", err
	}
	fd := findFunc(f, "headerParser", "evaluateHeaders")
	if fd == nil {
		return "", fmt.Errorf("evaluateHeaders not found")
	}
	// loops in order
	var loops []string
	var cond ast.Expr
	var format string
	for _, st := range fd.Body.List {
		r, ok := st.(*ast.RangeStmt)
		if !ok {
			continue
		}
		loops = append(loops, exprKey(r.X))
		if exprKey(r.X) == "h.headersToAdd" {
			for _, bs := range r.Body.List {
				if is, ok := bs.(*ast.IfStmt); ok {
					if be, ok := is.Cond.(*ast.BinaryExpr); ok {
						cond = be
					}
					ast.Inspect(is.Body, func(n ast.Node) bool {
						if c, ok := n.(*ast.CallExpr); ok && exprKey(c.Fun) == "fmt.Sprintf" && len(c.Args) == 3 {
							if bl, ok := c.Args[0].(*ast.BasicLit); ok && exprKey(c.Args[1]) == "v" && exprKey(c.Args[2]) == "value" {
								format = bl.Value
							}
						}
						return true
					})
				}
			}
		}
	}
	if len(loops) != 2 || loops[0] != "h.headersToAdd" || loops[1] != "h.headersToRemove" {
		return "", fmt.Errorf("evaluateHeaders: expected the adds loop followed by the removes loop, got %v", loops)
	}
	if cond == nil || format == "" {
		return "", fmt.Errorf("evaluateHeaders: append condition / format not found")
	}
	env := &Env{Names: map[string]string{"ok": "present", "len(v)": "lenV", "toAdd.headerFormatter.append()": "isAppend"}, Calls: map[string]string{}}
	c, err := env.expr(cond)
	if err != nil {
		return "", err
	}
	if format != "\"%s,%s\"" {
		return "", fmt.Errorf("join format changed: %s", format)
	}
	// level order
	order := func(file, recv, fn string, labels map[string]string) ([]string, error) {
		f, err := parse(file)
		if err != nil {
			return nil, err
		}
		fd := findFunc(f, recv, fn)
		if fd == nil {
			return nil, fmt.Errorf("%s not found", fn)
		}
		var out []string
		for _, st := range fd.Body.List {
			es, ok := st.(*ast.ExprStmt)
			if !ok {
				continue
			}
			call, ok := es.X.(*ast.CallExpr)
			if !ok {
				continue
			}
			if l, ok := labels[exprKey(call.Fun)]; ok {
				out = append(out, l)
			}
		}
		return out, nil
	}
	vhReq, err := order("pkg/router/virtualhost.go", "VirtualHostImpl", "FinalizeRequestHeaders", map[string]string{
		"vh.requestHeadersParser.evaluateHeaders": ".vhost", "vh.globalRouteConfig.requestHeadersParser.evaluateHeaders": ".router"})
	if err != nil {
		return "", err
	}
	vhResp, err := order("pkg/router/virtualhost.go", "VirtualHostImpl", "FinalizeResponseHeaders", map[string]string{
		"vh.responseHeadersParser.evaluateHeaders": ".vhost", "vh.globalRouteConfig.responseHeadersParser.evaluateHeaders": ".router"})
	if err != nil {
		return "", err
	}
	expand := func(top []string, vh []string) string {
		var out []string
		for _, t := range top {
			if t == "VH" {
				out = append(out, vh...)
			} else {
				out = append(out, t)
			}
		}
		return "[" + strings.Join(out, ", ") + "]"
	}
	rReq, err := order("pkg/router/base_rule.go", "RouteRuleImplBase", "finalizeRequestHeaders", map[string]string{
		"rri.requestHeadersParser.evaluateHeaders": ".route", "rri.vHost.FinalizeRequestHeaders": "VH"})
	if err != nil {
		return "", err
	}
	rResp, err := order("pkg/router/base_rule.go", "RouteRuleImplBase", "FinalizeResponseHeaders", map[string]string{
		"rri.responseHeadersParser.evaluateHeaders": ".route", "rri.vHost.FinalizeResponseHeaders": "VH"})
	if err != nil {
		return "", err
	}
	s := header("HeaderMutation", "pkg/router/header_parser.go, base_rule.go, virtualhost.go")
	s += "inductive Level where\n  | route | vhost | router\nderiving DecidableEq, Repr\n"
	s += "/-- `if v, ok := headers.Get(name); <cond>` — the condition under which the new value is joined to the old one with \",\" -/\n"
	s += "def joinCond (present : Bool) (lenV : Int) (isAppend : Bool) : Bool := " + c + "\n"
	s += "/-- order in which the levels' parsers run (each: all additions in configuration order, then all removals) -/\n"
	s += "def requestOrder : List Level := " + expand(rReq, vhReq) + "\n"
	s += "def responseOrder : List Level := " + expand(rResp, vhResp) + "\n"
	s += footer("HeaderMutation")
	return s, nil
}
