package main

// C17 [c17pt], the per-try timer: WHEN it is armed and what its callback does, regenerated from pkg/proxy/downstream.go.
//
//   armCond            the full condition under which setupPerReqTimeout creates the timer: every early return before
//                      the creation contributes a negated conjunct, every enclosing `if` a conjunct. The property needs
//                      it to be exactly `TryTimeout > 0` (theorem in Props/C17); a guard on the retry budget, the attempt
//                      number, retry_on ... shows up as a different expression (or, over state this translation does not
//                      know, stops the translation)
//   requestSentArms    the condition under which onUpstreamRequestSent (first complete send) calls setupPerReqTimeout
//   doRetryCall        how doRetry arms the timer of a retried attempt: directly, through onUpstreamRequestSent (when the
//                      global timer is not armed yet), or not at all
//   callbackGuards     what the timer callback tests, in order, before it acts; callbackAction what it then calls
//   perTry* / global*  what onPerReqTimeout / onResponseTimeout do: guard, response flag, reset reason

import (
	"fmt"
	"go/ast"
	"go/token"
	"strings"
)

func init() { register("PerTryArm", genC17ptPerTryArm) }

func c17ptArmEnv() *Env {
	return &Env{
		Names: map[string]string{
			"timeout.TryTimeout":                    "a.tryTimeout",
			"s.timeout.TryTimeout":                  "a.tryTimeout",
			"timeout.GlobalTimeout":                 "a.globalTimeout",
			"s.timeout.GlobalTimeout":               "a.globalTimeout",
			"s.retryState":                          "a.hasRetryState",
			"nil":                                   "false",
			"s.retryState.retiesRemaining":          "a.retiesRemaining",
			"s.retryState.retryOn":                  "a.retryOn",
			"s.retryState.retryPolicy.RetryOn()":    "a.retryOn",
			"s.retryState.retryPolicy.NumRetries()": "a.numRetries",
			"s.route.RouteRule().Policy().RetryPolicy().RetryOn()":    "a.retryOn",
			"s.route.RouteRule().Policy().RetryPolicy().NumRetries()": "a.numRetries",
			"s.downstreamResponseStarted":                             "a.responseStarted",
			"s.upstreamRequestSent":                                   "a.requestSent",
			"s.oneway":                                                "a.oneway",
		},
		Calls: map[string]string{"int": "", "uint32": "", "int64": "", "time.Duration": ""},
	}
}

func c17ptIsReturnOnly(b *ast.BlockStmt) bool {
	if len(b.List) != 1 {
		return false
	}
	r, ok := b.List[0].(*ast.ReturnStmt)
	return ok && len(r.Results) == 0
}

// c17ptFindTimer returns the `s.perRetryTimer = utils.NewTimer(d, func(){...})` call of a statement list element
func c17ptTimerAssign(st ast.Stmt) *ast.CallExpr {
	as, ok := st.(*ast.AssignStmt)
	if !ok || len(as.Lhs) != 1 || len(as.Rhs) != 1 || exprKey(as.Lhs[0]) != "s.perRetryTimer" {
		return nil
	}
	c, ok := as.Rhs[0].(*ast.CallExpr)
	if !ok || exprKey(c.Fun) != "utils.NewTimer" || len(c.Args) != 2 {
		return nil
	}
	return c
}

// c17ptArm walks a statement list of setupPerReqTimeout: (conjuncts, the NewTimer call) — nil call = not created here
func c17ptArm(env *Env, l []ast.Stmt, conj []string) ([]string, *ast.CallExpr, error) {
	for _, st := range l {
		if isLogStmt(st) {
			continue
		}
		if c := c17ptTimerAssign(st); c != nil {
			return conj, c, nil
		}
		switch s := src(st); s {
		case "timeout := s.timeout", "ID := atomic.LoadUint32(&s.ID)",
			"if s.perRetryTimer != nil { s.perRetryTimer.Stop() }":
			continue
		}
		is, ok := st.(*ast.IfStmt)
		if !ok || is.Init != nil {
			return nil, nil, fmt.Errorf("setupPerReqTimeout: unsupported statement: %s", src(st))
		}
		c, err := env.expr(is.Cond)
		if err != nil {
			return nil, nil, fmt.Errorf("setupPerReqTimeout: condition `%s`: %v", src(is.Cond), err)
		}
		if c17ptIsReturnOnly(is.Body) && is.Else == nil {
			conj = append(conj, "(!"+c+")")
			continue
		}
		if is.Else != nil {
			return nil, nil, fmt.Errorf("setupPerReqTimeout: if/else around the timer: %s", src(is.Cond))
		}
		inner, call, err := c17ptArm(env, is.Body.List, append(append([]string{}, conj...), c))
		if err != nil {
			return nil, nil, err
		}
		if call != nil {
			return inner, call, nil
		}
		return nil, nil, fmt.Errorf("setupPerReqTimeout: conditional block without the timer: %s", src(is.Cond))
	}
	return conj, nil, nil
}

var c17ptGuardNames = map[string]string{
	"atomic.LoadUint32(&s.downstreamCleaned) == 1":                        "cleaned",
	"ID != atomic.LoadUint32(&s.ID)":                                      "idChanged",
	"!atomic.CompareAndSwapUint32(&s.upstreamResponseReceived, 0, 1)":     "casLost",
	"atomic.LoadUint32(&s.upstreamResponseReceived) == 1":                 "loadReceived",
	"!atomic.CompareAndSwapUint32(&s.upstreamResponseReceived, 0, 1) { }": "casLost",
}

func c17ptCallback(fl *ast.FuncLit) (guards []string, action string, err error) {
	for _, st := range fl.Body.List {
		if isLogStmt(st) {
			continue
		}
		s := src(st)
		if s == "atomic.StoreUint32(&s.reuseBuffer, 0)" {
			continue
		}
		if strings.HasPrefix(s, "verifTimerYield(") {
			// verif hook (no-op without the build tag): the yield point at the start of the timer callbacks (C02, Gen ProxyGen)
			continue
		}
		if is, ok := st.(*ast.IfStmt); ok && is.Init == nil && is.Else == nil && c17ptIsReturnOnly(is.Body) {
			n, ok := c17ptGuardNames[src(is.Cond)]
			if !ok {
				n = "other: " + strings.ReplaceAll(src(is.Cond), "\"", "'")
			}
			guards = append(guards, n)
			continue
		}
		if es, ok := st.(*ast.ExprStmt); ok {
			if c, ok := es.X.(*ast.CallExpr); ok && len(c.Args) == 0 && action == "" {
				action = exprKey(c.Fun)
				continue
			}
		}
		return nil, "", fmt.Errorf("per-try timer callback: unsupported statement: %s", s)
	}
	return guards, action, nil
}

// c17ptExpiry reads a timeout handler: the guard of its acting block, the response flag it sets, the reset reason it hands on
func c17ptExpiry(fd *ast.FuncDecl, consts map[string]string) (guard, flag, reason string, resets bool, err error) {
	var scan func(l []ast.Stmt)
	scan = func(l []ast.Stmt) {
		for _, st := range l {
			switch x := st.(type) {
			case *ast.ExprStmt:
				c, ok := x.X.(*ast.CallExpr)
				if !ok {
					continue
				}
				switch exprKey(c.Fun) {
				case "s.requestInfo.SetResponseFlag":
					if len(c.Args) == 1 {
						flag = strings.TrimPrefix(exprKey(c.Args[0]), "api.")
					}
				case "s.upstreamRequest.OnResetStream":
					if len(c.Args) == 1 {
						reason = consts[strings.TrimPrefix(exprKey(c.Args[0]), "types.")]
					}
				case "s.upstreamRequest.resetStream":
					resets = true
				}
			case *ast.IfStmt:
				if isLogStmt(st) {
					continue
				}
				scan(x.Body.List)
			}
		}
	}
	guard = "true"
	for _, st := range fd.Body.List {
		if is, ok := st.(*ast.IfStmt); ok && is.Init == nil && !isLogStmt(st) {
			has := false
			ast.Inspect(is.Body, func(n ast.Node) bool {
				if c, ok := n.(*ast.CallExpr); ok && exprKey(c.Fun) == "s.upstreamRequest.OnResetStream" {
					has = true
				}
				return true
			})
			if has && src(is.Cond) != "s.upstreamRequest != nil" {
				guard = src(is.Cond)
			}
		}
	}
	scan(fd.Body.List)
	if reason == "" {
		return "", "", "", false, fmt.Errorf("%s: reset reason not found", fd.Name.Name)
	}
	return guard, flag, reason, resets, nil
}

func genC17ptPerTryArm() (string, error) {
	const file = "pkg/proxy/downstream.go"
	f, err := parse(file)
	if err != nil {
		return "", err
	}
	get := func(n string) (*ast.FuncDecl, error) {
		fd := findFunc(f, "downStream", n)
		if fd == nil {
			return nil, fmt.Errorf("%s not found", n)
		}
		return fd, nil
	}
	setup, err := get("setupPerReqTimeout")
	if err != nil {
		return "", err
	}
	env := c17ptArmEnv()
	conj, call, err := c17ptArm(env, setup.Body.List, nil)
	if err != nil {
		return "", err
	}
	armCond := "false"
	durIsTry := false
	var guards []string
	action := ""
	if call != nil {
		armCond = "true"
		if len(conj) > 0 {
			armCond = "(" + strings.Join(conj, " && ") + ")"
		}
		d := exprKey(call.Args[0])
		durIsTry = d == "timeout.TryTimeout" || d == "s.timeout.TryTimeout"
		fl, ok := call.Args[1].(*ast.FuncLit)
		if !ok {
			return "", fmt.Errorf("setupPerReqTimeout: the timer callback is not a function literal")
		}
		if guards, action, err = c17ptCallback(fl); err != nil {
			return "", err
		}
	}

	// first send
	sent, err := get("onUpstreamRequestSent")
	if err != nil {
		return "", err
	}
	senv := &Env{Names: map[string]string{"s.upstreamRequest": "hasUpstreamRequest", "nil": "false", "s.oneway": "oneway"}, Calls: map[string]string{}}
	sentArms := "false"
	for _, st := range sent.Body.List {
		if src(st) == "s.setupPerReqTimeout()" {
			sentArms = "true"
		}
		if is, ok := st.(*ast.IfStmt); ok && is.Init == nil && !isLogStmt(st) {
			for _, in := range is.Body.List {
				if src(in) == "s.setupPerReqTimeout()" {
					c, err := senv.expr(is.Cond)
					if err != nil {
						return "", fmt.Errorf("onUpstreamRequestSent: condition `%s`: %v", src(is.Cond), err)
					}
					sentArms = c
				}
			}
		}
	}

	// retried attempts
	dr, err := get("doRetry")
	if err != nil {
		return "", err
	}
	classify := func(l []ast.Stmt) string {
		for _, st := range l {
			switch src(st) {
			case "s.setupPerReqTimeout()":
				return ".direct"
			case "s.onUpstreamRequestSent()":
				return ".viaRequestSent"
			}
		}
		return ".none"
	}
	renv := &Env{Names: map[string]string{"s.responseTimer": "globalArmed", "nil": "false"}, Calls: map[string]string{}}
	retryCall := ".none"
	afterSend, seenSend := false, false
	for _, st := range dr.Body.List {
		if strings.HasPrefix(src(st), "s.upstreamRequest.appendHeaders(") {
			seenSend = true
		}
		if c := classify([]ast.Stmt{st}); c != ".none" {
			retryCall, afterSend = c, seenSend
			continue
		}
		is, ok := st.(*ast.IfStmt)
		if !ok || is.Init != nil || isLogStmt(st) {
			continue
		}
		th := classify(is.Body.List)
		el := ".none"
		if eb, ok := is.Else.(*ast.BlockStmt); ok {
			el = classify(eb.List)
		}
		if th == ".none" && el == ".none" {
			// the timer must not be armed somewhere deeper
			deep := false
			ast.Inspect(is, func(n ast.Node) bool {
				if c, ok := n.(*ast.CallExpr); ok && (exprKey(c.Fun) == "s.setupPerReqTimeout" || exprKey(c.Fun) == "s.onUpstreamRequestSent") {
					deep = true
				}
				return true
			})
			if deep {
				return "", fmt.Errorf("doRetry: the per-try timer is armed under a nested condition: %s", src(is.Cond))
			}
			continue
		}
		c, err := renv.expr(is.Cond)
		if err != nil {
			return "", fmt.Errorf("doRetry: condition `%s` around the per-try timer: %v", src(is.Cond), err)
		}
		retryCall = "if " + c + " then " + th + " else " + el
		afterSend = seenSend
	}

	cs, err := pkgConsts("pkg/types")
	if err != nil {
		return "", err
	}
	consts := map[string]string{}
	for k, v := range cs {
		if v.Kind().String() == "String" {
			consts[k] = strings.Trim(v.ExactString(), "\"")
		}
	}
	pt, err := get("onPerReqTimeout")
	if err != nil {
		return "", err
	}
	ptGuard, ptFlag, ptReason, ptResets, err := c17ptExpiry(pt, consts)
	if err != nil {
		return "", err
	}
	gt, err := get("onResponseTimeout")
	if err != nil {
		return "", err
	}
	_, gtFlag, gtReason, gtResets, err := c17ptExpiry(gt, consts)
	if err != nil {
		return "", err
	}
	q := func(l []string) string {
		var o []string
		for _, x := range l {
			o = append(o, "\""+x+"\"")
		}
		return "[" + strings.Join(o, ", ") + "]"
	}
	b := func(x bool) string {
		if x {
			return "true"
		}
		return "false"
	}
	_ = token.NoPos
	s := header("PerTryArm", file+" (setupPerReqTimeout, onUpstreamRequestSent, doRetry, onPerReqTimeout, onResponseTimeout)")
	s += "/-- what setupPerReqTimeout may look at when it decides whether to create the per-try timer -/\n"
	s += "structure ArmState where\n  tryTimeout : Int\n  globalTimeout : Int := 0\n  hasRetryState : Bool := true\n  retiesRemaining : Int := 0\n  retryOn : Bool := false\n  numRetries : Int := 0\n  responseStarted : Bool := false\n  requestSent : Bool := true\n  oneway : Bool := false\n"
	s += "/-- the full condition under which `setupPerReqTimeout` creates `s.perRetryTimer` (early returns negated, enclosing conditions conjoined) -/\n"
	s += "def armCond (a : ArmState) : Bool :=\n  let _ := a\n  " + armCond + "\n"
	s += "/-- the duration the timer is created with is the request's per-try timeout -/\n"
	s += "def armDurationIsTryTimeout : Bool := " + b(durIsTry) + "\n"
	s += "/-- `onUpstreamRequestSent` (the request of the first attempt is completely sent) calls setupPerReqTimeout under this condition -/\n"
	s += "def requestSentArms (hasUpstreamRequest oneway : Bool) : Bool :=\n  let _ := (hasUpstreamRequest, oneway)\n  " + sentArms + "\n"
	s += "inductive ArmCall where\n  | direct | viaRequestSent | none\nderiving DecidableEq, Repr\n"
	s += "/-- how `doRetry` arms the per-try timer of the attempt it just sent (`globalArmed` = s.responseTimer != nil) -/\n"
	s += "def doRetryCall (globalArmed : Bool) : ArmCall :=\n  let _ := globalArmed\n  " + retryCall + "\n"
	s += "/-- in doRetry the timer is armed after the request of the new attempt was handed to the upstream stream -/\n"
	s += "def doRetryArmsAfterSend : Bool := " + b(afterSend) + "\n"
	s += "/-- the tests of the timer callback that make it return without acting, in order -/\n"
	s += "def callbackGuards : List String := " + q(guards) + "\n"
	s += "def callbackAction : String := \"" + action + "\"\n"
	s += "/-- `onPerReqTimeout`: the condition of its acting block, the response flag set, the reset reason handed to OnResetStream, upstream stream reset -/\n"
	s += "def perTryActsWhen : String := \"" + ptGuard + "\"\n"
	s += "def perTryFlag : String := \"" + ptFlag + "\"\n"
	s += "def perTryReason : String := \"" + ptReason + "\"\n"
	s += "def perTryResetsUpstream : Bool := " + b(ptResets) + "\n"
	s += "/-- `onResponseTimeout` (global timer) -/\n"
	s += "def globalFlag : String := \"" + gtFlag + "\"\n"
	s += "def globalReason : String := \"" + gtReason + "\"\n"
	s += "def globalResetsUpstream : Bool := " + b(gtResets) + "\n"
	s += footer("PerTryArm")
	return s, nil
}
