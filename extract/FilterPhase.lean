-- translation-unsupported FilterPhase: open -out/pkg/types: no such file or directory
namespace MosnVerif.Gen.FilterPhase
end MosnVerif.Gen.FilterPhase
