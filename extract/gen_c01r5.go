package main

// C01 (round 5): two step-order extractions.
//
//   C01RelayOrder  — the calls initializeUpstreamConnection (streamproxy.go) makes on the new upstream connection, in
//                    source order (AddConnectionEventListener / AddReadFilter / Connect / …), the calls
//                    clientConnection.Connect makes (tryConnect / Start / OnEvent) and the calls
//                    activeListener.OnNewConnection makes on the accepted connection and its filter manager
//                    (CreateFilterChain / InitializeReadFilters / Start).
//   C01HttpMethod  — the method decision of the HTTP/1 client stream: every statement of clientStream.AppendHeaders that
//                    writes the method of the forwarded header (SetMethod, FillRequestHeadersFromCtxVar, CopyTo), in
//                    statement order, translated into a Lean function; the same for FillRequestHeadersFromCtxVar; and
//                    whether injectCtxVarFromProtocolHeaders stores the received method in the method variable.
//
// All helpers carry the prefix c01r5.

import (
	"fmt"
	"go/ast"
	"go/token"
	"strconv"
	"strings"
)

func init() {
	register("C01RelayOrder", c01r5GenRelayOrder)
	register("C01HttpMethod", c01r5GenHttpMethod)
}

// c01r5Root returns the root of a selector / call chain as "a" or "a.b" (two levels at most), "" otherwise.
func c01r5Root(e ast.Expr) string {
	switch x := e.(type) {
	case *ast.Ident:
		return x.Name
	case *ast.SelectorExpr:
		if id, ok := x.X.(*ast.Ident); ok {
			return id.Name + "." + x.Sel.Name
		}
		return c01r5Root(x.X)
	case *ast.CallExpr:
		return c01r5Root(x.Fun)
	case *ast.ParenExpr:
		return c01r5Root(x.X)
	}
	return ""
}

// c01r5Calls: the method names of the outermost calls whose receiver chain starts at one of `roots`, in source order.
// `x.FilterManager().AddReadFilter(f)` counts as AddReadFilter (accessor calls in `skip` are looked through).
func c01r5Calls(body *ast.BlockStmt, roots map[string]bool, skip map[string]bool) []string {
	type at struct {
		pos  token.Pos
		name string
	}
	var found []at
	ast.Inspect(body, func(n ast.Node) bool {
		call, ok := n.(*ast.CallExpr)
		if !ok {
			return true
		}
		sel, ok := call.Fun.(*ast.SelectorExpr)
		if !ok {
			return true
		}
		if skip[sel.Sel.Name] {
			return true
		}
		// receiver chain: identifiers, selectors and skipped accessor calls only
		recv := sel.X
		for {
			if c, ok := recv.(*ast.CallExpr); ok {
				s, ok := c.Fun.(*ast.SelectorExpr)
				if !ok || !skip[s.Sel.Name] {
					return true
				}
				recv = s.X
				continue
			}
			break
		}
		root := ""
		switch x := recv.(type) {
		case *ast.Ident:
			root = x.Name
		case *ast.SelectorExpr:
			if id, ok := x.X.(*ast.Ident); ok {
				root = id.Name + "." + x.Sel.Name
			}
		}
		if roots[root] {
			found = append(found, at{call.Pos(), sel.Sel.Name})
		}
		return true
	})
	// ast.Inspect visits in source order of the enclosing nodes; sort by position to be exact
	for i := 1; i < len(found); i++ {
		for j := i; j > 0 && found[j].pos < found[j-1].pos; j-- {
			found[j], found[j-1] = found[j-1], found[j]
		}
	}
	var names []string
	for _, f := range found {
		names = append(names, f.name)
	}
	return names
}

func c01r5LeanList(l []string) string {
	var p []string
	for _, s := range l {
		p = append(p, strconv.Quote(s))
	}
	return "[" + strings.Join(p, ", ") + "]"
}

func c01r5Count(l []string, s string) int {
	n := 0
	for _, x := range l {
		if x == s {
			n++
		}
	}
	return n
}

func c01r5GenRelayOrder() (string, error) {
	const sp = "pkg/filter/network/streamproxy/streamproxy.go"
	const cn = "pkg/network/connection.go"
	const hd = "pkg/server/handler.go"
	f, err := parse(sp)
	if err != nil {
		return "", err
	}
	fd := findFunc(f, "proxy", "initializeUpstreamConnection")
	if fd == nil {
		return "", fmt.Errorf("proxy.initializeUpstreamConnection not found")
	}
	up := c01r5Calls(fd.Body, map[string]bool{"upstreamConnection": true, "p.upstreamConnection": true}, map[string]bool{"FilterManager": true})
	for _, need := range []string{"AddReadFilter", "Connect"} {
		if c01r5Count(up, need) != 1 {
			return "", fmt.Errorf("initializeUpstreamConnection: expected exactly one %s call on the upstream connection, found %d", need, c01r5Count(up, need))
		}
	}
	g, err := parse(cn)
	if err != nil {
		return "", err
	}
	cd := findFunc(g, "clientConnection", "Connect")
	if cd == nil {
		return "", fmt.Errorf("clientConnection.Connect not found")
	}
	cc := c01r5Calls(cd.Body, map[string]bool{"cc": true, "cccb": true}, map[string]bool{})
	if c01r5Count(cc, "Start") != 1 {
		return "", fmt.Errorf("clientConnection.Connect: expected exactly one Start call, found %d", c01r5Count(cc, "Start"))
	}
	h, err := parse(hd)
	if err != nil {
		return "", err
	}
	od := findFunc(h, "activeListener", "OnNewConnection")
	if od == nil {
		return "", fmt.Errorf("activeListener.OnNewConnection not found")
	}
	down := c01r5Calls(od.Body, map[string]bool{"conn": true, "filterManager": true, "nfcf": true}, map[string]bool{"FilterManager": true})
	for _, need := range []string{"CreateFilterChain", "InitializeReadFilters", "Start"} {
		if c01r5Count(down, need) != 1 {
			return "", fmt.Errorf("activeListener.OnNewConnection: expected exactly one %s call, found %d", need, c01r5Count(down, need))
		}
	}
	s := "-- GENERATED by /verif/extract from " + sp + ", " + cn + ", " + hd + " — do not edit; regenerated on every check\n" +
		"namespace MosnVerif.Gen.C01RelayOrder\n"
	s += "/-- calls of proxy.initializeUpstreamConnection on the new upstream connection, in statement order -/\n"
	s += "def upstreamCalls : List String := " + c01r5LeanList(up) + "\n"
	s += "/-- calls of clientConnection.Connect on itself and on its event listeners, in statement order -/\n"
	s += "def connectCalls : List String := " + c01r5LeanList(cc) + "\n"
	s += "/-- calls of activeListener.OnNewConnection on the accepted connection, its filter manager and the filter chain factories -/\n"
	s += "def downstreamCalls : List String := " + c01r5LeanList(down) + "\n"
	s += footer("C01RelayOrder")
	return s, nil
}

// ---------------------------------------------------------------------------------------------------------------------

var c01r5HTTPMethods = map[string]string{"MethodGet": "GET", "MethodHead": "HEAD", "MethodPost": "POST", "MethodPut": "PUT",
	"MethodPatch": "PATCH", "MethodDelete": "DELETE", "MethodConnect": "CONNECT", "MethodOptions": "OPTIONS", "MethodTrace": "TRACE"}

var c01r5IsMethod = map[string]string{"IsGet": "GET", "IsHead": "HEAD", "IsPost": "POST", "IsPut": "PUT", "IsDelete": "DELETE",
	"IsConnect": "CONNECT", "IsOptions": "OPTIONS", "IsTrace": "TRACE", "IsPatch": "PATCH"}

// c01r5M translates the method-writing statements of one function.
type c01r5M struct {
	hdr     string            // the header map variable the function works on ("headers")
	out     string            // the selector the header is copied to ("s.request.Header"), "" when the function has none
	bools   map[string]string // Go identifiers usable as Bool atoms → Lean
	strs    map[string]string // Go identifiers usable as String values → Lean
	varName string            // the variable constant whose GetString binds (method, err)
	fill    bool              // FillRequestHeadersFromCtxVar may be called
}

func (g *c01r5M) exprString(e ast.Expr) string {
	switch x := e.(type) {
	case *ast.Ident:
		return x.Name
	case *ast.SelectorExpr:
		return g.exprString(x.X) + "." + x.Sel.Name
	case *ast.UnaryExpr:
		if x.Op == token.AND {
			return g.exprString(x.X)
		}
	}
	return "?"
}

// what a call does to the method: "set-hdr", "set-out", "fill", "copy", "" (nothing)
func (g *c01r5M) callKind(call *ast.CallExpr) string {
	switch f := call.Fun.(type) {
	case *ast.Ident:
		if f.Name == "FillRequestHeadersFromCtxVar" {
			return "fill"
		}
	case *ast.SelectorExpr:
		recv := g.exprString(f.X)
		switch f.Sel.Name {
		case "SetMethod", "SetMethodBytes":
			if recv == g.hdr {
				return "set-hdr"
			}
			if g.out != "" && recv == g.out {
				return "set-out"
			}
			return "set-unknown"
		case "CopyTo":
			if recv == g.hdr && len(call.Args) == 1 && g.out != "" && g.exprString(call.Args[0]) == g.out {
				return "copy"
			}
		case "Reset":
			if recv == g.hdr || (g.out != "" && (recv == g.out || recv+".Header" == g.out)) {
				return "set-unknown"
			}
		}
	}
	return ""
}

func (g *c01r5M) touches(n ast.Node) bool {
	t := false
	ast.Inspect(n, func(x ast.Node) bool {
		if c, ok := x.(*ast.CallExpr); ok && g.callKind(c) != "" {
			t = true
		}
		return !t
	})
	return t
}

func (g *c01r5M) value(e ast.Expr) (string, error) {
	switch x := e.(type) {
	case *ast.BasicLit:
		if x.Kind == token.STRING {
			s, err := strconv.Unquote(x.Value)
			if err != nil {
				return "", err
			}
			return strconv.Quote(s), nil
		}
	case *ast.SelectorExpr:
		if id, ok := x.X.(*ast.Ident); ok && id.Name == "http" {
			if m, ok := c01r5HTTPMethods[x.Sel.Name]; ok {
				return strconv.Quote(m), nil
			}
		}
	case *ast.Ident:
		if l, ok := g.strs[x.Name]; ok && l != "" {
			return l, nil
		}
	}
	return "", fmt.Errorf("method value %s not supported", exprKey(e))
}

func (g *c01r5M) cond(e ast.Expr, cur string) (string, error) {
	switch x := e.(type) {
	case *ast.ParenExpr:
		return g.cond(x.X, cur)
	case *ast.Ident:
		if l, ok := g.bools[x.Name]; ok && l != "" {
			return l, nil
		}
	case *ast.UnaryExpr:
		if x.Op == token.NOT {
			c, err := g.cond(x.X, cur)
			if err != nil {
				return "", err
			}
			return "(!" + c + ")", nil
		}
	case *ast.CallExpr:
		if sel, ok := x.Fun.(*ast.SelectorExpr); ok && len(x.Args) == 0 {
			if m, ok := c01r5IsMethod[sel.Sel.Name]; ok && g.exprString(sel.X) == g.hdr {
				return "(isMethod " + strconv.Quote(m) + " " + cur + ")", nil
			}
		}
	case *ast.BinaryExpr:
		switch x.Op {
		case token.LAND, token.LOR:
			a, err := g.cond(x.X, cur)
			if err != nil {
				return "", err
			}
			b, err := g.cond(x.Y, cur)
			if err != nil {
				return "", err
			}
			op := " && "
			if x.Op == token.LOR {
				op = " || "
			}
			return "(" + a + op + b + ")", nil
		case token.EQL, token.NEQ:
			neg := x.Op == token.NEQ
			// err == nil
			if id, ok := x.X.(*ast.Ident); ok {
				if y, ok := x.Y.(*ast.Ident); ok && y.Name == "nil" {
					if l, ok := g.bools[id.Name+"==nil"]; ok && l != "" {
						if neg {
							return "(!" + l + ")", nil
						}
						return l, nil
					}
				}
			}
			a, err := g.value(x.X)
			if err != nil {
				return "", err
			}
			b, err := g.value(x.Y)
			if err != nil {
				return "", err
			}
			if neg {
				return "(" + a + " != " + b + ")", nil
			}
			return "(" + a + " == " + b + ")", nil
		}
	}
	return "", fmt.Errorf("condition %s not supported", exprKey(e))
}

// block translates a statement list into Lean `let` lines over the variables m (method in the header map the function
// works on) and out (method in the header the function copies to).  Returns the lines and which of m / out were assigned.
func (g *c01r5M) block(stmts []ast.Stmt, ind string) (string, map[string]bool, error) {
	var sb strings.Builder
	asg := map[string]bool{}
	for _, st := range stmts {
		// bindings of (method, err) from the variable lookup
		if as, ok := st.(*ast.AssignStmt); ok {
			for _, l := range as.Lhs {
				if id, ok := l.(*ast.Ident); ok {
					delete(g.strs, id.Name)
					delete(g.bools, id.Name+"==nil")
				}
			}
			if len(as.Lhs) == 2 && len(as.Rhs) == 1 && g.varName != "" {
				if call, ok := as.Rhs[0].(*ast.CallExpr); ok && exprKey(call.Fun) == "variable.GetString" && len(call.Args) == 2 &&
					exprKey(call.Args[1]) == g.varName {
					if a, ok := as.Lhs[0].(*ast.Ident); ok {
						g.strs[a.Name] = "method"
					}
					if b, ok := as.Lhs[1].(*ast.Ident); ok {
						g.bools[b.Name+"==nil"] = "errNil"
					}
				}
			}
		}
		if !g.touches(st) {
			continue
		}
		switch x := st.(type) {
		case *ast.ExprStmt:
			call, ok := x.X.(*ast.CallExpr)
			if !ok {
				return "", nil, fmt.Errorf("statement %s not supported", exprKey(x.X))
			}
			switch g.callKind(call) {
			case "set-hdr", "set-out":
				if len(call.Args) != 1 {
					return "", nil, fmt.Errorf("SetMethod with %d arguments", len(call.Args))
				}
				v, err := g.value(call.Args[0])
				if err != nil {
					return "", nil, err
				}
				w := "m"
				if g.callKind(call) == "set-out" {
					w = "out"
				}
				fmt.Fprintf(&sb, "%slet %s := %s\n", ind, w, v)
				asg[w] = true
			case "fill":
				if !g.fill {
					return "", nil, fmt.Errorf("FillRequestHeadersFromCtxVar called where it is not expected")
				}
				if len(call.Args) < 2 || g.exprString(call.Args[1]) != g.hdr {
					return "", nil, fmt.Errorf("FillRequestHeadersFromCtxVar is not applied to %s", g.hdr)
				}
				fmt.Fprintf(&sb, "%slet m := fillMethod errNil method m\n", ind)
				asg["m"] = true
			case "copy":
				fmt.Fprintf(&sb, "%slet out := m\n", ind)
				asg["out"] = true
			default:
				return "", nil, fmt.Errorf("call %s writes the method in a way that is not supported", exprKey(call))
			}
		case *ast.IfStmt:
			if x.Init != nil {
				return "", nil, fmt.Errorf("if with an init statement around a method write")
			}
			thenS, a1, err := g.block(x.Body.List, ind+"    ")
			if err != nil {
				return "", nil, err
			}
			elseS, a2 := "", map[string]bool{}
			switch e := x.Else.(type) {
			case nil:
			case *ast.BlockStmt:
				if elseS, a2, err = g.block(e.List, ind+"    "); err != nil {
					return "", nil, err
				}
			case *ast.IfStmt:
				if elseS, a2, err = g.block([]ast.Stmt{e}, ind+"    "); err != nil {
					return "", nil, err
				}
			}
			vars := map[string]bool{}
			for k := range a1 {
				vars[k] = true
			}
			for k := range a2 {
				vars[k] = true
			}
			if len(vars) != 1 {
				return "", nil, fmt.Errorf("an if statement that writes both the working header's and the copied header's method")
			}
			w := "m"
			if vars["out"] {
				w = "out"
			}
			c, err := g.cond(x.Cond, "m")
			if err != nil {
				return "", nil, err
			}
			fmt.Fprintf(&sb, "%slet %s := if %s then (\n%s%s    %s)\n%s  else (\n%s%s    %s)\n", ind, w, c, thenS, ind, w, ind, elseS, ind, w)
			asg[w] = true
		default:
			return "", nil, fmt.Errorf("a method write inside a %T is not supported", st)
		}
	}
	return sb.String(), asg, nil
}

func c01r5GenHttpMethod() (string, error) {
	const src = "pkg/stream/http/stream.go"
	f, err := parse(src)
	if err != nil {
		return "", err
	}
	s := "-- GENERATED by /verif/extract from " + src + " (clientStream.AppendHeaders, FillRequestHeadersFromCtxVar, injectCtxVarFromProtocolHeaders) — do not edit; regenerated on every check\n" +
		"namespace MosnVerif.Gen.C01HttpMethod\n"
	s += "/-- fasthttp's RequestHeader.IsGet/IsPost/…: an unset method (\"\") reads as GET -/\n"
	s += "def isMethod (x m : String) : Bool := m == x || (x == \"GET\" && m == \"\")\n"
	// FillRequestHeadersFromCtxVar(ctx, headers, remoteAddr)
	fl := findFunc(f, "", "FillRequestHeadersFromCtxVar")
	if fl == nil || fl.Type.Params == nil || len(fl.Type.Params.List) < 2 || len(fl.Type.Params.List[1].Names) != 1 {
		return "", fmt.Errorf("FillRequestHeadersFromCtxVar(ctx, headers, …) not found")
	}
	gf := &c01r5M{hdr: fl.Type.Params.List[1].Names[0].Name, bools: map[string]string{}, strs: map[string]string{}, varName: "types.VarMethod"}
	body, _, err := gf.block(fl.Body.List, "  ")
	if err != nil {
		return "", fmt.Errorf("FillRequestHeadersFromCtxVar: %v", err)
	}
	s += "/-- what FillRequestHeadersFromCtxVar does to the method of the header map it is given (`m`); `method`, `errNil`: the\n    result of `variable.GetString(ctx, types.VarMethod)` -/\n"
	s += "def fillMethod (errNil : Bool) (method : String) (m : String) : String :=\n" + body + "  m\n"
	// clientStream.AppendHeaders(context, headersIn, endStream)
	ah := findFunc(f, "clientStream", "AppendHeaders")
	if ah == nil || len(ah.Type.Params.List) != 3 || len(ah.Type.Params.List[2].Names) != 1 {
		return "", fmt.Errorf("clientStream.AppendHeaders(context, headersIn, endStream) not found")
	}
	// the working header map: `headers := headersIn.(mosnhttp.RequestHeader)`
	hdr := ""
	for _, st := range ah.Body.List {
		if as, ok := st.(*ast.AssignStmt); ok && len(as.Lhs) == 1 && len(as.Rhs) == 1 {
			if ta, ok := as.Rhs[0].(*ast.TypeAssertExpr); ok {
				if id, ok := ta.X.(*ast.Ident); ok && id.Name == ah.Type.Params.List[1].Names[0].Name {
					if l, ok := as.Lhs[0].(*ast.Ident); ok {
						hdr = l.Name
					}
				}
			}
		}
	}
	if hdr == "" {
		return "", fmt.Errorf("clientStream.AppendHeaders: the type assertion of the header map was not found")
	}
	ga := &c01r5M{hdr: hdr, out: "s.request.Header", fill: true,
		bools: map[string]string{ah.Type.Params.List[2].Names[0].Name: "endStream"}, strs: map[string]string{}}
	body, asg, err := ga.block(ah.Body.List, "  ")
	if err != nil {
		return "", fmt.Errorf("clientStream.AppendHeaders: %v", err)
	}
	if !asg["out"] {
		return "", fmt.Errorf("clientStream.AppendHeaders: the header map is never copied to the request that is sent")
	}
	s += "/-- the method of the request clientStream.AppendHeaders sends: `m` is the method the header map arrives with (\"\" = unset),\n    `out` the method of the stream's own request header (unset before the copy) -/\n"
	s += "def appendHeadersMethod (endStream : Bool) (errNil : Bool) (method : String) (m : String) : String :=\n  let out := \"\"\n" + body + "  out\n"
	// injectCtxVarFromProtocolHeaders: variable.SetString(ctx, types.VarMethod, string(header.Method()))
	inj := findFunc(f, "", "injectCtxVarFromProtocolHeaders")
	if inj == nil || len(inj.Type.Params.List) < 2 || len(inj.Type.Params.List[1].Names) != 1 {
		return "", fmt.Errorf("injectCtxVarFromProtocolHeaders not found")
	}
	hn := inj.Type.Params.List[1].Names[0].Name
	sets, fromHeader := 0, false
	for _, st := range inj.Body.List { // top level only: an unconditional store
		es, ok := st.(*ast.ExprStmt)
		if !ok {
			continue
		}
		call, ok := es.X.(*ast.CallExpr)
		if !ok || exprKey(call.Fun) != "variable.SetString" || len(call.Args) != 3 || exprKey(call.Args[1]) != "types.VarMethod" {
			continue
		}
		sets++
		if exprKey(call.Args[2]) == "string("+hn+".Method())" {
			fromHeader = true
		}
	}
	ast.Inspect(inj.Body, func(n ast.Node) bool { // any other store of the method variable (conditional, different value)
		if call, ok := n.(*ast.CallExpr); ok && strings.HasPrefix(exprKey(call.Fun), "variable.Set") && len(call.Args) >= 2 && exprKey(call.Args[1]) == "types.VarMethod" {
			sets--
		}
		return true
	})
	s += "/-- injectCtxVarFromProtocolHeaders stores `string(header.Method())` in the method variable, unconditionally and only that -/\n"
	s += fmt.Sprintf("def injectsReceivedMethod : Bool := %v\n", fromHeader && sets == 0)
	s += footer("C01HttpMethod")
	return s, nil
}
