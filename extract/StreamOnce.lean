-- translation-unsupported StreamOnce: open -out/pkg/stream/stream.go: no such file or directory
namespace MosnVerif.Gen.StreamOnce
end MosnVerif.Gen.StreamOnce
