package main

// translate_c13m.go — a statement-by-statement Go -> Lean translator for the string / slice / set code of pkg/mtls'
// context selection (buildMatch, MatchedServerName, MatchedALPN, GetConfigForClient, the ALPN filter of
// tlsConfigTemplate).  Target vocabulary: lean/MosnVerif/Model/TlsMatchBase.lean.
//
// Supported statements: `x := e`, `x = e`, `x op= e`, `x++/--`, `m[k] = struct{}{}` (set insert), `l[i] = e` (slice
// element), `x = append(x, e…)`, `_, ok := m[k]`, `v, err := CALL2(…)`, `var ( x T … )`, `if [init;] c {…} [else …]`,
// `for _, x := range xs {…}`, `for i := range xs {…}`, `for [init]; cond; [post] {…}`, `continue`, `return …`, calls
// listed as effect-free.  Expressions: identifiers / selectors / calls mapped by the job, literals, `len`, `x[i]`,
// `x[i:]`, `x[:j]`, `x[i:j]`, `! - + - * == != < <= > >= && ||`, comparisons with nil of option / error kinds.
// A loop is rendered as `rangeLoop` / `whileLoop` over the tuple of the variables it assigns; `return` inside a loop
// body is `Flow.ret`, falling off the end and `continue` are `Flow.next`.  An `if` without return/continue becomes a
// let of the variables it assigns; an `if` with one duplicates the rest of the block into its branches.
// Anything else (break, goto, labels, switch, defer, closures, shadowing of a variable in scope, an index expression
// on a value of unknown kind, …) is an error => translation-unsupported => broken tie.  All names carry the prefix c13m.

import (
	"fmt"
	"go/ast"
	"go/token"
	"sort"
	"strconv"
	"strings"
)

type c13mTr struct {
	Names  map[string]string // exprKey (identifier, selector, call) -> Lean expression
	Kind   map[string]string // exprKey -> "str" | "list" | "set" | "opt" | "err" (what index / nil tests mean)
	Calls  map[string]func(t *c13mTr, c *ast.CallExpr) (string, error)
	Calls2 map[string]func(t *c13mTr, c *ast.CallExpr) (string, error) // (value, error) calls -> Lean `Option _`
	Skip   map[string]bool                                            // call statements without effect on the model
	VarTy  map[string]string                                          // Go type (printed) of `var x T` -> kind
	RetTy  string                                                     // Lean type of the function's result
	Ret    func(t *c13mTr, rs []ast.Expr) (string, error)
	Fall   string   // Lean result when the function body falls off its end ("" = unsupported)
	Fuel   []string // termination measures of the `for cond` loops, in source order (Lean Nat expressions)
	fuelIx int
	initScoped map[string]bool // names introduced by an if-init (dead after their if: may be introduced again)
}

// rendering context: 0 = function level, 1 = loop body, 2 = inside an if rendered as a value
type c13mCx struct {
	mode  int
	state []string
	post  ast.Stmt
}

func c13mTuple(vars []string) string {
	switch len(vars) {
	case 0:
		return "()"
	case 1:
		return vars[0]
	}
	return "(" + strings.Join(vars, ", ") + ")"
}

// c13mUnpack renders the lets that re-bind the variables of a state tuple named `st`.
func c13mUnpack(vars []string, st, ind string) string {
	if len(vars) < 2 {
		return ""
	}
	s := ""
	for i, v := range vars {
		p := st
		for k := 0; k < i; k++ {
			p += ".2"
		}
		if i < len(vars)-1 {
			p += ".1"
		}
		s += "let " + v + " := " + p + "\n" + ind
	}
	return s
}

func c13mBinder(vars []string) string {
	switch len(vars) {
	case 0:
		return "_u"
	case 1:
		return vars[0]
	}
	return "st"
}

func (t *c13mTr) kindOf(e ast.Expr) string { return t.Kind[exprKey(e)] }

func c13mIsNil(e ast.Expr) bool {
	id, ok := e.(*ast.Ident)
	return ok && id.Name == "nil"
}

func c13mStrLit(e ast.Expr) (string, bool) {
	bl, ok := e.(*ast.BasicLit)
	if !ok || bl.Kind != token.STRING {
		return "", false
	}
	s, err := strconv.Unquote(bl.Value)
	if err != nil {
		return "", false
	}
	for _, r := range s {
		if r < 0x20 || r > 0x7e {
			return "", false
		}
	}
	return s, true
}

// c13mLeanStr renders a printable-ASCII Go string literal as a `List Char` literal.
func c13mLeanStr(s string) string {
	if s == "" {
		return "([] : Str)"
	}
	var cs []string
	for _, r := range s {
		switch r {
		case '\'':
			cs = append(cs, "'\\''")
		case '\\':
			cs = append(cs, "'\\\\'")
		default:
			cs = append(cs, "'"+string(r)+"'")
		}
	}
	return "([" + strings.Join(cs, ", ") + "] : Str)"
}

func (t *c13mTr) ex(e ast.Expr) (string, error) {
	switch x := e.(type) {
	case *ast.ParenExpr:
		s, err := t.ex(x.X)
		return "(" + s + ")", err
	case *ast.BasicLit:
		switch x.Kind {
		case token.INT:
			return "(" + x.Value + " : Int)", nil
		case token.STRING:
			if s, ok := c13mStrLit(x); ok {
				return c13mLeanStr(s), nil
			}
		case token.CHAR:
			r, _, _, err := strconv.UnquoteChar(x.Value[1:len(x.Value)-1], '\'')
			if err == nil && r >= 0x20 && r <= 0x7e && r != '\'' && r != '\\' {
				return "'" + string(r) + "'", nil
			}
		}
		return "", fmt.Errorf("literal %s", x.Value)
	case *ast.Ident:
		if x.Name == "true" || x.Name == "false" {
			return x.Name, nil
		}
		if n, ok := t.Names[x.Name]; ok {
			return n, nil
		}
		return "", fmt.Errorf("unknown identifier %s", x.Name)
	case *ast.SelectorExpr:
		if n, ok := t.Names[exprKey(x)]; ok {
			return n, nil
		}
		return "", fmt.Errorf("unknown selector %s", exprKey(x))
	case *ast.UnaryExpr:
		s, err := t.ex(x.X)
		if err != nil {
			return "", err
		}
		switch x.Op {
		case token.NOT:
			return "(!" + s + ")", nil
		case token.SUB:
			return "(-" + s + ")", nil
		}
		return "", fmt.Errorf("unary %v", x.Op)
	case *ast.BinaryExpr:
		if x.Op == token.EQL || x.Op == token.NEQ {
			a, b := x.X, x.Y
			if c13mIsNil(a) {
				a, b = b, a
			}
			if c13mIsNil(b) {
				s, err := t.ex(a)
				if err != nil {
					return "", err
				}
				switch t.kindOf(a) {
				case "opt":
					if x.Op == token.EQL {
						return s + ".isNone", nil
					}
					return s + ".isSome", nil
				case "err":
					if x.Op == token.EQL {
						return "(!" + s + ")", nil
					}
					return s, nil
				}
				return "", fmt.Errorf("nil test of %s (unknown kind)", exprKey(a))
			}
		}
		l, err := t.ex(x.X)
		if err != nil {
			return "", err
		}
		r, err := t.ex(x.Y)
		if err != nil {
			return "", err
		}
		_, ls := c13mStrLit(x.X)
		_, rs := c13mStrLit(x.Y)
		isStr := ls || rs || t.kindOf(x.X) == "str" || t.kindOf(x.Y) == "str"
		switch x.Op {
		case token.ADD:
			if isStr {
				return "(" + l + " ++ " + r + ")", nil
			}
			return "(" + l + " + " + r + ")", nil
		case token.SUB:
			return "(" + l + " - " + r + ")", nil
		case token.MUL:
			return "(" + l + " * " + r + ")", nil
		case token.EQL:
			return "(" + l + " == " + r + ")", nil
		case token.NEQ:
			return "(" + l + " != " + r + ")", nil
		case token.LSS:
			return "(decide (" + l + " < " + r + "))", nil
		case token.LEQ:
			return "(decide (" + l + " ≤ " + r + "))", nil
		case token.GTR:
			return "(decide (" + l + " > " + r + "))", nil
		case token.GEQ:
			return "(decide (" + l + " ≥ " + r + "))", nil
		case token.LAND:
			return "(" + l + " && " + r + ")", nil
		case token.LOR:
			return "(" + l + " || " + r + ")", nil
		}
		return "", fmt.Errorf("binary %v", x.Op)
	case *ast.CallExpr:
		if n, ok := t.Names[callKey(x)]; ok {
			return n, nil
		}
		head := exprKey(x.Fun)
		if head == "len" && len(x.Args) == 1 {
			s, err := t.ex(x.Args[0])
			if err != nil {
				return "", err
			}
			if t.kindOf(x.Args[0]) == "set" {
				return "", fmt.Errorf("len of a set")
			}
			return "(len " + s + ")", nil
		}
		if f, ok := t.Calls[head]; ok {
			return f(t, x)
		}
		return "", fmt.Errorf("unsupported call %s", head)
	case *ast.IndexExpr:
		s, err := t.ex(x.X)
		if err != nil {
			return "", err
		}
		i, err := t.ex(x.Index)
		if err != nil {
			return "", err
		}
		switch t.kindOf(x.X) {
		case "str":
			return "(byteAt " + s + " " + i + ")", nil
		case "list":
			return "(listAt " + s + " " + i + ")", nil
		}
		return "", fmt.Errorf("index of %s (kind %q)", exprKey(x.X), t.kindOf(x.X))
	case *ast.SliceExpr:
		if x.Slice3 {
			return "", fmt.Errorf("three-index slice")
		}
		if k := t.kindOf(x.X); k != "str" && k != "list" {
			return "", fmt.Errorf("slice of %s (kind %q)", exprKey(x.X), k)
		}
		s, err := t.ex(x.X)
		if err != nil {
			return "", err
		}
		lo, hi := "", ""
		if x.Low != nil {
			if lo, err = t.ex(x.Low); err != nil {
				return "", err
			}
		}
		if x.High != nil {
			if hi, err = t.ex(x.High); err != nil {
				return "", err
			}
		}
		switch {
		case lo != "" && hi != "":
			return "(sliceFromTo " + s + " " + lo + " " + hi + ")", nil
		case lo != "":
			return "(sliceFrom " + s + " " + lo + ")", nil
		case hi != "":
			return "(sliceTo " + s + " " + hi + ")", nil
		}
		return s, nil
	}
	return "", fmt.Errorf("unsupported expression %T", e)
}

// c13mControl: the node contains a return / continue (anything that leaves the statement other than by its end).
func c13mControl(n ast.Node) bool {
	found := false
	ast.Inspect(n, func(m ast.Node) bool {
		switch m.(type) {
		case *ast.ReturnStmt, *ast.BranchStmt:
			found = true
		case *ast.FuncLit:
			return false
		}
		return !found
	})
	return found
}

// c13mAssigned: the variables in scope (keys of t.Names that are plain identifiers or mapped selectors) that the node
// assigns, sorted.
func (t *c13mTr) c13mAssigned(nodes ...ast.Node) []string {
	set := map[string]bool{}
	add := func(e ast.Expr) {
		if ix, ok := e.(*ast.IndexExpr); ok {
			e = ix.X
		}
		k := exprKey(e)
		if v, ok := t.Names[k]; ok && k != "_" {
			set[v] = true
		}
	}
	for _, n := range nodes {
		if n == nil {
			continue
		}
		ast.Inspect(n, func(m ast.Node) bool {
			switch x := m.(type) {
			case *ast.AssignStmt:
				if x.Tok != token.DEFINE {
					for _, l := range x.Lhs {
						add(l)
					}
				}
			case *ast.IncDecStmt:
				add(x.X)
			}
			return true
		})
	}
	var out []string
	for k := range set {
		out = append(out, k)
	}
	sort.Strings(out)
	return out
}

func (t *c13mTr) save() (map[string]string, map[string]string) {
	return copyNames(t.Names), copyNames(t.Kind)
}

func (t *c13mTr) restore(n, k map[string]string) { t.Names, t.Kind = n, k }

// c13mLeanName: Go identifiers that are Lean keywords / tokens get a trailing underscore.
func c13mLeanName(n string) string {
	switch n {
	case "matches", "at", "from", "have", "show", "end", "open", "then", "do", "fun", "match", "with", "in", "where", "instance",
		"deriving", "by", "using", "let", "section", "namespace", "theorem", "def", "mutual", "prefix", "infix", "notation",
		"macro", "syntax", "universe", "variable", "example", "structure", "class", "inductive", "abbrev", "opaque", "axiom",
		"private", "protected", "partial", "unsafe", "calc", "exact", "suffices", "obtain", "assume", "forall", "exists",
		"Type", "Prop", "Sort", "st", "r", "extraFuel", "_u", "_x":
		return n + "_"
	}
	return n
}

// define introduces a new local variable.
func (t *c13mTr) define(name, kind string, fromInit bool) error {
	if name == "_" {
		return nil
	}
	if _, ok := t.Names[name]; ok && !t.initScoped[name] {
		return fmt.Errorf("definition of %s shadows / re-declares a name in scope", name)
	}
	t.Names[name] = c13mLeanName(name)
	if kind != "" {
		t.Kind[name] = kind
	} else {
		delete(t.Kind, name)
	}
	if t.initScoped == nil {
		t.initScoped = map[string]bool{}
	}
	t.initScoped[name] = fromInit
	return nil
}

// kindOfRHS guesses the kind of a freshly defined variable from the expression it is defined by; elemKindOfRHS the
// kind of its elements (for slices).
func (t *c13mTr) kindOfRHS(e ast.Expr) string {
	switch x := e.(type) {
	case *ast.ParenExpr:
		return t.kindOfRHS(x.X)
	case *ast.BasicLit:
		if x.Kind == token.STRING {
			return "str"
		}
	case *ast.Ident, *ast.SelectorExpr:
		return t.Kind[exprKey(e)]
	case *ast.SliceExpr:
		return t.kindOf(x.X)
	case *ast.IndexExpr:
		return t.Kind[exprKey(x.X)+"[]"]
	case *ast.CallExpr:
		return t.Kind[exprKey(x.Fun)+"()"]
	case *ast.BinaryExpr:
		if x.Op == token.ADD && (t.kindOfRHS(x.X) == "str" || t.kindOfRHS(x.Y) == "str") {
			return "str"
		}
	}
	return ""
}

func (t *c13mTr) elemKindOfRHS(e ast.Expr) string {
	switch x := e.(type) {
	case *ast.ParenExpr:
		return t.elemKindOfRHS(x.X)
	case *ast.Ident, *ast.SelectorExpr:
		return t.Kind[exprKey(e)+"[]"]
	case *ast.SliceExpr:
		return t.elemKindOfRHS(x.X)
	case *ast.CallExpr:
		return t.Kind[exprKey(x.Fun)+"()[]"]
	}
	return ""
}

func (t *c13mTr) wrapRet(cx c13mCx, v string) (string, error) {
	switch cx.mode {
	case 0:
		return v, nil
	case 1:
		return "Flow.ret (" + v + ")", nil
	}
	return "", fmt.Errorf("return inside a value-if")
}

// fall renders the end of the current block.
func (t *c13mTr) fall(cx c13mCx, ind string) (string, error) {
	switch cx.mode {
	case 0:
		if t.Fall == "" {
			return "", fmt.Errorf("function falls off its end")
		}
		return t.Fall, nil
	case 1:
		if cx.post != nil {
			c2 := cx
			c2.post = nil
			return t.block([]ast.Stmt{cx.post}, c2, ind)
		}
		return "Flow.next " + c13mTuple(cx.state), nil
	}
	return c13mTuple(cx.state), nil
}

// assign renders one assignment-like statement as `let … := …` lines (without the continuation).
func (t *c13mTr) assign(x *ast.AssignStmt, fromInit bool, ind string) (string, error) {
	if len(x.Lhs) == 2 && len(x.Rhs) == 1 && x.Tok == token.DEFINE {
		v, flag := exprKey(x.Lhs[0]), exprKey(x.Lhs[1])
		if ix, ok := x.Rhs[0].(*ast.IndexExpr); ok && t.kindOf(ix.X) == "set" {
			if v != "_" {
				return "", fmt.Errorf("value of a set lookup used")
			}
			m, err := t.ex(ix.X)
			if err != nil {
				return "", err
			}
			k, err := t.ex(ix.Index)
			if err != nil {
				return "", err
			}
			if err := t.define(flag, "", fromInit); err != nil {
				return "", err
			}
			return "let " + t.Names[flag] + " := (mapHas " + m + " " + k + ")\n" + ind, nil
		}
		if c, ok := x.Rhs[0].(*ast.CallExpr); ok {
			if f, ok := t.Calls2[exprKey(c.Fun)]; ok {
				o, err := f(t, c)
				if err != nil {
					return "", err
				}
				s := ""
				if flag != "_" {
					if err := t.define(flag, "err", fromInit); err != nil {
						return "", err
					}
					s += "let " + t.Names[flag] + " := " + o + ".isNone\n" + ind
				}
				if v != "_" {
					if err := t.define(v, t.Kind[exprKey(c.Fun)+"()"], fromInit); err != nil {
						return "", err
					}
					s += "let " + t.Names[v] + " := " + o + ".getD default\n" + ind
				}
				return s, nil
			}
		}
		return "", fmt.Errorf("unsupported two-value definition %s", exprKey(x.Rhs[0]))
	}
	if len(x.Lhs) != 1 || len(x.Rhs) != 1 {
		return "", fmt.Errorf("multi-assign")
	}
	lhs, rhs := x.Lhs[0], x.Rhs[0]
	// m[k] = struct{}{}   /   l[i] = e
	if ix, ok := lhs.(*ast.IndexExpr); ok {
		if x.Tok != token.ASSIGN {
			return "", fmt.Errorf("index assignment with %v", x.Tok)
		}
		base, ok := t.Names[exprKey(ix.X)]
		if !ok {
			return "", fmt.Errorf("assignment into unknown %s", exprKey(ix.X))
		}
		i, err := t.ex(ix.Index)
		if err != nil {
			return "", err
		}
		switch t.kindOf(ix.X) {
		case "set":
			cl, ok := rhs.(*ast.CompositeLit)
			if !ok || len(cl.Elts) != 0 {
				return "", fmt.Errorf("set insert of a non-empty value")
			}
			if st, ok := cl.Type.(*ast.StructType); !ok || st.Fields.NumFields() != 0 {
				return "", fmt.Errorf("set insert of a non-empty value")
			}
			return "let " + base + " := (mapInsert " + base + " " + i + ")\n" + ind, nil
		case "list":
			v, err := t.ex(rhs)
			if err != nil {
				return "", err
			}
			return "let " + base + " := (setAt " + base + " " + i + " " + v + ")\n" + ind, nil
		}
		return "", fmt.Errorf("index assignment into %s (kind %q)", exprKey(ix.X), t.kindOf(ix.X))
	}
	lk := exprKey(lhs)
	var val string
	kind := ""
	switch {
	case isC13mMakeSet(rhs):
		val, kind = "([] : List Str)", "set"
	case isC13mAppend(rhs) != nil:
		c := isC13mAppend(rhs)
		if exprKey(c.Args[0]) != lk || x.Tok != token.ASSIGN || c.Ellipsis != token.NoPos {
			return "", fmt.Errorf("append that is not `x = append(x, e…)`")
		}
		base, err := t.ex(c.Args[0])
		if err != nil {
			return "", err
		}
		var es []string
		for _, a := range c.Args[1:] {
			s, err := t.ex(a)
			if err != nil {
				return "", err
			}
			es = append(es, s)
		}
		val = "(" + base + " ++ [" + strings.Join(es, ", ") + "])"
	default:
		if x.Tok != token.DEFINE && t.kindOf(lhs) == "opt" {
			if c13mIsNil(rhs) {
				val = "none"
			} else {
				s, err := t.ex(rhs)
				if err != nil {
					return "", err
				}
				if t.kindOf(rhs) == "opt" {
					val = s
				} else {
					val = "(some " + s + ")"
				}
			}
			break
		}
		s, err := t.ex(rhs)
		if err != nil {
			return "", err
		}
		val, kind = s, t.kindOfRHS(rhs)
	}
	switch x.Tok {
	case token.DEFINE:
		if _, ok := lhs.(*ast.Ident); !ok {
			return "", fmt.Errorf("definition of a non-identifier")
		}
		if err := t.define(lk, kind, fromInit); err != nil {
			return "", err
		}
		if ek := t.elemKindOfRHS(rhs); ek != "" {
			t.Kind[lk+"[]"] = ek
		} else {
			delete(t.Kind, lk+"[]")
		}
		return "let " + t.Names[lk] + " := " + val + "\n" + ind, nil
	case token.ASSIGN, token.ADD_ASSIGN, token.SUB_ASSIGN:
		name, ok := t.Names[lk]
		if !ok {
			return "", fmt.Errorf("assignment to unknown %s", lk)
		}
		if x.Tok == token.ADD_ASSIGN {
			if t.kindOf(lhs) == "str" {
				val = "(" + name + " ++ " + val + ")"
			} else {
				val = "(" + name + " + " + val + ")"
			}
		}
		if x.Tok == token.SUB_ASSIGN {
			val = "(" + name + " - " + val + ")"
		}
		return "let " + name + " := " + val + "\n" + ind, nil
	}
	return "", fmt.Errorf("assign op %v", x.Tok)
}

func isC13mMakeSet(e ast.Expr) bool {
	c, ok := e.(*ast.CallExpr)
	if !ok || exprKey(c.Fun) != "make" || len(c.Args) != 1 {
		return false
	}
	m, ok := c.Args[0].(*ast.MapType)
	if !ok || exprKey(m.Key) != "string" {
		return false
	}
	st, ok := m.Value.(*ast.StructType)
	return ok && st.Fields.NumFields() == 0
}

func isC13mAppend(e ast.Expr) *ast.CallExpr {
	c, ok := e.(*ast.CallExpr)
	if !ok || exprKey(c.Fun) != "append" || len(c.Args) < 2 {
		return nil
	}
	return c
}

func c13mEndsControl(l []ast.Stmt) bool {
	if len(l) == 0 {
		return false
	}
	switch x := l[len(l)-1].(type) {
	case *ast.ReturnStmt:
		return true
	case *ast.BranchStmt:
		return x.Tok == token.CONTINUE && x.Label == nil
	case *ast.IfStmt:
		eb, ok := x.Else.(*ast.BlockStmt)
		return ok && c13mEndsControl(x.Body.List) && c13mEndsControl(eb.List)
	}
	return false
}

// block renders a statement list in continuation style.
func (t *c13mTr) block(stmts []ast.Stmt, cx c13mCx, ind string) (string, error) {
	if len(stmts) == 0 {
		return t.fall(cx, ind)
	}
	s, rest := stmts[0], stmts[1:]
	switch x := s.(type) {
	case *ast.EmptyStmt:
		return t.block(rest, cx, ind)
	case *ast.BlockStmt:
		return "", fmt.Errorf("nested block")
	case *ast.AssignStmt:
		a, err := t.assign(x, false, ind)
		if err != nil {
			return "", err
		}
		k, err := t.block(rest, cx, ind)
		return a + k, err
	case *ast.IncDecStmt:
		name, ok := t.Names[exprKey(x.X)]
		if !ok {
			return "", fmt.Errorf("incdec of unknown %s", exprKey(x.X))
		}
		op := " + "
		if x.Tok == token.DEC {
			op = " - "
		}
		k, err := t.block(rest, cx, ind)
		return "let " + name + " := (" + name + op + "1)\n" + ind + k, err
	case *ast.DeclStmt:
		gd, ok := x.Decl.(*ast.GenDecl)
		if !ok || gd.Tok != token.VAR {
			return "", fmt.Errorf("declaration other than var")
		}
		out := ""
		for _, sp := range gd.Specs {
			vs := sp.(*ast.ValueSpec)
			if len(vs.Values) != 0 || vs.Type == nil {
				return "", fmt.Errorf("var with initialiser / without type")
			}
			kind, ok := t.VarTy[exprKey(vs.Type)]
			if !ok || kind != "opt" {
				return "", fmt.Errorf("var of type %s", exprKey(vs.Type))
			}
			for _, n := range vs.Names {
				if err := t.define(n.Name, "opt", false); err != nil {
					return "", err
				}
				out += "let " + t.Names[n.Name] + " := (none : " + t.VarTy[exprKey(vs.Type)+":lean"] + ")\n" + ind
			}
		}
		k, err := t.block(rest, cx, ind)
		return out + k, err
	case *ast.ExprStmt:
		if c, ok := x.X.(*ast.CallExpr); ok && t.Skip[exprKey(c.Fun)] {
			return t.block(rest, cx, ind)
		}
		return "", fmt.Errorf("unsupported expression statement %s", exprKey(x.X))
	case *ast.ReturnStmt:
		v, err := t.Ret(t, x.Results)
		if err != nil {
			return "", err
		}
		return t.wrapRet(cx, v)
	case *ast.BranchStmt:
		if x.Tok == token.CONTINUE && x.Label == nil && cx.mode == 1 {
			return t.fall(cx, ind)
		}
		return "", fmt.Errorf("branch statement %v", x.Tok)
	case *ast.IfStmt:
		return t.ifStmt(x, rest, cx, ind)
	case *ast.RangeStmt:
		return t.rangeStmt(x, rest, cx, ind)
	case *ast.ForStmt:
		return t.forStmt(x, rest, cx, ind)
	}
	return "", fmt.Errorf("unsupported statement %T", s)
}

func c13mElse(x *ast.IfStmt) ([]ast.Stmt, error) {
	switch eb := x.Else.(type) {
	case nil:
		return nil, nil
	case *ast.BlockStmt:
		return eb.List, nil
	case *ast.IfStmt:
		return []ast.Stmt{eb}, nil
	}
	return nil, fmt.Errorf("else form")
}

func (t *c13mTr) ifStmt(x *ast.IfStmt, rest []ast.Stmt, cx c13mCx, ind string) (string, error) {
	pre := ""
	outerN, outerK := t.save()
	if x.Init != nil {
		as, ok := x.Init.(*ast.AssignStmt)
		if !ok || as.Tok != token.DEFINE {
			return "", fmt.Errorf("if-init is not a definition")
		}
		a, err := t.assign(as, true, ind)
		if err != nil {
			return "", err
		}
		pre = a
	}
	c, err := t.ex(x.Cond)
	if err != nil {
		return "", err
	}
	els, err := c13mElse(x)
	if err != nil {
		return "", err
	}
	if !c13mControl(x.Body) && (x.Else == nil || !c13mControl(x.Else)) {
		// value-if: a let of the variables it assigns
		vars := t.c13mAssigned(x.Body, x.Else)
		sub := c13mCx{mode: 2, state: vars}
		n, k := t.save()
		th, err := t.block(x.Body.List, sub, ind+"    ")
		if err != nil {
			return "", err
		}
		t.restore(copyNames(n), copyNames(k))
		el, err := t.block(els, sub, ind+"    ")
		if err != nil {
			return "", err
		}
		t.restore(outerN, outerK)
		kk, err := t.block(rest, cx, ind)
		if err != nil {
			return "", err
		}
		if len(vars) == 0 {
			return kk, nil
		}
		b := c13mBinder(vars)
		return pre + "let " + b + " := (if " + c + " then\n" + ind + "    " + th + "\n" + ind + "  else\n" + ind + "    " + el + ")\n" + ind +
			c13mUnpack(vars, b, ind) + kk, nil
	}
	// control-if: the rest of the block goes into the branches that do not leave
	n, k := t.save()
	thenStmts := x.Body.List
	if !c13mEndsControl(thenStmts) {
		thenStmts = append(append([]ast.Stmt{}, thenStmts...), rest...)
	}
	th, err := t.block(thenStmts, cx, ind+"  ")
	if err != nil {
		return "", err
	}
	t.restore(n, k)
	elseStmts := els
	if !c13mEndsControl(elseStmts) {
		elseStmts = append(append([]ast.Stmt{}, elseStmts...), rest...)
	}
	el, err := t.block(elseStmts, cx, ind+"  ")
	if err != nil {
		return "", err
	}
	t.restore(outerN, outerK)
	return pre + "if " + c + " then\n" + ind + "  " + th + "\n" + ind + "else\n" + ind + "  " + el, nil
}

// loop renders `match LOOP with | Flow.ret r => … | Flow.next st => rest`.
func (t *c13mTr) loopMatch(loop string, vars []string, rest []ast.Stmt, cx c13mCx, ind string) (string, error) {
	r, err := t.wrapRet(c13mCx{mode: cx.mode}, "r")
	if err != nil {
		return "", err
	}
	k, err := t.block(rest, cx, ind+"  ")
	if err != nil {
		return "", err
	}
	return "(match " + loop + " with\n" + ind + "| Flow.ret r => " + r + "\n" + ind + "| Flow.next " + c13mBinder(vars) + " =>\n" + ind + "  " +
		c13mUnpack(vars, "st", ind+"  ") + k + ")", nil
}

func (t *c13mTr) rangeStmt(x *ast.RangeStmt, rest []ast.Stmt, cx c13mCx, ind string) (string, error) {
	if cx.mode == 2 {
		return "", fmt.Errorf("loop inside a value-if")
	}
	if x.Tok != token.DEFINE {
		return "", fmt.Errorf("range without :=")
	}
	xs, err := t.ex(x.X)
	if err != nil {
		return "", err
	}
	if t.kindOf(x.X) != "list" {
		return "", fmt.Errorf("range over %s (kind %q)", exprKey(x.X), t.kindOf(x.X))
	}
	n, k := t.save()
	var v string
	keyName, valName := "", ""
	if id, ok := x.Key.(*ast.Ident); ok && id.Name != "_" {
		keyName = id.Name
	} else if x.Key != nil && !ok {
		return "", fmt.Errorf("range key")
	}
	if x.Value != nil {
		id, ok := x.Value.(*ast.Ident)
		if !ok {
			return "", fmt.Errorf("range value")
		}
		if id.Name != "_" {
			valName = id.Name
		}
	}
	vars := t.c13mAssigned(x.Body)
	switch {
	case keyName != "" && valName != "":
		return "", fmt.Errorf("range with key and value")
	case keyName != "":
		if err := t.define(keyName, "", false); err != nil {
			return "", err
		}
		v, xs = t.Names[keyName], "(idxRange "+xs+")"
	case valName != "":
		if err := t.define(valName, t.Kind[exprKey(x.X)+"[]"], false); err != nil {
			return "", err
		}
		v = t.Names[valName]
	default:
		v = "_x"
	}
	body, err := t.block(x.Body.List, c13mCx{mode: 1, state: vars}, ind+"    ")
	if err != nil {
		return "", err
	}
	t.restore(n, k)
	loop := "rangeLoop (ρ := " + t.RetTy + ") " + xs + " (fun " + v + " " + c13mBinder(vars) + " =>\n" + ind + "    " +
		c13mUnpack(vars, "st", ind+"    ") + body + ") " + c13mTuple(vars)
	return t.loopMatch(loop, vars, rest, cx, ind)
}

func (t *c13mTr) forStmt(x *ast.ForStmt, rest []ast.Stmt, cx c13mCx, ind string) (string, error) {
	if cx.mode == 2 {
		return "", fmt.Errorf("loop inside a value-if")
	}
	if x.Cond == nil {
		return "", fmt.Errorf("for without condition")
	}
	if t.fuelIx >= len(t.Fuel) {
		return "", fmt.Errorf("a `for cond` loop without a termination measure (loop %d)", t.fuelIx)
	}
	n, k := t.save()
	pre := ""
	if x.Init != nil {
		as, ok := x.Init.(*ast.AssignStmt)
		if !ok || as.Tok != token.DEFINE || len(as.Lhs) != 1 {
			return "", fmt.Errorf("for-init is not a single definition")
		}
		a, err := t.assign(as, false, ind)
		if err != nil {
			return "", err
		}
		pre = a
	}
	fuel := t.Fuel[t.fuelIx]
	t.fuelIx++
	var post ast.Stmt
	if x.Post != nil {
		post = x.Post
	}
	vars := t.c13mAssigned(x.Body, post)
	c, err := t.ex(x.Cond)
	if err != nil {
		return "", err
	}
	body, err := t.block(x.Body.List, c13mCx{mode: 1, state: vars, post: post}, ind+"    ")
	if err != nil {
		return "", err
	}
	b := c13mBinder(vars)
	loop := "whileLoop (ρ := " + t.RetTy + ") ((" + fuel + ") + extraFuel) (fun " + b + " =>\n" + ind + "    " +
		c13mUnpack(vars, "st", ind+"    ") + c + ") (fun " + b + " =>\n" + ind + "    " +
		c13mUnpack(vars, "st", ind+"    ") + body + ") " + c13mTuple(vars)
	m, err := t.loopMatch(loop, vars, rest, cx, ind)
	if err != nil {
		return "", err
	}
	// the variables of the init clause go out of scope with the loop; the rest was rendered with them visible, which
	// Go would have rejected had it used them
	t.restore(n, k)
	return pre + m, nil
}
