-- translation-unsupported Route: open -out/pkg/types: no such file or directory
namespace MosnVerif.Gen.Route
end MosnVerif.Gen.Route
