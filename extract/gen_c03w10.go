package main

// Gen module ProxyReplyWrite (C03, c03w10: the reply write path can fail).
//
// The three functions of pkg/proxy/downstream.go that write a reply part to the downstream sender —
// appendHeaders(endStream), appendData(endStream), appendTrailers() — are translated, statement by statement, into
// guarded step programs over a CLOSED vocabulary:
//
//	store v        s.upstreamProcessDone.Store(v)          v: endStream | true | false
//	call           the sender call of the part (s.responseSender.AppendHeaders / AppendData / AppendTrailers); its
//	               error is the register `failed` from then on (whether or not the Go code looks at it)
//	endStream      s.endStream()       cleanStream  s.cleanStream()       resetStream  s.resetStream()
//	ret            return  (an early return on an error path is a STEP of the program)
//
// every step carries the conjunction of the `if` conditions around it (atoms: endStream, err != nil). Anything else in
// these functions (a defer, a goroutine, a sender call inside a conditional, another callee) is a translation error: the
// tie is broken, never silently stale.
//
// The callers' sequence: the three cases UpRecvHeader / UpRecvData / UpRecvTrailer of downStream.receive (which part is
// written for a reply with / without body / trailers, with which endStream argument, each followed by processError),
// upstreamRequest.receiveHeaders / receiveData / receiveTrailers (the entry guard `processDone() || setupRetry`) and
// downStream.onUpstreamHeaders / onUpstreamData / onUpstreamTrailers (they end in the append function of their part
// and pass endStream on unchanged); endStream (unconditional cleanStream) and cleanStream itself (the compare-and-swap on
// downstreamCleaned first, then the steps of its body in order: upstream reset unless done, cleanUp, metrics — the active
// gauges —, tracing, access log, filters, delete — the active-stream list —, giveStream). The reply shape of MOSN's own replies (sendHijackReply clears data and trailers)
// is the existing Gen module ProxyReply.

import (
	"fmt"
	"go/ast"
	"go/token"
	"strings"
)

func init() { register("ProxyReplyWrite", c03wGenProxyReplyWrite) }

type c03wStep struct{ guard, act string }

func c03wIsLog(st ast.Stmt) bool {
	switch x := st.(type) {
	case *ast.IfStmt:
		return x.Init == nil && x.Else == nil && strings.HasPrefix(src(x.Cond), "log.") && c03wAllLog(x.Body.List)
	case *ast.ExprStmt:
		if ce, ok := x.X.(*ast.CallExpr); ok {
			return strings.HasPrefix(src(ce.Fun), "log.")
		}
	}
	return false
}

func c03wAllLog(l []ast.Stmt) bool {
	for _, st := range l {
		if !c03wIsLog(st) {
			return false
		}
	}
	return true
}

func c03wAnd(a, b string) string {
	if a == ".tt" {
		return b
	}
	if b == ".tt" {
		return a
	}
	return "(.and " + a + " " + b + ")"
}

func c03wNot(a string) string { return "(.not " + a + ")" }

// c03wCond translates a condition over the atoms endStream / err != nil / err == nil.
func c03wCond(e ast.Expr, hasEos bool) (string, error) {
	switch x := e.(type) {
	case *ast.ParenExpr:
		return c03wCond(x.X, hasEos)
	case *ast.Ident:
		switch x.Name {
		case "endStream":
			if !hasEos {
				return "", fmt.Errorf("endStream is not a parameter here")
			}
			return ".eos", nil
		case "true":
			return ".tt", nil
		case "false":
			return c03wNot(".tt"), nil
		}
	case *ast.UnaryExpr:
		if x.Op == token.NOT {
			c, err := c03wCond(x.X, hasEos)
			if err != nil {
				return "", err
			}
			return c03wNot(c), nil
		}
	case *ast.BinaryExpr:
		switch x.Op {
		case token.LAND, token.LOR:
			a, err := c03wCond(x.X, hasEos)
			if err != nil {
				return "", err
			}
			b, err := c03wCond(x.Y, hasEos)
			if err != nil {
				return "", err
			}
			if x.Op == token.LAND {
				return "(.and " + a + " " + b + ")", nil
			}
			return "(.or " + a + " " + b + ")", nil
		case token.NEQ, token.EQL:
			l, r := src(x.X), src(x.Y)
			if (l == "err" && r == "nil") || (l == "nil" && r == "err") {
				if x.Op == token.NEQ {
					return ".failed", nil
				}
				return c03wNot(".failed"), nil
			}
		}
	}
	return "", fmt.Errorf("condition %q is outside the vocabulary (endStream, err != nil, !, &&, ||)", src(e))
}

// c03wSenderCall recognises `s.responseSender.<method>(s.context, <part>[, endStream])`.
func c03wSenderCall(e ast.Expr, method string, hasEos bool) (bool, error) {
	ce, ok := e.(*ast.CallExpr)
	if !ok || !strings.HasPrefix(src(ce.Fun), "s.responseSender.") {
		return false, nil
	}
	if src(ce.Fun) != "s.responseSender."+method {
		return false, fmt.Errorf("unexpected sender call %s (expected %s)", src(ce.Fun), method)
	}
	want := 2
	if hasEos {
		want = 3
	}
	if len(ce.Args) != want || src(ce.Args[0]) != "s.context" {
		return false, fmt.Errorf("unexpected arguments of %s", src(ce))
	}
	if hasEos && src(ce.Args[2]) != "endStream" {
		return false, fmt.Errorf("%s does not pass endStream on to the sender: %s", method, src(ce))
	}
	return true, nil
}

// c03wProgram walks one append function.
func c03wProgram(fd *ast.FuncDecl, method string, hasEos bool) ([]c03wStep, error) {
	var out []c03wStep
	errLive := false // an `err` variable holding the sender's result is in scope
	var walk func(l []ast.Stmt, g string, nested bool) error
	emitCall := func(g string, nested bool) error {
		if nested {
			return fmt.Errorf("%s: the sender call sits inside a conditional", fd.Name.Name)
		}
		for _, s := range out {
			if s.act == ".call" {
				return fmt.Errorf("%s: more than one sender call", fd.Name.Name)
			}
		}
		out = append(out, c03wStep{g, ".call"})
		return nil
	}
	walk = func(l []ast.Stmt, g string, nested bool) error {
		for _, st := range l {
			if c03wIsLog(st) {
				continue
			}
			s := src(st)
			switch s {
			case "headers := s.downstreamRespHeaders", "data := s.downstreamRespDataBuf", "trailers := s.downstreamRespTrailers",
				"s.requestInfo.SetBytesSent(s.requestInfo.BytesSent() + uint64(data.Len()))":
				continue
			case "s.endStream()":
				out = append(out, c03wStep{g, ".endStream"})
				continue
			case "s.cleanStream()":
				out = append(out, c03wStep{g, ".cleanStream"})
				continue
			case "s.resetStream()":
				out = append(out, c03wStep{g, ".resetStream"})
				continue
			case "return":
				out = append(out, c03wStep{g, ".ret"})
				continue
			}
			switch x := st.(type) {
			case *ast.ExprStmt:
				if ce, ok := x.X.(*ast.CallExpr); ok && src(ce.Fun) == "s.upstreamProcessDone.Store" && len(ce.Args) == 1 {
					v, err := c03wCond(ce.Args[0], hasEos)
					if err != nil {
						return fmt.Errorf("%s: %v", fd.Name.Name, err)
					}
					out = append(out, c03wStep{g, "(.store " + v + ")"})
					continue
				}
				if ok, err := c03wSenderCall(x.X, method, hasEos); err != nil {
					return fmt.Errorf("%s: %v", fd.Name.Name, err)
				} else if ok {
					if err := emitCall(g, nested); err != nil {
						return err
					}
					continue
				}
			case *ast.AssignStmt:
				// err := s.responseSender.X(...)   |   _ = s.responseSender.X(...)   |   err = …
				if len(x.Lhs) == 1 && len(x.Rhs) == 1 && (src(x.Lhs[0]) == "err" || src(x.Lhs[0]) == "_") {
					if ok, err := c03wSenderCall(x.Rhs[0], method, hasEos); err != nil {
						return fmt.Errorf("%s: %v", fd.Name.Name, err)
					} else if ok {
						if err := emitCall(g, nested); err != nil {
							return err
						}
						if src(x.Lhs[0]) == "err" {
							errLive = true
						}
						continue
					}
				}
			case *ast.IfStmt:
				cg := g
				if x.Init != nil {
					as, ok := x.Init.(*ast.AssignStmt)
					if !ok || len(as.Lhs) != 1 || len(as.Rhs) != 1 || src(as.Lhs[0]) != "err" {
						return fmt.Errorf("%s: unsupported if-initialiser %q", fd.Name.Name, src(x.Init))
					}
					ok, err := c03wSenderCall(as.Rhs[0], method, hasEos)
					if err != nil {
						return fmt.Errorf("%s: %v", fd.Name.Name, err)
					}
					if !ok {
						return fmt.Errorf("%s: unsupported if-initialiser %q", fd.Name.Name, src(x.Init))
					}
					if err := emitCall(g, nested); err != nil {
						return err
					}
					errLive = true
				}
				if strings.Contains(src(x.Cond), "err") && !errLive {
					return fmt.Errorf("%s: `err` is tested before the sender call", fd.Name.Name)
				}
				c, err := c03wCond(x.Cond, hasEos)
				if err != nil {
					return fmt.Errorf("%s: %v", fd.Name.Name, err)
				}
				if err := walk(x.Body.List, c03wAnd(cg, c), true); err != nil {
					return err
				}
				if x.Else != nil {
					eb, ok := x.Else.(*ast.BlockStmt)
					if !ok {
						return fmt.Errorf("%s: else-if not supported", fd.Name.Name)
					}
					if err := walk(eb.List, c03wAnd(cg, c03wNot(c)), true); err != nil {
						return err
					}
				}
				if x.Init != nil {
					errLive = false // scope of the if
				}
				continue
			}
			return fmt.Errorf("%s: statement outside the vocabulary: %q", fd.Name.Name, s)
		}
		return nil
	}
	if err := walk(fd.Body.List, ".tt", false); err != nil {
		return nil, err
	}
	n := 0
	for _, s := range out {
		if s.act == ".call" {
			n++
		}
	}
	if n != 1 {
		return nil, fmt.Errorf("%s: no sender call found", fd.Name.Name)
	}
	return out, nil
}

func c03wRender(name, doc string, p []c03wStep) string {
	var parts []string
	for _, s := range p {
		parts = append(parts, "("+s.guard+", "+s.act+")")
	}
	return "/-- " + doc + " -/\ndef " + name + " : Prog := [" + strings.Join(parts, ", ") + "]\n"
}

// c03wShape translates a nil-test expression over the three stored response parts into a Lean Bool expression over
// (h d t : Bool) = (headers / data / trailers present).
func c03wShape(e ast.Expr) (string, error) {
	switch x := e.(type) {
	case *ast.ParenExpr:
		return c03wShape(x.X)
	case *ast.Ident:
		if x.Name == "true" || x.Name == "false" {
			return x.Name, nil
		}
	case *ast.UnaryExpr:
		if x.Op == token.NOT {
			a, err := c03wShape(x.X)
			if err != nil {
				return "", err
			}
			return "(!" + a + ")", nil
		}
	case *ast.BinaryExpr:
		switch x.Op {
		case token.LAND, token.LOR:
			a, err := c03wShape(x.X)
			if err != nil {
				return "", err
			}
			b, err := c03wShape(x.Y)
			if err != nil {
				return "", err
			}
			op := " && "
			if x.Op == token.LOR {
				op = " || "
			}
			return "(" + a + op + b + ")", nil
		case token.NEQ, token.EQL:
			if src(x.Y) == "nil" {
				v := map[string]string{"s.downstreamRespHeaders": "h", "s.downstreamRespDataBuf": "d", "s.downstreamRespTrailers": "t"}[src(x.X)]
				if v != "" {
					if x.Op == token.EQL {
						return "(!" + v + ")", nil
					}
					return v, nil
				}
			}
		}
	}
	return "", fmt.Errorf("expression %q is not a nil-test of the stored response parts", src(e))
}

func c03wGenProxyReplyWrite() (string, error) {
	f, err := parse("pkg/proxy/downstream.go")
	if err != nil {
		return "", err
	}
	type fn struct {
		name, method, sig string
		hasEos            bool
	}
	fns := []fn{{"appendHeaders", "AppendHeaders", "func(endStream bool)", true}, {"appendData", "AppendData", "func(endStream bool)", true},
		{"appendTrailers", "AppendTrailers", "func()", false}}
	progs := map[string][]c03wStep{}
	for _, x := range fns {
		fd := findFunc(f, "downStream", x.name)
		if fd == nil {
			return "", fmt.Errorf("%s not found", x.name)
		}
		if sig := src(fd.Type); sig != x.sig {
			return "", fmt.Errorf("%s: unexpected signature %s", x.name, sig)
		}
		p, err := c03wProgram(fd, x.method, x.hasEos)
		if err != nil {
			return "", err
		}
		progs[x.name] = p
	}

	// --- the callers: receive's three response cases
	rcv := findFunc(f, "downStream", "receive")
	if rcv == nil {
		return "", fmt.Errorf("receive not found")
	}
	type phaseCase struct{ present, eos string }
	cases := map[string]phaseCase{}
	wantCall := map[string]string{"UpRecvHeader": "s.upstreamRequest.receiveHeaders", "UpRecvData": "s.upstreamRequest.receiveData", "UpRecvTrailer": "s.upstreamRequest.receiveTrailers"}
	var walkErr error
	ast.Inspect(rcv.Body, func(n ast.Node) bool {
		c, ok := n.(*ast.CaseClause)
		if !ok || len(c.List) != 1 || walkErr != nil {
			return true
		}
		ph := strings.TrimPrefix(src(c.List[0]), "types.")
		callee, ok := wantCall[ph]
		if !ok {
			return true
		}
		// body: `if <present> { [print]; [variable.Set]; <callee>(<eos>); if p, err := s.processError(id); err != nil { return p } }; phase++`
		var body []ast.Stmt
		for _, st := range c.Body {
			if !c03wIsLog(st) {
				body = append(body, st)
			}
		}
		if len(body) != 2 || src(body[1]) != "phase++" {
			walkErr = fmt.Errorf("receive: case %s is not `if <part present> {…}; phase++`", ph)
			return false
		}
		is, ok := body[0].(*ast.IfStmt)
		if !ok || is.Init != nil || is.Else != nil {
			walkErr = fmt.Errorf("receive: case %s does not start with a plain if", ph)
			return false
		}
		present, err := c03wShape(is.Cond)
		if err != nil {
			walkErr = fmt.Errorf("receive: case %s: %v", ph, err)
			return false
		}
		var inner []ast.Stmt
		for _, st := range is.Body.List {
			s := src(st)
			if c03wIsLog(st) || s == "s.printPhaseInfo(phase, id)" || s == "_ = variable.Set(s.context, types.VariableDownStreamRespHeaders, s.downstreamRespHeaders)" {
				continue
			}
			inner = append(inner, st)
		}
		if len(inner) != 2 || src(inner[1]) != "if p, err := s.processError(id); err != nil { return p }" {
			walkErr = fmt.Errorf("receive: case %s is not `<write the part>; if p, err := s.processError(id); err != nil { return p }`", ph)
			return false
		}
		es, ok := inner[0].(*ast.ExprStmt)
		if !ok {
			walkErr = fmt.Errorf("receive: case %s: unexpected statement %q", ph, src(inner[0]))
			return false
		}
		ce, ok := es.X.(*ast.CallExpr)
		if !ok || src(ce.Fun) != callee {
			walkErr = fmt.Errorf("receive: case %s does not call %s", ph, callee)
			return false
		}
		eos := "true"
		if ph != "UpRecvTrailer" {
			if len(ce.Args) != 1 {
				walkErr = fmt.Errorf("receive: case %s: unexpected arguments %s", ph, src(ce))
				return false
			}
			eos, err = c03wShape(ce.Args[0])
			if err != nil {
				walkErr = fmt.Errorf("receive: case %s: %v", ph, err)
				return false
			}
		} else if len(ce.Args) != 0 {
			walkErr = fmt.Errorf("receive: case %s: unexpected arguments %s", ph, src(ce))
			return false
		}
		cases[ph] = phaseCase{present, eos}
		return false
	})
	if walkErr != nil {
		return "", walkErr
	}
	for ph := range wantCall {
		if _, ok := cases[ph]; !ok {
			return "", fmt.Errorf("receive: case types.%s not found", ph)
		}
	}

	// --- upstreamRequest.receiveX: entry guard, then downStream.onUpstreamX
	uf, err := parse("pkg/proxy/upstream.go")
	if err != nil {
		return "", err
	}
	guards := map[string]bool{}
	for _, x := range []struct{ name, callee string }{{"receiveHeaders", "r.downStream.onUpstreamHeaders(endStream)"},
		{"receiveData", "r.downStream.onUpstreamData(endStream)"}, {"receiveTrailers", "r.downStream.onUpstreamTrailers()"}} {
		fd := findFunc(uf, "upstreamRequest", x.name)
		if fd == nil {
			return "", fmt.Errorf("upstreamRequest.%s not found", x.name)
		}
		var body []ast.Stmt
		for _, st := range fd.Body.List {
			if !c03wIsLog(st) {
				body = append(body, st)
			}
		}
		guarded := false
		if len(body) == 2 {
			if src(body[0]) != "if r.downStream.processDone() || r.setupRetry { return }" {
				return "", fmt.Errorf("upstreamRequest.%s: unexpected entry guard %q", x.name, src(body[0]))
			}
			guarded = true
			body = body[1:]
		}
		if len(body) != 1 || src(body[0]) != x.callee {
			return "", fmt.Errorf("upstreamRequest.%s is not `[entry guard]; %s`", x.name, x.callee)
		}
		guards[x.name] = guarded
	}

	// --- downStream.onUpstreamX: the append function of the part is the LAST statement and gets endStream unchanged;
	// nothing after the retry decision of onUpstreamHeaders returns early
	for _, x := range []struct{ name, last string }{{"onUpstreamHeaders", "s.appendHeaders(endStream)"}, {"onUpstreamData", "s.appendData(endStream)"},
		{"onUpstreamTrailers", "s.appendTrailers()"}} {
		fd := findFunc(f, "downStream", x.name)
		if fd == nil {
			return "", fmt.Errorf("%s not found", x.name)
		}
		l := fd.Body.List
		if len(l) == 0 || src(l[len(l)-1]) != x.last {
			return "", fmt.Errorf("%s does not end in %s", x.name, x.last)
		}
		for i, st := range l[:len(l)-1] {
			if x.name == "onUpstreamHeaders" && i == 0 {
				continue // headers := …
			}
			if x.name == "onUpstreamHeaders" {
				if is, ok := st.(*ast.IfStmt); ok && src(is.Cond) == "s.retryState != nil" {
					continue // the retry decision (the machine's business: Gen ProxyRetry); it needs a retry state
				}
			}
			bad := false
			ast.Inspect(st, func(n ast.Node) bool {
				if _, ok := n.(*ast.ReturnStmt); ok {
					bad = true
				}
				return true
			})
			if bad {
				return "", fmt.Errorf("%s: a return before %s", x.name, x.last)
			}
		}
	}

	// --- endStream: `[no-reuse bookkeeping]; s.cleanStream()` — the clean-up is unconditional
	es := findFunc(f, "downStream", "endStream")
	if es == nil {
		return "", fmt.Errorf("endStream not found")
	}
	endCleans := false
	for _, st := range es.Body.List {
		switch txt := src(st); txt {
		case "if s.responseSender != nil && !s.downstreamRecvDone { atomic.StoreUint32(&s.reuseBuffer, 0) }":
		case "s.cleanStream()":
			endCleans = true
		default:
			return "", fmt.Errorf("endStream: statement outside the vocabulary: %q", txt)
		}
	}

	// --- cleanStream: the compare-and-swap first, then the steps of the body in order
	cs := findFunc(f, "downStream", "cleanStream")
	if cs == nil {
		return "", fmt.Errorf("cleanStream not found")
	}
	cleanOnce := false
	var cleanSteps []string
	for i, st := range cs.Body.List {
		txt := src(st)
		if i == 0 && txt == "if !atomic.CompareAndSwapUint32(&s.downstreamCleaned, 0, 1) { return }" {
			cleanOnce = true
			continue
		}
		if ds, ok := st.(*ast.DeferStmt); ok && strings.Contains(src(ds.Call), "recover()") {
			continue // the panic guard of the body
		}
		if is, ok := st.(*ast.IfStmt); ok && is.Init == nil && is.Else == nil &&
			src(is.Cond) == "s.upstreamRequest != nil && !s.upstreamProcessDone.Load() && !s.oneway" {
			var b []string
			for _, x := range is.Body.List {
				if !c03wIsLog(x) {
					b = append(b, src(x))
				}
			}
			if strings.Join(b, " ; ") != "s.upstreamProcessDone.Store(true) ; s.upstreamRequest.resetStream()" {
				return "", fmt.Errorf("cleanStream: unexpected upstream reset branch: %v", b)
			}
			cleanSteps = append(cleanSteps, ".resetUpstreamUnlessDone")
			continue
		}
		step, ok := map[string]string{
			"s.requestInfo.SetRequestFinishedDuration(time.Now())": "",
			"s.cleanUp()":                   ".cleanUp",
			"s.requestMetrics()":            ".metrics",
			"s.finishTracing()":             ".tracing",
			"s.writeLog()":                  ".accessLog",
			"s.streamFilterChain.destroy()": ".destroyFilters",
			"s.delete()":                    ".delete",
			"s.giveStream()":                ".giveStream",
		}[txt]
		if !ok {
			return "", fmt.Errorf("cleanStream: statement outside the vocabulary: %q", txt)
		}
		if step != "" {
			cleanSteps = append(cleanSteps, step)
		}
	}
	// requestMetrics counts the active gauges down, delete takes the stream off the proxy's active list
	rm := findFunc(f, "downStream", "requestMetrics")
	dl := findFunc(f, "downStream", "delete")
	if rm == nil || dl == nil {
		return "", fmt.Errorf("requestMetrics / delete not found")
	}
	decs := 0
	for _, st := range rm.Body.List { // top level: unconditional
		if txt := src(st); txt == "s.proxy.stats.DownstreamRequestActive.Dec(1)" || txt == "s.proxy.listenerStats.DownstreamRequestActive.Dec(1)" {
			decs++
		}
	}
	if strings.Count(src(rm.Body), "DownstreamRequestActive") != 2 {
		return "", fmt.Errorf("requestMetrics: unexpected use of DownstreamRequestActive")
	}
	if src(dl.Body) != "{ if s.proxy != nil { s.proxy.deleteActiveStream(s) } }" {
		return "", fmt.Errorf("delete: unexpected body %s", src(dl.Body))
	}

	s := header("ProxyReplyWrite", "pkg/proxy/downstream.go (downStream.appendHeaders, appendData, appendTrailers, receive, onUpstreamHeaders/Data/Trailers)",
		"pkg/proxy/upstream.go (upstreamRequest.receiveHeaders/Data/Trailers)")
	s += "set_option linter.unusedVariables false\n"
	s += `/-- conditions around a step: the endStream parameter, the error of the sender call -/
inductive Cond where
  | tt | eos | failed
  | not (c : Cond) | and (a b : Cond) | or (a b : Cond)
  deriving DecidableEq, Repr
/-- the closed vocabulary of the reply write path -/
inductive Act where
  | store (v : Cond)   -- s.upstreamProcessDone.Store(v)
  | call               -- the sender call of the part; its error is the register ` + "`failed`" + ` afterwards
  | endStream          -- s.endStream()
  | cleanStream        -- s.cleanStream()
  | resetStream        -- s.resetStream()
  | ret                -- return
  deriving DecidableEq, Repr
/-- a function body: steps in program order, each under the conjunction of the conditions around it -/
abbrev Prog := List (Cond × Act)
`
	s += c03wRender("appendHeaders", "downStream.appendHeaders(endStream)", progs["appendHeaders"])
	s += c03wRender("appendData", "downStream.appendData(endStream)", progs["appendData"])
	s += c03wRender("appendTrailers", "downStream.appendTrailers() (no endStream parameter: `eos` is true while it runs)", progs["appendTrailers"])
	s += "/-- `case types.UpRecvHeader` of downStream.receive: the part is written when this holds (h d t = headers / data / trailers stored) -/\n"
	s += "def headersPresent (h d t : Bool) : Bool := " + cases["UpRecvHeader"].present + "\n"
	s += "/-- … with this endStream argument -/\ndef headersEos (h d t : Bool) : Bool := " + cases["UpRecvHeader"].eos + "\n"
	s += "/-- `case types.UpRecvData` -/\ndef dataPresent (h d t : Bool) : Bool := " + cases["UpRecvData"].present + "\n"
	s += "def dataEos (h d t : Bool) : Bool := " + cases["UpRecvData"].eos + "\n"
	s += "/-- `case types.UpRecvTrailer` (receiveTrailers takes no endStream argument) -/\ndef trailersPresent (h d t : Bool) : Bool := " + cases["UpRecvTrailer"].present + "\n"
	s += "def trailersEos (h d t : Bool) : Bool := " + cases["UpRecvTrailer"].eos + "\n"
	s += "/-- upstreamRequest.receiveHeaders / receiveData / receiveTrailers start with `if r.downStream.processDone() || r.setupRetry { return }` -/\n"
	s += fmt.Sprintf("def headersGuarded : Bool := %v\ndef dataGuarded : Bool := %v\ndef trailersGuarded : Bool := %v\n", guards["receiveHeaders"], guards["receiveData"], guards["receiveTrailers"])
	s += `/-- the steps of the body of downStream.cleanStream (after its compare-and-swap), closed vocabulary -/
inductive CleanStep where
  | resetUpstreamUnlessDone   -- if s.upstreamRequest != nil && !s.upstreamProcessDone.Load() && !s.oneway { s.upstreamProcessDone.Store(true); s.upstreamRequest.resetStream() }
  | cleanUp | metrics | tracing | accessLog | destroyFilters | delete | giveStream
  deriving DecidableEq, Repr
`
	s += fmt.Sprintf("/-- cleanStream starts with `if !atomic.CompareAndSwapUint32(&s.downstreamCleaned, 0, 1) { return }` -/\ndef cleanOnce : Bool := %v\n", cleanOnce)
	s += "/-- the body of cleanStream in program order -/\ndef cleanSteps : List CleanStep := [" + strings.Join(cleanSteps, ", ") + "]\n"
	s += fmt.Sprintf("/-- requestMetrics counts DownstreamRequestActive (proxy and listener) down unconditionally -/\ndef metricsCountDown : Bool := %v\n", decs == 2)
	s += fmt.Sprintf("/-- endStream calls cleanStream unconditionally -/\ndef endStreamCleans : Bool := %v\n", endCleans)
	s += footer("ProxyReplyWrite")
	return s, nil
}
