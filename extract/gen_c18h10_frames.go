package main

// Gen.H2Payload (property C18, builder c18h10): the frame payload codecs of pkg/module/http2.
//
//	parsers   frame.go parse*Frame (every type but DATA / HEADERS, whose arithmetic is Gen.H2Frame), statement by statement
//	          against a template: every guard, the error class and code it returns, every mask, slice bound and field
//	          expression are holes that become Lean definitions; frameParsers (type -> parser); Flags.Has; readByte /
//	          readUint32; SettingsFrame.Value / Setting / NumSettings.
//	writers   frame.go Framer.Write* and mhttp2.go MFramer.write* plus the frames MServerConn / MClientConn write in line
//	          (SETTINGS ack, PING, RST_STREAM, GOAWAY), executed symbolically statement by statement: the refusal
//	          conditions, frame type, flag byte, stream id and the byte layout of the payload (which fields, which
//	          masks, which widths, in which order) become Lean definitions.  A statement the executor does not know is
//	          a translation error.

import (
	"fmt"
	"go/ast"
	"go/token"
	"sort"
	"strings"
)

func init() { register("H2Payload", c18hGenPayload) }

const c18hH2Dir = "pkg/module/http2"

// ---------------------------------------------------------------------------------------------------------
// symbolic execution of a frame writer

type c18hWr struct {
	t       *c18hTr
	recv    string // receiver expression text of startWrite / write* / endWrite ("f", "fr", "sc.Framer", ...)
	bufArg  bool   // MFramer style: the buffer is the first argument
	guards  []string
	flags   string
	typ     string
	sid     string
	segs    []string
	started bool
	ended   bool
}

func c18hAnd(a, b string) string {
	if a == "" {
		return b
	}
	if b == "" {
		return a
	}
	return "(" + a + " && " + b + ")"
}

func (w *c18hWr) args(c *ast.CallExpr) []ast.Expr {
	if w.bufArg {
		if len(c.Args) == 0 {
			return nil
		}
		return c.Args[1:]
	}
	return c.Args
}

func (w *c18hWr) seg(cond, s string) {
	if cond != "" {
		s = "(if " + cond + " then " + s + " else [])"
	}
	w.segs = append(w.segs, s)
}

// bytesExpr translates an expression of type []byte; `x[:]` of an array and `padZeros[:n]` are known forms.
func (w *c18hWr) bytesExpr(e ast.Expr) (string, error) {
	if sl, ok := e.(*ast.SliceExpr); ok {
		if id, ok := sl.X.(*ast.Ident); ok && id.Name == "padZeros" && sl.Low == nil && sl.High != nil {
			n, err := w.t.expr(sl.High, "int")
			if err != nil {
				return "", err
			}
			return "(List.replicate " + n.lean + " (0 : UInt8))", nil
		}
		if sl.Low == nil && sl.High == nil {
			return w.bytesExpr(sl.X)
		}
	}
	v, err := w.t.expr(e, "")
	if err != nil {
		return "", err
	}
	if v.typ != "bytes" {
		return "", fmt.Errorf("`%s` is not a byte slice", c18hText(e))
	}
	return v.lean, nil
}

func (w *c18hWr) num(e ast.Expr, typ string) (string, error) {
	v, err := w.t.expr(e, typ)
	if err != nil {
		return "", err
	}
	v = w.t.typed(v, typ)
	if v.typ != typ {
		// a narrower unsigned value passed where a wider one is expected is fine; anything else is not
		if c18hWidth(v.typ) == 0 || c18hWidth(v.typ) > c18hWidth(typ) {
			return "", fmt.Errorf("`%s` has type %s, expected %s", c18hText(e), v.typ, typ)
		}
	}
	return v.lean, nil
}

func (w *c18hWr) call(c *ast.CallExpr, cond string) (bool, error) {
	fn := c18hText(c.Fun)
	a := w.args(c)
	switch fn {
	case w.recv + ".startWrite":
		if w.started || cond != "" || len(a) != 3 {
			return true, fmt.Errorf("unexpected startWrite")
		}
		w.started = true
		ty, err := w.num(a[0], "u8")
		if err != nil {
			return true, err
		}
		w.typ = ty
		if _, bound := w.t.names["flags"]; c18hText(a[1]) == "flags" && !bound {
			// the accumulated flags
		} else {
			fl, err := w.num(a[1], "u8")
			if err != nil {
				return true, err
			}
			w.flags = fl
		}
		sid, err := w.num(a[2], "u32")
		if err != nil {
			return true, err
		}
		w.sid = sid
		return true, nil
	case w.recv + ".writeByte", w.recv + ".writeUint16", w.recv + ".writeUint32":
		if !w.started || len(a) != 1 {
			return true, fmt.Errorf("%s before startWrite", fn)
		}
		typ, f := "u8", "u8be"
		if strings.HasSuffix(fn, "16") {
			typ, f = "u16", "u16be"
		} else if strings.HasSuffix(fn, "32") {
			typ, f = "u32", "u32be"
		}
		v, err := w.num(a[0], typ)
		if err != nil {
			return true, err
		}
		w.seg(cond, "("+f+" "+v+")")
		return true, nil
	case w.recv + ".writeBytes", "buf.Write":
		if fn == "buf.Write" {
			a = c.Args
		}
		if !w.started || len(a) != 1 {
			return true, fmt.Errorf("%s before startWrite", fn)
		}
		arg := a[0]
		b, err := w.bytesExpr(arg)
		if err != nil {
			return true, err
		}
		w.seg(cond, b)
		return true, nil
	case w.recv + ".endWrite":
		if !w.started || cond != "" {
			return true, fmt.Errorf("unexpected endWrite")
		}
		w.ended = true
		return true, nil
	}
	return false, nil
}

// isErrReturn: `return <error value>` (a single result that is not a call to endWrite)
func (w *c18hWr) isErrReturn(s ast.Stmt) bool {
	r, ok := s.(*ast.ReturnStmt)
	if !ok || len(r.Results) != 1 {
		return false
	}
	if c, ok := r.Results[0].(*ast.CallExpr); ok && strings.HasSuffix(c18hText(c.Fun), ".endWrite") {
		return false
	}
	txt := c18hText(r.Results[0])
	return strings.HasPrefix(txt, "err") || strings.HasPrefix(txt, "errors.New(")
}

func (w *c18hWr) stmts(list []ast.Stmt, cond string) error {
	for _, s := range list {
		if w.ended {
			return fmt.Errorf("statement after endWrite: %s", c18hText(s))
		}
		switch x := s.(type) {
		case *ast.DeclStmt:
			txt := c18hText(x)
			if txt == "var flags Flags" {
				w.flags = "0"
				continue
			}
			return fmt.Errorf("unsupported declaration %s", txt)
		case *ast.ExprStmt:
			c, ok := x.X.(*ast.CallExpr)
			if !ok {
				return fmt.Errorf("unsupported statement %s", c18hText(s))
			}
			done, err := w.call(c, cond)
			if err != nil {
				return err
			}
			if !done {
				return fmt.Errorf("unsupported call %s", c18hText(c.Fun))
			}
		case *ast.ReturnStmt:
			if len(x.Results) == 1 {
				if c, ok := x.Results[0].(*ast.CallExpr); ok {
					done, err := w.call(c, cond)
					if err != nil {
						return err
					}
					if done && w.ended {
						continue
					}
				}
			}
			return fmt.Errorf("unsupported return %s", c18hText(s))
		case *ast.AssignStmt:
			if len(x.Lhs) != 1 || len(x.Rhs) != 1 {
				return fmt.Errorf("unsupported assignment %s", c18hText(s))
			}
			lhs := c18hText(x.Lhs[0])
			switch {
			case lhs == "buf" && x.Tok == token.DEFINE:
				// buffer.NewIoBuffer / GetIoBuffer: the output buffer
				if t := c18hText(x.Rhs[0]); !strings.HasPrefix(t, "buffer.NewIoBuffer(") && !strings.HasPrefix(t, "buffer.GetIoBuffer(") {
					return fmt.Errorf("unsupported buffer %s", t)
				}
				if w.started {
					return fmt.Errorf("buffer allocated after startWrite")
				}
			case lhs == "flags":
				k, err := w.num(x.Rhs[0], "u8")
				if err != nil {
					return err
				}
				if w.started {
					return fmt.Errorf("flags changed after startWrite")
				}
				switch x.Tok {
				case token.OR_ASSIGN:
					if cond != "" {
						w.flags = "(" + w.flags + " ||| (if " + cond + " then " + k + " else 0))"
					} else {
						w.flags = "(" + w.flags + " ||| " + k + ")"
					}
				case token.ASSIGN:
					if w.flags == "" {
						return fmt.Errorf("flags assigned before declaration")
					}
					if cond != "" {
						w.flags = "(if " + cond + " then " + k + " else " + w.flags + ")"
					} else {
						w.flags = k
					}
				default:
					return fmt.Errorf("unsupported flags operation %s", c18hText(s))
				}
			case lhs == w.recv+".wbuf":
				c, ok := x.Rhs[0].(*ast.CallExpr)
				if !ok || c18hText(c.Fun) != "append" || len(c.Args) < 2 || c18hText(c.Args[0]) != lhs || !w.started {
					return fmt.Errorf("unsupported buffer operation %s", c18hText(s))
				}
				if c.Ellipsis != token.NoPos {
					b, err := w.bytesExpr(c.Args[1])
					if err != nil {
						return err
					}
					w.seg(cond, b)
				} else {
					for _, a := range c.Args[1:] {
						v, err := w.num(a, "u8")
						if err != nil {
							return err
						}
						w.seg(cond, "(u8be "+v+")")
					}
				}
			default:
				// a local: `v := e`, `v |= e`
				id, ok := x.Lhs[0].(*ast.Ident)
				if !ok {
					return fmt.Errorf("unsupported assignment %s", c18hText(s))
				}
				switch x.Tok {
				case token.DEFINE:
					v, err := w.t.expr(x.Rhs[0], "")
					if err != nil {
						return err
					}
					if c18hWidth(v.typ) == 0 {
						return fmt.Errorf("local %s of type %s", id.Name, v.typ)
					}
					w.t.names[id.Name] = v
				case token.OR_ASSIGN:
					old, ok := w.t.names[id.Name]
					if !ok {
						return fmt.Errorf("unknown local %s", id.Name)
					}
					k, err := w.num(x.Rhs[0], old.typ)
					if err != nil {
						return err
					}
					if cond != "" {
						k = "(if " + cond + " then " + k + " else 0)"
					}
					w.t.names[id.Name] = c18hVal{lean: "(" + old.lean + " ||| " + k + ")", typ: old.typ}
				default:
					return fmt.Errorf("unsupported assignment %s", c18hText(s))
				}
			}
		case *ast.IfStmt:
			if x.Init != nil || x.Else != nil {
				return fmt.Errorf("unsupported if %s", c18hText(x.Cond))
			}
			c, err := w.t.expr(x.Cond, "")
			if err != nil {
				return err
			}
			if c.typ != "bool" {
				return fmt.Errorf("condition %s is not boolean", c18hText(x.Cond))
			}
			inner := c18hAnd(cond, c.lean)
			if len(x.Body.List) == 1 && w.isErrReturn(x.Body.List[0]) {
				w.guards = append(w.guards, inner)
				continue
			}
			if err := w.stmts(x.Body.List, inner); err != nil {
				return err
			}
		case *ast.RangeStmt:
			// `for _, b := range pad { if b != 0 { return errPadBytes } }` / `for _, s := range settings { write… }`
			over, err := w.t.expr(x.X, "")
			if err != nil {
				return err
			}
			val, ok := x.Value.(*ast.Ident)
			if !ok {
				return fmt.Errorf("unsupported range %s", c18hText(x.X))
			}
			if over.typ == "bytes" {
				if len(x.Body.List) == 1 {
					if is, ok := x.Body.List[0].(*ast.IfStmt); ok && is.Else == nil && is.Init == nil && len(is.Body.List) == 1 && w.isErrReturn(is.Body.List[0]) {
						w.t.bind(val.Name, "b.toNat", "u8")
						c, err := w.t.expr(is.Cond, "")
						delete(w.t.names, val.Name)
						if err != nil {
							return err
						}
						w.guards = append(w.guards, c18hAnd(cond, "(List.any "+over.lean+" (fun b => "+c.lean+"))"))
						continue
					}
				}
				return fmt.Errorf("unsupported loop over %s", c18hText(x.X))
			}
			if over.typ == "settings" {
				if cond != "" || !w.started {
					return fmt.Errorf("settings loop in an unexpected place")
				}
				w.t.bind(val.Name+".ID", "s.1", "u16")
				w.t.bind(val.Name+".Val", "s.2", "u32")
				saved := w.segs
				w.segs = nil
				err := w.stmts(x.Body.List, "")
				body := w.segs
				w.segs = saved
				delete(w.t.names, val.Name+".ID")
				delete(w.t.names, val.Name+".Val")
				if err != nil {
					return err
				}
				w.segs = append(w.segs, "(List.flatMap (fun s => "+strings.Join(body, " ++ ")+") "+over.lean+")")
				continue
			}
			return fmt.Errorf("unsupported loop over %s", c18hText(x.X))
		default:
			return fmt.Errorf("unsupported statement %T `%s`", s, c18hText(s))
		}
	}
	return nil
}

func (w *c18hWr) render(name, doc, params string) (string, error) {
	if !w.started || !w.ended {
		return "", fmt.Errorf("%s: startWrite / endWrite not found", name)
	}
	if w.flags == "" {
		return "", fmt.Errorf("%s: flags unknown", name)
	}
	g := "false"
	if len(w.guards) > 0 {
		g = strings.Join(w.guards, " || ")
	}
	pay := "[]"
	if len(w.segs) > 0 {
		pay = strings.Join(w.segs, " ++ ")
	}
	p := ""
	if params != "" {
		p = " " + params
	}
	s := fmt.Sprintf("/-- %s: the writer returns an error and writes nothing -/\ndef %sRefuse%s : Bool := %s\n", doc, name, p, g)
	s += fmt.Sprintf("def %sType%s : Nat := %s\ndef %sFlags%s : Nat := %s\ndef %sSid%s : Nat := %s\n", name, p, w.typ, name, p, w.flags, name, p, w.sid)
	s += fmt.Sprintf("/-- %s: the payload, field by field -/\ndef %sPayload%s : List UInt8 := %s\n", doc, name, p, pay)
	return s, nil
}

// c18hFindWrite: the statements from the (first) `recv.startWrite(` of the body up to and including `recv.endWrite(`.
func c18hFindWrite(body *ast.BlockStmt, recv string) []ast.Stmt {
	var out []ast.Stmt
	ast.Inspect(body, func(n ast.Node) bool {
		b, ok := n.(*ast.BlockStmt)
		if !ok || out != nil {
			return out == nil
		}
		start := -1
		for i, s := range b.List {
			txt := c18hText(s)
			if start < 0 && strings.HasPrefix(txt, recv+".startWrite(") {
				start = i
			}
			if start >= 0 && strings.Contains(txt, recv+".endWrite(") {
				out = b.List[start : i+1]
				return false
			}
		}
		return true
	})
	return out
}

// ---------------------------------------------------------------------------------------------------------
// parser templates

const c18hTplFlagsHas = `
{
return «flagsHas»
}`

const c18hTplReadByte = `
{
if «readByteShort» {
return nil, 0, io.ErrUnexpectedEOF
}
return p[1:], p[0], nil
}`

const c18hTplReadUint32 = `
{
if «readUint32Short» {
return nil, 0, io.ErrUnexpectedEOF
}
return p[4:], binary.BigEndian.Uint32(p[:4]), nil
}`

const c18hTplValidSid = `
{
return «validStreamID»
}`

const c18hTplValidSidOrZero = `
{
return «validStreamIDOrZero»
}`

const c18hTplSettings = `
{
if «pSettingsAckLen» {
return nil, ConnectionError(«pSettingsAckLenCode»)
}
if «pSettingsSid» {
return nil, ConnectionError(«pSettingsSidCode»)
}
if «pSettingsMod» {
return nil, ConnectionError(«pSettingsModCode»)
}
f := &SettingsFrame{FrameHeader: fh, p: p}
if v, ok := f.Value(«pSettingsWinId»); «pSettingsWinBad» {
return nil, ConnectionError(«pSettingsWinCode»)
}
return f, nil
}`

const c18hTplSettingsValue = `
{
f.checkValid()
for i := 0; i < f.NumSettings(); i++ {
if s := f.Setting(i); s.ID == id {
return s.Val, true
}
}
return 0, false
}`

const c18hTplSetting = `
{
buf := f.p
return Setting{
ID: SettingID(binary.BigEndian.Uint16(buf[«setIdLo» : «setIdHi»])),
Val: binary.BigEndian.Uint32(buf[«setValLo» : «setValHi»]),
}
}`

const c18hTplNumSettings = `
{
return «numSettings»
}`

const c18hTplPing = `
{
if «pPingLen» {
return nil, ConnectionError(«pPingLenCode»)
}
if «pPingSid» {
return nil, ConnectionError(«pPingSidCode»)
}
f := &PingFrame{FrameHeader: fh}
copy(f.Data[:], payload)
return f, nil
}`

const c18hTplGoAway = `
{
if «pGoAwaySid» {
return nil, ConnectionError(«pGoAwaySidCode»)
}
if «pGoAwayLen» {
return nil, ConnectionError(«pGoAwayLenCode»)
}
return &GoAwayFrame{
FrameHeader: fh,
LastStreamID: «pGoAwayLast»,
ErrCode: ErrCode(«pGoAwayCode»),
debugData: «pGoAwayDebug»,
}, nil
}`

const c18hTplUnknown = `
{
return &UnknownFrame{fh, p}, nil
}`

const c18hTplWindowUpdate = `
{
if «pWuLen» {
return nil, ConnectionError(«pWuLenCode»)
}
inc := «pWuInc»
if «pWuZero» {
if «pWuZeroConn» {
return nil, ConnectionError(«pWuZeroConnCode»)
}
return nil, streamError(fh.StreamID, «pWuZeroStreamCode»)
}
return &WindowUpdateFrame{
FrameHeader: fh,
Increment: inc,
}, nil
}`

const c18hTplPriority = `
{
if «pPrioSid» {
return nil, connError{«pPrioSidCode», "PRIORITY frame with stream ID 0"}
}
if «pPrioLen» {
return nil, connError{«pPrioLenCode», fmt.Sprintf("PRIORITY frame payload size was %d; want 5", len(payload))}
}
v := «pPrioV»
streamID := «pPrioDep»
return &PriorityFrame{
FrameHeader: fh,
PriorityParam: PriorityParam{
Weight: «pPrioWeight»,
StreamDep: streamID,
Exclusive: «pPrioExcl»,
},
}, nil
}`

const c18hTplRst = `
{
if «pRstLen» {
return nil, ConnectionError(«pRstLenCode»)
}
if «pRstSid» {
return nil, ConnectionError(«pRstSidCode»)
}
return &RSTStreamFrame{fh, ErrCode(«pRstCode»)}, nil
}`

const c18hTplContinuation = `
{
if «pContSid» {
return nil, connError{«pContSidCode», "CONTINUATION frame with stream ID 0"}
}
return &ContinuationFrame{fh, p}, nil
}`

const c18hTplPushPromise = `
{
pp := &PushPromiseFrame{
FrameHeader: fh,
}
if «pPushSid» {
return nil, ConnectionError(«pPushSidCode»)
}
var padLength uint8
if «pPushPadded» {
if p, padLength, err = readByte(p); err != nil {
return
}
}
p, pp.PromiseID, err = readUint32(p)
if err != nil {
return
}
pp.PromiseID = «pPushPromised»
if «pPushPadBig» {
return nil, ConnectionError(«pPushPadBigCode»)
}
pp.headerFragBuf = «pPushFrag»
return pp, nil
}`

const c18hTplTypeFrameParser = `
{
if f := frameParsers[t]; f != nil {
return f
}
return parseUnknownFrame
}`

const c18hTplWriteUint16 = "{\nf.wbuf = append(f.wbuf, «u16b0», «u16b1»)\n}"
const c18hTplWriteUint32 = `
{
f.wbuf = append(f.wbuf, «u32b0», «u32b1», «u32b2», «u32b3»)
}`
const c18hTplWriteByte = "{\nf.wbuf = append(f.wbuf, v)\n}"
const c18hTplWriteBytes = "{\nf.wbuf = append(f.wbuf, v...)\n}"
const c18hTplMWriteByte = "{\nb.Write([]byte{v})\n}"
const c18hTplMWriteBytes = "{\nb.Write(v)\n}"
const c18hTplMWriteUint16 = "{\nb.Write([]byte{«mu16b0», «mu16b1»})\n}"
const c18hTplMWriteUint32 = `
{
b.Write([]byte{«mu32b0», «mu32b1», «mu32b2», «mu32b3»})
}`
const c18hTplIsZero = `
{
return p == PriorityParam{}
}`

const c18hPrelude = `/-- ` + "`encoding/binary`" + `: BigEndian.Uint32 / Uint16 of a slice, and indexing (the standard library is trusted) -/
def byteAt (b : List UInt8) (i : Nat) : Nat := (b.getD i 0).toNat
def be32 (b : List UInt8) : Nat := byteAt b 0 * 16777216 + byteAt b 1 * 65536 + byteAt b 2 * 256 + byteAt b 3
def be16 (b : List UInt8) : Nat := byteAt b 0 * 256 + byteAt b 1
/-- one byte appended -/
def u8be (v : Nat) : List UInt8 := [UInt8.ofNat v]
`

func c18hGenPayload() (string, error) {
	ff, err := parse(c18hH2Dir + "/frame.go")
	if err != nil {
		return "", err
	}
	mf, err := parse(c18hH2Dir + "/mhttp2.go")
	if err != nil {
		return "", err
	}
	s := header("H2Payload", c18hH2Dir+"/frame.go (parse*Frame, Framer.Write*, frameParsers, Flags.Has, readByte, readUint32, SettingsFrame)", c18hH2Dir+"/mhttp2.go (MFramer.write*, frames written in line by MServerConn / MClientConn)")
	s += "set_option linter.unusedVariables false\n" + c18hPrelude
	// --- constants
	for _, c := range []string{"FramePriority", "FrameRSTStream", "FrameSettings", "FramePushPromise", "FramePing", "FrameGoAway", "FrameWindowUpdate",
		"FrameContinuation", "FrameData", "FrameHeaders", "FlagPingAck", "FlagSettingsAck", "FlagPushPromiseEndHeaders", "FlagPushPromisePadded",
		"FlagContinuationEndHeaders", "FlagDataEndStream", "FlagDataPadded", "FlagHeadersEndStream", "FlagHeadersEndHeaders", "FlagHeadersPadded", "FlagHeadersPriority",
		"ErrCodeNo", "ErrCodeProtocol", "ErrCodeFlowControl", "ErrCodeFrameSize", "SettingInitialWindowSize"} {
		v, err := intConst(c18hH2Dir, c)
		if err != nil {
			return "", err
		}
		s += fmt.Sprintf("def %s : Nat := %d\n", strings.ToLower(c[:1])+c[1:], v)
	}
	match := func(f *ast.File, recv, fn, tpl string) (map[string]string, error) {
		fd := findFunc(f, recv, fn)
		if fd == nil || fd.Body == nil {
			return nil, fmt.Errorf("%s.%s not found", recv, fn)
		}
		return c18hMatch(fn, fd.Body, tpl)
	}
	type item struct{ doc, name, params, ctx, want string }
	run := func(t *c18hTr, h map[string]string, items []item) error {
		for _, it := range items {
			src, ok := h[it.name]
			if !ok {
				return fmt.Errorf("hole %s missing", it.name)
			}
			d, err := t.def(it.doc, it.name, it.params, src, it.ctx, it.want)
			if err != nil {
				return err
			}
			s += d
		}
		return nil
	}
	newTr := func() *c18hTr {
		t := c18hNewTr(c18hH2Dir)
		t.types["ErrCode"] = "u32"
		t.types["FrameType"] = "u8"
		t.types["Flags"] = "u8"
		t.types["SettingID"] = "u16"
		t.calls["binary.BigEndian.Uint32"] = func(t *c18hTr, args []ast.Expr) (c18hVal, error) {
			if len(args) != 1 {
				return c18hVal{}, fmt.Errorf("Uint32 arity")
			}
			v, err := t.expr(args[0], "")
			if err != nil || v.typ != "bytes" {
				return v, fmt.Errorf("Uint32 of a non-slice: %v", err)
			}
			return c18hVal{lean: "(be32 " + v.lean + ")", typ: "u32"}, nil
		}
		t.calls["binary.BigEndian.Uint16"] = func(t *c18hTr, args []ast.Expr) (c18hVal, error) {
			if len(args) != 1 {
				return c18hVal{}, fmt.Errorf("Uint16 arity")
			}
			v, err := t.expr(args[0], "")
			if err != nil || v.typ != "bytes" {
				return v, fmt.Errorf("Uint16 of a non-slice: %v", err)
			}
			return c18hVal{lean: "(be16 " + v.lean + ")", typ: "u16"}, nil
		}
		t.calls["fh.Flags.Has"] = func(t *c18hTr, args []ast.Expr) (c18hVal, error) {
			if len(args) != 1 {
				return c18hVal{}, fmt.Errorf("Has arity")
			}
			v, err := t.expr(args[0], "u8")
			if err != nil {
				return v, err
			}
			return c18hVal{lean: "(flagsHas flags " + v.lean + ")", typ: "bool"}, nil
		}
		for _, fn := range []string{"validStreamID", "validStreamIDOrZero"} {
			fn := fn
			t.calls[fn] = func(t *c18hTr, args []ast.Expr) (c18hVal, error) {
				if len(args) != 1 {
					return c18hVal{}, fmt.Errorf("%s arity", fn)
				}
				v, err := t.expr(args[0], "u32")
				if err != nil {
					return v, err
				}
				return c18hVal{lean: "(" + fn + " " + v.lean + ")", typ: "bool"}, nil
			}
		}
		t.bind("fh.StreamID", "sid", "u32")
		t.bind("fh.Length", "length", "u32")
		t.bind("p", "p", "bytes")
		t.bind("payload", "p", "bytes")
		return t
	}

	// --- Flags.Has, readByte, readUint32, validStreamID
	h, err := match(ff, "Flags", "Has", c18hTplFlagsHas)
	if err != nil {
		return "", err
	}
	t := c18hNewTr(c18hH2Dir)
	t.bind("f", "f", "u8")
	t.bind("v", "v", "u8")
	if err := run(t, h, []item{{"Flags.Has", "flagsHas", "(f v : Nat)", "", "bool"}}); err != nil {
		return "", err
	}
	h, err = match(ff, "", "readByte", c18hTplReadByte)
	if err != nil {
		return "", err
	}
	if err := run(newTr(), h, []item{{"readByte: io.ErrUnexpectedEOF", "readByteShort", "(p : List UInt8)", "", "bool"}}); err != nil {
		return "", err
	}
	h, err = match(ff, "", "readUint32", c18hTplReadUint32)
	if err != nil {
		return "", err
	}
	if err := run(newTr(), h, []item{{"readUint32: io.ErrUnexpectedEOF", "readUint32Short", "(p : List UInt8)", "", "bool"}}); err != nil {
		return "", err
	}
	t = c18hNewTr(c18hH2Dir)
	t.bind("streamID", "streamID", "u32")
	h, err = match(ff, "", "validStreamID", c18hTplValidSid)
	if err != nil {
		return "", err
	}
	if err := run(t, h, []item{{"validStreamID", "validStreamID", "(streamID : Nat)", "", "bool"}}); err != nil {
		return "", err
	}
	h, err = match(ff, "", "validStreamIDOrZero", c18hTplValidSidOrZero)
	if err != nil {
		return "", err
	}
	if err := run(t, h, []item{{"validStreamIDOrZero", "validStreamIDOrZero", "(streamID : Nat)", "", "bool"}}); err != nil {
		return "", err
	}
	if _, err := match(ff, "PriorityParam", "IsZero", c18hTplIsZero); err != nil {
		return "", err
	}

	// --- parsers
	const hp = "(flags sid length : Nat) (p : List UInt8)"
	guard := func(name, doc string) item { return item{doc, name, hp, "", "bool"} }
	code := func(name string) item { return item{"the error code", name, "", "u32", "u32"} }

	h, err = match(ff, "", "parseSettingsFrame", c18hTplSettings)
	if err != nil {
		return "", err
	}
	t = newTr()
	t.bind("v", "v", "u32")
	t.bind("ok", "ok", "bool")
	if err := run(t, h, []item{
		guard("pSettingsAckLen", "parseSettingsFrame: ACK with a payload"), code("pSettingsAckLenCode"),
		guard("pSettingsSid", "parseSettingsFrame: stream id"), code("pSettingsSidCode"),
		guard("pSettingsMod", "parseSettingsFrame: not a whole number of settings"), code("pSettingsModCode"),
		{"parseSettingsFrame: the setting whose value is range-checked", "pSettingsWinId", "", "u16", "u16"},
		{"parseSettingsFrame: the first such setting is beyond the maximum window", "pSettingsWinBad", "(v : Nat) (ok : Bool)", "", "bool"},
		code("pSettingsWinCode"),
	}); err != nil {
		return "", err
	}
	if _, err := match(ff, "SettingsFrame", "Value", c18hTplSettingsValue); err != nil {
		return "", err
	}
	h, err = match(ff, "SettingsFrame", "Setting", c18hTplSetting)
	if err != nil {
		return "", err
	}
	t = newTr()
	t.bind("i", "i", "int")
	if err := run(t, h, []item{
		{"SettingsFrame.Setting: identifier from", "setIdLo", "(i : Nat)", "int", "int"}, {"to", "setIdHi", "(i : Nat)", "int", "int"},
		{"SettingsFrame.Setting: value from", "setValLo", "(i : Nat)", "int", "int"}, {"to", "setValHi", "(i : Nat)", "int", "int"},
	}); err != nil {
		return "", err
	}
	h, err = match(ff, "SettingsFrame", "NumSettings", c18hTplNumSettings)
	if err != nil {
		return "", err
	}
	t = newTr()
	t.bind("f.p", "p", "bytes")
	if err := run(t, h, []item{{"SettingsFrame.NumSettings", "numSettings", "(p : List UInt8)", "int", "int"}}); err != nil {
		return "", err
	}

	h, err = match(ff, "", "parsePingFrame", c18hTplPing)
	if err != nil {
		return "", err
	}
	if err := run(newTr(), h, []item{guard("pPingLen", "parsePingFrame: length"), code("pPingLenCode"), guard("pPingSid", "parsePingFrame: stream id"), code("pPingSidCode")}); err != nil {
		return "", err
	}

	h, err = match(ff, "", "parseGoAwayFrame", c18hTplGoAway)
	if err != nil {
		return "", err
	}
	if err := run(newTr(), h, []item{guard("pGoAwaySid", "parseGoAwayFrame: stream id"), code("pGoAwaySidCode"), guard("pGoAwayLen", "parseGoAwayFrame: length"), code("pGoAwayLenCode"),
		{"parseGoAwayFrame: LastStreamID", "pGoAwayLast", "(p : List UInt8)", "u32", "u32"},
		{"parseGoAwayFrame: ErrCode", "pGoAwayCode", "(p : List UInt8)", "u32", "u32"},
		{"parseGoAwayFrame: debug data", "pGoAwayDebug", "(p : List UInt8)", "", "bytes"}}); err != nil {
		return "", err
	}
	if _, err := match(ff, "", "parseUnknownFrame", c18hTplUnknown); err != nil {
		return "", err
	}

	h, err = match(ff, "", "parseWindowUpdateFrame", c18hTplWindowUpdate)
	if err != nil {
		return "", err
	}
	t = newTr()
	t.bind("inc", "inc", "u32")
	if err := run(t, h, []item{guard("pWuLen", "parseWindowUpdateFrame: length"), code("pWuLenCode"),
		{"parseWindowUpdateFrame: the increment (reserved bit masked)", "pWuInc", "(p : List UInt8)", "u32", "u32"},
		{"parseWindowUpdateFrame: zero increment", "pWuZero", "(inc : Nat)", "", "bool"},
		{"parseWindowUpdateFrame: … on the connection", "pWuZeroConn", "(sid : Nat)", "", "bool"}, code("pWuZeroConnCode"), code("pWuZeroStreamCode")}); err != nil {
		return "", err
	}

	h, err = match(ff, "", "parsePriorityFrame", c18hTplPriority)
	if err != nil {
		return "", err
	}
	t = newTr()
	t.bind("v", "v", "u32")
	t.bind("streamID", "dep", "u32")
	if err := run(t, h, []item{guard("pPrioSid", "parsePriorityFrame: stream id"), code("pPrioSidCode"), guard("pPrioLen", "parsePriorityFrame: length"), code("pPrioLenCode"),
		{"parsePriorityFrame: the 32-bit word", "pPrioV", "(p : List UInt8)", "u32", "u32"},
		{"parsePriorityFrame: stream dependency (high bit masked)", "pPrioDep", "(v : Nat)", "u32", "u32"},
		{"parsePriorityFrame: weight", "pPrioWeight", "(p : List UInt8)", "u8", "u8"},
		{"parsePriorityFrame: exclusive", "pPrioExcl", "(v dep : Nat)", "", "bool"}}); err != nil {
		return "", err
	}

	h, err = match(ff, "", "parseRSTStreamFrame", c18hTplRst)
	if err != nil {
		return "", err
	}
	if err := run(newTr(), h, []item{guard("pRstLen", "parseRSTStreamFrame: length"), code("pRstLenCode"), guard("pRstSid", "parseRSTStreamFrame: stream id"), code("pRstSidCode"),
		{"parseRSTStreamFrame: ErrCode", "pRstCode", "(p : List UInt8)", "u32", "u32"}}); err != nil {
		return "", err
	}

	h, err = match(ff, "", "parseContinuationFrame", c18hTplContinuation)
	if err != nil {
		return "", err
	}
	if err := run(newTr(), h, []item{guard("pContSid", "parseContinuationFrame: stream id"), code("pContSidCode")}); err != nil {
		return "", err
	}

	h, err = match(ff, "", "parsePushPromise", c18hTplPushPromise)
	if err != nil {
		return "", err
	}
	t = newTr()
	t.bind("pp.StreamID", "sid", "u32")
	t.bind("pp.PromiseID", "promised", "u32")
	t.bind("padLength", "padLength", "u8")
	if err := run(t, h, []item{guard("pPushSid", "parsePushPromise: stream id"), code("pPushSidCode"),
		guard("pPushPadded", "parsePushPromise: a pad length octet is present"),
		{"parsePushPromise: promised stream id (reserved bit masked)", "pPushPromised", "(promised : Nat)", "u32", "u32"},
		{"parsePushPromise: padding longer than the rest (p = payload after pad length and promised id)", "pPushPadBig", "(padLength : Nat) (p : List UInt8)", "", "bool"}, code("pPushPadBigCode"),
		{"parsePushPromise: header block fragment", "pPushFrag", "(padLength : Nat) (p : List UInt8)", "", "bytes"}}); err != nil {
		return "", err
	}

	// --- frameParsers / typeFrameParser
	if _, err := match(ff, "", "typeFrameParser", c18hTplTypeFrameParser); err != nil {
		return "", err
	}
	var fp *ast.CompositeLit
	for _, d := range ff.Decls {
		if gd, ok := d.(*ast.GenDecl); ok && gd.Tok == token.VAR {
			for _, sp := range gd.Specs {
				if vs, ok := sp.(*ast.ValueSpec); ok && len(vs.Names) == 1 && vs.Names[0].Name == "frameParsers" && len(vs.Values) == 1 {
					fp, _ = vs.Values[0].(*ast.CompositeLit)
				}
			}
		}
	}
	if fp == nil {
		return "", fmt.Errorf("frameParsers not found")
	}
	var ents []string
	for _, e := range fp.Elts {
		kv, ok := e.(*ast.KeyValueExpr)
		if !ok {
			return "", fmt.Errorf("frameParsers: element without key")
		}
		k, ok := c18hNewTr(c18hH2Dir).constOf(kv.Key)
		if !ok {
			return "", fmt.Errorf("frameParsers: key %s", c18hText(kv.Key))
		}
		ents = append(ents, fmt.Sprintf("(%d, \"%s\")", k, c18hText(kv.Value)))
	}
	sort.Strings(ents)
	s += "/-- frameParsers: frame type -> parser (any other type: parseUnknownFrame) -/\ndef frameParsers : List (Nat × String) := [" + strings.Join(ents, ", ") + "]\n"

	// --- write primitives
	byteDefs := func(f *ast.File, recv, fn, tpl, pre string, n int, typ, lname string) error {
		h, err := match(f, recv, fn, tpl)
		if err != nil {
			return err
		}
		t := c18hNewTr(c18hH2Dir)
		t.bind("v", "v", typ)
		var parts []string
		for i := 0; i < n; i++ {
			src := h[fmt.Sprintf("%sb%d", pre, i)]
			v, err := t.exprSrc(src, "u8")
			if err != nil {
				return err
			}
			if v.typ != "u8" {
				return fmt.Errorf("%s: byte %d has type %s", fn, i, v.typ)
			}
			parts = append(parts, "UInt8.ofNat "+v.lean)
		}
		s += fmt.Sprintf("/-- %s.%s -/\ndef %s (v : Nat) : List UInt8 := [%s]\n", recv, fn, lname, strings.Join(parts, ", "))
		return nil
	}
	if err := byteDefs(ff, "Framer", "writeUint16", c18hTplWriteUint16, "u16", 2, "u16", "u16be"); err != nil {
		return "", err
	}
	if err := byteDefs(ff, "Framer", "writeUint32", c18hTplWriteUint32, "u32", 4, "u32", "u32be"); err != nil {
		return "", err
	}
	if err := byteDefs(mf, "MFramer", "writeUint16", c18hTplMWriteUint16, "mu16", 2, "u16", "mu16be"); err != nil {
		return "", err
	}
	if err := byteDefs(mf, "MFramer", "writeUint32", c18hTplMWriteUint32, "mu32", 4, "u32", "mu32be"); err != nil {
		return "", err
	}
	for _, x := range []struct {
		f        *ast.File
		recv, fn string
		tpl      string
	}{{ff, "Framer", "writeByte", c18hTplWriteByte}, {ff, "Framer", "writeBytes", c18hTplWriteBytes}, {mf, "MFramer", "writeByte", c18hTplMWriteByte}, {mf, "MFramer", "writeBytes", c18hTplMWriteBytes}} {
		if _, err := match(x.f, x.recv, x.fn, x.tpl); err != nil {
			return "", err
		}
	}

	// --- writers
	type wspec struct {
		file       *ast.File
		recvType   string
		fn         string
		recv       string
		bufArg     bool
		inline     bool
		name, doc  string
		params     string
		bind       [][3]string
		u16, u32   string
		noGuardsOK bool
	}
	prio := [][3]string{{"p.Priority.StreamDep", "dep", "u32"}, {"p.Priority.Exclusive", "excl", "bool"}, {"p.Priority.Weight", "weight", "u8"},
		{"p.Priority.IsZero()", "prioZero", "bool"}}
	hdrBind := append([][3]string{{"p.StreamID", "streamID", "u32"}, {"p.PadLength", "padLength", "u8"}, {"p.EndStream", "endStream", "bool"},
		{"p.EndHeaders", "endHeaders", "bool"}, {"p.BlockFragment", "frag", "bytes"}}, prio...)
	const hdrParams = "(allowIllegal : Bool) (streamID : Nat) (endStream endHeaders : Bool) (padLength : Nat) (prioZero : Bool) (dep : Nat) (excl : Bool) (weight : Nat) (frag : List UInt8)"
	specs := []wspec{
		{ff, "Framer", "WriteDataPadded", "f", false, false, "wData", "Framer.WriteDataPadded", "(allowIllegal : Bool) (streamID : Nat) (endStream : Bool) (data : List UInt8) (padNil : Bool) (pad : List UInt8)",
			[][3]string{{"streamID", "streamID", "u32"}, {"endStream", "endStream", "bool"}, {"data", "data", "bytes"}, {"pad", "pad", "bytes"}, {"pad != nil", "(!padNil)", "bool"}}, "u16be", "u32be", false},
		{ff, "Framer", "WriteSettings", "f", false, false, "wSettings", "Framer.WriteSettings", "(settings : List (Nat × Nat))",
			[][3]string{{"settings", "settings", "settings"}}, "u16be", "u32be", true},
		{ff, "Framer", "WriteSettingsAck", "f", false, false, "wSettingsAck", "Framer.WriteSettingsAck", "", nil, "u16be", "u32be", true},
		{ff, "Framer", "WritePing", "f", false, false, "wPing", "Framer.WritePing", "(ack : Bool) (data : List UInt8)",
			[][3]string{{"ack", "ack", "bool"}, {"data", "data", "bytes"}}, "u16be", "u32be", true},
		{ff, "Framer", "WriteGoAway", "f", false, false, "wGoAway", "Framer.WriteGoAway", "(maxStreamID code : Nat) (debugData : List UInt8)",
			[][3]string{{"maxStreamID", "maxStreamID", "u32"}, {"code", "code", "u32"}, {"debugData", "debugData", "bytes"}}, "u16be", "u32be", true},
		{ff, "Framer", "WriteWindowUpdate", "f", false, false, "wWindowUpdate", "Framer.WriteWindowUpdate", "(allowIllegal : Bool) (streamID incr : Nat)",
			[][3]string{{"streamID", "streamID", "u32"}, {"incr", "incr", "u32"}}, "u16be", "u32be", false},
		{ff, "Framer", "WriteHeaders", "f", false, false, "wHeaders", "Framer.WriteHeaders", hdrParams, hdrBind, "u16be", "u32be", false},
		{ff, "Framer", "WritePriority", "f", false, false, "wPriority", "Framer.WritePriority", "(allowIllegal : Bool) (streamID dep : Nat) (excl : Bool) (weight : Nat)",
			[][3]string{{"streamID", "streamID", "u32"}, {"p.StreamDep", "dep", "u32"}, {"p.Exclusive", "excl", "bool"}, {"p.Weight", "weight", "u8"}}, "u16be", "u32be", false},
		{ff, "Framer", "WriteRSTStream", "f", false, false, "wRst", "Framer.WriteRSTStream", "(allowIllegal : Bool) (streamID code : Nat)",
			[][3]string{{"streamID", "streamID", "u32"}, {"code", "code", "u32"}}, "u16be", "u32be", false},
		{ff, "Framer", "WriteContinuation", "f", false, false, "wContinuation", "Framer.WriteContinuation", "(allowIllegal : Bool) (streamID : Nat) (endHeaders : Bool) (frag : List UInt8)",
			[][3]string{{"streamID", "streamID", "u32"}, {"endHeaders", "endHeaders", "bool"}, {"headerBlockFragment", "frag", "bytes"}}, "u16be", "u32be", false},
		{ff, "Framer", "WritePushPromise", "f", false, false, "wPushPromise", "Framer.WritePushPromise", "(allowIllegal : Bool) (streamID promiseID : Nat) (endHeaders : Bool) (padLength : Nat) (frag : List UInt8)",
			[][3]string{{"p.StreamID", "streamID", "u32"}, {"p.PromiseID", "promiseID", "u32"}, {"p.EndHeaders", "endHeaders", "bool"}, {"p.PadLength", "padLength", "u8"}, {"p.BlockFragment", "frag", "bytes"}}, "u16be", "u32be", false},
		{ff, "Framer", "WriteRawFrame", "f", false, false, "wRaw", "Framer.WriteRawFrame", "(t flags streamID : Nat) (payload : List UInt8)",
			[][3]string{{"t", "t", "u8"}, {"flags", "flags", "u8"}, {"streamID", "streamID", "u32"}, {"payload", "payload", "bytes"}}, "u16be", "u32be", true},
		// MFramer
		{mf, "MFramer", "writeSettings", "fr", true, false, "mSettings", "MFramer.writeSettings", "(settings : List (Nat × Nat))",
			[][3]string{{"settings", "settings", "settings"}}, "mu16be", "mu32be", true},
		{mf, "MFramer", "writeWindowUpdate", "fr", true, false, "mWindowUpdate", "MFramer.writeWindowUpdate", "(streamID incr : Nat)",
			[][3]string{{"streamID", "streamID", "u32"}, {"incr", "incr", "u32"}}, "mu16be", "mu32be", false},
		{mf, "MFramer", "sendData", "fr", true, false, "mData", "MFramer.sendData", "(streamID : Nat) (endStream : Bool) (data : List UInt8)",
			[][3]string{{"streamID", "streamID", "u32"}, {"endStream", "endStream", "bool"}, {"data", "data", "bytes"}}, "mu16be", "mu32be", false},
		{mf, "MFramer", "writeContinuation", "fr", true, false, "mContinuation", "MFramer.writeContinuation", "(streamID : Nat) (endHeaders : Bool) (frag : List UInt8)",
			[][3]string{{"streamID", "streamID", "u32"}, {"endHeaders", "endHeaders", "bool"}, {"headerBlockFragment", "frag", "bytes"}}, "mu16be", "mu32be", false},
		{mf, "MFramer", "writeHeaders", "fr", true, false, "mHeaders", "MFramer.writeHeaders", strings.Replace(hdrParams, "(allowIllegal : Bool) ", "", 1), hdrBind, "mu16be", "mu32be", false},
		// written in line
		{mf, "MServerConn", "processSettings", "sc.Framer", true, true, "mSrvSettingsAck", "MServerConn.processSettings (the acknowledgement)", "", nil, "mu16be", "mu32be", true},
		{mf, "MClientConn", "processSettings", "cc.Framer", true, true, "mCliSettingsAck", "MClientConn.processSettings (the acknowledgement)", "", nil, "mu16be", "mu32be", true},
		{mf, "MServerConn", "processPing", "sc.Framer", true, true, "mSrvPingAck", "MServerConn.processPing (the acknowledgement)", "(data : List UInt8)",
			[][3]string{{"f.Data", "data", "bytes"}}, "mu16be", "mu32be", true},
		{mf, "MClientConn", "processPing", "cc.Framer", true, true, "mCliPingAck", "MClientConn.processPing (the acknowledgement)", "(data : List UInt8)",
			[][3]string{{"f.Data", "data", "bytes"}}, "mu16be", "mu32be", true},
		{mf, "MClientConn", "WritePing", "cc.Framer", true, false, "mCliPing", "MClientConn.WritePing", "(ack : Bool) (data : List UInt8)",
			[][3]string{{"ack", "ack", "bool"}, {"data", "data", "bytes"}}, "mu16be", "mu32be", true},
		{mf, "MServerConn", "resetStream", "sc.Framer", true, true, "mSrvRst", "MServerConn.resetStream", "(streamID code : Nat)",
			[][3]string{{"se.StreamID", "streamID", "u32"}, {"se.Code", "code", "u32"}}, "mu16be", "mu32be", true},
		{mf, "MClientConn", "resetStream", "sc.Framer", true, true, "mCliRst", "MClientConn.resetStream", "(streamID code : Nat)",
			[][3]string{{"se.StreamID", "streamID", "u32"}, {"se.Code", "code", "u32"}}, "mu16be", "mu32be", true},
		{mf, "MServerConn", "goAway", "sc.Framer", true, true, "mSrvGoAway", "MServerConn.goAway", "(maxClientStreamID code : Nat) (debugData : List UInt8)",
			[][3]string{{"sc.maxClientStreamID", "maxClientStreamID", "u32"}, {"code", "code", "u32"}, {"debugData", "debugData", "bytes"}}, "mu16be", "mu32be", true},
	}
	for _, sp := range specs {
		fd := findFunc(sp.file, sp.recvType, sp.fn)
		if fd == nil || fd.Body == nil {
			return "", fmt.Errorf("%s.%s not found", sp.recvType, sp.fn)
		}
		t := newTr()
		delete(t.names, "p")
		delete(t.names, "payload")
		t.bind("f.AllowIllegalWrites", "allowIllegal", "bool")
		for _, b := range sp.bind {
			t.bind(b[0], b[1], b[2])
		}
		w := &c18hWr{t: t, recv: sp.recv, bufArg: sp.bufArg}
		list := fd.Body.List
		if sp.inline {
			list = c18hFindWrite(fd.Body, sp.recv)
			if list == nil {
				return "", fmt.Errorf("%s.%s: no frame is written", sp.recvType, sp.fn)
			}
			w.flags = "0"
		}
		if err := w.stmts(list, ""); err != nil {
			return "", fmt.Errorf("%s.%s: %v", sp.recvType, sp.fn, err)
		}
		if len(w.guards) == 0 && !sp.noGuardsOK {
			return "", fmt.Errorf("%s.%s: the refusal tests are gone", sp.recvType, sp.fn)
		}
		out, err := w.render(sp.name, sp.doc, sp.params)
		if err != nil {
			return "", err
		}
		// the payload of this writer uses its own framer's integer layout
		out = strings.ReplaceAll(out, "(u16be ", "("+sp.u16+" ")
		out = strings.ReplaceAll(out, "(u32be ", "("+sp.u32+" ")
		s += out
	}
	// WriteData is WriteDataPadded with a nil pad
	fd := findFunc(ff, "Framer", "WriteData")
	if fd == nil || c18hText(fd.Body) != "{ return f.WriteDataPadded(streamID, endStream, data, nil) }" {
		return "", fmt.Errorf("Framer.WriteData is not WriteDataPadded(…, nil)")
	}
	s += footer("H2Payload")
	return s, nil
}
