package main

import (
	"fmt"
	"go/ast"
	"go/token"
	"os"
	"path/filepath"
	"sort"
	"strings"
)

func init() { register("VhostLocks", genC12vVhostLocks) }

// genC12vVhostLocks regenerates the LOCK STRUCTURE of the virtual host's route table (pkg/router/virtualhost.go, property C12):
// for EVERY method of VirtualHostImpl (and the constructor NewVirtualHostImpl) the statements in source order (nested blocks
// flattened, calls of other VirtualHostImpl methods inlined) as a step program over a closed vocabulary:
//
//	lock / unlock / rlock / runlock   <recv>.mutex.Lock() / Unlock() / RLock() / RUnlock(); a `defer <recv>.mutex.(R)Unlock()` becomes
//	                                  the unlock step at the END of the function's program. Lock operations are accepted at the top
//	                                  level of a function body only.
//	walkRoutes      a read of <recv>.routes in place: `range <recv>.routes` (the loop body follows, flattened), `<recv>.routes[i]`,
//	                `len(<recv>.routes)`, a nil comparison, a copy of every cell (`append(<other>, <recv>.routes...)`, `copy(dst, …)`)
//	aliasRoutes     a copy of the slice header: `x := <recv>.routes` (also `= <recv>.routes[a:b]`); x is tracked from there on
//	walkAlias       a read through a tracked header copy: `range x`, `x[i]`, `len(x)`
//	resetRoutes     INPLACE  `<recv>.routes = <recv>.routes[:0]` (same backing array, length 0)
//	appendRoutes    INPLACE  `<recv>.routes = append(<recv>.routes, …)` (writes into the backing array while it has room)
//	storeRoutes     INPLACE  `<recv>.routes[i] = …`
//	inplaceRoutes   INPLACE  any other reslice of the field onto itself
//	freshRoutes     REPLACE  `<recv>.routes = nil | make(…) | []T{…}`
//	readIndex       a read of <recv>.fastIndex in place (`<recv>.fastIndex[k]` as a value, range, len)
//	aliasIndex      a copy of the map pointer or of an inner map: `m := <recv>.fastIndex`, `m, ok := <recv>.fastIndex[k]`
//	readAlias       a read through a tracked map copy: `m[v]`, range, len
//	putIndex        INPLACE  `<recv>.fastIndex[k] = …`, `delete(<recv>.fastIndex, k)`
//	putAlias        INPLACE  `m[v] = …`, `delete(m, v)` through a tracked copy
//	freshIndex      REPLACE  `<recv>.fastIndex = make(…) | map…{…}` (in the constructor: the `fastIndex:` key of the literal)
//	escape          every other mention of the two fields, of a tracked copy or of the mutex (argument of a call, returned, stored,
//	                captured by a closure, used by a go / defer statement): it leaves what this extractor can follow
//	other           statements that mention none of them (consecutive ones are merged)
//
// A write of <recv>.routes inside a nested block (conditional / repeated within one call) and every shape of an assignment to
// the two fields that is not listed are rejected (=> translation-unsupported), as are a `return` while a lock is held whose
// unlock is not deferred, a lock operation inside a nested block, and a call of a locking method while a lock is held.
// The flattened program visits the steps of the longest path; a nested block may be skipped or repeated at run time, but it
// cannot change which lock is held (lock operations are top level), so "this access is inside the critical section" read off
// the program holds on every path.
//
// Also regenerated: the request path and the single-route mutators of routersImpl (pkg/router/routers_impl.go) as caller
// programs (which virtual-host method they reach, once), where else in the package the two fields are touched (nowhere), and
// whether the fields of routersImpl that select the virtual host are written outside NewRouters (they are not: the table that
// maps a domain to a virtual host is immutable once built, which is why findVirtualHost needs no lock).
// What the steps DO (a shared backing array with capacity, slice headers, in-place programs) is the hand-written
// Model/VhostTable.lean; whether the programs have the discipline the theorems need is decided in Lean on these lists.

const c12vFile = "pkg/router/virtualhost.go"
const c12vType = "VirtualHostImpl"

type c12vWalk struct {
	fn       string
	recv     string
	file     *ast.File
	methods  map[string]*ast.FuncDecl
	held     string // "", "r", "w"
	deferred string // unlock step of a deferred unlock of this frame
	depth    int    // nesting depth inside the current function frame
	inline   int    // inlining depth
	ralias   map[string]bool
	ialias   map[string]bool
	steps    *[]string
}

func (w *c12vWalk) emit(s string) {
	if s == "other" && len(*w.steps) > 0 && (*w.steps)[len(*w.steps)-1] == ".other" {
		return
	}
	*w.steps = append(*w.steps, "."+s)
}

func (w *c12vWalk) bad(n ast.Node, why string) error {
	return fmt.Errorf("%s.%s: %s at %s", c12vType, w.fn, why, fset.Position(n.Pos()))
}

func (w *c12vWalk) routesKey() string { return w.recv + ".routes" }
func (w *c12vWalk) indexKey() string  { return w.recv + ".fastIndex" }
func (w *c12vWalk) mutexKey() string  { return w.recv + ".mutex" }

func (w *c12vWalk) isRoutes(e ast.Expr) bool { return exprKey(e) == w.routesKey() }
func (w *c12vWalk) isIndex(e ast.Expr) bool  { return exprKey(e) == w.indexKey() }
func (w *c12vWalk) isRAlias(e ast.Expr) bool {
	id, ok := c12vUnparen(e).(*ast.Ident)
	return ok && w.ralias[id.Name]
}
func (w *c12vWalk) isIAlias(e ast.Expr) bool {
	id, ok := c12vUnparen(e).(*ast.Ident)
	return ok && w.ialias[id.Name]
}

func c12vUnparen(e ast.Expr) ast.Expr {
	for {
		p, ok := e.(*ast.ParenExpr)
		if !ok {
			return e
		}
		e = p.X
	}
}

// c12vIndexBase: the expression indexed by a (possibly repeated) index expression: a[b][c] -> a
func c12vIndexBase(e ast.Expr) (ast.Expr, bool) {
	ix, ok := c12vUnparen(e).(*ast.IndexExpr)
	if !ok {
		return nil, false
	}
	b := c12vUnparen(ix.X)
	for {
		in, ok := b.(*ast.IndexExpr)
		if !ok {
			return b, true
		}
		b = c12vUnparen(in.X)
	}
}

func c12vIsFresh(e ast.Expr) bool {
	switch x := c12vUnparen(e).(type) {
	case *ast.CompositeLit:
		return true
	case *ast.CallExpr:
		return exprKey(x.Fun) == "make"
	}
	return false
}

type c12vEv struct {
	pos  token.Pos
	step string
}

// c12vMentions collects the events of every remaining mention of the tracked objects inside n (anything already claimed is
// skipped), in source order.
func (w *c12vWalk) mentions(n ast.Node, claimed map[ast.Node]bool) []c12vEv {
	if n == nil {
		return nil
	}
	var evs []c12vEv
	add := func(m ast.Node, s string) { evs = append(evs, c12vEv{m.Pos(), s}) }
	var visit func(n ast.Node, closure bool)
	visit = func(n ast.Node, closure bool) {
		ast.Inspect(n, func(m ast.Node) bool {
			if m == nil || claimed[m] {
				return false
			}
			switch x := m.(type) {
			case *ast.FuncLit:
				claimed[x] = true
				visit(x.Body, true)
				return false
			case *ast.CallExpr:
				k := exprKey(x.Fun)
				if !closure && (k == "len" || k == "cap") && len(x.Args) == 1 {
					a := x.Args[0]
					switch {
					case w.isRoutes(a):
						claimed[a] = true
						add(x, "walkRoutes")
					case w.isIndex(a):
						claimed[a] = true
						add(x, "readIndex")
					case w.isRAlias(a):
						claimed[c12vUnparen(a)] = true
						add(x, "walkAlias")
					case w.isIAlias(a):
						claimed[c12vUnparen(a)] = true
						add(x, "readAlias")
					}
				}
				// a copy of every cell into another slice (`append(<other>, <recv>.routes...)`, `copy(dst, <recv>.routes)`) reads the
				// table in place; the result is a fresh slice, not a copy of the header
				if !closure && k == "append" && x.Ellipsis.IsValid() && len(x.Args) == 2 && !w.isRoutes(x.Args[0]) && !w.isRAlias(x.Args[0]) {
					a := x.Args[1]
					switch {
					case w.isRoutes(a):
						claimed[a] = true
						add(x, "walkRoutes")
					case w.isRAlias(a):
						claimed[c12vUnparen(a)] = true
						add(x, "walkAlias")
					}
				}
				if !closure && k == "copy" && len(x.Args) == 2 && !w.isRoutes(x.Args[0]) && !w.isRAlias(x.Args[0]) {
					a := x.Args[1]
					switch {
					case w.isRoutes(a):
						claimed[a] = true
						add(x, "walkRoutes")
					case w.isRAlias(a):
						claimed[c12vUnparen(a)] = true
						add(x, "walkAlias")
					}
				}
				if !closure && k == "delete" && len(x.Args) == 2 {
					a := x.Args[0]
					switch {
					case w.isIndex(a):
						claimed[a] = true
						add(x, "putIndex")
					case w.isIAlias(a):
						claimed[c12vUnparen(a)] = true
						add(x, "putAlias")
					default:
						if b, ok := c12vIndexBase(a); ok && w.isIndex(b) {
							claimed[b] = true
							add(x, "putIndex")
						}
					}
				}
			case *ast.IndexExpr:
				if closure {
					break
				}
				if b, ok := c12vIndexBase(x); ok && !claimed[b] {
					switch {
					case w.isRoutes(b):
						claimed[b] = true
						add(x, "walkRoutes")
					case w.isIndex(b):
						claimed[b] = true
						add(x, "readIndex")
					case w.isRAlias(b):
						claimed[b] = true
						add(x, "walkAlias")
					case w.isIAlias(b):
						claimed[b] = true
						add(x, "readAlias")
					}
				}
			case *ast.BinaryExpr:
				if closure || (x.Op != token.EQL && x.Op != token.NEQ) {
					break
				}
				for _, pr := range [][2]ast.Expr{{x.X, x.Y}, {x.Y, x.X}} {
					if exprKey(pr[1]) != "nil" {
						continue
					}
					switch {
					case w.isRoutes(pr[0]):
						claimed[pr[0]] = true
						add(x, "walkRoutes")
					case w.isIndex(pr[0]):
						claimed[pr[0]] = true
						add(x, "readIndex")
					case w.isRAlias(pr[0]):
						claimed[c12vUnparen(pr[0])] = true
						add(x, "walkAlias")
					case w.isIAlias(pr[0]):
						claimed[c12vUnparen(pr[0])] = true
						add(x, "readAlias")
					}
				}
			case *ast.SelectorExpr:
				if w.isRoutes(x) || w.isIndex(x) || exprKey(x) == w.mutexKey() {
					claimed[x] = true
					add(x, "escape")
					return false
				}
			case *ast.Ident:
				if w.ralias[x.Name] || w.ialias[x.Name] {
					add(x, "escape")
				}
			}
			return true
		})
	}
	visit(n, false)
	sort.SliceStable(evs, func(i, j int) bool { return evs[i].pos < evs[j].pos })
	return evs
}

// callee: `<recv>.<method>(…)` with <method> a method of VirtualHostImpl declared in virtualhost.go
func (w *c12vWalk) callee(e ast.Expr) (*ast.FuncDecl, *ast.CallExpr) {
	ce, ok := c12vUnparen(e).(*ast.CallExpr)
	if !ok {
		return nil, nil
	}
	sel, ok := ce.Fun.(*ast.SelectorExpr)
	if !ok || exprKey(sel.X) != w.recv {
		return nil, nil
	}
	return w.methods[sel.Sel.Name], ce
}

func c12vHasLockOps(steps []string) bool {
	for _, s := range steps {
		switch s {
		case ".lock", ".unlock", ".rlock", ".runlock":
			return true
		}
	}
	return false
}

func c12vTouches(steps []string) bool {
	for _, s := range steps {
		if s != ".other" {
			return true
		}
	}
	return false
}

// inlineCall renders a call of another method of the type at this point of the program.
func (w *c12vWalk) inlineCall(fd *ast.FuncDecl, ce *ast.CallExpr) error {
	if w.inline >= 3 {
		return w.bad(ce, "method calls nested deeper than 3")
	}
	for _, a := range ce.Args {
		if evs := w.mentions(a, map[ast.Node]bool{}); len(evs) > 0 {
			w.emit("escape")
		}
	}
	sub, err := c12vMethodSteps(w.file, w.methods, fd, w.inline+1)
	if err != nil {
		return err
	}
	if w.held != "" && c12vHasLockOps(sub) {
		return w.bad(ce, "call of the locking method "+fd.Name.Name+" while the mutex is held")
	}
	for _, s := range sub {
		w.emit(s[1:])
	}
	return nil
}

// simple renders one statement / expression without nested blocks.
func (w *c12vWalk) simple(n ast.Node) error {
	if n == nil {
		return nil
	}
	claimed := map[ast.Node]bool{}
	var evs []c12vEv
	add := func(m ast.Node, s string) { evs = append(evs, c12vEv{m.Pos(), s}) }
	var track []func()
	// method calls of the type inside the statement
	var callErr error
	ast.Inspect(n, func(m ast.Node) bool {
		if e, ok := m.(ast.Expr); ok {
			if fd, ce := w.callee(e); fd != nil {
				sub, err := c12vMethodSteps(w.file, w.methods, fd, w.inline+1)
				if err != nil {
					callErr = err
					return false
				}
				if c12vTouches(sub) {
					callErr = w.bad(ce, "call of the table-touching method "+fd.Name.Name+" inside an expression")
				}
			}
		}
		return true
	})
	if callErr != nil {
		return callErr
	}
	if as, ok := n.(*ast.AssignStmt); ok {
		// left-hand sides that are the fields themselves
		if len(as.Lhs) == 1 && len(as.Rhs) == 1 && as.Tok == token.ASSIGN {
			l, r := c12vUnparen(as.Lhs[0]), c12vUnparen(as.Rhs[0])
			switch {
			case w.isRoutes(l):
				claimed[l] = true
				step := ""
				switch x := r.(type) {
				case *ast.SliceExpr:
					if w.isRoutes(x.X) {
						claimed[x.X] = true
						if x.Low == nil && x.High != nil && exprKey(x.High) == "0" && !x.Slice3 {
							step = "resetRoutes"
						} else {
							step = "inplaceRoutes"
						}
					}
				case *ast.CallExpr:
					if exprKey(x.Fun) == "append" && len(x.Args) >= 1 && w.isRoutes(x.Args[0]) && !x.Ellipsis.IsValid() {
						claimed[x.Args[0]] = true
						step = "appendRoutes"
					} else if exprKey(x.Fun) == "make" {
						step = "freshRoutes"
					}
				case *ast.CompositeLit:
					step = "freshRoutes"
				case *ast.Ident:
					if x.Name == "nil" {
						step = "freshRoutes"
					}
				}
				if step == "" {
					return w.bad(n, "assignment to "+w.routesKey()+" of an unknown shape")
				}
				if w.depth > 0 {
					return w.bad(n, "write of "+w.routesKey()+" inside a nested block")
				}
				add(as, step)
			case w.isIndex(l):
				claimed[l] = true
				if !c12vIsFresh(r) {
					return w.bad(n, "assignment to "+w.indexKey()+" of an unknown shape")
				}
				add(as, "freshIndex")
			}
		}
		for _, l := range as.Lhs {
			b, ok := c12vIndexBase(l)
			if !ok {
				continue
			}
			switch {
			case w.isRoutes(b):
				claimed[b] = true
				if w.depth > 0 {
					return w.bad(n, "write of "+w.routesKey()+" inside a nested block")
				}
				add(l, "storeRoutes")
			case w.isIndex(b):
				claimed[b] = true
				add(l, "putIndex")
				// `index[k] = m` with m a tracked (inner) map: the map is linked into the index, not handed to anybody else
				if len(as.Lhs) == 1 && len(as.Rhs) == 1 && w.isIAlias(as.Rhs[0]) {
					claimed[c12vUnparen(as.Rhs[0])] = true
				}
			case w.isIAlias(b):
				claimed[b] = true
				add(l, "putAlias")
			case w.isRAlias(b):
				claimed[b] = true
				add(l, "escape") // a store through a header copy
			}
		}
		// copies: x := field / x := field[a:b] / m, ok := index[k]
		if len(as.Rhs) == 1 && len(as.Lhs) >= 1 {
			if id, ok := as.Lhs[0].(*ast.Ident); ok && id.Name != "_" {
				r := c12vUnparen(as.Rhs[0])
				name := id.Name
				switch x := r.(type) {
				case *ast.SelectorExpr:
					if w.isRoutes(x) && len(as.Lhs) == 1 {
						claimed[x], claimed[id] = true, true
						add(x, "aliasRoutes")
						track = append(track, func() { w.ralias[name] = true })
					} else if w.isIndex(x) && len(as.Lhs) == 1 {
						claimed[x], claimed[id] = true, true
						add(x, "aliasIndex")
						track = append(track, func() { w.ialias[name] = true })
					}
				case *ast.SliceExpr:
					if w.isRoutes(x.X) && len(as.Lhs) == 1 {
						claimed[x.X], claimed[id] = true, true
						add(x, "aliasRoutes")
						track = append(track, func() { w.ralias[name] = true })
					} else if w.isRAlias(x.X) && len(as.Lhs) == 1 {
						claimed[c12vUnparen(x.X)], claimed[id] = true, true
						add(x, "other")
						track = append(track, func() { w.ralias[name] = true })
					}
				case *ast.IndexExpr:
					// an element of the outer index map is an inner MAP (a pointer into the shared index); an element of an
					// inner map / of the route slice is a route (not tracked)
					if w.isIndex(x.X) {
						claimed[x.X], claimed[id] = true, true
						add(x, "aliasIndex")
						track = append(track, func() { w.ialias[name] = true })
					}
				case *ast.Ident:
					if len(as.Lhs) == 1 && w.ralias[x.Name] {
						claimed[x], claimed[id] = true, true
						track = append(track, func() { w.ralias[name] = true })
					} else if len(as.Lhs) == 1 && w.ialias[x.Name] {
						claimed[x], claimed[id] = true, true
						track = append(track, func() { w.ialias[name] = true })
					}
				case *ast.CallExpr, *ast.CompositeLit:
					// a tracked name that receives a fresh object stays tracked (it is linked into the index next): no event
					if len(as.Lhs) == 1 && (w.ialias[name] || w.ralias[name]) && c12vIsFresh(r) {
						claimed[id] = true
					}
				}
			}
		}
	}
	evs = append(evs, w.mentions(n, claimed)...)
	sort.SliceStable(evs, func(i, j int) bool { return evs[i].pos < evs[j].pos })
	if len(evs) == 0 {
		w.emit("other")
	}
	for _, e := range evs {
		w.emit(e.step)
	}
	for _, f := range track {
		f()
	}
	return nil
}

var c12vLockCalls = map[string][2]string{ // method -> (step, mode after)
	"Lock": {"lock", "w"}, "Unlock": {"unlock", ""}, "RLock": {"rlock", "r"}, "RUnlock": {"runlock", ""},
}

func (w *c12vWalk) mutexCall(ce *ast.CallExpr) (string, bool) {
	sel, ok := ce.Fun.(*ast.SelectorExpr)
	if !ok || exprKey(sel.X) != w.mutexKey() || len(ce.Args) != 0 {
		return "", false
	}
	_, ok = c12vLockCalls[sel.Sel.Name]
	return sel.Sel.Name, ok
}

func (w *c12vWalk) block(list []ast.Stmt, nested bool) error {
	if nested {
		w.depth++
		defer func() { w.depth-- }()
	}
	for _, st := range list {
		if err := w.stmt(st); err != nil {
			return err
		}
	}
	return nil
}

func (w *c12vWalk) stmt(st ast.Stmt) error {
	switch x := st.(type) {
	case nil:
		return nil
	case *ast.ExprStmt:
		if ce, ok := x.X.(*ast.CallExpr); ok {
			if m, ok := w.mutexCall(ce); ok {
				if w.depth > 0 {
					return w.bad(st, "lock operation inside a nested block")
				}
				step := c12vLockCalls[m]
				switch m {
				case "Lock", "RLock":
					if w.held != "" {
						return w.bad(st, m+" while the mutex is held")
					}
				case "Unlock":
					if w.held != "w" || w.deferred != "" {
						return w.bad(st, "Unlock while the write lock is not held / an unlock is deferred")
					}
				case "RUnlock":
					if w.held != "r" || w.deferred != "" {
						return w.bad(st, "RUnlock while the read lock is not held / an unlock is deferred")
					}
				}
				w.held = step[1]
				w.emit(step[0])
				return nil
			}
			if fd, ce := w.callee(x.X); fd != nil {
				return w.inlineCall(fd, ce)
			}
		}
		return w.simple(st)
	case *ast.DeferStmt:
		if m, ok := w.mutexCall(x.Call); ok {
			if w.depth > 0 || w.deferred != "" {
				return w.bad(st, "deferred unlock inside a nested block / second deferred unlock")
			}
			if (m == "Unlock" && w.held == "w") || (m == "RUnlock" && w.held == "r") {
				w.deferred = c12vLockCalls[m][0]
				return nil
			}
			return w.bad(st, "defer of "+m+" that does not match the lock held")
		}
		if len(w.mentions(x.Call, map[ast.Node]bool{})) != 0 {
			w.emit("escape")
		} else {
			w.emit("other")
		}
		return nil
	case *ast.GoStmt:
		if len(w.mentions(x.Call, map[ast.Node]bool{})) != 0 {
			w.emit("escape")
		} else {
			w.emit("other")
		}
		return nil
	case *ast.IfStmt:
		if err := w.stmt(x.Init); err != nil {
			return err
		}
		if err := w.simple(x.Cond); err != nil {
			return err
		}
		if err := w.block(x.Body.List, true); err != nil {
			return err
		}
		if x.Else != nil {
			if eb, ok := x.Else.(*ast.BlockStmt); ok {
				return w.block(eb.List, true)
			}
			w.depth++
			defer func() { w.depth-- }()
			return w.stmt(x.Else)
		}
		return nil
	case *ast.ForStmt:
		if err := w.stmt(x.Init); err != nil {
			return err
		}
		if x.Cond != nil {
			if err := w.simple(x.Cond); err != nil {
				return err
			}
		}
		if err := w.block(x.Body.List, true); err != nil {
			return err
		}
		w.depth++
		defer func() { w.depth-- }()
		return w.stmt(x.Post)
	case *ast.RangeStmt:
		rx := c12vUnparen(x.X)
		switch {
		case w.isRoutes(rx):
			w.emit("walkRoutes")
		case w.isIndex(rx):
			w.emit("readIndex")
		case w.isRAlias(rx):
			w.emit("walkAlias")
		case w.isIAlias(rx):
			w.emit("readAlias")
		default:
			if err := w.simple(x.X); err != nil {
				return err
			}
		}
		return w.block(x.Body.List, true)
	case *ast.BlockStmt:
		return w.block(x.List, true)
	case *ast.SwitchStmt:
		if err := w.stmt(x.Init); err != nil {
			return err
		}
		if x.Tag != nil {
			if err := w.simple(x.Tag); err != nil {
				return err
			}
		}
		for _, c := range x.Body.List {
			cc := c.(*ast.CaseClause)
			for _, e := range cc.List {
				if err := w.simple(e); err != nil {
					return err
				}
			}
			if err := w.block(cc.Body, true); err != nil {
				return err
			}
		}
		return nil
	case *ast.ReturnStmt:
		if w.held != "" && w.deferred == "" {
			return w.bad(st, "return while the mutex is held and no unlock is deferred")
		}
		if len(x.Results) == 1 {
			if fd, ce := w.callee(x.Results[0]); fd != nil {
				return w.inlineCall(fd, ce)
			}
		}
		return w.simple(st)
	case *ast.AssignStmt, *ast.DeclStmt, *ast.IncDecStmt, *ast.BranchStmt, *ast.EmptyStmt:
		return w.simple(st)
	}
	return w.bad(st, fmt.Sprintf("statement kind %T outside the vocabulary", st))
}

func c12vRecvName(fd *ast.FuncDecl) string {
	if fd.Recv == nil || len(fd.Recv.List) == 0 || len(fd.Recv.List[0].Names) == 0 {
		return ""
	}
	return fd.Recv.List[0].Names[0].Name
}

// c12vMethodSteps: the step program of one method (deferred unlock at the end).
func c12vMethodSteps(f *ast.File, methods map[string]*ast.FuncDecl, fd *ast.FuncDecl, inline int) ([]string, error) {
	recv := c12vRecvName(fd)
	if recv == "" || recv == "_" {
		return nil, fmt.Errorf("%s.%s: unnamed receiver", c12vType, fd.Name.Name)
	}
	var steps []string
	w := &c12vWalk{fn: fd.Name.Name, recv: recv, file: f, methods: methods, inline: inline, ralias: map[string]bool{}, ialias: map[string]bool{}, steps: &steps}
	if err := w.block(fd.Body.List, false); err != nil {
		return nil, err
	}
	if w.deferred != "" {
		w.emit(w.deferred)
	} else if w.held != "" {
		return nil, fmt.Errorf("%s.%s: function ends with the mutex held", c12vType, fd.Name.Name)
	}
	return steps, nil
}

func c12vLowerFirst(s string) string {
	if s == "" {
		return s
	}
	return strings.ToLower(s[:1]) + s[1:]
}

// c12vConstructor: NewVirtualHostImpl — `<v> := &VirtualHostImpl{…}` (the literal's keys for the two fields), then the rest of
// the body with <v> as the receiver.
func c12vConstructor(f *ast.File, methods map[string]*ast.FuncDecl) ([]string, error) {
	fd := findFunc(f, "", "NewVirtualHostImpl")
	if fd == nil {
		return nil, fmt.Errorf("NewVirtualHostImpl not found")
	}
	if len(fd.Body.List) == 0 {
		return nil, fmt.Errorf("NewVirtualHostImpl: empty body")
	}
	as, ok := fd.Body.List[0].(*ast.AssignStmt)
	if !ok || as.Tok != token.DEFINE || len(as.Lhs) != 1 || len(as.Rhs) != 1 {
		return nil, fmt.Errorf("NewVirtualHostImpl: first statement is not `v := &VirtualHostImpl{…}`")
	}
	u, ok := as.Rhs[0].(*ast.UnaryExpr)
	if !ok || u.Op != token.AND {
		return nil, fmt.Errorf("NewVirtualHostImpl: first statement is not `v := &VirtualHostImpl{…}`")
	}
	cl, ok := u.X.(*ast.CompositeLit)
	if !ok || exprKey(cl.Type) != c12vType {
		return nil, fmt.Errorf("NewVirtualHostImpl: first statement is not `v := &VirtualHostImpl{…}`")
	}
	recv := exprKey(as.Lhs[0])
	var steps []string
	w := &c12vWalk{fn: "NewVirtualHostImpl", recv: recv, file: f, methods: methods, ralias: map[string]bool{}, ialias: map[string]bool{}, steps: &steps}
	for _, el := range cl.Elts {
		kv, ok := el.(*ast.KeyValueExpr)
		if !ok {
			return nil, fmt.Errorf("NewVirtualHostImpl: positional composite literal")
		}
		switch exprKey(kv.Key) {
		case "fastIndex":
			if !c12vIsFresh(kv.Value) {
				return nil, fmt.Errorf("NewVirtualHostImpl: fastIndex is not initialised with a fresh map")
			}
			w.emit("freshIndex")
		case "routes":
			if !c12vIsFresh(kv.Value) && exprKey(kv.Value) != "nil" {
				return nil, fmt.Errorf("NewVirtualHostImpl: routes is not initialised with a fresh slice")
			}
			w.emit("freshRoutes")
		case "mutex":
			return nil, fmt.Errorf("NewVirtualHostImpl: the mutex is initialised explicitly")
		default:
			if len(w.mentions(kv.Value, map[ast.Node]bool{})) != 0 {
				w.emit("escape")
			}
		}
	}
	if err := w.block(fd.Body.List[1:], false); err != nil {
		return nil, err
	}
	if w.held != "" {
		return nil, fmt.Errorf("NewVirtualHostImpl: ends with the mutex held")
	}
	return steps, nil
}

// ---------------------------------------------------------------- the callers in routers_impl.go

var c12vTableMethods = map[string]string{
	"GetRouteFromEntries": "callEntries", "GetAllRoutesFromEntries": "callAll", "GetRouteFromHeaderKV": "callKV",
	"AddRoute": "callAdd", "RemoveAllRoutes": "callRemoveAll",
}

var c12vTableFields = map[string]bool{"virtualHosts": true, "virtualHostPortsMap": true, "portWildcardVirtualHost": true, "defaultVirtualHostIndex": true}

// c12vCaller: a method of routersImpl as a caller program: `findVhost` (the virtual host is looked up: findVirtualHost,
// findVirtualHostIndex, ri.virtualHosts[i]), `call…` (a table method is called on a variable that holds the looked-up virtual
// host), `writeTable` (a field of routersImpl that selects the virtual host is written), `other`.
func c12vCaller(fd *ast.FuncDecl) ([]string, error) {
	recv := c12vRecvName(fd)
	if recv == "" {
		return nil, fmt.Errorf("routersImpl.%s: unnamed receiver", fd.Name.Name)
	}
	var steps []string
	emit := func(s string) {
		if s == "other" && len(steps) > 0 && steps[len(steps)-1] == ".other" {
			return
		}
		steps = append(steps, "."+s)
	}
	vhVars := map[string]bool{}
	var visitStmt func(st ast.Stmt) error
	scan := func(n ast.Node) error {
		if n == nil {
			return nil
		}
		var evs []c12vEv
		var err error
		ast.Inspect(n, func(m ast.Node) bool {
			switch x := m.(type) {
			case *ast.FuncLit:
				err = fmt.Errorf("routersImpl.%s: closure at %s", fd.Name.Name, fset.Position(x.Pos()))
				return false
			case *ast.CallExpr:
				if sel, ok := x.Fun.(*ast.SelectorExpr); ok {
					if step, ok := c12vTableMethods[sel.Sel.Name]; ok {
						if id, ok := sel.X.(*ast.Ident); ok && vhVars[id.Name] {
							evs = append(evs, c12vEv{x.Pos(), step})
						} else if exprKey(sel.X) != recv {
							err = fmt.Errorf("routersImpl.%s: table method %s called on something else than a looked-up virtual host at %s",
								fd.Name.Name, sel.Sel.Name, fset.Position(x.Pos()))
						}
					}
					k := exprKey(x.Fun)
					if k == recv+".findVirtualHost" || k == recv+".findVirtualHostIndex" {
						evs = append(evs, c12vEv{x.Pos(), "findVhost"})
					}
				}
			case *ast.IndexExpr:
				if exprKey(x.X) == recv+".virtualHosts" {
					evs = append(evs, c12vEv{x.Pos(), "findVhost"})
				}
			}
			return true
		})
		if err != nil {
			return err
		}
		if as, ok := n.(*ast.AssignStmt); ok {
			for _, l := range as.Lhs {
				root := c12lRoot(l)
				if root == recv {
					if se, ok := c12vFirstField(l); ok && c12vTableFields[se] {
						evs = append(evs, c12vEv{l.Pos(), "writeTable"})
					}
				}
			}
			if len(as.Lhs) >= 1 && len(as.Rhs) == 1 {
				if id, ok := as.Lhs[0].(*ast.Ident); ok {
					r := c12vUnparen(as.Rhs[0])
					if isCallExpr(r, recv+".findVirtualHost", 1) {
						vhVars[id.Name] = true
					}
					if ix, ok := r.(*ast.IndexExpr); ok && exprKey(ix.X) == recv+".virtualHosts" {
						vhVars[id.Name] = true
					}
				}
			}
		}
		sort.SliceStable(evs, func(i, j int) bool { return evs[i].pos < evs[j].pos })
		// consecutive lookups (`index := findVirtualHostIndex(d)` … `vh := ri.virtualHosts[index]`) are one lookup
		for _, e := range evs {
			if e.step == "findVhost" {
				seen := false
				for _, s := range steps {
					if s == ".findVhost" {
						seen = true
					}
				}
				if seen {
					continue
				}
			}
			emit(e.step)
		}
		if len(evs) == 0 {
			emit("other")
		}
		return nil
	}
	visitBlock := func(list []ast.Stmt) error {
		for _, st := range list {
			if err := visitStmt(st); err != nil {
				return err
			}
		}
		return nil
	}
	visitStmt = func(st ast.Stmt) error {
		switch x := st.(type) {
		case nil:
			return nil
		case *ast.IfStmt:
			if err := visitStmt(x.Init); err != nil {
				return err
			}
			if err := scan(x.Cond); err != nil {
				return err
			}
			if err := visitBlock(x.Body.List); err != nil {
				return err
			}
			if x.Else != nil {
				return visitStmt(x.Else)
			}
			return nil
		case *ast.BlockStmt:
			return visitBlock(x.List)
		case *ast.ForStmt, *ast.RangeStmt, *ast.SwitchStmt, *ast.TypeSwitchStmt, *ast.SelectStmt, *ast.GoStmt, *ast.DeferStmt:
			return fmt.Errorf("routersImpl.%s: statement kind %T outside the vocabulary at %s", fd.Name.Name, st, fset.Position(st.Pos()))
		}
		return scan(st)
	}
	if err := visitBlock(fd.Body.List); err != nil {
		return nil, err
	}
	return steps, nil
}

// c12vFirstField: the first field selected from the root identifier: ri.virtualHosts[i].x -> virtualHosts
func c12vFirstField(e ast.Expr) (string, bool) {
	name := ""
	for {
		switch x := e.(type) {
		case *ast.SelectorExpr:
			name = x.Sel.Name
			e = x.X
		case *ast.IndexExpr:
			e = x.X
		case *ast.StarExpr:
			e = x.X
		case *ast.ParenExpr:
			e = x.X
		case *ast.Ident:
			return name, name != ""
		default:
			return "", false
		}
	}
}

func c12vPkgFiles() (map[string]*ast.File, error) {
	dir := filepath.Join(repo, "pkg/router")
	ents, err := os.ReadDir(dir)
	if err != nil {
		return nil, err
	}
	out := map[string]*ast.File{}
	for _, e := range ents {
		n := e.Name()
		if e.IsDir() || !strings.HasSuffix(n, ".go") || strings.HasSuffix(n, "_test.go") {
			continue
		}
		f, err := parse("pkg/router/" + n)
		if err != nil {
			return nil, err
		}
		out[n] = f
	}
	return out, nil
}

func c12vRecvType(fd *ast.FuncDecl) string {
	if fd.Recv == nil || len(fd.Recv.List) == 0 {
		return ""
	}
	t := fd.Recv.List[0].Type
	if s, ok := t.(*ast.StarExpr); ok {
		t = s.X
	}
	if id, ok := t.(*ast.Ident); ok {
		return id.Name
	}
	return ""
}

func genC12vVhostLocks() (string, error) {
	files, err := c12vPkgFiles()
	if err != nil {
		return "", err
	}
	f := files["virtualhost.go"]
	if f == nil {
		return "", fmt.Errorf("%s not found", c12vFile)
	}
	// every method of VirtualHostImpl must live in virtualhost.go
	methods := map[string]*ast.FuncDecl{}
	var names []string
	for n, pf := range files {
		for _, d := range pf.Decls {
			fd, ok := d.(*ast.FuncDecl)
			if !ok || fd.Body == nil || c12vRecvType(fd) != c12vType {
				continue
			}
			if n != "virtualhost.go" {
				return "", fmt.Errorf("method %s.%s is declared in %s, not in virtualhost.go", c12vType, fd.Name.Name, n)
			}
			methods[fd.Name.Name] = fd
			names = append(names, fd.Name.Name)
		}
	}
	// source order
	sort.Slice(names, func(i, j int) bool { return methods[names[i]].Pos() < methods[names[j]].Pos() })
	lower := map[string]string{}
	for _, n := range names {
		l := c12vLowerFirst(n)
		if n != l {
			if _, clash := methods[l]; clash {
				l = l + "_exported" // AddRoute / addRoute
			}
		}
		lower[n] = l
	}
	// where else are the two fields touched?
	var foreign []string
	for n, pf := range files {
		for _, d := range pf.Decls {
			fd, ok := d.(*ast.FuncDecl)
			if ok && fd.Body != nil && n == "virtualhost.go" && (c12vRecvType(fd) == c12vType || (fd.Recv == nil && fd.Name.Name == "NewVirtualHostImpl")) {
				continue
			}
			ast.Inspect(d, func(m ast.Node) bool {
				switch x := m.(type) {
				case *ast.SelectorExpr:
					if x.Sel.Name == "routes" || x.Sel.Name == "fastIndex" {
						foreign = append(foreign, fmt.Sprintf("%s:%d", n, fset.Position(x.Pos()).Line))
					}
				case *ast.KeyValueExpr:
					if id, ok := x.Key.(*ast.Ident); ok && (id.Name == "fastIndex" || id.Name == "routes") {
						foreign = append(foreign, fmt.Sprintf("%s:%d", n, fset.Position(x.Pos()).Line))
					}
				}
				return true
			})
		}
	}
	sort.Strings(foreign)
	// the struct must declare the three fields with the expected types
	var fieldTypes = map[string]string{}
	ast.Inspect(f, func(m ast.Node) bool {
		ts, ok := m.(*ast.TypeSpec)
		if !ok || ts.Name.Name != c12vType {
			return true
		}
		if st, ok := ts.Type.(*ast.StructType); ok {
			for _, fl := range st.Fields.List {
				for _, nm := range fl.Names {
					fieldTypes[nm.Name] = c12vTypeSrc(fl.Type)
				}
			}
		}
		return false
	})
	if fieldTypes["mutex"] != "sync.RWMutex" {
		return "", fmt.Errorf("%s.mutex is %q, not a sync.RWMutex value", c12vType, fieldTypes["mutex"])
	}
	if !strings.HasPrefix(fieldTypes["routes"], "[]") {
		return "", fmt.Errorf("%s.routes is %q, not a slice", c12vType, fieldTypes["routes"])
	}
	if !strings.HasPrefix(fieldTypes["fastIndex"], "map[") {
		return "", fmt.Errorf("%s.fastIndex is %q, not a map", c12vType, fieldTypes["fastIndex"])
	}

	s := header("VhostLocks", c12vFile+", pkg/router/routers_impl.go (lock structure of the virtual host's route table and of the request path that reaches it)")
	s += "/-- the step vocabulary (fixed text of the extractor): `lock/unlock/rlock/runlock` = `vh.mutex`; reads of `vh.routes` in place\n" +
		"(`walkRoutes`: range / index / len), a copy of its slice header (`aliasRoutes`) and reads through the copy (`walkAlias`); writes of\n" +
		"`vh.routes`: INPLACE `resetRoutes` (`= vh.routes[:0]`), `appendRoutes` (`= append(vh.routes, …)`), `storeRoutes` (`vh.routes[i] = …`),\n" +
		"`inplaceRoutes` (another reslice), REPLACE `freshRoutes` (nil / make / literal); the same for `vh.fastIndex`: `readIndex`, `aliasIndex`\n" +
		"(the map or an inner map), `readAlias`, INPLACE `putIndex` / `putAlias`, REPLACE `freshIndex`; `escape` = any other mention of the\n" +
		"fields, a copy or the mutex; `other` = statements that mention none of them. -/\n"
	s += "inductive Step where\n  | lock | unlock | rlock | runlock\n  | walkRoutes | aliasRoutes | walkAlias | resetRoutes | appendRoutes | storeRoutes | inplaceRoutes | freshRoutes\n" +
		"  | readIndex | aliasIndex | readAlias | putIndex | putAlias | freshIndex\n  | escape | other\nderiving DecidableEq, Repr, Inhabited\n\n"
	var listed []string
	for _, n := range names {
		steps, err := c12vMethodSteps(f, methods, methods[n], 0)
		if err != nil {
			return "", err
		}
		s += fmt.Sprintf("/-- `%s.%s`: statements in source order (calls of other methods of the type inlined). -/\n", c12vType, n)
		s += fmt.Sprintf("def %s : List Step := [%s]\n\n", lower[n], strings.Join(steps, ", "))
		listed = append(listed, fmt.Sprintf("(%q, %s)", n, lower[n]))
	}
	ctor, err := c12vConstructor(f, methods)
	if err != nil {
		return "", err
	}
	s += "/-- `NewVirtualHostImpl`: the fields set by the literal, then the body (the object is not shared yet). -/\n"
	s += fmt.Sprintf("def constructor : List Step := [%s]\n\n", strings.Join(ctor, ", "))
	s += "/-- every method of the type, by its Go name. -/\n"
	s += "def methods : List (String × List Step) := [" + strings.Join(listed, ", ") + "]\n\n"
	var fq []string
	for _, x := range foreign {
		fq = append(fq, fmt.Sprintf("%q", x))
	}
	s += "/-- mentions of a field named `routes` / `fastIndex` in package router outside the methods above (file:line). -/\n"
	s += "def foreignAccess : List String := [" + strings.Join(fq, ", ") + "]\n\n"

	// callers
	rf := files["routers_impl.go"]
	if rf == nil {
		return "", fmt.Errorf("pkg/router/routers_impl.go not found")
	}
	s += "/-- the caller vocabulary: `findVhost` = the virtual host is looked up in the routersImpl's own tables; `call…` = that method of the\nlooked-up virtual host is called; `writeTable` = a field of routersImpl that selects the virtual host is written; `other`. -/\n"
	s += "inductive CStep where\n  | findVhost | callEntries | callAll | callKV | callAdd | callRemoveAll | writeTable | other\nderiving DecidableEq, Repr, Inhabited\n\n"
	for _, m := range []struct{ fn, lean string }{
		{"MatchRoute", "riMatchRoute"}, {"MatchAllRoutes", "riMatchAllRoutes"}, {"MatchRouteFromHeaderKV", "riMatchRouteFromHeaderKV"},
		{"AddRoute", "riAddRoute"}, {"RemoveAllRoutes", "riRemoveAllRoutes"},
	} {
		fd := findFunc(rf, "routersImpl", m.fn)
		if fd == nil {
			return "", fmt.Errorf("routersImpl.%s not found", m.fn)
		}
		steps, err := c12vCaller(fd)
		if err != nil {
			return "", err
		}
		s += fmt.Sprintf("/-- `routersImpl.%s`. -/\ndef %s : List CStep := [%s]\n\n", m.fn, m.lean, strings.Join(steps, ", "))
	}
	// writes of the selecting fields of routersImpl outside the builder
	var late []string
	for n, pf := range files {
		for _, d := range pf.Decls {
			fd, ok := d.(*ast.FuncDecl)
			if !ok || fd.Body == nil {
				continue
			}
			if n == "routers_impl.go" && (fd.Name.Name == "NewRouters" || fd.Name.Name == "generateHostWithPortConfig") {
				continue
			}
			note := func(e ast.Expr) {
				if fld, ok := c12vFirstField(e); ok && c12vTableFields[fld] {
					late = append(late, fmt.Sprintf("%s:%d", n, fset.Position(e.Pos()).Line))
				}
			}
			ast.Inspect(fd.Body, func(m ast.Node) bool {
				switch x := m.(type) {
				case *ast.AssignStmt:
					for _, l := range x.Lhs {
						if _, isId := l.(*ast.Ident); !isId {
							note(l)
						}
					}
				case *ast.IncDecStmt:
					note(x.X)
				case *ast.CallExpr:
					if exprKey(x.Fun) == "delete" && len(x.Args) == 2 {
						note(x.Args[0])
					}
				case *ast.UnaryExpr:
					if x.Op == token.AND {
						note(x.X)
					}
				}
				return true
			})
		}
	}
	sort.Strings(late)
	// generateHostWithPortConfig must be called from NewRouters only
	for n, pf := range files {
		for _, d := range pf.Decls {
			fd, ok := d.(*ast.FuncDecl)
			if !ok || fd.Body == nil || (n == "routers_impl.go" && fd.Name.Name == "NewRouters") {
				continue
			}
			ast.Inspect(fd.Body, func(m ast.Node) bool {
				if ce, ok := m.(*ast.CallExpr); ok {
					if sel, ok := ce.Fun.(*ast.SelectorExpr); ok && sel.Sel.Name == "generateHostWithPortConfig" {
						late = append(late, fmt.Sprintf("%s:%d(call)", n, fset.Position(ce.Pos()).Line))
					}
				}
				return true
			})
		}
	}
	var lq []string
	for _, x := range late {
		lq = append(lq, fmt.Sprintf("%q", x))
	}
	s += "/-- writes (assignment through, increment, delete, address-of) of `virtualHosts` / `virtualHostPortsMap` / `portWildcardVirtualHost` /\n`defaultVirtualHostIndex` outside `NewRouters` and `generateHostWithPortConfig`, and calls of the latter from elsewhere (file:line):\nempty = the domain -> virtual host table is immutable once `NewRouters` returned. -/\n"
	s += "def tableWritesAfterBuild : List String := [" + strings.Join(lq, ", ") + "]\n"
	s += footer("VhostLocks")
	return s, nil
}

// c12vTypeSrc renders a type expression as source text (selector / star / array / map / ident only).
func c12vTypeSrc(e ast.Expr) string {
	switch x := e.(type) {
	case *ast.Ident:
		return x.Name
	case *ast.SelectorExpr:
		return c12vTypeSrc(x.X) + "." + x.Sel.Name
	case *ast.StarExpr:
		return "*" + c12vTypeSrc(x.X)
	case *ast.ArrayType:
		if x.Len == nil {
			return "[]" + c12vTypeSrc(x.Elt)
		}
		return "[n]" + c12vTypeSrc(x.Elt)
	case *ast.MapType:
		return "map[" + c12vTypeSrc(x.Key) + "]" + c12vTypeSrc(x.Value)
	case *ast.InterfaceType:
		return "interface{}"
	}
	return fmt.Sprintf("?%T", e)
}
