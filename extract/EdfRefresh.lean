-- translation-unsupported EdfRefresh: open -out/pkg/upstream/cluster/loadbalancer.go: no such file or directory
namespace MosnVerif.Gen.EdfRefresh
end MosnVerif.Gen.EdfRefresh
