-- translation-unsupported PoolMuxMoves: open -out/pkg/stream/xprotocol/connpool_multiplex.go: no such file or directory
namespace MosnVerif.Gen.PoolMuxMoves
end MosnVerif.Gen.PoolMuxMoves
