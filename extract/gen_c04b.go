package main

// C04 (growth): the header-matcher *constructors* and the HTTP rule base are regenerated too, so that how a configured
// header name reaches the matcher (verbatim / lower-cased / ...), which `method` entries become variable matchers,
// which entries are dropped, and whether a query-parameter matcher is ever installed are facts of the Go source the
// theorems talk about (before, these constructors were hand-modelled and tied by the correspondence run only).

import (
	"fmt"
	"go/ast"
	"strings"
)

var c04bGoTypes = map[string]string{
	"KeyValueData":            "KeyValueData",
	"StringMatch":             "StringMatch",
	"httpHeaderMatcherImpl":   "HttpHeaderMatcher",
	"commonHeaderMatcherImpl": "List KeyValueData",
	"map[string]string":       "List (Str × Str)",
	"RPCRouteRuleImpl":        "RpcRule",
	"BaseHTTPRouteRule":       "HttpBase",
	"types.QueryParams":       "List (Str × Str)",
}

func c04bGoTypesCopy() map[string]string {
	m := map[string]string{}
	for k, v := range c04bGoTypes {
		m[k] = v
	}
	return m
}

// c04bHeaderNames: renderings of the fields of a v2.HeaderMatcher value held by variable `v` (Lean: HeaderCfg).
func c04bHeaderNames(names map[string]string, v, lean string) {
	names[v] = lean
	names[v+".Name"] = lean + ".name"
	names[v+".Value"] = lean + ".value"
	names[v+".Regex"] = lean + ".regex"
}

func c04bRangeVars(fd *ast.FuncDecl) []string {
	var out []string
	ast.Inspect(fd.Body, func(n ast.Node) bool {
		if rs, ok := n.(*ast.RangeStmt); ok {
			if id, ok := rs.Value.(*ast.Ident); ok {
				out = append(out, id.Name)
			}
		}
		return true
	})
	return out
}

func c04bRetExpr(c *CPS) func(rs []ast.Expr) (string, error) {
	return func(rs []ast.Expr) (string, error) {
		if len(rs) != 1 {
			return "", fmt.Errorf("return arity")
		}
		return c.ex(rs[0])
	}
}

// c04bGenCtors: NewKeyValueData, CreateCommonHeaderMatcher, CreateHTTPHeaderMatcher (pkg/router/configutility.go).
func c04bGenCtors(sb *strings.Builder, fu *ast.File) error {
	// ---- NewKeyValueData
	{
		fd := findFunc(fu, "", "NewKeyValueData")
		if fd == nil {
			return fmt.Errorf("NewKeyValueData not found")
		}
		ps := paramNames(fd)
		if len(ps) != 1 {
			return fmt.Errorf("NewKeyValueData arity")
		}
		h := ps[0]
		c := &CPS{Names: map[string]string{}, GoTypes: c04bGoTypesCopy(), Types: map[string]string{"kvData": "KeyValueData"}}
		c04bHeaderNames(c.Names, h, "header")
		c.Calls = map[string]func([]string) string{
			"strings.ToLower": func(a []string) string { return "(lower " + a[0] + ")" },
		}
		c.Calls2 = map[string]call2{
			"regexp.Compile": {func(a []string) string { return "(HeaderCfg.compile header " + a[0] + ")" }, "err"},
		}
		// every local of pointer-to-KeyValueData type the function declares is a mutable record
		ast.Inspect(fd.Body, func(n ast.Node) bool {
			if as, ok := n.(*ast.AssignStmt); ok && len(as.Lhs) == 1 && len(as.Rhs) == 1 {
				if id, ok := as.Lhs[0].(*ast.Ident); ok {
					if ue, ok := as.Rhs[0].(*ast.UnaryExpr); ok {
						if cl, ok := ue.X.(*ast.CompositeLit); ok && typeText(cl.Type) == "KeyValueData" {
							c.Types[id.Name] = "KeyValueData"
						}
					}
				}
			}
			return true
		})
		c.Ret = func(rs []ast.Expr) (string, error) {
			if len(rs) != 2 {
				return "", fmt.Errorf("return arity")
			}
			if id, ok := rs[0].(*ast.Ident); ok && id.Name == "nil" {
				return "none", nil // (nil, err)
			}
			if id, ok := rs[1].(*ast.Ident); ok && id.Name == "nil" {
				v, err := c.ex(rs[0])
				return "(some " + v + ")", err
			}
			return "", fmt.Errorf("unsupported return shape")
		}
		body, err := c.fn(fd)
		if err != nil {
			return fmt.Errorf("NewKeyValueData: %v", err)
		}
		fmt.Fprintf(sb, "/-- `NewKeyValueData`: `none` = (nil, err). `HeaderCfg.compile` is the `regexp.Compile` oracle of the matcher -/\ndef newKeyValueData (header : HeaderCfg) : Option KeyValueData :=\n  %s\n\n", body)
	}
	// ---- CreateCommonHeaderMatcher / CreateHTTPHeaderMatcher
	for _, k := range []struct{ name, lean, rty, doc string }{
		{"CreateCommonHeaderMatcher", "createCommonHeaderMatcher", "List KeyValueData", "the matcher of RPC-style (header-only) rules"},
		{"CreateHTTPHeaderMatcher", "createHTTPHeaderMatcher", "HttpHeaderMatcher", "the matcher of path / prefix / regex rules: `method` entries become request-variable matchers"},
	} {
		fd := findFunc(fu, "", k.name)
		if fd == nil {
			return fmt.Errorf("%s not found", k.name)
		}
		ps := paramNames(fd)
		if len(ps) != 1 {
			return fmt.Errorf("%s arity", k.name)
		}
		c := &CPS{
			Names:   map[string]string{ps[0]: "headers", "types.VarMethod": "varMethod"},
			LenFn:   map[string]string{ps[0]: "listLen"},
			GoTypes: c04bGoTypesCopy(),
			Types:   map[string]string{},
		}
		for _, v := range c04bRangeVars(fd) {
			n := map[string]string{}
			c04bHeaderNames(n, v, leanName(v))
			delete(n, v) // the loop variable itself is a local
			for a, b := range n {
				c.Names[a] = b
			}
		}
		// locals holding the matcher under construction
		ast.Inspect(fd.Body, func(n ast.Node) bool {
			if as, ok := n.(*ast.AssignStmt); ok && len(as.Lhs) == 1 && len(as.Rhs) == 1 {
				id, ok := as.Lhs[0].(*ast.Ident)
				if !ok {
					return true
				}
				switch r := as.Rhs[0].(type) {
				case *ast.UnaryExpr:
					if cl, ok := r.X.(*ast.CompositeLit); ok {
						if t, ok := c.GoTypes[typeText(cl.Type)]; ok {
							c.Types[id.Name] = t
							if t == "HttpHeaderMatcher" {
								c.LenFn[id.Name+".variables"] = "mapLen"
								c.LenFn[id.Name+".headers"] = "listLen"
							}
						}
					}
				case *ast.CallExpr:
					if goKey(r.Fun) == "make" && len(r.Args) > 0 {
						if t, ok := c.GoTypes[typeText(r.Args[0])]; ok {
							c.Types[id.Name] = t
							c.LenFn[id.Name] = "listLen"
						}
					}
				}
			}
			return true
		})
		c.Calls = map[string]func([]string) string{
			"append":          func(a []string) string { return "(" + a[0] + " ++ [" + a[1] + "])" },
			"strings.ToLower": func(a []string) string { return "(lower " + a[0] + ")" },
		}
		c.Calls2 = map[string]call2{
			"NewKeyValueData": {func(a []string) string { return "(newKeyValueData " + a[0] + ")" }, "err"},
		}
		c.Ret = c04bRetExpr(c)
		body, err := c.fn(fd)
		if err != nil {
			return fmt.Errorf("%s: %v", k.name, err)
		}
		fmt.Fprintf(sb, "/-- `%s`: %s -/\ndef %s (headers : List HeaderCfg) : %s :=\n  %s\n\n", k.name, k.doc, k.lean, k.rty, body)
	}
	// ---- queryParameterMatcherImpl.Matches (never installed by any constructor; regenerated so that matchRoute is whole)
	{
		fd := findFunc(fu, "queryParameterMatcherImpl", "Matches")
		if fd == nil {
			return fmt.Errorf("queryParameterMatcherImpl.Matches not found")
		}
		r, ps := recvName(fd), paramNames(fd)
		if len(ps) != 2 {
			return fmt.Errorf("queryParameterMatcherImpl.Matches arity")
		}
		c := &CPS{Names: map[string]string{r: "m", ps[1]: "queryParams"}, LenFn: map[string]string{r: "listLen", ps[1]: "mapLen"}}
		c.Calls = map[string]func([]string) string{
			"strings.ToLower": func(a []string) string { return "(lower " + a[0] + ")" },
		}
		for _, v := range c04bRangeVars(fd) {
			v := v
			c.Calls[v+".Value.Matches"] = func(a []string) string { return "(stringMatch rx " + leanName(v) + ".Value " + a[0] + ")" }
		}
		c.Ret = c04bRetExpr(c)
		body, err := c.fn(fd)
		if err != nil {
			return fmt.Errorf("queryParameterMatcherImpl.Matches: %v", err)
		}
		fmt.Fprintf(sb, "/-- `queryParameterMatcherImpl.Matches` -/\ndef queryMatches (rx : RxOracle) (queryParams : List (Str × Str)) (m : List KeyValueData) : Bool :=\n  %s\n\n", body)
	}
	return nil
}

// c04bGenHTTPBase: NewBaseHTTPRouteRule and BaseHTTPRouteRule.matchRoute (pkg/router/http_rule.go).
func c04bGenHTTPBase(sb *strings.Builder, fh *ast.File) error {
	v, err := strConst("pkg/types", "VarQueryString")
	if err != nil {
		return err
	}
	fmt.Fprintf(sb, "/-- types.VarQueryString = %q -/\ndef varQueryString : Str := %s\n\n", v, leanStr(v))
	{
		fd := findFunc(fh, "", "NewBaseHTTPRouteRule")
		if fd == nil {
			return fmt.Errorf("NewBaseHTTPRouteRule not found")
		}
		ps := paramNames(fd)
		if len(ps) != 2 {
			return fmt.Errorf("NewBaseHTTPRouteRule arity")
		}
		c := &CPS{Names: map[string]string{ps[0]: "()", ps[1]: "headers"}, LenFn: map[string]string{ps[1]: "listLen"}, GoTypes: c04bGoTypesCopy(), Types: map[string]string{}}
		c.Calls = map[string]func([]string) string{
			"CreateHTTPHeaderMatcher":   func(a []string) string { return "(createHTTPHeaderMatcher " + a[0] + ")" },
			"CreateCommonHeaderMatcher": func(a []string) string { return "(createCommonHeaderMatcher " + a[0] + ")" },
		}
		c.Ret = c04bRetExpr(c)
		body, err := c.fn(fd)
		if err != nil {
			return fmt.Errorf("NewBaseHTTPRouteRule: %v", err)
		}
		fmt.Fprintf(sb, "/-- `NewBaseHTTPRouteRule`: which header-matcher constructor an HTTP rule uses; `configQueryParameters` stays nil -/\ndef newBaseHTTPRouteRule (headers : List HeaderCfg) : HttpBase :=\n  %s\n\n", body)
	}
	{
		fd := findFunc(fh, "BaseHTTPRouteRule", "matchRoute")
		if fd == nil {
			return fmt.Errorf("matchRoute not found")
		}
		r, ps := recvName(fd), paramNames(fd)
		if len(ps) != 2 {
			return fmt.Errorf("matchRoute arity")
		}
		c := &CPS{
			Names:   map[string]string{r: "rri", ps[0]: "ctx", ps[1]: "headers", "types.VarQueryString": "varQueryString"},
			LenFn:   map[string]string{"queryParams": "mapLen"},
			GoTypes: c04bGoTypesCopy(),
			Types:   map[string]string{},
		}
		c.Calls = map[string]func([]string) string{
			r + ".configHeaders.Matches":         func(a []string) string { return "(httpMatches rx ctx headers rri.configHeaders)" },
			r + ".configQueryParameters.Matches": func(a []string) string { return "(queryMatches rx " + a[1] + " (rri.configQueryParameters.getD default))" },
			"http.ParseQueryString":              func(a []string) string { return "(pq " + a[0] + ")" },
		}
		c.Calls2 = map[string]call2{"variable.GetString": {func(a []string) string { return "(ctx " + a[1] + ")" }, "err"}}
		c.Ret = c04bRetExpr(c)
		// the declared query-parameter map may carry any name
		ast.Inspect(fd.Body, func(n ast.Node) bool {
			if ds, ok := n.(*ast.DeclStmt); ok {
				if gd, ok := ds.Decl.(*ast.GenDecl); ok {
					for _, sp := range gd.Specs {
						if vs, ok := sp.(*ast.ValueSpec); ok && vs.Type != nil && typeText(vs.Type) == "types.QueryParams" {
							for _, n := range vs.Names {
								c.LenFn[n.Name] = "mapLen"
							}
						}
					}
				}
			}
			return true
		})
		body, err := c.fn(fd)
		if err != nil {
			return fmt.Errorf("matchRoute: %v", err)
		}
		fmt.Fprintf(sb, "/-- `BaseHTTPRouteRule.matchRoute`: header matchers, then the query-parameter matcher if one is installed. `pq` = `http.ParseQueryString` -/\ndef matchRoute (rx : RxOracle) (pq : Str → List (Str × Str)) (ctx headers : Str → Option Str) (rri : HttpBase) : Bool :=\n  %s\n\n", body)
	}
	return nil
}

// c04bGenRPCRule: CreateRPCRule (pkg/router/rpc_rule.go).
func c04bGenRPCRule(sb *strings.Builder, frp *ast.File) error {
	fd := findFunc(frp, "", "CreateRPCRule")
	if fd == nil {
		return fmt.Errorf("CreateRPCRule not found")
	}
	ps := paramNames(fd)
	if len(ps) != 2 {
		return fmt.Errorf("CreateRPCRule arity")
	}
	hs := ps[1]
	c := &CPS{
		Names:   map[string]string{ps[0]: "()", hs: "headers", "types.RPCRouteMatchKey": "rpcRouteMatchKey"},
		LenFn:   map[string]string{hs: "listLen"},
		GoTypes: c04bGoTypesCopy(),
		Types:   map[string]string{},
	}
	c04bHeaderNames(c.Names, hs+"[0]", "(listAt0 headers)")
	ast.Inspect(fd.Body, func(n ast.Node) bool {
		if as, ok := n.(*ast.AssignStmt); ok && len(as.Lhs) == 1 && len(as.Rhs) == 1 {
			if id, ok := as.Lhs[0].(*ast.Ident); ok {
				if ue, ok := as.Rhs[0].(*ast.UnaryExpr); ok {
					if cl, ok := ue.X.(*ast.CompositeLit); ok && typeText(cl.Type) == "RPCRouteRuleImpl" {
						c.Types[id.Name] = "RpcRule"
					}
				}
			}
		}
		return true
	})
	c.Calls = map[string]func([]string) string{
		"CreateCommonHeaderMatcher": func(a []string) string { return "(createCommonHeaderMatcher " + a[0] + ")" },
		"CreateHTTPHeaderMatcher":   func(a []string) string { return "(createHTTPHeaderMatcher " + a[0] + ")" },
		"strings.ToLower":           func(a []string) string { return "(lower " + a[0] + ")" },
		"strings.EqualFold":         func(a []string) string { return "(equalFold " + a[0] + " " + a[1] + ")" },
	}
	c.Ret = c04bRetExpr(c)
	body, err := c.fn(fd)
	if err != nil {
		return fmt.Errorf("CreateRPCRule: %v", err)
	}
	fmt.Fprintf(sb, "/-- `CreateRPCRule`: the legacy fast match of a lone exact `service` matcher, and which header-matcher constructor an RPC rule uses -/\ndef createRPCRule (headers : List HeaderCfg) : RpcRule :=\n  %s\n\n", body)
	return nil
}
