-- translation-unsupported RouterLocks: open -out/pkg/router/routers_manager.go: no such file or directory
namespace MosnVerif.Gen.RouterLocks
end MosnVerif.Gen.RouterLocks
