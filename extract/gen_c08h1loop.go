package main

// Gen/C08H1Loop.lean (C08): the HTTP/1 read path of pkg/stream/http/stream.go.
//   * the limits handed to the black box: defaultMaxHeaderSize, defaultStreamConfig, the size of the bufio.Reader of the
//     server / client stream connection (= the largest message head fasthttp can see), the body limit of ReadLimitBody;
//   * what a turn of serverStreamConnection.serve() / clientStreamConnection.serve() does per class of parser answer
//     (message / message behind `Expect: 100-continue` / quiet error / loud error): replies written, Close / ResetStream
//     calls, whether the loop goes round again;
//   * what happens when serve() dies of a panic (the recover handler handed to utils.GoWithRecover);
//   * the pipe between the connection's read goroutine and serve(): the loop of streamConnection.Dispatch and its deferred
//     recover, the channels Reset closes, Read's answer on a closed channel, OnEvent(close) -> Reset.
// Every shape that is not recognised is REJECTED (empty Gen module, the dependent theorems stop checking).
// All helpers carry the prefix c08i.

import (
	"bytes"
	"fmt"
	"go/ast"
	"go/printer"
	"go/token"
	"strings"
)

func init() { register("C08H1Loop", c08iGen) }

func c08iSrc(n ast.Node) string {
	var b bytes.Buffer
	printer.Fprint(&b, fset, n)
	return strings.Join(strings.Fields(b.String()), " ")
}

// c08iCount: calls in n (function literals included) whose printed form contains every one of the fragments
func c08iCount(n ast.Node, frags ...string) int {
	k := 0
	ast.Inspect(n, func(m ast.Node) bool {
		if c, ok := m.(*ast.CallExpr); ok {
			s := c08iSrc(c.Fun) + "(" + c08iArgs(c) + ")"
			all := true
			for _, f := range frags {
				if !strings.Contains(s, f) {
					all = false
				}
			}
			if all {
				k++
			}
		}
		return true
	})
	return k
}

// c08iRecovers: a deferred function literal that calls recover()
func c08iRecovers(d *ast.DeferStmt) bool {
	fl, ok := d.Call.Fun.(*ast.FuncLit)
	if !ok {
		return false
	}
	found := false
	ast.Inspect(fl.Body, func(m ast.Node) bool {
		if c, ok := m.(*ast.CallExpr); ok {
			if id, ok := c.Fun.(*ast.Ident); ok && id.Name == "recover" {
				found = true
			}
		}
		return true
	})
	return found
}

func c08iArgs(c *ast.CallExpr) string {
	var a []string
	for _, x := range c.Args {
		a = append(a, c08iSrc(x))
	}
	return strings.Join(a, ", ")
}

// c08iEnds: how a statement list ends when executed to its end: "return" | "continue" | "break" | "" (falls off)
func c08iEnds(l []ast.Stmt) string {
	if len(l) == 0 {
		return ""
	}
	switch x := l[len(l)-1].(type) {
	case *ast.ReturnStmt:
		return "return"
	case *ast.BranchStmt:
		return x.Tok.String()
	}
	return ""
}

// c08iHasTransfer: a return / branch / goto / loop / go statement inside n (not inside function literals)
func c08iHasTransfer(n ast.Node) bool {
	found := false
	ast.Inspect(n, func(m ast.Node) bool {
		switch m.(type) {
		case *ast.FuncLit:
			return false
		case *ast.ReturnStmt, *ast.BranchStmt, *ast.ForStmt, *ast.RangeStmt, *ast.GoStmt, *ast.LabeledStmt:
			found = true
		}
		return true
	})
	return found
}

func c08iLoop(fd *ast.FuncDecl) (*ast.ForStmt, error) {
	if fd == nil || fd.Body == nil || len(fd.Body.List) != 1 {
		return nil, fmt.Errorf("serve: not a single statement")
	}
	f, ok := fd.Body.List[0].(*ast.ForStmt)
	if !ok || f.Init != nil || f.Cond != nil || f.Post != nil {
		return nil, fmt.Errorf("serve: not a single `for { … }` loop")
	}
	return f, nil
}

func c08iBool(b bool) string {
	if b {
		return "true"
	}
	return "false"
}

// c08iErrIf: the top-level `if err != nil { … }` of a serve loop and its position
func c08iErrIf(loop *ast.ForStmt) (*ast.IfStmt, int, error) {
	var found *ast.IfStmt
	at := -1
	for i, s := range loop.Body.List {
		if x, ok := s.(*ast.IfStmt); ok && c08iSrc(x.Cond) == "err != nil" && x.Init == nil {
			if found != nil {
				return nil, 0, fmt.Errorf("serve: two `if err != nil`")
			}
			found, at = x, i
			if x.Else != nil {
				return nil, 0, fmt.Errorf("serve: `if err != nil` has an else")
			}
		}
	}
	if found == nil {
		return nil, 0, fmt.Errorf("serve: no top-level `if err != nil`")
	}
	return found, at, nil
}

func c08iGen() (string, error) {
	const src = "pkg/stream/http/stream.go"
	const dir = "pkg/stream/http"
	f, err := parse(src)
	if err != nil {
		return "", err
	}
	var sb strings.Builder
	sb.WriteString(header("C08H1Loop", src))
	def := func(doc, name, ty, val string) {
		fmt.Fprintf(&sb, "/-- %s -/\ndef %s : %s := %s\n", doc, name, ty, val)
	}

	// ---- limits
	dh, err := intConst(dir, "defaultMaxHeaderSize")
	if err != nil {
		return "", err
	}
	def("defaultMaxHeaderSize", "h1_defaultMaxHeaderSize", "Nat", fmt.Sprint(dh))
	cfgHead, cfgBody := "", ""
	ast.Inspect(f, func(n ast.Node) bool {
		vs, ok := n.(*ast.ValueSpec)
		if !ok || len(vs.Names) != 1 || vs.Names[0].Name != "defaultStreamConfig" || len(vs.Values) != 1 {
			return true
		}
		if cl, ok := vs.Values[0].(*ast.CompositeLit); ok {
			for _, e := range cl.Elts {
				if kv, ok := e.(*ast.KeyValueExpr); ok {
					switch c08iSrc(kv.Key) {
					case "MaxHeaderSize":
						cfgHead = c08iSrc(kv.Value)
					case "MaxRequestBodySize":
						cfgBody = c08iSrc(kv.Value)
					}
				}
			}
		}
		return false
	})
	if cfgHead != "defaultMaxHeaderSize" {
		return "", fmt.Errorf("defaultStreamConfig.MaxHeaderSize is `%s`, not defaultMaxHeaderSize", cfgHead)
	}
	if cfgBody == "" || strings.Trim(cfgBody, "0123456789") != "" {
		return "", fmt.Errorf("defaultStreamConfig.MaxRequestBodySize `%s` is not an integer literal", cfgBody)
	}
	def("defaultStreamConfig.MaxRequestBodySize (0 = no limit)", "h1_defaultMaxRequestBodySize", "Nat", cfgBody)

	newSrv := findFunc(f, "", "newServerStreamConnection")
	newCli := findFunc(f, "", "newClientStreamConnection")
	if newSrv == nil || newCli == nil {
		return "", fmt.Errorf("constructors not found")
	}
	readerArg := func(fd *ast.FuncDecl) (string, error) {
		arg := ""
		k := 0
		ast.Inspect(fd, func(n ast.Node) bool {
			if c, ok := n.(*ast.CallExpr); ok && c08iSrc(c.Fun) == "bufio.NewReaderSize" && len(c.Args) == 2 {
				arg = c08iSrc(c.Args[1])
				k++
			}
			return true
		})
		if k != 1 || c08iCount(fd, "bufio.NewReader(") != 0 {
			return "", fmt.Errorf("%s: not exactly one bufio.NewReaderSize", fd.Name.Name)
		}
		return arg, nil
	}
	sa, err := readerArg(newSrv)
	if err != nil {
		return "", err
	}
	if sa != "ssc.config.MaxHeaderSize" || c08iCount(newSrv, "parseStreamConfig(ctx)") != 1 {
		return "", fmt.Errorf("server reader size `%s` is not the configured MaxHeaderSize", sa)
	}
	sb.WriteString("/-- size of the server connection's bufio.Reader, from the configured MaxHeaderSize -/\ndef h1_srvReaderSize (cfgMaxHeaderSize : Nat) : Nat := cfgMaxHeaderSize\n")
	ca, err := readerArg(newCli)
	if err != nil {
		return "", err
	}
	cliDefault := false
	ast.Inspect(newCli, func(n ast.Node) bool {
		if x, ok := n.(*ast.IfStmt); ok && c08iSrc(x.Cond) == ca+" <= 0" && len(x.Body.List) == 1 &&
			c08iSrc(x.Body.List[0]) == ca+" = defaultMaxHeaderSize" {
			cliDefault = true
		}
		return true
	})
	if ca != "maxResponseHeaderSize" || !cliDefault {
		return "", fmt.Errorf("client reader size `%s` not recognised", ca)
	}
	sb.WriteString("/-- size of the client connection's bufio.Reader: the configured max_header_size, the default when that is not positive -/\ndef h1_cliReaderSize (cfg : Nat) : Nat := if cfg = 0 then h1_defaultMaxHeaderSize else cfg\n")

	// ---- server serve()
	srv := findFunc(f, "serverStreamConnection", "serve")
	loop, err := c08iLoop(srv)
	if err != nil {
		return "", err
	}
	eif, at, err := c08iErrIf(loop)
	if err != nil {
		return "", err
	}
	// in front of it: the parse call and the 100-continue branch
	parseCalls, limArg := 0, ""
	for _, s := range loop.Body.List[:at] {
		if c08iHasTransfer(s) {
			return "", fmt.Errorf("server serve: control transfer in front of the error test")
		}
		ast.Inspect(s, func(n ast.Node) bool {
			if c, ok := n.(*ast.CallExpr); ok && strings.HasSuffix(c08iSrc(c.Fun), ".ReadLimitBody") && len(c.Args) == 2 {
				parseCalls++
				limArg = c08iSrc(c.Args[1])
				if c08iSrc(c.Args[0]) != "conn.br" {
					limArg = "?"
				}
			}
			return true
		})
	}
	if parseCalls != 1 {
		return "", fmt.Errorf("server serve: %d ReadLimitBody calls", parseCalls)
	}
	limFromCfg := false
	for _, s := range loop.Body.List[:at] {
		if c08iSrc(s) == limArg+" := conn.config.MaxRequestBodySize" {
			limFromCfg = true
		}
	}
	if !limFromCfg {
		return "", fmt.Errorf("server serve: body limit `%s` is not the configured MaxRequestBodySize", limArg)
	}
	sb.WriteString("/-- body limit handed to ReadLimitBody / ContinueReadBody, from the configured MaxRequestBodySize (0 = none) -/\ndef h1_srvBodyLimit (cfgMaxRequestBodySize : Nat) : Nat := cfgMaxRequestBodySize\n")
	// 100-continue: `if err == nil { if request.MayContinue() { Write(strResponseContinue); err = ContinueReadBody } }`
	w100 := 0
	for _, s := range loop.Body.List[:at] {
		if x, ok := s.(*ast.IfStmt); ok && c08iSrc(x.Cond) == "err == nil" {
			for _, t := range x.Body.List {
				if y, ok := t.(*ast.IfStmt); ok && c08iSrc(y.Cond) == "request.MayContinue()" {
					w100 += c08iCount(y.Body, ".Write(", "strResponseContinue")
					if c08iCount(y.Body, ".ContinueReadBody(", limArg) != 1 {
						return "", fmt.Errorf("server serve: 100-continue branch does not read the body with the limit")
					}
				}
			}
		}
	}
	def("`HTTP/1.1 100 Continue` replies written when the head carries `Expect: 100-continue`", "h1_srvW100", "Nat", fmt.Sprint(w100))
	// the error branch: `if <loud> { Write(400); Close }` then how it ends
	var loud *ast.IfStmt
	for _, s := range eif.Body.List {
		if x, ok := s.(*ast.IfStmt); ok {
			if loud != nil {
				return "", fmt.Errorf("server serve: two tests in the error branch")
			}
			loud = x
		}
	}
	if loud == nil || loud.Else != nil || c08iHasTransfer(loud) {
		return "", fmt.Errorf("server serve: error branch not recognised")
	}
	if c08iSrc(loud.Cond) != "err != errConnClose && err != io.EOF && !errNothingRead" ||
		!strings.Contains(c08iSrc(eif.Body), "_, errNothingRead := err.(fasthttp.ErrNothingRead)") {
		return "", fmt.Errorf("server serve: test of the quiet errors `%s` not recognised", c08iSrc(loud.Cond))
	}
	errEnd := c08iEnds(eif.Body.List)
	outside := c08iCount(eif.Body, ".Write(") - c08iCount(loud.Body, ".Write(") + c08iCount(eif.Body, ".Close(") - c08iCount(loud.Body, ".Close(")
	if outside != 0 {
		return "", fmt.Errorf("server serve: replies / closes outside the loud test")
	}
	for _, s := range eif.Body.List[:len(eif.Body.List)-1] {
		if s != ast.Stmt(loud) && c08iHasTransfer(s) {
			return "", fmt.Errorf("server serve: control transfer inside the error branch")
		}
	}
	def("a parse error other than errConnClose / io.EOF / ErrNothingRead: `400 Bad Request` replies written", "h1_srvLoudW400", "Nat",
		fmt.Sprint(c08iCount(loud.Body, ".Write(", "strErrorResponse")))
	def("… and Close calls on the connection", "h1_srvLoudCloses", "Nat", fmt.Sprint(c08iCount(loud.Body, "conn.conn.Close(")))
	def("the loop goes round again behind a parse error (false: serve returns)", "h1_srvErrAgain", "Bool", c08iBool(errEnd != "return"))
	// behind it: NewStreamDetect, handleRequest, the select, Next
	rest := loop.Body.List[at+1:]
	var sel *ast.SelectStmt
	for _, s := range rest {
		if x, ok := s.(*ast.SelectStmt); ok {
			if sel != nil {
				return "", fmt.Errorf("server serve: two selects")
			}
			sel = x
		} else if c08iHasTransfer(s) {
			return "", fmt.Errorf("server serve: control transfer behind the error test: %s", c08iSrc(s))
		}
	}
	if sel == nil || len(sel.Body.List) != 2 {
		return "", fmt.Errorf("server serve: select not recognised")
	}
	doneFalls, closedReturns := false, false
	for _, cc := range sel.Body.List {
		c := cc.(*ast.CommClause)
		if c.Comm == nil {
			return "", fmt.Errorf("server serve: select has a default")
		}
		switch c08iSrc(c.Comm) {
		case "<-responseDoneChan":
			doneFalls = len(c.Body) == 0
		case "<-conn.connClosed":
			closedReturns = len(c.Body) == 1 && c08iEnds(c.Body) == "return"
		}
	}
	if !doneFalls || !closedReturns {
		return "", fmt.Errorf("server serve: select cases not recognised")
	}
	detect := 0
	for _, s := range rest {
		detect += c08iCount(s, ".NewStreamDetect(")
	}
	def("a parsed request is handed to the proxy (NewStreamDetect) once", "h1_srvDetects", "Nat", fmt.Sprint(detect))
	def("the loop goes round again behind an answered request", "h1_srvOkAgain", "Bool", c08iBool(c08iEnds(loop.Body.List) == "" || c08iEnds(loop.Body.List) == "continue"))

	// ---- client serve()
	cli := findFunc(f, "clientStreamConnection", "serve")
	cloop, err := c08iLoop(cli)
	if err != nil {
		return "", err
	}
	ceif, cat, err := c08iErrIf(cloop)
	if err != nil {
		return "", err
	}
	reads := 0
	for i, s := range cloop.Body.List[:cat] {
		if _, ok := s.(*ast.SelectStmt); ok && i == 0 {
			continue // the wait for requestSent / connClosed
		}
		if c08iHasTransfer(s) {
			return "", fmt.Errorf("client serve: control transfer in front of the error test")
		}
		reads += c08iCount(s, "s.response.Read(conn.br)")
	}
	if reads != 1 {
		return "", fmt.Errorf("client serve: %d response.Read calls", reads)
	}
	def("body limit of the client's response.Read (Read = ReadLimitBody(r, 0): none)", "h1_cliBodyLimit", "Nat", "0")
	def("a failed response read: ResetStream calls on the waiting stream", "h1_cliErrResets", "Nat", fmt.Sprint(c08iCount(ceif.Body, "s.ResetStream(")))
	def("… and Close calls on the connection (none: the pool closes it when the stream is destroyed)", "h1_cliErrCloses", "Nat", fmt.Sprint(c08iCount(ceif.Body, ".Close(")))
	def("the loop goes round again behind a failed response read", "h1_cliErrAgain", "Bool", c08iBool(c08iEnds(ceif.Body.List) != "return"))
	for _, s := range cloop.Body.List[cat+1:] {
		if c08iHasTransfer(s) {
			return "", fmt.Errorf("client serve: control transfer behind the error test")
		}
	}
	def("the loop goes round again behind a response", "h1_cliOkAgain", "Bool", c08iBool(c08iEnds(cloop.Body.List) == "" || c08iEnds(cloop.Body.List) == "continue"))

	// ---- serve() dying of a panic: the recover handler
	handler := func(fd *ast.FuncDecl, call string) (ast.Expr, error) {
		var h ast.Expr
		k := 0
		ast.Inspect(fd, func(n ast.Node) bool {
			if c, ok := n.(*ast.CallExpr); ok && c08iSrc(c.Fun) == "utils.GoWithRecover" && len(c.Args) == 2 {
				if fl, ok := c.Args[0].(*ast.FuncLit); ok && c08iCount(fl, call) == 1 {
					h = c.Args[1]
					k++
				}
			}
			return true
		})
		if k != 1 {
			return nil, fmt.Errorf("%s: serve is not started by one utils.GoWithRecover", fd.Name.Name)
		}
		return h, nil
	}
	sh, err := handler(newSrv, "ssc.serve(")
	if err != nil {
		return "", err
	}
	ch, err := handler(newCli, "csc.serve(")
	if err != nil {
		return "", err
	}
	def("server: serve() dies of a panic: `400` replies written by the recover handler", "h1_srvPanicW400", "Nat", fmt.Sprint(c08iCount(sh, ".Write(", "strErrorResponse")))
	def("… and Close calls", "h1_srvPanicCloses", "Nat", fmt.Sprint(c08iCount(sh, "ssc.conn.Close(")))
	def("client: serve() dies of a panic: ResetStream calls of the recover handler", "h1_cliPanicResets", "Nat", fmt.Sprint(c08iCount(ch, ".ResetStream(")))

	// ---- the pipe
	dp := findFunc(f, "streamConnection", "Dispatch")
	if dp == nil || len(dp.Body.List) != 2 {
		return "", fmt.Errorf("Dispatch: not `defer …; for …`")
	}
	dfr, ok1 := dp.Body.List[0].(*ast.DeferStmt)
	dl, ok2 := dp.Body.List[1].(*ast.ForStmt)
	if !ok1 || !ok2 || dl.Init != nil || dl.Post != nil || dl.Cond == nil {
		return "", fmt.Errorf("Dispatch: shape not recognised")
	}
	def("Dispatch runs under a deferred recover()", "h1_dispatchRecovers", "Bool", c08iBool(c08iRecovers(dfr)))
	if c08iSrc(dl.Cond) != "buffer.Len() > 0" || len(dl.Body.List) != 2 || c08iSrc(dl.Body.List[0]) != "sc.bufChan <- buffer" || c08iSrc(dl.Body.List[1]) != "<-sc.endRead" {
		return "", fmt.Errorf("Dispatch: loop `%s` not recognised", c08iSrc(dl))
	}
	def("Dispatch: `for buffer.Len() > 0 { bufChan <- buffer; <-endRead }`", "h1_dispatchHandsOver", "Bool", "true")
	rs := findFunc(f, "streamConnection", "Reset")
	if rs == nil {
		return "", fmt.Errorf("Reset not found")
	}
	var closes []string
	for _, s := range rs.Body.List {
		if c08iHasTransfer(s) {
			return "", fmt.Errorf("Reset: control transfer")
		}
		if es, ok := s.(*ast.ExprStmt); ok {
			if c, ok := es.X.(*ast.CallExpr); ok && c08iSrc(c.Fun) == "close" && len(c.Args) == 1 {
				closes = append(closes, `"`+strings.TrimPrefix(c08iSrc(c.Args[0]), "conn.")+`"`)
			}
		}
	}
	def("channels closed by streamConnection.Reset", "h1_resetCloses", "List String", "["+strings.Join(closes, ", ")+"]")
	rd := findFunc(f, "streamConnection", "Read")
	readEnds := false
	if rd != nil {
		for i, s := range rd.Body.List {
			if x, ok := s.(*ast.IfStmt); ok && c08iSrc(x.Cond) == "!ok" && c08iEnds(x.Body.List) == "return" && i > 0 &&
				c08iSrc(rd.Body.List[i-1]) == "data, ok := <-conn.bufChan" {
				readEnds = true
			}
		}
	}
	def("Read answers an error when bufChan is closed", "h1_readEndsOnClosed", "Bool", c08iBool(readEnds))
	oe := findFunc(f, "serverStreamConnection", "OnEvent")
	resets := false
	if oe != nil && len(oe.Body.List) == 1 {
		if x, ok := oe.Body.List[0].(*ast.IfStmt); ok && c08iSrc(x.Cond) == "event.IsClose()" && !c08iHasTransfer(x) &&
			c08iEnds(x.Body.List) == "" && len(x.Body.List) > 0 && c08iSrc(x.Body.List[len(x.Body.List)-1]) == "conn.Reset(reason)" {
			resets = true
		}
	}
	def("the server connection's close event calls Reset", "h1_srvCloseEventResets", "Bool", c08iBool(resets))
	def("the server connection listens to its connection's events", "h1_srvListens", "Bool", c08iBool(c08iCount(newSrv, "connection.AddConnectionEventListener(ssc)") == 1))
	_ = token.NoPos
	sb.WriteString(footer("C08H1Loop"))
	return sb.String(), nil
}
