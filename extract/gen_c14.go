package main

// Gen.FilterPhase (property C14): the Phase enum order, the two loop bounds of the worker, the filter status constants,
// the `switch filterStatus` of RunReceiverFilter / RunSenderFilter, the proxy's two status handlers, which `case` of
// downStream.receive runs which filter phase, the reset-reason -> code table, and downStream.processError translated
// statement by statement over an accessor record.

import (
	"fmt"
	"go/ast"
	"go/constant"
	"go/importer"
	"go/parser"
	"go/token"
	"go/types"
	"os"
	"os/exec"
	"path/filepath"
	"regexp"
	"sort"
	"strings"
)

func init() { register("FilterPhase", genFilterPhase) }

// apiDir locates the source of the mosn.io/api version pinned in <repo>/go.mod (vendor dir first, then the module cache).
func apiDir() (string, error) {
	if st, err := os.Stat(filepath.Join(repo, "vendor", "mosn.io", "api")); err == nil && st.IsDir() {
		return filepath.Join(repo, "vendor", "mosn.io", "api"), nil
	}
	gm, err := os.ReadFile(filepath.Join(repo, "go.mod"))
	if err != nil {
		return "", err
	}
	m := regexp.MustCompile(`(?m)^\s*mosn\.io/api\s+(v\S+)`).FindSubmatch(gm)
	if m == nil {
		return "", fmt.Errorf("mosn.io/api not required in go.mod")
	}
	var caches []string
	if c := os.Getenv("GOMODCACHE"); c != "" {
		caches = append(caches, c)
	}
	if out, err := exec.Command("go", "env", "GOMODCACHE").Output(); err == nil {
		caches = append(caches, strings.TrimSpace(string(out)))
	}
	if g := os.Getenv("GOPATH"); g != "" {
		caches = append(caches, filepath.Join(g, "pkg", "mod"))
	}
	if h, err := os.UserHomeDir(); err == nil {
		caches = append(caches, filepath.Join(h, "go", "pkg", "mod"))
	}
	for _, c := range caches {
		d := filepath.Join(c, "mosn.io", "api@"+string(m[1]))
		if st, err := os.Stat(d); err == nil && st.IsDir() {
			return d, nil
		}
	}
	return "", fmt.Errorf("source of mosn.io/api %s not found in the module cache", m[1])
}

// dirConsts type-checks the package in an absolute directory (imports stubbed) and returns its constants and, for every
// typed constant block, the names in declaration order keyed by type name.
func c14DirConsts(dir string) (map[string]constant.Value, map[string][]string, error) {
	pkgs, err := parser.ParseDir(fset, dir, func(fi os.FileInfo) bool { return !strings.HasSuffix(fi.Name(), "_test.go") }, 0)
	if err != nil {
		return nil, nil, err
	}
	vals := map[string]constant.Value{}
	order := map[string][]string{}
	for _, p := range pkgs {
		var names []string
		for n := range p.Files {
			names = append(names, n)
		}
		sort.Strings(names)
		var files []*ast.File
		for _, n := range names {
			files = append(files, p.Files[n])
		}
		conf := types.Config{Importer: fakeImporter{importer.Default()}, Error: func(error) {}}
		tp, _ := conf.Check(p.Name, fset, files, nil)
		if tp == nil {
			continue
		}
		for _, n := range tp.Scope().Names() {
			if c, ok := tp.Scope().Lookup(n).(*types.Const); ok {
				vals[n] = c.Val()
			}
		}
		for _, f := range files {
			for _, d := range f.Decls {
				gd, ok := d.(*ast.GenDecl)
				if !ok || gd.Tok != token.CONST {
					continue
				}
				cur := ""
				for _, sp := range gd.Specs {
					vs := sp.(*ast.ValueSpec)
					if vs.Type != nil {
						cur = exprKey(vs.Type)
					} else if len(vs.Values) > 0 {
						cur = "" // untyped explicit value ends an iota run of a typed block
					}
					if cur != "" {
						for _, n := range vs.Names {
							order[cur] = append(order[cur], n.Name)
						}
					}
				}
			}
		}
	}
	return vals, order, nil
}

func stripPrefix(s, p string) string { return strings.TrimPrefix(s, p) }

// statusCtor maps a Go constant name (with or without the api. qualifier) to the Lean constructor of FStatus.
func statusCtor(e ast.Expr) (string, error) {
	k := exprKey(e)
	k = strings.TrimPrefix(k, "api.")
	if !strings.HasPrefix(k, "StreamFilter") {
		return "", fmt.Errorf("not a StreamFilterStatus constant: %s", k)
	}
	return "." + strings.TrimPrefix(k, "StreamFilter"), nil
}

func c14IsLogStmt(s ast.Stmt) bool {
	switch x := s.(type) {
	case *ast.ExprStmt:
		return strings.HasPrefix(types.ExprString(x.X), "log.")
	case *ast.IfStmt:
		return strings.HasPrefix(types.ExprString(x.Cond), "log.")
	}
	return false
}

// loopSwitch translates the `switch filterStatus` that ends an iteration of RunReceiverFilter / RunSenderFilter.
func loopSwitch(fd *ast.FuncDecl, cursor string) (string, bool, error) {
	table, rec, err := loopSwitch2(fd, cursor)
	return table, rec, err
}

func loopSwitch2(fd *ast.FuncDecl, cursor string) (string, bool, error) {
	var sw *ast.SwitchStmt
	ast.Inspect(fd.Body, func(n ast.Node) bool {
		if s, ok := n.(*ast.SwitchStmt); ok && s.Tag != nil && exprKey(s.Tag) == "filterStatus" {
			sw = s
		}
		return true
	})
	if sw == nil {
		return "", false, fmt.Errorf("%s: switch filterStatus not found", fd.Name.Name)
	}
	var out []string
	keeps, keepsRecording := 0, 0
	for _, st := range sw.Body.List {
		cc := st.(*ast.CaseClause)
		if cc.List == nil {
			return "", false, fmt.Errorf("%s: default clause not supported", fd.Name.Name)
		}
		reset, ret, cont, recPhase := false, false, false, false
		for _, b := range cc.Body {
			if c14IsLogStmt(b) {
				continue
			}
			switch x := b.(type) {
			case *ast.AssignStmt:
				if len(x.Lhs) == 1 && exprKey(x.Lhs[0]) == cursor && exprKey(x.Rhs[0]) == "0" && x.Tok == token.ASSIGN {
					reset = true
				} else if len(x.Lhs) == 1 && exprKey(x.Lhs[0]) == cursor+"Phase" && exprKey(x.Rhs[0]) == "phase" && x.Tok == token.ASSIGN {
					recPhase = true
				} else {
					return "", false, fmt.Errorf("%s: unsupported assignment in switch", fd.Name.Name)
				}
			case *ast.ReturnStmt:
				ret = true
			case *ast.BranchStmt:
				if x.Tok != token.CONTINUE {
					return "", false, fmt.Errorf("%s: unsupported branch in switch", fd.Name.Name)
				}
				cont = true
			default:
				return "", false, fmt.Errorf("%s: unsupported statement %T in switch", fd.Name.Name, b)
			}
		}
		act := ""
		switch {
		case cont && !reset && !ret:
			act = ".next"
		case len(cc.Body) == 0:
			act = ".next"
		case reset && ret:
			act = ".resetReturn"
		case ret && !reset:
			act = ".keepReturn"
			keeps++
			if recPhase {
				keepsRecording++
			}
		default:
			return "", false, fmt.Errorf("%s: case body is neither continue, reset+return nor return", fd.Name.Name)
		}
		if recPhase && act != ".keepReturn" {
			return "", false, fmt.Errorf("%s: the cursor phase is recorded outside a keep-the-cursor case", fd.Name.Name)
		}
		for _, l := range cc.List {
			c, err := statusCtor(l)
			if err != nil {
				return "", false, err
			}
			out = append(out, "  | "+c+" => "+act)
		}
	}
	out = append(out, "  | _ => .next")
	return strings.Join(out, "\n") + "\n", keeps > 0 && keeps == keepsRecording, nil
}

// cursorGuard translates the statement in front of the receiver loop that decides where a pass starts:
// `if d.receiverFiltersIndex != 0 && phase != d.receiverFiltersIndexPhase { d.receiverFiltersIndex = 0 }`.
// Without such a statement a pass starts at the cursor.
func cursorGuard(fd *ast.FuncDecl) (string, error) {
	for _, st := range fd.Body.List {
		if _, ok := st.(*ast.ForStmt); ok {
			break
		}
		is, ok := st.(*ast.IfStmt)
		if !ok || c14IsLogStmt(st) {
			continue
		}
		if len(is.Body.List) != 1 || is.Else != nil || is.Init != nil {
			return "", fmt.Errorf("%s: unsupported if before the loop", fd.Name.Name)
		}
		as, ok := is.Body.List[0].(*ast.AssignStmt)
		if !ok || exprKey(as.Lhs[0]) != "d.receiverFiltersIndex" || exprKey(as.Rhs[0]) != "0" {
			return "", fmt.Errorf("%s: unsupported if body before the loop", fd.Name.Name)
		}
		var tr func(e ast.Expr) (string, error)
		tr = func(e ast.Expr) (string, error) {
			switch types.ExprString(e) {
			case "d.receiverFiltersIndex != 0":
				return "(cursor != 0)", nil
			case "d.receiverFiltersIndex == 0":
				return "(cursor == 0)", nil
			case "phase != d.receiverFiltersIndexPhase":
				return "(!samePhase)", nil
			case "phase == d.receiverFiltersIndexPhase":
				return "samePhase", nil
			}
			switch x := e.(type) {
			case *ast.ParenExpr:
				return tr(x.X)
			case *ast.BinaryExpr:
				if x.Op == token.LAND || x.Op == token.LOR {
					l, err := tr(x.X)
					if err != nil {
						return "", err
					}
					r, err := tr(x.Y)
					if err != nil {
						return "", err
					}
					if x.Op == token.LAND {
						return "(" + l + " && " + r + ")", nil
					}
					return "(" + l + " || " + r + ")", nil
				}
			}
			return "", fmt.Errorf("%s: unsupported start condition %s", fd.Name.Name, types.ExprString(e))
		}
		c, err := tr(is.Cond)
		if err != nil {
			return "", err
		}
		return "if " + c + " then 0 else cursor", nil
	}
	return "cursor", nil
}

// handlerEffect translates the body of one case of a status handler.
func handlerEffect(body []ast.Stmt) (string, error) {
	eff := ""
	for _, b := range body {
		if c14IsLogStmt(b) {
			continue
		}
		switch x := b.(type) {
		case *ast.ExprStmt:
			k := exprKey(x.X)
			switch {
			case k == "atomic.StoreUint32(&s.reuseBuffer,0)":
				// buffer reuse is outside the model
			case k == "s.cleanStream()":
				if eff != "" {
					return "", fmt.Errorf("two effects in one handler case")
				}
				eff = ".clean"
			default:
				return "", fmt.Errorf("unsupported handler call %s", k)
			}
		case *ast.IfStmt:
			be, ok := x.Cond.(*ast.BinaryExpr)
			if !ok || be.Op != token.EQL || exprKey(be.X) != "phase" || x.Else != nil || x.Init != nil {
				return "", fmt.Errorf("unsupported handler condition")
			}
			on := strings.TrimPrefix(exprKey(be.Y), "api.")
			target := ""
			for _, ib := range x.Body.List {
				as, ok := ib.(*ast.AssignStmt)
				if !ok || len(as.Lhs) != 1 || exprKey(as.Lhs[0]) != "s.receiverFiltersAgainPhase" || as.Tok != token.ASSIGN {
					return "", fmt.Errorf("unsupported statement in handler if")
				}
				target = strings.TrimPrefix(exprKey(as.Rhs[0]), "types.")
			}
			if target == "" || eff != "" {
				return "", fmt.Errorf("handler if without again-phase assignment")
			}
			eff = ".again ." + on + " " + target
		default:
			return "", fmt.Errorf("unsupported handler statement %T", b)
		}
	}
	if eff == "" {
		eff = ".none"
	}
	return eff, nil
}

// ---- processError ----------------------------------------------------------------------------------------------

type peGen struct {
	conds map[string]string // Go condition atom (exprKey) -> Lean Bool expression
}

func (g *peGen) cond(e ast.Expr) (string, error) {
	if s, ok := g.conds[types.ExprString(e)]; ok {
		return s, nil
	}
	switch x := e.(type) {
	case *ast.ParenExpr:
		return g.cond(x.X)
	case *ast.UnaryExpr:
		if x.Op == token.NOT {
			s, err := g.cond(x.X)
			return "(!" + s + ")", err
		}
	case *ast.BinaryExpr:
		switch x.Op {
		case token.LAND, token.LOR:
			l, err := g.cond(x.X)
			if err != nil {
				return "", err
			}
			r, err := g.cond(x.Y)
			if err != nil {
				return "", err
			}
			op := " && "
			if x.Op == token.LOR {
				op = " || "
			}
			return "(" + l + op + r + ")", nil
		case token.EQL, token.NEQ:
			l, err := g.value(x.X)
			if err != nil {
				return "", err
			}
			r, err := g.value(x.Y)
			if err != nil {
				return "", err
			}
			op := " == "
			if x.Op == token.NEQ {
				op = " != "
			}
			return "(" + l + op + r + ")", nil
		}
	}
	return "", fmt.Errorf("processError: unsupported condition %s", types.ExprString(e))
}

// value renders a phase-valued or flag-valued operand of ==/!=.
func (g *peGen) value(e ast.Expr) (string, error) {
	k := exprKey(e)
	switch {
	case strings.HasPrefix(k, "types."):
		return strings.TrimPrefix(k, "types."), nil
	case k == "s.phase":
		return "o.curPhase s", nil
	case k == "s.receiverFiltersAgainPhase":
		return "o.again s", nil
	case k == "1":
		return "true", nil
	case k == "0":
		return "false", nil
	case k == "atomic.LoadUint32(&s.downstreamCleaned)":
		return "o.cleaned s", nil
	case k == "atomic.LoadUint32(&s.upstreamReset)":
		return "o.upstreamReset s", nil
	case k == "atomic.LoadUint32(&s.downstreamReset)":
		return "o.downstreamReset s", nil
	}
	return "", fmt.Errorf("processError: unsupported operand %s", k)
}

func (g *peGen) block(stmts []ast.Stmt, ind string) (string, error) {
	if len(stmts) == 0 {
		return "(phase, err, s)", nil
	}
	st, rest := stmts[0], stmts[1:]
	next := func(prefix string) (string, error) {
		k, err := g.block(rest, ind)
		if err != nil {
			return "", err
		}
		if prefix == "" {
			return k, nil
		}
		return prefix + "\n" + ind + k, nil
	}
	if c14IsLogStmt(st) {
		return next("")
	}
	switch x := st.(type) {
	case *ast.AssignStmt:
		if len(x.Lhs) != 1 || len(x.Rhs) != 1 {
			return "", fmt.Errorf("processError: multi-assign")
		}
		l, r := exprKey(x.Lhs[0]), exprKey(x.Rhs[0])
		switch {
		case x.Tok == token.DEFINE && l == "sid" && r == "atomic.LoadUint32(&s.ID)":
			return next("")
		case l == "phase" && strings.HasPrefix(r, "types."):
			return next("let phase : Nat := " + strings.TrimPrefix(r, "types."))
		case l == "phase" && r == "s.receiverFiltersAgainPhase":
			return next("let phase : Nat := o.again s")
		case l == "err" && r == "types.ErrExit":
			return next("let err : Bool := true")
		case l == "err" && r == "nil":
			return next("let err : Bool := false")
		case l == "s.directResponse" && (r == "false" || r == "true"):
			return next("let s : σ := o.setDirectResponse s " + r)
		case l == "s.retryState" && r == "nil":
			return next("let s : σ := o.clearRetryState s")
		case l == "s.receiverFiltersAgainPhase" && strings.HasPrefix(r, "types."):
			return next("let s : σ := o.setAgain s " + strings.TrimPrefix(r, "types."))
		case l == "s.upstreamRequest.setupRetry" && (r == "false" || r == "true"):
			return next("let s : σ := o.setSetupRetry s " + r)
		}
		return "", fmt.Errorf("processError: unsupported assignment %s = %s", l, r)
	case *ast.ExprStmt:
		k := exprKey(x.X)
		switch {
		case k == "s.onUpstreamReset(s.resetReason.Load())":
			return next("let s : σ := o.onUpstreamReset s")
		case k == "s.ResetStream(s.resetReason.Load())":
			return next("let s : σ := o.resetStream s")
		case strings.HasPrefix(k, "variable.SetString(s.context,types.VarProxyIsDirectResponse,"):
			return next("let s : σ := o.markDirectResponse s")
		case k == "s.detachRetriedRequest()":
			// proxy6 (C03/C10 fix): the request given up for a retry is replaced by a fresh one whose setupRetry is false; in
			// this model the mark is a parameter that processError consumes, so for it the call IS the consumption
			// (what the fresh object looks like is regenerated for C03/C10: Gen.ProxyError.detachFresh)
			return next("let s : σ := o.setSetupRetry s false")
		}
		return "", fmt.Errorf("processError: unsupported call %s", k)
	case *ast.ReturnStmt:
		if len(x.Results) == 0 {
			return "(phase, err, s)", nil
		}
		if len(x.Results) == 2 && strings.HasPrefix(exprKey(x.Results[0]), "types.") && exprKey(x.Results[1]) == "types.ErrExit" {
			return "(" + strings.TrimPrefix(exprKey(x.Results[0]), "types.") + ", true, s)", nil
		}
		return "", fmt.Errorf("processError: unsupported return")
	case *ast.IfStmt:
		if x.Init != nil || x.Else != nil {
			return "", fmt.Errorf("processError: if with init/else")
		}
		// `if s.retryState != nil { s.retryState.reset() }`: a held retry slot is released before the state is dropped
		if types.ExprString(x.Cond) == "s.retryState != nil" && len(x.Body.List) == 1 {
			if es, ok := x.Body.List[0].(*ast.ExprStmt); ok && exprKey(es.X) == "s.retryState.reset()" {
				return next("let s : σ := o.releaseRetry s")
			}
		}
		var c string
		if types.ExprString(x.Cond) == "sid != id" {
			c = "idMismatch"
		} else {
			var err error
			c, err = g.cond(x.Cond)
			if err != nil {
				return "", err
			}
		}
		if !containsReturn(x) {
			// pure update of `err`
			if len(x.Body.List) == 1 {
				if as, ok := x.Body.List[0].(*ast.AssignStmt); ok && exprKey(as.Lhs[0]) == "err" && exprKey(as.Rhs[0]) == "types.ErrExit" {
					return next("let err : Bool := if " + c + " then true else err")
				}
			}
			// proxy10 (fix 4e7d4a7f0): `if s.upstreamRequest != nil && s.upstreamRequest.setupRetry { s.detachRetriedRequest() }` in the
			// local-reply branch — a retry that was being set up is abandoned; for this model the call is the consumption of the mark
			if len(x.Body.List) == 1 {
				if es, ok := x.Body.List[0].(*ast.ExprStmt); ok && exprKey(es.X) == "s.detachRetriedRequest()" {
					return next("let s : σ := if " + c + " then o.setSetupRetry s false else s")
				}
			}
			return "", fmt.Errorf("processError: unsupported return-free if")
		}
		thenStmts := x.Body.List
		if !endsInReturn(x.Body.List) {
			thenStmts = append(append([]ast.Stmt{}, x.Body.List...), rest...)
		}
		t, err := g.block(thenStmts, ind+"  ")
		if err != nil {
			return "", err
		}
		e, err := g.block(rest, ind)
		if err != nil {
			return "", err
		}
		return "if " + c + " then\n" + ind + "  " + t + "\n" + ind + "else\n" + ind + e, nil
	}
	return "", fmt.Errorf("processError: unsupported statement %T", st)
}

// ---- the module ------------------------------------------------------------------------------------------------

func genFilterPhase() (string, error) {
	// (a) Phase enum
	_, order, err := c14DirConsts(filepath.Join(repo, "pkg/types"))
	if err != nil {
		return "", err
	}
	phases := order["Phase"]
	if len(phases) < 10 {
		return "", fmt.Errorf("Phase constants not found")
	}
	s := "-- GENERATED by /verif/extract from pkg/types/proxy.go, pkg/types/constant.go, pkg/proxy/downstream.go, pkg/streamfilter/chain.go, mosn.io/api — do not edit; regenerated on every check\n"
	s += "set_option linter.unusedVariables false\nnamespace MosnVerif.Gen.FilterPhase\n"
	s += "/-! the `Phase` enum of pkg/types/proxy.go, in declaration order -/\n"
	for _, n := range phases {
		v, err := intConst("pkg/types", n)
		if err != nil {
			return "", err
		}
		s += fmt.Sprintf("abbrev %s : Nat := %d\n", n, v)
	}
	var q []string
	for _, n := range phases {
		q = append(q, "\""+n+"\"")
	}
	s += "def phaseNames : List String := [" + strings.Join(q, ", ") + "]\n"

	// (b) (c) loop bounds
	df, err := parse("pkg/proxy/downstream.go")
	if err != nil {
		return "", err
	}
	recvFn := findFunc(df, "downStream", "receive")
	onRecv := findFunc(df, "downStream", "OnReceive")
	if recvFn == nil || onRecv == nil {
		return "", fmt.Errorf("receive / OnReceive not found")
	}
	loopBound := func(body *ast.BlockStmt) (string, error) {
		var fs *ast.ForStmt
		ast.Inspect(body, func(n ast.Node) bool {
			if f, ok := n.(*ast.ForStmt); ok && fs == nil {
				fs = f
				return false
			}
			return fs == nil
		})
		if fs == nil || fs.Cond == nil {
			return "", fmt.Errorf("loop not found")
		}
		be, ok := fs.Cond.(*ast.BinaryExpr)
		if !ok || exprKey(be.X) != "i" {
			return "", fmt.Errorf("unsupported loop condition")
		}
		if as, ok := fs.Init.(*ast.AssignStmt); !ok || exprKey(as.Lhs[0]) != "i" || exprKey(as.Rhs[0]) != "0" {
			return "", fmt.Errorf("loop does not start at 0")
		}
		if inc, ok := fs.Post.(*ast.IncDecStmt); !ok || inc.Tok != token.INC {
			return "", fmt.Errorf("loop does not count up")
		}
		env := &Env{Names: map[string]string{}, Calls: map[string]string{"int": ""}}
		for _, n := range phases {
			env.Names["types."+n] = n
		}
		r, err := env.expr(be.Y)
		if err != nil {
			return "", err
		}
		r = strings.TrimSuffix(strings.TrimPrefix(r, "("), ")")
		return be.Op.String() + " " + r, nil
	}
	rb, err := loopBound(recvFn.Body)
	if err != nil {
		return "", fmt.Errorf("receive: %v", err)
	}
	if !strings.HasPrefix(rb, "<= ") {
		return "", fmt.Errorf("receive: loop condition is `i %s`, expected `i <= …`", rb)
	}
	s += "/-- `for i := 0; i " + rb + "; i++` in downStream.receive: iterations i = 0..receiveLoopBound -/\n"
	s += "abbrev receiveLoopBound : Nat := " + strings.TrimPrefix(rb, "<= ") + "\n"
	var task *ast.FuncLit
	ast.Inspect(onRecv.Body, func(n ast.Node) bool {
		if fl, ok := n.(*ast.FuncLit); ok && task == nil {
			has := false
			ast.Inspect(fl.Body, func(m ast.Node) bool {
				if c, ok := m.(*ast.CallExpr); ok && exprKey(c.Fun) == "s.receive" {
					has = true
				}
				return true
			})
			if has {
				task = fl
			}
		}
		return true
	})
	if task == nil {
		return "", fmt.Errorf("OnReceive: task closure not found")
	}
	var taskLoop *ast.ForStmt
	ast.Inspect(task.Body, func(n ast.Node) bool {
		if f, ok := n.(*ast.ForStmt); ok && taskLoop == nil {
			taskLoop = f
		}
		return true
	})
	if taskLoop == nil {
		return "", fmt.Errorf("OnReceive: task loop not found")
	}
	tb, err := loopBound(&ast.BlockStmt{List: []ast.Stmt{taskLoop}})
	if err != nil {
		return "", fmt.Errorf("OnReceive: %v", err)
	}
	if !strings.HasPrefix(tb, "< ") {
		return "", fmt.Errorf("OnReceive: loop condition is `i %s`, expected `i < …`", tb)
	}
	s += "/-- `for i := 0; i " + tb + "; i++` around s.receive in downStream.OnReceive -/\n"
	s += "abbrev taskLoopBound : Nat := " + strings.TrimPrefix(tb, "< ") + "\n\n"

	// (d) (e) api constants
	ad, err := apiDir()
	if err != nil {
		return "", err
	}
	avals, aorder, err := c14DirConsts(ad)
	if err != nil {
		return "", err
	}
	// (c') [proxy8] what follows the task loop when its budget is used up
	fin, err := c14p8Finish(df, task, taskLoop, phases, avals)
	if err != nil {
		return "", err
	}
	s += fin
	sts := aorder["StreamFilterStatus"]
	if len(sts) == 0 {
		return "", fmt.Errorf("api.StreamFilterStatus constants not found")
	}
	var ctors []string
	for _, n := range sts {
		ctors = append(ctors, stripPrefix(n, "StreamFilter"))
	}
	s += "/-- api.StreamFilterStatus constants (mosn.io/api stream_filter.go) + `unknown` for any other string -/\n"
	s += "inductive FStatus where\n  | " + strings.Join(ctors, " | ") + " | unknown\n  deriving DecidableEq, Repr\n"
	s += "def FStatus.ofString (s : String) : FStatus :=\n"
	for i, n := range sts {
		kw := "  else if"
		if i == 0 {
			kw = "  if"
		}
		s += fmt.Sprintf("%s s = %s then .%s\n", kw, avals[n].ExactString(), ctors[i])
	}
	s += "  else .unknown\n\n"
	rps := aorder["ReceiverFilterPhase"]
	if len(rps) == 0 {
		return "", fmt.Errorf("api.ReceiverFilterPhase constants not found")
	}
	s += "/-- api.ReceiverFilterPhase constants, in declaration order -/\n"
	s += "inductive RPhase where\n  | " + strings.Join(rps, " | ") + "\n  deriving DecidableEq, Repr\n\n"

	// (f) the loops' switches
	cf, err := parse("pkg/streamfilter/chain.go")
	if err != nil {
		return "", err
	}
	rr := findFunc(cf, "DefaultStreamFilterChainImpl", "RunReceiverFilter")
	rs := findFunc(cf, "DefaultStreamFilterChainImpl", "RunSenderFilter")
	if rr == nil || rs == nil {
		return "", fmt.Errorf("RunReceiverFilter / RunSenderFilter not found")
	}
	rsw, recPhase, err := loopSwitch(rr, "d.receiverFiltersIndex")
	if err != nil {
		return "", err
	}
	ssw, _, err := loopSwitch(rs, "d.senderFiltersIndex")
	if err != nil {
		return "", err
	}
	guard, err := cursorGuard(rr)
	if err != nil {
		return "", err
	}
	s += "/-- what the `switch filterStatus` at the end of a loop iteration does: `next` = fall to the loop increment,\n`resetReturn` = cursor := 0; return, `keepReturn` = return with the cursor left at this filter -/\n"
	s += "inductive LoopAct where\n  | next | resetReturn | keepReturn\n  deriving DecidableEq, Repr\n"
	s += "/-- DefaultStreamFilterChainImpl.RunReceiverFilter -/\ndef recvSwitch : FStatus → LoopAct\n" + rsw
	s += "/-- DefaultStreamFilterChainImpl.RunSenderFilter -/\ndef sendSwitch : FStatus → LoopAct\n" + ssw
	s += "/-- where a RunReceiverFilter pass starts, given the cursor and whether the pass has the phase recorded with it -/\n"
	s += "def recvStart (cursor : Nat) (samePhase : Bool) : Nat := " + guard + "\n"
	s += fmt.Sprintf("/-- every keep-the-cursor case records `receiverFiltersIndexPhase = phase` -/\ndef keepRecordsPhase : Bool := %v\n\n", recPhase)

	// (g) status handlers
	s += "/-- effect of a status handler: `clean` = s.cleanStream(); `again on target` = `if phase == on { s.receiverFiltersAgainPhase = target }` -/\n"
	s += "inductive HEffect where\n  | none | clean | again (on : RPhase) (target : Nat)\n  deriving DecidableEq, Repr\n"
	rh := findFunc(df, "downStream", "receiverFilterStatusHandler")
	sh := findFunc(df, "downStream", "senderFilterStatusHandler")
	if rh == nil || sh == nil {
		return "", fmt.Errorf("status handlers not found")
	}
	if len(rh.Body.List) != 1 {
		return "", fmt.Errorf("receiverFilterStatusHandler: expected a single switch")
	}
	rsws, ok := rh.Body.List[0].(*ast.SwitchStmt)
	if !ok || exprKey(rsws.Tag) != "status" {
		return "", fmt.Errorf("receiverFilterStatusHandler: expected `switch status`")
	}
	s += "/-- downStream.receiverFilterStatusHandler -/\ndef receiverHandler : FStatus → HEffect\n"
	for _, st := range rsws.Body.List {
		cc := st.(*ast.CaseClause)
		if cc.List == nil {
			return "", fmt.Errorf("receiverFilterStatusHandler: default clause")
		}
		eff, err := handlerEffect(cc.Body)
		if err != nil {
			return "", fmt.Errorf("receiverFilterStatusHandler: %v", err)
		}
		for _, l := range cc.List {
			c, err := statusCtor(l)
			if err != nil {
				return "", err
			}
			s += "  | " + c + " => " + eff + "\n"
		}
	}
	s += "  | _ => .none\n"
	s += "/-- downStream.senderFilterStatusHandler -/\ndef senderHandler : FStatus → HEffect\n"
	for _, st := range sh.Body.List {
		if c14IsLogStmt(st) {
			continue
		}
		is, ok := st.(*ast.IfStmt)
		if !ok || is.Else != nil || is.Init != nil {
			return "", fmt.Errorf("senderFilterStatusHandler: unsupported statement")
		}
		be, ok := is.Cond.(*ast.BinaryExpr)
		if !ok || be.Op != token.EQL || exprKey(be.X) != "status" {
			return "", fmt.Errorf("senderFilterStatusHandler: unsupported condition")
		}
		c, err := statusCtor(be.Y)
		if err != nil {
			return "", err
		}
		eff, err := handlerEffect(is.Body.List)
		if err != nil {
			return "", fmt.Errorf("senderFilterStatusHandler: %v", err)
		}
		s += "  | " + c + " => " + eff + "\n"
	}
	s += "  | _ => .none\n\n"

	// (h) which case runs which filters
	var psw *ast.SwitchStmt
	ast.Inspect(recvFn.Body, func(n ast.Node) bool {
		if x, ok := n.(*ast.SwitchStmt); ok && x.Tag != nil && exprKey(x.Tag) == "phase" && psw == nil {
			psw = x
		}
		return true
	})
	if psw == nil {
		return "", fmt.Errorf("receive: switch phase not found")
	}
	var rmap [][2]string
	sendCase := ""
	for _, st := range psw.Body.List {
		cc := st.(*ast.CaseClause)
		if len(cc.List) != 1 {
			continue
		}
		label := strings.TrimPrefix(exprKey(cc.List[0]), "types.")
		for _, b := range cc.Body {
			ast.Inspect(b, func(n ast.Node) bool {
				c, ok := n.(*ast.CallExpr)
				if !ok {
					return true
				}
				switch exprKey(c.Fun) {
				case "s.streamFilterChain.RunReceiverFilter":
					rmap = append(rmap, [2]string{label, strings.TrimPrefix(exprKey(c.Args[1]), "api.")})
				case "s.streamFilterChain.RunSenderFilter":
					if sendCase != "" {
						sendCase = "!"
					} else {
						sendCase = label
					}
				}
				return true
			})
		}
	}
	if len(rmap) == 0 || sendCase == "" || sendCase == "!" {
		return "", fmt.Errorf("receive: filter calls not found (receiver cases %d, sender case %q)", len(rmap), sendCase)
	}
	s += "/-- which `case` of downStream.receive runs the receiver filters of which api phase -/\n"
	s += "def recvPhaseOf (p : Nat) : Option RPhase :=\n"
	for i, m := range rmap {
		kw := "  else if"
		if i == 0 {
			kw = "  if"
		}
		s += fmt.Sprintf("%s p = %s then some .%s\n", kw, m[0], m[1])
	}
	s += "  else none\n"
	s += "/-- the `case` of downStream.receive that runs the sender filters -/\nabbrev sendFilterPhase : Nat := " + sendCase + "\n\n"

	// (i) reset reason -> code
	tf, err := parse("pkg/types/constant.go")
	if err != nil {
		return "", err
	}
	var tbl *ast.CompositeLit
	for _, d := range tf.Decls {
		if gd, ok := d.(*ast.GenDecl); ok && gd.Tok == token.VAR {
			for _, sp := range gd.Specs {
				vs := sp.(*ast.ValueSpec)
				if len(vs.Names) == 1 && vs.Names[0].Name == "reason2code" && len(vs.Values) == 1 {
					tbl, _ = vs.Values[0].(*ast.CompositeLit)
				}
			}
		}
	}
	if tbl == nil {
		return "", fmt.Errorf("reason2code not found")
	}
	apiInt := func(e ast.Expr) (int64, error) {
		k := strings.TrimPrefix(exprKey(e), "api.")
		v, ok := avals[k]
		if !ok {
			return 0, fmt.Errorf("api constant %s not found", k)
		}
		i, ok := constant.Int64Val(constant.ToInt(v))
		if !ok {
			return 0, fmt.Errorf("api constant %s is not an integer", k)
		}
		return i, nil
	}
	s += "/-- types.ConvertReasonToCode (pkg/types/constant.go reason2code, api codes resolved), keyed by the reset-reason constant name -/\n"
	s += "def reasonCode (reason : String) : Nat :=\n"
	for i, el := range tbl.Elts {
		kv := el.(*ast.KeyValueExpr)
		code, err := apiInt(kv.Value)
		if err != nil {
			return "", err
		}
		kw := "  else if"
		if i == 0 {
			kw = "  if"
		}
		s += fmt.Sprintf("%s reason = \"%s\" then %d\n", kw, exprKey(kv.Key), code)
	}
	cr := findFunc(tf, "", "ConvertReasonToCode")
	if cr == nil {
		return "", fmt.Errorf("ConvertReasonToCode not found")
	}
	last, ok := cr.Body.List[len(cr.Body.List)-1].(*ast.ReturnStmt)
	if !ok || len(last.Results) != 1 {
		return "", fmt.Errorf("ConvertReasonToCode: default return not found")
	}
	dflt, err := apiInt(last.Results[0])
	if err != nil {
		return "", err
	}
	s += fmt.Sprintf("  else %d\n", dflt)
	for _, n := range []string{"RouterUnavailableCode", "NoHealthUpstreamCode"} {
		v, err := apiInt(&ast.Ident{Name: n})
		if err != nil {
			return "", err
		}
		s += fmt.Sprintf("abbrev %s : Nat := %d\n", n, v)
	}
	s += "\n"

	// (j) processError
	pe := findFunc(df, "downStream", "processError")
	if pe == nil {
		return "", fmt.Errorf("processError not found")
	}
	g := &peGen{conds: map[string]string{
		"s.directResponse":             "(o.directResponse s)",
		"s.oneway":                     "(o.oneway s)",
		"s.upstreamProcessDone.Load()": "(o.upstreamProcessDone s)",
		"s.upstreamRequest != nil && s.upstreamRequest.setupRetry": "(o.setupRetry s)",
		"atomic.LoadUint32(&s.downstreamCleaned) == 1":             "(o.cleaned s)",
		"atomic.LoadUint32(&s.upstreamReset) == 1":                 "(o.upstreamReset s)",
		"atomic.LoadUint32(&s.downstreamReset) == 1":               "(o.downstreamReset s)",
	}}
	body, err := g.block(pe.Body.List, "  ")
	if err != nil {
		return "", err
	}
	s += "/-- the reads and writes of downStream.processError on the stream state `σ` -/\n"
	s += "structure Ops (σ : Type) where\n  cleaned : σ → Bool\n  upstreamReset : σ → Bool\n  downstreamReset : σ → Bool\n  directResponse : σ → Bool\n  oneway : σ → Bool\n  curPhase : σ → Nat\n  upstreamProcessDone : σ → Bool\n  setupRetry : σ → Bool\n  again : σ → Nat\n  setDirectResponse : σ → Bool → σ\n  clearRetryState : σ → σ\n  releaseRetry : σ → σ\n  setAgain : σ → Nat → σ\n  setSetupRetry : σ → Bool → σ\n  onUpstreamReset : σ → σ\n  resetStream : σ → σ\n  markDirectResponse : σ → σ\n\n"
	s += "/-- downStream.processError, statement by statement: (phase, err != nil, state) -/\n"
	s += "def processError {σ : Type} (o : Ops σ) (idMismatch : Bool) (s : σ) : Nat × Bool × σ :=\n  let phase : Nat := 0\n  let err : Bool := false\n  " + body + "\n"
	s += footer("FilterPhase")
	return s, nil
}
