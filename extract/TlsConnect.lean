-- translation-unsupported TlsConnect: open -out/pkg/network/connection.go: no such file or directory
namespace MosnVerif.Gen.TlsConnect
end MosnVerif.Gen.TlsConnect
