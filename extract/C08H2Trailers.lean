-- translation-unsupported C08H2Trailers: open -out/pkg/module/http2/mhttp2.go: no such file or directory
namespace MosnVerif.Gen.C08H2Trailers
end MosnVerif.Gen.C08H2Trailers
