package main

// Gen/SubsetSlice.lean for C15: the statements with which the pre-index subset builder's doMetadataCombination
// (pkg/upstream/cluster/subset_loadbalancer_builder.go) extends the combination slice it RECEIVED by the next
// key/value pair, as a small slice program (make / copy / append / reslice over numbered slice variables), so that
// the Lean model can give that accumulator Go's slice semantics (backing array, len, cap) and aliasing between sibling
// combinations becomes visible.  The surrounding loop is checked for the shape the model assumes:
//
//	for value := range b.indexer[key] {
//	    <extend statements: the only statements that mention the received slice>
//	    if <cond> { ret = append(ret, b.doMetadataCombination(keys, idx+1, X)...) } else { ret = append(ret, X) }
//	}
//
// Anything else (other statement kinds, other slice expressions, the received slice mentioned elsewhere, a non-nil
// initial accumulator) is rejected, which empties the module and breaks the dependent proofs.
//
// All helpers carry the prefix c15s.

import (
	"bytes"
	"fmt"
	"go/ast"
	"go/printer"
	"go/token"
	"strconv"
	"strings"
)

func init() { register("SubsetSlice", genSubsetSlice) }

type c15sEnv struct {
	vars     map[string]int  // slice variable name -> number (0 = the received slice)
	pairs    map[string]bool // identifiers bound to the pair literal
	keyName  string          // `key`
	valName  string          // the range variable
	elemType []string        // accepted printed slice types
}

func (e *c15sEnv) varOf(x ast.Expr) (int, bool) {
	id, ok := x.(*ast.Ident)
	if !ok {
		return 0, false
	}
	n, ok := e.vars[id.Name]
	return n, ok
}

func (e *c15sEnv) define(x ast.Expr, isDefine bool) (int, error) {
	id, ok := x.(*ast.Ident)
	if !ok {
		return 0, fmt.Errorf("assignment target %s is not an identifier", c15sStr(x))
	}
	if n, ok := e.vars[id.Name]; ok {
		return n, nil
	}
	if !isDefine {
		return 0, fmt.Errorf("assignment to undeclared slice variable %s", id.Name)
	}
	n := len(e.vars)
	e.vars[id.Name] = n
	return n, nil
}

func (e *c15sEnv) isSliceType(x ast.Expr) bool {
	p := c15sStr(x)
	for _, t := range e.elemType {
		if p == t {
			return true
		}
	}
	return false
}

// c15sIsPair: `types.Pair{T1: key, T2: value}` / `types.Pair{key, value}` or an identifier bound to it
func (e *c15sEnv) c15sIsPair(x ast.Expr) bool {
	if id, ok := x.(*ast.Ident); ok {
		return e.pairs[id.Name]
	}
	cl, ok := x.(*ast.CompositeLit)
	if !ok || c15sStr(cl.Type) != "types.Pair" || len(cl.Elts) != 2 {
		return false
	}
	get := func(i int, field string) string {
		el := cl.Elts[i]
		if kv, ok := el.(*ast.KeyValueExpr); ok {
			if c15sStr(kv.Key) != field {
				return ""
			}
			el = kv.Value
		}
		if id, ok := el.(*ast.Ident); ok {
			return id.Name
		}
		return ""
	}
	return get(0, "T1") == e.keyName && get(1, "T2") == e.valName
}

func (e *c15sEnv) iexp(x ast.Expr) (string, error) {
	switch v := x.(type) {
	case *ast.ParenExpr:
		return e.iexp(v.X)
	case *ast.BasicLit:
		if v.Kind == token.INT {
			n, err := strconv.Atoi(v.Value)
			if err != nil || n < 0 {
				return "", fmt.Errorf("integer literal %s", v.Value)
			}
			return fmt.Sprintf("(.lit %d)", n), nil
		}
	case *ast.CallExpr:
		if id, ok := v.Fun.(*ast.Ident); ok && len(v.Args) == 1 && (id.Name == "len" || id.Name == "cap") {
			if n, ok := e.varOf(v.Args[0]); ok {
				return fmt.Sprintf("(.%s %d)", id.Name, n), nil
			}
		}
	case *ast.BinaryExpr:
		if v.Op == token.ADD {
			a, err := e.iexp(v.X)
			if err != nil {
				return "", err
			}
			b, err := e.iexp(v.Y)
			if err != nil {
				return "", err
			}
			return "(.add " + a + " " + b + ")", nil
		}
	}
	return "", fmt.Errorf("unsupported size expression %s", c15sStr(x))
}

// sexp: a slice-valued expression: variable, v[:], nil, T{}, T(nil), v[:len(v):len(v)]
func (e *c15sEnv) sexp(x ast.Expr) (string, error) {
	switch v := x.(type) {
	case *ast.ParenExpr:
		return e.sexp(v.X)
	case *ast.Ident:
		if v.Name == "nil" {
			return ".empty", nil
		}
		if n, ok := e.vars[v.Name]; ok {
			return fmt.Sprintf("(.var %d)", n), nil
		}
	case *ast.CompositeLit:
		if e.isSliceType(v.Type) && len(v.Elts) == 0 {
			return ".empty", nil
		}
	case *ast.CallExpr:
		if e.isSliceType(v.Fun) && len(v.Args) == 1 && isNilIdent(v.Args[0]) {
			return ".empty", nil
		}
	case *ast.SliceExpr:
		n, ok := e.varOf(v.X)
		if !ok || v.Low != nil {
			break
		}
		if v.High == nil && v.Max == nil {
			return fmt.Sprintf("(.var %d)", n), nil
		}
		lenv := fmt.Sprintf("len(%s)", c15sStr(v.X))
		if v.Slice3 && v.High != nil && v.Max != nil && c15sStr(v.High) == lenv && c15sStr(v.Max) == lenv {
			return fmt.Sprintf("(.clip %d)", n), nil
		}
		if !v.Slice3 && v.High != nil && c15sStr(v.High) == lenv {
			return fmt.Sprintf("(.var %d)", n), nil
		}
	}
	return "", fmt.Errorf("unsupported slice expression %s", c15sStr(x))
}

func (e *c15sEnv) stmt(s ast.Stmt) ([]string, error) {
	switch st := s.(type) {
	case *ast.ExprStmt:
		call, ok := st.X.(*ast.CallExpr)
		if ok {
			if id, ok := call.Fun.(*ast.Ident); ok && id.Name == "copy" && len(call.Args) == 2 {
				d, ok1 := e.varOf(call.Args[0])
				sx, err := e.sexp(call.Args[1])
				if ok1 && err == nil {
					return []string{fmt.Sprintf(".copy %d %s", d, sx)}, nil
				}
			}
		}
	case *ast.DeclStmt: // `var x T` : a nil slice
		gd, ok := st.Decl.(*ast.GenDecl)
		if ok && gd.Tok == token.VAR && len(gd.Specs) == 1 {
			vs := gd.Specs[0].(*ast.ValueSpec)
			if len(vs.Names) == 1 && len(vs.Values) == 0 && vs.Type != nil && e.isSliceType(vs.Type) {
				n, err := e.define(vs.Names[0], true)
				if err != nil {
					return nil, err
				}
				return []string{fmt.Sprintf(".assign %d .empty", n)}, nil
			}
		}
	case *ast.AssignStmt:
		if len(st.Lhs) != 1 || len(st.Rhs) != 1 || (st.Tok != token.DEFINE && st.Tok != token.ASSIGN) {
			break
		}
		isDef := st.Tok == token.DEFINE
		// p := types.Pair{…}
		if id, ok := st.Lhs[0].(*ast.Ident); ok && isDef {
			if _, isCl := st.Rhs[0].(*ast.CompositeLit); isCl && e.c15sIsPair(st.Rhs[0]) {
				e.pairs[id.Name] = true
				return nil, nil
			}
		}
		if call, ok := st.Rhs[0].(*ast.CallExpr); ok {
			if id, ok := call.Fun.(*ast.Ident); ok {
				switch {
				case id.Name == "make" && (len(call.Args) == 2 || len(call.Args) == 3) && e.isSliceType(call.Args[0]):
					l, err := e.iexp(call.Args[1])
					if err != nil {
						return nil, err
					}
					c := l
					if len(call.Args) == 3 {
						if c, err = e.iexp(call.Args[2]); err != nil {
							return nil, err
						}
					}
					n, err := e.define(st.Lhs[0], isDef)
					if err != nil {
						return nil, err
					}
					return []string{fmt.Sprintf(".make %d %s %s", n, l, c)}, nil
				case id.Name == "append" && len(call.Args) == 2:
					base, err := e.sexp(call.Args[0])
					if err != nil {
						return nil, err
					}
					if call.Ellipsis != token.NoPos {
						from, err := e.sexp(call.Args[1])
						if err != nil {
							return nil, err
						}
						n, err := e.define(st.Lhs[0], isDef)
						if err != nil {
							return nil, err
						}
						return []string{fmt.Sprintf(".appendAll %d %s %s", n, base, from)}, nil
					}
					if !e.c15sIsPair(call.Args[1]) {
						return nil, fmt.Errorf("appended element %s is not the pair {%s, %s}", c15sStr(call.Args[1]), e.keyName, e.valName)
					}
					n, err := e.define(st.Lhs[0], isDef)
					if err != nil {
						return nil, err
					}
					return []string{fmt.Sprintf(".appendPair %d %s", n, base)}, nil
				}
			}
		}
		// x := <slice expression>
		if sx, err := e.sexp(st.Rhs[0]); err == nil {
			n, err := e.define(st.Lhs[0], isDef)
			if err != nil {
				return nil, err
			}
			return []string{fmt.Sprintf(".assign %d %s", n, sx)}, nil
		}
	}
	return nil, fmt.Errorf("unsupported statement shape in the combination extension")
}

func c15sCountIdent(n ast.Node, name string) int {
	c := 0
	ast.Inspect(n, func(x ast.Node) bool {
		if id, ok := x.(*ast.Ident); ok && id.Name == name {
			c++
		}
		return true
	})
	return c
}

// c15sRetAppend matches `ret = append(ret, <arg>)` (spread or not) and returns arg
func c15sRetAppend(s ast.Stmt, spread bool) (ast.Expr, bool) {
	as, ok := s.(*ast.AssignStmt)
	if !ok || as.Tok != token.ASSIGN || len(as.Lhs) != 1 || len(as.Rhs) != 1 || c15sStr(as.Lhs[0]) != "ret" {
		return nil, false
	}
	call, ok := as.Rhs[0].(*ast.CallExpr)
	if !ok || c15sStr(call.Fun) != "append" || len(call.Args) != 2 || c15sStr(call.Args[0]) != "ret" {
		return nil, false
	}
	if (call.Ellipsis != token.NoPos) != spread {
		return nil, false
	}
	return call.Args[1], true
}

func genSubsetSlice() (string, error) {
	f, err := parse(c15builder)
	if err != nil {
		return "", err
	}
	fd := findFunc(f, "subsetLoadBalancerBuilder", "doMetadataCombination")
	if fd == nil {
		return "", fmt.Errorf("doMetadataCombination not found")
	}
	// parameters (keys []string, idx int, <acc> types.SubsetMetadata)
	var params []string
	var ptypes []string
	for _, fl := range fd.Type.Params.List {
		for _, n := range fl.Names {
			params = append(params, n.Name)
			ptypes = append(ptypes, c15sStr(fl.Type))
		}
	}
	if len(params) != 3 || ptypes[2] != "types.SubsetMetadata" || ptypes[1] != "int" {
		return "", fmt.Errorf("doMetadataCombination: unexpected parameters %v %v", params, ptypes)
	}
	keysP, idxP, acc := params[0], params[1], params[2]
	// body: key := keys[idx]; var ret []types.SubsetMetadata; for value := range b.indexer[key] {…}; return ret
	if len(fd.Body.List) != 4 {
		return "", fmt.Errorf("doMetadataCombination: body has %d statements, expected 4", len(fd.Body.List))
	}
	ka, ok := fd.Body.List[0].(*ast.AssignStmt)
	if !ok || ka.Tok != token.DEFINE || len(ka.Lhs) != 1 || c15sStr(ka.Rhs[0]) != keysP+"["+idxP+"]" {
		return "", fmt.Errorf("doMetadataCombination: first statement is not `key := %s[%s]`", keysP, idxP)
	}
	keyName := c15sStr(ka.Lhs[0])
	if ds, ok := fd.Body.List[1].(*ast.DeclStmt); !ok || c15sCountIdent(ds, acc) != 0 || c15sCountIdent(ds, "ret") != 1 {
		return "", fmt.Errorf("doMetadataCombination: second statement is not `var ret …`")
	}
	rs, ok := fd.Body.List[2].(*ast.RangeStmt)
	if !ok || rs.Key == nil || rs.Value != nil || rs.Tok != token.DEFINE || c15sStr(rs.X) != "b.indexer["+keyName+"]" {
		return "", fmt.Errorf("doMetadataCombination: third statement is not `for value := range b.indexer[%s]`", keyName)
	}
	if r, ok := fd.Body.List[3].(*ast.ReturnStmt); !ok || len(r.Results) != 1 || c15sStr(r.Results[0]) != "ret" {
		return "", fmt.Errorf("doMetadataCombination: last statement is not `return ret`")
	}
	valName := c15sStr(rs.Key)
	body := rs.Body.List
	if len(body) < 2 {
		return "", fmt.Errorf("doMetadataCombination: loop body too short")
	}
	// the closing if/else
	is, ok := body[len(body)-1].(*ast.IfStmt)
	if !ok || is.Init != nil || is.Else == nil || len(is.Body.List) != 1 {
		return "", fmt.Errorf("doMetadataCombination: loop body does not end with if/else")
	}
	eb, ok := is.Else.(*ast.BlockStmt)
	if !ok || len(eb.List) != 1 {
		return "", fmt.Errorf("doMetadataCombination: else branch is not a single statement")
	}
	rec, ok1 := c15sRetAppend(is.Body.List[0], true)
	leaf, ok2 := c15sRetAppend(eb.List[0], false)
	if !ok1 || !ok2 {
		return "", fmt.Errorf("doMetadataCombination: branches are not `ret = append(ret, …)`")
	}
	rc, ok := rec.(*ast.CallExpr)
	if !ok || c15sStr(rc.Fun) != "b.doMetadataCombination" || len(rc.Args) != 3 ||
		c15sStr(rc.Args[0]) != keysP || c15sStr(rc.Args[1]) != idxP+"+1" {
		return "", fmt.Errorf("doMetadataCombination: recursive call has an unexpected shape: %s", c15sStr(rec))
	}
	resID, okA := rc.Args[2].(*ast.Ident)
	leafID, okB := leaf.(*ast.Ident)
	if !okA || !okB || resID.Name != leafID.Name {
		return "", fmt.Errorf("doMetadataCombination: the recursion and the leaf do not pass on the same slice variable")
	}
	env := &c15sEnv{vars: map[string]int{acc: 0}, pairs: map[string]bool{}, keyName: keyName, valName: valName,
		elemType: []string{"types.SubsetMetadata", "[]types.Pair"}}
	var stmts, src []string
	for _, s := range body[:len(body)-1] {
		out, err := env.stmt(s)
		if err != nil {
			return "", fmt.Errorf("doMetadataCombination: %v", err)
		}
		stmts = append(stmts, out...)
		src = append(src, c15sOneLine(s))
	}
	resVar, ok := env.vars[resID.Name]
	if !ok {
		return "", fmt.Errorf("doMetadataCombination: %s is not a slice variable of the extension", resID.Name)
	}
	// the received slice may be mentioned only inside the extension statements (and as the passed-on variable)
	inExt := 0
	for _, s := range body[:len(body)-1] {
		inExt += c15sCountIdent(s, acc)
	}
	extra := 0
	if resID.Name == acc {
		extra = 2
	}
	if total := c15sCountIdent(fd.Body, acc); total != inExt+extra {
		return "", fmt.Errorf("doMetadataCombination: the received slice %s is used outside the extension statements", acc)
	}
	// initial accumulator: metadataCombinations calls doMetadataCombination(keys, 0, nil)
	mc := findFunc(f, "subsetLoadBalancerBuilder", "metadataCombinations")
	if mc == nil {
		return "", fmt.Errorf("metadataCombinations not found")
	}
	initNil, calls := false, 0
	ast.Inspect(mc.Body, func(n ast.Node) bool {
		if c, ok := n.(*ast.CallExpr); ok && c15sStr(c.Fun) == "b.doMetadataCombination" {
			calls++
			initNil = len(c.Args) == 3 && c15sStr(c.Args[1]) == "0" && isNilIdent(c.Args[2])
		}
		return true
	})
	if calls != 1 || !initNil {
		return "", fmt.Errorf("metadataCombinations: the initial call is not doMetadataCombination(keys, 0, nil)")
	}

	s := header("SubsetSlice", c15builder+" (doMetadataCombination: extension of the received combination slice)")
	s += `/-- integer expressions over the slice variables -/
inductive IExp where
  | lit (n : Nat)
  | len (v : Nat)
  | cap (v : Nat)
  | add (a b : IExp)
  deriving DecidableEq, Repr
/-- slice-valued expressions: a variable, nil / an empty literal, ` + "`v[:len(v):len(v)]`" + ` -/
inductive SExp where
  | var (v : Nat)
  | empty
  | clip (v : Nat)
  deriving DecidableEq, Repr
/-- statements over numbered slice variables (0 = the slice the function received) -/
inductive Stmt where
  | make (dst : Nat) (len cap : IExp)          -- dst := make(T, len, cap)
  | copy (dst : Nat) (src : SExp)              -- copy(dst, src)
  | appendPair (dst : Nat) (base : SExp)       -- dst = append(base, Pair{key, value})
  | appendAll (dst : Nat) (base src : SExp)    -- dst = append(base, src...)
  | assign (dst : Nat) (src : SExp)            -- dst := src
  deriving DecidableEq, Repr
`
	s += "/-- the loop body of `doMetadataCombination` up to its closing if/else — Go: `" + strings.Join(src, "; ") + "` -/\n"
	s += "def comboExtend : List Stmt :=\n  [" + strings.Join(stmts, ",\n   ") + "]\n"
	s += fmt.Sprintf("/-- the slice variable (`%s`) handed to the recursive call and stored as a finished combination -/\n", resID.Name)
	s += fmt.Sprintf("def comboResult : Nat := %d\n", resVar)
	s += fmt.Sprintf("/-- number of slice variables of the extension -/\ndef comboVars : Nat := %d\n", len(env.vars))
	s += footer("SubsetSlice")
	return s, nil
}

// c15sStr prints a node with go/printer and removes all white space (comparison key and documentation text)
func c15sStr(n ast.Node) string {
	var b bytes.Buffer
	if err := printer.Fprint(&b, fset, n); err != nil {
		return "?"
	}
	return strings.Join(strings.Fields(b.String()), "")
}

func c15sOneLine(s ast.Stmt) string {
	var b bytes.Buffer
	if err := printer.Fprint(&b, fset, s); err != nil {
		return "?"
	}
	return strings.Join(strings.Fields(b.String()), " ")
}
