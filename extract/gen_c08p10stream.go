package main

// Gen module C08StreamAlloc (builder c08p10; C08 "no allocation for an announced length whose bytes have not arrived",
// STREAM layer): every buffer allocation with a size argument on the stream-layer receive paths —
//   pkg/stream/http2/stream.go  serverStreamConnection.handleFrame, clientStreamConnection.handleFrame (the buffer that
//                               collects a request / response body), and, as far as they have any,
//   pkg/stream/http/stream.go, pkg/stream/xprotocol/{conn,stream}.go (whole files) —
// i.e. each `buffer.GetIoBuffer(n)` / `buffer.NewIoBuffer(n)` / `buffer.NewPipeBuffer(n)` / `buffer.GetBytes(n)` /
// `make([]byte, n…)` / `<x>.Grow(n)` with the PROVENANCE of n, closed vocabulary:
//   constant         n folds to a constant
//   received-length  n is built (+, *, conversions) from constants and `len(v)` / `v.Len()` of RECEIVED bytes: the DATA payload
//                    the connection's HandleFrame hands back for the frame being handled, a []byte / IoBuffer parameter
//   announced        n depends on anything else that is peer-announced: a header value, Content-Length, a parsed integer
// (a local variable has the join of the provenances of everything assigned to it in the function). Anything that cannot be
// classified makes the module translation-unsupported.  For the three assignments to `stream.recData` of each handleFrame
// (collecting buffer on the first DATA frame, pipe in streaming mode, empty buffer at END_STREAM without DATA) the size
// expression is translated into a Lean function of (length of the DATA payload being handled, announced content-length).

import (
	"fmt"
	"go/ast"
	"go/token"
	"strings"
)

func init() { register("C08StreamAlloc", genC08pStreamAlloc) }

const (
	c08pProvConst = 0
	c08pProvRecv  = 1
	c08pProvAnn   = 2
	c08pProvUnk   = 3
)

var c08pProvName = []string{"constant", "received-length", "announced", "unknown"}

type c08pProv struct {
	fd       *ast.FuncDecl
	consts   map[string]string
	received map[string]bool // names of variables holding received bytes
	busy     map[string]bool
}

func c08pMaxProv(a, b int) int {
	if a > b {
		return a
	}
	return b
}

var c08pAnnouncedWords = []string{"ContentLength", "Header", "header", "Atoi", "ParseInt", "ParseUint", "Request", "rsp.", "Get(", "Trailer"}

func (p *c08pProv) of(e ast.Expr) int {
	if _, err := evalNat(e, p.consts); err == nil {
		return c08pProvConst
	}
	switch x := e.(type) {
	case *ast.BasicLit:
		return c08pProvConst
	case *ast.ParenExpr:
		return p.of(x.X)
	case *ast.BinaryExpr:
		switch x.Op {
		case token.ADD, token.MUL, token.SUB, token.QUO, token.SHL, token.SHR:
			return c08pMaxProv(p.of(x.X), p.of(x.Y))
		}
		return c08pProvUnk
	case *ast.CallExpr:
		k := exprKey(x.Fun)
		switch {
		case k == "len" && len(x.Args) == 1:
			if p.received[exprKey(x.Args[0])] {
				return c08pProvRecv
			}
		case strings.HasSuffix(k, ".Len") && len(x.Args) == 0:
			if p.received[strings.TrimSuffix(k, ".Len")] {
				return c08pProvRecv
			}
		case (k == "int" || k == "int64" || k == "uint32" || k == "uint64" || k == "int32" || k == "uint") && len(x.Args) == 1:
			return p.of(x.Args[0])
		}
		src := c08fSrc(x)
		for _, w := range c08pAnnouncedWords {
			if strings.Contains(src, w) {
				return c08pProvAnn
			}
		}
		return c08pProvUnk
	case *ast.Ident:
		if p.busy[x.Name] {
			return c08pProvConst
		}
		p.busy[x.Name] = true
		defer delete(p.busy, x.Name)
		// join over everything assigned to the variable in the function
		prov, found := c08pProvConst, false
		ast.Inspect(p.fd.Body, func(n ast.Node) bool {
			switch s := n.(type) {
			case *ast.AssignStmt:
				for i, l := range s.Lhs {
					if exprKey(l) != x.Name {
						continue
					}
					found = true
					switch {
					case len(s.Lhs) == len(s.Rhs):
						if s.Tok == token.ASSIGN || s.Tok == token.DEFINE {
							prov = c08pMaxProv(prov, p.of(s.Rhs[i]))
						} else { // op-assignment: the old value and the operand
							prov = c08pMaxProv(prov, p.of(s.Rhs[i]))
						}
					default:
						prov = c08pMaxProv(prov, p.ofSrc(c08fSrc(s.Rhs[0])))
					}
				}
			case *ast.ValueSpec:
				for i, nm := range s.Names {
					if nm.Name == x.Name {
						found = true
						if i < len(s.Values) {
							prov = c08pMaxProv(prov, p.of(s.Values[i]))
						}
					}
				}
			case *ast.IncDecStmt:
				if exprKey(s.X) == x.Name {
					found = true
				}
			}
			return true
		})
		if !found {
			return p.ofSrc(x.Name)
		}
		return prov
	case *ast.SelectorExpr:
		return p.ofSrc(c08fSrc(x))
	}
	return c08pProvUnk
}

func (p *c08pProv) ofSrc(src string) int {
	for _, w := range c08pAnnouncedWords {
		if strings.Contains(src, w) {
			return c08pProvAnn
		}
	}
	return c08pProvUnk
}

type c08pSite struct {
	fn, call, expr string
	prov           int
	lhs            string
	arg            ast.Expr
	guards         []string
}

// c08pSizedAllocs lists the sized buffer allocations below fd (source order) with the conditions of the enclosing ifs.
func c08pSizedAllocs(fd *ast.FuncDecl, fname string, p *c08pProv) []c08pSite {
	var out []c08pSite
	var walk func(n ast.Node, guards []string, lhs string)
	sized := func(c *ast.CallExpr) (ast.Expr, bool) {
		k := exprKey(c.Fun)
		last := k
		if i := strings.LastIndex(k, "."); i >= 0 {
			last = k[i+1:]
		}
		switch {
		case (last == "GetIoBuffer" || last == "NewIoBuffer" || last == "NewPipeBuffer" || last == "GetBytes" || last == "Grow") && len(c.Args) == 1:
			return c.Args[0], true
		case k == "make" && len(c.Args) >= 2:
			if at, ok := c.Args[0].(*ast.ArrayType); ok && at.Len == nil && (exprKey(at.Elt) == "byte" || exprKey(at.Elt) == "uint8") {
				return c.Args[len(c.Args)-1], true // the capacity if given, else the length
			}
		}
		return nil, false
	}
	walk = func(n ast.Node, guards []string, lhs string) {
		switch x := n.(type) {
		case nil:
			return
		case *ast.IfStmt:
			if x.Init != nil {
				walk(x.Init, guards, "")
			}
			g := append(append([]string(nil), guards...), c08fSrc(x.Cond))
			walk(x.Body, g, "")
			if x.Else != nil {
				walk(x.Else, append(append([]string(nil), guards...), "!("+c08fSrc(x.Cond)+")"), "")
			}
			return
		case *ast.AssignStmt:
			for i, r := range x.Rhs {
				l := ""
				if len(x.Lhs) == len(x.Rhs) {
					l = exprKey(x.Lhs[i])
				}
				walk(r, guards, l)
			}
			return
		case *ast.CallExpr:
			if arg, ok := sized(x); ok {
				out = append(out, c08pSite{fn: fname, call: exprKey(x.Fun), expr: c08fSrc(arg), prov: p.of(arg), lhs: lhs, arg: arg, guards: guards})
			}
			for _, a := range x.Args {
				walk(a, guards, "")
			}
			return
		case *ast.FuncLit:
			walk(x.Body, guards, "")
			return
		}
		ast.Inspect(n, func(m ast.Node) bool {
			if m == n || m == nil {
				return true
			}
			switch m.(type) {
			case *ast.IfStmt, *ast.AssignStmt, *ast.CallExpr, *ast.FuncLit:
				walk(m, guards, "")
				return false
			}
			return true
		})
	}
	walk(fd.Body, nil, "")
	return out
}

func genC08pStreamAlloc() (string, error) {
	var b strings.Builder
	b.WriteString(header("C08StreamAlloc", "pkg/stream/http2/stream.go", "pkg/stream/http/stream.go", "pkg/stream/xprotocol/conn.go", "pkg/stream/xprotocol/stream.go"))
	b.WriteString("set_option linter.unusedVariables false\n")
	var all []c08pSite
	f2, err := parse("pkg/stream/http2/stream.go")
	if err != nil {
		return "", err
	}
	consts := map[string]string{}
	for _, side := range []struct{ pre, recv string }{{"srv", "serverStreamConnection"}, {"cli", "clientStreamConnection"}} {
		fd := findFunc(f2, side.recv, "handleFrame")
		if fd == nil {
			return "", fmt.Errorf("%s.handleFrame not found", side.recv)
		}
		p := &c08pProv{fd: fd, consts: consts, received: map[string]bool{}, busy: map[string]bool{}}
		// the received bytes: result 1 of `… = conn.<x>.HandleFrame(ctx, f)`
		found := false
		ast.Inspect(fd.Body, func(n ast.Node) bool {
			as, ok := n.(*ast.AssignStmt)
			if !ok || len(as.Rhs) != 1 || len(as.Lhs) < 2 {
				return true
			}
			if c, ok := as.Rhs[0].(*ast.CallExpr); ok && strings.HasSuffix(exprKey(c.Fun), ".HandleFrame") {
				p.received[exprKey(as.Lhs[1])] = true
				found = true
			}
			return true
		})
		if !found {
			return "", fmt.Errorf("%s.handleFrame: the call of HandleFrame that hands back the DATA payload was not found", side.recv)
		}
		sites := c08pSizedAllocs(fd, side.recv+".handleFrame", p)
		all = append(all, sites...)
		// the three assignments to stream.recData
		var collect, pipe, empty *c08pSite
		for i := range sites {
			s := &sites[i]
			if s.lhs != "stream.recData" {
				continue
			}
			g := strings.Join(s.guards, " && ")
			switch {
			case strings.HasSuffix(s.call, "GetIoBuffer") && strings.Contains(g, "data != nil") && strings.Contains(g, "stream.recData == nil") && !strings.Contains(g, "!(endStream || !conn.useStream)"):
				if collect != nil {
					return "", fmt.Errorf("%s.handleFrame: two collecting-buffer allocations", side.recv)
				}
				collect = s
			case strings.HasSuffix(s.call, "NewPipeBuffer"):
				pipe = s
			case strings.HasSuffix(s.call, "GetIoBuffer") && !strings.Contains(g, "data != nil"):
				empty = s
			default:
				return "", fmt.Errorf("%s.handleFrame: unrecognised assignment stream.recData = %s(%s) under %s", side.recv, s.call, s.expr, g)
			}
		}
		if collect == nil || pipe == nil || empty == nil {
			return "", fmt.Errorf("%s.handleFrame: the assignments to stream.recData do not have the expected shape (collecting buffer / pipe / empty buffer)", side.recv)
		}
		// the write of the received payload into the buffer
		wr := ""
		ast.Inspect(fd.Body, func(n ast.Node) bool {
			if c, ok := n.(*ast.CallExpr); ok && exprKey(c.Fun) == "stream.recData.Write" && len(c.Args) == 1 {
				wr = exprKey(c.Args[0])
			}
			return true
		})
		if !p.received[wr] {
			return "", fmt.Errorf("%s.handleFrame: stream.recData.Write is not given the received DATA payload (%q)", side.recv, wr)
		}
		names := map[string]string{}
		for v := range p.received {
			names["len("+v+")"] = "recv"
		}
		for _, k := range []string{"h2s.Request.ContentLength", "stream.h2s.Request.ContentLength", "rsp.ContentLength", "stream.rsp.ContentLength"} {
			names[k] = "ann"
		}
		for _, s := range []struct {
			nm, doc string
			site    *c08pSite
		}{{"collect", "the buffer that collects the body (first DATA frame of a stream; not streaming, or END_STREAM)", collect},
			{"pipe", "the pipe of streaming mode (first DATA frame, http2_use_stream)", pipe},
			{"empty", "END_STREAM without any DATA payload", empty}} {
			env := &Env{Names: names, Calls: map[string]string{"int": "", "int64": "", "uint32": "", "uint64": ""}}
			note := ""
			le, err := env.expr(c08pInlineLocals(fd, s.site.arg, 0))
			if err != nil {
				if s.site.prov != c08pProvAnn {
					return "", fmt.Errorf("%s.handleFrame: size expression %s: %v", side.recv, s.site.expr, err)
				}
				// a size that depends on the announcement through code the translator does not follow (a variable assigned
				// more than once, a call): modelled as the announced value itself
				le, note = "ann", " (NOT translated: depends on the announcement through several assignments; modelled as the announced value)"
			}
			fmt.Fprintf(&b, "/-- %s.handleFrame: %s — Go: `stream.recData = %s(%s)` [%s]; recv = length of the DATA payload being handled, ann = the announced content-length%s -/\ndef sa_%s_%s (recv ann : Int) : Int := %s\n",
				side.recv, s.doc, s.site.call, s.site.expr, c08pProvName[s.site.prov], note, side.pre, s.nm, le)
		}
	}
	// the other stream layers: whole files
	for _, file := range []string{"pkg/stream/http/stream.go", "pkg/stream/xprotocol/conn.go", "pkg/stream/xprotocol/stream.go"} {
		f, err := parse(file)
		if err != nil {
			return "", err
		}
		for _, d := range f.Decls {
			fd, ok := d.(*ast.FuncDecl)
			if !ok || fd.Body == nil {
				continue
			}
			p := &c08pProv{fd: fd, consts: consts, received: map[string]bool{}, busy: map[string]bool{}}
			for _, prm := range fd.Type.Params.List {
				t := c08fSrc(prm.Type)
				if t == "[]byte" || strings.HasSuffix(t, "IoBuffer") {
					for _, n := range prm.Names {
						p.received[n.Name] = true
					}
				}
			}
			name := fd.Name.Name
			if fd.Recv != nil && len(fd.Recv.List) == 1 {
				name = c08pBaseType(fd.Recv.List[0].Type) + "." + name
			}
			all = append(all, c08pSizedAllocs(fd, file[len("pkg/stream/"):]+" "+name, p)...)
		}
	}
	var rows []string
	for _, s := range all {
		if s.prov == c08pProvUnk {
			return "", fmt.Errorf("%s: %s(%s): the provenance of the size cannot be classified", s.fn, s.call, s.expr)
		}
		rows = append(rows, fmt.Sprintf("(%q, %q, %q, %q)", s.fn, s.call, s.expr, c08pProvName[s.prov]))
	}
	fmt.Fprintf(&b, "/-- every sized buffer allocation of the stream-layer receive paths: (function, call, size expression, provenance) -/\ndef sa_sites : List (String × String × String × String) :=\n  [%s]\n", strings.Join(rows, ",\n   "))
	b.WriteString(footer("C08StreamAlloc"))
	return b.String(), nil
}

// c08pInlineLocals replaces identifiers that are defined exactly once in fd (`n := <expr>`, never assigned again) by
// their definition, so that `n := len(data); buffer.GetIoBuffer(n)` translates like `buffer.GetIoBuffer(len(data))`.
func c08pInlineLocals(fd *ast.FuncDecl, e ast.Expr, depth int) ast.Expr {
	if depth > 4 {
		return e
	}
	switch x := e.(type) {
	case *ast.Ident:
		var def ast.Expr
		n := 0
		ast.Inspect(fd.Body, func(m ast.Node) bool {
			switch s := m.(type) {
			case *ast.AssignStmt:
				for i, l := range s.Lhs {
					if exprKey(l) == x.Name {
						n++
						if s.Tok == token.DEFINE && len(s.Lhs) == len(s.Rhs) {
							def = s.Rhs[i]
						} else {
							n += 2
						}
					}
				}
			case *ast.IncDecStmt:
				if exprKey(s.X) == x.Name {
					n += 2
				}
			}
			return true
		})
		if n == 1 && def != nil {
			return c08pInlineLocals(fd, def, depth+1)
		}
		return e
	case *ast.ParenExpr:
		return &ast.ParenExpr{X: c08pInlineLocals(fd, x.X, depth)}
	case *ast.BinaryExpr:
		return &ast.BinaryExpr{X: c08pInlineLocals(fd, x.X, depth), Op: x.Op, Y: c08pInlineLocals(fd, x.Y, depth)}
	case *ast.CallExpr:
		if k := exprKey(x.Fun); (k == "int" || k == "int64" || k == "uint32" || k == "uint64") && len(x.Args) == 1 {
			return &ast.CallExpr{Fun: x.Fun, Args: []ast.Expr{c08pInlineLocals(fd, x.Args[0], depth)}}
		}
	}
	return e
}
