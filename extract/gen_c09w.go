package main

// Gen/PoolDestroy.lean (C09 window / C10 ledger): the STATEMENT ORDER of OnDestroyStream of the two ping-pong pools
// (pkg/stream/http/connpool.go activeClient.OnDestroyStream with connPool.onStreamDestroy inlined,
// pkg/stream/xprotocol/connpool_pingpong.go activeClientPingPong.OnDestroyStream with Close(nil) /
// putClientToPoolLocked inlined) as a step program, what NewStream takes (request gauges, requests breaker), and the
// connection_active movements of a successful dial and of the close-event handler.
//
// step codes: 0 host request_active -1 | 1 cluster request_active -1 | 2 Requests().Decrease()
//             3 `if <close test> { close the connection }` | 4 the same followed by `return` | 5 put back (guarded append)
// take codes: 10 host request_active +1 | 11 cluster request_active +1 | 12 Requests().Increase()
// Anything else in these bodies (other than taking the host, locks and logging) is rejected.

import (
	"fmt"
	"go/ast"
	"go/types"
	"strings"
)

func init() { register("PoolDestroy", c09wGen) }

type c09wCtx struct {
	file     *ast.File
	closeKey string // field consulted by the close test
	idle     string // the idle list
	closeFn  []string
	depth    int
}

func c09wCallStr(s ast.Stmt) string {
	if es, ok := s.(*ast.ExprStmt); ok {
		if c, ok := es.X.(*ast.CallExpr); ok {
			return types.ExprString(c)
		}
	}
	return ""
}

var c09wMoves = map[string]int{
	"host.HostStats().UpstreamRequestActive.Dec(1)":              0,
	"host.ClusterInfo().Stats().UpstreamRequestActive.Dec(1)":    1,
	"host.ClusterInfo().ResourceManager().Requests().Decrease()": 2,
	"host.HostStats().UpstreamRequestActive.Inc(1)":              10,
	"host.ClusterInfo().Stats().UpstreamRequestActive.Inc(1)":    11,
	"host.ClusterInfo().ResourceManager().Requests().Increase()": 12,
	"host.HostStats().UpstreamConnectionActive.Dec(1)":           20,
	"host.ClusterInfo().Stats().UpstreamConnectionActive.Dec(1)": 21,
	"host.HostStats().UpstreamConnectionActive.Inc(1)":           22,
	"host.ClusterInfo().Stats().UpstreamConnectionActive.Inc(1)": 23,
}

func c09wIsLock(call string) bool {
	return strings.HasSuffix(call, "clientMux.Lock()") || strings.HasSuffix(call, "clientMux.Unlock()")
}

// c09wFlatten turns a statement list into step codes; calls of the pool's own helpers are inlined.
func (x *c09wCtx) flatten(l []ast.Stmt, nilErr bool) ([]int, error) {
	if x.depth > 4 {
		return nil, fmt.Errorf("inlining too deep")
	}
	var out []int
	for idx, s := range l {
		switch st := s.(type) {
		case *ast.AssignStmt:
			// host := ac.pool.Host() / host := p.Host() / p := ac.pool
			r := types.ExprString(st.Rhs[0])
			if len(st.Lhs) == 1 && len(st.Rhs) == 1 && (strings.HasSuffix(r, ".Host()") || r == "ac.pool") {
				continue
			}
			if appendsTo([]ast.Stmt{s}, x.idle) {
				out = append(out, 5)
				continue
			}
			return nil, fmt.Errorf("unsupported assignment %s", types.ExprString(st.Lhs[0]))
		case *ast.DeferStmt:
			if c09wIsLock(types.ExprString(st.Call)) {
				continue
			}
			return nil, fmt.Errorf("unsupported defer")
		case *ast.ReturnStmt:
			if idx == len(l)-1 && len(st.Results) == 0 {
				return out, nil
			}
			return nil, fmt.Errorf("unsupported return")
		case *ast.ExprStmt:
			call := c09wCallStr(s)
			if code, ok := c09wMoves[call]; ok && code <= 2 {
				out = append(out, code)
				continue
			}
			if c09wIsLock(call) {
				continue
			}
			var callee *ast.FuncDecl
			arg0nil := false
			switch {
			case call == "ac.pool.onStreamDestroy(ac)":
				callee = findFunc(x.file, "connPool", "onStreamDestroy")
			case call == "ac.Close(nil)":
				callee = findFunc(x.file, "activeClientPingPong", "Close")
				arg0nil = true
			case call == "ac.pool.putClientToPoolLocked(ac)":
				callee = findFunc(x.file, "poolPingPong", "putClientToPoolLocked")
			}
			if callee == nil {
				return nil, fmt.Errorf("unsupported call %s", call)
			}
			x.depth++
			in, err := x.flatten(callee.Body.List, arg0nil)
			x.depth--
			if err != nil {
				return nil, err
			}
			out = append(out, in...)
		case *ast.IfStmt:
			cond := types.ExprString(st.Cond)
			if st.Else != nil {
				return nil, fmt.Errorf("unsupported if/else on %s", cond)
			}
			if nilErr && cond == "err != nil" {
				continue // Close(nil): the error branch is not taken
			}
			if appendsTo(st.Body.List, x.idle) && len(st.Body.List) == 1 {
				out = append(out, 5)
				continue
			}
			if strings.Contains(cond, x.closeKey) {
				body := st.Body.List
				ok := len(body) >= 1
				if ok {
					c := c09wCallStr(body[0])
					ok = false
					for _, f := range x.closeFn {
						if strings.HasPrefix(c, f) {
							ok = true
						}
					}
				}
				if ok && len(body) == 1 {
					out = append(out, 3)
					continue
				}
				if ok && len(body) == 2 {
					if r, isRet := body[1].(*ast.ReturnStmt); isRet && len(r.Results) == 0 {
						out = append(out, 4)
						continue
					}
				}
				return nil, fmt.Errorf("close branch of OnDestroyStream not recognised")
			}
			return nil, fmt.Errorf("unsupported if %s", cond)
		default:
			return nil, fmt.Errorf("unsupported statement %T", s)
		}
	}
	return out, nil
}

// c09wCollect: the codes (within lo..hi) of every recognised movement statement anywhere in the function, source order.
func c09wCollect(fd *ast.FuncDecl, lo, hi int) []int {
	var out []int
	ast.Inspect(fd.Body, func(n ast.Node) bool {
		if s, ok := n.(ast.Stmt); ok {
			if code, ok := c09wMoves[c09wCallStr(s)]; ok && code >= lo && code <= hi {
				out = append(out, code)
			}
		}
		return true
	})
	return out
}

func c09wList(name, doc string, l []int) string {
	var ss []string
	for _, v := range l {
		ss = append(ss, fmt.Sprint(v))
	}
	return fmt.Sprintf("/-- %s -/\ndef %s : List Nat := [%s]\n", doc, name, strings.Join(ss, ", "))
}

func c09wGen() (string, error) {
	const h1src = "pkg/stream/http/connpool.go"
	const ppsrc = "pkg/stream/xprotocol/connpool_pingpong.go"
	var sb strings.Builder
	sb.WriteString(header("PoolDestroy", h1src, ppsrc))
	type poolSrc struct {
		pre, src, client, pool, closeKey, idle, evFn, evRecv string
		closeFn                                              []string
	}
	for _, p := range []poolSrc{
		{"h1", h1src, "activeClient", "connPool", "closeConn", "p.availableClients", "onConnectionEvent", "connPool", []string{"ac.client.Close("}},
		{"pp", ppsrc, "activeClientPingPong", "poolPingPong", "shouldCloseConn", "p.idleClients", "OnEvent", "activeClientPingPong", []string{"ac.host.Connection.Close("}},
	} {
		f, err := parse(p.src)
		if err != nil {
			return "", err
		}
		ods := findFunc(f, p.client, "OnDestroyStream")
		ns := findFunc(f, p.pool, "NewStream")
		ev := findFunc(f, p.evRecv, p.evFn)
		var dial *ast.FuncDecl
		if p.pre == "h1" {
			dial = findFunc(f, "", "newActiveClient")
		} else {
			dial = findFunc(f, p.pool, "newActiveClient")
		}
		if ods == nil || ns == nil || ev == nil || dial == nil {
			return "", fmt.Errorf("%s pool: OnDestroyStream / NewStream / close handler / newActiveClient not found", p.pre)
		}
		x := &c09wCtx{file: f, closeKey: p.closeKey, idle: p.idle, closeFn: p.closeFn}
		prog, err := x.flatten(ods.Body.List, false)
		if err != nil {
			return "", fmt.Errorf("%s OnDestroyStream: %v", p.pre, err)
		}
		sb.WriteString(c09wList(p.pre+"DestroyProg", p.client+".OnDestroyStream, helpers inlined, as step codes (0 host gauge -1, 1 cluster gauge -1, 2 Requests().Decrease(), 3 close test + close, 4 close test + close + return, 5 guarded put back)", prog))
		sb.WriteString(c09wList(p.pre+"TakeProg", p.pool+".NewStream: what an admitted request takes (10 host gauge +1, 11 cluster gauge +1, 12 Requests().Increase())", c09wCollect(ns, 10, 12)))
		sb.WriteString(c09wList(p.pre+"CloseGauges", "close-event handler: connection_active movements (20 host -1, 21 cluster -1)", c09wCollect(ev, 20, 23)))
		sb.WriteString(c09wList(p.pre+"DialGauges", "newActiveClient after a successful Connect: connection_active movements (22 host +1, 23 cluster +1)", c09wCollect(dial, 20, 23)))
	}
	sb.WriteString(footer("PoolDestroy"))
	return sb.String(), nil
}
