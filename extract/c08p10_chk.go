package main

// c08p10_chk.go — a statement translator Go -> Lean for small functions over BYTE SLICES (protocol matchers, HTTP/2 frame
// payload parsers), target language Model/CheckedGo.lean: every index expression, slice expression and
// binary.BigEndian.UintNN call becomes a CHECKED primitive (`idx`, `slc`, `beU`) bound with `Chk.bind`, so the Lean term
// answers `oob` exactly where the Go function panics with an out-of-range access (checked against len, not cap).
//
// Supported (anything else => error => translation-unsupported => broken tie, never a wrong translation):
//   statements  var / := / = / op= / ++ / -- (also tuple assignment from a call), if / else (with init), return (also bare,
//               with named results), counted `for i := a; i < b; i++` whose body assigns nothing declared outside,
//               copy(dst[:], src) into a fixed-size array field, expression statements listed in skipCalls
//   expressions integer arithmetic (+ - *, / and % on non-negative operands), comparisons, && || ! (short-circuit kept:
//               accesses on the right are only made when Go makes them), & | ^ << >> (unsigned), len, conversions
//               (identity), index, slice (2-index), comma-ok lookup in a map literal, bytes.Compare / bytes.Equal,
//               composite literals of the package's struct types, calls of functions / methods of the same unit
//               (translated on demand), error values (connError{}, ConnectionError(), streamError(), io.ErrUnexpectedEOF, …)
//   values      Int (every Go integer type; unbounded), Bool, Bytes ([]byte, string, [N]byte), Err, MR, FH (http2.FrameHeader),
//               Frm (a frame struct handed back as the interface `Frame`); struct locals are FLATTENED into one variable
//               per field path (`hf.Priority.StreamDep` -> hf_Priority_StreamDep), zero-initialised at creation
// A variable assigned inside an `if` whose branches can fall through is passed to a join point
// (`let jN := fun (x : T) … => <rest>`), so the rest of the block is emitted once.

import (
	"fmt"
	"go/ast"
	"go/constant"
	"go/importer"
	"go/parser"
	"go/token"
	"go/types"
	"os"
	"path/filepath"
	"sort"
	"strconv"
	"strings"
)

// ---------------------------------------------------------------------------------------------------------------
// packages

type c08pPkg struct {
	label   string // how the package is named in generated comments
	dir     string
	consts  map[string]constant.Value
	structs map[string]*ast.StructType
	named   map[string]ast.Expr      // type Name <underlying> (non-struct)
	funcs   map[string]*ast.FuncDecl // "Recv.Name" / "Name"
	vars    map[string]ast.Expr      // package-level `var x = <expr>`
}

var c08pPkgCache = map[string]*c08pPkg{}

// c08pLoad parses a package directory (repo-relative, or absolute for a module-cache directory).
func c08pLoad(dir string) (*c08pPkg, error) {
	if p, ok := c08pPkgCache[dir]; ok {
		return p, nil
	}
	abs := dir
	if !filepath.IsAbs(dir) {
		abs = filepath.Join(repo, dir)
	}
	pkgs, err := parser.ParseDir(fset, abs, func(fi os.FileInfo) bool {
		return !strings.HasSuffix(fi.Name(), "_test.go") && !strings.HasPrefix(fi.Name(), "verif_")
	}, 0)
	if err != nil {
		return nil, err
	}
	p := &c08pPkg{dir: dir, label: dir, consts: map[string]constant.Value{}, structs: map[string]*ast.StructType{}, named: map[string]ast.Expr{},
		funcs: map[string]*ast.FuncDecl{}, vars: map[string]ast.Expr{}}
	for _, ap := range pkgs {
		var names []string
		for n := range ap.Files {
			names = append(names, n)
		}
		sort.Strings(names)
		var files []*ast.File
		for _, n := range names {
			files = append(files, ap.Files[n])
		}
		conf := types.Config{Importer: fakeImporter{importer.Default()}, Error: func(error) {}}
		if tp, _ := conf.Check(ap.Name, fset, files, nil); tp != nil {
			for _, n := range tp.Scope().Names() {
				if c, ok := tp.Scope().Lookup(n).(*types.Const); ok {
					p.consts[n] = c.Val()
				}
			}
		}
		for _, f := range files {
			for _, d := range f.Decls {
				switch x := d.(type) {
				case *ast.FuncDecl:
					k := x.Name.Name
					if x.Recv != nil && len(x.Recv.List) == 1 {
						k = c08pBaseType(x.Recv.List[0].Type) + "." + k
					}
					p.funcs[k] = x
				case *ast.GenDecl:
					for _, sp := range x.Specs {
						switch s := sp.(type) {
						case *ast.TypeSpec:
							if st, ok := s.Type.(*ast.StructType); ok {
								p.structs[s.Name.Name] = st
							} else {
								p.named[s.Name.Name] = s.Type
							}
						case *ast.ValueSpec:
							if x.Tok == token.VAR {
								for i, n := range s.Names {
									if i < len(s.Values) {
										p.vars[n.Name] = s.Values[i]
									}
								}
							}
						}
					}
				}
			}
		}
	}
	c08pPkgCache[dir] = p
	return p, nil
}

func c08pBaseType(e ast.Expr) string {
	if s, ok := e.(*ast.StarExpr); ok {
		e = s.X
	}
	if id, ok := e.(*ast.Ident); ok {
		return id.Name
	}
	return "?"
}

// ---------------------------------------------------------------------------------------------------------------
// types and scopes

const (
	c08pInt    = "Int"
	c08pBool   = "Bool"
	c08pBytes  = "Bytes"
	c08pErr    = "Err"
	c08pMR     = "MR"
	c08pFH     = "FH"
	c08pFrm    = "Frm"
	c08pOpaque = "?"
)

var c08pIntTypes = map[string]bool{"byte": true, "uint8": true, "int": true, "uint": true, "uint16": true, "uint32": true, "uint64": true,
	"int8": true, "int16": true, "int32": true, "int64": true}

type c08pVar struct {
	lean string
	ty   string
	n    int // fixed length of an array-typed Bytes variable (0 = slice)
}

type c08pScope struct {
	vars    map[string]c08pVar
	structs map[string]string // key -> struct type name (flattened struct value / pointer to one)
	order   []string          // declaration order of the keys
}

func (s *c08pScope) clone() *c08pScope {
	c := &c08pScope{vars: map[string]c08pVar{}, structs: map[string]string{}, order: append([]string(nil), s.order...)}
	for k, v := range s.vars {
		c.vars[k] = v
	}
	for k, v := range s.structs {
		c.structs[k] = v
	}
	return c
}

func (s *c08pScope) declare(key, ty string, n int) c08pVar {
	v := c08pVar{lean: c08pLeanName(key), ty: ty, n: n}
	if _, ok := s.vars[key]; !ok {
		s.order = append(s.order, key)
	}
	s.vars[key] = v
	return v
}

func c08pLeanName(key string) string {
	n := strings.ReplaceAll(key, ".", "_")
	if leanReserved[n] || n == "len" || n == "idx" || n == "slc" || n == "sub" || n == "id" {
		n += "_"
	}
	return n
}

// ---------------------------------------------------------------------------------------------------------------
// unit: a set of functions translated into one Gen module

type c08pSig struct {
	lean    string
	params  []c08pVar // after flattening; opaque parameters dropped
	pkeys   []string  // Go keys of the parameters
	results []string  // Lean types
	rstruct []string  // struct type name of a result ("" otherwise)
	recv    string    // Go name of the receiver variable ("" = function)
	recvTy  string    // receiver type name
}

type c08pUnit struct {
	pkg     *c08pPkg
	names   map[string]string   // Go expression key -> Lean expression (cross-package constants, error values, …)
	nameTy  map[string]string   // … and its Lean type
	extern  map[string]*c08pFn  // call key (e.g. "tarsprotocol.TarsRequest") -> function of another package, translated into this unit
	skip    map[string]bool     // call keys of expression statements without modelled effect
	loopFuel map[string]string  // Lean name of a function with a `for cond {}` loop -> Lean expression bounding its iterations
	opaqueT map[string]bool     // struct types of the package that are not modelled (parameters of these types are dropped)
	skipSel map[string]bool     // … by method name (e.g. "checkValid": panics only on a frame the framer has invalidated, never input dependent)
	newOf   map[string]string   // call key -> struct type it freshly returns (e.g. "fc.getDataFrame" -> "DataFrame")
	prefix  string              // prefix of the Lean names
	sigs    map[string]*c08pSig // translated / in translation
	defs    []string            // emitted definitions, callees first
	defName []string
	busy    map[string]bool
	byteVar map[string]string // package-level []byte / map literals rendered as Lean definitions (emitted before the functions)
	pre     []string
}

type c08pFn struct {
	pkg  *c08pPkg
	key  string
	decl *ast.FuncDecl
}

func c08pNewUnit(pkg *c08pPkg, prefix string) *c08pUnit {
	return &c08pUnit{pkg: pkg, prefix: prefix, names: map[string]string{}, nameTy: map[string]string{}, extern: map[string]*c08pFn{},
		skip: map[string]bool{}, skipSel: map[string]bool{}, opaqueT: map[string]bool{}, loopFuel: map[string]string{}, newOf: map[string]string{}, sigs: map[string]*c08pSig{}, busy: map[string]bool{}, byteVar: map[string]string{}}
}

func (u *c08pUnit) name(key, lean, ty string) { u.names[key] = lean; u.nameTy[key] = ty }

// goType maps a Go type expression to a Lean type, or "S:<Name>" for a struct of the package, or opaque.
func (u *c08pUnit) goType(pkg *c08pPkg, e ast.Expr) (ty string, n int) {
	switch x := e.(type) {
	case *ast.Ident:
		switch {
		case c08pIntTypes[x.Name]:
			return c08pInt, 0
		case x.Name == "bool":
			return c08pBool, 0
		case x.Name == "string":
			return c08pBytes, 0
		case x.Name == "error":
			return c08pErr, 0
		case x.Name == "FrameHeader" && pkg.structs["FrameHeader"] != nil:
			return c08pFH, 0
		case x.Name == "Frame" && pkg.named["Frame"] != nil:
			return c08pFrm, 0
		}
		if u.opaqueT[x.Name] {
			return c08pOpaque, 0
		}
		if _, ok := pkg.structs[x.Name]; ok {
			return "S:" + x.Name, 0
		}
		if t, ok := pkg.named[x.Name]; ok {
			if _, isIface := t.(*ast.InterfaceType); isIface {
				return c08pOpaque, 0
			}
			if _, isFunc := t.(*ast.FuncType); isFunc {
				return c08pOpaque, 0
			}
			return u.goType(pkg, t)
		}
	case *ast.StarExpr:
		return u.goType(pkg, x.X)
	case *ast.ArrayType:
		if id, ok := x.Elt.(*ast.Ident); ok && (id.Name == "byte" || id.Name == "uint8") {
			if x.Len == nil {
				return c08pBytes, 0
			}
			if l, ok := x.Len.(*ast.BasicLit); ok {
				k, _ := strconv.Atoi(l.Value)
				return c08pBytes, k
			}
			if v, ok := pkg.consts[exprKey(x.Len)]; ok {
				k, _ := constant.Int64Val(constant.ToInt(v))
				return c08pBytes, int(k)
			}
		}
	case *ast.SelectorExpr:
		if exprKey(x) == "api.MatchResult" {
			return c08pMR, 0
		}
	}
	return c08pOpaque, 0
}

// flatten lists the flattened fields of struct type `name`: (key suffix, Lean type, array length, struct type of the sub-struct or "")
type c08pField struct {
	path string
	ty   string
	n    int
}

func (u *c08pUnit) flatten(pkg *c08pPkg, name string, depth int) ([]c08pField, []string, error) {
	st := pkg.structs[name]
	if st == nil {
		return nil, nil, fmt.Errorf("struct %s not found", name)
	}
	if depth > 4 {
		return nil, nil, fmt.Errorf("struct %s nests too deeply", name)
	}
	var out []c08pField
	var subs []string // paths of nested structs: "path=Type"
	for _, f := range st.Fields.List {
		var names []string
		for _, n := range f.Names {
			names = append(names, n.Name)
		}
		if len(names) == 0 {
			names = []string{c08pBaseType(f.Type)} // embedded
		}
		ty, n := u.goType(pkg, f.Type)
		for _, fn := range names {
			switch {
			case strings.HasPrefix(ty, "S:"):
				subs = append(subs, fn+"="+ty[2:])
				in, insubs, err := u.flatten(pkg, ty[2:], depth+1)
				if err != nil {
					return nil, nil, err
				}
				for _, i := range in {
					out = append(out, c08pField{fn + "." + i.path, i.ty, i.n})
				}
				for _, s := range insubs {
					subs = append(subs, fn+"."+s)
				}
			case ty == c08pOpaque:
				// an opaque field (function value, interface, pointer to something else): not modelled, never read
			default:
				out = append(out, c08pField{fn, ty, n})
			}
		}
	}
	return out, subs, nil
}

func c08pZero(ty string, n int) string {
	switch ty {
	case c08pInt:
		return "0"
	case c08pBool:
		return "false"
	case c08pBytes:
		if n > 0 {
			return fmt.Sprintf("(List.replicate %d (0 : UInt8))", n)
		}
		return "[]"
	case c08pErr:
		return "Err.nil"
	case c08pFrm:
		return "Frm.nil"
	case c08pFH:
		return "(FH.mk 0 0 0 0)"
	case c08pMR:
		return "MR.failed"
	}
	return "()"
}

// ---------------------------------------------------------------------------------------------------------------
// translation of one function

type c08pTr struct {
	u     *c08pUnit
	pkg   *c08pPkg
	sig   *c08pSig
	named []string // keys of the named results ("" = blank / unnamed)
	n     int
}

type c08pKont func(sc *c08pScope) (string, error)

func (t *c08pTr) tmp() string { t.n++; return fmt.Sprintf("ct_%d", t.n) }

type c08pVal struct {
	pre string // lines `Chk.bind (…) fun ct_k =>\n`
	val string // pure Lean expression over the bound temporaries
	ty  string
	n   int
}

func c08pErrf(n ast.Node, f string, a ...interface{}) error {
	return fmt.Errorf("%s: %s", fset.Position(n.Pos()), fmt.Sprintf(f, a...))
}

// signature builds (and caches) the Lean signature of a function of the unit.
func (u *c08pUnit) signature(fn *c08pFn) (*c08pSig, error) {
	if s, ok := u.sigs[fn.key]; ok {
		return s, nil
	}
	d := fn.decl
	sig := &c08pSig{lean: u.prefix + strings.ReplaceAll(fn.key, ".", "_")}
	addParam := func(key string, te ast.Expr) error {
		ty, n := u.goType(fn.pkg, te)
		switch {
		case ty == c08pOpaque:
			return nil
		case strings.HasPrefix(ty, "S:"):
			fl, _, err := u.flatten(fn.pkg, ty[2:], 0)
			if err != nil {
				return err
			}
			for _, f := range fl {
				sig.params = append(sig.params, c08pVar{c08pLeanName(key + "." + f.path), f.ty, f.n})
				sig.pkeys = append(sig.pkeys, key+"."+f.path)
			}
		default:
			sig.params = append(sig.params, c08pVar{c08pLeanName(key), ty, n})
			sig.pkeys = append(sig.pkeys, key)
		}
		return nil
	}
	if d.Recv != nil && len(d.Recv.List) == 1 && len(d.Recv.List[0].Names) == 1 {
		sig.recv = d.Recv.List[0].Names[0].Name
		sig.recvTy = c08pBaseType(d.Recv.List[0].Type)
		if err := addParam(sig.recv, d.Recv.List[0].Type); err != nil {
			return nil, err
		}
	}
	for _, p := range d.Type.Params.List {
		for _, n := range p.Names {
			if n.Name == "_" {
				continue
			}
			if err := addParam(n.Name, p.Type); err != nil {
				return nil, err
			}
		}
	}
	if d.Type.Results != nil {
		for _, r := range d.Type.Results.List {
			ty, _ := u.goType(fn.pkg, r.Type)
			k := len(r.Names)
			if k == 0 {
				k = 1
			}
			for i := 0; i < k; i++ {
				if strings.HasPrefix(ty, "S:") {
					sig.results = append(sig.results, "")
					sig.rstruct = append(sig.rstruct, ty[2:])
				} else if ty == c08pOpaque {
					return nil, c08pErrf(d, "%s: result type not supported", fn.key)
				} else {
					sig.results = append(sig.results, ty)
					sig.rstruct = append(sig.rstruct, "")
				}
			}
		}
	}
	// a struct result is delivered as the tuple of its flattened fields
	for i, rs := range sig.rstruct {
		if rs != "" {
			fl, _, err := u.flatten(fn.pkg, rs, 0)
			if err != nil {
				return nil, err
			}
			var tys []string
			for _, f := range fl {
				tys = append(tys, f.ty)
			}
			sig.results[i] = "(" + strings.Join(tys, " × ") + ")"
		}
	}
	u.sigs[fn.key] = sig
	return sig, nil
}

func (s *c08pSig) resultType() string {
	if len(s.results) == 1 {
		return s.results[0]
	}
	return "(" + strings.Join(s.results, " × ") + ")"
}

// translate emits the definition of fn (and, first, of every function it calls).
func (u *c08pUnit) translate(fn *c08pFn) (*c08pSig, error) {
	sig, err := u.signature(fn)
	if err != nil {
		return nil, err
	}
	for _, n := range u.defName {
		if n == sig.lean {
			return sig, nil
		}
	}
	if u.busy[fn.key] {
		return nil, fmt.Errorf("%s: recursive call", fn.key)
	}
	u.busy[fn.key] = true
	defer delete(u.busy, fn.key)
	t := &c08pTr{u: u, pkg: fn.pkg, sig: sig}
	sc := &c08pScope{vars: map[string]c08pVar{}, structs: map[string]string{}}
	for i, p := range sig.params {
		sc.vars[sig.pkeys[i]] = p
		sc.order = append(sc.order, sig.pkeys[i])
	}
	d := fn.decl
	regStruct := func(key string, te ast.Expr) {
		if ty, _ := u.goType(fn.pkg, te); strings.HasPrefix(ty, "S:") {
			t.registerStruct(sc, key, ty[2:])
		}
	}
	if sig.recv != "" {
		regStruct(sig.recv, d.Recv.List[0].Type)
	}
	for _, p := range d.Type.Params.List {
		for _, n := range p.Names {
			regStruct(n.Name, p.Type)
		}
	}
	var lets strings.Builder
	if d.Type.Results != nil {
		for _, r := range d.Type.Results.List {
			if len(r.Names) == 0 {
				t.named = append(t.named, "")
			}
			for _, n := range r.Names {
				if n.Name == "_" {
					t.named = append(t.named, "")
					continue
				}
				ty, k := u.goType(fn.pkg, r.Type)
				if strings.HasPrefix(ty, "S:") || ty == c08pOpaque {
					return nil, c08pErrf(d, "%s: named result of unsupported type", fn.key)
				}
				v := sc.declare(n.Name, ty, k)
				fmt.Fprintf(&lets, "let %s : %s := %s;\n", v.lean, ty, c08pZero(ty, k))
				t.named = append(t.named, n.Name)
			}
		}
	}
	body, err := t.stmts(d.Body.List, sc, func(*c08pScope) (string, error) {
		return "", c08pErrf(d, "%s: control reaches the end of the function", fn.key)
	})
	if err != nil {
		return nil, err
	}
	var ps []string
	for _, p := range sig.params {
		ps = append(ps, fmt.Sprintf("(%s : %s)", p.lean, p.ty))
	}
	src := strings.Join(strings.Fields(c08fSrc(d.Type)), " ")
	def := fmt.Sprintf("/-- %s `%s%s` (%s) -/\ndef %s %s : Chk %s :=\n%s", fn.pkg.label, fn.key, strings.TrimPrefix(src, "func"), filepath.Base(fset.Position(d.Pos()).Filename),
		sig.lean, strings.Join(ps, " "), sig.resultType(), c08pIndent(lets.String()+body))
	u.defs = append(u.defs, def)
	u.defName = append(u.defName, sig.lean)
	return sig, nil
}

func c08pIndent(s string) string {
	lines := strings.Split(strings.TrimRight(s, "\n"), "\n")
	for i, l := range lines {
		lines[i] = "  " + l
	}
	return strings.Join(lines, "\n") + "\n"
}

// registerStruct records that `key` names a (pointer to a) struct of type name, and recursively its nested structs.
func (t *c08pTr) registerStruct(sc *c08pScope, key, name string) {
	sc.structs[key] = name
	_, subs, _ := t.u.flatten(t.pkg, name, 0)
	for _, s := range subs {
		i := strings.LastIndex(s, "=")
		sc.structs[key+"."+s[:i]] = s[i+1:]
	}
}

// newStruct declares every flattened field of a fresh struct value under `key` with its zero value.
func (t *c08pTr) newStruct(sc *c08pScope, key, name string) (string, error) {
	fl, _, err := t.u.flatten(t.pkg, name, 0)
	if err != nil {
		return "", err
	}
	t.registerStruct(sc, key, name)
	var b strings.Builder
	for _, f := range fl {
		v := sc.declare(key+"."+f.path, f.ty, f.n)
		fmt.Fprintf(&b, "let %s : %s := %s;\n", v.lean, f.ty, c08pZero(f.ty, f.n))
	}
	return b.String(), nil
}

// ---------------------------------------------------------------------------------------------------------------
// statements

func (t *c08pTr) stmts(list []ast.Stmt, sc *c08pScope, k c08pKont) (string, error) {
	if len(list) == 0 {
		return k(sc)
	}
	rest := func(sc *c08pScope) (string, error) { return t.stmts(list[1:], sc, k) }
	switch s := list[0].(type) {
	case *ast.ReturnStmt:
		return t.ret(s, sc)
	case *ast.BlockStmt:
		// a nested block: its declarations are local; assignments to outer variables go through a join point
		return t.branches(s, sc, []*ast.BlockStmt{s}, nil, "", rest)
	case *ast.DeclStmt:
		gd, ok := s.Decl.(*ast.GenDecl)
		if !ok || gd.Tok != token.VAR {
			return "", c08pErrf(s, "declaration not supported")
		}
		var b strings.Builder
		for _, sp := range gd.Specs {
			vs := sp.(*ast.ValueSpec)
			for i, n := range vs.Names {
				if vs.Type == nil || i < len(vs.Values) {
					if len(vs.Values) != len(vs.Names) {
						return "", c08pErrf(s, "var with a tuple initialiser")
					}
					txt, err := t.assign1(sc, n, vs.Values[i], true)
					if err != nil {
						return "", err
					}
					b.WriteString(txt)
					continue
				}
				ty, k := t.u.goType(t.pkg, vs.Type)
				switch {
				case strings.HasPrefix(ty, "S:"):
					txt, err := t.newStruct(sc, n.Name, ty[2:])
					if err != nil {
						return "", err
					}
					b.WriteString(txt)
				case ty == c08pOpaque:
					return "", c08pErrf(s, "var %s of unsupported type", n.Name)
				default:
					v := sc.declare(n.Name, ty, k)
					fmt.Fprintf(&b, "let %s : %s := %s;\n", v.lean, ty, c08pZero(ty, k))
				}
			}
		}
		r, err := rest(sc)
		return b.String() + r, err
	case *ast.AssignStmt:
		txt, err := t.assign(s, sc)
		if err != nil {
			return "", err
		}
		r, err := rest(sc)
		return txt + r, err
	case *ast.IncDecStmt:
		op := token.ADD_ASSIGN
		if s.Tok == token.DEC {
			op = token.SUB_ASSIGN
		}
		txt, err := t.assign(&ast.AssignStmt{Lhs: []ast.Expr{s.X}, Tok: op, Rhs: []ast.Expr{&ast.BasicLit{Kind: token.INT, Value: "1", ValuePos: s.Pos()}}, TokPos: s.Pos()}, sc)
		if err != nil {
			return "", err
		}
		r, err := rest(sc)
		return txt + r, err
	case *ast.ExprStmt:
		c, ok := s.X.(*ast.CallExpr)
		if !ok {
			return "", c08pErrf(s, "expression statement")
		}
		key := exprKey(c.Fun)
		if se, ok := c.Fun.(*ast.SelectorExpr); ok && t.u.skipSel[se.Sel.Name] && len(c.Args) == 0 {
			return rest(sc)
		}
		if t.u.skip[key] || t.u.skip[c08pMethodKey(sc, c.Fun)] {
			return rest(sc)
		}
		if key == "panic" && len(c.Args) == 1 {
			return "Chk.oob\n", nil // a Go panic: the safety theorems show it unreachable
		}
		if key == "copy" && len(c.Args) == 2 {
			// copy(x.F[:], src) with x.F a fixed-size array field
			se, ok := c.Args[0].(*ast.SliceExpr)
			if !ok || se.Low != nil || se.High != nil {
				return "", c08pErrf(s, "copy: destination is not <array>[:]")
			}
			dk := exprKey(se.X)
			dv, ok := sc.vars[dk]
			if !ok || dv.ty != c08pBytes || dv.n == 0 {
				return "", c08pErrf(s, "copy: destination %s is not a fixed-size byte array", dk)
			}
			src, err := t.expr(c.Args[1], sc, c08pBytes)
			if err != nil {
				return "", err
			}
			if src.ty != c08pBytes {
				return "", c08pErrf(s, "copy: source is not a byte slice")
			}
			txt := src.pre + fmt.Sprintf("let %s : Bytes := copyInto %s %s;\n", dv.lean, dv.lean, src.val)
			r, err := rest(sc)
			return txt + r, err
		}
		return "", c08pErrf(s, "call statement %s not supported", key)
	case *ast.IfStmt:
		return t.ifStmt(s, sc, rest)
	case *ast.ForStmt:
		return t.forStmt(s, sc, rest)
	}
	return "", c08pErrf(list[0], "statement %T not supported", list[0])
}

// c08pMethodKey renders `x.M` as `<Type of x>.M` when x is a struct variable of the scope.
func c08pMethodKey(sc *c08pScope, fun ast.Expr) string {
	if se, ok := fun.(*ast.SelectorExpr); ok {
		if st, ok := sc.structs[exprKey(se.X)]; ok {
			return st + "." + se.Sel.Name
		}
	}
	return ""
}

func c08pTerminates(l []ast.Stmt) bool {
	if len(l) == 0 {
		return false
	}
	switch s := l[len(l)-1].(type) {
	case *ast.ReturnStmt:
		return true
	case *ast.ExprStmt:
		if c, ok := s.X.(*ast.CallExpr); ok && exprKey(c.Fun) == "panic" {
			return true
		}
		return false
	case *ast.BlockStmt:
		return c08pTerminates(s.List)
	case *ast.IfStmt:
		if s.Else == nil {
			return false
		}
		if !c08pTerminates(s.Body.List) {
			return false
		}
		switch e := s.Else.(type) {
		case *ast.BlockStmt:
			return c08pTerminates(e.List)
		case *ast.IfStmt:
			return c08pTerminates([]ast.Stmt{e})
		}
	}
	return false
}

// c08pAssigned collects the keys assigned (not declared) in a statement list that are declared in the OUTER scope sc.
func c08pAssigned(list []ast.Stmt, sc *c08pScope, out map[string]bool) {
	local := map[string]bool{}
	var walk func(n ast.Node, local map[string]bool)
	mark := func(e ast.Expr, local map[string]bool) {
		k := exprKey(e)
		if k == "_" || local[k] {
			return
		}
		// a whole-struct local declared inside is local for its fields, too
		for l := range local {
			if strings.HasPrefix(k, l+".") {
				return
			}
		}
		if _, ok := sc.vars[k]; ok {
			out[k] = true
		}
	}
	walk = func(n ast.Node, local map[string]bool) {
		switch x := n.(type) {
		case *ast.AssignStmt:
			if x.Tok == token.DEFINE {
				for _, l := range x.Lhs {
					local[exprKey(l)] = true
				}
			} else {
				for _, l := range x.Lhs {
					mark(l, local)
				}
			}
		case *ast.IncDecStmt:
			mark(x.X, local)
		case *ast.DeclStmt:
			if gd, ok := x.Decl.(*ast.GenDecl); ok {
				for _, sp := range gd.Specs {
					if vs, ok := sp.(*ast.ValueSpec); ok {
						for _, n := range vs.Names {
							local[n.Name] = true
						}
					}
				}
			}
		case *ast.ExprStmt:
			if c, ok := x.X.(*ast.CallExpr); ok && exprKey(c.Fun) == "copy" && len(c.Args) == 2 {
				if se, ok := c.Args[0].(*ast.SliceExpr); ok {
					mark(se.X, local)
				}
			}
		case *ast.BlockStmt:
			in := map[string]bool{}
			for k := range local {
				in[k] = true
			}
			for _, s := range x.List {
				walk(s, in)
			}
		case *ast.IfStmt:
			in := map[string]bool{}
			for k := range local {
				in[k] = true
			}
			if x.Init != nil {
				walk(x.Init, in)
			}
			walk(x.Body, in)
			if x.Else != nil {
				walk(x.Else, in)
			}
		case *ast.ForStmt:
			in := map[string]bool{}
			for k := range local {
				in[k] = true
			}
			if x.Init != nil {
				walk(x.Init, in)
			}
			if x.Post != nil {
				walk(x.Post, in)
			}
			walk(x.Body, in)
		}
	}
	for _, s := range list {
		walk(s, local)
	}
}

// branches renders `if cond then A else B` (or a bare nested block when cond == "") followed by `rest`. Branches that can
// fall through continue in a join point that takes the outer variables assigned in any branch as parameters.
func (t *c08pTr) branches(at ast.Node, sc *c08pScope, blocks []*ast.BlockStmt, elseIf *ast.IfStmt, cond string, rest c08pKont) (string, error) {
	falls := false
	for _, b := range blocks {
		if !c08pTerminates(b.List) {
			falls = true
		}
	}
	if elseIf != nil && !c08pTerminates([]ast.Stmt{elseIf}) {
		falls = true
	}
	if len(blocks) == 1 && cond != "" && elseIf == nil {
		falls = true // no else: the false path falls through
	}
	var jp, jcall string
	var k c08pKont
	var b strings.Builder
	if !falls {
		k = func(*c08pScope) (string, error) { return "", c08pErrf(at, "internal: fall-through of a terminating branch") }
	} else if len(blocks) == 1 && cond != "" && elseIf == nil && c08pTerminates(blocks[0].List) {
		// `if c { …; return }` + rest: the rest is the else branch, no join point needed
		r, err := rest(sc.clone())
		if err != nil {
			return "", err
		}
		body, err := t.stmts(blocks[0].List, sc.clone(), func(*c08pScope) (string, error) {
			return "", c08pErrf(at, "internal: fall-through of a terminating branch")
		})
		if err != nil {
			return "", err
		}
		return fmt.Sprintf("if %s then (\n%s) else\n%s", cond, c08pIndent(body), r), nil
	} else {
		asg := map[string]bool{}
		for _, bl := range blocks {
			c08pAssigned(bl.List, sc, asg)
		}
		if elseIf != nil {
			c08pAssigned([]ast.Stmt{elseIf}, sc, asg)
		}
		var keys []string
		for _, key := range sc.order {
			if asg[key] {
				keys = append(keys, key)
			}
		}
		t.n++
		jp = fmt.Sprintf("cj_%d", t.n)
		var ps, as []string
		for _, key := range keys {
			v := sc.vars[key]
			ps = append(ps, fmt.Sprintf("(%s : %s)", v.lean, v.ty))
			as = append(as, v.lean)
		}
		if len(ps) == 0 {
			ps = []string{"(_ : Unit)"}
			as = []string{"()"}
		}
		r, err := rest(sc.clone())
		if err != nil {
			return "", err
		}
		fmt.Fprintf(&b, "let %s := fun %s =>\n%s", jp, strings.Join(ps, " "), c08pIndent(r))
		// the let value ends here
		s := strings.TrimRight(b.String(), "\n")
		b.Reset()
		b.WriteString(s + ";\n")
		jcall = jp + " " + strings.Join(as, " ")
		k = func(*c08pScope) (string, error) { return jcall + "\n", nil }
	}
	if cond == "" {
		body, err := t.stmts(blocks[0].List, sc.clone(), k)
		if err != nil {
			return "", err
		}
		return b.String() + body, nil
	}
	thenTxt, err := t.stmts(blocks[0].List, sc.clone(), k)
	if err != nil {
		return "", err
	}
	var elseTxt string
	switch {
	case len(blocks) == 2:
		elseTxt, err = t.stmts(blocks[1].List, sc.clone(), k)
	case elseIf != nil:
		elseTxt, err = t.ifStmt(elseIf, sc.clone(), k)
	default:
		elseTxt = jcall + "\n"
	}
	if err != nil {
		return "", err
	}
	fmt.Fprintf(&b, "if %s then (\n%s) else (\n%s)\n", cond, c08pIndent(thenTxt), c08pIndent(elseTxt))
	return b.String(), nil
}

func (t *c08pTr) ifStmt(s *ast.IfStmt, sc *c08pScope, rest c08pKont) (string, error) {
	if s.Init != nil {
		// the init statement may assign outer variables (`if p, x, err = f(p); err != nil`): treat `{ init; if … }` as a block
		inner := &ast.IfStmt{If: s.If, Cond: s.Cond, Body: s.Body, Else: s.Else}
		blk := &ast.BlockStmt{Lbrace: s.Pos(), List: []ast.Stmt{s.Init, inner}}
		return t.branches(s, sc, []*ast.BlockStmt{blk}, nil, "", rest)
	}
	c, err := t.expr(s.Cond, sc, c08pBool)
	if err != nil {
		return "", err
	}
	if c.ty != c08pBool {
		return "", c08pErrf(s.Cond, "condition is not boolean")
	}
	blocks := []*ast.BlockStmt{s.Body}
	var elseIf *ast.IfStmt
	switch e := s.Else.(type) {
	case *ast.BlockStmt:
		blocks = append(blocks, e)
	case *ast.IfStmt:
		elseIf = e
	}
	txt, err := t.branches(s, sc, blocks, elseIf, c.val, rest)
	return c.pre + txt, err
}

// forStmt: `for i := lo; i < hi; i++ { body }` / `i <= hi`; the body may return or fall through (continue); it assigns
// nothing declared outside; the bound is evaluated once (it must not depend on anything the body assigns: nothing).
func (t *c08pTr) forStmt(s *ast.ForStmt, sc *c08pScope, rest c08pKont) (string, error) {
	if s.Init == nil && s.Post == nil && s.Cond != nil {
		return t.whileStmt(s, sc, rest)
	}
	ini, ok := s.Init.(*ast.AssignStmt)
	if !ok || ini.Tok != token.DEFINE || len(ini.Lhs) != 1 || len(ini.Rhs) != 1 {
		return "", c08pErrf(s, "for: init is not `i := lo`")
	}
	iv := exprKey(ini.Lhs[0])
	post, ok := s.Post.(*ast.IncDecStmt)
	if !ok || post.Tok != token.INC || exprKey(post.X) != iv {
		return "", c08pErrf(s, "for: post is not `%s++`", iv)
	}
	cond, ok := s.Cond.(*ast.BinaryExpr)
	if !ok || exprKey(cond.X) != iv || (cond.Op != token.LSS && cond.Op != token.LEQ) {
		return "", c08pErrf(s, "for: condition is not `%s < hi` / `%s <= hi`", iv, iv)
	}
	asg := map[string]bool{}
	c08pAssigned(s.Body.List, sc, asg)
	if len(asg) > 0 {
		return "", c08pErrf(s, "for: the body assigns variables declared outside the loop")
	}
	bad := false
	ast.Inspect(s.Body, func(n ast.Node) bool {
		switch x := n.(type) {
		case *ast.BranchStmt, *ast.ForStmt, *ast.RangeStmt, *ast.GoStmt, *ast.DeferStmt, *ast.LabeledStmt:
			bad = true
		case *ast.AssignStmt:
			for _, l := range x.Lhs {
				if exprKey(l) == iv && x.Tok != token.DEFINE {
					bad = true
				}
			}
		case *ast.IncDecStmt:
			if exprKey(x.X) == iv {
				bad = true
			}
		}
		return true
	})
	if bad {
		return "", c08pErrf(s, "for: break/continue/nested loop or an assignment to the loop variable in the body")
	}
	lo, err := t.expr(ini.Rhs[0], sc, c08pInt)
	if err != nil {
		return "", err
	}
	hi, err := t.expr(cond.Y, sc, c08pInt)
	if err != nil {
		return "", err
	}
	if lo.ty != c08pInt || hi.ty != c08pInt {
		return "", c08pErrf(s, "for: bounds are not integers")
	}
	hiv := hi.val
	if cond.Op == token.LEQ {
		hiv = "(" + hiv + " + 1)"
	}
	in := sc.clone()
	v := in.declare(iv, c08pInt, 0)
	t.n++
	next := fmt.Sprintf("cn_%d", t.n)
	body, err := t.stmts(s.Body.List, in, func(*c08pScope) (string, error) { return next + " ()\n", nil })
	if err != nil {
		return "", err
	}
	after, err := rest(sc.clone())
	if err != nil {
		return "", err
	}
	return lo.pre + hi.pre + fmt.Sprintf("forRange %s %s (fun %s %s =>\n%s) (fun _ =>\n%s)\n", lo.val, hiv, v.lean, next, c08pIndent(body), c08pIndent(after)), nil
}

// ret renders a return statement.
func (t *c08pTr) ret(s *ast.ReturnStmt, sc *c08pScope) (string, error) {
	sig := t.sig
	var pre strings.Builder
	var vals []string
	if len(s.Results) == 0 {
		for i, n := range t.named {
			if n == "" {
				if sig.rstruct[i] != "" {
					return "", c08pErrf(s, "bare return of a struct result")
				}
				vals = append(vals, c08pZero(sig.results[i], 0))
				continue
			}
			vals = append(vals, sc.vars[n].lean)
		}
	} else {
		if len(s.Results) != len(sig.results) {
			return "", c08pErrf(s, "return of a call with several results")
		}
		for i, r := range s.Results {
			want := sig.results[i]
			if sig.rstruct[i] != "" {
				txt, v, err := t.structTuple(r, sc, sig.rstruct[i])
				if err != nil {
					return "", err
				}
				pre.WriteString(txt)
				vals = append(vals, v)
				continue
			}
			if want == c08pFrm {
				txt, v, err := t.frameValue(r, sc)
				if err != nil {
					return "", err
				}
				pre.WriteString(txt)
				vals = append(vals, v)
				continue
			}
			v, err := t.expr(r, sc, want)
			if err != nil {
				return "", err
			}
			if v.ty != want {
				return "", c08pErrf(r, "return value of type %s where %s is expected", v.ty, want)
			}
			pre.WriteString(v.pre)
			vals = append(vals, v.val)
		}
	}
	out := vals[0]
	if len(vals) > 1 {
		out = "(" + strings.Join(vals, ", ") + ")"
	}
	return pre.String() + "Chk.ok " + c08pAtom(out) + "\n", nil
}

func c08pAtom(s string) string {
	if strings.ContainsAny(s, " ") && !(strings.HasPrefix(s, "(") && c08pBalancedOuter(s)) && !(strings.HasPrefix(s, "[") && strings.HasSuffix(s, "]") && strings.Count(s, "[") == 1) {
		return "(" + s + ")"
	}
	return s
}

func c08pBalancedOuter(s string) bool {
	d := 0
	for i, c := range s {
		switch c {
		case '(':
			d++
		case ')':
			d--
			if d == 0 && i != len(s)-1 {
				return false
			}
		}
	}
	return d == 0 && strings.HasSuffix(s, ")")
}

// structLit evaluates a composite literal of a package struct into the flattened variables under `key`.
func (t *c08pTr) structLit(cl *ast.CompositeLit, sc *c08pScope, key, name string) (string, error) {
	txt, err := t.newStruct(sc, key, name)
	if err != nil {
		return "", err
	}
	st := t.pkg.structs[name]
	var fieldNames []string
	var fieldTypes []ast.Expr
	for _, f := range st.Fields.List {
		if len(f.Names) == 0 {
			fieldNames = append(fieldNames, c08pBaseType(f.Type))
			fieldTypes = append(fieldTypes, f.Type)
		}
		for _, n := range f.Names {
			fieldNames = append(fieldNames, n.Name)
			fieldTypes = append(fieldTypes, f.Type)
		}
	}
	var b strings.Builder
	b.WriteString(txt)
	for i, el := range cl.Elts {
		fname := ""
		var val ast.Expr
		if kv, ok := el.(*ast.KeyValueExpr); ok {
			fname = exprKey(kv.Key)
			val = kv.Value
		} else {
			if i >= len(fieldNames) {
				return "", c08pErrf(cl, "too many positional fields")
			}
			fname = fieldNames[i]
			val = el
		}
		var fty ast.Expr
		for j, n := range fieldNames {
			if n == fname {
				fty = fieldTypes[j]
			}
		}
		if fty == nil {
			return "", c08pErrf(cl, "field %s not found in %s", fname, name)
		}
		ty, _ := t.u.goType(t.pkg, fty)
		if strings.HasPrefix(ty, "S:") {
			in, ok := val.(*ast.CompositeLit)
			if !ok {
				return "", c08pErrf(val, "struct field %s is not given by a literal", fname)
			}
			s, err := t.structLit(in, sc, key+"."+fname, ty[2:])
			if err != nil {
				return "", err
			}
			b.WriteString(s)
			continue
		}
		if ty == c08pOpaque {
			return "", c08pErrf(val, "field %s of unsupported type", fname)
		}
		s, err := t.assignKey(sc, key+"."+fname, val)
		if err != nil {
			return "", err
		}
		b.WriteString(s)
	}
	return b.String(), nil
}

// c08pStructLitOf recognises `T{…}` / `&T{…}` of a package struct.
func (t *c08pTr) structLitOf(e ast.Expr) (*ast.CompositeLit, string) {
	if u, ok := e.(*ast.UnaryExpr); ok && u.Op == token.AND {
		e = u.X
	}
	cl, ok := e.(*ast.CompositeLit)
	if !ok {
		return nil, ""
	}
	id, ok := cl.Type.(*ast.Ident)
	if !ok || t.pkg.structs[id.Name] == nil {
		return nil, ""
	}
	if ty, _ := t.u.goType(t.pkg, id); !strings.HasPrefix(ty, "S:") {
		return nil, ""
	}
	return cl, id.Name
}

// frameValue renders a value returned as the interface Frame: nil, a struct local, or a struct literal.
func (t *c08pTr) frameValue(e ast.Expr, sc *c08pScope) (string, string, error) {
	if exprKey(e) == "nil" {
		return "", "Frm.nil", nil
	}
	pre := ""
	key := exprKey(e)
	if cl, name := t.structLitOf(e); cl != nil {
		t.n++
		key = fmt.Sprintf("cr%d", t.n)
		txt, err := t.structLit(cl, sc, key, name)
		if err != nil {
			return "", "", err
		}
		pre = txt
	}
	name, ok := sc.structs[key]
	if !ok {
		return "", "", c08pErrf(e, "returned frame %s is not a struct local", key)
	}
	fl, _, err := t.u.flatten(t.pkg, name, 0)
	if err != nil {
		return "", "", err
	}
	sort.Slice(fl, func(i, j int) bool { return fl[i].path < fl[j].path })
	var bs, vs []string
	for _, f := range fl {
		v, ok := sc.vars[key+"."+f.path]
		if !ok {
			return "", "", c08pErrf(e, "field %s.%s is not tracked", key, f.path)
		}
		switch f.ty {
		case c08pBytes:
			bs = append(bs, v.lean)
		case c08pInt:
			vs = append(vs, v.lean)
		case c08pBool:
			vs = append(vs, "b2i "+v.lean)
		}
	}
	return pre, fmt.Sprintf("(Frm.mk false [%s] [%s])", strings.Join(bs, ", "), strings.Join(vs, ", ")), nil
}

// structTuple renders a struct-typed result as the tuple of its flattened fields (declaration order).
func (t *c08pTr) structTuple(e ast.Expr, sc *c08pScope, name string) (string, string, error) {
	pre := ""
	key := exprKey(e)
	if cl, n := t.structLitOf(e); cl != nil {
		if n != name {
			return "", "", c08pErrf(e, "literal of %s where %s is returned", n, name)
		}
		t.n++
		key = fmt.Sprintf("cr%d", t.n)
		txt, err := t.structLit(cl, sc, key, name)
		if err != nil {
			return "", "", err
		}
		pre = txt
	}
	if sc.structs[key] != name {
		return "", "", c08pErrf(e, "returned value %s is not a %s", key, name)
	}
	fl, _, err := t.u.flatten(t.pkg, name, 0)
	if err != nil {
		return "", "", err
	}
	var vs []string
	for _, f := range fl {
		vs = append(vs, sc.vars[key+"."+f.path].lean)
	}
	if len(vs) == 1 {
		return pre, vs[0], nil
	}
	return pre, "(" + strings.Join(vs, ", ") + ")", nil
}

// assignKey: `<key> = e` for a scalar / bytes variable (declared on first use with the type of e).
func (t *c08pTr) assignKey(sc *c08pScope, key string, e ast.Expr) (string, error) {
	want := ""
	if v, ok := sc.vars[key]; ok {
		want = v.ty
	}
	v, err := t.expr(e, sc, want)
	if err != nil {
		return "", err
	}
	return t.storeVal(sc, key, e, v)
}

func (t *c08pTr) storeVal(sc *c08pScope, key string, e ast.Expr, v c08pVal) (string, error) {
	want := ""
	if old, ok := sc.vars[key]; ok {
		want = old.ty
	}
	if strings.HasPrefix(v.ty, "(") || v.ty == c08pOpaque || v.ty == "" {
		return "", c08pErrf(e, "value of type %q cannot be stored in %s", v.ty, key)
	}
	if want != "" && want != v.ty {
		return "", c08pErrf(e, "%s has type %s, assigned a %s", key, want, v.ty)
	}
	n := v.n
	if old, ok := sc.vars[key]; ok {
		n = old.n
	}
	nv := sc.declare(key, v.ty, n)
	return v.pre + fmt.Sprintf("let %s : %s := %s;\n", nv.lean, v.ty, v.val), nil
}

// assign1: `name := e` / `var name = e`; a struct literal / fresh struct call declares a flattened struct.
func (t *c08pTr) assign1(sc *c08pScope, lhs ast.Expr, rhs ast.Expr, define bool) (string, error) {
	key := exprKey(lhs)
	if key == "_" {
		v, err := t.expr(rhs, sc, "")
		if err != nil {
			return "", err
		}
		return v.pre, nil
	}
	if cl, name := t.structLitOf(rhs); cl != nil {
		return t.structLit(cl, sc, key, name)
	}
	if c, ok := rhs.(*ast.CallExpr); ok {
		if name, ok := t.u.newOf[exprKey(c.Fun)]; ok {
			return t.newStruct(sc, key, name)
		}
		if _, isConv := c.Fun.(*ast.ArrayType); !isConv {
			v, sig, err := t.call(c, sc)
			if err != nil {
				return "", err
			}
			if sig != nil && len(sig.results) == 1 && sig.rstruct[0] != "" {
				// a struct-valued call: the tuple of its flattened fields is taken apart
				fl, _, err := t.u.flatten(t.pkg, sig.rstruct[0], 0)
				if err != nil {
					return "", err
				}
				t.registerStruct(sc, key, sig.rstruct[0])
				var b strings.Builder
				b.WriteString(v.pre)
				for i, f := range fl {
					nv := sc.declare(key+"."+f.path, f.ty, f.n)
					fmt.Fprintf(&b, "let %s : %s := %s;\n", nv.lean, f.ty, c08pProj(v.val, i, len(fl)))
				}
				return b.String(), nil
			}
			if sig != nil && len(sig.results) != 1 {
				return "", c08pErrf(rhs, "call with %d results assigned to one variable", len(sig.results))
			}
			return t.storeVal(sc, key, rhs, v)
		}
	}
	// x.FrameHeader = fh and the like: plain assignment of a tracked value; aliasing a struct variable is not supported
	if _, ok := sc.structs[exprKey(rhs)]; ok {
		if define {
			// `buf := f.p` is handled below (f.p is a variable); a whole struct cannot be copied
			if _, isVar := sc.vars[exprKey(rhs)]; !isVar {
				return "", c08pErrf(rhs, "copy of the struct %s", exprKey(rhs))
			}
		}
	}
	return t.assignKey(sc, key, rhs)
}

func (t *c08pTr) assign(s *ast.AssignStmt, sc *c08pScope) (string, error) {
	switch s.Tok {
	case token.DEFINE, token.ASSIGN:
		if len(s.Rhs) == 1 && len(s.Lhs) > 1 {
			return t.tupleAssign(s, sc)
		}
		if len(s.Lhs) != len(s.Rhs) {
			return "", c08pErrf(s, "assignment shape")
		}
		if len(s.Lhs) > 1 {
			return "", c08pErrf(s, "parallel assignment")
		}
		if s.Tok == token.ASSIGN {
			key := exprKey(s.Lhs[0])
			if _, ok := sc.vars[key]; !ok && key != "_" {
				// a field of a struct local that was not tracked (opaque) or an unknown variable
				if _, isStruct := sc.structs[c08pParentKey(key)]; !isStruct {
					return "", c08pErrf(s, "assignment to unknown variable %s", key)
				}
				return "", c08pErrf(s, "assignment to untracked field %s", key)
			}
		}
		return t.assign1(sc, s.Lhs[0], s.Rhs[0], s.Tok == token.DEFINE)
	case token.ADD_ASSIGN, token.SUB_ASSIGN, token.MUL_ASSIGN, token.AND_ASSIGN, token.OR_ASSIGN:
		op := map[token.Token]token.Token{token.ADD_ASSIGN: token.ADD, token.SUB_ASSIGN: token.SUB, token.MUL_ASSIGN: token.MUL,
			token.AND_ASSIGN: token.AND, token.OR_ASSIGN: token.OR}[s.Tok]
		if len(s.Lhs) != 1 || len(s.Rhs) != 1 {
			return "", c08pErrf(s, "op-assignment shape")
		}
		key := exprKey(s.Lhs[0])
		if _, ok := sc.vars[key]; !ok {
			return "", c08pErrf(s, "assignment to unknown variable %s", key)
		}
		return t.assignKey(sc, key, &ast.BinaryExpr{X: s.Lhs[0], Op: op, Y: s.Rhs[0], OpPos: s.Pos()})
	}
	return "", c08pErrf(s, "assignment operator %s", s.Tok)
}

func c08pParentKey(k string) string {
	if i := strings.LastIndex(k, "."); i >= 0 {
		return k[:i]
	}
	return k
}

// tupleAssign: `a, b, c := f(x)` / `= f(x)` / `v, ok := m[k]`
func (t *c08pTr) tupleAssign(s *ast.AssignStmt, sc *c08pScope) (string, error) {
	if ix, ok := s.Rhs[0].(*ast.IndexExpr); ok && len(s.Lhs) == 2 {
		// comma-ok lookup in a map literal of the package (only the ok result is modelled)
		if exprKey(s.Lhs[0]) != "_" {
			return "", c08pErrf(s, "map lookup: the value is used")
		}
		mv, ok, err := t.pkgVar(exprKey(ix.X))
		if err != nil {
			return "", c08pErrf(s, "%v", err)
		}
		if !ok || mv.ty != "Map" {
			return "", c08pErrf(s, "map %s is not a regenerated literal", exprKey(ix.X))
		}
		ml := mv.val
		k, err := t.expr(ix.Index, sc, c08pBytes)
		if err != nil {
			return "", err
		}
		if k.ty != c08pBytes {
			return "", c08pErrf(s, "map key is not a string")
		}
		v := sc.declare(exprKey(s.Lhs[1]), c08pBool, 0)
		return k.pre + fmt.Sprintf("let %s : Bool := mapHas %s %s;\n", v.lean, ml, c08pAtom(k.val)), nil
	}
	c, ok := s.Rhs[0].(*ast.CallExpr)
	if !ok {
		return "", c08pErrf(s, "tuple assignment from a non-call")
	}
	v, sig, err := t.call(c, sc)
	if err != nil {
		return "", err
	}
	if sig == nil || len(sig.results) != len(s.Lhs) {
		return "", c08pErrf(s, "tuple assignment: result count")
	}
	var b strings.Builder
	b.WriteString(v.pre)
	for i, l := range s.Lhs {
		key := exprKey(l)
		if key == "_" {
			continue
		}
		proj := c08pProj(v.val, i, len(sig.results))
		if sig.rstruct[i] != "" {
			return "", c08pErrf(s, "struct result in a tuple assignment")
		}
		ty := sig.results[i]
		if old, ok := sc.vars[key]; ok && s.Tok == token.ASSIGN && old.ty != ty {
			return "", c08pErrf(s, "%s has type %s, assigned a %s", key, old.ty, ty)
		}
		if _, ok := sc.vars[key]; !ok && s.Tok == token.ASSIGN {
			return "", c08pErrf(s, "assignment to unknown variable %s", key)
		}
		n := 0
		if old, ok := sc.vars[key]; ok {
			n = old.n
		}
		nv := sc.declare(key, ty, n)
		fmt.Fprintf(&b, "let %s : %s := %s;\n", nv.lean, ty, proj)
	}
	return b.String(), nil
}

func c08pProj(v string, i, n int) string {
	if n == 1 {
		return v
	}
	s := v
	for j := 0; j < i; j++ {
		s += ".2"
	}
	if i < n-1 {
		s += ".1"
	}
	return s
}

// ---------------------------------------------------------------------------------------------------------------
// expressions

func (t *c08pTr) bind(m string, ty string) c08pVal {
	v := t.tmp()
	return c08pVal{pre: fmt.Sprintf("Chk.bind (%s) fun %s =>\n", m, v), val: v, ty: ty}
}

// monadic renders a value as a complete Lean term of type `Chk ty` (for conditionally evaluated operands)
func (v c08pVal) monadic() string {
	return v.pre + "Chk.ok " + c08pAtom(v.val)
}

func c08pNonNeg(e ast.Expr) bool {
	switch x := e.(type) {
	case *ast.BasicLit:
		return x.Kind == token.INT
	case *ast.ParenExpr:
		return c08pNonNeg(x.X)
	case *ast.CallExpr:
		return exprKey(x.Fun) == "len"
	case *ast.SelectorExpr:
		return x.Sel.Name == "p" // a byte slice field is not an integer: never reached for ints
	case *ast.BinaryExpr:
		if x.Op == token.ADD || x.Op == token.MUL || x.Op == token.QUO || x.Op == token.REM {
			return c08pNonNeg(x.X) && c08pNonNeg(x.Y)
		}
	}
	return false
}

func (t *c08pTr) lookup(e ast.Expr, sc *c08pScope) (c08pVal, bool) {
	key := exprKey(e)
	if v, ok := sc.vars[key]; ok {
		return c08pVal{val: v.lean, ty: v.ty, n: v.n}, true
	}
	// field of an FH-typed variable, or a promoted field of an embedded FrameHeader
	if se, ok := e.(*ast.SelectorExpr); ok {
		fld := se.Sel.Name
		if fld == "Type" {
			fld = "Typ"
		}
		base := exprKey(se.X)
		if v, ok := sc.vars[base]; ok && v.ty == c08pFH {
			return c08pVal{val: v.lean + "." + fld, ty: c08pInt}, true
		}
		if _, isStruct := sc.structs[base]; isStruct {
			if v, ok := sc.vars[base+".FrameHeader"]; ok && v.ty == c08pFH {
				switch se.Sel.Name {
				case "Length", "Type", "Flags", "StreamID":
					return c08pVal{val: v.lean + "." + fld, ty: c08pInt}, true
				}
			}
			// promoted through one embedded struct (e.g. PriorityFrame.PriorityParam.Weight)
		}
	}
	if l, ok := t.u.names[key]; ok {
		return c08pVal{val: l, ty: t.u.nameTy[key]}, true
	}
	if l, ok := t.u.byteVar[key]; ok {
		return c08pVal{val: l, ty: c08pBytes}, true
	}
	if c, ok := t.pkg.consts[key]; ok {
		switch c.Kind() {
		case constant.Int:
			return c08pVal{val: c08pIntLit(c.ExactString()), ty: c08pInt}, true
		case constant.String:
			return c08pVal{val: c08pBytesLit([]byte(constant.StringVal(c))), ty: c08pBytes}, true
		case constant.Bool:
			return c08pVal{val: fmt.Sprint(constant.BoolVal(c)), ty: c08pBool}, true
		}
	}
	return c08pVal{}, false
}

func c08pIntLit(s string) string {
	if strings.HasPrefix(s, "-") {
		return "(" + s + ")"
	}
	return s
}

func c08pBytesLit(b []byte) string {
	var p []string
	for _, c := range b {
		p = append(p, strconv.Itoa(int(c)))
	}
	return "([" + strings.Join(p, ", ") + "] : Bytes)"
}

var c08pConversions = map[string]bool{"int": true, "uint": true, "uint8": true, "byte": true, "uint16": true, "uint32": true, "uint64": true,
	"int32": true, "int64": true, "string": true}

// expr translates an expression; `want` is the expected Lean type where the context knows it ("" otherwise; used for nil).
func (t *c08pTr) expr(e ast.Expr, sc *c08pScope, want string) (c08pVal, error) {
	switch e.(type) {
	case *ast.BinaryExpr, *ast.ParenExpr:
		if cv, ok := t.constVal(e, sc); ok {
			return c08pVal{val: c08pIntLit(cv.ExactString()), ty: c08pInt}, nil
		}
	}
	switch x := e.(type) {
	case *ast.ParenExpr:
		v, err := t.expr(x.X, sc, want)
		if err == nil && strings.ContainsAny(v.val, " ") {
			v.val = c08pAtom(v.val)
		}
		return v, err
	case *ast.BasicLit:
		switch x.Kind {
		case token.INT:
			cv := constant.MakeFromLiteral(x.Value, token.INT, 0)
			return c08pVal{val: cv.ExactString(), ty: c08pInt}, nil
		case token.CHAR:
			cv := constant.MakeFromLiteral(x.Value, token.CHAR, 0)
			return c08pVal{val: cv.ExactString(), ty: c08pInt}, nil
		case token.STRING:
			s, err := strconv.Unquote(x.Value)
			if err != nil {
				return c08pVal{}, c08pErrf(x, "string literal")
			}
			return c08pVal{val: c08pBytesLit([]byte(s)), ty: c08pBytes}, nil
		}
		return c08pVal{}, c08pErrf(x, "literal %s", x.Value)
	case *ast.Ident:
		switch x.Name {
		case "true", "false":
			return c08pVal{val: x.Name, ty: c08pBool}, nil
		case "nil":
			switch want {
			case c08pErr:
				return c08pVal{val: "Err.nil", ty: c08pErr}, nil
			case c08pBytes:
				return c08pVal{val: "([] : Bytes)", ty: c08pBytes}, nil
			case c08pFrm:
				return c08pVal{val: "Frm.nil", ty: c08pFrm}, nil
			}
			return c08pVal{}, c08pErrf(x, "nil of unknown type")
		}
		if v, ok := t.lookup(x, sc); ok {
			return v, nil
		}
		if v, ok, err := t.pkgVar(x.Name); ok {
			if err != nil {
				return v, c08pErrf(x, "%v", err)
			}
			return v, nil
		}
		return c08pVal{}, c08pErrf(x, "unknown identifier %s", x.Name)
	case *ast.SelectorExpr:
		if v, ok := t.lookup(x, sc); ok {
			return v, nil
		}
		return c08pVal{}, c08pErrf(x, "unknown selector %s", exprKey(x))
	case *ast.UnaryExpr:
		switch x.Op {
		case token.NOT:
			v, err := t.expr(x.X, sc, c08pBool)
			if err != nil {
				return v, err
			}
			if v.ty != c08pBool {
				return v, c08pErrf(x, "! of a non-boolean")
			}
			v.val = "(!" + c08pAtom(v.val) + ")"
			return v, nil
		case token.SUB:
			v, err := t.expr(x.X, sc, c08pInt)
			if err != nil {
				return v, err
			}
			if v.ty != c08pInt {
				return v, c08pErrf(x, "- of a non-integer")
			}
			v.val = "(-" + c08pAtom(v.val) + ")"
			return v, nil
		}
		return c08pVal{}, c08pErrf(x, "unary %s", x.Op)
	case *ast.BinaryExpr:
		return t.binary(x, sc)
	case *ast.IndexExpr:
		b, err := t.expr(x.X, sc, c08pBytes)
		if err != nil {
			return b, err
		}
		if b.ty != c08pBytes {
			return b, c08pErrf(x, "index of a non-byte-slice %s", exprKey(x.X))
		}
		i, err := t.expr(x.Index, sc, c08pInt)
		if err != nil {
			return i, err
		}
		if i.ty != c08pInt {
			return i, c08pErrf(x, "index is not an integer")
		}
		r := t.bind(fmt.Sprintf("idx %s %s", c08pAtom(b.val), c08pAtom(i.val)), c08pInt)
		r.pre = b.pre + i.pre + r.pre
		return r, nil
	case *ast.SliceExpr:
		if x.Slice3 {
			return c08pVal{}, c08pErrf(x, "3-index slice")
		}
		b, err := t.expr(x.X, sc, c08pBytes)
		if err != nil {
			return b, err
		}
		if b.ty != c08pBytes {
			return b, c08pErrf(x, "slice of a non-byte-slice %s", exprKey(x.X))
		}
		pre := b.pre
		lo, hi := "0", "(len "+c08pAtom(b.val)+")"
		if x.Low != nil {
			v, err := t.expr(x.Low, sc, c08pInt)
			if err != nil {
				return v, err
			}
			if v.ty != c08pInt {
				return v, c08pErrf(x, "slice bound is not an integer")
			}
			pre += v.pre
			lo = c08pAtom(v.val)
		}
		if x.High != nil {
			v, err := t.expr(x.High, sc, c08pInt)
			if err != nil {
				return v, err
			}
			if v.ty != c08pInt {
				return v, c08pErrf(x, "slice bound is not an integer")
			}
			pre += v.pre
			hi = c08pAtom(v.val)
		}
		r := t.bind(fmt.Sprintf("slc %s %s %s", c08pAtom(b.val), lo, hi), c08pBytes)
		r.pre = pre + r.pre
		return r, nil
	case *ast.CallExpr:
		v, sig, err := t.call(x, sc)
		if err != nil {
			return v, err
		}
		if sig != nil && len(sig.results) != 1 {
			return v, c08pErrf(x, "call with %d results used as a value", len(sig.results))
		}
		if sig != nil && sig.rstruct[0] != "" {
			return v, c08pErrf(x, "struct-valued call used as a plain value (assign it with :=)")
		}
		return v, nil
	case *ast.CompositeLit:
		return t.errLit(x, sc)
	}
	return c08pVal{}, c08pErrf(e, "expression %T not supported", e)
}

// errLit: connError{code, reason} / StreamError{StreamID, Code, Cause}
func (t *c08pTr) errLit(x *ast.CompositeLit, sc *c08pScope) (c08pVal, error) {
	name := exprKey(x.Type)
	pick := func(pos int, key string) (ast.Expr, error) {
		for i, el := range x.Elts {
			if kv, ok := el.(*ast.KeyValueExpr); ok {
				if exprKey(kv.Key) == key {
					return kv.Value, nil
				}
			} else if i == pos {
				return el, nil
			}
		}
		return nil, c08pErrf(x, "%s literal without %s", name, key)
	}
	switch name {
	case "connError":
		e, err := pick(0, "Code")
		if err != nil {
			return c08pVal{}, err
		}
		v, err := t.expr(e, sc, c08pInt)
		if err != nil {
			return v, err
		}
		v.val, v.ty = "(Err.conn "+c08pAtom(v.val)+")", c08pErr
		return v, nil
	case "StreamError":
		e, err := pick(1, "Code")
		if err != nil {
			return c08pVal{}, err
		}
		v, err := t.expr(e, sc, c08pInt)
		if err != nil {
			return v, err
		}
		v.val, v.ty = "(Err.stream "+c08pAtom(v.val)+")", c08pErr
		return v, nil
	}
	return c08pVal{}, c08pErrf(x, "composite literal %s as a value", name)
}

func (t *c08pTr) binary(x *ast.BinaryExpr, sc *c08pScope) (c08pVal, error) {
	switch x.Op {
	case token.LAND, token.LOR:
		l, err := t.expr(x.X, sc, c08pBool)
		if err != nil {
			return l, err
		}
		r, err := t.expr(x.Y, sc, c08pBool)
		if err != nil {
			return r, err
		}
		if l.ty != c08pBool || r.ty != c08pBool {
			return l, c08pErrf(x, "%s of non-booleans", x.Op)
		}
		op := "&&"
		if x.Op == token.LOR {
			op = "||"
		}
		if r.pre == "" {
			return c08pVal{pre: l.pre, val: "(" + l.val + " " + op + " " + r.val + ")", ty: c08pBool}, nil
		}
		// the right operand makes accesses: it is evaluated only when Go evaluates it
		var m string
		if x.Op == token.LAND {
			m = fmt.Sprintf("if %s then (\n%s) else Chk.ok false", l.val, c08pIndent(r.monadic()))
		} else {
			m = fmt.Sprintf("if %s then Chk.ok true else (\n%s)", l.val, c08pIndent(r.monadic()))
		}
		b := t.bind(m, c08pBool)
		b.pre = l.pre + b.pre
		return b, nil
	}
	lw, rw := "", ""
	if exprKey(x.Y) == "nil" {
		rw = c08pErr
	}
	l, err := t.expr(x.X, sc, lw)
	if err != nil {
		return l, err
	}
	if rw == "" {
		rw = l.ty
	}
	r, err := t.expr(x.Y, sc, rw)
	if err != nil {
		return r, err
	}
	pre := l.pre + r.pre
	lv, rv := c08pAtom(l.val), c08pAtom(r.val)
	switch x.Op {
	case token.EQL, token.NEQ, token.LSS, token.LEQ, token.GTR, token.GEQ:
		if l.ty != r.ty {
			return l, c08pErrf(x, "comparison of %s with %s", l.ty, r.ty)
		}
		op := map[token.Token]string{token.EQL: "=", token.NEQ: "≠", token.LSS: "<", token.LEQ: "≤", token.GTR: ">", token.GEQ: "≥"}[x.Op]
		switch l.ty {
		case c08pInt:
		case c08pBool, c08pErr, c08pMR, c08pBytes:
			if x.Op != token.EQL && x.Op != token.NEQ {
				return l, c08pErrf(x, "ordering of %s values", l.ty)
			}
		default:
			return l, c08pErrf(x, "comparison of %s values", l.ty)
		}
		return c08pVal{pre: pre, val: fmt.Sprintf("decide (%s %s %s)", lv, op, rv), ty: c08pBool}, nil
	}
	if l.ty != c08pInt || r.ty != c08pInt {
		return l, c08pErrf(x, "arithmetic on %s and %s", l.ty, r.ty)
	}
	switch x.Op {
	case token.ADD, token.SUB, token.MUL:
		return c08pVal{pre: pre, val: fmt.Sprintf("(%s %s %s)", lv, x.Op, rv), ty: c08pInt}, nil
	case token.QUO, token.REM:
		// Go truncates towards zero, Lean's Int division is Euclidean: identical on non-negative operands only
		if !c08pNonNeg(x.X) || !c08pNonNeg(x.Y) {
			return l, c08pErrf(x, "%s on operands not known to be non-negative", x.Op)
		}
		return c08pVal{pre: pre, val: fmt.Sprintf("(%s %s %s)", lv, x.Op, rv), ty: c08pInt}, nil
	case token.AND:
		return c08pVal{pre: pre, val: fmt.Sprintf("(land %s %s)", lv, rv), ty: c08pInt}, nil
	case token.OR:
		return c08pVal{pre: pre, val: fmt.Sprintf("(lor %s %s)", lv, rv), ty: c08pInt}, nil
	case token.XOR:
		return c08pVal{pre: pre, val: fmt.Sprintf("(lxor %s %s)", lv, rv), ty: c08pInt}, nil
	case token.SHL:
		return c08pVal{pre: pre, val: fmt.Sprintf("(shl %s %s)", lv, rv), ty: c08pInt}, nil
	case token.SHR:
		return c08pVal{pre: pre, val: fmt.Sprintf("(shr %s %s)", lv, rv), ty: c08pInt}, nil
	}
	return l, c08pErrf(x, "operator %s", x.Op)
}

// call translates a call; for calls of translated functions it also answers the callee's signature.
func (t *c08pTr) call(x *ast.CallExpr, sc *c08pScope) (c08pVal, *c08pSig, error) {
	key := exprKey(x.Fun)
	if at, ok := x.Fun.(*ast.ArrayType); ok && at.Len == nil && len(x.Args) == 1 { // []byte(s)
		v, err := t.expr(x.Args[0], sc, c08pBytes)
		if err == nil && v.ty != c08pBytes {
			err = c08pErrf(x, "[]byte(…) of a non-string")
		}
		return v, nil, err
	}
	if _, ok := x.Fun.(*ast.ParenExpr); ok {
		return c08pVal{}, nil, c08pErrf(x, "call of a parenthesised expression")
	}
	switch {
	case key == "len" && len(x.Args) == 1:
		v, err := t.expr(x.Args[0], sc, c08pBytes)
		if err != nil {
			return v, nil, err
		}
		if v.ty != c08pBytes {
			return v, nil, c08pErrf(x, "len of a non-byte-slice")
		}
		return c08pVal{pre: v.pre, val: "(len " + c08pAtom(v.val) + ")", ty: c08pInt}, nil, nil
	case c08pConversions[key] && len(x.Args) == 1:
		v, err := t.expr(x.Args[0], sc, "")
		if err != nil {
			return v, nil, err
		}
		if key == "string" && v.ty != c08pBytes || key != "string" && v.ty != c08pInt {
			return v, nil, c08pErrf(x, "conversion %s(%s)", key, v.ty)
		}
		return v, nil, nil
	case len(x.Args) == 1 && key != "ConnectionError" && t.isIntNamed(key):
		// conversion to a named integer type of the package (Flags, ErrCode, SettingID, FrameType): identity
		v, err := t.expr(x.Args[0], sc, c08pInt)
		if err != nil {
			return v, nil, err
		}
		if v.ty != c08pInt {
			return v, nil, c08pErrf(x, "conversion %s(%s)", key, v.ty)
		}
		return v, nil, nil
	case key == "ConnectionError" && len(x.Args) == 1:
		v, err := t.expr(x.Args[0], sc, c08pInt)
		if err != nil {
			return v, nil, err
		}
		v.val, v.ty = "(Err.conn "+c08pAtom(v.val)+")", c08pErr
		return v, nil, nil
	case key == "streamError" && len(x.Args) == 2:
		id, err := t.expr(x.Args[0], sc, c08pInt)
		if err != nil {
			return id, nil, err
		}
		v, err := t.expr(x.Args[1], sc, c08pInt)
		if err != nil {
			return v, nil, err
		}
		return c08pVal{pre: id.pre + v.pre, val: "(Err.stream " + c08pAtom(v.val) + ")", ty: c08pErr}, nil, nil
	case (key == "binary.BigEndian.Uint16" || key == "binary.BigEndian.Uint32" || key == "binary.BigEndian.Uint64") && len(x.Args) == 1:
		v, err := t.expr(x.Args[0], sc, c08pBytes)
		if err != nil {
			return v, nil, err
		}
		if v.ty != c08pBytes {
			return v, nil, c08pErrf(x, "%s of a non-byte-slice", key)
		}
		w := map[string]int{"16": 2, "32": 4, "64": 8}[key[len(key)-2:]]
		r := t.bind(fmt.Sprintf("beU %d %s", w, c08pAtom(v.val)), c08pInt)
		r.pre = v.pre + r.pre
		return r, nil, nil
	case (key == "bytes.Compare" || key == "bytes.Equal") && len(x.Args) == 2:
		a, err := t.expr(x.Args[0], sc, c08pBytes)
		if err != nil {
			return a, nil, err
		}
		b, err := t.expr(x.Args[1], sc, c08pBytes)
		if err != nil {
			return b, nil, err
		}
		if a.ty != c08pBytes || b.ty != c08pBytes {
			return a, nil, c08pErrf(x, "%s of non-byte-slices", key)
		}
		if key == "bytes.Equal" {
			return c08pVal{pre: a.pre + b.pre, val: fmt.Sprintf("bytesEqual %s %s", c08pAtom(a.val), c08pAtom(b.val)), ty: c08pBool}, nil, nil
		}
		return c08pVal{pre: a.pre + b.pre, val: fmt.Sprintf("(bytesCompare %s %s)", c08pAtom(a.val), c08pAtom(b.val)), ty: c08pInt}, nil, nil
	}
	// a function / method of the unit
	var fn *c08pFn
	var recvKey string
	if ext, ok := t.u.extern[key]; ok {
		fn = ext
	} else if id, ok := x.Fun.(*ast.Ident); ok {
		if d, ok := t.pkg.funcs[id.Name]; ok {
			fn = &c08pFn{pkg: t.pkg, key: id.Name, decl: d}
		}
	} else if se, ok := x.Fun.(*ast.SelectorExpr); ok {
		recvKey = exprKey(se.X)
		tyName := ""
		if st, ok := sc.structs[recvKey]; ok {
			tyName = st
		} else if v, ok := t.lookup(se.X, sc); ok && v.ty == c08pInt {
			// method of a named integer type: find the (unique) type of the package that has this method
			for k := range t.pkg.funcs {
				if strings.HasSuffix(k, "."+se.Sel.Name) && t.isIntNamed(strings.TrimSuffix(k, "."+se.Sel.Name)) {
					if tyName != "" {
						return c08pVal{}, nil, c08pErrf(x, "method %s is ambiguous", se.Sel.Name)
					}
					tyName = strings.TrimSuffix(k, "."+se.Sel.Name)
				}
			}
		}
		if d, ok := t.pkg.funcs[tyName+"."+se.Sel.Name]; ok && tyName != "" {
			fn = &c08pFn{pkg: t.pkg, key: tyName + "." + se.Sel.Name, decl: d}
		}
	}
	if fn == nil {
		return c08pVal{}, nil, c08pErrf(x, "call of %s not supported", key)
	}
	sig, err := t.u.translate(fn)
	if err != nil {
		return c08pVal{}, nil, err
	}
	var pre strings.Builder
	var args []string
	np := 0
	if sig.recv != "" {
		se := x.Fun.(*ast.SelectorExpr)
		// receiver: the flattened fields of the struct variable, or the integer value
		if _, isStruct := sc.structs[recvKey]; isStruct {
			for np < len(sig.pkeys) && strings.HasPrefix(sig.pkeys[np], sig.recv+".") {
				fk := recvKey + strings.TrimPrefix(sig.pkeys[np], sig.recv)
				v, ok := sc.vars[fk]
				if !ok {
					return c08pVal{}, nil, c08pErrf(x, "receiver field %s is not tracked", fk)
				}
				args = append(args, v.lean)
				np++
			}
		} else {
			v, err := t.expr(se.X, sc, c08pInt)
			if err != nil {
				return v, nil, err
			}
			pre.WriteString(v.pre)
			args = append(args, c08pAtom(v.val))
			np++
		}
	}
	// ordinary parameters (opaque ones are dropped on both sides; struct parameters are not supported at call sites)
	ai := 0
	for _, p := range fn.decl.Type.Params.List {
		ty, _ := t.u.goType(fn.pkg, p.Type)
		names := len(p.Names)
		if names == 0 {
			names = 1
		}
		for j := 0; j < names; j++ {
			if ai >= len(x.Args) {
				return c08pVal{}, nil, c08pErrf(x, "too few arguments")
			}
			a := x.Args[ai]
			ai++
			blank := len(p.Names) > j && p.Names[j].Name == "_"
			if ty == c08pOpaque || blank {
				continue
			}
			if strings.HasPrefix(ty, "S:") {
				return c08pVal{}, nil, c08pErrf(x, "struct argument")
			}
			v, err := t.expr(a, sc, ty)
			if err != nil {
				return v, nil, err
			}
			if v.ty != ty {
				return v, nil, c08pErrf(a, "argument of type %s where %s is expected", v.ty, ty)
			}
			pre.WriteString(v.pre)
			args = append(args, c08pAtom(v.val))
			np++
		}
	}
	if np != len(sig.params) {
		return c08pVal{}, nil, c08pErrf(x, "argument count of %s (%d for %d)", fn.key, np, len(sig.params))
	}
	r := t.bind(strings.TrimSpace(sig.lean+" "+strings.Join(args, " ")), sig.resultType())
	r.pre = pre.String() + r.pre
	return r, sig, nil
}

func (t *c08pTr) isIntNamed(name string) bool {
	e, ok := t.pkg.named[name]
	if !ok {
		return false
	}
	ty, _ := t.u.goType(t.pkg, e)
	return ty == c08pInt
}

// constVal folds integer constant expressions (literals, integer constants of the package that are not shadowed).
func (t *c08pTr) constVal(e ast.Expr, sc *c08pScope) (constant.Value, bool) {
	switch x := e.(type) {
	case *ast.BasicLit:
		if x.Kind == token.INT || x.Kind == token.CHAR {
			return constant.ToInt(constant.MakeFromLiteral(x.Value, x.Kind, 0)), true
		}
	case *ast.ParenExpr:
		return t.constVal(x.X, sc)
	case *ast.Ident:
		if _, shadow := sc.vars[x.Name]; shadow {
			return nil, false
		}
		if c, ok := t.pkg.consts[x.Name]; ok && c.Kind() == constant.Int {
			return c, true
		}
	case *ast.BinaryExpr:
		l, ok := t.constVal(x.X, sc)
		if !ok {
			return nil, false
		}
		r, ok := t.constVal(x.Y, sc)
		if !ok {
			return nil, false
		}
		switch x.Op {
		case token.ADD, token.SUB, token.MUL, token.AND, token.OR, token.XOR:
			return constant.BinaryOp(l, x.Op, r), true
		case token.QUO:
			if constant.Sign(r) != 0 {
				return constant.BinaryOp(l, token.QUO_ASSIGN, r), true // integer division
			}
		case token.REM:
			if constant.Sign(r) != 0 {
				return constant.BinaryOp(l, token.REM, r), true
			}
		case token.SHL, token.SHR:
			if k, ok := constant.Uint64Val(r); ok && k < 64 {
				return constant.Shift(l, x.Op, uint(k)), true
			}
		}
	}
	return nil, false
}

// pkgVar renders a package-level variable that is never assigned as a constant: an integer (`len("…")`, literal),
// a []byte literal or the key set of a map literal with string keys (emitted as Lean definitions of the module).
func (t *c08pTr) pkgVar(name string) (c08pVal, bool, error) {
	init, ok := t.pkg.vars[name]
	if !ok {
		return c08pVal{}, false, nil
	}
	assigned := false
	for _, fd := range t.pkg.funcs {
		if fd.Body == nil {
			continue
		}
		ast.Inspect(fd.Body, func(n ast.Node) bool {
			switch x := n.(type) {
			case *ast.AssignStmt:
				if x.Tok != token.DEFINE {
					for _, l := range x.Lhs {
						if exprKey(l) == name {
							assigned = true
						}
					}
				}
			case *ast.IncDecStmt:
				if exprKey(x.X) == name {
					assigned = true
				}
			case *ast.UnaryExpr:
				if x.Op == token.AND && exprKey(x.X) == name {
					assigned = true
				}
			}
			return true
		})
	}
	if assigned {
		return c08pVal{}, true, fmt.Errorf("package variable %s is assigned somewhere in %s: not a constant", name, t.pkg.dir)
	}
	lean := t.u.prefix + name
	switch x := init.(type) {
	case *ast.BasicLit:
		if x.Kind == token.INT {
			return c08pVal{val: constant.MakeFromLiteral(x.Value, token.INT, 0).ExactString(), ty: c08pInt}, true, nil
		}
	case *ast.CallExpr:
		if exprKey(x.Fun) == "len" && len(x.Args) == 1 {
			if l, ok := x.Args[0].(*ast.BasicLit); ok && l.Kind == token.STRING {
				s, _ := strconv.Unquote(l.Value)
				return c08pVal{val: strconv.Itoa(len(s)), ty: c08pInt}, true, nil
			}
		}
	case *ast.CompositeLit:
		if at, ok := x.Type.(*ast.ArrayType); ok && exprKey(at.Elt) == "byte" {
			var bs []byte
			for _, el := range x.Elts {
				l, ok := el.(*ast.BasicLit)
				if !ok {
					return c08pVal{}, true, fmt.Errorf("package variable %s: element is not a literal", name)
				}
				v, _ := constant.Uint64Val(constant.ToInt(constant.MakeFromLiteral(l.Value, l.Kind, 0)))
				bs = append(bs, byte(v))
			}
			if _, done := t.u.byteVar[name]; !done {
				t.u.byteVar[name] = lean
				t.u.pre = append(t.u.pre, fmt.Sprintf("/-- %s var %s -/\ndef %s : Bytes := %s\n", t.pkg.label, name, lean, c08pBytesLit(bs)))
			}
			return c08pVal{val: lean, ty: c08pBytes}, true, nil
		}
		if mt, ok := x.Type.(*ast.MapType); ok && exprKey(mt.Key) == "string" {
			var keys []string
			var ks []string
			for _, el := range x.Elts {
				kv, ok := el.(*ast.KeyValueExpr)
				if !ok {
					return c08pVal{}, true, fmt.Errorf("package variable %s: map element", name)
				}
				l, ok := kv.Key.(*ast.BasicLit)
				if !ok || l.Kind != token.STRING {
					return c08pVal{}, true, fmt.Errorf("package variable %s: map key is not a string literal", name)
				}
				s, _ := strconv.Unquote(l.Value)
				keys = append(keys, s)
			}
			sort.Strings(keys)
			for _, k := range keys {
				ks = append(ks, c08pBytesLit([]byte(k)))
			}
			if _, done := t.u.byteVar[name]; !done {
				t.u.byteVar[name] = lean
				t.u.pre = append(t.u.pre, fmt.Sprintf("/-- %s var %s: the keys (sorted): %s -/\ndef %s : List Bytes := [%s]\n", t.pkg.label, name, strings.Join(keys, " "), lean, strings.Join(ks, ", ")))
			}
			return c08pVal{val: lean, ty: "Map"}, true, nil
		}
	}
	return c08pVal{}, true, fmt.Errorf("package variable %s: initialiser not supported", name)
}

// whileStmt: `for cond { body }` whose body may assign variables declared outside (the loop state) and may return.
// Rendered as `whileLoop cond body after fuel state` (Model/CheckedGo): the state is the tuple of the assigned outer
// variables, the fuel (a bound on the number of iterations; running out of it answers `oob`, which the safety theorem
// shows unreachable) is the Lean expression configured for the function in `loopFuel`.
func (t *c08pTr) whileStmt(s *ast.ForStmt, sc *c08pScope, rest c08pKont) (string, error) {
	fuel, ok := t.u.loopFuel[t.sig.lean]
	if !ok {
		return "", c08pErrf(s, "loop without a configured iteration bound")
	}
	bad := false
	ast.Inspect(s.Body, func(n ast.Node) bool {
		switch n.(type) {
		case *ast.BranchStmt, *ast.ForStmt, *ast.RangeStmt, *ast.GoStmt, *ast.DeferStmt, *ast.LabeledStmt:
			bad = true
		}
		return true
	})
	if bad {
		return "", c08pErrf(s, "for: break/continue/nested loop in the body")
	}
	asg := map[string]bool{}
	c08pAssigned(s.Body.List, sc, asg)
	var keys []string
	for _, k := range sc.order {
		if asg[k] {
			keys = append(keys, k)
		}
	}
	if len(keys) == 0 {
		return "", c08pErrf(s, "for: the body assigns no outer variable (no progress)")
	}
	var tys, names []string
	for _, k := range keys {
		v := sc.vars[k]
		tys = append(tys, v.ty)
		names = append(names, v.lean)
	}
	sty := strings.Join(tys, " × ")
	tuple := names[0]
	if len(names) > 1 {
		tuple = "(" + strings.Join(names, ", ") + ")"
	}
	unpack := func() string {
		var b strings.Builder
		for i, k := range keys {
			v := sc.vars[k]
			fmt.Fprintf(&b, "let %s : %s := %s;\n", v.lean, v.ty, c08pProj("cs", i, len(keys)))
		}
		return b.String()
	}
	c, err := t.expr(s.Cond, sc.clone(), c08pBool)
	if err != nil {
		return "", err
	}
	if c.pre != "" || c.ty != c08pBool {
		return "", c08pErrf(s.Cond, "for: the condition makes accesses / is not boolean")
	}
	t.n++
	next := fmt.Sprintf("cn_%d", t.n)
	body, err := t.stmts(s.Body.List, sc.clone(), func(in *c08pScope) (string, error) {
		var cur []string
		for _, k := range keys {
			cur = append(cur, in.vars[k].lean)
		}
		tp := cur[0]
		if len(cur) > 1 {
			tp = "(" + strings.Join(cur, ", ") + ")"
		}
		return next + " " + tp + "\n", nil
	})
	if err != nil {
		return "", err
	}
	after, err := rest(sc.clone())
	if err != nil {
		return "", err
	}
	return fmt.Sprintf("whileLoop (σ := %s) (fun cs =>\n%s) (fun cs %s =>\n%s) (fun cs =>\n%s) (%s) %s\n", sty,
		c08pIndent(unpack()+c.val), next, c08pIndent(unpack()+body), c08pIndent(unpack()+after), fuel, tuple), nil
}
