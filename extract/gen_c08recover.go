package main

// Gen/C08Recover.lean (C08): "every goroutine entry on the read / dispatch path has a recover".
//
//   pkg/sync/workerpool.go   Schedule / ScheduleAlways / ScheduleAuto: the sequence of select statements of each, and for
//                            every comm clause what it does with the task: hands it to a parked worker (`p.work <- task`),
//                            starts a worker (`go p.spawnWorker(task)`), starts a temporary goroutine through
//                            utils.GoWithRecover, through `go func(){ defer …recover()… }()`, through a BARE `go`, runs it
//                            inline, or nothing.  spawnWorker: the deferred recover is the first statement and every call
//                            of a task happens behind it; the worker takes further tasks from p.work.
//   pkg/network/eventloop.go registerRead: the read callback hands the connection's read turn to readPool.<method> and
//                            whether the function literal it hands over recovers by itself.
//   pkg/network/connection.go startRWLoop: how the read loop and the write loop goroutines are started.
//
// Unknown shapes are rejected. Helpers carry the prefix c08r.

import (
	"fmt"
	"go/ast"
	"go/token"
	"strings"
)

func init() { register("C08Recover", c08rGen) }

// c08rHasRecover: a `defer func(){ … recover() … }()` among the leading statements of the body (before any other call)
func c08rDeferRecoverFirst(body *ast.BlockStmt) bool {
	if body == nil || len(body.List) == 0 {
		return false
	}
	d, ok := body.List[0].(*ast.DeferStmt)
	if !ok {
		return false
	}
	lit, ok := d.Call.Fun.(*ast.FuncLit)
	if !ok {
		return false
	}
	found := false
	ast.Inspect(lit.Body, func(n ast.Node) bool {
		if c, ok := n.(*ast.CallExpr); ok {
			if id, ok := c.Fun.(*ast.Ident); ok && id.Name == "recover" && len(c.Args) == 0 {
				found = true
			}
		}
		return true
	})
	return found
}

// c08rCallsTask: body (looking into function literals) calls the identifier `task`
func c08rCallsIdent(n ast.Node, name string) bool {
	found := false
	ast.Inspect(n, func(m ast.Node) bool {
		if c, ok := m.(*ast.CallExpr); ok {
			if id, ok := c.Fun.(*ast.Ident); ok && id.Name == name {
				found = true
			}
		}
		return true
	})
	return found
}

// c08rLaunch classifies ONE statement of a clause body: "" = irrelevant (logging), else the mechanism
func c08rLaunch(s ast.Stmt, task string) (string, error) {
	switch x := s.(type) {
	case *ast.GoStmt:
		if sel, ok := x.Call.Fun.(*ast.SelectorExpr); ok && sel.Sel.Name == "spawnWorker" && len(x.Call.Args) == 1 && exprKey(x.Call.Args[0]) == task {
			return "spawn", nil
		}
		if id, ok := x.Call.Fun.(*ast.Ident); ok && id.Name == task && len(x.Call.Args) == 0 {
			return "bare", nil
		}
		if lit, ok := x.Call.Fun.(*ast.FuncLit); ok {
			if !c08rCallsIdent(lit.Body, task) {
				return "", fmt.Errorf("go statement at %s does not run the task", fset.Position(x.Pos()))
			}
			if c08rDeferRecoverFirst(lit.Body) {
				return "recover", nil
			}
			return "bare", nil
		}
		return "", fmt.Errorf("go statement at %s not recognised", fset.Position(x.Pos()))
	case *ast.ExprStmt:
		c, ok := x.X.(*ast.CallExpr)
		if !ok {
			return "", nil
		}
		if exprKey(c.Fun) == "utils.GoWithRecover" {
			if len(c.Args) != 2 {
				return "", fmt.Errorf("utils.GoWithRecover at %s: arguments", fset.Position(x.Pos()))
			}
			lit, isLit := c.Args[0].(*ast.FuncLit)
			if exprKey(c.Args[0]) == task || (isLit && c08rCallsIdent(lit.Body, task)) {
				return "recover", nil
			}
			return "", fmt.Errorf("utils.GoWithRecover at %s does not run the task", fset.Position(x.Pos()))
		}
		if id, ok := c.Fun.(*ast.Ident); ok && id.Name == task {
			return "inline", nil
		}
		if c08rCallsIdent(c, task) || c08rMentions(c, task) {
			return "", fmt.Errorf("call at %s passes the task on in a way that is not recognised", fset.Position(x.Pos()))
		}
		return "", nil
	case *ast.IfStmt:
		if c08rMentions(x, task) {
			return "", fmt.Errorf("conditional use of the task at %s", fset.Position(x.Pos()))
		}
		hasGo := false
		ast.Inspect(x, func(n ast.Node) bool {
			if _, ok := n.(*ast.GoStmt); ok {
				hasGo = true
			}
			return true
		})
		if hasGo {
			return "", fmt.Errorf("conditional go statement at %s", fset.Position(x.Pos()))
		}
		return "", nil
	case *ast.ReturnStmt:
		return "return", nil
	}
	if c08rMentions(s, task) {
		return "", fmt.Errorf("statement at %s uses the task in a way that is not recognised", fset.Position(s.Pos()))
	}
	return "", nil
}

func c08rMentions(n ast.Node, name string) bool {
	found := false
	ast.Inspect(n, func(m ast.Node) bool {
		if id, ok := m.(*ast.Ident); ok && id.Name == name {
			found = true
		}
		return true
	})
	return found
}

// c08rSchedule: the select statements of one Schedule* method: per select the clauses (guard, action)
func c08rSchedule(fd *ast.FuncDecl) ([][][2]string, error) {
	if fd.Type.Params == nil || len(fd.Type.Params.List) != 1 || len(fd.Type.Params.List[0].Names) != 1 {
		return nil, fmt.Errorf("%s: parameters", fd.Name.Name)
	}
	task := fd.Type.Params.List[0].Names[0].Name
	var out [][][2]string
	for _, s := range fd.Body.List {
		sel, ok := s.(*ast.SelectStmt)
		if !ok {
			return nil, fmt.Errorf("%s: statement at %s is not a select", fd.Name.Name, fset.Position(s.Pos()))
		}
		var clauses [][2]string
		for _, c := range sel.Body.List {
			cc := c.(*ast.CommClause)
			guard := ""
			switch cm := cc.Comm.(type) {
			case nil:
				guard = "default"
			case *ast.SendStmt:
				ch := exprKey(cm.Chan)
				switch {
				case strings.HasSuffix(ch, ".work") && exprKey(cm.Value) == task:
					guard = "work"
				case strings.HasSuffix(ch, ".sem"):
					guard = "sem"
				default:
					return nil, fmt.Errorf("%s: send on %s not recognised", fd.Name.Name, ch)
				}
			default:
				return nil, fmt.Errorf("%s: comm clause at %s not recognised", fd.Name.Name, fset.Position(cc.Pos()))
			}
			action := ""
			for _, b := range cc.Body {
				a, err := c08rLaunch(b, task)
				if err != nil {
					return nil, fmt.Errorf("%s: %v", fd.Name.Name, err)
				}
				if a == "" {
					continue
				}
				if a == "return" {
					if action == "" {
						action = "return"
					}
					break
				}
				if action != "" {
					return nil, fmt.Errorf("%s: two uses of the task in one clause", fd.Name.Name)
				}
				action = a
			}
			switch guard {
			case "work":
				if action != "" && action != "return" {
					return nil, fmt.Errorf("%s: the task is handed to a worker AND %s", fd.Name.Name, action)
				}
				action = "handoff"
			case "sem":
				if action != "spawn" {
					return nil, fmt.Errorf("%s: a worker slot is taken but no worker started (%q)", fd.Name.Name, action)
				}
			case "default":
				if action == "" || action == "return" {
					action = "none"
				}
			}
			clauses = append(clauses, [2]string{guard, action})
		}
		out = append(out, clauses)
	}
	if len(out) == 0 {
		return nil, fmt.Errorf("%s: no select statement", fd.Name.Name)
	}
	return out, nil
}

func c08rGen() (string, error) {
	const wp, el, cn = "pkg/sync/workerpool.go", "pkg/network/eventloop.go", "pkg/network/connection.go"
	f, err := parse(wp)
	if err != nil {
		return "", err
	}
	var sb strings.Builder
	sb.WriteString(header("C08Recover", wp, el, cn))
	sb.WriteString("/-- per select statement (in order) the comm clauses (guard, what happens to the task): guard work = `p.work <- task`, sem = `p.sem <- struct{}{}`, default; action handoff | spawn (`go p.spawnWorker(task)`) | recover (temporary goroutine with a recover) | bare (temporary goroutine WITHOUT a recover) | inline | none -/\nabbrev Selects := List (List (String × String))\n")
	for _, m := range []string{"Schedule", "ScheduleAlways", "ScheduleAuto"} {
		fd := findFunc(f, "workerPool", m)
		if fd == nil {
			return "", fmt.Errorf("workerPool.%s not found", m)
		}
		sels, err := c08rSchedule(fd)
		if err != nil {
			return "", err
		}
		var ss []string
		for _, cl := range sels {
			var cs []string
			for _, c := range cl {
				cs = append(cs, fmt.Sprintf("(%q, %q)", c[0], c[1]))
			}
			ss = append(ss, "["+strings.Join(cs, ", ")+"]")
		}
		fmt.Fprintf(&sb, "/-- workerPool.%s -/\ndef %s : Selects := [%s]\n", m, strings.ToLower(m[:1])+m[1:], strings.Join(ss, ", "))
	}
	// spawnWorker
	sw := findFunc(f, "workerPool", "spawnWorker")
	if sw == nil || sw.Type.Params == nil || len(sw.Type.Params.List) != 1 {
		return "", fmt.Errorf("workerPool.spawnWorker not found")
	}
	task := sw.Type.Params.List[0].Names[0].Name
	rec := c08rDeferRecoverFirst(sw.Body)
	takes := false
	if len(sw.Body.List) > 0 {
		for _, s := range sw.Body.List[1:] {
			ast.Inspect(s, func(n ast.Node) bool {
				if a, ok := n.(*ast.AssignStmt); ok && len(a.Lhs) == 1 && len(a.Rhs) == 1 && exprKey(a.Lhs[0]) == task {
					if u, ok := a.Rhs[0].(*ast.UnaryExpr); ok && u.Op == token.ARROW && strings.HasSuffix(exprKey(u.X), ".work") {
						takes = true
					}
				}
				if _, ok := n.(*ast.GoStmt); ok {
					rec = false // a worker that starts goroutines of its own is not what the model describes
				}
				return true
			})
		}
	}
	if !c08rCallsIdent(sw.Body, task) {
		return "", fmt.Errorf("spawnWorker does not run its task")
	}
	fmt.Fprintf(&sb, "/-- workerPool.spawnWorker: `defer func(){ … recover() … }()` is its first statement, every task it runs is called behind it -/\ndef workerRecovers : Bool := %s\n", c08dBool(rec))
	fmt.Fprintf(&sb, "/-- workerPool.spawnWorker takes its further tasks from p.work (a handed-over task runs inside a worker) -/\ndef workerTakesFromWork : Bool := %s\n", c08dBool(takes))

	// eventloop.go: the read callback
	ef, err := parse(el)
	if err != nil {
		return "", err
	}
	rr := findFunc(ef, "eventLoop", "registerRead")
	if rr == nil {
		return "", fmt.Errorf("eventLoop.registerRead not found")
	}
	method, litRec, n := "", false, 0
	ast.Inspect(rr.Body, func(nd ast.Node) bool {
		switch x := nd.(type) {
		case *ast.GoStmt:
			n += 100 // goroutines started here are not what the model describes
		case *ast.CallExpr:
			if s, ok := x.Fun.(*ast.SelectorExpr); ok && exprKey(s.X) == "readPool" {
				n++
				method = s.Sel.Name
				if len(x.Args) == 1 {
					if lit, ok := x.Args[0].(*ast.FuncLit); ok {
						litRec = c08rDeferRecoverFirst(lit.Body)
						if !c08rCallsSel(lit.Body, "onRead") {
							n += 100
						}
					} else {
						n += 100
					}
				}
			} else if ok && s.Sel.Name == "onRead" {
				// must be inside the literal handed to the pool: checked through c08rCallsSel above
			}
		}
		return true
	})
	if n != 1 {
		return "", fmt.Errorf("eventLoop.registerRead: the read turn is not handed to readPool by exactly one call with a function literal running handler.onRead")
	}
	// onRead must not be called outside that literal
	cnt := 0
	ast.Inspect(rr.Body, func(nd ast.Node) bool {
		if c, ok := nd.(*ast.CallExpr); ok {
			if s, ok := c.Fun.(*ast.SelectorExpr); ok && s.Sel.Name == "onRead" {
				cnt++
			}
		}
		return true
	})
	if cnt != 1 {
		return "", fmt.Errorf("eventLoop.registerRead: handler.onRead is called %d times", cnt)
	}
	fmt.Fprintf(&sb, "/-- eventLoop.registerRead: the poller's callback hands the read turn (handler.onRead → filters → Dispatch → Decode) to readPool.<this method> -/\ndef netpollReadVia : String := %q\n", method)
	fmt.Fprintf(&sb, "/-- the function literal handed to the pool recovers by itself -/\ndef netpollTaskRecovers : Bool := %s\n", c08dBool(litRec))

	// connection.go startRWLoop
	cf, err := parse(cn)
	if err != nil {
		return "", err
	}
	rw := findFunc(cf, "connection", "startRWLoop")
	if rw == nil {
		return "", fmt.Errorf("connection.startRWLoop not found")
	}
	var loops []string
	var werr error
	ast.Inspect(rw.Body, func(nd ast.Node) bool {
		switch x := nd.(type) {
		case *ast.GoStmt:
			name, guarded := "?", false
			if lit, ok := x.Call.Fun.(*ast.FuncLit); ok {
				guarded = c08rDeferRecoverFirst(lit.Body)
				name = c08rLoopName(lit.Body)
			} else if s, ok := x.Call.Fun.(*ast.SelectorExpr); ok {
				name = s.Sel.Name
			}
			loops = append(loops, fmt.Sprintf("(%q, %s)", name, c08dBool(guarded)))
			return false
		case *ast.CallExpr:
			if exprKey(x.Fun) == "utils.GoWithRecover" {
				if len(x.Args) != 2 {
					werr = fmt.Errorf("startRWLoop: GoWithRecover arguments")
					return false
				}
				name := "?"
				if lit, ok := x.Args[0].(*ast.FuncLit); ok {
					name = c08rLoopName(lit.Body)
				}
				loops = append(loops, fmt.Sprintf("(%q, true)", name))
				return false
			}
		}
		return true
	})
	if werr != nil {
		return "", werr
	}
	fmt.Fprintf(&sb, "/-- connection.startRWLoop: the goroutines it starts (loop, started with a recover) -/\ndef rwLoops : List (String × Bool) := [%s]\n", strings.Join(loops, ", "))
	sb.WriteString(footer("C08Recover"))
	return sb.String(), nil
}

func c08rCallsSel(n ast.Node, name string) bool {
	found := false
	ast.Inspect(n, func(m ast.Node) bool {
		if c, ok := m.(*ast.CallExpr); ok {
			if s, ok := c.Fun.(*ast.SelectorExpr); ok && s.Sel.Name == name {
				found = true
			}
		}
		return true
	})
	return found
}

// c08rLoopName: the start…Loop method a goroutine body runs
func c08rLoopName(b *ast.BlockStmt) string {
	name := "?"
	ast.Inspect(b, func(m ast.Node) bool {
		if c, ok := m.(*ast.CallExpr); ok {
			if s, ok := c.Fun.(*ast.SelectorExpr); ok && strings.HasPrefix(s.Sel.Name, "start") && strings.HasSuffix(s.Sel.Name, "Loop") {
				name = s.Sel.Name
			}
		}
		return true
	})
	return name
}
