package main

// Gen/C01EncodeEffect.lean (C01, round 7): what the encode functions of the five xprotocol codecs do TO THE FRAME OBJECT
// they encode. The proxy keeps one frame object per downstream request and encodes it once per try (retry on another
// host, mirror), so whatever an encode consumes or overwrites is gone for the next one.
//
// For each of the eight encode functions (bolt / boltv2 encodeRequest + encodeResponse, dubbo / dubbothrift
// encodeFrame, tars encodeRequest + encodeResponse):
//   * the IoBuffer-typed fields of the frame struct (from the struct declaration in the codec's package);
//   * every access to such a field, in source order, separately for the raw-frame block (`if <frame>.rawData != nil`)
//     and for the rest of the function: the method called on it and whether that method leaves the buffer's read
//     cursor alone (`peek`: Bytes, Len, Cap, Count, String, Clone, EOF, Peek) or may move / empty it (`consume`:
//     everything else - WriteTo, Read, ReadOnce, Drain, Cut, Reset, Free, ...). A buffer handed to a function is
//     followed into that function when it is found in the xprotocol codec packages (bolt.CheckEncodeLengths) and
//     counts as consumed otherwise; any other use that is not a nil comparison or the returned value counts as consumed;
//   * every field of the frame the function assigns (`request.ContentLen = ...`), by name.
//
// All helpers carry the prefix c01r7.

import (
	"fmt"
	"go/ast"
	"go/token"
	"os"
	"path/filepath"
	"sort"
	"strings"
)

func init() { register("C01EncodeEffect", c01r7Gen) }

var c01r7Peek = map[string]bool{"Bytes": true, "Len": true, "Cap": true, "Count": true, "String": true, "Clone": true, "EOF": true, "Peek": true}

type c01r7Use struct {
	field, via string
	consume    bool
}

// c01r7PkgFiles parses the non-test Go files of one codec package.
func c01r7PkgFiles(dir string) ([]*ast.File, []string, error) {
	rel := "pkg/protocol/xprotocol/" + dir
	ents, err := os.ReadDir(filepath.Join(repo, rel))
	if err != nil {
		return nil, nil, err
	}
	var fs []*ast.File
	var names []string
	for _, e := range ents {
		n := e.Name()
		if e.IsDir() || !strings.HasSuffix(n, ".go") || strings.HasSuffix(n, "_test.go") {
			continue
		}
		f, err := parse(rel + "/" + n)
		if err != nil {
			return nil, nil, err
		}
		fs = append(fs, f)
		names = append(names, rel+"/"+n)
	}
	return fs, names, nil
}

// c01r7BufFields: names of the IoBuffer-typed fields of struct `typ`.
func c01r7BufFields(files []*ast.File, typ string) ([]string, error) {
	for _, f := range files {
		for _, d := range f.Decls {
			gd, ok := d.(*ast.GenDecl)
			if !ok || gd.Tok != token.TYPE {
				continue
			}
			for _, sp := range gd.Specs {
				ts := sp.(*ast.TypeSpec)
				st, ok := ts.Type.(*ast.StructType)
				if !ok || ts.Name.Name != typ {
					continue
				}
				var out []string
				for _, fl := range st.Fields.List {
					isBuf := false
					switch t := fl.Type.(type) {
					case *ast.SelectorExpr:
						isBuf = t.Sel.Name == "IoBuffer"
					case *ast.Ident:
						isBuf = t.Name == "IoBuffer"
					}
					if isBuf {
						for _, n := range fl.Names {
							out = append(out, n.Name)
						}
					}
				}
				return out, nil
			}
		}
	}
	return nil, fmt.Errorf("struct %s not found", typ)
}

// c01r7FindFunc resolves a callee `F` (own package `dir`) or `pkg.F` (a sibling codec package).
func c01r7FindFunc(dir string, fun ast.Expr) *ast.FuncDecl {
	name := ""
	switch x := fun.(type) {
	case *ast.Ident:
		name = x.Name
	case *ast.SelectorExpr:
		id, ok := x.X.(*ast.Ident)
		if !ok {
			return nil
		}
		dir, name = id.Name, x.Sel.Name
	default:
		return nil
	}
	switch dir {
	case "bolt", "boltv2", "dubbo", "dubbothrift", "tars":
	default:
		return nil
	}
	files, _, err := c01r7PkgFiles(dir)
	if err != nil {
		return nil
	}
	for _, f := range files {
		if fd := findFunc(f, "", name); fd != nil {
			return fd
		}
	}
	return nil
}

// c01r7Walk records every use of an expression matching `isBuf` below `root`. `label` names the buffer in the output.
func c01r7Walk(dir string, root ast.Node, isBuf func(ast.Expr) (string, bool), depth int, uses *[]c01r7Use) {
	var stack []ast.Node
	ast.Inspect(root, func(n ast.Node) bool {
		if n == nil {
			stack = stack[:len(stack)-1]
			return true
		}
		stack = append(stack, n)
		e, ok := n.(ast.Expr)
		if !ok {
			return true
		}
		field, ok := isBuf(e)
		if !ok {
			return true
		}
		var parent, grand ast.Node
		if len(stack) >= 2 {
			parent = stack[len(stack)-2]
		}
		if len(stack) >= 3 {
			grand = stack[len(stack)-3]
		}
		switch p := parent.(type) {
		case *ast.SelectorExpr:
			if p.X != e {
				break // the `Sel` identifier of an unrelated selector
			}
			if c, ok := grand.(*ast.CallExpr); ok && c.Fun == ast.Expr(p) {
				*uses = append(*uses, c01r7Use{field, p.Sel.Name, !c01r7Peek[p.Sel.Name]})
			} else {
				*uses = append(*uses, c01r7Use{field, "select:" + p.Sel.Name, true})
			}
		case *ast.BinaryExpr:
			if (p.Op == token.EQL || p.Op == token.NEQ) && (exprKey(p.X) == "nil" || exprKey(p.Y) == "nil") {
				break
			}
			*uses = append(*uses, c01r7Use{field, "binary", true})
		case *ast.ReturnStmt:
			*uses = append(*uses, c01r7Use{field, "return", false})
		case *ast.CallExpr:
			idx := -1
			for i, a := range p.Args {
				if a == e {
					idx = i
				}
			}
			key := exprKey(p.Fun)
			if idx < 0 {
				*uses = append(*uses, c01r7Use{field, "call:" + key, true})
				break
			}
			fd := c01r7FindFunc(dir, p.Fun)
			if fd == nil || depth > 2 {
				*uses = append(*uses, c01r7Use{field, "arg:" + key, true})
				break
			}
			// parameter name at position idx
			var params []string
			for _, fl := range fd.Type.Params.List {
				for _, nm := range fl.Names {
					params = append(params, nm.Name)
				}
			}
			if idx >= len(params) || fd.Body == nil {
				*uses = append(*uses, c01r7Use{field, "arg:" + key, true})
				break
			}
			pn := params[idx]
			cdir := dir
			if s, ok := p.Fun.(*ast.SelectorExpr); ok {
				if id, ok := s.X.(*ast.Ident); ok {
					cdir = id.Name
				}
			}
			var inner []c01r7Use
			c01r7Walk(cdir, fd.Body, func(x ast.Expr) (string, bool) {
				id, ok := x.(*ast.Ident)
				return field, ok && id.Name == pn
			}, depth+1, &inner)
			for _, u := range inner {
				*uses = append(*uses, c01r7Use{field, key + "/" + u.via, u.consume})
			}
		case *ast.AssignStmt:
			onLeft := false
			for _, l := range p.Lhs {
				if l == e {
					onLeft = true
				}
			}
			if !onLeft {
				*uses = append(*uses, c01r7Use{field, "alias", true})
			}
		default:
			*uses = append(*uses, c01r7Use{field, fmt.Sprintf("other:%T", parent), true})
		}
		return true
	})
}

// c01r7Assigned: the frame fields assigned below root (`v.F = ..`, `v.F.G = ..`, `v.F++`), sorted, unique.
func c01r7Assigned(root ast.Node, v string) []string {
	set := map[string]bool{}
	add := func(e ast.Expr) {
		k := exprKey(e)
		if strings.HasPrefix(k, v+".") {
			set[strings.TrimPrefix(k, v+".")] = true
		}
	}
	ast.Inspect(root, func(n ast.Node) bool {
		switch s := n.(type) {
		case *ast.AssignStmt:
			for _, l := range s.Lhs {
				if _, ok := l.(*ast.SelectorExpr); ok {
					add(l)
				}
			}
		case *ast.IncDecStmt:
			if _, ok := s.X.(*ast.SelectorExpr); ok {
				add(s.X)
			}
		}
		return true
	})
	var out []string
	for k := range set {
		out = append(out, k)
	}
	sort.Strings(out)
	return out
}

func c01r7Part(field string) string {
	switch strings.ToLower(field) {
	case "content":
		return ".content"
	case "data":
		return ".data"
	}
	return ".other"
}

func c01r7UsesLean(us []c01r7Use) string {
	var items []string
	for _, u := range us {
		acc := ".peek"
		if u.consume {
			acc = ".consume"
		}
		items = append(items, fmt.Sprintf("{ part := %s, field := %q, via := %q, acc := %s }", c01r7Part(u.field), u.field, u.via, acc))
	}
	return "[" + strings.Join(items, ",\n     ") + "]"
}

func c01r7Strs(l []string) string {
	var q []string
	for _, s := range l {
		q = append(q, fmt.Sprintf("%q", s))
	}
	return "[" + strings.Join(q, ", ") + "]"
}

func c01r7Gen() (string, error) {
	type fn struct{ dir, name, lean string }
	fns := []fn{
		{"bolt", "encodeRequest", "boltRequest"}, {"bolt", "encodeResponse", "boltResponse"},
		{"boltv2", "encodeRequest", "boltv2Request"}, {"boltv2", "encodeResponse", "boltv2Response"},
		{"dubbo", "encodeFrame", "dubboFrame"}, {"dubbothrift", "encodeFrame", "thriftFrame"},
		{"tars", "encodeRequest", "tarsRequest"}, {"tars", "encodeResponse", "tarsResponse"},
	}
	var srcs []string
	for _, d := range []string{"bolt", "boltv2", "dubbo", "dubbothrift", "tars"} {
		srcs = append(srcs, "pkg/protocol/xprotocol/"+d+"/{encoder,command}.go")
	}
	var sb strings.Builder
	sb.WriteString(header("C01EncodeEffect", srcs...))
	sb.WriteString("/-- how an encode function reads an IoBuffer field of the frame: without moving its read cursor, or possibly moving it -/\n" +
		"inductive Acc | peek | consume\n  deriving DecidableEq, Repr\n" +
		"/-- which mutable buffer of the frame object: the body (`Content` / `content`), the raw-frame wrapper (`Data` / `data`), another -/\n" +
		"inductive Part | content | data | other\n  deriving DecidableEq, Repr\n" +
		"structure Use where\n  part : Part\n  field : String\n  via : String\n  acc : Acc\n  deriving DecidableEq, Repr\n" +
		"structure Effect where\n  /-- IoBuffer-typed fields of the frame struct -/\n  bufFields : List String\n  /-- accesses inside `if frame.rawData != nil { … }` -/\n  fast : List Use\n  /-- accesses in the rest of the function -/\n  slow : List Use\n  /-- frame fields assigned inside the raw-frame block -/\n  fastAssigns : List String\n  /-- frame fields assigned in the rest of the function -/\n  slowAssigns : List String\n  deriving DecidableEq, Repr\n")
	var names []string
	for _, f := range fns {
		files, _, err := c01r7PkgFiles(f.dir)
		if err != nil {
			return "", err
		}
		var fd *ast.FuncDecl
		for _, af := range files {
			if x := findFunc(af, "", f.name); x != nil {
				fd = x
			}
		}
		if fd == nil || fd.Body == nil {
			return "", fmt.Errorf("%s.%s not found", f.dir, f.name)
		}
		if len(fd.Type.Params.List) != 2 || len(fd.Type.Params.List[1].Names) != 1 {
			return "", fmt.Errorf("%s.%s: unexpected parameter list", f.dir, f.name)
		}
		v := fd.Type.Params.List[1].Names[0].Name
		pt := fd.Type.Params.List[1].Type
		if s, ok := pt.(*ast.StarExpr); ok {
			pt = s.X
		}
		tid, ok := pt.(*ast.Ident)
		if !ok {
			return "", fmt.Errorf("%s.%s: frame parameter type not a local struct", f.dir, f.name)
		}
		bufs, err := c01r7BufFields(files, tid.Name)
		if err != nil {
			return "", fmt.Errorf("%s: %v", f.dir, err)
		}
		isBufField := map[string]bool{}
		for _, b := range bufs {
			isBufField[b] = true
		}
		isBuf := func(e ast.Expr) (string, bool) {
			s, ok := e.(*ast.SelectorExpr)
			if !ok {
				return "", false
			}
			id, ok := s.X.(*ast.Ident)
			if !ok || id.Name != v || !isBufField[s.Sel.Name] {
				return "", false
			}
			return s.Sel.Name, true
		}
		// the frame variable itself must not escape (passed whole to a helper we do not follow)
		var escErr error
		ast.Inspect(fd.Body, func(n ast.Node) bool {
			if c, ok := n.(*ast.CallExpr); ok {
				for _, a := range c.Args {
					if id, ok := a.(*ast.Ident); ok && id.Name == v {
						escErr = fmt.Errorf("%s.%s: the frame is passed whole to %s", f.dir, f.name, exprKey(c.Fun))
					}
				}
			}
			return true
		})
		if escErr != nil {
			return "", escErr
		}
		var fast, slow []c01r7Use
		var fastAsg, slowAsg []string
		for _, st := range fd.Body.List {
			if is, ok := st.(*ast.IfStmt); ok && is.Init == nil && is.Else == nil {
				if b, ok := is.Cond.(*ast.BinaryExpr); ok && b.Op == token.NEQ && exprKey(b.X) == v+".rawData" && exprKey(b.Y) == "nil" {
					c01r7Walk(f.dir, is.Body, isBuf, 0, &fast)
					fastAsg = append(fastAsg, c01r7Assigned(is.Body, v)...)
					continue
				}
			}
			c01r7Walk(f.dir, st, isBuf, 0, &slow)
			slowAsg = append(slowAsg, c01r7Assigned(st, v)...)
		}
		fmt.Fprintf(&sb, "/-- %s.%s (frame parameter `%s *%s`) -/\ndef %s : Effect :=\n  { bufFields := %s,\n    fast := %s,\n    slow := %s,\n    fastAssigns := %s,\n    slowAssigns := %s }\n",
			f.dir, f.name, v, tid.Name, f.lean, c01r7Strs(bufs), c01r7UsesLean(fast), c01r7UsesLean(slow), c01r7Strs(fastAsg), c01r7Strs(slowAsg))
		names = append(names, f.lean)
	}
	var pairs []string
	for _, n := range names {
		pairs = append(pairs, fmt.Sprintf("(%q, %s)", n, n))
	}
	fmt.Fprintf(&sb, "/-- all encode functions of the five codecs -/\ndef all : List (String × Effect) := [%s]\n", strings.Join(pairs, ", "))
	sb.WriteString(footer("C01EncodeEffect"))
	return sb.String(), nil
}
