-- translation-unsupported TransferLookup: open -out/pkg/network/transfer.go: no such file or directory
namespace MosnVerif.Gen.TransferLookup
end MosnVerif.Gen.TransferLookup
