package main

import (
	"bytes"
	"fmt"
	"go/ast"
	"go/printer"
	"strings"
)

// Gen.H2WriteLock: where the HPACK encoder is used and where header frames are handed to the connection, relative to
// the mutex operations, in the three functions of pkg/module/http2/mhttp2.go that send a header block:
//   MServerConn.writeHeaders              response headers / trailers (mutex sc.mu)
//   MClientConn.WriteHeaders              request headers (mutexes cc.mu, cc.hmu)
//   MClientStream.writeDataAndTrailer     request trailers (mutex cc.conn.hmu)
// Every statement of the body is walked in source order, nested blocks (if / else / for / switch bodies) once each:
//   lock m / unlock m / deferUnlock m     `X.Lock()` / `X.Unlock()` / `defer X.Unlock()` with X ending in `.mu` or `.hmu`
//                                         (m = last selector name)
//   enc                                   a call of encKV(…), encodeHeaders(…), <x>.encodeHeaders(…), <x>.encodeTrailers(…)
//                                         or a method call on the encoder (`enc.…`, `….hpackEncoder.…`, `….henc.…`)
//   wr                                    a call of <x>.Framer.writeHeaders(…), <x>.Framer.writeContinuation(…) or of
//                                         the client helper <x>.writeHeaders(…) (MClientConn.writeHeaders)
// Rejected (translation-unsupported): any other Lock / Unlock / RLock / RUnlock / TryLock call or one on another
// expression; `defer` of a Lock; a function literal, `go` statement or `defer` (other than `defer X.Unlock()`) that
// contains one of the actions; MClientConn.writeHeaders not consisting of Framer.writeHeaders + Framer.writeContinuation
// calls without mutex operations (the helper is read as one `wr`).
// All helpers are prefixed c02w.

func init() { register("H2WriteLock", c02wGen) }

const c02wSrcFile = "pkg/module/http2/mhttp2.go"

func c02wSrc(n ast.Node) string {
	var b bytes.Buffer
	printer.Fprint(&b, fset, n)
	return strings.Join(strings.Fields(b.String()), " ")
}

var c02wLockNames = map[string]bool{"Lock": true, "Unlock": true, "RLock": true, "RUnlock": true, "TryLock": true, "TryRLock": true, "RLocker": true}

// c02wClassify: "" (not an action), "lock:m", "unlock:m", "enc", "wr:headers", "wr:continuation", "wr:conn".
func c02wClassify(c *ast.CallExpr) (string, error) {
	switch fn := c.Fun.(type) {
	case *ast.Ident:
		if fn.Name == "encKV" || fn.Name == "encodeHeaders" {
			return "enc", nil
		}
	case *ast.SelectorExpr:
		recv := c02wSrc(fn.X)
		name := fn.Sel.Name
		if c02wLockNames[name] {
			m := ""
			switch {
			case strings.HasSuffix(recv, ".mu"):
				m = "mu"
			case strings.HasSuffix(recv, ".hmu"):
				m = "hmu"
			}
			if m == "" || (name != "Lock" && name != "Unlock") || len(c.Args) != 0 {
				return "", fmt.Errorf("unrecognised mutex operation %s.%s at %s", recv, name, fset.Position(c.Pos()))
			}
			if name == "Lock" {
				return "lock:" + m, nil
			}
			return "unlock:" + m, nil
		}
		if name == "encodeHeaders" || name == "encodeTrailers" {
			return "enc", nil
		}
		if id, ok := fn.X.(*ast.Ident); ok && id.Name == "enc" {
			return "enc", nil
		}
		if strings.Contains(recv, "hpackEncoder") || strings.HasSuffix(recv, ".henc") || recv == "henc" {
			return "enc", nil
		}
		isFramer := recv == "Framer" || strings.HasSuffix(recv, ".Framer")
		switch {
		case name == "writeHeaders" && isFramer:
			return "wr:headers", nil
		case name == "writeContinuation" && isFramer:
			return "wr:continuation", nil
		case name == "writeHeaders":
			return "wr:conn", nil
		case name == "writeContinuation":
			return "", fmt.Errorf("writeContinuation on %s (not a Framer) at %s", recv, fset.Position(c.Pos()))
		}
	}
	return "", nil
}

// c02wHasAction reports whether the subtree contains any action (or something that cannot be classified).
func c02wHasAction(n ast.Node) bool {
	found := false
	ast.Inspect(n, func(m ast.Node) bool {
		if c, ok := m.(*ast.CallExpr); ok {
			if a, err := c02wClassify(c); a != "" || err != nil {
				found = true
			}
		}
		return !found
	})
	return found
}

// c02wActs lists the actions of a function body in source order.
func c02wActs(fd *ast.FuncDecl) ([]string, error) {
	var acts []string
	var err error
	fail := func(e error) {
		if err == nil {
			err = e
		}
	}
	ast.Inspect(fd.Body, func(n ast.Node) bool {
		if err != nil {
			return false
		}
		switch x := n.(type) {
		case *ast.DeferStmt:
			a, e := c02wClassify(x.Call)
			switch {
			case e != nil:
				fail(e)
			case strings.HasPrefix(a, "unlock:"):
				acts = append(acts, "deferUnlock:"+strings.TrimPrefix(a, "unlock:"))
				for _, arg := range x.Call.Args {
					if c02wHasAction(arg) {
						fail(fmt.Errorf("action inside the arguments of a deferred call at %s", fset.Position(x.Pos())))
					}
				}
			case a != "" || c02wHasAction(x.Call):
				fail(fmt.Errorf("defer of %s contains an encode / write / mutex action at %s", c02wSrc(x.Call.Fun), fset.Position(x.Pos())))
			}
			return false
		case *ast.GoStmt:
			if c02wHasAction(x.Call) {
				fail(fmt.Errorf("go statement contains an encode / write / mutex action at %s", fset.Position(x.Pos())))
			}
			return false
		case *ast.FuncLit:
			if c02wHasAction(x.Body) {
				fail(fmt.Errorf("function literal contains an encode / write / mutex action at %s", fset.Position(x.Pos())))
			}
			return false
		case *ast.SelectStmt:
			if c02wHasAction(x) {
				fail(fmt.Errorf("select statement contains an encode / write / mutex action at %s", fset.Position(x.Pos())))
			}
			return false
		case *ast.CallExpr:
			a, e := c02wClassify(x)
			if e != nil {
				fail(e)
				return false
			}
			if a != "" {
				acts = append(acts, a)
			}
		}
		return true
	})
	return acts, err
}

func c02wLean(a string) string {
	switch {
	case strings.HasPrefix(a, "lock:"):
		return `.lock "` + strings.TrimPrefix(a, "lock:") + `"`
	case strings.HasPrefix(a, "unlock:"):
		return `.unlock "` + strings.TrimPrefix(a, "unlock:") + `"`
	case strings.HasPrefix(a, "deferUnlock:"):
		return `.deferUnlock "` + strings.TrimPrefix(a, "deferUnlock:") + `"`
	case a == "enc":
		return ".enc"
	}
	return ".wr"
}

func c02wGen() (string, error) {
	f, err := parse(c02wSrcFile)
	if err != nil {
		return "", err
	}
	// the client helper must be a plain loop over Framer.writeHeaders / Framer.writeContinuation
	helper := findFunc(f, "MClientConn", "writeHeaders")
	if helper == nil || helper.Body == nil {
		return "", fmt.Errorf("MClientConn.writeHeaders not found in %s", c02wSrcFile)
	}
	hacts, err := c02wActs(helper)
	if err != nil {
		return "", fmt.Errorf("MClientConn.writeHeaders: %v", err)
	}
	nh, nc := 0, 0
	for _, a := range hacts {
		switch a {
		case "wr:headers":
			nh++
		case "wr:continuation":
			nc++
		default:
			return "", fmt.Errorf("MClientConn.writeHeaders contains %s (expected only Framer.writeHeaders / Framer.writeContinuation calls)", a)
		}
	}
	if nh == 0 || nc == 0 {
		return "", fmt.Errorf("MClientConn.writeHeaders: %d Framer.writeHeaders and %d Framer.writeContinuation calls (need at least one of each)", nh, nc)
	}
	type fn struct{ lean, recv, name string }
	fns := []fn{
		{"serverWriteHeaders", "MServerConn", "writeHeaders"},
		{"clientWriteHeaders", "MClientConn", "WriteHeaders"},
		{"clientTrailers", "MClientStream", "writeDataAndTrailer"},
	}
	var b strings.Builder
	b.WriteString(header("H2WriteLock", c02wSrcFile))
	b.WriteString("inductive Act | lock (m : String) | unlock (m : String) | deferUnlock (m : String) | enc | wr\n  deriving DecidableEq, Repr\n")
	b.WriteString("structure Fn where\n  name : String\n  acts : List Act\n  deriving DecidableEq, Repr\n")
	var names []string
	for _, x := range fns {
		fd := findFunc(f, x.recv, x.name)
		if fd == nil || fd.Body == nil {
			return "", fmt.Errorf("%s.%s not found in %s", x.recv, x.name, c02wSrcFile)
		}
		acts, err := c02wActs(fd)
		if err != nil {
			return "", fmt.Errorf("%s.%s: %v", x.recv, x.name, err)
		}
		var ls []string
		for _, a := range acts {
			ls = append(ls, c02wLean(a))
		}
		fmt.Fprintf(&b, "def %s : Fn := ⟨\"%s.%s\", [%s]⟩\n", x.lean, x.recv, x.name, strings.Join(ls, ", "))
		names = append(names, x.lean)
	}
	fmt.Fprintf(&b, "def fns : List Fn := [%s]\n", strings.Join(names, ", "))
	b.WriteString(footer("H2WriteLock"))
	return b.String(), nil
}
