package main

import (
	"bytes"
	"fmt"
	"go/ast"
	"go/parser"
	"go/printer"
	"os"
	"path/filepath"
	"sort"
	"strings"
)

// Gen.H2WriteLock: where the HPACK encoder is used and where header frames are handed to the connection, relative to
// the mutex operations, in the three functions of pkg/module/http2/mhttp2.go that send a header block:
//   MServerConn.writeHeaders              response headers / trailers (mutex sc.mu)
//   MClientConn.WriteHeaders              request headers (mutexes cc.mu, cc.hmu)
//   MClientStream.writeDataAndTrailer     request trailers (mutex cc.conn.hmu)
// Every statement of the body is walked in source order, nested blocks (if / else / for / switch bodies) once each:
//   lock m / unlock m / deferUnlock m     `X.Lock()` / `X.Unlock()` / `defer X.Unlock()` with X ending in `.mu` or `.hmu`
//                                         (m = last selector name)
//   enc                                   a call of encKV(…), encodeHeaders(…), <x>.encodeHeaders(…), <x>.encodeTrailers(…)
//                                         or a method call on the encoder (`enc.…`, `….hpackEncoder.…`, `….henc.…`)
//   wr                                    a call of <x>.Framer.writeHeaders(…), <x>.Framer.writeContinuation(…) or of
//                                         the client helper <x>.writeHeaders(…) (MClientConn.writeHeaders)
// Rejected (translation-unsupported): any other Lock / Unlock / RLock / RUnlock / TryLock call or one on another
// expression; `defer` of a Lock; a function literal, `go` statement or `defer` (other than `defer X.Unlock()`) that
// contains one of the actions; MClientConn.writeHeaders not consisting of Framer.writeHeaders + Framer.writeContinuation
// calls without mutex operations (the helper is read as one `wr`).
// The list of functions is not fixed: EVERY function of the package (non-test, non-verif files of pkg/module/http2)
// whose body contains an `enc` or a `wr` action is found again on each run (c02wScan):
//   declared in mhttp2.go  => it is placed on a connection side by its receiver type (M…Server… / MStream: server,
//                             M…Client…: client) and its action list is emitted into serverFns / clientFns; the helper
//                             MClientConn.writeHeaders is the only exception (read as `wr`); a function that cannot be
//                             placed is rejected;
//   declared elsewhere     => its name goes into stockUsers (the x/net code MOSN carries along: serve loop / RoundTrip
//                             paths with their own write scheduler / wmu, not reachable through the M… types); Props/C02
//                             pins that list, so a new encoder user anywhere in the package breaks the tie.
// Mutex expressions are connection level only: `<recv>.mu` / `<recv>.hmu` in a method of a connection type
// (MServerConn, MClientConn), `<recv>.conn.mu` / `<recv>.conn.hmu` / `conn.mu` / `conn.hmu` (after `conn := <recv>.conn`)
// in a method of a stream type; anything else is rejected.
// All helpers are prefixed c02w.

func init() { register("H2WriteLock", c02wGen) }

const c02wSrcFile = "pkg/module/http2/mhttp2.go"

func c02wSrc(n ast.Node) string {
	var b bytes.Buffer
	printer.Fprint(&b, fset, n)
	return strings.Join(strings.Fields(b.String()), " ")
}

var c02wLockNames = map[string]bool{"Lock": true, "Unlock": true, "RLock": true, "RUnlock": true, "TryLock": true, "TryRLock": true, "RLocker": true}

// c02wRecv: the receiver of the function being walked (set by c02wActsOf).
var c02wRecv struct {
	name   string // receiver variable
	isConn bool   // receiver type is a connection type
	conn   bool   // body contains `conn := <recv>.conn`
}

// c02wMutex names the connection-level mutex an expression denotes ("" if none / not recognised).
func c02wMutex(recv string) string {
	r := c02wRecv.name
	if r == "" {
		return ""
	}
	var ok []string
	if c02wRecv.isConn {
		ok = []string{r + "."}
	} else {
		ok = []string{r + ".conn."}
		if c02wRecv.conn {
			ok = append(ok, "conn.")
		}
	}
	for _, pre := range ok {
		switch recv {
		case pre + "mu":
			return "mu"
		case pre + "hmu":
			return "hmu"
		}
	}
	return ""
}

// c02wClassify: "" (not an action), "lock:m", "unlock:m", "enc", "wr:headers", "wr:continuation", "wr:conn".
func c02wClassify(c *ast.CallExpr) (string, error) {
	if fn, ok := c.Fun.(*ast.SelectorExpr); ok {
		recv := c02wSrc(fn.X)
		name := fn.Sel.Name
		if c02wLockNames[name] {
			m := c02wMutex(recv)
			if m == "" || (name != "Lock" && name != "Unlock") || len(c.Args) != 0 {
				return "", fmt.Errorf("unrecognised mutex operation %s.%s at %s", recv, name, fset.Position(c.Pos()))
			}
			if name == "Lock" {
				return "lock:" + m, nil
			}
			return "unlock:" + m, nil
		}
	}
	return c02wEncWr(c)
}

// c02wEncWr: the encode / frame-write part of the classification (no mutex operations; usable on any function).
func c02wEncWr(c *ast.CallExpr) (string, error) {
	switch fn := c.Fun.(type) {
	case *ast.Ident:
		if fn.Name == "encKV" || fn.Name == "encodeHeaders" {
			return "enc", nil
		}
	case *ast.SelectorExpr:
		recv := c02wSrc(fn.X)
		name := fn.Sel.Name
		if name == "writeHeader" && (recv == "cc" || strings.HasSuffix(recv, ".conn") || strings.HasSuffix(recv, ".cc")) {
			return "enc", nil
		}
		if name == "encodeHeaders" || name == "encodeTrailers" || name == "WriteField" || name == "HeaderEncoder" {
			return "enc", nil
		}
		if id, ok := fn.X.(*ast.Ident); ok && id.Name == "enc" {
			return "enc", nil
		}
		if strings.Contains(recv, "hpackEncoder") || strings.HasSuffix(recv, ".henc") || recv == "henc" {
			return "enc", nil
		}
		isFramer := recv == "Framer" || strings.HasSuffix(recv, ".Framer")
		switch {
		case name == "writeHeaders" && isFramer:
			return "wr:headers", nil
		case name == "writeContinuation" && isFramer:
			return "wr:continuation", nil
		case name == "writeHeaders" && len(c.Args) == c02wHelperArity:
			// the client helper MClientConn.writeHeaders(streamID, endStream, maxFrameSize, hdrs); a call with another
			// number of arguments is a call of MServerConn.writeHeaders(w), which is walked as a function of its own
			return "wr:conn", nil
		case name == "writeContinuation":
			return "", fmt.Errorf("writeContinuation on %s (not a Framer) at %s", recv, fset.Position(c.Pos()))
		}
	}
	return "", nil
}

// c02wHasAction reports whether the subtree contains any action (or something that cannot be classified).
func c02wHasAction(n ast.Node) bool {
	found := false
	ast.Inspect(n, func(m ast.Node) bool {
		if c, ok := m.(*ast.CallExpr); ok {
			if a, err := c02wClassify(c); a != "" || err != nil {
				found = true
			}
		}
		return !found
	})
	return found
}

// c02wActs lists the actions of a function body in source order.
func c02wActs(fd *ast.FuncDecl) ([]string, error) {
	var acts []string
	var err error
	fail := func(e error) {
		if err == nil {
			err = e
		}
	}
	ast.Inspect(fd.Body, func(n ast.Node) bool {
		if err != nil {
			return false
		}
		switch x := n.(type) {
		case *ast.DeferStmt:
			a, e := c02wClassify(x.Call)
			switch {
			case e != nil:
				fail(e)
			case strings.HasPrefix(a, "unlock:"):
				acts = append(acts, "deferUnlock:"+strings.TrimPrefix(a, "unlock:"))
				for _, arg := range x.Call.Args {
					if c02wHasAction(arg) {
						fail(fmt.Errorf("action inside the arguments of a deferred call at %s", fset.Position(x.Pos())))
					}
				}
			case a != "" || c02wHasAction(x.Call):
				fail(fmt.Errorf("defer of %s contains an encode / write / mutex action at %s", c02wSrc(x.Call.Fun), fset.Position(x.Pos())))
			}
			return false
		case *ast.GoStmt:
			if c02wHasAction(x.Call) {
				fail(fmt.Errorf("go statement contains an encode / write / mutex action at %s", fset.Position(x.Pos())))
			}
			return false
		case *ast.FuncLit:
			if c02wHasAction(x.Body) {
				fail(fmt.Errorf("function literal contains an encode / write / mutex action at %s", fset.Position(x.Pos())))
			}
			return false
		case *ast.SelectStmt:
			if c02wHasAction(x) {
				fail(fmt.Errorf("select statement contains an encode / write / mutex action at %s", fset.Position(x.Pos())))
			}
			return false
		case *ast.CallExpr:
			a, e := c02wClassify(x)
			if e != nil {
				fail(e)
				return false
			}
			if a != "" {
				acts = append(acts, a)
			}
		}
		return true
	})
	return acts, err
}

func c02wLean(a string) string {
	switch {
	case strings.HasPrefix(a, "lock:"):
		return `.lock "` + strings.TrimPrefix(a, "lock:") + `"`
	case strings.HasPrefix(a, "unlock:"):
		return `.unlock "` + strings.TrimPrefix(a, "unlock:") + `"`
	case strings.HasPrefix(a, "deferUnlock:"):
		return `.deferUnlock "` + strings.TrimPrefix(a, "deferUnlock:") + `"`
	case a == "enc":
		return ".enc"
	}
	return ".wr"
}

// c02wHelperArity: number of parameters of MClientConn.writeHeaders (set by c02wGen).
var c02wHelperArity = 4

// c02wUses reports whether the body contains an encode or a header-frame write action (mutex operations ignored).
func c02wUses(n ast.Node) bool {
	found := false
	ast.Inspect(n, func(m ast.Node) bool {
		if c, ok := m.(*ast.CallExpr); ok {
			if a, err := c02wEncWr(c); a != "" || err != nil {
				found = true
			}
		}
		return !found
	})
	return found
}

func c02wRecvType(fd *ast.FuncDecl) (typ, name string) {
	if fd.Recv == nil || len(fd.Recv.List) == 0 {
		return "", ""
	}
	t := fd.Recv.List[0].Type
	if s, ok := t.(*ast.StarExpr); ok {
		t = s.X
	}
	if id, ok := t.(*ast.Ident); ok {
		typ = id.Name
	}
	if len(fd.Recv.List[0].Names) > 0 {
		name = fd.Recv.List[0].Names[0].Name
	}
	return
}

func c02wFnName(fd *ast.FuncDecl) string {
	if t, _ := c02wRecvType(fd); t != "" {
		return t + "." + fd.Name.Name
	}
	return fd.Name.Name
}

// c02wActsOf: the action list of one function of mhttp2.go, mutexes resolved against its receiver.
func c02wActsOf(fd *ast.FuncDecl) ([]string, error) {
	typ, name := c02wRecvType(fd)
	c02wRecv.name = name
	c02wRecv.isConn = typ == "MServerConn" || typ == "MClientConn"
	c02wRecv.conn = false
	if name != "" {
		ast.Inspect(fd.Body, func(n ast.Node) bool {
			if as, ok := n.(*ast.AssignStmt); ok && len(as.Lhs) == 1 && len(as.Rhs) == 1 {
				if c02wSrc(as.Lhs[0]) == "conn" {
					if c02wSrc(as.Rhs[0]) == name+".conn" && !c02wRecv.conn {
						c02wRecv.conn = true
					} else {
						c02wRecv.name = "" // conn assigned something else / twice: no mutex expression is recognised
					}
				}
			}
			return true
		})
	}
	defer func() { c02wRecv.name = "" }()
	return c02wActs(fd)
}

// c02wSide places a receiver type of mhttp2.go on a connection side.
func c02wSide(typ string) string {
	switch {
	case !strings.HasPrefix(typ, "M"):
		return ""
	case strings.Contains(typ, "Server") || typ == "MStream":
		return "server"
	case strings.Contains(typ, "Client"):
		return "client"
	}
	return ""
}

type c02wUser struct {
	name string
	fd   *ast.FuncDecl
}

// c02wScan: every function of the package with an encode or header-frame write action: those of mhttp2.go (with their
// declarations) and the names of the others.
func c02wScan() (mfns []c02wUser, stock []string, err error) {
	dir := filepath.Dir(c02wSrcFile)
	ents, err := os.ReadDir(filepath.Join(repo, dir))
	if err != nil {
		return nil, nil, err
	}
	for _, e := range ents {
		n := e.Name()
		if e.IsDir() || !strings.HasSuffix(n, ".go") || strings.HasSuffix(n, "_test.go") || strings.HasPrefix(n, "verif_") {
			continue
		}
		f, err := parser.ParseFile(fset, filepath.Join(repo, dir, n), nil, 0)
		if err != nil {
			return nil, nil, err
		}
		for _, d := range f.Decls {
			fd, ok := d.(*ast.FuncDecl)
			if !ok || fd.Body == nil || !c02wUses(fd.Body) {
				continue
			}
			if n == filepath.Base(c02wSrcFile) {
				mfns = append(mfns, c02wUser{c02wFnName(fd), fd})
			} else {
				stock = append(stock, c02wFnName(fd))
			}
		}
	}
	sort.Strings(stock)
	return mfns, stock, nil
}

func c02wGen() (string, error) {
	f, err := parse(c02wSrcFile)
	if err != nil {
		return "", err
	}
	// the client helper must be a plain loop over Framer.writeHeaders / Framer.writeContinuation
	helper := findFunc(f, "MClientConn", "writeHeaders")
	if helper == nil || helper.Body == nil {
		return "", fmt.Errorf("MClientConn.writeHeaders not found in %s", c02wSrcFile)
	}
	c02wHelperArity = 0
	for _, p := range helper.Type.Params.List {
		if len(p.Names) == 0 {
			c02wHelperArity++
		}
		c02wHelperArity += len(p.Names)
	}
	if srv := findFunc(f, "MServerConn", "writeHeaders"); srv == nil || srv.Type.Params.NumFields() == c02wHelperArity {
		return "", fmt.Errorf("MServerConn.writeHeaders missing or with as many parameters as the client helper: calls cannot be told apart")
	}
	hacts, err := c02wActsOf(helper)
	if err != nil {
		return "", fmt.Errorf("MClientConn.writeHeaders: %v", err)
	}
	nh, nc := 0, 0
	for _, a := range hacts {
		switch a {
		case "wr:headers":
			nh++
		case "wr:continuation":
			nc++
		default:
			return "", fmt.Errorf("MClientConn.writeHeaders contains %s (expected only Framer.writeHeaders / Framer.writeContinuation calls)", a)
		}
	}
	if nh == 0 || nc == 0 {
		return "", fmt.Errorf("MClientConn.writeHeaders: %d Framer.writeHeaders and %d Framer.writeContinuation calls (need at least one of each)", nh, nc)
	}
	mfns, stock, err := c02wScan()
	if err != nil {
		return "", err
	}
	named := map[string]string{
		"MServerConn.writeHeaders":          "serverWriteHeaders",
		"MClientConn.WriteHeaders":          "clientWriteHeaders",
		"MClientStream.writeDataAndTrailer": "clientTrailers",
	}
	var b strings.Builder
	b.WriteString(header("H2WriteLock", c02wSrcFile, filepath.Dir(c02wSrcFile)+"/*.go"))
	b.WriteString("inductive Act | lock (m : String) | unlock (m : String) | deferUnlock (m : String) | enc | wr\n  deriving DecidableEq, Repr\n")
	b.WriteString("structure Fn where\n  name : String\n  acts : List Act\n  deriving DecidableEq, Repr\n")
	sides := map[string][]string{}
	seen := map[string]bool{}
	for _, u := range mfns {
		if u.name == "MClientConn.writeHeaders" {
			continue
		}
		typ, _ := c02wRecvType(u.fd)
		side := c02wSide(typ)
		if side == "" {
			return "", fmt.Errorf("%s uses the HPACK encoder or writes header frames but cannot be placed on a connection side", u.name)
		}
		if seen[u.name] {
			return "", fmt.Errorf("%s declared twice", u.name)
		}
		seen[u.name] = true
		acts, err := c02wActsOf(u.fd)
		if err != nil {
			return "", fmt.Errorf("%s: %v", u.name, err)
		}
		var ls []string
		for _, a := range acts {
			ls = append(ls, c02wLean(a))
		}
		lit := fmt.Sprintf("⟨\"%s\", [%s]⟩", u.name, strings.Join(ls, ", "))
		if ln, ok := named[u.name]; ok {
			fmt.Fprintf(&b, "def %s : Fn := %s\n", ln, lit)
			lit = ln
		}
		sides[side] = append(sides[side], lit)
	}
	for n := range named {
		if !seen[n] {
			return "", fmt.Errorf("%s not found (or without encode / write action) in %s", n, c02wSrcFile)
		}
	}
	fmt.Fprintf(&b, "def serverFns : List Fn := [%s]\n", strings.Join(sides["server"], ", "))
	fmt.Fprintf(&b, "def clientFns : List Fn := [%s]\n", strings.Join(sides["client"], ", "))
	b.WriteString("def fns : List Fn := serverFns ++ clientFns\n")
	var qs []string
	for _, n := range stock {
		qs = append(qs, fmt.Sprintf("%q", n))
	}
	fmt.Fprintf(&b, "def stockUsers : List String := [%s]\n", strings.Join(qs, ", "))
	b.WriteString(footer("H2WriteLock"))
	return b.String(), nil
}
