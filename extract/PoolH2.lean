-- translation-unsupported PoolH2: open -out/pkg/stream/http2/connpool.go: no such file or directory
namespace MosnVerif.Gen.PoolH2
end MosnVerif.Gen.PoolH2
