package main

import (
	"fmt"
	"go/ast"
	"go/token"
)

// c12mIndexKey renders `conf.M[k]` as ("conf.M", key of k); ok=false for anything else
func c12mIndexKey(e ast.Expr) (string, string, bool) {
	ix, ok := e.(*ast.IndexExpr)
	if !ok {
		return "", "", false
	}
	return exprKey(ix.X), exprKey(ix.Index), true
}

// c12mSetRouter regenerates the MODE TRANSITION of `configmanager.SetRouter(router)` (effectiveconfig.go): the statements in source
// order, each one of: lock handling / tryDump (skipped), `routerName := router.RouterConfigName`,
//   conf.routerConfigPath[name] = router.RouterConfigPath      (possibly guarded by `if router.RouterConfigPath !=/== "" { … }`)
//   router.RouterConfigPath = ""
//   conf.Routers[name] = router
// Emits: under which condition the path is remembered, whether the stored copy has its path cleared (the clear precedes the
// store), whether the router is stored. Anything else (another field copied, another guard, the path remembered after it was
// cleared) is rejected.
func c12mSetRouter(f *ast.File) (string, error) {
	fd := findFunc(f, "", "SetRouter")
	if fd == nil || len(fd.Type.Params.List) != 1 || len(fd.Type.Params.List[0].Names) != 1 || fd.Type.Params.List[0].Names[0].Name != "router" {
		return "", fmt.Errorf("SetRouter(router) not found")
	}
	remember, cleared, clearsStored, stores := "none", false, false, false
	isKey := func(k string) bool { return k == "routerName" || k == "router.RouterConfigName" }
	var pathAssign func(st ast.Stmt) bool
	pathAssign = func(st ast.Stmt) bool {
		a, ok := st.(*ast.AssignStmt)
		if !ok || a.Tok != token.ASSIGN || len(a.Lhs) != 1 || len(a.Rhs) != 1 {
			return false
		}
		m, k, ok := c12mIndexKey(a.Lhs[0])
		return ok && m == "conf.routerConfigPath" && isKey(k) && exprKey(a.Rhs[0]) == "router.RouterConfigPath"
	}
	for _, st := range fd.Body.List {
		bad := func(why string) (string, error) {
			return "", fmt.Errorf("SetRouter: %s at %s", why, fset.Position(st.Pos()))
		}
		if isCallStmt(st, "configLock.Lock", 0) || isCallStmt(st, "tryDump", 0) {
			continue
		}
		if d, ok := st.(*ast.DeferStmt); ok && exprKey(d.Call.Fun) == "configLock.Unlock" {
			continue
		}
		if pathAssign(st) {
			if cleared || remember != "none" {
				return bad("path remembered after it was cleared / remembered twice")
			}
			remember = "some .always"
			continue
		}
		if is, ok := st.(*ast.IfStmt); ok {
			be, isBin := is.Cond.(*ast.BinaryExpr)
			if is.Init != nil || is.Else != nil || !isBin || len(is.Body.List) != 1 || !pathAssign(is.Body.List[0]) ||
				exprKey(be.X) != "router.RouterConfigPath" || exprKey(be.Y) != `""` || cleared || remember != "none" {
				return bad("unsupported if statement")
			}
			switch be.Op {
			case token.NEQ:
				remember = "some .pathNonEmpty"
			case token.EQL:
				remember = "some .pathEmpty"
			default:
				return bad("unsupported comparison")
			}
			continue
		}
		a, ok := st.(*ast.AssignStmt)
		if !ok || len(a.Lhs) != 1 || len(a.Rhs) != 1 {
			return bad("unsupported statement")
		}
		l, r := exprKey(a.Lhs[0]), exprKey(a.Rhs[0])
		switch {
		case a.Tok == token.DEFINE && l == "routerName" && r == "router.RouterConfigName":
		case a.Tok == token.ASSIGN && l == "router.RouterConfigPath" && r == `""`:
			cleared = true
		default:
			m, k, ok := c12mIndexKey(a.Lhs[0])
			if !ok || a.Tok != token.ASSIGN || m != "conf.Routers" || !isKey(k) || r != "router" || stores {
				return bad("unsupported assignment")
			}
			stores = true
			clearsStored = cleared
		}
	}
	s := "/-- the condition guarding a statement of `SetRouter` -/\ninductive RCond where\n  | always | pathNonEmpty | pathEmpty\nderiving DecidableEq, Repr\n\n"
	s += "/-- `SetRouter`: `conf.routerConfigPath[name] = router.RouterConfigPath` is executed under this condition (`none` = there is no such statement). -/\n"
	s += "def setRouter_rememberPath : Option RCond := " + remember + "\n"
	s += "/-- `SetRouter`: `router.RouterConfigPath = \"\"` precedes `conf.Routers[name] = router` (the stored copy has no path). -/\n"
	s += "def setRouter_clearsStoredPath : Bool := " + boolLit(clearsStored) + "\n"
	s += "/-- `SetRouter`: `conf.Routers[name] = router` (every other field, `StaticVirtualHosts` included, is stored as given). -/\n"
	s += "def setRouter_storesRouter : Bool := " + boolLit(stores) + "\n\n"
	return s, nil
}
