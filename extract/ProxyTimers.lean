-- translation-unsupported ProxyTimers: open -out/pkg/proxy/downstream.go: no such file or directory
namespace MosnVerif.Gen.ProxyTimers
end MosnVerif.Gen.ProxyTimers
