-- translation-unsupported C01EncodeEffect: open -out/pkg/protocol/xprotocol/bolt: no such file or directory
namespace MosnVerif.Gen.C01EncodeEffect
end MosnVerif.Gen.C01EncodeEffect
