package main

// Gen/C01H2Map.lean — the DECISIONS of MOSN's HTTP/2 stream layer and of the HTTP/1 <-> HTTP/2 transcoders that the
// forwarding-fidelity model (Model/H2Msg.lean) is built from:
//
//   pkg/stream/http2/stream.go   serverStreamConnection.handleFrame  which request part is stored in which proxy variable,
//                                                                     what is delivered to the proxy (header-only / full),
//                                                                     when the trailer map is filled
//                                clientStreamConnection.handleFrame  the same for responses (+ the status variable)
//                                clientStream.AppendHeaders          the request that is sent: method / host / URL parts from
//                                                                     the variables (symbolically executed into one Lean function)
//                                serverStream.AppendHeaders          the response status for the three header-map kinds
//                                client/serverStream.AppendTrailers  which trailer maps are forwarded
//   pkg/module/http2/transport.go encodeHeaders                      request field names that are not forwarded / rewritten
//   pkg/module/http2/write.go     encodeHeaders                      the Transfer-Encoding rule of responses
//   pkg/module/http2/mhttp2.go    MStream.WriteHeader                the Content-Length of a response (symbolically executed)
//                                 MStream.SendResponse / MClientStream.RoundTrip / writeDataAndTrailer / WriteTrailers
//                                                                     where END_STREAM goes
//   pkg/filter/stream/transcoder/httpconv                            whether the four conversions keep every value of a field
//
// Closed vocabulary: every statement of the translated functions must be of a known shape, every condition a known atom;
// anything else is an error (translation-unsupported) and the theorems that use the module no longer build.

import (
	"fmt"
	"go/ast"
	"go/token"
	"sort"
	"strconv"
	"strings"
)

func init() { register("C01H2Map", c01hGen) }

func c01hKey(e ast.Expr) string {
	switch x := e.(type) {
	case nil:
		return ""
	case *ast.IndexExpr:
		return c01hKey(x.X) + "[" + c01hKey(x.Index) + "]"
	case *ast.ArrayType:
		return "[" + c01hKey(x.Len) + "]" + c01hKey(x.Elt)
	case *ast.SliceExpr:
		return c01hKey(x.X) + "[" + c01hKey(x.Low) + ":" + c01hKey(x.High) + "]"
	case *ast.TypeAssertExpr:
		if x.Type == nil {
			return c01hKey(x.X) + ".(type)"
		}
		return c01hKey(x.X) + ".(" + c01hKey(x.Type) + ")"
	case *ast.BinaryExpr:
		return c01hKey(x.X) + " " + x.Op.String() + " " + c01hKey(x.Y)
	case *ast.ParenExpr:
		return "(" + c01hKey(x.X) + ")"
	case *ast.StarExpr:
		return "*" + c01hKey(x.X)
	case *ast.UnaryExpr:
		return x.Op.String() + c01hKey(x.X)
	case *ast.SelectorExpr:
		return c01hKey(x.X) + "." + x.Sel.Name
	case *ast.CallExpr:
		var a []string
		for _, y := range x.Args {
			a = append(a, c01hKey(y))
		}
		return c01hKey(x.Fun) + "(" + strings.Join(a, ",") + ")"
	case *ast.CompositeLit:
		var a []string
		for _, y := range x.Elts {
			a = append(a, c01hKey(y))
		}
		return c01hKey(x.Type) + "{" + strings.Join(a, ",") + "}"
	case *ast.KeyValueExpr:
		return c01hKey(x.Key) + ":" + c01hKey(x.Value)
	}
	return exprKey(e)
}

// c01hBytes renders a Go string as a Lean `List UInt8` literal
func c01hBytes(s string) string {
	if s == "" {
		return "([] : List UInt8)"
	}
	p := make([]string, len(s))
	for i := 0; i < len(s); i++ {
		p[i] = strconv.Itoa(int(s[i]))
	}
	return "([" + strings.Join(p, ", ") + "] : List UInt8) /- " + strconv.Quote(s) + " -/"
}

func c01hStrList(l []string) string {
	q := make([]string, len(l))
	for i, s := range l {
		q[i] = strconv.Quote(s)
	}
	return "[" + strings.Join(q, ", ") + "]"
}

// ---------------------------------------------------------------------------------------------------------------------
// symbolic execution of a straight-line-with-branches function body over string / bool / nat locals

type c01hState struct {
	v map[string]string // Go lvalue key → Lean expression
}

func (s *c01hState) clone() *c01hState {
	n := &c01hState{v: map[string]string{}}
	for k, x := range s.v {
		n.v[k] = x
	}
	return n
}

type c01hExec struct {
	fn       string
	track    map[string]string            // Go lvalue key → Lean type ("B" | "Bool" | "Nat" | "OptB") of every tracked lvalue
	valAtoms map[string]string            // Go expression key → Lean expression (values)
	condAtom map[string]string            // Go expression key → Lean Bool expression
	getVar   func(name string) (string, string) // types.VarX → (value expr, error-is-nil expr)
	initBind func(e *c01hExec, st *c01hState, init ast.Stmt) error
	ignore   func(key string) bool // statements (by key of the call / lvalue) that have no bearing
	lits     map[string]string     // http.MethodGet …
}

var c01hHTTPConsts = map[string]string{"http.MethodGet": "GET", "http.MethodPost": "POST", "http.MethodHead": "HEAD", "http.MethodPut": "PUT"}

func (e *c01hExec) errf(format string, a ...interface{}) error {
	return fmt.Errorf(e.fn+": "+format, a...)
}

func (e *c01hExec) value(st *c01hState, x ast.Expr, typ string) (string, error) {
	k := c01hKey(x)
	if v, ok := st.v[k]; ok {
		return v, nil
	}
	if v, ok := e.valAtoms[k]; ok {
		return v, nil
	}
	switch y := x.(type) {
	case *ast.ParenExpr:
		return e.value(st, y.X, typ)
	case *ast.BasicLit:
		switch y.Kind {
		case token.STRING:
			s, err := strconv.Unquote(y.Value)
			if err != nil {
				return "", err
			}
			return c01hBytes(s), nil
		case token.INT:
			return y.Value, nil
		}
	case *ast.SelectorExpr:
		if s, ok := c01hHTTPConsts[k]; ok {
			return c01hBytes(s), nil
		}
	case *ast.Ident:
		if y.Name == "true" || y.Name == "false" {
			return y.Name, nil
		}
	case *ast.UnaryExpr:
		if y.Op == token.SUB {
			if b, ok := y.X.(*ast.BasicLit); ok && b.Kind == token.INT {
				return "(-" + b.Value + ")", nil
			}
		}
	}
	return "", e.errf("value %s is outside the vocabulary", k)
}

func (e *c01hExec) cond(st *c01hState, x ast.Expr) (string, error) {
	k := c01hKey(x)
	if v, ok := e.condAtom[k]; ok {
		return v, nil
	}
	switch y := x.(type) {
	case *ast.ParenExpr:
		return e.cond(st, y.X)
	case *ast.Ident:
		if v, ok := st.v[y.Name]; ok && e.track[y.Name] == "Bool" {
			return v, nil
		}
	case *ast.UnaryExpr:
		if y.Op == token.NOT {
			c, err := e.cond(st, y.X)
			if err != nil {
				return "", err
			}
			return "(!" + c + ")", nil
		}
	case *ast.BinaryExpr:
		switch y.Op {
		case token.LAND, token.LOR:
			a, err := e.cond(st, y.X)
			if err != nil {
				return "", err
			}
			b, err := e.cond(st, y.Y)
			if err != nil {
				return "", err
			}
			if y.Op == token.LAND {
				return "(" + a + " && " + b + ")", nil
			}
			return "(" + a + " || " + b + ")", nil
		case token.EQL, token.NEQ, token.GEQ, token.LEQ, token.LSS, token.GTR:
			// err == nil / err != nil on a bound error
			if yk := c01hKey(y.Y); yk == "nil" {
				if v, ok := st.v[c01hKey(y.X)+"==nil"]; ok {
					if y.Op == token.NEQ {
						return "(!" + v + ")", nil
					}
					return v, nil
				}
				return "", e.errf("nil comparison of %s is outside the vocabulary", c01hKey(y.X))
			}
			a, err := e.value(st, y.X, "")
			if err != nil {
				return "", err
			}
			b, err := e.value(st, y.Y, "")
			if err != nil {
				return "", err
			}
			op := map[token.Token]string{token.EQL: "==", token.NEQ: "!=", token.GEQ: "≥", token.LEQ: "≤", token.LSS: "<", token.GTR: ">"}[y.Op]
			if op == "≥" || op == "≤" || op == "<" || op == ">" {
				return "(decide (" + a + " " + op + " " + b + "))", nil
			}
			return "(" + a + " " + op + " " + b + ")", nil
		}
	}
	return "", e.errf("condition %s is outside the vocabulary", k)
}

func (e *c01hExec) merge(c string, a, b *c01hState, into *c01hState) {
	keys := map[string]bool{}
	for k := range a.v {
		keys[k] = true
	}
	for k := range b.v {
		keys[k] = true
	}
	for k := range keys {
		x, okx := a.v[k]
		y, oky := b.v[k]
		switch {
		case okx && oky && x == y:
			into.v[k] = x
		case okx && oky:
			into.v[k] = "(if " + c + " then " + x + " else " + y + ")"
		default: // bound in one branch only (a branch-local binding): dropped
			delete(into.v, k)
		}
	}
}

func (e *c01hExec) assign(st *c01hState, lhs ast.Expr, rhs ast.Expr) error {
	lk := c01hKey(lhs)
	typ, ok := e.track[lk]
	if !ok {
		if e.ignore != nil && e.ignore(lk) {
			return nil
		}
		return e.errf("assignment to %s is outside the vocabulary", lk)
	}
	if typ == "Bool" {
		if id, ok := rhs.(*ast.Ident); ok && (id.Name == "true" || id.Name == "false") {
			st.v[lk] = id.Name
			return nil
		}
		c, err := e.cond(st, rhs)
		if err != nil {
			return err
		}
		st.v[lk] = c
		return nil
	}
	v, err := e.value(st, rhs, typ)
	if err != nil {
		return err
	}
	st.v[lk] = v
	return nil
}

func (e *c01hExec) isLogCond(x ast.Expr) bool {
	return strings.Contains(c01hKey(x), "GetLogLevel()")
}

func (e *c01hExec) block(st *c01hState, stmts []ast.Stmt) error {
	for _, s := range stmts {
		if err := e.stmt(st, s); err != nil {
			return err
		}
	}
	return nil
}

func (e *c01hExec) stmt(st *c01hState, s ast.Stmt) error {
	switch x := s.(type) {
	case *ast.DeclStmt:
		gd, ok := x.Decl.(*ast.GenDecl)
		if !ok || gd.Tok != token.VAR {
			return e.errf("declaration outside the vocabulary")
		}
		for _, sp := range gd.Specs {
			vs := sp.(*ast.ValueSpec)
			for i, n := range vs.Names {
				typ, tracked := e.track[n.Name]
				if !tracked {
					if e.ignore != nil && e.ignore(n.Name) {
						continue
					}
					return e.errf("local %s is outside the vocabulary", n.Name)
				}
				if i < len(vs.Values) {
					if err := e.assign(st, n, vs.Values[i]); err != nil {
						return err
					}
					continue
				}
				switch typ {
				case "B":
					st.v[n.Name] = "([] : List UInt8)"
				case "Bool":
					st.v[n.Name] = "false"
				case "Nat", "Int":
					st.v[n.Name] = "0"
				}
			}
		}
		return nil
	case *ast.AssignStmt:
		// x, err := variable.GetString(ctx, types.VarN)
		if len(x.Rhs) == 1 && len(x.Lhs) == 2 {
			if call, ok := x.Rhs[0].(*ast.CallExpr); ok && c01hKey(call.Fun) == "variable.GetString" && len(call.Args) == 2 {
				val, errNil := e.getVar(c01hKey(call.Args[1]))
				if val == "" {
					return e.errf("variable %s is outside the vocabulary", c01hKey(call.Args[1]))
				}
				if lk := c01hKey(x.Lhs[0]); lk != "_" {
					if _, ok := e.track[lk]; !ok {
						return e.errf("variable value bound to %s, which is outside the vocabulary", lk)
					}
					st.v[lk] = val
				}
				if ek := c01hKey(x.Lhs[1]); ek != "_" {
					st.v[ek+"==nil"] = errNil
				}
				return nil
			}
			if e.initBind != nil {
				if err := e.initBind(e, st, x); err == nil {
					return nil
				}
			}
			return e.errf("two-valued assignment %s is outside the vocabulary", c01hKey(x.Rhs[0]))
		}
		if len(x.Lhs) != len(x.Rhs) {
			return e.errf("assignment shape outside the vocabulary")
		}
		for i := range x.Lhs {
			if err := e.assign(st, x.Lhs[i], x.Rhs[i]); err != nil {
				return err
			}
		}
		return nil
	case *ast.ExprStmt:
		k := c01hKey(x.X)
		if e.ignore != nil && e.ignore(k) {
			return nil
		}
		return e.errf("statement %s is outside the vocabulary", k)
	case *ast.ReturnStmt:
		return nil
	case *ast.IfStmt:
		if e.isLogCond(x.Cond) {
			return nil
		}
		inner := st.clone()
		var bound []string
		if as, ok := x.Init.(*ast.AssignStmt); ok {
			for _, l := range as.Lhs {
				bound = append(bound, c01hKey(l), c01hKey(l)+"==nil")
			}
		}
		if x.Init != nil {
			if e.initBind == nil {
				return e.errf("if with an init statement")
			}
			if err := e.initBind(e, inner, x.Init); err != nil {
				if as, ok := x.Init.(*ast.AssignStmt); ok {
					if err2 := e.stmt(inner, as); err2 != nil {
						return err2
					}
				} else {
					return err
				}
			}
		}
		c, err := e.cond(inner, x.Cond)
		if err != nil {
			return err
		}
		a := inner.clone()
		if err := e.block(a, x.Body.List); err != nil {
			return err
		}
		b := inner.clone()
		switch el := x.Else.(type) {
		case nil:
		case *ast.BlockStmt:
			if err := e.block(b, el.List); err != nil {
				return err
			}
		case *ast.IfStmt:
			if err := e.stmt(b, el); err != nil {
				return err
			}
		}
		// bindings of the init statement are local to the if
		for k := range inner.v {
			if _, ok := st.v[k]; !ok {
				delete(a.v, k)
				delete(b.v, k)
			}
		}
		pre := st.clone()
		e.merge(c, a, b, st)
		for _, k := range bound {
			if v, ok := pre.v[k]; ok {
				st.v[k] = v
			} else {
				delete(st.v, k)
			}
		}
		return nil
	}
	return e.errf("a %T statement is outside the vocabulary", s)
}

// ---------------------------------------------------------------------------------------------------------------------

func c01hFuncBody(rel, recv, name string) (*ast.FuncDecl, error) {
	f, err := parse(rel)
	if err != nil {
		return nil, err
	}
	fd := findFunc(f, recv, name)
	if fd == nil || fd.Body == nil {
		return nil, fmt.Errorf("%s: %s.%s not found", rel, recv, name)
	}
	return fd, nil
}

// clientStream.AppendHeaders
func c01hClientAppendHeaders() (string, error) {
	fd, err := c01hFuncBody("pkg/stream/http2/stream.go", "clientStream", "AppendHeaders")
	if err != nil {
		return "", err
	}
	if len(fd.Type.Params.List) != 3 || len(fd.Type.Params.List[1].Names) != 1 || len(fd.Type.Params.List[2].Names) != 1 {
		return "", fmt.Errorf("clientStream.AppendHeaders(ctx, headers, endStream) expected")
	}
	hdr := fd.Type.Params.List[1].Names[0].Name
	end := fd.Type.Params.List[2].Names[0].Name
	e := &c01hExec{fn: "clientStream.AppendHeaders",
		track: map[string]string{"isReqHeader": "Bool", "scheme": "B", "method": "B", "host": "B", "h": "B", "path": "B", "pathOriginal": "B", "query": "B", "unescaped": "B",
			"req.Method": "B", "req.Host": "B", "req.URL": "B", "req.ContentLength": "Int", "req.Header[\"User-Agent\"]": "Bool",
			"url.Scheme": "B", "url.Host": "B", "url.Path": "B", "url.RawPath": "B", "url.RawQuery": "B", "req.Header": "Bool"},
		valAtoms: map[string]string{"s.conn.RemoteAddr().String()": "remote", "fasthttpPath(pathOriginal)": "(fhPath ((V \"VarPathOriginal\").getD []))"},
		condAtom: map[string]string{end: "endStream", "nil": "true", "mhttp2.EncodeHeader(" + hdr + ")": "true"},
	}
	e.getVar = func(name string) (string, string) {
		if !strings.HasPrefix(name, "types.Var") {
			return "", ""
		}
		n := strings.TrimPrefix(name, "types.")
		return "((V " + strconv.Quote(n) + ").getD [])", "(V " + strconv.Quote(n) + ").isSome"
	}
	e.ignore = func(k string) bool {
		return k == "req" || k == hdr || strings.HasPrefix(k, "s.h2s") || strings.HasPrefix(k, "s.endStream(") || k == "URL" || k == "err" || k == "_"
	}
	e.initBind = func(e *c01hExec, st *c01hState, init ast.Stmt) error {
		as, ok := init.(*ast.AssignStmt)
		if !ok || len(as.Lhs) != 2 || len(as.Rhs) != 1 {
			return fmt.Errorf("init statement outside the vocabulary")
		}
		a, b := c01hKey(as.Lhs[0]), c01hKey(as.Lhs[1])
		switch rk := c01hKey(as.Rhs[0]); rk {
		case "url.PathUnescape(pathOriginal)":
			po, ok := st.v["pathOriginal"]
			if !ok {
				return fmt.Errorf("url.PathUnescape(pathOriginal) before pathOriginal is bound")
			}
			st.v[a] = "((unescape " + po + ").getD [])"
			st.v[b+"==nil"] = "(unescape " + po + ").isSome"
			return nil
		case "s.conn.RawConn().(*mtls.TLSConn)":
			st.v[b] = "tls"
			e.track[b] = "Bool"
			return nil
		case hdr + `.Get("Host")`:
			if a != "_" {
				st.v[a] = "(hdrHost.getD [])"
			}
			st.v[b] = "hdrHost.isSome"
			e.track[b] = "Bool"
			return nil
		case `req.Header["Content-Length"]`:
			st.v[b] = "hasCL"
			e.track[b] = "Bool"
			return nil
		case `req.Header["User-Agent"]`:
			st.v[b] = "hasUA"
			e.track[b] = "Bool"
			return nil
		}
		return fmt.Errorf("init statement %s outside the vocabulary", c01hKey(as.Rhs[0]))
	}
	st := &c01hState{v: map[string]string{"req.Method": "own.1", "req.Host": "own.2.1", "req.URL": "([] : List UInt8)", "req.ContentLength": "0", "isReqHeader": "false",
		"req.Header[\"User-Agent\"]": "false", "req.Header": "false"}}
	// `req.Host` read by the URL literal is the request's own host at that point
	for _, s := range fd.Body.List {
		switch x := s.(type) {
		case *ast.TypeSwitchStmt:
			// switch header := headersIn.(type) { case *mhttp2.ReqHeader: req = header.Req; isReqHeader = true; default: req = new(http.Request) }
			as, ok := x.Assign.(*ast.AssignStmt)
			if !ok || c01hKey(as.Rhs[0]) != hdr+".(type)" {
				return "", e.errf("type switch on something else than the header map")
			}
			seenReq, seenDefault := false, false
			a, b := st.clone(), st.clone()
			for _, cc := range x.Body.List {
				cl := cc.(*ast.CaseClause)
				if len(cl.List) == 0 {
					seenDefault = true
					for _, y := range cl.Body {
						if as, ok := y.(*ast.AssignStmt); ok && c01hKey(as.Lhs[0]) == "req" && c01hKey(as.Rhs[0]) == "new(http.Request)" {
							continue
						}
						return "", e.errf("default case of the header type switch: %T outside the vocabulary", y)
					}
					// a new request: empty method, host, URL
					b.v["req.Method"], b.v["req.Host"] = "([] : List UInt8)", "([] : List UInt8)"
					continue
				}
				if len(cl.List) != 1 || c01hKey(cl.List[0]) != "*mhttp2.ReqHeader" {
					return "", e.errf("header type switch case %s outside the vocabulary", c01hKey(cl.List[0]))
				}
				seenReq = true
				for _, y := range cl.Body {
					as, ok := y.(*ast.AssignStmt)
					if !ok || len(as.Lhs) != 1 {
						return "", e.errf("ReqHeader case: statement outside the vocabulary")
					}
					switch c01hKey(as.Lhs[0]) {
					case "req":
						if c01hKey(as.Rhs[0]) != as.Lhs[0].(*ast.Ident).Name && c01hKey(as.Rhs[0]) != c01hKey(as.Lhs[0]) && !strings.HasSuffix(c01hKey(as.Rhs[0]), ".Req") {
							return "", e.errf("ReqHeader case: req = %s", c01hKey(as.Rhs[0]))
						}
					case "isReqHeader":
						if err := e.assign(a, as.Lhs[0], as.Rhs[0]); err != nil {
							return "", err
						}
					default:
						return "", e.errf("ReqHeader case: assignment to %s", c01hKey(as.Lhs[0]))
					}
				}
			}
			if !seenReq || !seenDefault {
				return "", e.errf("header type switch without ReqHeader / default case")
			}
			e.merge("isReq", a, b, st)
		case *ast.AssignStmt:
			// URL := &url.URL{…}
			if len(x.Lhs) == 1 && c01hKey(x.Lhs[0]) == "URL" {
				u, ok := x.Rhs[0].(*ast.UnaryExpr)
				var cl *ast.CompositeLit
				if ok {
					cl, ok = u.X.(*ast.CompositeLit)
				}
				if !ok || c01hKey(cl.Type) != "url.URL" {
					return "", e.errf("URL is not built from a url.URL literal")
				}
				for _, el := range cl.Elts {
					kv, ok := el.(*ast.KeyValueExpr)
					if !ok {
						return "", e.errf("url.URL literal without field names")
					}
					f := "url." + c01hKey(kv.Key)
					if _, ok := e.track[f]; !ok {
						return "", e.errf("url.URL field %s outside the vocabulary", f)
					}
					v, err := e.value(st, kv.Value, "B")
					if err != nil {
						return "", err
					}
					st.v[f] = v
				}
				continue
			}
			// headersIn = headersIn.Clone()
			if len(x.Lhs) == 1 && c01hKey(x.Lhs[0]) == hdr && c01hKey(x.Rhs[0]) == hdr+".Clone()" {
				continue
			}
			// req.URL = URL inside a branch is handled by valAtoms below; top level falls through
			if err := e.stmt(st, s); err != nil {
				return "", err
			}
		default:
			// `req.URL = URL` needs the literal's fields: resolved lazily through valAtoms
			e.valAtoms["URL"] = "([1] : List UInt8)" // marker: the request's URL is the literal built above
			if err := e.stmt(st, s); err != nil {
				return "", err
			}
		}
	}
	for _, f := range []string{"url.Scheme", "url.Path", "url.RawPath", "url.RawQuery"} {
		if _, ok := st.v[f]; !ok {
			return "", e.errf("url.URL literal without %s", strings.TrimPrefix(f, "url."))
		}
	}
	out := "/-- the request clientStream.AppendHeaders hands to the HTTP/2 client connection. `isReq`: the header map is a\n" +
		"    *mhttp2.ReqHeader (HTTP/2 downstream: `own` = method, host and request URI of that request); `V`: the proxy variables\n" +
		"    (none = GetString fails); `hdrHost`: headers.Get(\"Host\"); `remote`: the upstream address; `tls`: upstream connection is TLS;\n" +
		"    `hasCL` / `hasUA`: the header map that is sent has a Content-Length / User-Agent entry; `unescape` = url.PathUnescape\n" +
		"    (none = error), `fhPath` = fasthttp's path normalisation (black boxes) -/\n" +
		"structure Built where\n  method : List UInt8\n  host : List UInt8\n  /-- the request's URL is the url.URL literal (Path, RawPath, RawQuery below) instead of the downstream request's own -/\n" +
		"  urlFromVars : Bool\n  scheme : List UInt8\n  path : List UInt8\n  rawPath : List UInt8\n  rawQuery : List UInt8\n" +
		"  /-- req.ContentLength = -1 -/\n  unknownLength : Bool\n  /-- a nil User-Agent entry is added -/\n  uaNil : Bool\n  /-- req.Header = EncodeHeader(headers) -/\n  headerFromMap : Bool\n\n"
	out += "def clientAppendHeaders (isReq endStream tls : Bool) (own : List UInt8 × List UInt8 × List UInt8) (V : String → Option (List UInt8))\n" +
		"    (hdrHost : Option (List UInt8)) (remote : List UInt8) (hasCL hasUA : Bool)\n" +
		"    (unescape : List UInt8 → Option (List UInt8)) (fhPath : List UInt8 → List UInt8) : Built :=\n"
	out += "  { method := " + st.v["req.Method"] + ",\n    host := " + st.v["req.Host"] + ",\n    urlFromVars := (" + st.v["req.URL"] + " == [1]),\n" +
		"    scheme := " + st.v["url.Scheme"] + ",\n    path := " + st.v["url.Path"] + ",\n    rawPath := " + st.v["url.RawPath"] + ",\n    rawQuery := " + st.v["url.RawQuery"] + ",\n" +
		"    unknownLength := (" + st.v["req.ContentLength"] + " == (-1 : Int)),\n    uaNil := " + st.v["req.Header[\"User-Agent\"]"] + ",\n    headerFromMap := " + st.v["req.Header"] + " }\n"
	return out, nil
}

// MStream.WriteHeader: the content-length of a response
func c01hWriteHeaderCL() (string, error) {
	fd, err := c01hFuncBody("pkg/module/http2/mhttp2.go", "MStream", "WriteHeader")
	if err != nil {
		return "", err
	}
	e := &c01hExec{fn: "MStream.WriteHeader",
		track: map[string]string{"clen": "B", "ctype": "B", "date": "Bool", "endStream": "Bool", "isHeadResp": "Bool"},
		valAtoms: map[string]string{`rsp.Header.Get("Content-Length")`: "(up.getD [])"},
		condAtom: map[string]string{"time.Now().UTC().Format(http.TimeFormat)": "true", `ms.Request.Method == "HEAD"`: "isHead", "end": "end_", "rsp.StatusCode != http.StatusNotModified": "(status != 304)",
			"bodyAllowedForStatus(rsp.StatusCode)": "(bodyAllowed status)", "dataLen == 0": "dataEmpty", "err == nil && clen64 >= 0": "upValid",
			`ok == ""`: "noDate"},
	}
	e.getVar = func(string) (string, string) { return "", "" }
	e.ignore = func(k string) bool {
		return k == "rsp" || k == "dataLen" || k == "ms.sentContentLen" || k == "ws" || strings.HasPrefix(k, "rsp.Header.Del(") ||
			strings.HasPrefix(k, "ms.conn.closeStream(") || k == "clen64" || k == "err"
	}
	e.initBind = func(e *c01hExec, st *c01hState, init ast.Stmt) error {
		as, ok := init.(*ast.AssignStmt)
		if !ok {
			return fmt.Errorf("init outside the vocabulary")
		}
		if len(as.Lhs) == 1 && c01hKey(as.Lhs[0]) == "clen" && c01hKey(as.Rhs[0]) == `rsp.Header.Get("Content-Length")` {
			st.v["clen"] = "(up.getD [])"
			return nil
		}
		if len(as.Lhs) == 1 && c01hKey(as.Lhs[0]) == "ok" && c01hKey(as.Rhs[0]) == `rsp.Header.Get("Date")` {
			return nil
		}
		if len(as.Lhs) == 2 && c01hKey(as.Rhs[0]) == "strconv.ParseInt(clen,10,64)" {
			return nil
		}
		return fmt.Errorf("init %s outside the vocabulary", c01hKey(as.Rhs[0]))
	}
	st := &c01hState{v: map[string]string{}}
	var ws *ast.CompositeLit
	var dropped []string
	for _, s := range fd.Body.List {
		// dataLen block: `if ms.SendData != nil { dataLen = ms.SendData.Len() }`
		if is, ok := s.(*ast.IfStmt); ok && c01hKey(is.Cond) == "ms.SendData != nil" {
			continue
		}
		if as, ok := s.(*ast.AssignStmt); ok && len(as.Lhs) == 1 && c01hKey(as.Lhs[0]) == "ws" {
			if u, ok := as.Rhs[0].(*ast.UnaryExpr); ok {
				ws, _ = u.X.(*ast.CompositeLit)
			}
			continue
		}
		if rs, ok := s.(*ast.RangeStmt); ok {
			// for _, k := range []string{…} { rsp.Header.Del(k) }
			cl, ok := rs.X.(*ast.CompositeLit)
			if !ok || c01hKey(cl.Type) != "[]string" || len(rs.Body.List) != 1 {
				return "", e.errf("range statement outside the vocabulary")
			}
			es, ok := rs.Body.List[0].(*ast.ExprStmt)
			if !ok || c01hKey(es.X) != "rsp.Header.Del("+c01hKey(rs.Value)+")" {
				return "", e.errf("range body outside the vocabulary")
			}
			for _, el := range cl.Elts {
				b, ok := el.(*ast.BasicLit)
				if !ok {
					return "", e.errf("dropped header name is not a literal")
				}
				n, _ := strconv.Unquote(b.Value)
				dropped = append(dropped, c01hBytes(strings.ToLower(n)))
			}
			continue
		}
		if is, ok := s.(*ast.IfStmt); ok && is.Init != nil && c01hKey(is.Cond) == `clen != ""` {
			// if clen = Get(CL); clen != "" { Del; parse; if err == nil && clen64 >= 0 {sentContentLen = …} else {clen = ""} }
			st.v["clen"] = "(up.getD [])"
			inner := st.clone()
			for _, y := range is.Body.List {
				if iy, ok := y.(*ast.IfStmt); ok {
					if err := e.stmt(inner, iy); err != nil {
						return "", err
					}
					continue
				}
				if as, ok := y.(*ast.AssignStmt); ok && len(as.Lhs) == 2 && c01hKey(as.Rhs[0]) == "strconv.ParseInt(clen,10,64)" {
					continue
				}
				if err := e.stmt(inner, y); err != nil {
					return "", err
				}
			}
			e.merge("((up.getD []) != [])", inner, st.clone(), st)
			continue
		}
		if err := e.stmt(st, s); err != nil {
			return "", err
		}
	}
	if ws == nil {
		return "", e.errf("writeResHeaders literal not found")
	}
	got := map[string]string{}
	for _, el := range ws.Elts {
		kv := el.(*ast.KeyValueExpr)
		got[c01hKey(kv.Key)] = c01hKey(kv.Value)
	}
	if got["contentLength"] != "clen" || got["contentType"] != "ctype" || got["date"] != "date" || got["h"] != "rsp.Header" || got["endStream"] != "endStream" {
		return "", e.errf("writeResHeaders literal: fields outside the vocabulary %v", got)
	}
	for _, k := range []string{"clen", "ctype", "endStream"} {
		if _, ok := st.v[k]; !ok {
			return "", e.errf("%s not determined", k)
		}
	}
	dateE, ok := st.v["date"]
	if !ok {
		dateE = "false"
	}
	out := "/-- MStream.WriteHeader: the fields the HTTP/2 server stream writes besides the response's own header map.\n" +
		"    `up`: Content-Length of the response that is forwarded (deleted from the map and re-written as computed here),\n" +
		"    `upValid`: it parses as a non-negative integer, `dataEmpty`: no payload data, `end_`: no data buffer and no trailer map -/\n" +
		"def respContentLength (isHead : Bool) (status : Nat) (bodyAllowed : Nat → Bool) (dataEmpty upValid : Bool) (up : Option (List UInt8)) : List UInt8 :=\n  " + st.v["clen"] + "\n"
	out += "/-- header fields MStream.WriteHeader deletes from the response before it is written (connection-specific, RFC 7540 8.1.2.2) -/\n"
	out += "def respDropped : List (List UInt8) := [" + strings.Join(dropped, ", ") + "]\n"
	out += "def respContentType : List UInt8 := " + st.v["ctype"] + "\n"
	out += "def respAddsDate (noDate : Bool) : Bool := " + dateE + "\n"
	out += "def respEndOnHeaders (end_ isHead : Bool) : Bool := " + st.v["endStream"] + "\n"
	return out, nil
}

// ---------------------------------------------------------------------------------------------------------------------
// pattern extraction (facts): the handleFrame functions, AppendTrailers, serverStream.AppendHeaders, the encoders

func c01hCallArgs(call *ast.CallExpr) []string {
	var a []string
	for _, x := range call.Args {
		a = append(a, c01hKey(x))
	}
	return a
}

// the OnReceive call directly inside a statement list (not nested)
func c01hOnReceive(l []ast.Stmt) *ast.CallExpr {
	for _, s := range l {
		if es, ok := s.(*ast.ExprStmt); ok {
			if c, ok := es.X.(*ast.CallExpr); ok && strings.HasSuffix(c01hKey(c.Fun), ".receiver.OnReceive") {
				return c
			}
		}
	}
	return nil
}

var c01hSrvSources = map[string]string{"scheme": "scheme", "h2s.Request.Method": "Method", "h2s.Request.Host": "Host", "h2s.Request.URL.Path": "URL.Path",
	"h2s.Request.URL.EscapedPath()": "URL.EscapedPath()", "h2s.Request.URL.RawQuery": "URL.RawQuery", "strconv.Itoa(rsp.StatusCode)": "StatusCode"}

func c01hHandleFrame(recv string, server bool) (string, error) {
	fd, err := c01hFuncBody("pkg/stream/http2/stream.go", recv, "handleFrame")
	if err != nil {
		return "", err
	}
	pfx := "client"
	headCond := "rsp != nil"
	if server {
		pfx, headCond = "server", "h2s != nil"
	}
	errf := func(f string, a ...interface{}) error { return fmt.Errorf(recv+".handleFrame: "+f, a...) }
	var sets []string
	var headOnly, full []string
	trailerGuard, trailerSrc, dataGuard := "", "", ""
	emptyBuf, fullUnderNoStream := false, false
	nTrailerAssign, nOnReceiveFull := 0, 0
	for _, s := range fd.Body.List {
		is, ok := s.(*ast.IfStmt)
		if !ok {
			continue
		}
		switch ck := c01hKey(is.Cond); {
		case ck == headCond:
			for _, y := range is.Body.List {
				switch z := y.(type) {
				case *ast.ExprStmt:
					if c, ok := z.X.(*ast.CallExpr); ok && c01hKey(c.Fun) == "variable.SetString" && len(c.Args) == 3 {
						src, ok := c01hSrvSources[c01hKey(c.Args[2])]
						if !ok {
							return "", errf("variable %s is set from %s, which is outside the vocabulary", c01hKey(c.Args[1]), c01hKey(c.Args[2]))
						}
						sets = append(sets, fmt.Sprintf("(%q, %q, false)", strings.TrimPrefix(c01hKey(c.Args[1]), "types."), src))
					}
				case *ast.IfStmt:
					if strings.Contains(c01hKey(z.Cond), "GetLogLevel()") {
						continue
					}
					// conditional store: if <src> != "" { variable.SetString(ctx, V, <src>) }
					for _, w := range z.Body.List {
						if es, ok := w.(*ast.ExprStmt); ok {
							if c, ok := es.X.(*ast.CallExpr); ok && c01hKey(c.Fun) == "variable.SetString" && len(c.Args) == 3 {
								src, ok := c01hSrvSources[c01hKey(c.Args[2])]
								if !ok || c01hKey(z.Cond) != c01hKey(c.Args[2])+` != ""` || z.Else != nil {
									return "", errf("conditional store of %s under %s is outside the vocabulary", c01hKey(c.Args[1]), c01hKey(z.Cond))
								}
								sets = append(sets, fmt.Sprintf("(%q, %q, true)", strings.TrimPrefix(c01hKey(c.Args[1]), "types."), src))
							}
						}
					}
					if c01hKey(z.Cond) == "endStream" {
						var call *ast.CallExpr
						ast.Inspect(z.Body, func(n ast.Node) bool {
							if c, ok := n.(*ast.CallExpr); ok && strings.HasSuffix(c01hKey(c.Fun), ".receiver.OnReceive") {
								call = c
							}
							return true
						})
						if call == nil {
							return "", errf("header-only delivery not found")
						}
						headOnly = c01hCallArgs(call)
						if _, ok := z.Body.List[len(z.Body.List)-1].(*ast.ReturnStmt); !ok {
							return "", errf("header-only delivery does not return")
						}
					}
				}
			}
			// a store of a variable anywhere deeper than what was walked is outside the vocabulary
			n := 0
			ast.Inspect(is.Body, func(m ast.Node) bool {
				if c, ok := m.(*ast.CallExpr); ok && strings.HasPrefix(c01hKey(c.Fun), "variable.SetString") {
					n++
				}
				return true
			})
			if n != len(sets) {
				return "", errf("%d variable stores, %d understood", n, len(sets))
			}
		case ck == "data != nil":
			dataGuard = ck
			wrote := false
			ast.Inspect(is.Body, func(m ast.Node) bool {
				if c, ok := m.(*ast.CallExpr); ok && c01hKey(c.Fun) == "stream.recData.Write" && len(c.Args) == 1 && c01hKey(c.Args[0]) == "data" {
					wrote = true
				}
				return true
			})
			if !wrote {
				return "", errf("the DATA payload is not appended to stream.recData")
			}
		case ck == "endStream":
			// if stream.xUseStream { … } else [if stream.receiver != nil] { if stream.recData == nil { stream.recData = buffer.GetIoBuffer(0) }; OnReceive(…) }
			var blk *ast.BlockStmt
			if inner, ok := is.Body.List[0].(*ast.IfStmt); ok && strings.HasSuffix(c01hKey(inner.Cond), "UseStream") {
				switch el := inner.Else.(type) {
				case *ast.BlockStmt:
					blk = el
				case *ast.IfStmt:
					if c01hKey(el.Cond) != "stream.receiver != nil" || el.Else != nil {
						return "", errf("full delivery under %s is outside the vocabulary", c01hKey(el.Cond))
					}
					blk = el.Body
				}
				fullUnderNoStream = true
			}
			if blk == nil {
				return "", errf("full delivery block not found")
			}
			call := c01hOnReceive(blk.List)
			if call == nil {
				return "", errf("full delivery not found")
			}
			full = c01hCallArgs(call)
			nOnReceiveFull++
			for _, y := range blk.List {
				if iy, ok := y.(*ast.IfStmt); ok {
					if c01hKey(iy.Cond) == "stream.recData == nil" && len(iy.Body.List) == 1 && iy.Else == nil {
						if as, ok := iy.Body.List[0].(*ast.AssignStmt); ok && c01hKey(as.Lhs[0]) == "stream.recData" && c01hKey(as.Rhs[0]) == "buffer.GetIoBuffer(0)" {
							emptyBuf = true
							continue
						}
					}
					return "", errf("statement under %s before the full delivery is outside the vocabulary", c01hKey(iy.Cond))
				}
			}
		default:
			// if <guard> { stream.trailer.H = <src> }
			for _, y := range is.Body.List {
				if as, ok := y.(*ast.AssignStmt); ok && len(as.Lhs) == 1 && c01hKey(as.Lhs[0]) == "stream.trailer.H" {
					trailerGuard, trailerSrc = ck, c01hKey(as.Rhs[0])
				}
			}
		}
	}
	ast.Inspect(fd.Body, func(m ast.Node) bool {
		if as, ok := m.(*ast.AssignStmt); ok && len(as.Lhs) == 1 && c01hKey(as.Lhs[0]) == "stream.trailer.H" {
			nTrailerAssign++
		}
		return true
	})
	if nTrailerAssign != 1 || trailerGuard == "" {
		return "", errf("the trailer map is assigned %d times (guard %q)", nTrailerAssign, trailerGuard)
	}
	if headOnly == nil || full == nil || dataGuard == "" || !fullUnderNoStream {
		return "", errf("delivery structure not recognised")
	}
	out := fmt.Sprintf("/-- %s.handleFrame: proxy variables stored when the HEADERS frame arrives: (variable, source, only when the source is not empty) -/\n", recv)
	out += "def " + pfx + "VarSets : List (String × String × Bool) := [" + strings.Join(sets, ", ") + "]\n"
	out += "/-- arguments of OnReceive when the HEADERS frame ends the stream / when the stream ends later -/\n"
	out += "def " + pfx + "HeaderOnlyDelivery : List String := " + c01hStrList(headOnly) + "\n"
	out += "def " + pfx + "FullDelivery : List String := " + c01hStrList(full) + "\n"
	out += fmt.Sprintf("/-- `if %s { stream.trailer.H = %s }` -/\n", trailerGuard, trailerSrc)
	out += "def " + pfx + "TrailerGuard : String := " + strconv.Quote(trailerGuard) + "\n"
	out += "def " + pfx + "TrailerSource : String := " + strconv.Quote(trailerSrc) + "\n"
	out += "/-- a stream that ends without DATA is delivered with an empty buffer (not nil) -/\n"
	out += fmt.Sprintf("def %sEmptyBodyBuffer : Bool := %v\n", pfx, emptyBuf)
	return out, nil
}

func c01hAppendTrailers(recv, pfx string) (string, error) {
	fd, err := c01hFuncBody("pkg/stream/http2/stream.go", recv, "AppendTrailers")
	if err != nil {
		return "", err
	}
	errf := func(f string, a ...interface{}) error { return fmt.Errorf(recv+".AppendTrailers: "+f, a...) }
	if len(fd.Type.Params.List) != 2 || len(fd.Type.Params.List[1].Names) != 1 {
		return "", errf("signature")
	}
	tr := fd.Type.Params.List[1].Names[0].Name
	var facts []string
	ended := false
	for _, s := range fd.Body.List {
		switch x := s.(type) {
		case *ast.IfStmt:
			if x.Else != nil || x.Init != nil {
				return "", errf("if/else outside the vocabulary")
			}
			facts = append(facts, "if:"+c01hKey(x.Cond))
			for _, y := range x.Body.List {
				switch z := y.(type) {
				case *ast.IfStmt:
					if !strings.Contains(c01hKey(z.Cond), "GetLogLevel()") {
						return "", errf("nested condition %s", c01hKey(z.Cond))
					}
				case *ast.TypeSwitchStmt:
					as, ok := z.Assign.(*ast.AssignStmt)
					if !ok || c01hKey(as.Rhs[0]) != tr+".(type)" {
						return "", errf("type switch on something else than the trailer map")
					}
					for _, cc := range z.Body.List {
						cl := cc.(*ast.CaseClause)
						name := "default"
						if len(cl.List) == 1 {
							name = c01hKey(cl.List[0])
						} else if len(cl.List) > 1 {
							return "", errf("multi-type case")
						}
						var body []string
						for _, w := range cl.Body {
							as, ok := w.(*ast.AssignStmt)
							if !ok || len(as.Lhs) != 1 {
								return "", errf("case %s: statement outside the vocabulary", name)
							}
							body = append(body, c01hKey(as.Lhs[0])+"="+c01hKey(as.Rhs[0]))
						}
						facts = append(facts, name+":"+strings.Join(body, ";"))
					}
				default:
					return "", errf("statement %T under the guard", y)
				}
			}
		case *ast.ExprStmt:
			if c01hKey(x.X) != "s.endStream()" {
				return "", errf("statement %s", c01hKey(x.X))
			}
			if ended {
				return "", errf("endStream called twice")
			}
			ended = true
			facts = append(facts, "endStream")
		case *ast.ReturnStmt:
		default:
			return "", errf("statement %T", s)
		}
	}
	return fmt.Sprintf("/-- %s.AppendTrailers: guard, the trailer map stored per header-map type, then endStream -/\ndef %sAppendTrailers : List String := %s\n", recv, pfx, c01hStrList(facts)), nil
}

func c01hServerAppendHeaders() (string, error) {
	fd, err := c01hFuncBody("pkg/stream/http2/stream.go", "serverStream", "AppendHeaders")
	if err != nil {
		return "", err
	}
	errf := func(f string, a ...interface{}) error { return fmt.Errorf("serverStream.AppendHeaders: "+f, a...) }
	hdr := fd.Type.Params.List[1].Names[0].Name
	var facts []string
	for _, s := range fd.Body.List {
		switch x := s.(type) {
		case *ast.IfStmt:
			ck := c01hKey(x.Cond)
			if strings.Contains(ck, "GetLogLevel()") || x.Init != nil && strings.Contains(c01hKey(x.Init.(*ast.AssignStmt).Rhs[0]), "VarHttp2ResponseUseStream") {
				continue
			}
			if ck == "endStream" {
				continue
			}
			// status default
			if len(x.Body.List) == 1 {
				if as, ok := x.Body.List[0].(*ast.AssignStmt); ok && c01hKey(as.Lhs[0]) == "status" {
					el, ok := x.Else.(*ast.BlockStmt)
					if !ok || len(el.List) != 1 {
						return "", errf("status: else branch")
					}
					as2, ok := el.List[0].(*ast.AssignStmt)
					if !ok || c01hKey(as2.Lhs[0]) != "status" {
						return "", errf("status: else branch")
					}
					facts = append(facts, "status:"+ck+"?"+c01hKey(as.Rhs[0])+":"+c01hKey(as2.Rhs[0]))
					continue
				}
			}
			return "", errf("condition %s outside the vocabulary", ck)
		case *ast.AssignStmt:
			if len(x.Lhs) == 2 && c01hKey(x.Rhs[0]) == "variable.GetString(ctx,types.VarHeaderStatus)" {
				facts = append(facts, "value,err=VarHeaderStatus")
				continue
			}
			lk := c01hKey(x.Lhs[0])
			if strings.HasPrefix(lk, "s.h2s.") {
				facts = append(facts, lk+"="+c01hKey(x.Rhs[0]))
				continue
			}
			return "", errf("assignment to %s", lk)
		case *ast.TypeSwitchStmt:
			as, ok := x.Assign.(*ast.AssignStmt)
			if !ok || c01hKey(as.Rhs[0]) != hdr+".(type)" {
				return "", errf("type switch on something else than the header map")
			}
			for _, cc := range x.Body.List {
				cl := cc.(*ast.CaseClause)
				name := "default"
				if len(cl.List) == 1 {
					name = c01hKey(cl.List[0])
				}
				var body []string
				for _, w := range cl.Body {
					as, ok := w.(*ast.AssignStmt)
					if !ok || len(as.Lhs) != 1 {
						return "", errf("case %s: statement outside the vocabulary", name)
					}
					body = append(body, c01hKey(as.Lhs[0])+"="+c01hKey(as.Rhs[0]))
				}
				facts = append(facts, name+":"+strings.Join(body, ";"))
			}
		case *ast.DeclStmt, *ast.ReturnStmt:
		default:
			return "", errf("statement %T", s)
		}
	}
	return "/-- serverStream.AppendHeaders: where the status and the header map of the response come from, per header-map type -/\ndef serverAppendHeaders : List String := " + c01hStrList(facts) + "\n", nil
}

// transport.go encodeHeaders: the if / else-if chain over the field name inside enumerateHeaders
func c01hReqEncoder() (string, error) {
	fd, err := c01hFuncBody("pkg/module/http2/transport.go", "ClientConn", "encodeHeaders")
	if err != nil {
		return "", err
	}
	errf := func(f string, a ...interface{}) error { return fmt.Errorf("ClientConn.encodeHeaders: "+f, a...) }
	var loop *ast.RangeStmt
	ast.Inspect(fd.Body, func(n ast.Node) bool {
		if fl, ok := n.(*ast.FuncLit); ok && len(fl.Type.Params.List) == 1 {
			for _, s := range fl.Body.List {
				if r, ok := s.(*ast.RangeStmt); ok && c01hKey(r.X) == "req.Header" {
					loop = r
				}
			}
		}
		return true
	})
	if loop == nil {
		return "", errf("the loop over req.Header in enumerateHeaders was not found")
	}
	k := c01hKey(loop.Key)
	names := func(c ast.Expr) ([]string, error) {
		var l []string
		var walk func(e ast.Expr) error
		walk = func(e ast.Expr) error {
			switch x := e.(type) {
			case *ast.BinaryExpr:
				if x.Op != token.LOR {
					return errf("condition %s", c01hKey(e))
				}
				if err := walk(x.X); err != nil {
					return err
				}
				return walk(x.Y)
			case *ast.CallExpr:
				if c01hKey(x.Fun) == "strings.EqualFold" && len(x.Args) == 2 && c01hKey(x.Args[0]) == k {
					if b, ok := x.Args[1].(*ast.BasicLit); ok {
						s, _ := strconv.Unquote(b.Value)
						l = append(l, strings.ToLower(s))
						return nil
					}
				}
			}
			return errf("condition %s", c01hKey(e))
		}
		return l, walk(c)
	}
	var chain *ast.IfStmt
	var tail []ast.Stmt
	for i, s := range loop.Body.List {
		if is, ok := s.(*ast.IfStmt); ok {
			chain = is
			tail = loop.Body.List[i+1:]
			break
		}
	}
	if chain == nil {
		return "", errf("no condition chain in the loop")
	}
	var skips [][]string
	var ua []string
	uaFirst, uaOmitEmpty := false, false
	for cur := chain; cur != nil; {
		l, err := names(cur.Cond)
		if err != nil {
			return "", err
		}
		onlyContinue := false
		for _, y := range cur.Body.List {
			if b, ok := y.(*ast.BranchStmt); ok && b.Tok == token.CONTINUE {
				onlyContinue = true
			}
		}
		if onlyContinue && len(cur.Body.List) <= 1 {
			skips = append(skips, l)
		} else {
			if len(l) != 1 || l[0] != "user-agent" {
				return "", errf("branch for %v is outside the vocabulary", l)
			}
			ua = l
			for _, y := range cur.Body.List {
				switch z := y.(type) {
				case *ast.AssignStmt:
					if c01hKey(z.Lhs[0]) == "vv" && c01hKey(z.Rhs[0]) == "vv[:1]" {
						uaFirst = true
					}
				case *ast.IfStmt:
					if c01hKey(z.Cond) == `vv[0] == ""` {
						uaOmitEmpty = true
					}
				}
			}
		}
		switch el := cur.Else.(type) {
		case *ast.IfStmt:
			cur = el
		case nil:
			cur = nil
		default:
			return "", errf("else branch outside the vocabulary")
		}
	}
	// after the chain: for _, v := range vv { f(k, v) }
	okTail := false
	for _, s := range tail {
		if r, ok := s.(*ast.RangeStmt); ok && c01hKey(r.X) == "vv" && len(r.Body.List) == 1 {
			if es, ok := r.Body.List[0].(*ast.ExprStmt); ok && c01hKey(es.X) == "f("+k+","+c01hKey(r.Value)+")" {
				okTail = true
			}
		}
	}
	if !okTail {
		return "", errf("the loop writing every value of a field was not found")
	}
	if len(skips) != 2 || ua == nil {
		return "", errf("expected two skip branches and the user-agent branch, got %d / %v", len(skips), ua)
	}
	// slice bounds shown without the colon problem: vv[:1]
	lst := func(l []string) string {
		var p []string
		for _, s := range l {
			p = append(p, c01hBytes(s))
		}
		return "[" + strings.Join(p, ", ") + "]"
	}
	out := "/-- ClientConn.encodeHeaders: request fields that are not written from the header map (written from the request itself / computed) -/\n"
	out += "def reqOwnFields : List (List UInt8) := " + lst(skips[0]) + "\n"
	out += "/-- connection-specific request fields that are not forwarded into HTTP/2 (RFC 7540 8.1.2.2) -/\n"
	out += "def reqConnSpecific : List (List UInt8) := " + lst(skips[1]) + "\n"
	out += fmt.Sprintf("/-- user-agent: only the first value is written / an empty one is omitted -/\ndef reqUAFirstOnly : Bool := %v\ndef reqUAOmitEmpty : Bool := %v\n", uaFirst, uaOmitEmpty)
	// pseudo fields
	var pseudo []string
	ast.Inspect(fd.Body, func(n ast.Node) bool {
		if c, ok := n.(*ast.CallExpr); ok && c01hKey(c.Fun) == "f" && len(c.Args) == 2 {
			if b, ok := c.Args[0].(*ast.BasicLit); ok {
				s, _ := strconv.Unquote(b.Value)
				pseudo = append(pseudo, s+"="+c01hKey(c.Args[1]))
			}
		}
		return true
	})
	out += "/-- literal-named fields written by enumerateHeaders -/\ndef reqWritten : List String := " + c01hStrList(pseudo) + "\n"
	// path := req.URL.RequestURI()
	pathSrc := ""
	ast.Inspect(fd.Body, func(n ast.Node) bool {
		if as, ok := n.(*ast.AssignStmt); ok && len(as.Lhs) == 1 && c01hKey(as.Lhs[0]) == "path" && pathSrc == "" {
			pathSrc = c01hKey(as.Rhs[0])
		}
		return true
	})
	out += "def reqPathSource : String := " + strconv.Quote(pathSrc) + "\n"
	return out, nil
}

func c01hRespEncoder() (string, error) {
	fd, err := c01hFuncBody("pkg/module/http2/write.go", "", "encodeHeaders")
	if err != nil {
		return "", err
	}
	errf := func(f string, a ...interface{}) error { return fmt.Errorf("write.go encodeHeaders: "+f, a...) }
	var conds []string
	teName := ""
	wrote := false
	ast.Inspect(fd.Body, func(n ast.Node) bool {
		switch x := n.(type) {
		case *ast.AssignStmt:
			if len(x.Lhs) == 1 && c01hKey(x.Lhs[0]) == "isTE" {
				if b, ok := x.Rhs[0].(*ast.BinaryExpr); ok && b.Op == token.EQL && c01hKey(b.X) == "k" {
					teName, _ = strconv.Unquote(c01hKey(b.Y))
				}
			}
		case *ast.IfStmt:
			skip := false
			for _, y := range x.Body.List {
				if b, ok := y.(*ast.BranchStmt); ok && b.Tok == token.CONTINUE {
					skip = true
				}
			}
			if skip {
				conds = append(conds, c01hKey(x.Cond))
			}
		case *ast.CallExpr:
			if c01hKey(x.Fun) == "encKV" && len(x.Args) == 3 && c01hKey(x.Args[1]) == "k" && c01hKey(x.Args[2]) == "v" {
				wrote = true
			}
		}
		return true
	})
	if !wrote {
		return "", errf("encKV(enc, k, v) not found")
	}
	sort.Strings(conds)
	want := []string{`!httpguts.ValidHeaderFieldValue(v)`, `!validWireHeaderFieldName(k)`, `isTE && v != "trailers"`}
	if strings.Join(conds, "|") != strings.Join(want, "|") || teName == "" {
		return "", errf("skip conditions %v (isTE = k == %q) are outside the vocabulary", conds, teName)
	}
	out := "/-- write.go encodeHeaders (responses and trailers): every value of every key is written, names lower-cased, except values of\n    this field other than \"trailers\" (and names / values that are not valid on the wire) -/\n"
	out += "def respTEName : List UInt8 := " + c01hBytes(teName) + "\n"
	out += "def respTEKeeps : List UInt8 := " + c01hBytes("trailers") + "\n"
	return out, nil
}

// END_STREAM placement
func c01hEndStream() (string, error) {
	var facts []string
	type q struct{ file, recv, fn, lhs string }
	for _, x := range []q{{"pkg/module/http2/mhttp2.go", "MStream", "SendResponse", "endHeader"}, {"pkg/module/http2/mhttp2.go", "MClientStream", "RoundTrip", "endStream"}} {
		fd, err := c01hFuncBody(x.file, x.recv, x.fn)
		if err != nil {
			return "", err
		}
		var vals []string
		ast.Inspect(fd.Body, func(n ast.Node) bool {
			if as, ok := n.(*ast.AssignStmt); ok && len(as.Lhs) == 1 && c01hKey(as.Lhs[0]) == x.lhs {
				vals = append(vals, c01hKey(as.Rhs[0]))
			}
			return true
		})
		if len(vals) == 0 {
			return "", fmt.Errorf("%s.%s: %s is never assigned", x.recv, x.fn, x.lhs)
		}
		for _, v := range vals {
			if v != vals[0] {
				return "", fmt.Errorf("%s.%s: %s assigned differently (%s / %s)", x.recv, x.fn, x.lhs, vals[0], v)
			}
		}
		facts = append(facts, x.recv+"."+x.fn+":"+x.lhs+"="+vals[0])
	}
	// writeDataAndTrailer: `if cc.Trailer == nil || len(*cc.Trailer) == 0 { writeData(END_STREAM) } else { trailers }`
	fd, err := c01hFuncBody("pkg/module/http2/mhttp2.go", "MClientStream", "writeDataAndTrailer")
	if err != nil {
		return "", err
	}
	found := ""
	for _, s := range fd.Body.List {
		if is, ok := s.(*ast.IfStmt); ok && strings.Contains(c01hKey(is.Cond), "Trailer") {
			endData, encTr := false, false
			ast.Inspect(is.Body, func(n ast.Node) bool {
				if c, ok := n.(*ast.CallExpr); ok && strings.HasSuffix(c01hKey(c.Fun), ".writeData") && len(c.Args) == 3 && c01hKey(c.Args[1]) == "true" {
					endData = true
				}
				return true
			})
			if is.Else != nil {
				ast.Inspect(is.Else, func(n ast.Node) bool {
					if c, ok := n.(*ast.CallExpr); ok && strings.HasSuffix(c01hKey(c.Fun), ".encodeTrailers") {
						encTr = true
					}
					return true
				})
			}
			if !endData || !encTr {
				return "", fmt.Errorf("MClientStream.writeDataAndTrailer: the trailer branch is outside the vocabulary")
			}
			found = c01hKey(is.Cond)
		}
	}
	if found == "" {
		return "", fmt.Errorf("MClientStream.writeDataAndTrailer: trailer decision not found")
	}
	facts = append(facts, "MClientStream.writeDataAndTrailer:dataEnds="+found)
	// WriteTrailers: `if len(trailers) > 0 { writeHeaders(trailers, endStream) } else { writeData(END_STREAM) }`
	fd, err = c01hFuncBody("pkg/module/http2/mhttp2.go", "MStream", "WriteTrailers")
	if err != nil {
		return "", err
	}
	found = ""
	for _, s := range fd.Body.List {
		if is, ok := s.(*ast.IfStmt); ok && is.Else != nil && strings.Contains(c01hKey(is.Cond), "trailers") {
			found = c01hKey(is.Cond)
		}
	}
	if found == "" {
		return "", fmt.Errorf("MStream.WriteTrailers: trailer decision not found")
	}
	facts = append(facts, "MStream.WriteTrailers:trailerFrame="+found)
	return "/-- where END_STREAM goes: conditions under which the HEADERS frame ends the stream, and under which an (empty) DATA frame\n    instead of a trailer block does -/\ndef endStreamFacts : List String := " + c01hStrList(facts) + "\n", nil
}

// transcoders: every value of every field is copied with Add
func c01hTranscoders() (string, error) {
	var rows []string
	for _, x := range [][3]string{{"http_to_http2.go", "httpTohttp2", "TranscodingRequest"}, {"http_to_http2.go", "httpTohttp2", "TranscodingResponse"},
		{"http2_to_http.go", "http2Tohttp", "TranscodingRequest"}, {"http2_to_http.go", "http2Tohttp", "TranscodingResponse"}} {
		fd, err := c01hFuncBody("pkg/filter/stream/transcoder/httpconv/"+x[0], x[1], x[2])
		if err != nil {
			return "", err
		}
		adds, sets, idx := 0, 0, 0
		ast.Inspect(fd.Body, func(n ast.Node) bool {
			switch y := n.(type) {
			case *ast.CallExpr:
				if sel, ok := y.Fun.(*ast.SelectorExpr); ok && c01hKey(sel.X) != "variable" {
					switch sel.Sel.Name {
					case "Add":
						adds++
					case "Set", "SetBytesKV", "SetCanonical":
						sets++
					}
				}
			case *ast.AssignStmt:
				for _, l := range y.Lhs {
					if _, ok := l.(*ast.IndexExpr); ok {
						idx++
					}
				}
			}
			return true
		})
		passT := false
		for _, s := range fd.Body.List {
			if r, ok := s.(*ast.ReturnStmt); ok && len(r.Results) == 4 && c01hKey(r.Results[1]) == "buf" && c01hKey(r.Results[2]) == "trailers" && c01hKey(r.Results[3]) == "nil" {
				passT = true
			}
		}
		rows = append(rows, fmt.Sprintf("(%q, %v, %v)", x[1]+"."+x[2], adds >= 1 && sets == 0 && idx == 0, passT))
	}
	return "/-- the four header conversions of the transcoders: (function, every value of every field is copied with Add, body and trailers are\n    handed on unchanged) -/\ndef transcoders : List (String × Bool × Bool) := [" + strings.Join(rows, ", ") + "]\n", nil
}


// the codec's header maps (mhttp2.go): every value of a received field is appended, in order; cookie crumbs are joined;
// the Trailer announcement is taken out of the header map; trailer fields are appended likewise
func c01hCodecMaps() (string, error) {
	const file = "pkg/module/http2/mhttp2.go"
	rangeBodies := func(recv, fn, over string) ([]string, error) {
		fd, err := c01hFuncBody(file, recv, fn)
		if err != nil {
			return nil, err
		}
		var out []string
		ast.Inspect(fd.Body, func(n ast.Node) bool {
			if r, ok := n.(*ast.RangeStmt); ok && c01hKey(r.X) == over {
				var body []string
				for _, s := range r.Body.List {
					switch x := s.(type) {
					case *ast.ExprStmt:
						body = append(body, c01hKey(x.X))
					case *ast.AssignStmt:
						body = append(body, c01hKey(x.Lhs[0])+x.Tok.String()+c01hKey(x.Rhs[0]))
					case *ast.IfStmt:
						body = append(body, "if:"+c01hKey(x.Cond))
						var walk func(b *ast.BlockStmt, pfx string)
						walk = func(b *ast.BlockStmt, pfx string) {
							for _, y := range b.List {
								if as, ok := y.(*ast.AssignStmt); ok {
									body = append(body, pfx+c01hKey(as.Lhs[0])+as.Tok.String()+c01hKey(as.Rhs[0]))
								}
								if is, ok := y.(*ast.IfStmt); ok {
									walk(is.Body, pfx)
								}
							}
						}
						walk(x.Body, "then:")
						if eb, ok := x.Else.(*ast.BlockStmt); ok {
							walk(eb, "else:")
						}
					default:
						body = append(body, fmt.Sprintf("%T", s))
					}
				}
				out = append(out, strings.Join(body, ";"))
			}
			return true
		})
		return out, nil
	}
	reqLoop, err := rangeBodies("MServerConn", "processRequest", "f.RegularFields()")
	if err != nil {
		return "", err
	}
	respLoop, err := rangeBodies("MClientConn", "handleResponse", "f.RegularFields()")
	if err != nil {
		return "", err
	}
	reqTr, err := rangeBodies("stream", "mprocessTrailerHeaders", "f.RegularFields()")
	if err != nil {
		return "", err
	}
	respTr, err := rangeBodies("MClientConn", "processHeaders", "f.RegularFields()")
	if err != nil {
		return "", err
	}
	// cookie join and Trailer removal in processRequest
	fd, err := c01hFuncBody(file, "MServerConn", "processRequest")
	if err != nil {
		return "", err
	}
	sep, cookieCond, delTrailer := "", "", false
	ast.Inspect(fd.Body, func(n ast.Node) bool {
		switch x := n.(type) {
		case *ast.IfStmt:
			if x.Init != nil && strings.Contains(c01hKey(x.Init.(*ast.AssignStmt).Rhs[0]), `rp.header["Cookie"]`) {
				cookieCond = c01hKey(x.Cond)
				for _, y := range x.Body.List {
					if es, ok := y.(*ast.ExprStmt); ok {
						if c, ok := es.X.(*ast.CallExpr); ok && c01hKey(c.Fun) == "rp.header.Set" && len(c.Args) == 2 && c01hKey(c.Args[0]) == `"Cookie"` {
							if j, ok := c.Args[1].(*ast.CallExpr); ok && c01hKey(j.Fun) == "strings.Join" && len(j.Args) == 2 && c01hKey(j.Args[0]) == "cookies" {
								if b, ok := j.Args[1].(*ast.BasicLit); ok {
									sep, _ = strconv.Unquote(b.Value)
								}
							}
						}
					}
				}
			}
		case *ast.CallExpr:
			if c01hKey(x) == `delete(rp.header,"Trailer")` {
				delTrailer = true
			}
		}
		return true
	})
	if cookieCond != "len(cookies) > 1" || sep == "" {
		return "", fmt.Errorf("MServerConn.processRequest: the cookie join (%q, %q) is outside the vocabulary", cookieCond, sep)
	}
	out := "/-- mhttp2.go: the loops that collect the received regular fields / trailer fields into the http.Header maps (statement keys) -/\n"
	out += "def reqCollect : List String := " + c01hStrList(reqLoop) + "\n"
	out += "def respCollect : List String := " + c01hStrList(respLoop) + "\n"
	out += "def reqTrailerCollect : List String := " + c01hStrList(reqTr) + "\n"
	out += "def respTrailerCollect : List String := " + c01hStrList(respTr) + "\n"
	out += "/-- `if cookies := rp.header[\"Cookie\"]; len(cookies) > 1 { rp.header.Set(\"Cookie\", strings.Join(cookies, <sep>)) }` -/\n"
	out += "def cookieSeparator : List UInt8 := " + c01hBytes(sep) + "\n"
	out += fmt.Sprintf("/-- `delete(rp.header, \"Trailer\")` -/\ndef reqDeletesTrailerField : Bool := %v\n", delTrailer)
	return out, nil
}

func c01hGen() (string, error) {
	s := header("C01H2Map", "pkg/stream/http2/stream.go", "pkg/module/http2/mhttp2.go", "pkg/module/http2/transport.go", "pkg/module/http2/write.go",
		"pkg/filter/stream/transcoder/httpconv")
	for _, g := range []func() (string, error){
		func() (string, error) { return c01hHandleFrame("serverStreamConnection", true) },
		func() (string, error) { return c01hHandleFrame("clientStreamConnection", false) },
		c01hClientAppendHeaders,
		c01hServerAppendHeaders,
		func() (string, error) { return c01hAppendTrailers("clientStream", "client") },
		func() (string, error) { return c01hAppendTrailers("serverStream", "server") },
		c01hReqEncoder, c01hRespEncoder, c01hWriteHeaderCL, c01hEndStream, c01hTranscoders, c01hCodecMaps,
	} {
		part, err := g()
		if err != nil {
			return "", err
		}
		s += part
	}
	return s + footer("C01H2Map"), nil
}
