package main

// C17, construction of the route's retry policy object: regenerated from NewRouteRuleImplBase (pkg/router/base_rule.go) —
// the CONDITION under which `base.policy.retryPolicy` is built and the configuration expression feeding each field of the
// retryPolicyImpl literal — and from pkg/router/types.go the four accessors of retryPolicyImpl (RetryOn, TryTimeout,
// NumRetries, RetryableStatusCodes) statement by statement, including what they answer on the nil policy; checked here:
// policy.RetryPolicy() hands out exactly that field, nothing else in the constructor assigns it.

import (
	"fmt"
	"go/ast"
	"strings"
)

func init() { register("RetryPolicyBuild", genC17r9RetryPolicyBuild) }

const c17r9Cfg = "route.Route.RetryPolicy"

func c17r9CfgNames() map[string]string {
	return map[string]string{
		c17r9Cfg:                   "hasPolicy",
		"nil":                      "false",
		c17r9Cfg + ".RetryOn":      "cfgRetryOn",
		c17r9Cfg + ".RetryTimeout": "cfgRetryTimeout",
		c17r9Cfg + ".NumRetries":   "cfgNumRetries",
		c17r9Cfg + ".StatusCodes":  "cfgStatusCodes",
		"len(" + c17r9Cfg + ".StatusCodes)": "(cfgStatusCodes.length : Int)",
		"time.Millisecond":                  "1000000",
		"time.Second":                       "1000000000",
	}
}

var c17r9Convs = map[string]string{"time.Duration": "", "uint32": "", "int": "", "int64": "", "uint64": ""}

// c17r9IsTarget: an assignment whose left side is the retry policy field of the rule's policy.
func c17r9IsTarget(as *ast.AssignStmt) bool {
	for _, l := range as.Lhs {
		if strings.HasSuffix(exprKey(l), ".retryPolicy") {
			return true
		}
	}
	return false
}

// c17r9Find walks stmts structurally: only `if cond { … }` (no init, no else) may guard the assignment. Returns the guards
// (outermost first) and the assignment.
func c17r9Find(stmts []ast.Stmt, guards []ast.Expr) ([]ast.Expr, *ast.AssignStmt, error) {
	var outG []ast.Expr
	var out *ast.AssignStmt
	for _, st := range stmts {
		switch s := st.(type) {
		case *ast.AssignStmt:
			if c17r9IsTarget(s) {
				if out != nil {
					return nil, nil, fmt.Errorf("retryPolicy assigned more than once")
				}
				out, outG = s, append([]ast.Expr{}, guards...)
			}
		case *ast.IfStmt:
			inner := 0
			ast.Inspect(s, func(n ast.Node) bool {
				if a, ok := n.(*ast.AssignStmt); ok && c17r9IsTarget(a) {
					inner++
				}
				return true
			})
			if inner == 0 {
				continue
			}
			if s.Init != nil || s.Else != nil {
				return nil, nil, fmt.Errorf("retryPolicy assigned under an if with init/else")
			}
			g, a, err := c17r9Find(s.Body.List, append(append([]ast.Expr{}, guards...), s.Cond))
			if err != nil {
				return nil, nil, err
			}
			if a != nil {
				if out != nil {
					return nil, nil, fmt.Errorf("retryPolicy assigned more than once")
				}
				out, outG = a, g
			}
		}
	}
	return outG, out, nil
}

func genC17r9RetryPolicyBuild() (string, error) {
	const src = "pkg/router/base_rule.go"
	f, err := parse(src)
	if err != nil {
		return "", err
	}
	fd := findFunc(f, "", "NewRouteRuleImplBase")
	if fd == nil {
		return "", fmt.Errorf("NewRouteRuleImplBase not found")
	}
	total := 0
	ast.Inspect(fd.Body, func(n ast.Node) bool {
		if a, ok := n.(*ast.AssignStmt); ok && c17r9IsTarget(a) {
			total++
		}
		return true
	})
	guards, as, err := c17r9Find(fd.Body.List, nil)
	if err != nil {
		return "", err
	}
	if as == nil || total != 1 {
		return "", fmt.Errorf("NewRouteRuleImplBase: expected exactly one assignment of the retry policy reachable through plain ifs (found %d)", total)
	}
	if len(as.Lhs) != 1 || len(as.Rhs) != 1 || exprKey(as.Lhs[0]) != "base.policy.retryPolicy" {
		return "", fmt.Errorf("NewRouteRuleImplBase: unexpected retry policy assignment %s", exprKey(as.Lhs[0]))
	}
	// the policy literal of the rule must not pre-set the field
	if pl := c17r6Literal(fd, "policy"); pl != nil {
		for _, e := range pl.Elts {
			if kv, ok := e.(*ast.KeyValueExpr); !ok || exprKey(kv.Key) == "retryPolicy" {
				return "", fmt.Errorf("NewRouteRuleImplBase: policy literal sets retryPolicy")
			}
		}
	}
	u, ok := as.Rhs[0].(*ast.UnaryExpr)
	if !ok || u.Op.String() != "&" {
		return "", fmt.Errorf("retry policy is not built by &retryPolicyImpl{…}")
	}
	lit, ok := u.X.(*ast.CompositeLit)
	if !ok || exprKey(lit.Type) != "retryPolicyImpl" {
		return "", fmt.Errorf("retry policy is not built by &retryPolicyImpl{…}")
	}
	env := &Env{Names: c17r9CfgNames(), Calls: c17r9Convs}
	cond := "true"
	for i, g := range guards {
		c, err := env.expr(g)
		if err != nil {
			return "", fmt.Errorf("construction guard: %v", err)
		}
		if i == 0 {
			cond = c
		} else {
			cond = "(" + cond + " && " + c + ")"
		}
	}
	fields := map[string]string{"retryOn": "false", "retryTimeout": "0", "numRetries": "0", "statusCodes": "([] : List Int)"}
	seen := map[string]bool{}
	for _, e := range lit.Elts {
		kv, ok := e.(*ast.KeyValueExpr)
		if !ok {
			return "", fmt.Errorf("retryPolicyImpl literal is not keyed")
		}
		k := exprKey(kv.Key)
		if _, known := fields[k]; !known || seen[k] {
			return "", fmt.Errorf("retryPolicyImpl literal: unexpected field %s", k)
		}
		seen[k] = true
		v, err := env.expr(kv.Value)
		if err != nil {
			return "", fmt.Errorf("retryPolicyImpl.%s: %v", k, err)
		}
		fields[k] = v
	}

	// the accessors
	tf, err := parse("pkg/router/types.go")
	if err != nil {
		return "", err
	}
	type acc struct{ goName, leanName, typ string }
	accs := []acc{{"RetryOn", "accRetryOn", "Bool"}, {"TryTimeout", "accTryTimeout", "Int"}, {"NumRetries", "accNumRetries", "Int"},
		{"RetryableStatusCodes", "accStatusCodes", "List Int"}}
	var accDefs []string
	for _, a := range accs {
		m := findFunc(tf, "retryPolicyImpl", a.goName)
		if m == nil || m.Recv == nil || len(m.Recv.List) != 1 || len(m.Recv.List[0].Names) != 1 {
			return "", fmt.Errorf("retryPolicyImpl.%s not found", a.goName)
		}
		if _, ptr := m.Recv.List[0].Type.(*ast.StarExpr); !ptr {
			return "", fmt.Errorf("retryPolicyImpl.%s: value receiver (a nil policy would panic)", a.goName)
		}
		rv := m.Recv.List[0].Names[0].Name
		// an empty slice literal is the empty list
		ast.Inspect(m.Body, func(n ast.Node) bool {
			if r, ok := n.(*ast.ReturnStmt); ok {
				for i, e := range r.Results {
					if cl, ok := e.(*ast.CompositeLit); ok && len(cl.Elts) == 0 {
						if _, arr := cl.Type.(*ast.ArrayType); arr {
							r.Results[i] = &ast.Ident{Name: "c17r9EmptyList"}
						}
					}
				}
			}
			return true
		})
		aenv := &Env{
			Names: map[string]string{rv: "built", "nil": "false", rv + ".retryOn": "retryOn", rv + ".retryTimeout": "retryTimeout",
				rv + ".numRetries": "numRetries", rv + ".statusCodes": "statusCodes", "c17r9EmptyList": "([] : List Int)",
				"len(" + rv + ".statusCodes)": "(statusCodes.length : Int)", "time.Millisecond": "1000000", "time.Second": "1000000000"},
			Calls: c17r9Convs,
			Types: map[string]string{},
			Ret:   func(rs []string) string { return strings.Join(rs, ", ") },
			Fall:  "",
		}
		if !endsInReturn(m.Body.List) {
			return "", fmt.Errorf("retryPolicyImpl.%s does not end in return", a.goName)
		}
		body, err := aenv.block(m.Body.List, "  ")
		if err != nil {
			return "", fmt.Errorf("retryPolicyImpl.%s: %v", a.goName, err)
		}
		accDefs = append(accDefs, fmt.Sprintf("/-- `(*retryPolicyImpl).%s`; `built` = the receiver is not nil -/\ndef %s (built retryOn : Bool) (retryTimeout numRetries : Int) (statusCodes : List Int) : %s :=\n  %s\n",
			a.goName, a.leanName, a.typ, body))
	}
	// policy.RetryPolicy() hands out the field
	pm := findFunc(tf, "policy", "RetryPolicy")
	if pm == nil || len(pm.Body.List) != 1 {
		return "", fmt.Errorf("policy.RetryPolicy not found / not a single return")
	}
	if r, ok := pm.Body.List[0].(*ast.ReturnStmt); !ok || len(r.Results) != 1 || exprKey(r.Results[0]) != pm.Recv.List[0].Names[0].Name+".retryPolicy" {
		return "", fmt.Errorf("policy.RetryPolicy does not return the retryPolicy field")
	}
	// RouteRuleImplBase.Policy() hands out the policy the constructor filled
	bm := findFunc(f, "RouteRuleImplBase", "Policy")
	if bm == nil || len(bm.Body.List) != 1 {
		return "", fmt.Errorf("RouteRuleImplBase.Policy not found / not a single return")
	}
	if r, ok := bm.Body.List[0].(*ast.ReturnStmt); !ok || len(r.Results) != 1 || exprKey(r.Results[0]) != bm.Recv.List[0].Names[0].Name+".policy" {
		return "", fmt.Errorf("RouteRuleImplBase.Policy does not return the policy field")
	}

	args := "(hasPolicy cfgRetryOn : Bool) (cfgRetryTimeout cfgNumRetries : Int) (cfgStatusCodes : List Int)"
	s := header("RetryPolicyBuild", src+" (NewRouteRuleImplBase), pkg/router/types.go (retryPolicyImpl accessors, policy.RetryPolicy)")
	s += "set_option linter.unusedVariables false\n"
	s += "/-- the condition under which `NewRouteRuleImplBase` builds the route's retry policy object; `hasPolicy` = (route.Route.RetryPolicy != nil),\n`cfg*` = the fields of the configured retry_policy (durations in ns, uint32 as unbounded Int ≥ 0) -/\n"
	s += "def buildCond " + args + " : Bool :=\n  " + cond + "\n"
	s += "/-- the configuration expression stored in each field of the built `retryPolicyImpl` -/\n"
	s += "def fieldRetryOn " + args + " : Bool :=\n  " + fields["retryOn"] + "\n"
	s += "def fieldRetryTimeout " + args + " : Int :=\n  " + fields["retryTimeout"] + "\n"
	s += "def fieldNumRetries " + args + " : Int :=\n  " + fields["numRetries"] + "\n"
	s += "def fieldStatusCodes " + args + " : List Int :=\n  " + fields["statusCodes"] + "\n"
	s += strings.Join(accDefs, "")
	s += footer("RetryPolicyBuild")
	return s, nil
}
