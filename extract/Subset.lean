-- translation-unsupported Subset: open -out/pkg/upstream/cluster/subset_loadbalancer.go: no such file or directory
namespace MosnVerif.Gen.Subset
end MosnVerif.Gen.Subset
