package main

import (
	"fmt"
	"go/ast"
	"go/token"
	"strings"
)

// Gen/ResourceUpd (property C12, resource thresholds of an updated cluster):
//   - the four Default* thresholds and the shape of NewResourceManager (first threshold of a non-empty list, else the defaults);
//   - updateResourceValue(oldRM, newRM) TRANSLATED: its statements are stores into `orm.<res>.max` (possibly under `if` guards over
//     the `max` fields of both managers) — emitted as a function Maxes -> Maxes -> Maxes;
//   - UpdateClusterResourceManagerHandler as facts: returns early for a nil old cluster / a different cluster type, hands the old
//     manager to the new cluster's info, calls updateResourceValue(old, new) unconditionally after that;
//   - which cluster mutators run the handler first.
func init() { register("ResourceUpd", genC12rsrc) }

var c12rsrcFields = []string{"connections", "pendingRequests", "requests", "retries"}

func c12rsrcField(name string) bool {
	for _, f := range c12rsrcFields {
		if f == name {
			return true
		}
	}
	return false
}


// c12rsrcKey: exprKey extended by binary and index expressions (exprKey prints those as ?type)
func c12rsrcKey(e ast.Expr) string {
	switch x := e.(type) {
	case *ast.ParenExpr:
		return c12rsrcKey(x.X)
	case *ast.BinaryExpr:
		return c12rsrcKey(x.X) + " " + x.Op.String() + " " + c12rsrcKey(x.Y)
	case *ast.IndexExpr:
		return c12rsrcKey(x.X) + "[" + c12rsrcKey(x.Index) + "]"
	case *ast.SelectorExpr:
		return c12rsrcKey(x.X) + "." + x.Sel.Name
	case *ast.CallExpr:
		var a []string
		for _, y := range x.Args {
			a = append(a, c12rsrcKey(y))
		}
		return c12rsrcKey(x.Fun) + "(" + strings.Join(a, ",") + ")"
	}
	return exprKey(e)
}

// c12rsrcVal renders `orm.<f>.max` / `nrm.<f>.max` / an integer literal / `uint64(x)` as a Lean Nat expression.
func c12rsrcVal(e ast.Expr) (string, error) {
	switch x := e.(type) {
	case *ast.ParenExpr:
		return c12rsrcVal(x.X)
	case *ast.BasicLit:
		if x.Kind == token.INT {
			return x.Value, nil
		}
	case *ast.CallExpr:
		if k := exprKey(x.Fun); (k == "uint64" || k == "uint32") && len(x.Args) == 1 {
			return c12rsrcVal(x.Args[0])
		}
	case *ast.SelectorExpr:
		if x.Sel.Name == "max" {
			if in, ok := x.X.(*ast.SelectorExpr); ok && c12rsrcField(in.Sel.Name) {
				if id, ok := in.X.(*ast.Ident); ok && (id.Name == "orm" || id.Name == "nrm") {
					return id.Name + "." + in.Sel.Name, nil
				}
			}
		}
	}
	return "", fmt.Errorf("updateResourceValue: unsupported value %s", exprKey(e))
}

func c12rsrcCond(e ast.Expr) (string, error) {
	switch x := e.(type) {
	case *ast.ParenExpr:
		return c12rsrcCond(x.X)
	case *ast.UnaryExpr:
		if x.Op == token.NOT {
			s, err := c12rsrcCond(x.X)
			return "(!" + s + ")", err
		}
	case *ast.BinaryExpr:
		switch x.Op {
		case token.LAND, token.LOR:
			l, err := c12rsrcCond(x.X)
			if err != nil {
				return "", err
			}
			r, err := c12rsrcCond(x.Y)
			if err != nil {
				return "", err
			}
			op := " && "
			if x.Op == token.LOR {
				op = " || "
			}
			return "(" + l + op + r + ")", nil
		case token.EQL, token.NEQ, token.LSS, token.LEQ, token.GTR, token.GEQ:
			l, err := c12rsrcVal(x.X)
			if err != nil {
				return "", err
			}
			r, err := c12rsrcVal(x.Y)
			if err != nil {
				return "", err
			}
			op := map[token.Token]string{token.EQL: "==", token.NEQ: "!=", token.LSS: "<", token.LEQ: "≤", token.GTR: ">", token.GEQ: "≥"}[x.Op]
			if x.Op == token.EQL || x.Op == token.NEQ {
				return "(" + l + " " + op + " " + r + ")", nil
			}
			return "(decide (" + l + " " + op + " " + r + "))", nil
		}
	}
	return "", fmt.Errorf("updateResourceValue: unsupported condition %s", exprKey(e))
}

// c12rsrcBlock renders a statement list as an expression of type Maxes (the value of `orm` afterwards).
func c12rsrcBlock(stmts []ast.Stmt, ind string) (string, error) {
	var sb strings.Builder
	for _, st := range stmts {
		switch x := st.(type) {
		case *ast.AssignStmt:
			if len(x.Lhs) != 1 || len(x.Rhs) != 1 {
				return "", fmt.Errorf("updateResourceValue: unsupported assignment at %s", fset.Position(st.Pos()))
			}
			if x.Tok == token.DEFINE {
				// nrm := newRM.(*resourcemanager) / orm := oldRM.(*resourcemanager)
				l := exprKey(x.Lhs[0])
				ta, ok := x.Rhs[0].(*ast.TypeAssertExpr)
				if !ok || !((l == "nrm" && exprKey(ta.X) == "newRM") || (l == "orm" && exprKey(ta.X) == "oldRM")) {
					return "", fmt.Errorf("updateResourceValue: unsupported definition at %s", fset.Position(st.Pos()))
				}
				continue
			}
			if x.Tok != token.ASSIGN {
				return "", fmt.Errorf("updateResourceValue: unsupported assignment operator at %s", fset.Position(st.Pos()))
			}
			l, err := c12rsrcVal(x.Lhs[0])
			if err != nil || !strings.HasPrefix(l, "orm.") {
				return "", fmt.Errorf("updateResourceValue: store into something else than orm.<resource>.max at %s", fset.Position(st.Pos()))
			}
			r, err := c12rsrcVal(x.Rhs[0])
			if err != nil {
				return "", err
			}
			sb.WriteString(ind + "let orm := { orm with " + strings.TrimPrefix(l, "orm.") + " := " + r + " }\n")
		case *ast.IfStmt:
			if x.Init != nil {
				return "", fmt.Errorf("updateResourceValue: if with init at %s", fset.Position(st.Pos()))
			}
			c, err := c12rsrcCond(x.Cond)
			if err != nil {
				return "", err
			}
			th, err := c12rsrcBlock(x.Body.List, ind+"    ")
			if err != nil {
				return "", err
			}
			el := ind + "    orm\n"
			switch e := x.Else.(type) {
			case nil:
			case *ast.BlockStmt:
				if el, err = c12rsrcBlock(e.List, ind+"    "); err != nil {
					return "", err
				}
			case *ast.IfStmt:
				if el, err = c12rsrcBlock([]ast.Stmt{e}, ind+"    "); err != nil {
					return "", err
				}
			}
			sb.WriteString(ind + "let orm := (if " + c + " then\n" + th + ind + "  else\n" + el + ind + "  )\n")
		default:
			return "", fmt.Errorf("updateResourceValue: unsupported statement at %s", fset.Position(st.Pos()))
		}
	}
	sb.WriteString(ind + "orm\n")
	return sb.String(), nil
}

func c12rsrcHandler(f *ast.File) (string, error) {
	fd := findFunc(f, "", "UpdateClusterResourceManagerHandler")
	if fd == nil {
		return "", fmt.Errorf("UpdateClusterResourceManagerHandler not found")
	}
	nilGuard, typeGuard, handOver, update := false, false, false, false
	onlyReturn := func(b *ast.BlockStmt) bool {
		if len(b.List) != 1 {
			return false
		}
		r, ok := b.List[0].(*ast.ReturnStmt)
		return ok && len(r.Results) == 0
	}
	for _, st := range fd.Body.List {
		bad := func(why string) (string, error) {
			return "", fmt.Errorf("UpdateClusterResourceManagerHandler: %s at %s", why, fset.Position(st.Pos()))
		}
		switch x := st.(type) {
		case *ast.AssignStmt:
			if x.Tok != token.DEFINE || len(x.Lhs) != 1 || len(x.Rhs) != 1 {
				return bad("unsupported assignment")
			}
			l, r := c12rsrcKey(x.Lhs[0]), c12rsrcKey(x.Rhs[0])
			switch {
			case l == "newSnap" && r == "nc.Snapshot()":
			case l == "oldSnap" && r == "oc.Snapshot()":
			case l == "newResourceManager" && r == "newSnap.ClusterInfo().ResourceManager()":
			case l == "oldResourceManager" && r == "oldSnap.ClusterInfo().ResourceManager()":
			default:
				return bad("unsupported definition " + l + " := " + r)
			}
			if handOver || update {
				return bad("definition after the hand-over")
			}
		case *ast.IfStmt:
			if x.Else != nil {
				return bad("if with else")
			}
			if x.Init == nil {
				c := c12rsrcKey(x.Cond)
				switch {
				case c == "oc == nil" && onlyReturn(x.Body) && !handOver && !update:
					nilGuard = true
				case (c == "newSnap.ClusterInfo().ClusterType() != oldSnap.ClusterInfo().ClusterType()" ||
					c == "oldSnap.ClusterInfo().ClusterType() != newSnap.ClusterInfo().ClusterType()") && onlyReturn(x.Body) && !handOver && !update:
					typeGuard = true
				default:
					return bad("unsupported guard " + c)
				}
				continue
			}
			// if ci, ok := newSnap.ClusterInfo().(*clusterInfo); ok { ci.resourceManager = oldResourceManager }
			in, ok := x.Init.(*ast.AssignStmt)
			if !ok || len(in.Lhs) != 2 || len(in.Rhs) != 1 || c12rsrcKey(in.Lhs[0]) != "ci" || c12rsrcKey(x.Cond) != c12rsrcKey(in.Lhs[1]) || len(x.Body.List) != 1 {
				return bad("unsupported if")
			}
			ta, ok := in.Rhs[0].(*ast.TypeAssertExpr)
			if !ok || c12rsrcKey(ta.X) != "newSnap.ClusterInfo()" {
				return bad("unsupported type assertion")
			}
			a, ok := x.Body.List[0].(*ast.AssignStmt)
			if !ok || a.Tok != token.ASSIGN || len(a.Lhs) != 1 || len(a.Rhs) != 1 || c12rsrcKey(a.Lhs[0]) != "ci.resourceManager" || c12rsrcKey(a.Rhs[0]) != "oldResourceManager" {
				return bad("unsupported hand-over statement")
			}
			handOver = true
		case *ast.ExprStmt:
			c, ok := x.X.(*ast.CallExpr)
			if !ok || c12rsrcKey(c.Fun) != "updateResourceValue" || len(c.Args) != 2 || c12rsrcKey(c.Args[0]) != "oldResourceManager" || c12rsrcKey(c.Args[1]) != "newResourceManager" || update {
				return bad("unsupported call")
			}
			update = true
		default:
			return bad("unsupported statement")
		}
	}
	s := "/-- `UpdateClusterResourceManagerHandler(oc, nc)`: `if oc == nil { return }` comes first. -/\n"
	s += "def handler_nilGuard : Bool := " + boolLit(nilGuard) + "\n"
	s += "/-- … returns without touching anything when the cluster type changed (the new cluster keeps its own fresh manager). -/\n"
	s += "def handler_typeGuard : Bool := " + boolLit(typeGuard) + "\n"
	s += "/-- … `ci.resourceManager = oldResourceManager`: the new cluster's info takes over the old manager (counters survive). -/\n"
	s += "def handler_handsOver : Bool := " + boolLit(handOver) + "\n"
	s += "/-- … `updateResourceValue(oldResourceManager, newResourceManager)` at the top level (unconditional once the guards passed). -/\n"
	s += "def handler_updatesOld : Bool := " + boolLit(update) + "\n\n"
	return s, nil
}

// c12rsrcNewRM checks NewResourceManager: four `maxX := DefaultMaxX`, one `if circuitBreakers.Thresholds != nil && len(…) > 0` whose
// body assigns the four from `Thresholds[0]`, and a composite literal giving each resource its own max.
func c12rsrcNewRM(f *ast.File) error {
	fd := findFunc(f, "", "NewResourceManager")
	if fd == nil {
		return fmt.Errorf("NewResourceManager not found")
	}
	vars := map[string]string{"maxConnections": "MaxConnections", "maxPendingRequests": "MaxPendingRequests", "maxRequests": "MaxRequests", "maxRetries": "MaxRetries"}
	defs, fromFirst, lits := 0, 0, 0
	for _, st := range fd.Body.List {
		switch x := st.(type) {
		case *ast.AssignStmt:
			l := c12rsrcKey(x.Lhs[0])
			if x.Tok != token.DEFINE || len(x.Rhs) != 1 || vars[l] == "" || c12rsrcKey(x.Rhs[0]) != "Default"+vars[l] {
				return fmt.Errorf("NewResourceManager: unsupported definition at %s", fset.Position(st.Pos()))
			}
			defs++
		case *ast.IfStmt:
			c := c12rsrcKey(x.Cond)
			if x.Init != nil || x.Else != nil || (c != "circuitBreakers.Thresholds != nil && len(circuitBreakers.Thresholds) > 0" && c != "len(circuitBreakers.Thresholds) > 0") {
				return fmt.Errorf("NewResourceManager: unsupported condition %s", c)
			}
			for _, b := range x.Body.List {
				a, ok := b.(*ast.AssignStmt)
				if !ok || a.Tok != token.ASSIGN || len(a.Lhs) != 1 || len(a.Rhs) != 1 {
					return fmt.Errorf("NewResourceManager: unsupported statement at %s", fset.Position(b.Pos()))
				}
				l := c12rsrcKey(a.Lhs[0])
				if vars[l] == "" || c12rsrcKey(a.Rhs[0]) != "uint64(circuitBreakers.Thresholds[0]."+vars[l]+")" {
					return fmt.Errorf("NewResourceManager: unsupported assignment at %s", fset.Position(b.Pos()))
				}
				fromFirst++
			}
		case *ast.ReturnStmt:
			want := map[string]string{"connections": "maxConnections", "pendingRequests": "maxPendingRequests", "requests": "maxRequests", "retries": "maxRetries"}
			ast.Inspect(x, func(n ast.Node) bool {
				kv, ok := n.(*ast.KeyValueExpr)
				if !ok {
					return true
				}
				if v, ok := want[c12rsrcKey(kv.Key)]; ok {
					ast.Inspect(kv.Value, func(m ast.Node) bool {
						if in, ok := m.(*ast.KeyValueExpr); ok && c12rsrcKey(in.Key) == "max" && c12rsrcKey(in.Value) == v {
							lits++
						}
						return true
					})
					return false
				}
				return true
			})
		default:
			return fmt.Errorf("NewResourceManager: unsupported statement at %s", fset.Position(st.Pos()))
		}
	}
	if defs != 4 || fromFirst != 4 || lits != 4 {
		return fmt.Errorf("NewResourceManager: unexpected shape (defaults %d, first-threshold assignments %d, max fields %d)", defs, fromFirst, lits)
	}
	return nil
}

func genC12rsrc() (string, error) {
	const dir = "pkg/upstream/cluster"
	rf, err := parse(dir + "/resource_manager.go")
	if err != nil {
		return "", err
	}
	mf, err := parse(dir + "/cluster_manager.go")
	if err != nil {
		return "", err
	}
	s := header("ResourceUpd", dir+"/resource_manager.go", dir+"/cluster_manager.go")
	s += "/-- the `max` fields of a `resourcemanager` (uint64 as `Nat`; only copied and compared) -/\nstructure Maxes where\n"
	for _, f := range c12rsrcFields {
		s += "  " + f + " : Nat\n"
	}
	s += "deriving DecidableEq, Repr, Inhabited\n\n"
	names := []string{"DefaultMaxConnections", "DefaultMaxPendingRequests", "DefaultMaxRequests", "DefaultMaxRetries"}
	var vals []string
	for _, n := range names {
		v, err := intConst(dir, n)
		if err != nil {
			return "", err
		}
		if v < 0 {
			return "", fmt.Errorf("%s is negative", n)
		}
		vals = append(vals, fmt.Sprint(v))
	}
	if err := c12rsrcNewRM(rf); err != nil {
		return "", err
	}
	s += "/-- `NewResourceManager`: the thresholds of a configuration without a threshold entry (Default* constants); with entries the FIRST one\nis taken, field by field (shape checked by the extractor). -/\n"
	s += "def defaultMaxes : Maxes := ⟨" + strings.Join(vals, ", ") + "⟩\n\n"
	fd := findFunc(rf, "", "updateResourceValue")
	if fd == nil || len(fd.Type.Params.List) != 1 || len(fd.Type.Params.List[0].Names) != 2 ||
		fd.Type.Params.List[0].Names[0].Name != "oldRM" || fd.Type.Params.List[0].Names[1].Name != "newRM" {
		return "", fmt.Errorf("updateResourceValue(oldRM, newRM) not found")
	}
	body, err := c12rsrcBlock(fd.Body.List, "  ")
	if err != nil {
		return "", err
	}
	s += "/-- `updateResourceValue(oldRM, newRM)` (resource_manager.go), translated statement by statement: the `max` fields of the OLD\nmanager afterwards (`current` is not touched by any statement — anything but a store into `orm.<resource>.max` is rejected). -/\n"
	s += "def updateResourceValue (orm nrm : Maxes) : Maxes :=\n" + body + "\n"
	h, err := c12rsrcHandler(mf)
	if err != nil {
		return "", err
	}
	s += h
	for _, m := range []string{"AddOrUpdatePrimaryCluster", "AddOrUpdateClusterAndHost"} {
		fd := findFunc(mf, "clusterManager", m)
		if fd == nil {
			return "", fmt.Errorf("%s not found", m)
		}
		// the handler passed to UpdateCluster: its FIRST statement is the resource-manager handler
		first := false
		ast.Inspect(fd.Body, func(n ast.Node) bool {
			if fl, ok := n.(*ast.FuncLit); ok && len(fl.Body.List) > 0 {
				first = first || isCallStmt(fl.Body.List[0], "UpdateClusterResourceManagerHandler", 2)
				return false
			}
			return true
		})
		s += "/-- the update handler of `" + m + "` starts with `UpdateClusterResourceManagerHandler(oc, nc)`. -/\n"
		s += "def " + strings.ToLower(m[:1]) + m[1:] + "_runsResourceHandler : Bool := " + boolLit(first) + "\n"
	}
	return s + footer("ResourceUpd"), nil
}
