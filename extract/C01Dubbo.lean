-- translation-unsupported C01Dubbo: open -out/pkg/protocol/xprotocol/dubbo/decoder.go: no such file or directory
namespace MosnVerif.Gen.C01Dubbo
end MosnVerif.Gen.C01Dubbo
