-- translation-unsupported PoolDestroyMx: open -out/pkg/stream/xprotocol/connpool_multiplex.go: no such file or directory
namespace MosnVerif.Gen.PoolDestroyMx
end MosnVerif.Gen.PoolDestroyMx
