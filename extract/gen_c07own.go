package main

// Gen/FrameOwn.lean (C07): what the decoders READ and what the stream layers HAND ON, as far as it decides whether a
// decoded message can depend on bytes outside its own frame.
//
//  A. xprotocol decoders (bolt, boltv2, dubbo, dubbothrift, tars): every use of the connection read buffer
//     (`data.Bytes()` of the IoBuffer parameter and the variables assigned from it) inside the decode functions, as a
//     list of `BufUse` records: closed slice [lo:hi], index, open slice [lo:] (with the call it is handed to), whole
//     buffer handed to a call, alias; plus the argument of data.Drain.  For tars additionally the slice each
//     codec.NewReader (TarsGo field parser) is constructed on and whether its base is the private frame copy
//     (`x := make([]byte, L); copy(x, <buffer>[:L])`) or the read buffer itself.
//  B. HTTP/2 stream layer (pkg/stream/http2 server/client handleFrame): every use of the DATA payload variable
//     (second result of HandleFrame: a slice of the connection read buffer), the right-hand sides assigned to
//     stream.recData, and the body argument of every receiver.OnReceive call.
//
// Everything is rendered as source text; the classification (local / copy / alias) is done in Lean
// (Model/FrameOwn.lean), the theorems of Props/C07 are stated over these lists.  All helpers carry the prefix c07o.

import (
	"bytes"
	"fmt"
	"go/ast"
	"go/printer"
	"go/token"
	"strings"
)

func init() { register("FrameOwn", c07oGen) }

func c07oSrc(e ast.Node) string {
	if e == nil {
		return ""
	}
	var b bytes.Buffer
	printer.Fprint(&b, fset, e)
	return strings.Join(strings.Fields(b.String()), " ")
}

func c07oQ(s string) string { return fmt.Sprintf("%q", s) }

type c07oUse struct{ fn, kind, lo, hi, ctx string }

// c07oParents walks body and calls f(node, stack of ancestors, innermost last).
func c07oParents(root ast.Node, f func(n ast.Node, stack []ast.Node)) {
	var stack []ast.Node
	ast.Inspect(root, func(n ast.Node) bool {
		if n == nil {
			stack = stack[:len(stack)-1]
			return true
		}
		f(n, stack)
		stack = append(stack, n)
		return true
	})
}

func c07oIsBytesCall(e ast.Expr, param string) bool {
	c, ok := e.(*ast.CallExpr)
	if !ok || len(c.Args) != 0 {
		return false
	}
	s, ok := c.Fun.(*ast.SelectorExpr)
	if !ok || s.Sel.Name != "Bytes" {
		return false
	}
	id, ok := s.X.(*ast.Ident)
	return ok && id.Name == param
}

// c07oBufUses lists the uses of the read buffer in one decode function. param = name of the IoBuffer parameter.
func c07oBufUses(label string, fd *ast.FuncDecl, param string) ([]c07oUse, error) {
	aliases := map[string]bool{}
	ast.Inspect(fd.Body, func(n ast.Node) bool {
		if as, ok := n.(*ast.AssignStmt); ok && len(as.Lhs) == 1 && len(as.Rhs) == 1 && c07oIsBytesCall(as.Rhs[0], param) {
			if id, ok := as.Lhs[0].(*ast.Ident); ok {
				aliases[id.Name] = true
			}
		}
		return true
	})
	isBuf := func(n ast.Node) bool {
		switch x := n.(type) {
		case *ast.CallExpr:
			return c07oIsBytesCall(x, param)
		case *ast.Ident:
			return aliases[x.Name]
		}
		return false
	}
	var uses []c07oUse
	c07oParents(fd.Body, func(n ast.Node, stack []ast.Node) {
		if c, ok := n.(*ast.CallExpr); ok {
			if s, ok := c.Fun.(*ast.SelectorExpr); ok && s.Sel.Name == "Drain" && len(c.Args) == 1 {
				if id, ok := s.X.(*ast.Ident); ok && id.Name == param {
					uses = append(uses, c07oUse{label, "drain", c07oSrc(c.Args[0]), "", ""})
				}
			}
		}
		if !isBuf(n) || len(stack) == 0 {
			return
		}
		p := stack[len(stack)-1]
		var gp ast.Node
		if len(stack) >= 2 {
			gp = stack[len(stack)-2]
		}
		switch x := p.(type) {
		case *ast.SliceExpr:
			if x.X != n {
				uses = append(uses, c07oUse{label, "other", "", "", "slice-bound"})
				return
			}
			if x.High != nil {
				uses = append(uses, c07oUse{label, "slice", c07oSrc(x.Low), c07oSrc(x.High), ""})
				return
			}
			ctx := fmt.Sprintf("%T", gp)
			kind := "open"
			if c, ok := gp.(*ast.CallExpr); ok {
				kind, ctx = "open-arg", exprKeyFun(c.Fun)
			}
			uses = append(uses, c07oUse{label, kind, c07oSrc(x.Low), "", ctx})
		case *ast.IndexExpr:
			if x.X == n {
				uses = append(uses, c07oUse{label, "index", c07oSrc(x.Index), "", ""})
			} else {
				uses = append(uses, c07oUse{label, "other", "", "", "index-expr"})
			}
		case *ast.CallExpr:
			if x.Fun == n {
				return
			}
			uses = append(uses, c07oUse{label, "arg", "", "", exprKeyFun(x.Fun)})
		case *ast.AssignStmt:
			if len(x.Lhs) == 1 && len(x.Rhs) == 1 && x.Rhs[0] == n {
				if id, ok := x.Lhs[0].(*ast.Ident); ok && aliases[id.Name] {
					uses = append(uses, c07oUse{label, "alias", "", "", id.Name})
					return
				}
				if x.Lhs[0] == n { // the alias being (re)defined
					return
				}
			}
			for _, l := range x.Lhs {
				if l == n {
					return
				}
			}
			uses = append(uses, c07oUse{label, "other", "", "", "assign:" + c07oSrc(x.Lhs[0])})
		case *ast.SelectorExpr:
			// data.Bytes() inside `data.Bytes()` itself (the ident `data` is not a buffer alias): not reached
			uses = append(uses, c07oUse{label, "other", "", "", "selector:" + x.Sel.Name})
		default:
			uses = append(uses, c07oUse{label, "other", "", "", fmt.Sprintf("%T", p)})
		}
	})
	return uses, nil
}

func exprKeyFun(e ast.Expr) string { return c07oSrc(e) }

// c07oCopyLen: is `name` defined as `name := make([]byte, L)` and filled by `copy(name, <buffer>[:L])` in fd? returns L.
func c07oCopyLen(fd *ast.FuncDecl, name, param string) string {
	aliases := map[string]bool{}
	mk, cp, writes := "", "", 0
	ast.Inspect(fd.Body, func(n ast.Node) bool {
		switch x := n.(type) {
		case *ast.AssignStmt:
			if len(x.Lhs) == 1 && len(x.Rhs) == 1 {
				if c07oIsBytesCall(x.Rhs[0], param) {
					if id, ok := x.Lhs[0].(*ast.Ident); ok {
						aliases[id.Name] = true
					}
				}
				if c07oSrc(x.Lhs[0]) == name {
					writes++
					if c, ok := x.Rhs[0].(*ast.CallExpr); ok && c07oSrc(c.Fun) == "make" && len(c.Args) == 2 && c07oSrc(c.Args[0]) == "[]byte" {
						mk = c07oSrc(c.Args[1])
					}
				}
			} else {
				for _, l := range x.Lhs {
					if c07oSrc(l) == name {
						writes += 2
					}
				}
			}
		case *ast.CallExpr:
			if c07oSrc(x.Fun) == "copy" && len(x.Args) == 2 && c07oSrc(x.Args[0]) == name {
				if s, ok := x.Args[1].(*ast.SliceExpr); ok && s.Low == nil && s.High != nil {
					isB := c07oIsBytesCall(s.X, param)
					if id, ok := s.X.(*ast.Ident); ok && aliases[id.Name] {
						isB = true
					}
					if isB {
						cp = c07oSrc(s.High)
					}
				}
			}
		}
		return true
	})
	if writes == 1 && mk != "" && mk == cp {
		return mk
	}
	return ""
}

type c07oReader struct{ fn, callee, base, lo, hi, copyLen, drain string }

// c07oReaders: the field-parser constructions `callee(<base>[lo:hi])` of one function.
func c07oReaders(label string, fd *ast.FuncDecl, param, callee string) []c07oReader {
	drain := ""
	ast.Inspect(fd.Body, func(n ast.Node) bool {
		if c, ok := n.(*ast.CallExpr); ok && c07oSrc(c.Fun) == param+".Drain" && len(c.Args) == 1 {
			drain = c07oSrc(c.Args[0])
		}
		return true
	})
	var out []c07oReader
	ast.Inspect(fd.Body, func(n ast.Node) bool {
		c, ok := n.(*ast.CallExpr)
		if !ok || c07oSrc(c.Fun) != callee || len(c.Args) != 1 {
			return true
		}
		r := c07oReader{fn: label, callee: callee, drain: drain}
		arg := c.Args[0]
		if s, ok := arg.(*ast.SliceExpr); ok {
			r.base, r.lo, r.hi = c07oSrc(s.X), c07oSrc(s.Low), c07oSrc(s.High)
		} else {
			r.base = c07oSrc(arg)
		}
		r.copyLen = c07oCopyLen(fd, r.base, param)
		out = append(out, r)
		return true
	})
	return out
}

type c07oPay struct{ fn, kind, what string }

// c07oPayload: uses of the DATA payload variable `v` in an http2 handleFrame, assignments to stream.recData and the
// body argument of every OnReceive call.
func c07oPayload(label string, fd *ast.FuncDecl, v string) (uses []c07oPay, ctors, handed []string, err error) {
	declared := false
	c07oParents(fd.Body, func(n ast.Node, stack []ast.Node) {
		if vs, ok := n.(*ast.ValueSpec); ok {
			for _, id := range vs.Names {
				if id.Name == v && c07oSrc(vs.Type) == "[]byte" {
					declared = true
				}
			}
		}
		if as, ok := n.(*ast.AssignStmt); ok {
			for i, l := range as.Lhs {
				if c07oSrc(l) == "stream.recData" && len(as.Rhs) == len(as.Lhs) {
					ctors = append(ctors, c07oSrc(as.Rhs[i]))
				}
			}
		}
		if c, ok := n.(*ast.CallExpr); ok {
			if s, ok := c.Fun.(*ast.SelectorExpr); ok && s.Sel.Name == "OnReceive" && len(c.Args) == 4 {
				handed = append(handed, c07oSrc(c.Args[2]))
			}
		}
		id, ok := n.(*ast.Ident)
		if !ok || id.Name != v || len(stack) == 0 {
			return
		}
		p := stack[len(stack)-1]
		switch x := p.(type) {
		case *ast.ValueSpec:
			return
		case *ast.AssignStmt:
			for _, l := range x.Lhs {
				if l == n {
					if len(x.Rhs) == 1 {
						uses = append(uses, c07oPay{label, "def", c07oSrc(x.Rhs[0])})
					} else {
						uses = append(uses, c07oPay{label, "other", "multi-assign"})
					}
					return
				}
			}
			uses = append(uses, c07oPay{label, "stored", c07oSrc(x.Lhs[0])})
		case *ast.BinaryExpr:
			o := x.Y
			if o == n {
				o = x.X
			}
			if (x.Op == token.EQL || x.Op == token.NEQ) && c07oSrc(o) == "nil" {
				uses = append(uses, c07oPay{label, "nil-test", ""})
			} else {
				uses = append(uses, c07oPay{label, "other", c07oSrc(x)})
			}
		case *ast.CallExpr:
			if x.Fun == n {
				uses = append(uses, c07oPay{label, "other", "called"})
				return
			}
			uses = append(uses, c07oPay{label, "arg", c07oSrc(x.Fun)})
		case *ast.SliceExpr, *ast.IndexExpr:
			uses = append(uses, c07oPay{label, "other", c07oSrc(p)})
		default:
			uses = append(uses, c07oPay{label, "other", fmt.Sprintf("%T", p)})
		}
	})
	if !declared {
		return nil, nil, nil, fmt.Errorf("%s: no `var %s []byte`", label, v)
	}
	if len(handed) == 0 || len(ctors) == 0 {
		return nil, nil, nil, fmt.Errorf("%s: no OnReceive call / no assignment to stream.recData found", label)
	}
	return
}

func c07oGen() (string, error) {
	var sb strings.Builder
	sb.WriteString(header("FrameOwn", xp+"{bolt,boltv2,dubbo,dubbothrift,tars}/decoder.go, tars/protocol.go, pkg/stream/http2/stream.go"))
	sb.WriteString("/-- one use of the connection read buffer inside a decode function -/\nstructure BufUse where\n  fn : String\n  kind : String\n  lo : String\n  hi : String\n  ctx : String\nderiving Repr, DecidableEq\n")
	sb.WriteString("/-- one construction of a payload field parser: callee(base[lo:hi]); copyLen = L when base is `make([]byte, L)` filled by `copy(base, buffer[:L])`, else \"\" -/\nstructure ParserSite where\n  fn : String\n  callee : String\n  base : String\n  lo : String\n  hi : String\n  copyLen : String\n  drain : String\nderiving Repr, DecidableEq\n")
	sb.WriteString("/-- one use of the DATA payload (a slice of the read buffer) in an HTTP/2 handleFrame -/\nstructure PayloadUse where\n  fn : String\n  kind : String\n  what : String\nderiving Repr, DecidableEq\n")
	type target struct {
		name, file string
		fns        []string
	}
	targets := []target{
		{"bolt", xp + "bolt/decoder.go", []string{"decodeRequest", "decodeResponse"}},
		{"boltv2", xp + "boltv2/decoder.go", []string{"decodeRequest", "decodeResponse"}},
		{"dubbo", xp + "dubbo/decoder.go", []string{"decodeFrame"}},
		{"thrift", xp + "dubbothrift/decoder.go", []string{"decodeFrame"}},
		{"tars", xp + "tars/decoder.go", []string{"decodeRequest", "decodeResponse"}},
	}
	for _, t := range targets {
		f, err := parse(t.file)
		if err != nil {
			return "", err
		}
		var all []c07oUse
		var readers []c07oReader
		for _, fn := range t.fns {
			fd := findFunc(f, "", fn)
			if fd == nil || fd.Body == nil {
				return "", fmt.Errorf("%s: %s not found", t.file, fn)
			}
			param := ""
			for _, p := range fd.Type.Params.List {
				if strings.HasSuffix(c07oSrc(p.Type), ".IoBuffer") && len(p.Names) == 1 {
					param = p.Names[0].Name
				}
			}
			if param == "" {
				return "", fmt.Errorf("%s: %s has no IoBuffer parameter", t.file, fn)
			}
			us, err := c07oBufUses(fn, fd, param)
			if err != nil {
				return "", err
			}
			if len(us) == 0 {
				return "", fmt.Errorf("%s: %s does not use its read buffer", t.file, fn)
			}
			all = append(all, us...)
			if t.name == "tars" {
				rs := c07oReaders(fn, fd, param, "codec.NewReader")
				if len(rs) != 1 {
					return "", fmt.Errorf("%s: %s: %d codec.NewReader calls (expected 1)", t.file, fn, len(rs))
				}
				readers = append(readers, rs...)
			}
		}
		fmt.Fprintf(&sb, "/-- %s: uses of the read buffer in %s -/\ndef %s_uses : List BufUse := [\n", t.file, strings.Join(t.fns, ", "), t.name)
		for i, u := range all {
			sep := ","
			if i == len(all)-1 {
				sep = ""
			}
			fmt.Fprintf(&sb, "  ⟨%s, %s, %s, %s, %s⟩%s\n", c07oQ(u.fn), c07oQ(u.kind), c07oQ(u.lo), c07oQ(u.hi), c07oQ(u.ctx), sep)
		}
		sb.WriteString("]\n")
		if t.name == "tars" {
			sb.WriteString("/-- tars/decoder.go: the slice every TarsGo reader is constructed on -/\ndef tars_readers : List ParserSite := [\n")
			for i, r := range readers {
				sep := ","
				if i == len(readers)-1 {
					sep = ""
				}
				fmt.Fprintf(&sb, "  ⟨%s, %s, %s, %s, %s, %s, %s⟩%s\n", c07oQ(r.fn), c07oQ(r.callee), c07oQ(r.base), c07oQ(r.lo), c07oQ(r.hi), c07oQ(r.copyLen), c07oQ(r.drain), sep)
			}
			sb.WriteString("]\n")
		}
	}
	// HTTP/2
	hf, err := parse("pkg/stream/http2/stream.go")
	if err != nil {
		return "", err
	}
	for _, side := range [][2]string{{"server", "serverStreamConnection"}, {"client", "clientStreamConnection"}} {
		fd := findFunc(hf, side[1], "handleFrame")
		if fd == nil || fd.Body == nil {
			return "", fmt.Errorf("http2 %s.handleFrame not found", side[1])
		}
		uses, ctors, handed, err := c07oPayload(side[1]+".handleFrame", fd, "data")
		if err != nil {
			return "", err
		}
		fmt.Fprintf(&sb, "/-- pkg/stream/http2/stream.go %s.handleFrame: uses of the DATA payload `data` -/\ndef h2_%s_payload : List PayloadUse := [\n", side[1], side[0])
		for i, u := range uses {
			sep := ","
			if i == len(uses)-1 {
				sep = ""
			}
			fmt.Fprintf(&sb, "  ⟨%s, %s, %s⟩%s\n", c07oQ(u.fn), c07oQ(u.kind), c07oQ(u.what), sep)
		}
		sb.WriteString("]\n")
		q := func(l []string) string {
			var p []string
			for _, s := range l {
				p = append(p, c07oQ(s))
			}
			return "[" + strings.Join(p, ", ") + "]"
		}
		fmt.Fprintf(&sb, "/-- right-hand sides assigned to stream.recData -/\ndef h2_%s_recData : List String := %s\n", side[0], q(ctors))
		fmt.Fprintf(&sb, "/-- body argument of every receiver.OnReceive call -/\ndef h2_%s_handed : List String := %s\n", side[0], q(handed))
	}
	sb.WriteString(footer("FrameOwn"))
	return sb.String(), nil
}
