-- translation-unsupported RouteFinalize: open -out/pkg/router/base_rule.go: no such file or directory
namespace MosnVerif.Gen.RouteFinalize
end MosnVerif.Gen.RouteFinalize
