-- translation-unsupported Updates: open -out/pkg/config/v2: no such file or directory
namespace MosnVerif.Gen.Updates
end MosnVerif.Gen.Updates
