package main

// C11 (graceful shutdown / hot upgrade): regenerated facts.
//   Gen/Shutdown.lean : listener state constants, stopAccept / Close / Shutdown decision code (pkg/network/listener.go),
//                       the drain-loop comparison of waitConnectionsClose (pkg/server/handler.go), stage-manager enum,
//                       transition guards and SetState orders (pkg/stagemanager/stage_manager.go), the signal table
//                       (pkg/server/keeper/serverkeeper.go).
//   Gen/Transfer.lean : header layout, offsets, lengths and type bytes of the connection-transfer messages
//                       (pkg/network/transfer.go).

import (
	"fmt"
	"go/ast"
	"go/token"
	"strconv"
	"strings"
)

func init() {
	register("Shutdown", genShutdown)
	register("Transfer", genTransfer)
}

func c11Mentions(n ast.Node, key string) bool {
	found := false
	ast.Inspect(n, func(x ast.Node) bool {
		if e, ok := x.(ast.Expr); ok && exprKey(e) == key {
			found = true
		}
		return !found
	})
	return found
}

// c11IgnoresNewStreams: the guard `sc.inGoAway`, or `sc.inGoAway && (… || id > sc.maxClientStreamID)`: once a GOAWAY was
// sent, HEADERS of streams above its last stream id are ignored.
func c11IgnoresNewStreams(cond ast.Expr) bool {
	if exprKey(cond) == "sc.inGoAway" {
		return true
	}
	b, ok := cond.(*ast.BinaryExpr)
	if !ok || b.Op != token.LAND || exprKey(b.X) != "sc.inGoAway" {
		return false
	}
	above := false
	var walk func(e ast.Expr)
	walk = func(e ast.Expr) {
		switch x := e.(type) {
		case *ast.ParenExpr:
			walk(x.X)
		case *ast.BinaryExpr:
			if x.Op == token.LOR {
				walk(x.X)
				walk(x.Y)
			} else if x.Op == token.GTR && exprKey(x.X) == "id" && exprKey(x.Y) == "sc.maxClientStreamID" {
				above = true
			}
		}
	}
	walk(b.Y)
	return above
}

func callsTo(n ast.Node, key string) []*ast.CallExpr {
	var out []*ast.CallExpr
	ast.Inspect(n, func(x ast.Node) bool {
		if c, ok := x.(*ast.CallExpr); ok && exprKey(c.Fun) == key {
			out = append(out, c)
		}
		return true
	})
	return out
}

func intLit(e ast.Expr) (int64, bool) {
	switch x := e.(type) {
	case *ast.BasicLit:
		if x.Kind == token.INT {
			v, err := strconv.ParseInt(x.Value, 0, 64)
			return v, err == nil
		}
	case *ast.ParenExpr:
		return intLit(x.X)
	}
	return 0, false
}

// durationMs evaluates `n * time.Unit` / `time.Unit * n` / `time.Unit` to milliseconds.
func durationMs(e ast.Expr) (int64, error) {
	unit := func(e ast.Expr) (int64, bool) {
		switch exprKey(e) {
		case "time.Millisecond":
			return 1, true
		case "time.Second":
			return 1000, true
		case "time.Minute":
			return 60000, true
		}
		return 0, false
	}
	if u, ok := unit(e); ok {
		return u, nil
	}
	if b, ok := e.(*ast.BinaryExpr); ok && b.Op == token.MUL {
		if n, ok := intLit(b.X); ok {
			if u, ok := unit(b.Y); ok {
				return n * u, nil
			}
		}
		if n, ok := intLit(b.Y); ok {
			if u, ok := unit(b.X); ok {
				return n * u, nil
			}
		}
	}
	return 0, fmt.Errorf("unsupported duration expression")
}

func constBlock(dir string, names []string) (string, map[string]string, error) {
	s := ""
	m := map[string]string{}
	for _, n := range names {
		v, err := intConst(dir, n)
		if err != nil {
			return "", nil, err
		}
		s += fmt.Sprintf("def %s : Int := %d\n", n, v)
		m[n] = n
	}
	return s, m, nil
}

// setStateSeq lists, in source order, the constants passed to SetState in the body of stm.<fn>, inlining calls of
// other StageManager methods; an `if` is entered only when its condition mentions stopAction and takeIf is set.
func setStateSeq(f *ast.File, fn string, takeIf bool, depth int) ([]string, error) {
	if depth > 4 {
		return nil, fmt.Errorf("SetState walk too deep at %s", fn)
	}
	fd := findFunc(f, "StageManager", fn)
	if fd == nil {
		return nil, fmt.Errorf("StageManager.%s not found", fn)
	}
	var out []string
	var walk func(stmts []ast.Stmt) error
	walk = func(stmts []ast.Stmt) error {
		for _, st := range stmts {
			switch x := st.(type) {
			case *ast.ExprStmt:
				c, ok := x.X.(*ast.CallExpr)
				if !ok {
					continue
				}
				k := exprKey(c.Fun)
				if k == "stm.SetState" && len(c.Args) == 1 {
					out = append(out, exprKey(c.Args[0]))
				} else if strings.HasPrefix(k, "stm.run") && len(c.Args) == 0 {
					sub, err := setStateSeq(f, strings.TrimPrefix(k, "stm."), takeIf, depth+1)
					if err != nil {
						return err
					}
					out = append(out, sub...)
				}
			case *ast.IfStmt:
				if c11Mentions(x.Cond, "stm.stopAction") && takeIf {
					if err := walk(x.Body.List); err != nil {
						return err
					}
				}
			}
		}
		return nil
	}
	if err := walk(fd.Body.List); err != nil {
		return nil, err
	}
	return out, nil
}

func leanList(xs []string) string { return "[" + strings.Join(xs, ", ") + "]" }

func genShutdown() (string, error) {
	const lsrc, hsrc, ssrc, ksrc = "pkg/network/listener.go", "pkg/server/handler.go", "pkg/stagemanager/stage_manager.go", "pkg/server/keeper/serverkeeper.go"
	s := header("Shutdown", lsrc, hsrc, ssrc, ksrc)

	// ---- constants
	lnames := []string{"ListenerInited", "ListenerRunning", "ListenerStopped", "ListenerClosed"}
	lc, lmap, err := constBlock("pkg/network", lnames)
	if err != nil {
		return "", err
	}
	snames := []string{"Nil", "ParamsParsed", "Initing", "PreStart", "Starting", "AfterStart", "Running", "BeforeStop",
		"GracefulStopping", "Stopping", "AfterStop", "Stopped", "StartingNewServer", "Upgrading"}
	sc, smap, err := constBlock("pkg/stagemanager", snames)
	if err != nil {
		return "", err
	}
	anames := []string{"Stop", "GracefulStop", "Reload", "Upgrade"}
	ac := ""
	amap := map[string]string{}
	for _, n := range anames {
		v, err := intConst("pkg/stagemanager", n)
		if err != nil {
			return "", err
		}
		ac += fmt.Sprintf("def act%s : Int := %d\n", n, v)
		amap[n] = "act" + n
	}
	s += "/-! listener states (" + lsrc + ") -/\n" + lc + "/-! stage-manager states and stop actions (" + ssrc + ") -/\n" + sc + ac
	s += "def allStates : List Int := " + leanList(snames) + "\n"

	// ---- listener.go
	lf, err := parse(lsrc)
	if err != nil {
		return "", err
	}
	// stopAccept
	fd := findFunc(lf, "listener", "stopAccept")
	if fd == nil {
		return "", fmt.Errorf("listener.stopAccept not found")
	}
	var stmts []ast.Stmt
	for _, st := range fd.Body.List {
		switch x := st.(type) {
		case *ast.ExprStmt:
			if c, ok := x.X.(*ast.CallExpr); ok && exprKey(c.Fun) == "l.mutex.Lock" {
				continue
			}
		case *ast.DeferStmt:
			if exprKey(x.Call.Fun) == "l.mutex.Unlock" {
				continue
			}
		case *ast.AssignStmt:
			if len(x.Lhs) == 1 && exprKey(x.Lhs[0]) == "err" { // err = l.setDeadline(time.Now()): the socket effect, modelled by hand
				if len(callsTo(x, "l.setDeadline")) != 1 {
					return "", fmt.Errorf("stopAccept: unexpected assignment to err")
				}
				continue
			}
		}
		stmts = append(stmts, st)
	}
	names := map[string]string{"l.state": "state", "l.bindToPort": "bindToPort", "changed": "changed"}
	for k, v := range lmap {
		names[k] = v
	}
	env := &Env{Names: copyNames(names), Calls: map[string]string{},
		Ret:  func(rs []string) string { return "(state, changed)" },
		Fall: "(state, changed)"}
	body, err := env.block(stmts, "  ")
	if err != nil {
		return "", fmt.Errorf("stopAccept: %v", err)
	}
	s += "/-- `listener.stopAccept` without the socket effect (`setDeadline`): (new state, changed). -/\n"
	s += "def stopAccept (state : Int) (bindToPort : Bool) (changed : Bool) : Int × Bool :=\n  " + body + "\n"

	// Close: the statements before the raw listener is touched
	fd = findFunc(lf, "listener", "Close")
	if fd == nil {
		return "", fmt.Errorf("listener.Close not found")
	}
	stmts = nil
	for _, st := range fd.Body.List {
		if c11Mentions(st, "l.rawl") || c11Mentions(st, "l.packetConn") {
			break
		}
		switch x := st.(type) {
		case *ast.ExprStmt:
			if c, ok := x.X.(*ast.CallExpr); ok && exprKey(c.Fun) == "l.mutex.Lock" {
				continue
			}
		case *ast.DeferStmt:
			if exprKey(x.Call.Fun) == "l.mutex.Unlock" {
				continue
			}
		}
		stmts = append(stmts, st)
	}
	env = &Env{Names: copyNames(names), Calls: map[string]string{},
		Ret:  func(rs []string) string { return "(state, false)" },
		Fall: "(state, true)"}
	env.Names["nil"] = "0"
	body, err = env.block(stmts, "  ")
	if err != nil {
		return "", fmt.Errorf("Close: %v", err)
	}
	s += "/-- `listener.Close` up to the point where the raw socket is closed: (new state, reaches the socket close). -/\n"
	s += "def closeStep (state : Int) (bindToPort : Bool) : Int × Bool :=\n  " + body + "\n"

	// Shutdown: the stage test and the two OnShutdown guards
	fd = findFunc(lf, "listener", "Shutdown")
	if fd == nil {
		return "", fmt.Errorf("listener.Shutdown not found")
	}
	var top *ast.IfStmt
	for _, st := range fd.Body.List {
		if i, ok := st.(*ast.IfStmt); ok && c11Mentions(i.Cond, "stagemanager.GetState") {
			top = i
		}
	}
	if top == nil {
		return "", fmt.Errorf("Shutdown: stage test not found")
	}
	eb, ok := top.Else.(*ast.BlockStmt)
	if !ok || len(callsTo(top.Body, "l.stopAccept")) != 1 || len(callsTo(top.Body, "l.Close")) != 0 ||
		len(callsTo(eb, "l.Close")) != 1 || len(callsTo(eb, "l.stopAccept")) != 0 {
		return "", fmt.Errorf("Shutdown: expected stopAccept in the upgrade branch and Close in the other")
	}
	env = &Env{Names: map[string]string{"stagemanager.GetState()": "stage"}, Calls: map[string]string{}}
	for _, n := range snames {
		env.Names["stagemanager."+n] = n
	}
	cond, err := env.expr(top.Cond)
	if err != nil {
		return "", fmt.Errorf("Shutdown cond: %v", err)
	}
	s += "/-- `listener.Shutdown`: true = only stop accepting (socket stays open for the new process), false = close the listener. -/\n"
	s += "def shutdownOnlyStops (stage : Int) : Bool := " + cond + "\n"
	guard := func(blk *ast.BlockStmt) (string, error) {
		cs := callsTo(blk, "l.cb.OnShutdown")
		if len(cs) != 1 {
			return "", fmt.Errorf("Shutdown: expected exactly one OnShutdown call per branch")
		}
		g := "true"
		for _, st := range blk.List {
			if i, ok := st.(*ast.IfStmt); ok && len(callsTo(i.Body, "l.cb.OnShutdown")) == 1 {
				e := &Env{Names: map[string]string{"changed": "changed", "l.bindToPort": "bindToPort"}, Calls: map[string]string{}}
				c, err := e.expr(i.Cond)
				if err != nil {
					return "", err
				}
				g = c
			} else if es, ok := st.(*ast.ExprStmt); ok && len(callsTo(es, "l.cb.OnShutdown")) == 1 {
				g = "true"
			}
		}
		return g, nil
	}
	g1, err := guard(top.Body)
	if err != nil {
		return "", err
	}
	g2, err := guard(eb)
	if err != nil {
		return "", err
	}
	s += "/-- whether `cb.OnShutdown()` (go-away broadcast + drain) runs in the stop-accept branch / in the close branch. -/\n"
	s += "def shutdownCbStop (changed : Bool) (bindToPort : Bool) : Bool := " + g1 + "\n"
	s += "def shutdownCbClose (changed : Bool) (bindToPort : Bool) : Bool := " + g2 + "\n"

	// ---- handler.go: drain loop
	hf, err := parse(hsrc)
	if err != nil {
		return "", err
	}
	fd = findFunc(hf, "activeListener", "waitConnectionsClose")
	if fd == nil {
		return "", fmt.Errorf("waitConnectionsClose not found")
	}
	var loop *ast.ForStmt
	for _, st := range fd.Body.List {
		if f, ok := st.(*ast.ForStmt); ok {
			loop = f
		}
	}
	if loop == nil || loop.Cond == nil {
		return "", fmt.Errorf("waitConnectionsClose: loop not found")
	}
	env = &Env{Names: map[string]string{"remainStream": "remainStream", "waited": "waited", "maxWaitTime": "maxWaitTime"}, Calls: map[string]string{}}
	cond, err = env.expr(loop.Cond)
	if err != nil {
		return "", fmt.Errorf("waitConnectionsClose cond: %v", err)
	}
	s += "/-- loop condition of `waitConnectionsClose`: keep waiting while this holds (durations as integers of one unit). -/\n"
	s += "def drainContinue (remainStream : Int) (waited : Int) (maxWaitTime : Int) : Bool := " + cond + "\n"
	sl := callsTo(loop.Body, "time.Sleep")
	if len(sl) != 1 || len(sl[0].Args) != 1 {
		return "", fmt.Errorf("waitConnectionsClose: sleep not found")
	}
	ms, err := durationMs(sl[0].Args[0])
	if err != nil {
		return "", err
	}
	s += fmt.Sprintf("def drainSleepMs : Int := %d\n", ms)
	// remainStream must be the listener's request_active counter
	as := findFunc(hf, "activeListener", "activeStreamSize")
	if as == nil || !c11Mentions(as, "metrics.DownstreamRequestActive") {
		return "", fmt.Errorf("activeStreamSize no longer reads metrics.DownstreamRequestActive")
	}
	if len(callsTo(loop, "al.activeStreamSize")) == 0 {
		return "", fmt.Errorf("waitConnectionsClose no longer samples activeStreamSize in the loop")
	}
	var drainDefault int64 = -1
	for _, d := range hf.Decls {
		gd, ok := d.(*ast.GenDecl)
		if !ok || gd.Tok != token.VAR {
			continue
		}
		for _, sp := range gd.Specs {
			vs := sp.(*ast.ValueSpec)
			for i, n := range vs.Names {
				if n.Name == "drainTime" && i < len(vs.Values) {
					if v, err := durationMs(vs.Values[i]); err == nil {
						drainDefault = v
					}
				}
			}
		}
	}
	if drainDefault < 0 {
		return "", fmt.Errorf("drainTime default not found")
	}
	s += fmt.Sprintf("def drainDefaultMs : Int := %d\n", drainDefault)
	// OnShutdown: broadcast then wait
	fd = findFunc(hf, "activeListener", "OnShutdown")
	if fd == nil {
		return "", fmt.Errorf("activeListener.OnShutdown not found")
	}
	broadcasts := len(callsTo(fd, "conn.OnConnectionEvent")) == 1 && len(callsTo(fd, "al.conns.VisitSafe")) == 1 && c11Mentions(fd, "api.OnShutdown")
	waits := len(callsTo(fd, "al.waitConnectionsClose")) == 1
	s += "/-- `activeListener.OnShutdown`: sends `api.OnShutdown` to every connection of `al.conns` / then runs `waitConnectionsClose(drainTime)` -/\n"
	s += fmt.Sprintf("def onShutdownBroadcasts : Bool := %v\ndef onShutdownWaits : Bool := %v\n", broadcasts, waits)

	// ---- stage_manager.go
	sf, err := parse(ssrc)
	if err != nil {
		return "", err
	}
	sNames := func() map[string]string {
		m := map[string]string{"stm.state": "state", "stm.stopAction": "stopAction", "preState": "preState", "stm.app.IsFromUpgrade()": "fromUpgrade"}
		for k, v := range smap {
			m[k] = v
		}
		for k, v := range amap {
			m[k] = v
		}
		return m
	}
	condOf := func(fn string, pick func(*ast.IfStmt) bool, what string) (string, error) {
		fd := findFunc(sf, "StageManager", fn)
		if fd == nil {
			fd = findFunc(sf, "", fn)
		}
		if fd == nil {
			return "", fmt.Errorf("%s not found", fn)
		}
		var hit *ast.IfStmt
		ast.Inspect(fd.Body, func(n ast.Node) bool {
			if i, ok := n.(*ast.IfStmt); ok && hit == nil && pick(i) {
				hit = i
			}
			return true
		})
		if hit == nil {
			return "", fmt.Errorf("%s: %s not found", fn, what)
		}
		e := &Env{Names: sNames(), Calls: map[string]string{}}
		return e.expr(hit.Cond)
	}
	c1, err := condOf("Stop", func(i *ast.IfStmt) bool { return c11Mentions(i.Cond, "Nil") }, "Nil guard")
	if err != nil {
		return "", err
	}
	c2, err := condOf("Stop", func(i *ast.IfStmt) bool {
		return c11Mentions(i.Cond, "stm.stopAction") && len(callsTo(i.Body, "stm.runGracefulStopStage")) == 1
	}, "graceful-stop guard")
	if err != nil {
		return "", err
	}
	c3, err := condOf("Stop", func(i *ast.IfStmt) bool {
		return c11Mentions(i.Cond, "preState") && len(callsTo(i.Body, "os.Exit")) == 1 && !c11Mentions(i.Cond, "stm.exitCode")
	}, "abnormal-exit guard")
	if err != nil {
		return "", err
	}
	stopFd := findFunc(sf, "StageManager", "Stop")
	cl := callsTo(stopFd, "stm.app.Close")
	if len(cl) != 1 || len(cl[0].Args) != 1 {
		return "", fmt.Errorf("Stop: app.Close call not found")
	}
	e := &Env{Names: sNames(), Calls: map[string]string{}}
	c4, err := e.expr(cl[0].Args[0])
	if err != nil {
		return "", fmt.Errorf("Stop: app.Close argument: %v", err)
	}
	c5, err := condOf("NoticeStop", func(i *ast.IfStmt) bool { return len(callsTo(i.Body, "stm.Stop")) == 1 }, "direct-stop guard")
	if err != nil {
		return "", err
	}
	c6, err := condOf("runReload", func(i *ast.IfStmt) bool { return c11Mentions(i.Cond, "stm.state") }, "running guard")
	if err != nil {
		return "", err
	}
	c7, err := condOf("runUpgrade", func(i *ast.IfStmt) bool { return c11Mentions(i.Cond, "stm.state") }, "new-server ack guard")
	if err != nil {
		return "", err
	}
	s += "/-! guards of `StageManager.Stop`, `NoticeStop`, `runReload`, `runUpgrade` -/\n"
	s += "def stopIgnored (state : Int) : Bool := " + c1 + "\n"
	s += "def stopRunsGraceful (stopAction : Int) : Bool := " + c2 + "\n"
	s += "def exitsAbnormally (preState : Int) : Bool := " + c3 + "\n"
	s += "def closeIsUpgrade (preState : Int) (fromUpgrade : Bool) : Bool := " + c4 + "\n"
	s += "def noticeStopsDirectly (state : Int) : Bool := " + c5 + "\n"
	s += "def reloadIgnored (state : Int) : Bool := " + c6 + "\n"
	s += "def upgradeAcksNewServer (state : Int) : Bool := " + c7 + "\n"
	// NoticeStop dispatch table: action -> 1 reload, 2 upgrade, 3 stop/graceful stop
	nfd := findFunc(sf, "", "NoticeStop")
	if nfd == nil {
		return "", fmt.Errorf("NoticeStop not found")
	}
	var sw *ast.SwitchStmt
	ast.Inspect(nfd.Body, func(n ast.Node) bool {
		if x, ok := n.(*ast.SwitchStmt); ok {
			sw = x
		}
		return true
	})
	if sw == nil || exprKey(sw.Tag) != "action" {
		return "", fmt.Errorf("NoticeStop: switch on action not found")
	}
	var pairs []string
	for _, cc := range sw.Body.List {
		c := cc.(*ast.CaseClause)
		kind := 0
		switch {
		case len(callsTo(c, "stm.runReload")) == 1:
			kind = 1
		case len(callsTo(c, "stm.runUpgrade")) == 1:
			kind = 2
		case len(callsTo(c, "stm.Stop")) == 1 && len(callsTo(c, "stm.wg.Done")) == 1:
			kind = 3
		}
		for _, l := range c.List {
			a, ok := amap[exprKey(l)]
			if !ok {
				return "", fmt.Errorf("NoticeStop: unknown case %s", exprKey(l))
			}
			pairs = append(pairs, fmt.Sprintf("(%s, %d)", a, kind))
		}
	}
	s += "/-- `NoticeStop` dispatch: action ↦ 1 runReload, 2 runUpgrade, 3 stop now or release the main goroutine. -/\n"
	s += "def noticeKinds : List (Int × Nat) := " + leanList(pairs) + "\n"
	// before-stop stage runs on a copy (value receiver)?
	bfd := findFunc(sf, "StageManager", "runBeforeStopStages")
	if bfd == nil {
		return "", fmt.Errorf("runBeforeStopStages not found")
	}
	_, ptr := bfd.Recv.List[0].Type.(*ast.StarExpr)
	s += "/-- `runBeforeStopStages` has a value receiver: its `SetState(BeforeStop)` notifies the callbacks but does not change the manager's state. -/\n"
	s += fmt.Sprintf("def beforeStopOnCopy : Bool := %v\n", !ptr)
	bs, err := setStateSeq(sf, "runBeforeStopStages", false, 0)
	if err != nil {
		return "", err
	}
	s += "def beforeStopSeq : List Int := " + leanList(bs) + "\n"
	rs, err := setStateSeq(sf, "Run", false, 0)
	if err != nil {
		return "", err
	}
	s += "/-- order of `SetState` in `Run` (one per start-up stage) -/\ndef runSeq : List Int := " + leanList(rs) + "\n"
	sg, err := setStateSeq(sf, "Stop", true, 0)
	if err != nil {
		return "", err
	}
	sd, err := setStateSeq(sf, "Stop", false, 0)
	if err != nil {
		return "", err
	}
	s += "/-- order of `SetState` in `Stop` with / without the graceful-stop stage -/\n"
	s += "def stopSeqGraceful : List Int := " + leanList(sg) + "\ndef stopSeqDirect : List Int := " + leanList(sd) + "\n"
	for _, p := range [][2]string{{"runUpgrade", "upgradeSeq"}, {"resume", "resumeSeq"}, {"runReload", "reloadSeq"}} {
		q, err := setStateSeq(sf, p[0], false, 0)
		if err != nil {
			return "", err
		}
		s += "def " + p[1] + " : List Int := " + leanList(q) + "\n"
	}
	// graceful stop stage: SetState precedes app.Shutdown
	gfd := findFunc(sf, "StageManager", "runGracefulStopStage")
	if gfd == nil {
		return "", fmt.Errorf("runGracefulStopStage not found")
	}
	setPos, shutPos := token.NoPos, token.NoPos
	for _, c := range callsTo(gfd, "stm.SetState") {
		setPos = c.Pos()
	}
	for _, c := range callsTo(gfd, "stm.app.Shutdown") {
		shutPos = c.Pos()
	}
	if setPos == token.NoPos || shutPos == token.NoPos {
		return "", fmt.Errorf("runGracefulStopStage: SetState / app.Shutdown not found")
	}
	s += "/-- in the graceful-stop stage the state is set before `app.Shutdown()` runs (so the listeners see GracefulStopping) -/\n"
	s += fmt.Sprintf("def gracefulSetsStateFirst : Bool := %v\n", setPos < shutPos)

	// ---- go-away behaviour of the stream layers
	const h2src, xsrc, h1src = "pkg/module/http2/mhttp2.go", "pkg/stream/xprotocol/conn.go", "pkg/stream/http/stream.go"
	h2f, err := parse(h2src)
	if err != nil {
		return "", err
	}
	ph := findFunc(h2f, "MServerConn", "processHeaders")
	ga := findFunc(h2f, "MServerConn", "goAway")
	if ph == nil || ga == nil {
		return "", fmt.Errorf("MServerConn.processHeaders / goAway not found")
	}
	ignores := false
	for _, st := range ph.Body.List {
		if i, ok := st.(*ast.IfStmt); ok && endsInReturn(i.Body.List) && c11IgnoresNewStreams(i.Cond) {
			ignores = true
		}
	}
	sendsLast := len(callsTo(ga, "sc.Framer.startWrite")) == 1 && c11Mentions(ga, "FrameGoAway") && c11Mentions(ga, "sc.maxClientStreamID")
	pd := findFunc(h2f, "MServerConn", "processData")
	if pd == nil {
		return "", fmt.Errorf("MServerConn.processData not found")
	}
	discards := false
	for _, st := range pd.Body.List {
		if i, ok := st.(*ast.IfStmt); ok && c11Mentions(i.Cond, "sc.inGoAway") && c11Mentions(i.Cond, "sc.maxClientStreamID") && endsInReturn(i.Body.List) {
			if b, ok := i.Cond.(*ast.BinaryExpr); ok && b.Op == token.LAND {
				discards = true
			}
		}
	}
	s += "/-- HTTP/2 server connection: DATA frames of streams above the GOAWAY's last stream id are discarded (false: they are a PROTOCOL_ERROR that closes the connection and fails the streams in flight) -/\n"
	s += fmt.Sprintf("def h2DiscardsDataAboveLastStream : Bool := %v\n", discards)
	s += "/-- HTTP/2 server connection: after its GOAWAY (which carries the last processed stream id) HEADERS of new streams are ignored -/\n"
	s += fmt.Sprintf("def h2IgnoresNewStreamsAfterGoAway : Bool := %v\ndef h2GoAwayCarriesLastStream : Bool := %v\n", ignores, sendsLast)
	xf, err := parse(xsrc)
	if err != nil {
		return "", err
	}
	xg := findFunc(xf, "streamConn", "GoAway")
	if xg == nil {
		return "", fmt.Errorf("xprotocol streamConn.GoAway not found")
	}
	s += "/-- xprotocol server connection: `GoAway()` sends the protocol's go-away frame (when the codec provides one) as a request to the client -/\n"
	s += fmt.Sprintf("def xprotocolSendsGoAwayFrame : Bool := %v\n", len(callsTo(xg, "gs.GoAway")) == 1 && len(callsTo(xg, "sender.AppendHeaders")) == 1)
	h1f, err := parse(h1src)
	if err != nil {
		return "", err
	}
	h1g := findFunc(h1f, "streamConnection", "GoAway")
	if h1g == nil {
		return "", fmt.Errorf("http streamConnection.GoAway not found")
	}
	s += "/-- HTTP/1: `GoAway()` does nothing (no notification exists in the protocol) -/\n"
	s += fmt.Sprintf("def http1GoAwayIsNoop : Bool := %v\n", len(h1g.Body.List) == 0)

	// which stream layers allow their server connections to be transferred to the new process
	transferable := func(rel, recv, fn string) (string, error) {
		f, err := parse(rel)
		if err != nil {
			return "", err
		}
		var lit *ast.FuncLit
		for _, d := range f.Decls {
			fd, ok := d.(*ast.FuncDecl)
			if !ok || fd.Body == nil {
				continue
			}
			ast.Inspect(fd.Body, func(n ast.Node) bool {
				if c, ok := n.(*ast.CallExpr); ok && strings.HasSuffix(exprKey(c.Fun), ".SetTransferEventListener") && len(c.Args) == 1 {
					if l, ok := c.Args[0].(*ast.FuncLit); ok {
						lit = l
					}
				}
				return true
			})
		}
		if lit == nil || len(lit.Body.List) == 0 {
			return "", fmt.Errorf("%s: SetTransferEventListener(func) not found", rel)
		}
		r, ok := lit.Body.List[len(lit.Body.List)-1].(*ast.ReturnStmt)
		if !ok || len(r.Results) != 1 {
			return "", fmt.Errorf("%s: transfer listener does not end in a return", rel)
		}
		switch exprKey(r.Results[0]) {
		case "true", "false":
			return exprKey(r.Results[0]), nil
		}
		return "", fmt.Errorf("%s: transfer listener returns a non-constant", rel)
	}
	s += "/-- server connections that may be handed over to the new process (`SetTransferEventListener`) -/\n"
	for _, p := range [][2]string{{"pkg/stream/xprotocol/conn.go", "transferableXprotocol"}, {"pkg/stream/http/stream.go", "transferableHttp1"}, {"pkg/stream/http2/stream.go", "transferableHttp2"}} {
		v, err := transferable(p[0], "", "")
		if err != nil {
			return "", err
		}
		s += fmt.Sprintf("def %s : Bool := %s\n", p[1], v)
	}

	// ---- keeper: signal table
	kf, err := parse(ksrc)
	if err != nil {
		return "", err
	}
	kfd := findFunc(kf, "", "signalHandler")
	if kfd == nil {
		return "", fmt.Errorf("signalHandler not found")
	}
	sw = nil
	ast.Inspect(kfd.Body, func(n ast.Node) bool {
		if x, ok := n.(*ast.SwitchStmt); ok {
			sw = x
		}
		return true
	})
	if sw == nil {
		return "", fmt.Errorf("signalHandler: switch not found")
	}
	pairs = nil
	for _, cc := range sw.Body.List {
		c := cc.(*ast.CaseClause)
		ns := callsTo(c, "stagemanager.NoticeStop")
		if len(ns) != 1 || len(ns[0].Args) != 1 {
			continue
		}
		a, ok := amap[strings.TrimPrefix(exprKey(ns[0].Args[0]), "stagemanager.")]
		if !ok {
			return "", fmt.Errorf("signalHandler: unknown action %s", exprKey(ns[0].Args[0]))
		}
		for _, l := range c.List {
			pairs = append(pairs, fmt.Sprintf("(%q, %s)", strings.TrimPrefix(exprKey(l), "syscall."), a))
		}
	}
	s += "/-- `signalHandler`: signal ↦ stop action given to `NoticeStop` -/\n"
	s += "def signalActions : List (String × Int) := " + leanList(pairs) + "\n"
	s += footer("Shutdown")
	return s, nil
}

// ---------------------------------------------------------------------------------------------------------------

func sliceOffset(e ast.Expr, base string) (int64, bool) {
	switch x := e.(type) {
	case *ast.Ident:
		if x.Name == base {
			return 0, true
		}
	case *ast.SliceExpr:
		if exprKey(x.X) == base && x.High == nil {
			if x.Low == nil {
				return 0, true
			}
			return intLit(x.Low)
		}
	}
	return 0, false
}

func makeLen(fd *ast.FuncDecl) (int64, error) {
	for _, c := range callsTo(fd, "make") {
		if len(c.Args) == 2 {
			if n, ok := intLit(c.Args[1]); ok {
				return n, nil
			}
		}
	}
	return 0, fmt.Errorf("%s: make([]byte, n) not found", fd.Name.Name)
}

func unwrapConv(e ast.Expr) ast.Expr {
	for {
		switch x := e.(type) {
		case *ast.ParenExpr:
			e = x.X
		case *ast.CallExpr:
			k := exprKey(x.Fun)
			if (k == "int" || k == "uint32" || k == "uint64" || k == "int64") && len(x.Args) == 1 {
				e = x.Args[0]
			} else {
				return e
			}
		default:
			return e
		}
	}
}

func genTransfer() (string, error) {
	const src = "pkg/network/transfer.go"
	f, err := parse(src)
	if err != nil {
		return "", err
	}
	s := header("Transfer", src)
	for _, n := range []string{"transferErr", "transferNotify"} {
		v, err := intConst("pkg/network", n)
		if err != nil {
			return "", err
		}
		s += fmt.Sprintf("def %s : Nat := %d\n", n, v)
	}
	get := func(name string) (*ast.FuncDecl, error) {
		fd := findFunc(f, "", name)
		if fd == nil {
			return nil, fmt.Errorf("%s not found", name)
		}
		return fd, nil
	}
	// transferBuildHead
	fd, err := get("transferBuildHead")
	if err != nil {
		return "", err
	}
	if len(fd.Type.Params.List) < 1 {
		return "", fmt.Errorf("transferBuildHead: parameters")
	}
	var params []string
	for _, p := range fd.Type.Params.List {
		for _, n := range p.Names {
			params = append(params, n.Name)
		}
	}
	if len(params) != 2 {
		return "", fmt.Errorf("transferBuildHead: expected two parameters")
	}
	hl, err := makeLen(fd)
	if err != nil {
		return "", err
	}
	s += fmt.Sprintf("/-- header length and the offsets at which `transferBuildHead` stores its first / second argument (big-endian uint32) -/\ndef headLen : Nat := %d\n", hl)
	puts := callsTo(fd, "binary.BigEndian.PutUint32")
	if len(puts) != 2 {
		return "", fmt.Errorf("transferBuildHead: expected two binary.BigEndian.PutUint32 calls")
	}
	encOff := map[string]int64{}
	for _, p := range puts {
		off, ok := sliceOffset(p.Args[0], "buf")
		if !ok {
			return "", fmt.Errorf("transferBuildHead: destination slice")
		}
		encOff[exprKey(unwrapConv(p.Args[1]))] = off
	}
	for i, p := range params {
		off, ok := encOff[p]
		if !ok {
			return "", fmt.Errorf("transferBuildHead: %s is not stored", p)
		}
		s += fmt.Sprintf("def encOff%d : Nat := %d\n", i+1, off)
	}
	// transferRecvHead
	fd, err = get("transferRecvHead")
	if err != nil {
		return "", err
	}
	rm := callsTo(fd, "transferRecvMsg")
	if len(rm) != 1 || len(rm[0].Args) != 2 {
		return "", fmt.Errorf("transferRecvHead: transferRecvMsg call")
	}
	rl, ok := intLit(rm[0].Args[1])
	if !ok {
		return "", fmt.Errorf("transferRecvHead: length literal")
	}
	s += fmt.Sprintf("/-- bytes `transferRecvHead` reads and the offsets of its first / second result -/\ndef recvHeadLen : Nat := %d\n", rl)
	decOff := map[string]int64{}
	for _, st := range fd.Body.List {
		as, ok := st.(*ast.AssignStmt)
		if !ok || len(as.Lhs) != 1 || len(as.Rhs) != 1 {
			continue
		}
		inner := unwrapConv(as.Rhs[0])
		if c, ok := inner.(*ast.CallExpr); ok && exprKey(c.Fun) == "binary.BigEndian.Uint32" && len(c.Args) == 1 {
			off, ok := sliceOffset(c.Args[0], "buf")
			if !ok {
				return "", fmt.Errorf("transferRecvHead: source slice")
			}
			decOff[exprKey(as.Lhs[0])] = off
		}
	}
	var ret *ast.ReturnStmt
	for _, st := range fd.Body.List {
		if r, ok := st.(*ast.ReturnStmt); ok {
			ret = r
		}
	}
	if ret == nil || len(ret.Results) != 3 {
		return "", fmt.Errorf("transferRecvHead: final return")
	}
	for i := 0; i < 2; i++ {
		off, ok := decOff[exprKey(ret.Results[i])]
		if !ok {
			return "", fmt.Errorf("transferRecvHead: result %d is not decoded from the buffer", i)
		}
		s += fmt.Sprintf("def decOff%d : Nat := %d\n", i+1, off)
	}
	// transferReadSendData: head = (len of buffered read bytes before the TLS bytes are appended, TLS length)
	fd, err = get("transferReadSendData")
	if err != nil {
		return "", err
	}
	sh := callsTo(fd, "transferSendHead")
	if len(sh) != 1 || len(sh[0].Args) != 3 {
		return "", fmt.Errorf("transferReadSendData: transferSendHead call")
	}
	defs := map[string]string{}
	order := []string{}
	for _, st := range fd.Body.List {
		if as, ok := st.(*ast.AssignStmt); ok && len(as.Lhs) == 1 && len(as.Rhs) == 1 {
			if c, ok := as.Rhs[0].(*ast.CallExpr); ok {
				defs[exprKey(as.Lhs[0])] = exprKey(c.Fun)
				order = append(order, exprKey(c.Fun))
			}
		}
	}
	a1, a2 := exprKey(unwrapConv(sh[0].Args[1])), exprKey(unwrapConv(sh[0].Args[2]))
	readDataFirst := true
	switch {
	case defs[a1] == "buf.Len" && defs[a2] == "c.GetTLSInfo":
	case defs[a2] == "buf.Len" && defs[a1] == "c.GetTLSInfo":
		readDataFirst = false
	default:
		return "", fmt.Errorf("transferReadSendData: header fields are not buf.Len() and c.GetTLSInfo(buf)")
	}
	iLen, iTLS := -1, -1
	for i, o := range order {
		if o == "buf.Len" && iLen < 0 {
			iLen = i
		}
		if o == "c.GetTLSInfo" && iTLS < 0 {
			iTLS = i
		}
	}
	if !(iLen >= 0 && iLen < iTLS) {
		return "", fmt.Errorf("transferReadSendData: data length must be taken before the TLS bytes are appended")
	}
	if len(callsTo(fd, "transferSendIoBuffer")) != 1 {
		return "", fmt.Errorf("transferReadSendData: payload send")
	}
	s += fmt.Sprintf("/-- `transferReadSendData`: the header's first field is the data length and the second the TLS length (false: swapped); payload = data ++ TLS -/\ndef readHeadIsDataThenTls : Bool := %v\n", readDataFirst)
	// transferReadRecvData
	fd, err = get("transferReadRecvData")
	if err != nil {
		return "", err
	}
	var hd *ast.AssignStmt
	for _, st := range fd.Body.List {
		if as, ok := st.(*ast.AssignStmt); ok && len(as.Rhs) == 1 && len(callsTo(as, "transferRecvHead")) == 1 {
			hd = as
		}
	}
	if hd == nil || len(hd.Lhs) != 3 {
		return "", fmt.Errorf("transferReadRecvData: head assignment")
	}
	n1, n2 := exprKey(hd.Lhs[0]), exprKey(hd.Lhs[1])
	env := &Env{Names: map[string]string{n1: "dataSize", n2: "tlsSize"}, Calls: map[string]string{}}
	rm = callsTo(fd, "transferRecvMsg")
	if len(rm) != 1 || len(rm[0].Args) != 2 {
		return "", fmt.Errorf("transferReadRecvData: payload read")
	}
	tot, err := env.expr(rm[0].Args[1])
	if err != nil {
		return "", fmt.Errorf("transferReadRecvData: payload length: %v", err)
	}
	s += "/-- `transferReadRecvData`: payload bytes read after the head, and the two slices returned -/\n"
	s += "def readPayloadLen (dataSize : Int) (tlsSize : Int) : Int := " + tot + "\n"
	ret = nil
	for _, st := range fd.Body.List {
		if r, ok := st.(*ast.ReturnStmt); ok {
			ret = r
		}
	}
	if ret == nil || len(ret.Results) != 3 {
		return "", fmt.Errorf("transferReadRecvData: final return")
	}
	for i, nm := range []string{"Data", "Tls"} {
		se, ok := ret.Results[i].(*ast.SliceExpr)
		if !ok || exprKey(se.X) != "buf" {
			return "", fmt.Errorf("transferReadRecvData: result %d is not a slice of buf", i)
		}
		lo, hi := "0", "none"
		if se.Low != nil {
			if lo, err = env.expr(se.Low); err != nil {
				return "", err
			}
		}
		if se.High != nil {
			h, err := env.expr(se.High)
			if err != nil {
				return "", err
			}
			hi = "some " + h
		}
		s += fmt.Sprintf("def read%sLo (dataSize : Int) (tlsSize : Int) : Int := %s\ndef read%sHi (dataSize : Int) (tlsSize : Int) : Option Int := %s\n", nm, lo, nm, hi)
	}
	// transferWriteSendData / transferWriteRecvData: head = (data length, connection id)
	fd, err = get("transferWriteSendData")
	if err != nil {
		return "", err
	}
	sh = callsTo(fd, "transferSendHead")
	if len(sh) != 1 || len(sh[0].Args) != 3 {
		return "", fmt.Errorf("transferWriteSendData: transferSendHead call")
	}
	w1, w2 := unwrapConv(sh[0].Args[1]), unwrapConv(sh[0].Args[2])
	isLen := func(e ast.Expr) bool {
		c, ok := e.(*ast.CallExpr)
		return ok && exprKey(c.Fun) == "buf.Len"
	}
	sendLenFirst := true
	switch {
	case isLen(w1) && exprKey(w2) == "id":
	case isLen(w2) && exprKey(w1) == "id":
		sendLenFirst = false
	default:
		return "", fmt.Errorf("transferWriteSendData: header fields are not buf.Len() and id")
	}
	fd, err = get("transferWriteRecvData")
	if err != nil {
		return "", err
	}
	hd = nil
	for _, st := range fd.Body.List {
		if as, ok := st.(*ast.AssignStmt); ok && len(as.Rhs) == 1 && len(callsTo(as, "transferRecvHead")) == 1 {
			hd = as
		}
	}
	rm = callsTo(fd, "transferRecvMsg")
	ret = nil
	for _, st := range fd.Body.List {
		if r, ok := st.(*ast.ReturnStmt); ok {
			ret = r
		}
	}
	if hd == nil || len(hd.Lhs) != 3 || len(rm) != 1 || ret == nil || len(ret.Results) != 3 {
		return "", fmt.Errorf("transferWriteRecvData: expected a head read, one payload read and a 3-value return")
	}
	recvSizeFirst := true
	switch {
	case exprKey(rm[0].Args[1]) == exprKey(hd.Lhs[0]) && exprKey(ret.Results[0]) == exprKey(hd.Lhs[1]):
	case exprKey(rm[0].Args[1]) == exprKey(hd.Lhs[1]) && exprKey(ret.Results[0]) == exprKey(hd.Lhs[0]):
		recvSizeFirst = false
	default:
		return "", fmt.Errorf("transferWriteRecvData: payload length / returned id are not the two head fields")
	}
	s += fmt.Sprintf("/-- write message: the sender's header is (data length, connection id) (false: swapped); the receiver takes the first field as the length (false: the second) -/\ndef writeSendLenFirst : Bool := %v\ndef writeRecvSizeFirst : Bool := %v\n", sendLenFirst, recvSizeFirst)
	// ids
	fd, err = get("transferSendID")
	if err != nil {
		return "", err
	}
	il, err := makeLen(fd)
	if err != nil {
		return "", err
	}
	if len(callsTo(fd, "binary.BigEndian.PutUint32")) != 1 {
		return "", fmt.Errorf("transferSendID: big-endian uint32 expected")
	}
	fd, err = get("transferRecvID")
	if err != nil {
		return "", err
	}
	rm = callsTo(fd, "transferRecvMsg")
	if len(rm) != 1 || len(callsTo(fd, "binary.BigEndian.Uint32")) != 1 {
		return "", fmt.Errorf("transferRecvID: big-endian uint32 expected")
	}
	irl, ok := intLit(rm[0].Args[1])
	if !ok {
		return "", fmt.Errorf("transferRecvID: length literal")
	}
	s += fmt.Sprintf("/-- connection-id reply: bytes written / read -/\ndef idLen : Nat := %d\ndef idRecvLen : Nat := %d\n", il, irl)
	// type byte
	typeByte := func(fn string) (int64, error) {
		fd, err := get(fn)
		if err != nil {
			return 0, err
		}
		var v int64 = -1
		ast.Inspect(fd.Body, func(n ast.Node) bool {
			if as, ok := n.(*ast.AssignStmt); ok && len(as.Lhs) == 1 && len(as.Rhs) == 1 {
				if ix, ok := as.Lhs[0].(*ast.IndexExpr); ok && exprKey(ix.X) == "buf" {
					if x, ok := intLit(as.Rhs[0]); ok {
						v = x
					}
				}
			}
			return true
		})
		if v < 0 {
			return 0, fmt.Errorf("%s: type byte assignment not found", fn)
		}
		return v, nil
	}
	tw, err := typeByte("transferSendType")
	if err != nil {
		return "", err
	}
	tr, err := typeByte("transferSendFD")
	if err != nil {
		return "", err
	}
	fd, err = get("transferRecvType")
	if err != nil {
		return "", err
	}
	var rt int64 = -1
	ast.Inspect(fd.Body, func(n ast.Node) bool {
		if i, ok := n.(*ast.IfStmt); ok {
			if b, ok := i.Cond.(*ast.BinaryExpr); ok && b.Op == token.EQL {
				if ix, ok := b.X.(*ast.IndexExpr); ok && exprKey(ix.X) == "buf" {
					if x, ok := intLit(b.Y); ok {
						rt = x
					}
				}
			}
		}
		return true
	})
	if rt < 0 {
		return "", fmt.Errorf("transferRecvType: type test not found")
	}
	s += fmt.Sprintf("/-- type byte: sent for a write / read(+fd) transfer, and the value the receiver treats as write -/\ndef typeWrite : Nat := %d\ndef typeRead : Nat := %d\ndef recvTypeWrite : Nat := %d\n", tw, tr, rt)
	// the read buffer the new process gives a transferred connection: GetIoBuffer(len(buf) + spare)
	cf, err := parse("pkg/network/connection.go")
	if err != nil {
		return "", err
	}
	nsc := findFunc(cf, "", "newServerConnection")
	if nsc == nil {
		return "", fmt.Errorf("newServerConnection not found")
	}
	spare := int64(-1)
	ast.Inspect(nsc.Body, func(n ast.Node) bool {
		i, ok := n.(*ast.IfStmt)
		if !ok || i.Init == nil || !c11Mentions(i.Init, "types.VariableAcceptChan") {
			return true
		}
		for _, c := range callsTo(i.Body, "buffer.GetIoBuffer") {
			if len(c.Args) != 1 {
				continue
			}
			switch a := c.Args[0].(type) {
			case *ast.CallExpr:
				if exprKey(a.Fun) == "len" {
					spare = 0
				}
			case *ast.BinaryExpr:
				if l, ok := a.X.(*ast.CallExpr); ok && exprKey(l.Fun) == "len" && a.Op == token.ADD {
					if v, ok := intLit(a.Y); ok {
						spare = v
					}
				}
			}
		}
		return false
	})
	if spare < 0 {
		return "", fmt.Errorf("newServerConnection: allocation of the inherited read buffer not found")
	}
	s += "/-- `newServerConnection` (transfer path): the inherited read buffer is allocated with len(buffered bytes) + this many bytes -/\n"
	s += fmt.Sprintf("def inheritedBufferSpare : Nat := %d\n", spare)
	s += footer("Transfer")
	return s, nil
}
