-- translation-unsupported TlsAccept: open -out/pkg/server/handler.go: no such file or directory
namespace MosnVerif.Gen.TlsAccept
end MosnVerif.Gen.TlsAccept
