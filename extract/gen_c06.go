package main

import (
	"fmt"
	"go/ast"
)

func init() {
	register("WeightedCluster", genWeightedCluster)
}

// genWeightedCluster translates the body of the `for range rri.weightedClusters` loop of
// RouteRuleImplBase.ClusterName (pkg/router/base_rule.go) into the Lean step of the scan.
func genWeightedCluster() (string, error) {
	const src = "pkg/router/base_rule.go"
	f, err := parse(src)
	if err != nil {
		return "", err
	}
	fd := findFunc(f, "RouteRuleImplBase", "ClusterName")
	if fd == nil {
		return "", fmt.Errorf("ClusterName not found")
	}
	var loop *ast.RangeStmt
	ast.Inspect(fd.Body, func(n ast.Node) bool {
		if r, ok := n.(*ast.RangeStmt); ok && exprKey(r.X) == "rri.weightedClusters" {
			loop = r
		}
		return true
	})
	if loop == nil {
		return "", fmt.Errorf("range over rri.weightedClusters not found")
	}
	val, ok := loop.Value.(*ast.Ident)
	if !ok {
		return "", fmt.Errorf("range value is not an identifier")
	}
	env := &Env{
		Names: map[string]string{
			"selectedValue":             "selectedValue",
			val.Name + ".clusterWeight": "clusterWeight",
			val.Name + ".clusterName":   "clusterName",
		},
		Calls: map[string]string{"int": "", "int64": "", "uint32": ""},
	}
	// the loop body is translated by the control-aware translator (gen_c06h.go): `continue` and `break` are outcomes
	// of an iteration like `return`, so a shortcut `if … { break }` is part of the regenerated step.
	ctl := c06hCtl{
		Next: "(selectedValue, Ctl.next)",
		Stop: "(selectedValue, Ctl.stop)",
		Ret: func(rs []string) (string, error) {
			if len(rs) != 1 {
				return "", fmt.Errorf("return arity")
			}
			return "(selectedValue, Ctl.ret " + rs[0] + ")", nil
		},
	}
	body, err := c06hCtlBlock(env, ctl, loop.Body.List, "  ")
	if err != nil {
		return "", err
	}
	// the draw: selectedValue := rri.randInstance.Intn(int(rri.totalClusterWeight))
	s := header("WeightedCluster", src+" (RouteRuleImplBase.ClusterName loop body)")
	s += "/-- how one iteration of the scan ends: `next` = the next map entry is visited (end of the body or `continue`),\n`stop` = `break` (the scan ends without a result: `ClusterName` returns the default cluster), `ret n` = `return n`. -/\n"
	s += "inductive Ctl where\n  | next | stop | ret (name : String)\nderiving Repr, DecidableEq, Inhabited\n\n"
	s += "/-- one iteration of the scan: (new remainder, how the iteration ends). Integers are unbounded `Int` (cluster weights are uint32, the draw < total ≤ 2^32·n: no overflow in `int`). -/\n"
	s += "def stepCtl (selectedValue : Int) (clusterWeight : Int) (clusterName : String) : Int × Ctl :=\n  " + body + "\n\n"
	s += "/-- the iteration as (new remainder, returned cluster name if `ClusterName` returns here). -/\n"
	s += "def step (selectedValue : Int) (clusterWeight : Int) (clusterName : String) : Int × Option String :=\n"
	s += "  match stepCtl selectedValue clusterWeight clusterName with\n  | (v, Ctl.ret n) => (v, some n)\n  | (v, _) => (v, none)\n"
	s += footer("WeightedCluster")
	return s, nil
}
