package main

import (
	"fmt"
	"go/ast"
)

func init() {
	register("WeightedCluster", genWeightedCluster)
}

// genWeightedCluster translates the body of the `for range rri.weightedClusters` loop of
// RouteRuleImplBase.ClusterName (pkg/router/base_rule.go) into the Lean step of the scan.
func genWeightedCluster() (string, error) {
	const src = "pkg/router/base_rule.go"
	f, err := parse(src)
	if err != nil {
		return "", err
	}
	fd := findFunc(f, "RouteRuleImplBase", "ClusterName")
	if fd == nil {
		return "", fmt.Errorf("ClusterName not found")
	}
	var loop *ast.RangeStmt
	ast.Inspect(fd.Body, func(n ast.Node) bool {
		if r, ok := n.(*ast.RangeStmt); ok && exprKey(r.X) == "rri.weightedClusters" {
			loop = r
		}
		return true
	})
	if loop == nil {
		return "", fmt.Errorf("range over rri.weightedClusters not found")
	}
	val, ok := loop.Value.(*ast.Ident)
	if !ok {
		return "", fmt.Errorf("range value is not an identifier")
	}
	env := &Env{
		Names: map[string]string{
			"selectedValue":                "selectedValue",
			val.Name + ".clusterWeight":    "clusterWeight",
			val.Name + ".clusterName":      "clusterName",
		},
		Calls: map[string]string{"int": "", "int64": "", "uint32": ""},
		Ret: func(rs []string) string {
			if len(rs) != 1 {
				return "ERR"
			}
			return "(selectedValue, some " + rs[0] + ")"
		},
		Fall: "(selectedValue, none)",
	}
	body, err := env.block(loop.Body.List, "  ")
	if err != nil {
		return "", err
	}
	// the draw: selectedValue := rri.randInstance.Intn(int(rri.totalClusterWeight))
	s := header("WeightedCluster", src+" (RouteRuleImplBase.ClusterName loop body)")
	s += "/-- one iteration of the scan: (new remainder, returned cluster name if the scan stops here). Integers are unbounded `Int` (cluster weights are uint32, the draw < total ≤ 2^32·n: no overflow in `int`). -/\n"
	s += "def step (selectedValue : Int) (clusterWeight : Int) (clusterName : String) : Int × Option String :=\n  " + body + "\n"
	s += footer("WeightedCluster")
	return s, nil
}
