package main

// Gen modules of the proxy3 growth slice of the shared downstream machine (C03 / C10 / C14):
//   ProxyReply     — what a local reply does to the response parts the stream already holds: for sendHijackReply,
//                    sendHijackReplyWithBody (non-empty body) and the filter handler's SendDirectResponse, the effect on
//                    downstreamRespDataBuf and downstreamRespTrailers (cleared / set from this answer / kept), found by
//                    walking the function bodies (delegation between the two hijack functions is followed)
//   ProxyTerminate — streamReceiverFilterHandler.TerminateStream statement by statement, generic in the state, split at
//                    the reset of the upstream request into `claim` (the checks in their order, the claim of the response
//                    slot, the timers, the upstream reset) and `commit` (flag, local reply, wake-up); plus the order of the
//                    checks and the kind of the claim (compare-and-swap or plain load)
//   ProxyTimers    — which timers downStream.setupRetry stops (per-try / global), what cleanUp stops

import (
	"fmt"
	"go/ast"
	"strings"
)

func init() {
	register("ProxyReply", p3GenProxyReply)
	register("ProxyTerminate", p3GenProxyTerminate)
	register("ProxyTimers", p3GenProxyTimers)
}

// ---------------------------------------------------------------------------------------------------------------
// ProxyReply
// ---------------------------------------------------------------------------------------------------------------

type p3Reply struct {
	data, trailers string // clear | set | keep
	headers        bool   // downstreamRespHeaders assigned
	direct         bool   // directResponse = true
}

// p3ReplyWalk interprets the body of a reply function on the two fields. bodyNonEmpty: the truth value of `body != ""`.
func p3ReplyWalk(f *ast.File, fd *ast.FuncDecl, recv string, bodyNonEmpty bool, depth int) (p3Reply, error) {
	r := p3Reply{data: "keep", trailers: "keep"}
	if depth > 3 {
		return r, fmt.Errorf("%s: reply functions call each other too deeply", fd.Name.Name)
	}
	var walk func(l []ast.Stmt) error
	walk = func(l []ast.Stmt) error {
		for _, st := range l {
			if isLogStmt(st) {
				continue
			}
			s := src(st)
			switch s {
			case "s.requestInfo.SetResponseCode(code)", "status := strconv.Itoa(code)",
				"variable.SetString(s.context, types.VarHeaderStatus, status)",
				"atomic.StoreUint32(&s.reuseBuffer, 0)", "atomic.StoreUint32(&f.activeStream.reuseBuffer, 0)":
				continue
			case recv + ".downstreamRespHeaders = headers":
				r.headers = true
				continue
			case recv + ".downstreamRespDataBuf = nil":
				r.data = "clear"
				continue
			case recv + ".downstreamRespDataBuf = buffer.NewIoBufferString(body)", recv + ".downstreamRespDataBuf = buf":
				r.data = "set"
				continue
			case recv + ".downstreamRespTrailers = nil":
				r.trailers = "clear"
				continue
			case recv + ".downstreamRespTrailers = trailers":
				r.trailers = "set"
				continue
			case recv + ".directResponse = true":
				r.direct = true
				continue
			}
			if is, ok := st.(*ast.IfStmt); ok && is.Init == nil {
				c := src(is.Cond)
				switch c {
				case "headers == nil":
					continue // default (empty) header map
				case `body != ""`, `len(body) > 0`, `body == ""`, `len(body) == 0`:
					truth := bodyNonEmpty
					if c == `body == ""` || c == `len(body) == 0` {
						truth = !bodyNonEmpty
					}
					if truth {
						if err := walk(is.Body.List); err != nil {
							return err
						}
					} else if is.Else != nil {
						eb, ok := is.Else.(*ast.BlockStmt)
						if !ok {
							return fmt.Errorf("%s: else-if not supported: %s", fd.Name.Name, s)
						}
						if err := walk(eb.List); err != nil {
							return err
						}
					}
					continue
				}
			}
			// delegation to the other hijack function
			if es, ok := st.(*ast.ExprStmt); ok {
				if ce, ok := es.X.(*ast.CallExpr); ok {
					switch src(ce.Fun) {
					case "s.sendHijackReplyWithBody":
						if len(ce.Args) != 3 {
							return fmt.Errorf("%s: unexpected call %s", fd.Name.Name, s)
						}
						ne := bodyNonEmpty
						switch src(ce.Args[2]) {
						case `""`:
							ne = false
						case "body":
						default:
							return fmt.Errorf("%s: body argument %s not understood", fd.Name.Name, src(ce.Args[2]))
						}
						callee := findFunc(f, "downStream", "sendHijackReplyWithBody")
						if callee == nil {
							return fmt.Errorf("sendHijackReplyWithBody not found")
						}
						sub, err := p3ReplyWalk(f, callee, "s", ne, depth+1)
						if err != nil {
							return err
						}
						r = p3Merge(r, sub)
						continue
					case "s.sendHijackReply":
						callee := findFunc(f, "downStream", "sendHijackReply")
						if callee == nil {
							return fmt.Errorf("sendHijackReply not found")
						}
						sub, err := p3ReplyWalk(f, callee, "s", false, depth+1)
						if err != nil {
							return err
						}
						r = p3Merge(r, sub)
						continue
					}
				}
			}
			return fmt.Errorf("%s: unsupported statement %q", fd.Name.Name, s)
		}
		return nil
	}
	if err := walk(fd.Body.List); err != nil {
		return r, err
	}
	return r, nil
}

func p3Merge(a, b p3Reply) p3Reply {
	if b.data != "keep" {
		a.data = b.data
	}
	if b.trailers != "keep" {
		a.trailers = b.trailers
	}
	a.headers = a.headers || b.headers
	a.direct = a.direct || b.direct
	return a
}

func p3GenProxyReply() (string, error) {
	f, err := parse("pkg/proxy/downstream.go")
	if err != nil {
		return "", err
	}
	h := findFunc(f, "downStream", "sendHijackReply")
	hb := findFunc(f, "downStream", "sendHijackReplyWithBody")
	if h == nil || hb == nil {
		return "", fmt.Errorf("sendHijackReply / sendHijackReplyWithBody not found")
	}
	if sig := src(h.Type); sig != "func(code int, headers types.HeaderMap)" {
		return "", fmt.Errorf("sendHijackReply: unexpected signature %s", sig)
	}
	if sig := src(hb.Type); sig != "func(code int, headers types.HeaderMap, body string)" {
		return "", fmt.Errorf("sendHijackReplyWithBody: unexpected signature %s", sig)
	}
	rh, err := p3ReplyWalk(f, h, "s", false, 0)
	if err != nil {
		return "", err
	}
	rb, err := p3ReplyWalk(f, hb, "s", true, 0)
	if err != nil {
		return "", err
	}
	sf, err := parse("pkg/proxy/streamfilters.go")
	if err != nil {
		return "", err
	}
	d := findFunc(sf, "streamReceiverFilterHandler", "SendDirectResponse")
	if d == nil {
		return "", fmt.Errorf("SendDirectResponse not found")
	}
	if sig := src(d.Type); sig != "func(headers types.HeaderMap, buf types.IoBuffer, trailers types.HeaderMap)" {
		return "", fmt.Errorf("SendDirectResponse: unexpected signature %s", sig)
	}
	rd, err := p3ReplyWalk(sf, d, "f.activeStream", false, 0)
	if err != nil {
		return "", err
	}
	for n, r := range map[string]p3Reply{"sendHijackReply": rh, "sendHijackReplyWithBody": rb, "SendDirectResponse": rd} {
		if !r.headers || !r.direct {
			return "", fmt.Errorf("%s does not store the reply headers / set directResponse", n)
		}
	}
	s := header("ProxyReply", "pkg/proxy/downstream.go (sendHijackReply, sendHijackReplyWithBody)", "pkg/proxy/streamfilters.go (SendDirectResponse)")
	s += `/-- what a local reply does to a response part the stream already holds: ` + "`= nil`" + ` (clear), assigned from this answer (set:
the answer's own buffer / trailers, absent when the answer has none), or not touched (keep) -/
inductive Eff where
  | clear | set | keep
  deriving DecidableEq, Repr
`
	s += "/-- sendHijackReply(code, headers): downstreamRespDataBuf / downstreamRespTrailers -/\n"
	s += "def hijackData : Eff := ." + rh.data + "\n"
	s += "def hijackTrailers : Eff := ." + rh.trailers + "\n"
	s += "/-- sendHijackReplyWithBody(code, headers, body) with a non-empty body -/\n"
	s += "def hijackBodyData : Eff := ." + rb.data + "\n"
	s += "def hijackBodyTrailers : Eff := ." + rb.trailers + "\n"
	s += "/-- streamReceiverFilterHandler.SendDirectResponse(headers, buf, trailers) -/\n"
	s += "def directData : Eff := ." + rd.data + "\n"
	s += "def directTrailers : Eff := ." + rd.trailers + "\n"
	s += footer("ProxyReply")
	return s, nil
}

// ---------------------------------------------------------------------------------------------------------------
// ProxyTerminate
// ---------------------------------------------------------------------------------------------------------------

func p3GenProxyTerminate() (string, error) {
	f, err := parse("pkg/proxy/streamfilters.go")
	if err != nil {
		return "", err
	}
	fd := findFunc(f, "streamReceiverFilterHandler", "TerminateStream")
	if fd == nil {
		return "", fmt.Errorf("TerminateStream not found")
	}
	if sig := src(fd.Type); sig != "func(code int) bool" {
		return "", fmt.Errorf("TerminateStream: unexpected signature %s", sig)
	}
	const casNeg = "!atomic.CompareAndSwapUint32(&s.upstreamResponseReceived, 0, 1)"
	const loadSet = "atomic.LoadUint32(&s.upstreamResponseReceived) == 1"
	const loadSet2 = "atomic.LoadUint32(&s.upstreamResponseReceived) != 0"
	mk := func() *threader {
		return &threader{
			vars:  []string{"s"},
			types: []string{"σ"},
			conds: map[string]string{
				"s.downstreamRespHeaders != nil":               "(o.hasResponseHeaders s)",
				"atomic.LoadUint32(&s.downstreamCleaned) == 1": "(o.cleaned s)",
				"f.id != s.ID":                                 "(!(o.idMatches s))",
				"f.id != atomic.LoadUint32(&s.ID)":             "(!(o.idMatches s))",
				casNeg:                                         "(o.responseReceived s)",
				loadSet:                                        "(o.responseReceived s)",
				loadSet2:                                       "(o.responseReceived s)",
			},
			condFx:    map[string]string{},
			condFxNeg: map[string]string{casNeg: "let s := o.setResponseReceived s"},
			stmts: map[string]string{
				"s := f.activeStream":                                                 "",
				"atomic.StoreUint32(&s.reuseBuffer, 0)":                               "let s := o.noReuse s",
				"if s.responseTimer != nil { s.responseTimer.Stop() }":                "let s := o.stopGlobalTimer s",
				"if s.perRetryTimer != nil { s.perRetryTimer.Stop() }":                "let s := o.stopPerTryTimer s",
				"if s.upstreamRequest != nil { s.upstreamRequest.resetStream() }":     "let s := o.resetUpstream s",
				"s.requestInfo.SetResponseFlag(api.DownStreamTerminate)":              "let s := o.flagTerminate s",
				"s.sendHijackReply(code, f.activeStream.downstreamReqHeaders)":        "let s := o.hijack s",
				"s.sendHijackReply(code, s.downstreamReqHeaders)":                     "let s := o.hijack s",
				"s.sendNotify()":                                                      "let s := o.notify s",
			},
			skip: isLogStmt,
			ret: func(rs []string) (string, error) {
				if len(rs) == 1 && (rs[0] == "true" || rs[0] == "false") {
					return "(s, " + rs[0] + ")", nil
				}
				return "", fmt.Errorf("TerminateStream: unsupported return %v", rs)
			},
		}
	}
	// split at the reset of the upstream request (the one call into the stream layer between the claim and the reply)
	split := -1
	var checks []string
	claimKind := ""
	for i, st := range fd.Body.List {
		if src(st) == "if s.upstreamRequest != nil { s.upstreamRequest.resetStream() }" {
			if split >= 0 {
				return "", fmt.Errorf("TerminateStream: the upstream request is reset twice")
			}
			split = i
		}
		if is, ok := st.(*ast.IfStmt); ok && is.Init == nil && is.Else == nil && len(is.Body.List) == 1 && src(is.Body.List[0]) == "return false" {
			switch src(is.Cond) {
			case "s.downstreamRespHeaders != nil":
				checks = append(checks, "responseHeaders")
			case "atomic.LoadUint32(&s.downstreamCleaned) == 1":
				checks = append(checks, "cleaned")
			case "f.id != s.ID", "f.id != atomic.LoadUint32(&s.ID)":
				checks = append(checks, "generation")
			case casNeg:
				checks = append(checks, "claim")
				claimKind = "cas"
			case loadSet, loadSet2:
				checks = append(checks, "claim")
				claimKind = "load"
			default:
				return "", fmt.Errorf("TerminateStream: unknown refusal condition %s", src(is.Cond))
			}
			if split >= 0 {
				return "", fmt.Errorf("TerminateStream: a refusal after the upstream request was reset")
			}
		}
	}
	if split < 0 {
		return "", fmt.Errorf("TerminateStream: `if s.upstreamRequest != nil { s.upstreamRequest.resetStream() }` not found")
	}
	if claimKind == "" {
		return "", fmt.Errorf("TerminateStream: no test of upstreamResponseReceived found")
	}
	claim, err := mk().block(fd.Body.List[:split+1], "  ", "(s, true)")
	if err != nil {
		return "", err
	}
	commit, err := mk().block(fd.Body.List[split+1:], "  ", "(s, true)")
	if err != nil {
		return "", err
	}
	s := header("ProxyTerminate", "pkg/proxy/streamfilters.go (streamReceiverFilterHandler.TerminateStream)")
	s += `/-- what TerminateStream reads and does, as operations on an abstract state σ -/
structure Ops (σ : Type) where
  hasResponseHeaders : σ → Bool   -- s.downstreamRespHeaders != nil
  cleaned : σ → Bool              -- downstreamCleaned == 1
  idMatches : σ → Bool            -- f.id == s.ID (the handler was created for the request that owns the object now)
  responseReceived : σ → Bool     -- upstreamResponseReceived == 1
  setResponseReceived : σ → σ     -- the successful compare-and-swap 0 -> 1
  noReuse : σ → σ                 -- reuseBuffer = 0
  stopGlobalTimer : σ → σ
  stopPerTryTimer : σ → σ
  resetUpstream : σ → σ           -- upstreamRequest.resetStream() when an upstream request exists
  flagTerminate : σ → σ
  hijack : σ → σ                  -- sendHijackReply(code, request headers)
  notify : σ → σ
/-- a refusal test of TerminateStream -/
inductive Check where
  | responseHeaders | cleaned | generation | claim
  deriving DecidableEq, Repr
/-- how the response slot (upstreamResponseReceived) is tested -/
inductive ClaimKind where
  | cas | load
  deriving DecidableEq, Repr
`
	s += "/-- the refusal tests of TerminateStream in program order -/\ndef checks : List Check := [" + func() string {
		var p []string
		for _, c := range checks {
			p = append(p, "."+c)
		}
		return strings.Join(p, ", ")
	}() + "]\n"
	s += "def claimKind : ClaimKind := ." + claimKind + "\n"
	s += "/-- TerminateStream up to and including the reset of the upstream request: (state, false) = refused (`return false`) -/\n"
	s += "def claim {σ : Type} (o : Ops σ) (s : σ) : σ × Bool :=\n  " + claim + "\n"
	s += "/-- the rest of TerminateStream: response flag, local reply, wake-up, `return true` -/\n"
	s += "def commit {σ : Type} (o : Ops σ) (s : σ) : σ × Bool :=\n  " + commit + "\n"
	s += "/-- TerminateStream(code) as one call; `between` is what another goroutine does to the state while the call is inside the\nreset of the upstream request (identity when nothing interleaves) -/\n"
	s += "def terminateStream {σ : Type} (o : Ops σ) (between : σ → σ) (s : σ) : σ × Bool :=\n  match claim o s with\n  | (s, true) => commit o (between s)\n  | (s, false) => (s, false)\n"
	s += footer("ProxyTerminate")
	return s, nil
}

// ---------------------------------------------------------------------------------------------------------------
// ProxyTimers
// ---------------------------------------------------------------------------------------------------------------

// p3TimerStops scans a function body for `if s.<timer> != nil { s.<timer>.Stop(); s.<timer> = nil }` (stop and forget) and
// rejects any other use of the two timer fields.
func p3TimerStops(fd *ast.FuncDecl) (perTry, global bool, err error) {
	for _, st := range fd.Body.List {
		s := src(st)
		switch s {
		case "if s.perRetryTimer != nil { s.perRetryTimer.Stop() s.perRetryTimer = nil }":
			perTry = true
			continue
		case "if s.responseTimer != nil { s.responseTimer.Stop() s.responseTimer = nil }":
			global = true
			continue
		}
		if strings.Contains(s, "perRetryTimer") || strings.Contains(s, "responseTimer") {
			return false, false, fmt.Errorf("%s: unsupported use of a timer: %s", fd.Name.Name, s)
		}
	}
	return perTry, global, nil
}

func p3GenProxyTimers() (string, error) {
	f, err := parse("pkg/proxy/downstream.go")
	if err != nil {
		return "", err
	}
	sr := findFunc(f, "downStream", "setupRetry")
	cu := findFunc(f, "downStream", "cleanUp")
	if sr == nil || cu == nil {
		return "", fmt.Errorf("setupRetry / cleanUp not found")
	}
	sp, sg, err := p3TimerStops(sr)
	if err != nil {
		return "", err
	}
	cp, cg, err := p3TimerStops(cu)
	if err != nil {
		return "", err
	}
	s := header("ProxyTimers", "pkg/proxy/downstream.go (downStream.setupRetry, cleanUp)")
	s += "/-- setupRetry stops and forgets the per-try timer (`s.perRetryTimer.Stop(); s.perRetryTimer = nil`) -/\n"
	s += fmt.Sprintf("def setupRetryStopsPerTry : Bool := %v\n", sp)
	s += "/-- setupRetry stops and forgets the global (whole-request) timer `s.responseTimer` -/\n"
	s += fmt.Sprintf("def setupRetryStopsGlobal : Bool := %v\n", sg)
	s += "/-- cleanUp stops and forgets the per-try / the global timer -/\n"
	s += fmt.Sprintf("def cleanUpStopsPerTry : Bool := %v\n", cp)
	s += fmt.Sprintf("def cleanUpStopsGlobal : Bool := %v\n", cg)
	s += footer("ProxyTimers")
	return s, nil
}
