package main

// Gen.C08H2Trailers (property C08, builder c08l9): where the HTTP/2 SERVER stream layer creates, and where it
// dereferences, the trailer object of a request stream, and which tests run before trailers are processed.
//
//	MServerConn.processHeaders (pkg/module/http2/mhttp2.go), existing-stream branch `if st := sc.getStream(…); st != nil {`:
//	    the tests in front of `st.mprocessTrailerHeaders(ctx, f)` (resetQueued, state == stateHalfClosedRemote …)
//	stream.mprocessTrailerHeaders: the order of its tests
//	serverStreamConnection.handleFrame (pkg/stream/http2/stream.go): in the new-stream block, is
//	    `stream.trailer = &mhttp2.HeaderMap{}` reached when endStream is set; is `stream.trailer.H = …` guarded by a nil test

import (
	"fmt"
	"go/ast"
	"strings"
)

func init() { register("C08H2Trailers", c08l9GenTrailers) }

func c08l9GenTrailers() (string, error) {
	s := header("C08H2Trailers", "pkg/module/http2/mhttp2.go", "pkg/stream/http2/stream.go")
	mf, err := parse("pkg/module/http2/mhttp2.go")
	if err != nil {
		return "", err
	}
	ph := findFunc(mf, "MServerConn", "processHeaders")
	if ph == nil {
		return "", fmt.Errorf("MServerConn.processHeaders not found")
	}
	// the existing-stream branch
	var br *ast.IfStmt
	for _, st := range ph.Body.List {
		if is, ok := st.(*ast.IfStmt); ok && is.Init != nil && strings.Contains(exprText(is.Init.(*ast.AssignStmt).Rhs[0]), "getStream(") {
			br = is
		}
	}
	if br == nil {
		return "", fmt.Errorf("processHeaders: existing-stream branch not found")
	}
	var tests []string
	called := false
	for _, st := range br.Body.List {
		switch y := st.(type) {
		case *ast.IfStmt:
			if called {
				return "", fmt.Errorf("processHeaders: test after mprocessTrailerHeaders")
			}
			ret := ""
			if len(y.Body.List) > 0 {
				if rs, ok := y.Body.List[len(y.Body.List)-1].(*ast.ReturnStmt); ok && len(rs.Results) == 4 {
					ret = exprText(rs.Results[3])
				}
			}
			tests = append(tests, fmt.Sprintf("%q", exprText(y.Cond)+" => "+ret))
		case *ast.AssignStmt:
			if strings.Contains(exprText(y.Rhs[0]), "mprocessTrailerHeaders(") {
				called = true
			}
		}
	}
	if !called {
		return "", fmt.Errorf("processHeaders: mprocessTrailerHeaders call not found")
	}
	s += "/-- MServerConn.processHeaders, HEADERS for a stream that exists: the tests in front of mprocessTrailerHeaders (`cond => error returned`) -/\n"
	s += fmt.Sprintf("def srvBeforeTrailers : List String := [%s]\n", strings.Join(tests, ", "))

	mt := findFunc(mf, "stream", "mprocessTrailerHeaders")
	if mt == nil {
		return "", fmt.Errorf("stream.mprocessTrailerHeaders not found")
	}
	var order []string
	for _, st := range mt.Body.List {
		switch y := st.(type) {
		case *ast.IfStmt:
			order = append(order, fmt.Sprintf("%q", "if "+exprText(y.Cond)))
		case *ast.AssignStmt:
			order = append(order, fmt.Sprintf("%q", exprText(y.Lhs[0])+y.Tok.String()+exprText(y.Rhs[0])))
		}
	}
	s += "/-- stream.mprocessTrailerHeaders: its top-level tests and assignments in order -/\n"
	s += fmt.Sprintf("def srvTrailerSteps : List String := [%s]\n", strings.Join(order, ", "))

	sf, err := parse("pkg/stream/http2/stream.go")
	if err != nil {
		return "", err
	}
	hf := findFunc(sf, "serverStreamConnection", "handleFrame")
	if hf == nil {
		return "", fmt.Errorf("serverStreamConnection.handleFrame not found")
	}
	// new-stream block: `if h2s != nil { … }`
	objWhenEnded, objWhenOpen, found := false, false, false
	derefs, guarded := 0, 0
	for _, st := range hf.Body.List {
		is, ok := st.(*ast.IfStmt)
		if !ok {
			continue
		}
		switch exprText(is.Cond) {
		case "h2s!=nil":
			found = true
			returned := false // an `if endStream { …; return }` was passed
			for _, b := range is.Body.List {
				if e, ok := b.(*ast.IfStmt); ok && exprText(e.Cond) == "endStream" && len(e.Body.List) > 0 {
					if _, ok := e.Body.List[len(e.Body.List)-1].(*ast.ReturnStmt); ok {
						returned = true
					}
					for _, c := range e.Body.List {
						if a, ok := c.(*ast.AssignStmt); ok && exprText(a.Lhs[0]) == "stream.trailer" {
							objWhenEnded = true
						}
					}
				}
				if a, ok := b.(*ast.AssignStmt); ok && len(a.Lhs) == 1 && exprText(a.Lhs[0]) == "stream.trailer" {
					objWhenOpen = true
					if !returned {
						objWhenEnded = true
					}
				}
			}
		case "hasTrailer":
			ast.Inspect(is.Body, func(x ast.Node) bool {
				if a, ok := x.(*ast.AssignStmt); ok && len(a.Lhs) == 1 && exprText(a.Lhs[0]) == "stream.trailer.H" {
					derefs++
				}
				if i2, ok := x.(*ast.IfStmt); ok && strings.Contains(exprText(i2.Cond), "stream.trailer") && strings.Contains(exprText(i2.Cond), "nil") {
					guarded++
				}
				return true
			})
		default:
			if strings.Contains(exprText(is.Cond), "hasTrailer") && strings.Contains(exprText(is.Cond), "stream.trailer!=nil") {
				ast.Inspect(is.Body, func(x ast.Node) bool {
					if a, ok := x.(*ast.AssignStmt); ok && len(a.Lhs) == 1 && exprText(a.Lhs[0]) == "stream.trailer.H" {
						derefs++
						guarded++
					}
					return true
				})
			}
		}
	}
	if !found || derefs != 1 {
		return "", fmt.Errorf("handleFrame: shape (new-stream block %v, %d trailer dereferences)", found, derefs)
	}
	s += "/-- serverStreamConnection.handleFrame, new stream: `stream.trailer = &HeaderMap{}` is reached when the HEADERS frame does not end the stream -/\n"
	s += fmt.Sprintf("def srvTrailerObjWhenOpen : Bool := %v\n", objWhenOpen)
	s += "/-- … and when it ends the stream (END_STREAM on the request HEADERS) -/\n"
	s += fmt.Sprintf("def srvTrailerObjWhenEnded : Bool := %v\n", objWhenEnded)
	s += "/-- serverStreamConnection.handleFrame: `stream.trailer.H = …` is guarded by a nil test of stream.trailer -/\n"
	s += fmt.Sprintf("def srvTrailerDerefGuarded : Bool := %v\n", guarded > 0)
	// [c01h10] MServerConn.processHeaders, new stream: `if req.Trailer == nil && !f.StreamEnded() { req.Trailer = make(http.Header) }`
	// in front of `st.reqTrailer = req.Trailer`: the trailer map exists for every request whose HEADERS do not end the
	// stream, whether a `Trailer` field declared trailers or not (undeclared trailer fields are kept and checked like declared ones)
	mapWhenOpen, seenAssign := false, false
	for _, st := range ph.Body.List {
		switch y := st.(type) {
		case *ast.IfStmt:
			if !seenAssign && exprText(y.Cond) == "req.Trailer==nil&&!f.StreamEnded()" && len(y.Body.List) == 1 && y.Else == nil {
				if a, ok := y.Body.List[0].(*ast.AssignStmt); ok && exprText(a.Lhs[0]) == "req.Trailer" && exprText(a.Rhs[0]) == "make(http.Header)" {
					mapWhenOpen = true
				}
			}
		case *ast.AssignStmt:
			if len(y.Lhs) == 1 && exprText(y.Lhs[0]) == "st.reqTrailer" {
				seenAssign = true
			}
		}
	}
	s += "/-- MServerConn.processHeaders: the request's trailer map is allocated for every request whose HEADERS do not end the stream (declared or not) -/\n"
	s += fmt.Sprintf("def srvTrailerMapWhenOpen : Bool := %v\n", mapWhenOpen)
	return s + footer("C08H2Trailers"), nil
}
