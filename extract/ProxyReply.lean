-- translation-unsupported ProxyReply: open -out/pkg/proxy/downstream.go: no such file or directory
namespace MosnVerif.Gen.ProxyReply
end MosnVerif.Gen.ProxyReply
