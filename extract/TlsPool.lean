-- translation-unsupported TlsPool: open -out/pkg/mtls/confighook.go: no such file or directory
namespace MosnVerif.Gen.TlsPool
end MosnVerif.Gen.TlsPool
