-- translation-unsupported Hpack: open -out/pkg/module/http2/hpack/hpack.go: no such file or directory
namespace MosnVerif.Gen.Hpack
end MosnVerif.Gen.Hpack
