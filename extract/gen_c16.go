package main

// C16: regenerates
//   Gen/HealthFlags.lean  — the ATOMIC-STEP PROGRAM of SetHealthFlag / ClearHealthFlag (pkg/upstream/cluster/health.go):
//                           which atomic accesses of the shared word occur in which order (load, store, CAS-and-return,
//                           inside a retry loop or not), the pure modification each applies, the host-side readers
//                           Health()/ContainHealthFlag() of host.go, and the STEP PROGRAM of GetHealthFlagPointer: which
//                           sync.Map operations on healthStore occur in which order (Load-and-return-on-hit, Store of a
//                           fresh word, LoadOrStore of a fresh word), i.e. how the shared word itself is allocated;
//   Gen/HealthCheck.lean  — the HandleSuccess / HandleFailure threshold automaton of
//                           pkg/upstream/healthcheck/session_checker.go, the default thresholds and the zero->default
//                           rule of newHealthChecker, and the (changed, isHealthy) arguments incHealthy/decHealthy pass
//                           to the callbacks.

import (
	"fmt"
	"go/ast"
	"go/token"
	"os"
	"path/filepath"
	"strings"
)

func init() {
	register("HealthFlags", genHealthFlags)
	register("HealthCheck", genHealthCheck)
}

// ---------------------------------------------------------------------------------------------------------------
// HealthFlags

// bvExpr renders a Go uint64 bit expression over the names in `names` as a Lean `BitVec 64` expression.
func bvExpr(e ast.Expr, names map[string]string) (string, error) {
	switch x := e.(type) {
	case *ast.ParenExpr:
		return bvExpr(x.X, names)
	case *ast.Ident:
		if n, ok := names[x.Name]; ok {
			return n, nil
		}
		return "", fmt.Errorf("unknown identifier %s", x.Name)
	case *ast.BasicLit:
		if x.Kind == token.INT {
			return "(" + x.Value + " : BitVec 64)", nil
		}
	case *ast.CallExpr:
		head := exprKey(x.Fun)
		if (head == "uint64" || head == "api.HealthFlag") && len(x.Args) == 1 {
			return bvExpr(x.Args[0], names) // HealthFlag is a non-negative int: conversion keeps the low 64 bits
		}
		if head == "atomic.LoadUint64" && len(x.Args) == 1 {
			if n, ok := names["load:"+exprKey(x.Args[0])]; ok {
				return n, nil
			}
		}
		return "", fmt.Errorf("unsupported call %s", head)
	case *ast.UnaryExpr:
		s, err := bvExpr(x.X, names)
		if err != nil {
			return "", err
		}
		if x.Op == token.XOR {
			return "(~~~" + s + ")", nil
		}
		return "", fmt.Errorf("unary %v", x.Op)
	case *ast.BinaryExpr:
		l, err := bvExpr(x.X, names)
		if err != nil {
			return "", err
		}
		r, err := bvExpr(x.Y, names)
		if err != nil {
			return "", err
		}
		switch x.Op {
		case token.OR:
			return "(" + l + " ||| " + r + ")", nil
		case token.AND:
			return "(" + l + " &&& " + r + ")", nil
		case token.XOR:
			return "(" + l + " ^^^ " + r + ")", nil
		case token.AND_NOT:
			return "(" + l + " &&& (~~~" + r + "))", nil
		}
		return "", fmt.Errorf("binary %v", x.Op)
	}
	return "", fmt.Errorf("unsupported expression %T", e)
}

// bvBool renders a comparison of uint64 expressions as a Lean Bool.
func bvBool(e ast.Expr, names map[string]string) (string, error) {
	if p, ok := e.(*ast.ParenExpr); ok {
		return bvBool(p.X, names)
	}
	b, ok := e.(*ast.BinaryExpr)
	if !ok {
		return "", fmt.Errorf("not a comparison: %T", e)
	}
	cmp := map[token.Token]string{token.EQL: "=", token.NEQ: "≠", token.GTR: ">", token.LSS: "<", token.GEQ: "≥", token.LEQ: "≤"}
	o, ok := cmp[b.Op]
	if !ok {
		return "", fmt.Errorf("comparison %v", b.Op)
	}
	l, err := bvExpr(b.X, names)
	if err != nil {
		return "", err
	}
	r, err := bvExpr(b.Y, names)
	if err != nil {
		return "", err
	}
	return "decide (" + l + " " + o + " " + r + ")", nil
}

type flagProg struct {
	atoms  []string
	loop   bool
	modify string
}

func isYield(s ast.Stmt) (bool, string) {
	es, ok := s.(*ast.ExprStmt)
	if !ok {
		return false, ""
	}
	c, ok := es.X.(*ast.CallExpr)
	if !ok || exprKey(c.Fun) != "verifYield" || len(c.Args) != 1 {
		return false, ""
	}
	if l, ok := c.Args[0].(*ast.BasicLit); ok {
		return true, l.Value
	}
	return true, "?"
}

// flagProgram reads the body of SetHealthFlag / ClearHealthFlag: `if p == nil { return }` then either straight-line
// code or one `for { … }`, consisting of  local := atomic.LoadUint64(p) | local op= expr | atomic.StoreUint64(p, expr) |
// if atomic.CompareAndSwapUint64(p, local, expr) { return }  — each atomic access preceded by `verifYield(<its index>)`.
func flagProgram(fd *ast.FuncDecl) (*flagProg, error) {
	if fd.Type.Params == nil || len(fd.Type.Params.List) != 2 {
		return nil, fmt.Errorf("%s: expected (p *uint64, flag api.HealthFlag)", fd.Name.Name)
	}
	pName := fd.Type.Params.List[0].Names[0].Name
	flagName := fd.Type.Params.List[1].Names[0].Name
	body := fd.Body.List
	// nil guard
	if len(body) == 0 {
		return nil, fmt.Errorf("%s: empty body", fd.Name.Name)
	}
	if ifs, ok := body[0].(*ast.IfStmt); ok && ifs.Init == nil && ifs.Else == nil {
		if b, ok := ifs.Cond.(*ast.BinaryExpr); ok && b.Op == token.EQL && exprKey(b.X) == pName && exprKey(b.Y) == "nil" &&
			len(ifs.Body.List) == 1 && isBareReturn(ifs.Body.List[0]) {
			body = body[1:]
		}
	}
	pr := &flagProg{}
	if len(body) == 1 {
		if f, ok := body[0].(*ast.ForStmt); ok {
			if f.Init != nil || f.Cond != nil || f.Post != nil {
				return nil, fmt.Errorf("%s: only `for { … }` is supported", fd.Name.Name)
			}
			pr.loop = true
			body = f.Body.List
		}
	}
	local := ""   // Go name of the local holding the loaded value
	cur := ""     // its current value as a Lean expression over `old` and `flag`
	yielded := "" // site number of the verifYield immediately pending
	setModify := func(m string) error {
		if pr.modify != "" && pr.modify != m {
			return fmt.Errorf("%s: two different stored values", fd.Name.Name)
		}
		pr.modify = m
		return nil
	}
	needYield := func() error {
		want := fmt.Sprint(len(pr.atoms))
		if yielded != want {
			return fmt.Errorf("%s: no verifYield(%s) immediately before atomic access #%s (the scheduler could not interleave there)", fd.Name.Name, want, want)
		}
		yielded = ""
		return nil
	}
	valueOf := func(e ast.Expr) (string, error) {
		if local == "" {
			return "", fmt.Errorf("%s: value used before the load", fd.Name.Name)
		}
		s, err := bvExpr(e, map[string]string{flagName: "flag", local: "\x00"})
		if err != nil {
			return "", err
		}
		return strings.ReplaceAll(s, "\x00", cur), nil
	}
	for _, st := range body {
		if y, site := isYield(st); y {
			yielded = site
			continue
		}
		switch x := st.(type) {
		case *ast.AssignStmt:
			if len(x.Lhs) != 1 || len(x.Rhs) != 1 {
				return nil, fmt.Errorf("%s: multi-assign", fd.Name.Name)
			}
			lhs, ok := x.Lhs[0].(*ast.Ident)
			if !ok {
				return nil, fmt.Errorf("%s: assignment to non-identifier", fd.Name.Name)
			}
			if c, ok := x.Rhs[0].(*ast.CallExpr); ok && exprKey(c.Fun) == "atomic.LoadUint64" {
				if len(c.Args) != 1 || exprKey(c.Args[0]) != pName {
					return nil, fmt.Errorf("%s: load of something else than %s", fd.Name.Name, pName)
				}
				if x.Tok != token.DEFINE && x.Tok != token.ASSIGN {
					return nil, fmt.Errorf("%s: load with %v", fd.Name.Name, x.Tok)
				}
				if err := needYield(); err != nil {
					return nil, err
				}
				pr.atoms = append(pr.atoms, "load")
				local, cur = lhs.Name, "old"
				continue
			}
			if lhs.Name != local {
				return nil, fmt.Errorf("%s: assignment to %s", fd.Name.Name, lhs.Name)
			}
			rhs, err := valueOf(x.Rhs[0])
			if err != nil {
				return nil, err
			}
			switch x.Tok {
			case token.ASSIGN:
				cur = rhs
			case token.OR_ASSIGN:
				cur = "(" + cur + " ||| " + rhs + ")"
			case token.AND_ASSIGN:
				cur = "(" + cur + " &&& " + rhs + ")"
			case token.XOR_ASSIGN:
				cur = "(" + cur + " ^^^ " + rhs + ")"
			case token.AND_NOT_ASSIGN:
				cur = "(" + cur + " &&& (~~~" + rhs + "))"
			default:
				return nil, fmt.Errorf("%s: assign op %v", fd.Name.Name, x.Tok)
			}
		case *ast.ExprStmt:
			c, ok := x.X.(*ast.CallExpr)
			if !ok || exprKey(c.Fun) != "atomic.StoreUint64" || len(c.Args) != 2 || exprKey(c.Args[0]) != pName {
				return nil, fmt.Errorf("%s: unsupported statement", fd.Name.Name)
			}
			v, err := valueOf(c.Args[1])
			if err != nil {
				return nil, err
			}
			if err := needYield(); err != nil {
				return nil, err
			}
			if err := setModify(v); err != nil {
				return nil, err
			}
			pr.atoms = append(pr.atoms, "store")
		case *ast.IfStmt:
			c, ok := x.Cond.(*ast.CallExpr)
			if x.Init != nil || x.Else != nil || !ok || exprKey(c.Fun) != "atomic.CompareAndSwapUint64" || len(c.Args) != 3 ||
				exprKey(c.Args[0]) != pName || len(x.Body.List) != 1 || !isBareReturn(x.Body.List[0]) {
				return nil, fmt.Errorf("%s: only `if atomic.CompareAndSwapUint64(%s, old, new) { return }` is supported", fd.Name.Name, pName)
			}
			if exprKey(c.Args[1]) != local || cur != "old" {
				return nil, fmt.Errorf("%s: CAS does not compare with the unmodified loaded value", fd.Name.Name)
			}
			v, err := valueOf(c.Args[2])
			if err != nil {
				return nil, err
			}
			if err := needYield(); err != nil {
				return nil, err
			}
			if err := setModify(v); err != nil {
				return nil, err
			}
			pr.atoms = append(pr.atoms, "casRet")
		default:
			return nil, fmt.Errorf("%s: unsupported statement %T", fd.Name.Name, st)
		}
	}
	if pr.modify == "" {
		return nil, fmt.Errorf("%s: the word is never written", fd.Name.Name)
	}
	return pr, nil
}

func isBareReturn(s ast.Stmt) bool {
	r, ok := s.(*ast.ReturnStmt)
	return ok && len(r.Results) == 0
}

func (p *flagProg) lean() string {
	var a []string
	for _, x := range p.atoms {
		a = append(a, "."+x)
	}
	return fmt.Sprintf("⟨[%s], %v⟩", strings.Join(a, ", "), p.loop)
}


// ---- GetHealthFlagPointer: the allocation of the shared word

// retOfLoaded: does the statement list return the loaded value `v` as a *uint64 and nothing else?
//   return v.(*uint64)   |   p, _ := v.(*uint64); return p   |   p := v.(*uint64); return p
func retOfLoaded(l []ast.Stmt, v string) bool {
	isAssert := func(e ast.Expr) bool {
		ta, ok := e.(*ast.TypeAssertExpr)
		return ok && exprKey(ta.X) == v && ta.Type != nil && exprKey(ta.Type) == "*uint64"
	}
	switch len(l) {
	case 1:
		r, ok := l[0].(*ast.ReturnStmt)
		return ok && len(r.Results) == 1 && isAssert(r.Results[0])
	case 2:
		a, ok := l[0].(*ast.AssignStmt)
		if !ok || a.Tok != token.DEFINE || len(a.Rhs) != 1 || !isAssert(a.Rhs[0]) || len(a.Lhs) < 1 || len(a.Lhs) > 2 {
			return false
		}
		if len(a.Lhs) == 2 && exprKey(a.Lhs[1]) != "_" {
			return false
		}
		p, ok := a.Lhs[0].(*ast.Ident)
		if !ok || p.Name == "_" {
			return false
		}
		r, ok := l[1].(*ast.ReturnStmt)
		return ok && len(r.Results) == 1 && exprKey(r.Results[0]) == p.Name
	}
	return false
}

func isZeroU64(e ast.Expr) bool {
	if c, ok := e.(*ast.CallExpr); ok && exprKey(c.Fun) == "uint64" && len(c.Args) == 1 {
		e = c.Args[0]
	}
	l, ok := e.(*ast.BasicLit)
	return ok && l.Kind == token.INT && (l.Value == "0" || l.Value == "0x0")
}

// ptrProgram reads the body of GetHealthFlagPointer(addr) as a straight-line list of sync.Map operations on
// `healthStore` with key `addr`, each preceded by `verifYield(<its index>)`:
//   loadRet         v, ok := healthStore.Load(addr); if ok { return v.(*uint64) }      (both `if` spellings)
//   storeRet        healthStore.Store(addr, fresh); return fresh
//   loadOrStoreRet  v, _ := healthStore.LoadOrStore(addr, fresh); return v.(*uint64)
// where `fresh` is a word allocated by THIS call and initialised to zero (new(uint64), &f of a local f := uint64(0) /
// var f uint64, the func literal of the original code, or a local bound to one of these).  The allocation itself is
// thread-local and not a step.  Anything else is rejected.
func ptrProgram(fd *ast.FuncDecl) ([]string, error) {
	const fn = "GetHealthFlagPointer"
	const store = "healthStore"
	if fd.Type.Params == nil || len(fd.Type.Params.List) != 1 || len(fd.Type.Params.List[0].Names) != 1 {
		return nil, fmt.Errorf("%s: expected (addr string)", fn)
	}
	addr := fd.Type.Params.List[0].Names[0].Name
	zero := map[string]bool{}  // local uint64 variables known to be zero and never written
	fresh := map[string]bool{} // local *uint64 variables holding a word allocated by this call
	isFresh := func(e ast.Expr) (string, bool) { // returns a key identifying the allocated word
		switch x := e.(type) {
		case *ast.ParenExpr:
			return "", false
		case *ast.Ident:
			return "id:" + x.Name, fresh[x.Name]
		case *ast.UnaryExpr:
			if id, ok := x.X.(*ast.Ident); ok && x.Op == token.AND && zero[id.Name] {
				return "addr:" + id.Name, true
			}
		case *ast.CallExpr:
			if exprKey(x.Fun) == "new" && len(x.Args) == 1 && exprKey(x.Args[0]) == "uint64" {
				return "new", true
			}
			// func() *uint64 { f := uint64(0); return &f }()
			if fl, ok := x.Fun.(*ast.FuncLit); ok && len(x.Args) == 0 && len(fl.Body.List) == 2 {
				a, ok1 := fl.Body.List[0].(*ast.AssignStmt)
				r, ok2 := fl.Body.List[1].(*ast.ReturnStmt)
				if ok1 && ok2 && a.Tok == token.DEFINE && len(a.Lhs) == 1 && len(a.Rhs) == 1 && isZeroU64(a.Rhs[0]) &&
					len(r.Results) == 1 && exprKey(r.Results[0]) == "&"+exprKey(a.Lhs[0]) {
					if c, ok := a.Rhs[0].(*ast.CallExpr); ok && exprKey(c.Fun) == "uint64" {
						return "lit", true
					}
				}
			}
		}
		return "", false
	}
	mapCall := func(e ast.Expr, method string, nargs int) (*ast.CallExpr, bool) {
		c, ok := e.(*ast.CallExpr)
		if !ok || exprKey(c.Fun) != store+"."+method || len(c.Args) != nargs || exprKey(c.Args[0]) != addr {
			return nil, false
		}
		return c, true
	}
	var atoms []string
	yielded := ""
	needYield := func() error {
		want := fmt.Sprint(len(atoms))
		if yielded != want {
			return fmt.Errorf("%s: no verifYield(%s) immediately before health-store operation #%s (the scheduler could not interleave there)", fn, want, want)
		}
		yielded = ""
		return nil
	}
	body := fd.Body.List
	for i := 0; i < len(body); i++ {
		st := body[i]
		if y, site := isYield(st); y {
			yielded = site
			continue
		}
		switch x := st.(type) {
		case *ast.DeclStmt: // var f uint64
			gd, ok := x.Decl.(*ast.GenDecl)
			if !ok || gd.Tok != token.VAR || len(gd.Specs) != 1 {
				return nil, fmt.Errorf("%s: unsupported declaration", fn)
			}
			vs := gd.Specs[0].(*ast.ValueSpec)
			if len(vs.Names) != 1 || vs.Type == nil || exprKey(vs.Type) != "uint64" || len(vs.Values) > 1 ||
				(len(vs.Values) == 1 && !isZeroU64(vs.Values[0])) {
				return nil, fmt.Errorf("%s: only `var f uint64` (zero) is supported", fn)
			}
			zero[vs.Names[0].Name] = true
		case *ast.AssignStmt:
			if len(x.Rhs) != 1 {
				return nil, fmt.Errorf("%s: multi-value assignment", fn)
			}
			// v, _ := healthStore.LoadOrStore(addr, fresh)  + return of v
			if c, ok := mapCall(x.Rhs[0], "LoadOrStore", 2); ok {
				if _, ok := isFresh(c.Args[1]); !ok {
					return nil, fmt.Errorf("%s: LoadOrStore does not offer a word freshly allocated (and zero) by this call", fn)
				}
				if x.Tok != token.DEFINE || len(x.Lhs) != 2 || exprKey(x.Lhs[1]) != "_" {
					return nil, fmt.Errorf("%s: expected `v, _ := %s.LoadOrStore(%s, fresh)`", fn, store, addr)
				}
				if !retOfLoaded(body[i+1:], exprKey(x.Lhs[0])) {
					return nil, fmt.Errorf("%s: the value returned by LoadOrStore is not what the function returns", fn)
				}
				if err := needYield(); err != nil {
					return nil, err
				}
				return append(atoms, "loadOrStoreRet"), nil
			}
			// v, ok := healthStore.Load(addr); if ok { return v }
			if _, ok := mapCall(x.Rhs[0], "Load", 1); ok {
				if x.Tok != token.DEFINE || len(x.Lhs) != 2 || i+1 >= len(body) {
					return nil, fmt.Errorf("%s: expected `v, ok := %s.Load(%s)` followed by `if ok { return v }`", fn, store, addr)
				}
				ifs, isIf := body[i+1].(*ast.IfStmt)
				if !isIf || ifs.Init != nil || ifs.Else != nil || exprKey(ifs.Cond) != exprKey(x.Lhs[1]) ||
					!retOfLoaded(ifs.Body.List, exprKey(x.Lhs[0])) {
					return nil, fmt.Errorf("%s: a Load must be followed by `if ok { return v.(*uint64) }`", fn)
				}
				if err := needYield(); err != nil {
					return nil, err
				}
				atoms = append(atoms, "loadRet")
				i++
				continue
			}
			// allocation of the fresh word: thread-local, not a step
			lhs, ok := x.Lhs[0].(*ast.Ident)
			if !ok || len(x.Lhs) != 1 || x.Tok != token.DEFINE || zero[lhs.Name] || fresh[lhs.Name] {
				return nil, fmt.Errorf("%s: unsupported assignment", fn)
			}
			if isZeroU64(x.Rhs[0]) {
				if c, ok := x.Rhs[0].(*ast.CallExpr); !ok || exprKey(c.Fun) != "uint64" {
					return nil, fmt.Errorf("%s: the fresh word must be declared as uint64", fn)
				}
				zero[lhs.Name] = true
			} else if _, ok := isFresh(x.Rhs[0]); ok {
				if id, isID := x.Rhs[0].(*ast.Ident); isID {
					return nil, fmt.Errorf("%s: alias %s of a fresh word", fn, id.Name)
				}
				fresh[lhs.Name] = true
			} else {
				return nil, fmt.Errorf("%s: unsupported assignment to %s", fn, lhs.Name)
			}
		case *ast.IfStmt: // if v, ok := healthStore.Load(addr); ok { return v }
			a, ok := x.Init.(*ast.AssignStmt)
			if !ok || x.Else != nil || a.Tok != token.DEFINE || len(a.Lhs) != 2 || len(a.Rhs) != 1 {
				return nil, fmt.Errorf("%s: unsupported if statement", fn)
			}
			if _, ok := mapCall(a.Rhs[0], "Load", 1); !ok || exprKey(x.Cond) != exprKey(a.Lhs[1]) ||
				!retOfLoaded(x.Body.List, exprKey(a.Lhs[0])) {
				return nil, fmt.Errorf("%s: only `if v, ok := %s.Load(%s); ok { return v.(*uint64) }` is supported", fn, store, addr)
			}
			if err := needYield(); err != nil {
				return nil, err
			}
			atoms = append(atoms, "loadRet")
		case *ast.ExprStmt: // healthStore.Store(addr, fresh); return fresh
			c, ok := mapCall(x.X, "Store", 2)
			if !ok {
				return nil, fmt.Errorf("%s: unsupported statement", fn)
			}
			k, ok := isFresh(c.Args[1])
			if !ok || k == "new" || k == "lit" {
				return nil, fmt.Errorf("%s: Store does not store a named word freshly allocated (and zero) by this call", fn)
			}
			if i+2 != len(body) {
				return nil, fmt.Errorf("%s: a Store must be followed by the return of the stored word", fn)
			}
			r, isRet := body[i+1].(*ast.ReturnStmt)
			if !isRet || len(r.Results) != 1 {
				return nil, fmt.Errorf("%s: a Store must be followed by the return of the stored word", fn)
			}
			if k2, ok := isFresh(r.Results[0]); !ok || k2 != k {
				return nil, fmt.Errorf("%s: the word returned after Store is not the stored one", fn)
			}
			if err := needYield(); err != nil {
				return nil, err
			}
			return append(atoms, "storeRet"), nil
		default:
			return nil, fmt.Errorf("%s: unsupported statement %T", fn, st)
		}
	}
	return nil, fmt.Errorf("%s: the function can fall off its health-store operations without returning a word", fn)
}

// storeOnlyInGetter: `healthStore` must be a package-level sync.Map that no non-test file of the package touches
// outside GetHealthFlagPointer (an entry that is deleted or replaced elsewhere would hand a later host another word).
func storeOnlyInGetter(dir string) error {
	ents, err := os.ReadDir(filepath.Join(repo, dir))
	if err != nil {
		return err
	}
	declared := false
	for _, e := range ents {
		n := e.Name()
		if e.IsDir() || !strings.HasSuffix(n, ".go") || strings.HasSuffix(n, "_test.go") {
			continue
		}
		f, err := parse(dir + "/" + n)
		if err != nil {
			return err
		}
		for _, d := range f.Decls {
			switch x := d.(type) {
			case *ast.GenDecl:
				for _, sp := range x.Specs {
					vs, ok := sp.(*ast.ValueSpec)
					if !ok {
						continue
					}
					for i, nm := range vs.Names {
						if nm.Name != "healthStore" {
							continue
						}
						ok := x.Tok == token.VAR && len(vs.Names) == 1
						if ok && vs.Type != nil {
							ok = exprKey(vs.Type) == "sync.Map" && len(vs.Values) == 0
						} else if ok {
							cl, isCl := vs.Values[i].(*ast.CompositeLit)
							ok = isCl && exprKey(cl.Type) == "sync.Map" && len(cl.Elts) == 0
						}
						if !ok {
							return fmt.Errorf("healthStore is not declared as an empty package-level sync.Map")
						}
						declared = true
					}
				}
			case *ast.FuncDecl:
				if x.Body == nil || (x.Recv == nil && x.Name.Name == "GetHealthFlagPointer") {
					continue
				}
				if mentions(x.Body, "healthStore") {
					return fmt.Errorf("healthStore is accessed outside GetHealthFlagPointer (%s in %s)", x.Name.Name, n)
				}
			}
		}
	}
	if !declared {
		return fmt.Errorf("healthStore declaration not found")
	}
	return nil
}


// hostsShareByAddress: every simpleHost literal of the package (non-test files) must take its word from
// GetHealthFlagPointer(E) with E the very expression it stores as addressString: "same address" in the property is the
// key of healthStore.
func hostsShareByAddress(dir string) error {
	ents, err := os.ReadDir(filepath.Join(repo, dir))
	if err != nil {
		return err
	}
	n := 0
	var bad error
	for _, e := range ents {
		nm := e.Name()
		if e.IsDir() || !strings.HasSuffix(nm, ".go") || strings.HasSuffix(nm, "_test.go") {
			continue
		}
		f, err := parse(dir + "/" + nm)
		if err != nil {
			return err
		}
		ast.Inspect(f, func(nd ast.Node) bool {
			cl, ok := nd.(*ast.CompositeLit)
			if !ok || cl.Type == nil || exprKey(cl.Type) != "simpleHost" {
				return true
			}
			n++
			addr, word := "", ""
			for _, el := range cl.Elts {
				kv, ok := el.(*ast.KeyValueExpr)
				if !ok {
					bad = fmt.Errorf("%s: positional simpleHost literal", nm)
					return true
				}
				switch exprKey(kv.Key) {
				case "addressString":
					addr = exprKey(kv.Value)
				case "healthFlags":
					if c, ok := kv.Value.(*ast.CallExpr); ok && exprKey(c.Fun) == "GetHealthFlagPointer" && len(c.Args) == 1 {
						word = exprKey(c.Args[0])
					} else {
						word = "?"
					}
				}
			}
			if addr == "" || word != addr || strings.HasPrefix(addr, "?") {
				bad = fmt.Errorf("%s: a simpleHost literal does not take healthFlags from GetHealthFlagPointer(<its addressString>) (addressString: %q, word of: %q)", nm, addr, word)
			}
			return true
		})
	}
	if bad != nil {
		return bad
	}
	if n == 0 {
		return fmt.Errorf("no simpleHost literal found")
	}
	return nil
}

func genHealthFlags() (string, error) {
	const src = "pkg/upstream/cluster/health.go"
	const hostSrc = "pkg/upstream/cluster/host.go"
	f, err := parse(src)
	if err != nil {
		return "", err
	}
	var progs [2]*flagProg
	for i, n := range []string{"SetHealthFlag", "ClearHealthFlag"} {
		fd := findFunc(f, "", n)
		if fd == nil {
			return "", fmt.Errorf("%s not found", n)
		}
		p, err := flagProgram(fd)
		if err != nil {
			return "", err
		}
		progs[i] = p
	}
	// host.go: Health() and ContainHealthFlag(flag) read the shared word
	hf, err := parse(hostSrc)
	if err != nil {
		return "", err
	}
	reader := func(name string, extra map[string]string) (string, error) {
		fd := findFunc(hf, "simpleHost", name)
		if fd == nil || len(fd.Body.List) != 1 {
			return "", fmt.Errorf("simpleHost.%s: expected a single return statement", name)
		}
		r, ok := fd.Body.List[0].(*ast.ReturnStmt)
		if !ok || len(r.Results) != 1 {
			return "", fmt.Errorf("simpleHost.%s: expected a single return statement", name)
		}
		recv := fd.Recv.List[0].Names[0].Name
		names := map[string]string{"load:" + recv + ".healthFlags": "word"}
		for k, v := range extra {
			names[k] = v
		}
		if fd.Type.Params != nil {
			for _, p := range fd.Type.Params.List {
				for _, n := range p.Names {
					names[n.Name] = "flag"
				}
			}
		}
		return bvBool(r.Results[0], names)
	}
	health, err := reader("Health", nil)
	if err != nil {
		return "", err
	}
	contain, err := reader("ContainHealthFlag", nil)
	if err != nil {
		return "", err
	}
	// both host objects of one address must share the word: simpleHost.healthFlags = GetHealthFlagPointer(config.Address)
	shared := false
	if nh := findFunc(hf, "", "NewSimpleHost"); nh != nil {
		ast.Inspect(nh.Body, func(n ast.Node) bool {
			if kv, ok := n.(*ast.KeyValueExpr); ok && exprKey(kv.Key) == "healthFlags" {
				if c, ok := kv.Value.(*ast.CallExpr); ok && exprKey(c.Fun) == "GetHealthFlagPointer" && len(c.Args) == 1 &&
					strings.HasSuffix(exprKey(c.Args[0]), ".Address") {
					shared = true
				}
			}
			return true
		})
	}
	if !shared {
		return "", fmt.Errorf("NewSimpleHost does not take healthFlags from GetHealthFlagPointer(config.Address)")
	}
	pfd := findFunc(f, "", "GetHealthFlagPointer")
	if pfd == nil {
		return "", fmt.Errorf("GetHealthFlagPointer not found")
	}
	ptrAtoms, err := ptrProgram(pfd)
	if err != nil {
		return "", err
	}
	if err := storeOnlyInGetter("pkg/upstream/cluster"); err != nil {
		return "", err
	}
	if err := hostsShareByAddress("pkg/upstream/cluster"); err != nil {
		return "", err
	}
	s := header("HealthFlags", src+" (SetHealthFlag, ClearHealthFlag, GetHealthFlagPointer)", hostSrc+" (Health, ContainHealthFlag)")
	s += `/-- one atomic access of the shared flag word, as it occurs in the Go source -/
inductive Atom where
  | load    -- local := atomic.LoadUint64(p)
  | store   -- atomic.StoreUint64(p, modify local flag)
  | casRet  -- if atomic.CompareAndSwapUint64(p, local, modify local flag) { return }
  deriving DecidableEq, Repr

/-- the atomic accesses of one call in program order; ` + "`loop`" + ` = the body is wrapped in ` + "`for { … }`" + ` (falling off the end
restarts it), otherwise falling off the end returns. A ` + "`verifYield(i)`" + ` precedes access ` + "`i`" + ` in the source. -/
structure Prog where
  atoms : List Atom
  loop : Bool
  deriving DecidableEq, Repr

`
	s += "def setProg : Prog := " + progs[0].lean() + "\n"
	s += "def setModify (old flag : BitVec 64) : BitVec 64 := " + progs[0].modify + "\n"
	s += "def clearProg : Prog := " + progs[1].lean() + "\n"
	s += "def clearModify (old flag : BitVec 64) : BitVec 64 := " + progs[1].modify + "\n"
	s += "/-- simpleHost.Health() -/\ndef health (word : BitVec 64) : Bool := " + health + "\n"
	s += "/-- simpleHost.ContainHealthFlag(flag) -/\ndef containFlag (word flag : BitVec 64) : Bool := " + contain + "\n"
	s += `
/-- one operation of GetHealthFlagPointer(addr) on the address → word map ` + "`healthStore`" + ` (a sync.Map), as it occurs in the
Go source; ` + "`fresh`" + ` is a zero word allocated by the call itself. A ` + "`verifYield(i)`" + ` precedes operation ` + "`i`" + `. -/
inductive PtrAtom where
  | loadRet         -- if v, ok := healthStore.Load(addr); ok { return v.(*uint64) }
  | storeRet        -- healthStore.Store(addr, fresh); return fresh
  | loadOrStoreRet  -- v, _ := healthStore.LoadOrStore(addr, fresh); return v.(*uint64)
  deriving DecidableEq, Repr

`
	var pa []string
	for _, a := range ptrAtoms {
		pa = append(pa, "."+a)
	}
	s += "/-- GetHealthFlagPointer: its health-store operations in program order -/\ndef ptrProg : List PtrAtom := [" + strings.Join(pa, ", ") + "]\n"
	s += "/-- the initial value of a word allocated by GetHealthFlagPointer -/\ndef ptrFresh : BitVec 64 := 0\n"
	s += footer("HealthFlags")
	return s, nil
}

// ---------------------------------------------------------------------------------------------------------------
// HealthCheck

// rewriteHandle replaces, in a copy of the statement list, the calls on the host / health checker by assignments
// the tiny translator understands:
//   c.Host.SetHealthFlag(api.FAILED_ACTIVE_HC)   -> flag = true
//   c.Host.ClearHealthFlag(api.FAILED_ACTIVE_HC) -> flag = false
//   c.HealthChecker.log(…)                        -> dropped (event log only)
//   c.HealthChecker.incHealthy(c.Host, X) / decHealthy(c.Host, reason, X) -> cbChanged := X   (must be the callback call)
// and the expression c.Host.ContainHealthFlag(api.FAILED_ACTIVE_HC) by the identifier `flag`.
func rewriteHandle(stmts []ast.Stmt, recv string, cbFunc string, cbArg int) ([]ast.Stmt, int, error) {
	ncb := 0
	var rwExpr func(e ast.Expr) ast.Expr
	rwExpr = func(e ast.Expr) ast.Expr {
		switch x := e.(type) {
		case *ast.CallExpr:
			if exprKey(x.Fun) == recv+".Host.ContainHealthFlag" && len(x.Args) == 1 && exprKey(x.Args[0]) == "api.FAILED_ACTIVE_HC" {
				return ast.NewIdent("flag")
			}
		case *ast.UnaryExpr:
			return &ast.UnaryExpr{Op: x.Op, X: rwExpr(x.X)}
		case *ast.BinaryExpr:
			return &ast.BinaryExpr{Op: x.Op, X: rwExpr(x.X), Y: rwExpr(x.Y)}
		case *ast.ParenExpr:
			return &ast.ParenExpr{X: rwExpr(x.X)}
		}
		return e
	}
	var rw func(l []ast.Stmt) ([]ast.Stmt, error)
	rw = func(l []ast.Stmt) ([]ast.Stmt, error) {
		var out []ast.Stmt
		for _, s := range l {
			switch x := s.(type) {
			case *ast.ExprStmt:
				c, ok := x.X.(*ast.CallExpr)
				if !ok {
					return nil, fmt.Errorf("unsupported expression statement")
				}
				k := exprKey(c.Fun)
				flagArg := len(c.Args) == 1 && exprKey(c.Args[0]) == "api.FAILED_ACTIVE_HC"
				switch {
				case k == recv+".Host.SetHealthFlag" && flagArg:
					out = append(out, &ast.AssignStmt{Lhs: []ast.Expr{ast.NewIdent("flag")}, Tok: token.ASSIGN, Rhs: []ast.Expr{ast.NewIdent("true")}})
				case k == recv+".Host.ClearHealthFlag" && flagArg:
					out = append(out, &ast.AssignStmt{Lhs: []ast.Expr{ast.NewIdent("flag")}, Tok: token.ASSIGN, Rhs: []ast.Expr{ast.NewIdent("false")}})
				case k == recv+".HealthChecker.log":
				case k == recv+".HealthChecker."+cbFunc && len(c.Args) == cbArg+1 && exprKey(c.Args[0]) == recv+".Host":
					ncb++
					out = append(out, &ast.AssignStmt{Lhs: []ast.Expr{ast.NewIdent("cbChanged")}, Tok: token.ASSIGN, Rhs: []ast.Expr{c.Args[cbArg]}})
				default:
					return nil, fmt.Errorf("unsupported call statement %s", k)
				}
			case *ast.IfStmt:
				if x.Init != nil {
					return nil, fmt.Errorf("if with init")
				}
				body, err := rw(x.Body.List)
				if err != nil {
					return nil, err
				}
				n := &ast.IfStmt{Cond: rwExpr(x.Cond), Body: &ast.BlockStmt{List: body}}
				switch eb := x.Else.(type) {
				case nil:
				case *ast.BlockStmt:
					el, err := rw(eb.List)
					if err != nil {
						return nil, err
					}
					n.Else = &ast.BlockStmt{List: el}
				default:
					return nil, fmt.Errorf("else-if")
				}
				out = append(out, n)
			case *ast.AssignStmt:
				n := &ast.AssignStmt{Lhs: x.Lhs, Tok: x.Tok}
				for _, r := range x.Rhs {
					n.Rhs = append(n.Rhs, rwExpr(r))
				}
				out = append(out, n)
			default:
				out = append(out, s)
			}
		}
		return out, nil
	}
	out, err := rw(stmts)
	return out, ncb, err
}

// callbackConst reads hc.<fn>(host, …, changed): it must call runCallbacks(host, X, L) exactly once, unconditionally,
// with X = the `changed` parameter or a literal and L a literal; returns the Lean renderings of X (over `changed`) and L.
func callbackConst(f *ast.File, fn string) (string, string, error) {
	fd := findFunc(f, "healthChecker", fn)
	if fd == nil {
		return "", "", fmt.Errorf("%s not found", fn)
	}
	var params []string
	for _, p := range fd.Type.Params.List {
		for _, n := range p.Names {
			params = append(params, n.Name)
		}
	}
	if len(params) < 2 {
		return "", "", fmt.Errorf("%s: parameters", fn)
	}
	hostP, changedP := params[0], params[len(params)-1]
	chg, res, n := "", "", 0
	var walkErr error
	ast.Inspect(fd.Body, func(nd ast.Node) bool {
		c, ok := nd.(*ast.CallExpr)
		if !ok || !strings.HasSuffix(exprKey(c.Fun), ".runCallbacks") {
			return true
		}
		n++
		if len(c.Args) != 3 || exprKey(c.Args[0]) != hostP {
			walkErr = fmt.Errorf("%s: runCallbacks is not called with (host, …, …)", fn)
			return true
		}
		switch k := exprKey(c.Args[1]); k {
		case changedP:
			chg = "changed"
		case "true", "false":
			chg = k
		default:
			walkErr = fmt.Errorf("%s: second argument of runCallbacks is neither the changed parameter nor a literal", fn)
		}
		res = exprKey(c.Args[2])
		return true
	})
	if walkErr != nil {
		return "", "", walkErr
	}
	// the callback call must be unconditional: a top-level statement of the body
	top := 0
	for _, s := range fd.Body.List {
		if es, ok := s.(*ast.ExprStmt); ok {
			if c, ok := es.X.(*ast.CallExpr); ok && strings.HasSuffix(exprKey(c.Fun), ".runCallbacks") {
				top++
			}
		}
	}
	if n != 1 || top != 1 || (res != "true" && res != "false") {
		return "", "", fmt.Errorf("%s: expected exactly one unconditional runCallbacks(host, changed, true|false)", fn)
	}
	return chg, res, nil
}

func genHealthCheck() (string, error) {
	const dir = "pkg/upstream/healthcheck"
	const src = dir + "/session_checker.go"
	const hsrc = dir + "/healthchecker.go"
	f, err := parse(src)
	if err != nil {
		return "", err
	}
	hf, err := parse(hsrc)
	if err != nil {
		return "", err
	}
	one := func(name, threshold, cbFunc string, cbArg int) (string, error) {
		fd := findFunc(f, "sessionChecker", name)
		if fd == nil {
			return "", fmt.Errorf("%s not found", name)
		}
		recv := fd.Recv.List[0].Names[0].Name
		stmts, ncb, err := rewriteHandle(fd.Body.List, recv, cbFunc, cbArg)
		if err != nil {
			return "", fmt.Errorf("%s: %v", name, err)
		}
		if ncb != 1 {
			return "", fmt.Errorf("%s: expected exactly one call of %s", name, cbFunc)
		}
		// the callback must be reached on every path: a top-level statement
		top := false
		for _, s := range stmts {
			if a, ok := s.(*ast.AssignStmt); ok && exprKey(a.Lhs[0]) == "cbChanged" {
				top = true
			}
		}
		if !top {
			return "", fmt.Errorf("%s: %s is not called unconditionally", name, cbFunc)
		}
		chgExpr, isH, err := callbackConst(hf, cbFunc)
		if err != nil {
			return "", err
		}
		env := &Env{
			Names: map[string]string{
				recv + ".unHealthCount":              "unHealthCount",
				recv + ".healthCount":                "healthCount",
				recv + ".HealthChecker." + threshold: "threshold",
				"flag":                               "flag",
				"cbChanged":                          "cbChanged",
			},
			Calls: map[string]string{},
			Types: map[string]string{"flag": "Bool", "changed": "Bool", "cbChanged": "Bool"},
			Ret:   func(rs []string) string { return "ERR-return" },
			Fall:  "(unHealthCount, healthCount, flag, " + cbFunc + "Changed cbChanged, " + isH + ")",
		}
		body, err := env.block(stmts, "  ")
		if err != nil {
			return "", fmt.Errorf("%s: %v", name, err)
		}
		if strings.Contains(body, "ERR-return") {
			return "", fmt.Errorf("%s: early return", name)
		}
		lname := strings.ToLower(name[:1]) + name[1:]
		s := "/-- healthChecker." + cbFunc + ": the `changed` it forwards to runCallbacks -/\ndef " + cbFunc + "Changed (changed : Bool) : Bool := " + chgExpr + "\n"
		s += "/-- sessionChecker." + name + ": (unHealthCount, healthCount, host has FAILED_ACTIVE_HC) ↦ the same after the call,\n" +
			"and the (changed, isHealthy) passed to every callback. Counters are uint32 in Go, unbounded `Int` here. -/\n"
		s += "def " + lname + " (unHealthCount healthCount : Int) (flag : Bool) (threshold : Int) : Int × Int × Bool × Bool × Bool :=\n" +
			"  let cbChanged := false\n  " + body + "\n"
		return s, nil
	}
	hs, err := one("HandleSuccess", "healthyThreshold", "incHealthy", 1)
	if err != nil {
		return "", err
	}
	hfail, err := one("HandleFailure", "unhealthyThreshold", "decHealthy", 2)
	if err != nil {
		return "", err
	}
	dh, err := intConst(dir, "DefaultHealthyThreshold")
	if err != nil {
		return "", err
	}
	du, err := intConst(dir, "DefaultUnhealthyThreshold")
	if err != nil {
		return "", err
	}
	// newHealthChecker: `x := cfg.X; if x == 0 { x = DefaultX }` and `xThreshold: x` in the literal
	nh := findFunc(hf, "", "newHealthChecker")
	if nh == nil {
		return "", fmt.Errorf("newHealthChecker not found")
	}
	eff := func(local, cfgField, def string) (string, error) {
		var stmts []ast.Stmt
		for _, s := range nh.Body.List {
			switch x := s.(type) {
			case *ast.AssignStmt:
				if len(x.Lhs) == 1 && exprKey(x.Lhs[0]) == local {
					stmts = append(stmts, x)
				}
			case *ast.IfStmt:
				if exprKey(condLeft(x.Cond)) == local || mentions(x.Body, local) {
					stmts = append(stmts, x)
				}
			}
		}
		if len(stmts) == 0 {
			return "", fmt.Errorf("newHealthChecker: no assignment of %s", local)
		}
		// the struct literal must use the local
		used := false
		ast.Inspect(nh.Body, func(n ast.Node) bool {
			if kv, ok := n.(*ast.KeyValueExpr); ok && exprKey(kv.Key) == local && exprKey(kv.Value) == local {
				used = true
			}
			return true
		})
		if !used {
			return "", fmt.Errorf("newHealthChecker: %s is not stored into the checker", local)
		}
		env := &Env{
			Names: map[string]string{"cfg." + cfgField: "cfg", def: lowerFirst(def)},
			Calls: map[string]string{},
			Ret:   func(rs []string) string { return "ERR-return" },
			Fall:  local,
		}
		return env.block(stmts, "  ")
	}
	eu, err := eff("unhealthyThreshold", "UnhealthyThreshold", "DefaultUnhealthyThreshold")
	if err != nil {
		return "", err
	}
	eh, err := eff("healthyThreshold", "HealthyThreshold", "DefaultHealthyThreshold")
	if err != nil {
		return "", err
	}
	// the timeout branch of the checker loop must count as a failure: c.HandleFailure(types.FailureNetwork)
	start := findFunc(f, "sessionChecker", "Start")
	if start == nil {
		return "", fmt.Errorf("Start not found")
	}
	var respTrue, respFalse, onTimeout string
	ast.Inspect(start.Body, func(n ast.Node) bool {
		cc, ok := n.(*ast.CommClause)
		if !ok || cc.Comm == nil {
			return true
		}
		comm := commKey(cc.Comm)
		switch {
		case strings.HasSuffix(comm, ".timeout"):
			for _, s := range c16dUnguard(cc.Body) {
				if k := handleCall(s); k != "" {
					onTimeout += k
				}
			}
		case strings.HasSuffix(comm, ".resp"):
			ast.Inspect(cc, func(m ast.Node) bool {
				if ifs, ok := m.(*ast.IfStmt); ok && strings.HasSuffix(exprKey(ifs.Cond), ".Healthy") {
					for _, s := range ifs.Body.List {
						respTrue += handleCall(s)
					}
					if eb, ok := ifs.Else.(*ast.BlockStmt); ok {
						for _, s := range eb.List {
							respFalse += handleCall(s)
						}
					}
				}
				return true
			})
		}
		return true
	})
	if respTrue != "success" || respFalse != "failure" || onTimeout != "failure" {
		return "", fmt.Errorf("Start: dispatch is not resp.Healthy→HandleSuccess / !Healthy→HandleFailure / timeout→HandleFailure (got %q %q %q)", respTrue, respFalse, onTimeout)
	}
	atTop, beforeArm, err := idPolicy(start)
	if err != nil {
		return "", err
	}
	s := header("HealthCheck", src+" (HandleSuccess, HandleFailure, Start dispatch)", hsrc+" (defaults, newHealthChecker, incHealthy/decHealthy)")
	s += fmt.Sprintf("def defaultHealthyThreshold : Int := %d\ndef defaultUnhealthyThreshold : Int := %d\n", dh, du)
	s += "/-- newHealthChecker: the configured unhealthy_threshold with the zero→default rule -/\n"
	s += "def effUnhealthyThreshold (cfg : Int) : Int :=\n  " + eu + "\n"
	s += "/-- newHealthChecker: the configured healthy_threshold with the zero→default rule -/\n"
	s += "def effHealthyThreshold (cfg : Int) : Int :=\n  " + eh + "\n"
	s += hs + hfail
	s += "/-- which handler the checker loop calls for a check that answered healthy / answered unhealthy / timed out (true = HandleSuccess) -/\n"
	s += "def dispatchHealthy : Bool := true\ndef dispatchUnhealthy : Bool := false\ndef dispatchTimeout : Bool := false\n"
	s += "/-- sessionChecker.Start, bookkeeping of c.checkID (the id an answer must carry to be accepted):\n" +
		"`advanceAtTop` = it is incremented at the top of EVERY iteration of the checker loop (also after an expired answer, and only\n" +
		"after the next check's timer was armed); `advanceBeforeArm` = it is incremented right before each arming of the next check. -/\n"
	s += fmt.Sprintf("def advanceAtTop : Bool := %v\ndef advanceBeforeArm : Bool := %v\n", atTop, beforeArm)
	s += footer("HealthCheck")
	return s, nil
}

func isCheckIDCall(e ast.Expr, fn string) bool {
	c, ok := e.(*ast.CallExpr)
	if !ok || exprKey(c.Fun) != fn || len(c.Args) < 1 {
		return false
	}
	return strings.HasSuffix(exprKey(c.Args[0]), ".checkID")
}

func isArm(s ast.Stmt) bool {
	a, ok := s.(*ast.AssignStmt)
	if !ok || len(a.Lhs) != 1 || len(a.Rhs) != 1 || !strings.HasSuffix(exprKey(a.Lhs[0]), ".checkTimer") {
		return false
	}
	c, ok := a.Rhs[0].(*ast.CallExpr)
	return ok && exprKey(c.Fun) == "utils.NewTimer" && len(c.Args) == 2 && strings.HasSuffix(exprKey(c.Args[1]), ".OnCheck")
}

// armAdvance: does the statement list arm the next check, and is an `atomic.AddUint64(&c.checkID, 1)` statement before it?
func armAdvance(l []ast.Stmt) (arms bool, advances bool) {
	add := false
	for _, s := range l {
		if es, ok := s.(*ast.ExprStmt); ok && isCheckIDCall(es.X, "atomic.AddUint64") {
			add = true
		}
		if isArm(s) {
			return true, add
		}
	}
	return false, false
}

func touchesChecker(n ast.Node) bool {
	bad := false
	ast.Inspect(n, func(m ast.Node) bool {
		if c, ok := m.(*ast.CallExpr); ok {
			k := exprKey(c.Fun)
			if strings.HasSuffix(k, ".HandleSuccess") || strings.HasSuffix(k, ".HandleFailure") || k == "utils.NewTimer" ||
				k == "atomic.AddUint64" || k == "atomic.StoreUint64" || strings.HasSuffix(k, ".Stop") {
				bad = true
			}
		}
		return true
	})
	return bad
}

// idPolicy reads the checkID bookkeeping of sessionChecker.Start.
func idPolicy(start *ast.FuncDecl) (atTop bool, beforeArm bool, err error) {
	var loop *ast.ForStmt
	var pre []ast.Stmt
	for _, s := range start.Body.List {
		if f, ok := s.(*ast.ForStmt); ok {
			loop = f
			break
		}
		pre = append(pre, s)
	}
	if loop == nil {
		return false, false, fmt.Errorf("Start: no loop")
	}
	arms, adv0 := armAdvance(pre)
	if !arms {
		return false, false, fmt.Errorf("Start: the first check is not armed before the loop")
	}
	var advs []bool
	advs = append(advs, adv0)
	topKnown := false
	var walkErr error
	ast.Inspect(loop.Body, func(n ast.Node) bool {
		cc, ok := n.(*ast.CommClause)
		if !ok {
			return true
		}
		if cc.Comm == nil { // default: top of an iteration
			if len(cc.Body) == 0 {
				walkErr = fmt.Errorf("Start: empty default clause")
				return true
			}
			a, ok := cc.Body[0].(*ast.AssignStmt)
			if !ok || len(a.Lhs) != 1 || exprKey(a.Lhs[0]) != "currentID" || len(a.Rhs) != 1 {
				walkErr = fmt.Errorf("Start: the iteration does not start with currentID := …")
				return true
			}
			switch {
			case isCheckIDCall(a.Rhs[0], "atomic.AddUint64"):
				atTop, topKnown = true, true
			case isCheckIDCall(a.Rhs[0], "atomic.LoadUint64"):
				atTop, topKnown = false, true
			default:
				walkErr = fmt.Errorf("Start: currentID is neither Add nor Load of checkID")
			}
			return true
		}
		comm := commKey(cc.Comm)
		switch {
		case strings.HasSuffix(comm, ".timeout"):
			arms, adv := armAdvance(c16dUnguard(cc.Body))
			if !arms {
				walkErr = fmt.Errorf("Start: the timeout branch does not arm the next check")
			}
			advs = append(advs, adv)
		case strings.HasSuffix(comm, ".resp"):
			found := false
			for _, s := range cc.Body {
				ifs, ok := s.(*ast.IfStmt)
				if !ok {
					continue
				}
				b, ok := ifs.Cond.(*ast.BinaryExpr)
				if !ok || b.Op != token.EQL || !strings.HasSuffix(exprKey(b.X), ".ID") || exprKey(b.Y) != "currentID" {
					continue
				}
				found = true
				arms, adv := armAdvance(ifs.Body.List)
				if !arms {
					walkErr = fmt.Errorf("Start: the accepted-answer branch does not arm the next check")
				}
				advs = append(advs, adv)
				if ifs.Else != nil && touchesChecker(ifs.Else) {
					walkErr = fmt.Errorf("Start: the expired-answer branch is not a no-op")
				}
			}
			if !found {
				walkErr = fmt.Errorf("Start: answers are not compared with currentID")
			}
		}
		return true
	})
	if walkErr != nil {
		return false, false, walkErr
	}
	if !topKnown || len(advs) != 3 {
		return false, false, fmt.Errorf("Start: unexpected loop structure")
	}
	if advs[0] != advs[1] || advs[1] != advs[2] {
		return false, false, fmt.Errorf("Start: checkID is advanced before some armings of the next check but not all")
	}
	return atTop, advs[0], nil
}

func lowerFirst(s string) string { return strings.ToLower(s[:1]) + s[1:] }

func condLeft(e ast.Expr) ast.Expr {
	if b, ok := e.(*ast.BinaryExpr); ok {
		return b.X
	}
	return e
}

func mentions(n ast.Node, name string) bool {
	found := false
	ast.Inspect(n, func(m ast.Node) bool {
		if id, ok := m.(*ast.Ident); ok && id.Name == name {
			found = true
		}
		return true
	})
	return found
}

func commKey(s ast.Stmt) string {
	switch x := s.(type) {
	case *ast.ExprStmt:
		if u, ok := x.X.(*ast.UnaryExpr); ok && u.Op == token.ARROW {
			return exprKey(u.X)
		}
	case *ast.AssignStmt:
		if len(x.Rhs) == 1 {
			if u, ok := x.Rhs[0].(*ast.UnaryExpr); ok && u.Op == token.ARROW {
				return exprKey(u.X)
			}
		}
	}
	return ""
}

func handleCall(s ast.Stmt) string {
	es, ok := s.(*ast.ExprStmt)
	if !ok {
		return ""
	}
	c, ok := es.X.(*ast.CallExpr)
	if !ok {
		return ""
	}
	k := exprKey(c.Fun)
	if strings.HasSuffix(k, ".HandleSuccess") {
		return "success"
	}
	if strings.HasSuffix(k, ".HandleFailure") {
		return "failure"
	}
	return ""
}

// c16dUnguard: the body of the timeout case, or, when it is a single `if <received id> == currentID { … } else { no-op }`,
// the body of that if (the guard itself is read by gen_c16_dispatch.go: Gen/HealthDispatch timeoutGuarded)
func c16dUnguard(body []ast.Stmt) []ast.Stmt {
	if len(body) != 1 {
		return body
	}
	ifs, ok := body[0].(*ast.IfStmt)
	if !ok || ifs.Init != nil {
		return body
	}
	b, ok := ifs.Cond.(*ast.BinaryExpr)
	if !ok || b.Op != token.EQL || exprKey(b.Y) != "currentID" {
		return body
	}
	if _, isIdent := b.X.(*ast.Ident); !isIdent {
		return body
	}
	if ifs.Else != nil && touchesChecker(ifs.Else) {
		return body
	}
	return ifs.Body.List
}
