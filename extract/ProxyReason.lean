-- translation-unsupported ProxyReason: open -out/pkg/types/stream.go: no such file or directory
namespace MosnVerif.Gen.ProxyReason
end MosnVerif.Gen.ProxyReason
