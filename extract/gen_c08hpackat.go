package main

import (
	"fmt"
	"go/ast"
	"go/token"
	"strings"
)

// Gen.HpackAt: `Decoder.at(i uint64)` and `Decoder.maxTableIndex()` of pkg/module/http2/hpack/hpack.go with Go's
// INTEGER TYPES kept: every sub-expression is typed (uint64 / int / untyped constant), a conversion `uint64(x)` /
// `int(x)` is rendered as the two's-complement wrap of the mathematical value, arithmetic wraps in the operand type,
// a comparison compares the mathematical values of two operands of ONE type (as Go does), and every index expression
// `T.ents[e]` becomes a checked access `chkIdx T len e` that answers `oob` (Go: index out of range panic) when the value
// of `e` is not in [0, len).  What is regenerated: the order and the exact text of the comparisons, in which integer
// type each is made, which conversions are applied where, and the index expressions.  All helpers are prefixed c08h.

func init() { register("HpackAt", c08hGenHpackAt) }

type c08hVar struct{ lean, ty string }

type c08hEnv struct {
	vars map[string]c08hVar   // exprKey of an identifier / call -> Lean name and Go type
	tabs map[string][2]string // exprKey of a slice `X.ents` -> (Tab constructor, Lean length)
	conv map[string]bool      // conversions used (for the fixed-text wrap definitions)
}

// c08hIntTypes: Go integer types -> (bits, signed)
var c08hIntTypes = map[string][2]int{
	"uint64": {64, 0}, "int64": {64, 1}, "int": {64, 1}, "uint": {64, 0},
	"uint32": {32, 0}, "int32": {32, 1}, "uint16": {16, 0}, "int16": {16, 1}, "uint8": {8, 0}, "int8": {8, 1}, "byte": {8, 0},
}

func c08hWrapName(ty string) string {
	w := c08hIntTypes[ty]
	if w[1] == 1 {
		return fmt.Sprintf("wrapS%d", w[0])
	}
	return fmt.Sprintf("wrapU%d", w[0])
}

func (env *c08hEnv) wrap(ty, s string) string {
	env.conv[c08hWrapName(ty)] = true
	return "(" + c08hWrapName(ty) + " " + s + ")"
}

// expr renders e and returns its Go type ("" = untyped integer constant, "bool" for conditions).
func (env *c08hEnv) expr(e ast.Expr) (string, string, error) {
	switch x := e.(type) {
	case *ast.ParenExpr:
		return env.expr(x.X)
	case *ast.BasicLit:
		if x.Kind == token.INT {
			return x.Value, "", nil
		}
		return "", "", fmt.Errorf("literal %s", x.Value)
	case *ast.Ident:
		if v, ok := env.vars[x.Name]; ok {
			return v.lean, v.ty, nil
		}
		return "", "", fmt.Errorf("unknown identifier %s at %s", x.Name, fset.Position(x.Pos()))
	case *ast.CallExpr:
		if id, ok := x.Fun.(*ast.Ident); ok {
			if _, isInt := c08hIntTypes[id.Name]; isInt && len(x.Args) == 1 {
				s, ty, err := env.expr(x.Args[0])
				if err != nil {
					return "", "", err
				}
				if ty == "bool" {
					return "", "", fmt.Errorf("conversion of a condition")
				}
				return env.wrap(id.Name, s), id.Name, nil
			}
		}
		if v, ok := env.vars[callKey(x)]; ok {
			return v.lean, v.ty, nil
		}
		return "", "", fmt.Errorf("unsupported call %s at %s", callKey(x), fset.Position(x.Pos()))
	case *ast.UnaryExpr:
		s, ty, err := env.expr(x.X)
		if err != nil {
			return "", "", err
		}
		switch {
		case x.Op == token.NOT && ty == "bool":
			return "(!" + s + ")", "bool", nil
		case x.Op == token.SUB && ty != "bool":
			if ty == "" {
				return "(-" + s + ")", "", nil
			}
			return env.wrap(ty, "(-"+s+")"), ty, nil
		}
		return "", "", fmt.Errorf("unary %v", x.Op)
	case *ast.BinaryExpr:
		l, lt, err := env.expr(x.X)
		if err != nil {
			return "", "", err
		}
		r, rt, err := env.expr(x.Y)
		if err != nil {
			return "", "", err
		}
		if x.Op == token.LAND || x.Op == token.LOR {
			if lt != "bool" || rt != "bool" {
				return "", "", fmt.Errorf("&& / || on integers")
			}
			return "(" + l + map[token.Token]string{token.LAND: " && ", token.LOR: " || "}[x.Op] + r + ")", "bool", nil
		}
		if lt == "bool" || rt == "bool" {
			return "", "", fmt.Errorf("integer operator on a condition")
		}
		ty := lt
		if ty == "" {
			ty = rt
		}
		if lt != "" && rt != "" && lt != rt {
			return "", "", fmt.Errorf("operands of %v have different types %s / %s at %s", x.Op, lt, rt, fset.Position(x.Pos()))
		}
		if cmp, ok := map[token.Token]string{token.LSS: "<", token.LEQ: "≤", token.GTR: ">", token.GEQ: "≥", token.EQL: "=", token.NEQ: "≠"}[x.Op]; ok {
			return "(decide (" + l + " " + cmp + " " + r + "))", "bool", nil
		}
		if op, ok := map[token.Token]string{token.ADD: "+", token.SUB: "-", token.MUL: "*"}[x.Op]; ok {
			s := "(" + l + " " + op + " " + r + ")"
			if ty == "" {
				return s, "", nil
			}
			return env.wrap(ty, s), ty, nil
		}
		return "", "", fmt.Errorf("binary %v", x.Op)
	}
	return "", "", fmt.Errorf("unsupported expression %T at %s", e, fset.Position(e.Pos()))
}

// c08hResultType returns the single unnamed result type of fd as an identifier name.
func c08hResultType(fd *ast.FuncDecl) string {
	if fd == nil || fd.Type.Results == nil || len(fd.Type.Results.List) != 1 || len(fd.Type.Results.List[0].Names) > 0 {
		return ""
	}
	if id, ok := fd.Type.Results.List[0].Type.(*ast.Ident); ok {
		return id.Name
	}
	return ""
}

// ret renders `return` (named zero results: no entry), `return T.ents[e], true`.
func (env *c08hEnv) ret(r *ast.ReturnStmt) (string, error) {
	if len(r.Results) == 0 {
		return ".none", nil
	}
	if len(r.Results) != 2 || exprKey(r.Results[1]) != "true" {
		return "", fmt.Errorf("at: return is neither bare nor `T.ents[e], true` at %s", fset.Position(r.Pos()))
	}
	ix, ok := r.Results[0].(*ast.IndexExpr)
	if !ok {
		return "", fmt.Errorf("at: returned entry is not an index expression at %s", fset.Position(r.Pos()))
	}
	t, ok := env.tabs[exprKey(ix.X)]
	if !ok {
		return "", fmt.Errorf("at: index into unknown slice %s", exprKey(ix.X))
	}
	s, ty, err := env.expr(ix.Index)
	if err != nil {
		return "", err
	}
	if ty == "bool" {
		return "", fmt.Errorf("at: boolean index")
	}
	return "chkIdx " + t[0] + " " + t[1] + " " + s, nil
}

func c08hGenHpackAt() (string, error) {
	const dir = "pkg/module/http2/hpack"
	hf, err := parse(dir + "/hpack.go")
	if err != nil {
		return "", err
	}
	tf, err := parse(dir + "/tables.go")
	if err != nil {
		return "", err
	}
	at := findFunc(hf, "Decoder", "at")
	mti := findFunc(hf, "Decoder", "maxTableIndex")
	tlen := findFunc(tf, "headerFieldTable", "len")
	if at == nil || mti == nil || tlen == nil {
		return "", fmt.Errorf("Decoder.at / Decoder.maxTableIndex / headerFieldTable.len not found")
	}
	// headerFieldTable.len() is `return len(t.ents)` with an int result: the length of the slice that is indexed
	if c08hResultType(tlen) != "int" || len(tlen.Body.List) != 1 {
		return "", fmt.Errorf("headerFieldTable.len is not `func … int { return len(t.ents) }`")
	}
	if r, ok := tlen.Body.List[0].(*ast.ReturnStmt); !ok || len(r.Results) != 1 || exprKey(r.Results[0]) != "len(t.ents)" {
		return "", fmt.Errorf("headerFieldTable.len does not return len(t.ents)")
	}
	if at.Recv.List[0].Names == nil || at.Recv.List[0].Names[0].Name != "d" || mti.Recv.List[0].Names == nil || mti.Recv.List[0].Names[0].Name != "d" {
		return "", fmt.Errorf("receiver of at / maxTableIndex is not named d")
	}
	env := &c08hEnv{vars: map[string]c08hVar{
		"staticTable.len()":    {"staticLen", "int"},
		"d.dynTab.table.len()": {"dynLen", "int"},
	}, tabs: map[string][2]string{
		"staticTable.ents":    {".static", "staticLen"},
		"d.dynTab.table.ents": {".dyn", "dynLen"},
	}, conv: map[string]bool{}}

	// maxTableIndex: one `return <int expression>`
	mty := c08hResultType(mti)
	if _, ok := c08hIntTypes[mty]; !ok || len(mti.Body.List) != 1 {
		return "", fmt.Errorf("maxTableIndex is not a single return of an integer")
	}
	mr, ok := mti.Body.List[0].(*ast.ReturnStmt)
	if !ok || len(mr.Results) != 1 {
		return "", fmt.Errorf("maxTableIndex is not a single return")
	}
	ms, mt, err := env.expr(mr.Results[0])
	if err != nil {
		return "", err
	}
	if mt != "" && mt != mty {
		return "", fmt.Errorf("maxTableIndex returns %s, declared %s", mt, mty)
	}
	env.vars["d.maxTableIndex()"] = c08hVar{"(maxTableIndex staticLen dynLen)", mty}

	// at(i T) (hf HeaderField, ok bool)
	ps := at.Type.Params.List
	if len(ps) != 1 || len(ps[0].Names) != 1 {
		return "", fmt.Errorf("at: expected one parameter")
	}
	pty, ok := ps[0].Type.(*ast.Ident)
	if !ok {
		return "", fmt.Errorf("at: parameter type")
	}
	pw, ok := c08hIntTypes[pty.Name]
	if !ok {
		return "", fmt.Errorf("at: parameter type %s is not an integer type", pty.Name)
	}
	pname := ps[0].Names[0].Name
	env.vars[pname] = c08hVar{"i", pty.Name}
	rs := at.Type.Results
	if rs == nil || len(rs.List) != 2 || len(rs.List[0].Names) != 1 || len(rs.List[1].Names) != 1 || exprKey(rs.List[1].Type) != "bool" {
		return "", fmt.Errorf("at: results are not (hf HeaderField, ok bool)")
	}
	var body []string
	done := false
	for _, st := range at.Body.List {
		if done {
			return "", fmt.Errorf("at: statement after the final return at %s", fset.Position(st.Pos()))
		}
		switch x := st.(type) {
		case *ast.IfStmt:
			if x.Init != nil || x.Else != nil || len(x.Body.List) != 1 {
				return "", fmt.Errorf("at: if statement is not `if c { return … }` at %s", fset.Position(x.Pos()))
			}
			r, ok := x.Body.List[0].(*ast.ReturnStmt)
			if !ok {
				return "", fmt.Errorf("at: if body is not a return at %s", fset.Position(x.Pos()))
			}
			c, cty, err := env.expr(x.Cond)
			if err != nil {
				return "", err
			}
			if cty != "bool" {
				return "", fmt.Errorf("at: condition is not boolean")
			}
			rv, err := env.ret(r)
			if err != nil {
				return "", err
			}
			body = append(body, "if "+c+" then "+rv+" else")
		case *ast.AssignStmt:
			// dt := d.dynTab.table (an alias of the dynamic table)
			if x.Tok != token.DEFINE || len(x.Lhs) != 1 || len(x.Rhs) != 1 {
				return "", fmt.Errorf("at: assignment other than `v := e` at %s", fset.Position(x.Pos()))
			}
			id, ok := x.Lhs[0].(*ast.Ident)
			if !ok {
				return "", fmt.Errorf("at: definition of a non-identifier at %s", fset.Position(x.Pos()))
			}
			n := id.Name
			if exprKey(x.Rhs[0]) == "d.dynTab.table" {
				env.vars[n+".len()"] = c08hVar{"dynLen", "int"}
				env.tabs[n+".ents"] = [2]string{".dyn", "dynLen"}
				continue
			}
			// a typed local: `idx := int(i)` (an untyped constant would default to int)
			v, vty, err := env.expr(x.Rhs[0])
			if err != nil {
				return "", err
			}
			if vty == "bool" {
				return "", fmt.Errorf("at: boolean local at %s", fset.Position(x.Pos()))
			}
			if vty == "" {
				vty = "int"
			}
			if _, dup := env.vars[n]; dup {
				return "", fmt.Errorf("at: %s redefined at %s", n, fset.Position(x.Pos()))
			}
			ln := "v_" + n
			body = append(body, "let "+ln+" : Int := "+v+";")
			env.vars[n] = c08hVar{ln, vty}
		case *ast.ReturnStmt:
			rv, err := env.ret(x)
			if err != nil {
				return "", err
			}
			body = append(body, rv)
			done = true
		default:
			return "", fmt.Errorf("at: unsupported statement %T at %s", st, fset.Position(st.Pos()))
		}
	}
	if !done {
		return "", fmt.Errorf("at: no final return")
	}
	// every caller passes the value read by readVarInt unchanged: `X, buf, err := readVarInt(n, buf)` … `d.at(X)`
	for _, fn := range []string{"parseFieldIndexed", "parseFieldLiteral"} {
		fd := findFunc(hf, "Decoder", fn)
		if fd == nil {
			return "", fmt.Errorf("%s not found", fn)
		}
		fromVarint := map[string]bool{}
		calls := 0
		var bad error
		ast.Inspect(fd.Body, func(n ast.Node) bool {
			switch x := n.(type) {
			case *ast.AssignStmt:
				if len(x.Rhs) == 1 {
					if c, ok := x.Rhs[0].(*ast.CallExpr); ok && exprKey(c.Fun) == "readVarInt" && len(x.Lhs) == 3 && x.Tok == token.DEFINE {
						fromVarint[exprKey(x.Lhs[0])] = true
					}
				}
			case *ast.CallExpr:
				if exprKey(x.Fun) == "d.at" {
					calls++
					if len(x.Args) != 1 || !fromVarint[exprKey(x.Args[0])] {
						bad = fmt.Errorf("%s: d.at is not called with the integer read by readVarInt at %s", fn, fset.Position(x.Pos()))
					}
				}
			}
			return true
		})
		if bad != nil {
			return "", bad
		}
		if calls != 1 {
			return "", fmt.Errorf("%s: expected exactly one call of d.at, found %d", fn, calls)
		}
	}
	// readVarInt returns uint64
	rv := findFunc(hf, "", "readVarInt")
	if rv == nil || rv.Type.Results == nil || len(rv.Type.Results.List) == 0 || exprKey(rv.Type.Results.List[0].Type) != pty.Name {
		return "", fmt.Errorf("readVarInt's first result is not the parameter type of at (%s)", pty.Name)
	}

	s := header("HpackAt", dir+"/hpack.go (Decoder.at, Decoder.maxTableIndex; callers parseFieldIndexed, parseFieldLiteral)", dir+"/tables.go (headerFieldTable.len)")
	s += "/-! fixed text of the extractor: two's-complement wrap of a mathematical value into a Go integer type, and the\nchecked index access (Go panics with `index out of range` unless 0 ≤ idx < len) -/\n"
	for _, w := range []int{8, 16, 32, 64} {
		pow := new(strings.Builder)
		fmt.Fprintf(pow, "%d", uint64(1)<<uint(w-1))
		half := pow.String()
		var full string
		if w == 64 {
			full = "18446744073709551616"
		} else {
			full = fmt.Sprintf("%d", uint64(1)<<uint(w))
		}
		s += fmt.Sprintf("def wrapU%d (x : Int) : Int := x %% %s\n", w, full)
		s += fmt.Sprintf("def wrapS%d (x : Int) : Int := (x + %s) %% %s - %s\n", w, half, full, half)
	}
	s += "inductive Tab where\n  | static | dyn\nderiving DecidableEq, Repr\n"
	s += "inductive AtRes where\n  | none | entry (t : Tab) (k : Nat) | oob\nderiving DecidableEq, Repr\n"
	s += "def chkIdx (t : Tab) (len idx : Int) : AtRes := if 0 ≤ idx ∧ idx < len then .entry t idx.toNat else .oob\n\n"
	s += fmt.Sprintf("/-- the parameter of `at` is a Go `%s`: %d bits, %s -/\ndef indexBits : Nat := %d\ndef indexSigned : Bool := %v\n\n",
		pty.Name, pw[0], map[int]string{0: "unsigned", 1: "signed"}[pw[1]], pw[0], pw[1] == 1)
	s += "/-- `Decoder.maxTableIndex()` -/\ndef maxTableIndex (staticLen dynLen : Int) : Int := " + ms + "\n\n"
	s += "/-- `Decoder.at(" + pname + " " + pty.Name + ")`: `staticLen = staticTable.len()`, `dynLen = d.dynTab.table.len()`, `i` the mathematical value of the\nargument; `.entry t k` = `t.ents[k]` -/\n"
	s += "def tableAt (staticLen dynLen i : Int) : AtRes :=\n"
	for _, l := range body {
		s += "  " + l + "\n"
	}
	s += footer("HpackAt")
	return s, nil
}
