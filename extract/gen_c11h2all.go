package main

import (
	"fmt"
	"go/ast"
	"strings"
)

// ---------------------------------------------------------------------------------------------------------
// Gen.H2GoAway, second part: EVERY frame handler of MServerConn (pkg/module/http2/mhttp2.go) and what it does once the
// connection has sent a GOAWAY.  For the handlers that take no stream id into account the go-away test is a Bool over
// (inGoAway, goAwayCode):
//
//   processWindowUpdate  windowUpdateIgnored   guard of a leading `if …sc.inGoAway… { return nil }` before `fl.add(…)`
//   processSettings      settingsIgnored       … before `f.ForeachSetting(sc.processSetting)` (and the ack that follows it)
//   processPing          pingIgnored           … before the ack is written (`sc.Framer.startWrite`)
//   processPriority      priorityIgnored       the handler has no effect in either branch (checked: priorityHasEffect)
//   processGoAway        peerGoAwayStartsGraceful: the peer's GOAWAY starts our graceful shutdown, nothing else is tested
//
// `false` = the handler does not look at the go-away state at all.  A mention of sc.inGoAway / sc.goAwayCode anywhere
// else in a handler (nested, after the effect, with an else, a body other than `return nil`) is unsupported.

// c11gwIgnored: the disjunction of the guards of the top-level `if <…sc.inGoAway…> { return <results> }` statements of fd
// that precede the first statement containing a call to one of `effects`.
func c11gwIgnored(fd *ast.FuncDecl, effects []string, results ...string) (string, error) {
	names := map[string]string{"sc.inGoAway": "inGoAway", "sc.goAwayCode": "goAwayCode",
		"ErrCodeNo": "ErrCodeNo", "ErrCodeProtocol": "ErrCodeProtocol", "ErrCodeStreamClosed": "ErrCodeStreamClosed"}
	var guards []string
	covered := map[ast.Node]bool{}
	seenEffect := false
	for _, st := range fd.Body.List {
		isEffect := false
		for _, e := range effects {
			if len(callsTo(st, e)) > 0 {
				isEffect = true
			}
		}
		ifs, ok := st.(*ast.IfStmt)
		if ok && (c11Mentions(ifs.Cond, "sc.inGoAway") || c11Mentions(ifs.Cond, "sc.goAwayCode")) {
			if seenEffect || isEffect {
				return "", fmt.Errorf("%s: go-away test after / around the handler's effect", fd.Name.Name)
			}
			if ifs.Init != nil || ifs.Else != nil || len(ifs.Body.List) != 1 || !c11h2IsReturnOf(ifs.Body.List[0], results...) {
				return "", fmt.Errorf("%s: the go-away branch is not a plain `return %s`", fd.Name.Name, strings.Join(results, ", "))
			}
			c, err := (&Env{Names: names, Calls: map[string]string{}}).expr(ifs.Cond)
			if err != nil {
				return "", fmt.Errorf("%s: go-away guard `%s`: %v", fd.Name.Name, exprKey(ifs.Cond), err)
			}
			guards = append(guards, c)
			covered[ifs.Cond] = true
		}
		if isEffect {
			seenEffect = true
		}
	}
	if len(effects) > 0 && !seenEffect {
		return "", fmt.Errorf("%s: the handler's effect (%s) not found at the top level", fd.Name.Name, strings.Join(effects, " / "))
	}
	// every other mention of the go-away state is unsupported
	bad := false
	var walk func(n ast.Node) bool
	walk = func(n ast.Node) bool {
		if n == nil || covered[n] {
			return false
		}
		if e, ok := n.(ast.Expr); ok {
			if k := exprKey(e); k == "sc.inGoAway" || k == "sc.goAwayCode" {
				bad = true
			}
		}
		return true
	}
	ast.Inspect(fd.Body, walk)
	if bad {
		return "", fmt.Errorf("%s: sc.inGoAway / sc.goAwayCode used outside a leading `if … { return … }`", fd.Name.Name)
	}
	if len(guards) == 0 {
		return "false", nil
	}
	return "(" + strings.Join(guards, " || ") + ")", nil
}

func c11gwHandlers(f *ast.File) (string, error) {
	get := func(name string) (*ast.FuncDecl, error) {
		fd := findFunc(f, "MServerConn", name)
		if fd == nil || fd.Body == nil {
			return nil, fmt.Errorf("MServerConn.%s not found", name)
		}
		return fd, nil
	}
	s := "\n-- every frame handler of MServerConn under the go-away state\n"
	type h struct {
		fn, def, doc string
		effects      []string
	}
	for _, x := range []h{
		{"processWindowUpdate", "windowUpdateIgnored", "the WINDOW_UPDATE frame (stream or connection level) is dropped: no credit is added, no sender is woken", []string{"fl.add"}},
		{"processSettings", "settingsIgnored", "the SETTINGS frame is dropped: not applied, not acknowledged", []string{"f.ForeachSetting"}},
		{"processPing", "pingIgnored", "the PING frame is not answered", []string{"sc.Framer.startWrite"}},
	} {
		fd, err := get(x.fn)
		if err != nil {
			return "", err
		}
		g, err := c11gwIgnored(fd, x.effects, "nil")
		if err != nil {
			return "", err
		}
		s += fmt.Sprintf("/-- MServerConn.%s: %s -/\ndef %s (inGoAway : Bool) (goAwayCode : Int) : Bool := %s\n", x.fn, x.doc, x.def, g)
	}
	// processWindowUpdate wakes the senders after adding the credit
	wu, _ := get("processWindowUpdate")
	if len(callsTo(wu, "sc.cond.Broadcast")) == 0 {
		return "", fmt.Errorf("processWindowUpdate: sc.cond.Broadcast() not found")
	}
	// processSettings acknowledges after applying
	ps, _ := get("processSettings")
	if !c11Mentions(ps, "FlagSettingsAck") {
		return "", fmt.Errorf("processSettings: the SETTINGS ack is not written")
	}
	// processPriority: no effect in any branch
	pp, err := get("processPriority")
	if err != nil {
		return "", err
	}
	g, err := c11gwIgnored(pp, nil, "nil")
	if err != nil {
		return "", err
	}
	effect := false
	ast.Inspect(pp.Body, func(n ast.Node) bool {
		switch x := n.(type) {
		case *ast.CallExpr, *ast.AssignStmt, *ast.IncDecStmt, *ast.GoStmt, *ast.DeferStmt:
			effect = true
		case *ast.ReturnStmt:
			if len(x.Results) != 1 || exprKey(x.Results[0]) != "nil" {
				effect = true
			}
		}
		return true
	})
	s += "/-- MServerConn.processPriority: the go-away test of the handler; the handler has no effect in either branch -/\n"
	s += "def priorityIgnored (inGoAway : Bool) (goAwayCode : Int) : Bool := " + g + "\n"
	s += fmt.Sprintf("def priorityHasEffect : Bool := %v\n", effect)
	// processGoAway: the peer's GOAWAY starts our graceful shutdown
	pg, err := get("processGoAway")
	if err != nil {
		return "", err
	}
	if c11Mentions(pg, "sc.inGoAway") || c11Mentions(pg, "sc.goAwayCode") {
		return "", fmt.Errorf("processGoAway: tests the go-away state (unsupported)")
	}
	s += "/-- MServerConn.processGoAway: a GOAWAY from the peer starts the graceful shutdown of this side -/\n"
	s += fmt.Sprintf("def peerGoAwayStartsGraceful : Bool := %v\n", len(callsTo(pg, "sc.startGracefulShutdownInternal")) == 1)
	// which handlers look at the go-away state at all
	var tab []string
	for _, n := range []string{"processHeaders", "processData", "processWindowUpdate", "processSettings", "processPing", "processResetStream", "processPriority", "processGoAway"} {
		fd, err := get(n)
		if err != nil {
			return "", err
		}
		tab = append(tab, fmt.Sprintf("(%q, %v)", n, c11Mentions(fd, "sc.inGoAway")))
	}
	s += "/-- which frame handlers test `sc.inGoAway` -/\n"
	s += "def handlerTestsGoAway : List (String × Bool) := [" + strings.Join(tab, ", ") + "]\n"
	return s, nil
}
