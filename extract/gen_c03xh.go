package main

// Gen module XHijack (c03t10): what every xprotocol codec's Hijack / Mapping does, and what the xprotocol server stream does
// with the result (buildHijackResp, endStream) — closed vocabulary, symbolic status names (the numeric values of bolt's
// constants are resolved here; those of the external libraries hessian / thrift / TarsGo are a hand table in the model).

import (
	"bytes"
	"fmt"
	"go/ast"
	"go/printer"
	"go/token"
	"sort"
	"strings"
)

func init() { register("XHijack", genC03xh) }

// c03xhSrc: the source text of a node without white space
func c03xhSrc(n ast.Node) string {
	var b bytes.Buffer
	if err := printer.Fprint(&b, fset, n); err != nil {
		return "?"
	}
	return strings.Join(strings.Fields(b.String()), "")
}

func c03xhLastName(e ast.Expr) string {
	for {
		switch x := e.(type) {
		case *ast.CallExpr:
			if len(x.Args) != 1 {
				return ""
			}
			e = x.Args[0]
		case *ast.ParenExpr:
			e = x.X
		case *ast.SelectorExpr:
			return x.Sel.Name
		case *ast.Ident:
			return x.Name
		case *ast.BasicLit:
			return x.Value
		default:
			return ""
		}
	}
}

func c03xhCode(e ast.Expr) (int64, error) {
	switch x := e.(type) {
	case *ast.SelectorExpr:
		if id, ok := x.X.(*ast.Ident); ok {
			if id.Name == "api" {
				return apiInt(x.Sel.Name)
			}
			if id.Name == "http" && x.Sel.Name == "StatusOK" {
				return 200, nil
			}
		}
	case *ast.BasicLit:
		var v int64
		if _, err := fmt.Sscan(x.Value, &v); err == nil {
			return v, nil
		}
	}
	return 0, fmt.Errorf("unsupported status code expression %s", exprKey(e))
}

// c03xhSwitch: Mapping written as `switch httpStatusCode { case C…: <one statement naming a status> … default: … }`
func c03xhSwitch(fd *ast.FuncDecl) (table string, def string, err error) {
	var sw *ast.SwitchStmt
	for _, s := range fd.Body.List {
		if x, ok := s.(*ast.SwitchStmt); ok {
			sw = x
		}
	}
	if sw == nil || exprKey(sw.Tag) != "httpStatusCode" {
		return "", "", fmt.Errorf("%s: no switch over httpStatusCode", fd.Name.Name)
	}
	var rows []string
	for _, c := range sw.Body.List {
		cc := c.(*ast.CaseClause)
		if len(cc.Body) != 1 {
			return "", "", fmt.Errorf("case body with %d statements", len(cc.Body))
		}
		name := ""
		switch s := cc.Body[0].(type) {
		case *ast.ReturnStmt:
			if len(s.Results) == 1 {
				name = c03xhLastName(s.Results[0])
			}
		case *ast.AssignStmt:
			if len(s.Rhs) == 1 && s.Tok == token.ASSIGN {
				name = c03xhLastName(s.Rhs[0])
			}
		}
		if name == "" {
			return "", "", fmt.Errorf("case body not understood")
		}
		if cc.List == nil {
			def = name
			continue
		}
		for _, e := range cc.List {
			v, err := c03xhCode(e)
			if err != nil {
				return "", "", err
			}
			rows = append(rows, fmt.Sprintf("(%d, %q)", v, name))
		}
	}
	if def == "" {
		return "", "", fmt.Errorf("no default branch")
	}
	return "[" + strings.Join(rows, ", ") + "]", def, nil
}

// c03xhMap: `dubboMosnStatusMap = map[int]…{ api.X: {Status: pkg.NAME, Msg: …}, … }`
func c03xhMap(file string) (string, error) {
	f, err := parse(file)
	if err != nil {
		return "", err
	}
	var rows []string
	var ferr error
	ast.Inspect(f, func(n ast.Node) bool {
		vs, ok := n.(*ast.ValueSpec)
		if !ok || len(vs.Names) != 1 || vs.Names[0].Name != "dubboMosnStatusMap" || len(vs.Values) != 1 {
			return true
		}
		cl, ok := vs.Values[0].(*ast.CompositeLit)
		if !ok {
			return true
		}
		for _, el := range cl.Elts {
			kv := el.(*ast.KeyValueExpr)
			code, err := c03xhCode(kv.Key)
			if err != nil {
				ferr = err
				return false
			}
			name := ""
			if v, ok := kv.Value.(*ast.CompositeLit); ok {
				for _, fe := range v.Elts {
					if fkv, ok := fe.(*ast.KeyValueExpr); ok && exprKey(fkv.Key) == "Status" {
						name = c03xhLastName(fkv.Value)
					}
				}
			}
			if name == "" {
				ferr = fmt.Errorf("%s: entry %d without Status", file, code)
				return false
			}
			rows = append(rows, fmt.Sprintf("(%d, %q)", code, name))
		}
		return false
	})
	if ferr != nil {
		return "", ferr
	}
	if len(rows) == 0 {
		return "", fmt.Errorf("%s: dubboMosnStatusMap not found", file)
	}
	return "[" + strings.Join(rows, ", ") + "]", nil
}

// c03xhField: the value given to one of the named fields in a composite literal of fd's body ("" = none)
func c03xhField(n ast.Node, names ...string) string {
	out := ""
	ast.Inspect(n, func(x ast.Node) bool {
		if kv, ok := x.(*ast.KeyValueExpr); ok && out == "" {
			for _, nm := range names {
				if exprKey(kv.Key) == nm {
					out = exprKey(kv.Value)
				}
			}
		}
		return true
	})
	return out
}

func c03xhReturnsNil(fd *ast.FuncDecl) bool {
	if len(fd.Body.List) == 0 {
		return true
	}
	r, ok := fd.Body.List[len(fd.Body.List)-1].(*ast.ReturnStmt)
	return !ok || len(r.Results) != 1 || exprKey(r.Results[0]) == "nil"
}

func c03xhBool(b bool) string {
	if b {
		return "true"
	}
	return "false"
}

func genC03xh() (string, error) {
	s := header("XHijack", "pkg/protocol/xprotocol/{bolt,boltv2,dubbo,dubbothrift,tars}/protocol.go (Hijack, Mapping)",
		"pkg/protocol/xprotocol/{dubbo,dubbothrift}/types.go (dubboMosnStatusMap)", "pkg/stream/xprotocol/stream.go (buildHijackResp, endStream)", "mosn.io/api (status codes)")
	type cd struct{ name, dir, recv string }
	codecs := []cd{{"bolt", "pkg/protocol/xprotocol/bolt", "boltProtocol"}, {"boltv2", "pkg/protocol/xprotocol/boltv2", "boltv2Protocol"},
		{"dubbo", "pkg/protocol/xprotocol/dubbo", "dubboProtocol"}, {"thrift", "pkg/protocol/xprotocol/dubbothrift", "thriftProtocol"},
		{"tars", "pkg/protocol/xprotocol/tars", "tarsProtocol"}}
	for _, c := range codecs {
		f, err := parse(c.dir + "/protocol.go")
		if err != nil {
			return "", err
		}
		hj, mp := findFunc(f, c.recv, "Hijack"), findFunc(f, c.recv, "Mapping")
		if hj == nil || mp == nil {
			return "", fmt.Errorf("%s: Hijack / Mapping not found", c.name)
		}
		s += fmt.Sprintf("def %sHijackNil : Bool := %s\n", c.name, c03xhBool(c03xhReturnsNil(hj)))
		s += fmt.Sprintf("def %sHijackId : String := %q\n", c.name, c03xhField(hj, "RequestId", "Id", "IRequestId"))
		s += fmt.Sprintf("def %sHijackStatus : String := %q\n", c.name, c03xhField(hj, "ResponseStatus", "IRet"))
		// Mapping: identity or a switch
		ident := false
		if len(mp.Body.List) == 1 {
			if r, ok := mp.Body.List[0].(*ast.ReturnStmt); ok && len(r.Results) == 1 && exprKey(r.Results[0]) == "httpStatusCode" {
				ident = true
			}
		}
		s += fmt.Sprintf("def %sMappingIdentity : Bool := %s\n", c.name, c03xhBool(ident))
		if ident {
			tbl, err := c03xhMap(c.dir + "/types.go")
			if err != nil {
				return "", err
			}
			s += fmt.Sprintf("def %sTable : List (Nat × String) := %s\n", c.name, tbl)
			// the lookup in Hijack: `v, ok := dubboMosnStatusMap[int(statusCode)]; if !ok { v = {Status: D} }` or unchecked
			def, checked := "", false
			ast.Inspect(hj, func(n ast.Node) bool {
				if as, ok := n.(*ast.AssignStmt); ok && len(as.Rhs) == 1 && strings.HasPrefix(c03xhSrc(as.Rhs[0]), "dubboMosnStatusMap[") {
					checked = len(as.Lhs) == 2
				}
				if is, ok := n.(*ast.IfStmt); ok && c03xhSrc(is.Cond) == "!ok" {
					ast.Inspect(is.Body, func(m ast.Node) bool {
						if kv, ok := m.(*ast.KeyValueExpr); ok && exprKey(kv.Key) == "Status" {
							def = c03xhLastName(kv.Value)
						}
						return true
					})
				}
				return true
			})
			if !checked {
				def = "" // the zero value of the entry type
			} else if def == "" {
				return "", fmt.Errorf("%s: checked lookup without a default status", c.name)
			}
			s += fmt.Sprintf("def %sDefault : String := %q\n", c.name, def)
		} else if c03xhReturnsNil(hj) && len(mp.Body.List) == 1 {
			s += fmt.Sprintf("def %sTable : List (Nat × String) := []\ndef %sDefault : String := %q\n", c.name, c.name, "0")
		} else {
			tbl, def, err := c03xhSwitch(mp)
			if err != nil {
				return "", fmt.Errorf("%s: %v", c.name, err)
			}
			s += fmt.Sprintf("def %sTable : List (Nat × String) := %s\ndef %sDefault : String := %q\n", c.name, tbl, c.name, def)
		}
	}
	// bolt's status constants, resolved
	cs, err := pkgConsts("pkg/protocol/xprotocol/bolt")
	if err != nil {
		return "", err
	}
	var names []string
	for n := range cs {
		if strings.HasPrefix(n, "ResponseStatus") {
			names = append(names, n)
		}
	}
	sort.Strings(names)
	var rows []string
	for _, n := range names {
		v, err := intConst("pkg/protocol/xprotocol/bolt", n)
		if err != nil {
			return "", err
		}
		rows = append(rows, fmt.Sprintf("(%q, %d)", n, v))
	}
	s += "def boltConsts : List (String × Nat) := [" + strings.Join(rows, ", ") + "]\n"

	// the server stream
	f, err := parse("pkg/stream/xprotocol/stream.go")
	if err != nil {
		return "", err
	}
	bh, es := findFunc(f, "xStream", "buildHijackResp"), findFunc(f, "xStream", "endStream")
	if bh == nil || es == nil {
		return "", fmt.Errorf("buildHijackResp / endStream not found")
	}
	viaMapping := false
	ast.Inspect(bh, func(n ast.Node) bool {
		if r, ok := n.(*ast.ReturnStmt); ok && len(r.Results) == 2 &&
			exprKey(r.Results[0]) == "proto.Hijack(ctx,request,proto.Mapping(uint32(statusCode)))" {
			viaMapping = true
		}
		return true
	})
	if !viaMapping { // tolerate the spacing of exprKey
		ast.Inspect(bh, func(n ast.Node) bool {
			if r, ok := n.(*ast.ReturnStmt); ok && len(r.Results) == 2 {
				k := c03xhSrc(r.Results[0])
				if k == "proto.Hijack(ctx,request,proto.Mapping(uint32(statusCode)))" {
					viaMapping = true
				}
			}
			return true
		})
	}
	s += "def buildHijackViaMapping : Bool := " + c03xhBool(viaMapping) + "\n"
	guard, setsId, writes := false, false, false
	for _, st := range es.Body.List {
		is, ok := st.(*ast.IfStmt)
		if !ok || c03xhSrc(is.Cond) != "s.frame!=nil" {
			continue
		}
		guard = true
		ast.Inspect(is.Body, func(n ast.Node) bool {
			if c, ok := n.(*ast.CallExpr); ok {
				k := c03xhSrc(c)
				if k == "s.frame.SetRequestId(s.id)" {
					setsId = true
				}
				if k == "s.sc.netConn.Write(buf)" {
					writes = true
				}
			}
			return true
		})
	}
	// a write outside the guard would be a reply without a frame
	s += "def endStreamNilGuard : Bool := " + c03xhBool(guard) + "\n"
	s += "def endStreamSetsRequestId : Bool := " + c03xhBool(setsId) + "\n"
	s += "def endStreamWritesFrame : Bool := " + c03xhBool(writes) + "\n"
	return s + footer("XHijack"), nil
}
