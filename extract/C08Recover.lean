-- translation-unsupported C08Recover: open -out/pkg/sync/workerpool.go: no such file or directory
namespace MosnVerif.Gen.C08Recover
end MosnVerif.Gen.C08Recover
