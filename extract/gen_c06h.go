package main

// C06 (health changes after the balancer was built / loop bodies with continue and break):
//
//   * c06hCtlBlock: a statement-list translator for LOOP BODIES. Unlike Env.block it understands `continue` and
//     `break` (and rejects labels / goto / fallthrough), so an `if … { break }` shortcut can not vanish from the
//     regenerated step: every path of the body ends in exactly one of `next` (next iteration), `stop` (the loop is
//     left) or `ret` (the enclosing function returns).
//   * genEdfRefresh (module EdfRefresh): the structure of EdfLoadBalancer.refresh (loadbalancer.go) — the two early
//     returns, WHICH hosts the `hosts.Range` callback adds to the EDF scheduler (any guard on host.Health() becomes
//     part of `rangeStep`), what happens between the Range and the warm-up (`dropsEmpty`), and the bound of the
//     warm-up draw. Statements outside the expected shape are rejected (=> translation-unsupported).

import (
	"fmt"
	"go/ast"
	"go/token"
)

func init() { register("EdfRefresh", genEdfRefresh) }

// c06hCtl says how the three ways of leaving one loop iteration are rendered.
type c06hCtl struct {
	Next string                            // falls off the end of the body, or `continue`
	Stop string                            // `break`
	Ret  func(rs []string) (string, error) // `return …`
}

func c06hTerminates(l []ast.Stmt) bool {
	if len(l) == 0 {
		return false
	}
	switch x := l[len(l)-1].(type) {
	case *ast.ReturnStmt, *ast.BranchStmt:
		return true
	case *ast.BlockStmt:
		return c06hTerminates(x.List)
	case *ast.IfStmt:
		if x.Else == nil {
			return false
		}
		switch eb := x.Else.(type) {
		case *ast.BlockStmt:
			return c06hTerminates(x.Body.List) && c06hTerminates(eb.List)
		case *ast.IfStmt:
			return c06hTerminates(x.Body.List) && c06hTerminates([]ast.Stmt{eb})
		}
	}
	return false
}

// c06hCtlBlock renders the statements of a loop body (continuation style, like Env.block) to a Lean expression.
// Supported: assignment / += / -= / ++ / -- of env-mapped variables, `:=` of new locals, if / else if / else without
// init, blocks, `return`, unlabelled `continue` and `break`. Everything else is an error.
func c06hCtlBlock(env *Env, ctl c06hCtl, stmts []ast.Stmt, ind string) (string, error) {
	if len(stmts) == 0 {
		return ctl.Next, nil
	}
	s, rest := stmts[0], stmts[1:]
	switch x := s.(type) {
	case *ast.BranchStmt:
		if x.Label != nil {
			return "", fmt.Errorf("labelled %s", x.Tok)
		}
		switch x.Tok {
		case token.CONTINUE:
			return ctl.Next, nil
		case token.BREAK:
			return ctl.Stop, nil
		}
		return "", fmt.Errorf("unsupported branch statement %s", x.Tok)
	case *ast.ReturnStmt:
		var rs []string
		for _, r := range x.Results {
			e, err := env.expr(r)
			if err != nil {
				return "", err
			}
			rs = append(rs, e)
		}
		return ctl.Ret(rs)
	case *ast.BlockStmt:
		if c06hTerminates(x.List) {
			return c06hCtlBlock(env, ctl, x.List, ind)
		}
		return c06hCtlBlock(env, ctl, append(append([]ast.Stmt{}, x.List...), rest...), ind)
	case *ast.AssignStmt:
		if len(x.Lhs) != 1 || len(x.Rhs) != 1 {
			return "", fmt.Errorf("multi-assign")
		}
		key := exprKey(x.Lhs[0])
		name, ok := env.Names[key]
		if !ok {
			if x.Tok != token.DEFINE {
				return "", fmt.Errorf("assign to unknown %s", key)
			}
			if _, isIdent := x.Lhs[0].(*ast.Ident); !isIdent {
				return "", fmt.Errorf("define of non-identifier %s", key)
			}
			name = key
		}
		rhs, err := env.expr(x.Rhs[0])
		if err != nil {
			return "", err
		}
		switch x.Tok {
		case token.ASSIGN, token.DEFINE:
		case token.ADD_ASSIGN:
			rhs = env.arith("+", name, rhs)
		case token.SUB_ASSIGN:
			rhs = env.arith("-", name, rhs)
		default:
			return "", fmt.Errorf("assign op %v", x.Tok)
		}
		saved := env.Names
		if !ok {
			env.Names = copyNames(env.Names)
			env.Names[key] = name
		}
		k, err := c06hCtlBlock(env, ctl, rest, ind)
		env.Names = saved
		if err != nil {
			return "", err
		}
		return "let " + name + " := " + rhs + "\n" + ind + k, nil
	case *ast.IncDecStmt:
		name, ok := env.Names[exprKey(x.X)]
		if !ok {
			return "", fmt.Errorf("incdec of unknown %s", exprKey(x.X))
		}
		op := "+"
		if x.Tok == token.DEC {
			op = "-"
		}
		k, err := c06hCtlBlock(env, ctl, rest, ind)
		if err != nil {
			return "", err
		}
		return "let " + name + " := " + env.arith(op, name, "1") + "\n" + ind + k, nil
	case *ast.IfStmt:
		if x.Init != nil {
			return "", fmt.Errorf("if with init")
		}
		c, err := env.expr(x.Cond)
		if err != nil {
			return "", err
		}
		thenStmts := x.Body.List
		if !c06hTerminates(thenStmts) {
			thenStmts = append(append([]ast.Stmt{}, thenStmts...), rest...)
		}
		var elseStmts []ast.Stmt
		switch eb := x.Else.(type) {
		case nil:
			elseStmts = rest
		case *ast.BlockStmt:
			elseStmts = eb.List
			if !c06hTerminates(elseStmts) {
				elseStmts = append(append([]ast.Stmt{}, elseStmts...), rest...)
			}
		case *ast.IfStmt:
			elseStmts = []ast.Stmt{eb}
			if !c06hTerminates(elseStmts) {
				elseStmts = append(elseStmts, rest...)
			}
		default:
			return "", fmt.Errorf("unsupported else %T", x.Else)
		}
		t, err := c06hCtlBlock(env, ctl, thenStmts, ind+"  ")
		if err != nil {
			return "", err
		}
		e, err := c06hCtlBlock(env, ctl, elseStmts, ind+"  ")
		if err != nil {
			return "", err
		}
		return "if " + c + " then\n" + ind + "  " + t + "\n" + ind + "else\n" + ind + "  " + e, nil
	}
	return "", fmt.Errorf("unsupported statement %T in a loop body", s)
}

// c06hOnlyReturn: the block is exactly `return` (no results).
func c06hOnlyReturn(b *ast.BlockStmt) bool {
	if b == nil || len(b.List) != 1 {
		return false
	}
	r, ok := b.List[0].(*ast.ReturnStmt)
	return ok && len(r.Results) == 0
}

// c06hRangeBody renders the callback of `hosts.Range(func(host types.Host) bool { … })` as a Lean expression of type
// `Bool × Bool` = (the host is added to the scheduler with lb.hostWeightFunc(host), the iteration goes on).
// Vocabulary: `lb.scheduler.Add(host, lb.hostWeightFunc(host))`, if / else over conditions built from host.Health(),
// !, &&, ||, true, false, and `return true|false`. `added` tracks whether the path has executed the Add.
func c06hRangeBody(env *Env, host string, stmts []ast.Stmt, added bool, ind string) (string, error) {
	if len(stmts) == 0 {
		return "", fmt.Errorf("Range callback: a path ends without return")
	}
	s, rest := stmts[0], stmts[1:]
	b2s := map[bool]string{true: "true", false: "false"}
	switch x := s.(type) {
	case *ast.ReturnStmt:
		if len(x.Results) != 1 {
			return "", fmt.Errorf("Range callback: return arity")
		}
		id, ok := x.Results[0].(*ast.Ident)
		if !ok || (id.Name != "true" && id.Name != "false") {
			return "", fmt.Errorf("Range callback: return value is not a literal")
		}
		return "(" + b2s[added] + ", " + id.Name + ")", nil
	case *ast.ExprStmt:
		c, ok := x.X.(*ast.CallExpr)
		if !ok || exprKey(c.Fun) != "lb.scheduler.Add" || len(c.Args) != 2 {
			return "", fmt.Errorf("Range callback: unsupported statement %s", exprKey(x.X))
		}
		if exprKey(c.Args[0]) != host || exprKey(c.Args[1]) != "lb.hostWeightFunc("+host+")" {
			return "", fmt.Errorf("Range callback: Add(%s, %s) is not Add(host, lb.hostWeightFunc(host))", exprKey(c.Args[0]), exprKey(c.Args[1]))
		}
		if added {
			return "", fmt.Errorf("Range callback: a host is added twice")
		}
		return c06hRangeBody(env, host, rest, true, ind)
	case *ast.BlockStmt:
		return c06hRangeBody(env, host, append(append([]ast.Stmt{}, x.List...), rest...), added, ind)
	case *ast.IfStmt:
		if x.Init != nil {
			return "", fmt.Errorf("Range callback: if with init")
		}
		c, err := env.expr(x.Cond)
		if err != nil {
			return "", fmt.Errorf("Range callback: condition: %v", err)
		}
		thenStmts := x.Body.List
		if !c06hTerminates(thenStmts) {
			thenStmts = append(append([]ast.Stmt{}, thenStmts...), rest...)
		}
		var elseStmts []ast.Stmt
		switch eb := x.Else.(type) {
		case nil:
			elseStmts = rest
		case *ast.BlockStmt:
			elseStmts = eb.List
			if !c06hTerminates(elseStmts) {
				elseStmts = append(append([]ast.Stmt{}, elseStmts...), rest...)
			}
		case *ast.IfStmt:
			elseStmts = []ast.Stmt{eb}
			if !c06hTerminates(elseStmts) {
				elseStmts = append(elseStmts, rest...)
			}
		}
		t, err := c06hRangeBody(env, host, thenStmts, added, ind+"  ")
		if err != nil {
			return "", err
		}
		e, err := c06hRangeBody(env, host, elseStmts, added, ind+"  ")
		if err != nil {
			return "", err
		}
		return "if " + c + " then\n" + ind + "  " + t + "\n" + ind + "else\n" + ind + "  " + e, nil
	}
	return "", fmt.Errorf("Range callback: unsupported statement %T", s)
}

func genEdfRefresh() (string, error) {
	const src = "pkg/upstream/cluster/loadbalancer.go"
	f, err := parse(src)
	if err != nil {
		return "", err
	}
	fd := findFunc(f, "EdfLoadBalancer", "refresh")
	if fd == nil {
		return "", fmt.Errorf("EdfLoadBalancer.refresh not found")
	}
	if fd.Recv.List[0].Names == nil || fd.Recv.List[0].Names[0].Name != "lb" {
		return "", fmt.Errorf("refresh: receiver is not named lb")
	}
	ps := fd.Type.Params.List
	if len(ps) != 2 || len(ps[0].Names) != 1 || ps[0].Names[0].Name != "info" || len(ps[1].Names) != 1 || ps[1].Names[0].Name != "hosts" {
		return "", fmt.Errorf("refresh: parameters are not (info, hosts)")
	}
	st := fd.Body.List
	pos := 0
	next := func() ast.Stmt {
		if pos >= len(st) {
			return nil
		}
		pos++
		return st[pos-1]
	}
	// var slowStart types.SlowStart ; if info != nil { slowStart = info.SlowStart() }
	if d, ok := next().(*ast.DeclStmt); !ok {
		return "", fmt.Errorf("refresh: statement 1 is not `var slowStart …`")
	} else if gd, ok := d.Decl.(*ast.GenDecl); !ok || gd.Tok != token.VAR || len(gd.Specs) != 1 {
		return "", fmt.Errorf("refresh: statement 1 is not `var slowStart …`")
	} else if vs, ok := gd.Specs[0].(*ast.ValueSpec); !ok || len(vs.Names) != 1 || vs.Names[0].Name != "slowStart" || len(vs.Values) != 0 {
		return "", fmt.Errorf("refresh: statement 1 is not `var slowStart …`")
	}
	if is, ok := next().(*ast.IfStmt); !ok || is.Init != nil || is.Else != nil || len(is.Body.List) != 1 {
		return "", fmt.Errorf("refresh: statement 2 is not `if info != nil { slowStart = info.SlowStart() }`")
	} else {
		be, isBin := is.Cond.(*ast.BinaryExpr)
		l, r, ok := assignParts(is.Body.List[0], token.ASSIGN)
		if !isBin || be.Op != token.NEQ || exprKey(be.X) != "info" || exprKey(be.Y) != "nil" || !ok || l != "slowStart" || exprKey(r) != "info.SlowStart()" {
			return "", fmt.Errorf("refresh: statement 2 is not `if info != nil { slowStart = info.SlowStart() }`")
		}
	}
	// the two early returns
	guard := func(what string, names map[string]string) (string, error) {
		is, ok := next().(*ast.IfStmt)
		if !ok || is.Init != nil || is.Else != nil || !c06hOnlyReturn(is.Body) {
			return "", fmt.Errorf("refresh: %s is not `if … { return }`", what)
		}
		env := &Env{Names: names, Calls: map[string]string{}}
		c, err := env.expr(is.Cond)
		if err != nil {
			return "", fmt.Errorf("refresh: %s: %v", what, err)
		}
		return c, nil
	}
	skipSmall, err := guard("the size guard", map[string]string{"hosts.Size()": "size"})
	if err != nil {
		return "", err
	}
	skipEqual, err := guard("the equal-weights guard", map[string]string{"slowStart.Mode": "mode", "hostWeightsAreEqual(hosts)": "weightsEqual"})
	if err != nil {
		return "", err
	}
	// lb.scheduler = newEdfScheduler(hosts.Size())
	if l, r, ok := assignParts(next(), token.ASSIGN); !ok || l != "lb.scheduler" || exprKey(r) != "newEdfScheduler(hosts.Size())" {
		return "", fmt.Errorf("refresh: `lb.scheduler = newEdfScheduler(hosts.Size())` expected after the guards")
	}
	// hosts.Range(func(host types.Host) bool { … })
	rs := next()
	if !isCallStmt(rs, "hosts.Range", 1) {
		return "", fmt.Errorf("refresh: `hosts.Range(func…)` expected after the scheduler is created")
	}
	fl, ok := rs.(*ast.ExprStmt).X.(*ast.CallExpr).Args[0].(*ast.FuncLit)
	if !ok || fl.Type.Params == nil || len(fl.Type.Params.List) != 1 || len(fl.Type.Params.List[0].Names) != 1 {
		return "", fmt.Errorf("refresh: the argument of hosts.Range is not a one-parameter function literal")
	}
	host := fl.Type.Params.List[0].Names[0].Name
	renv := &Env{Names: map[string]string{host + ".Health()": "healthy"}, Calls: map[string]string{}}
	rangeStep, err := c06hRangeBody(renv, host, fl.Body.List, false, "  ")
	if err != nil {
		return "", fmt.Errorf("refresh: %v", err)
	}
	// between the Range and the warm-up: nothing, or `if lb.scheduler.items.Empty() { lb.scheduler = nil; return }`
	drops := false
	var draw ast.Stmt
	for {
		s := next()
		if s == nil {
			return "", fmt.Errorf("refresh: the warm-up draw `randomPick := lb.rand.Intn(…)` is missing")
		}
		if is, ok := s.(*ast.IfStmt); ok {
			okShape := is.Init == nil && is.Else == nil && exprKey(is.Cond) == "lb.scheduler.items.Empty()" && len(is.Body.List) == 2
			if okShape {
				l, r, ok := assignParts(is.Body.List[0], token.ASSIGN)
				ret, isRet := is.Body.List[1].(*ast.ReturnStmt)
				okShape = ok && l == "lb.scheduler" && exprKey(r) == "nil" && isRet && len(ret.Results) == 0
			}
			if !okShape || drops {
				return "", fmt.Errorf("refresh: unsupported statement between the Range and the warm-up")
			}
			drops = true
			continue
		}
		draw = s
		break
	}
	l, r, ok := assignParts(draw, token.DEFINE)
	if !ok || l != "randomPick" || !isCallExpr(r, "lb.rand.Intn", 1) {
		return "", fmt.Errorf("refresh: unsupported statement between the Range and the warm-up (expected `randomPick := lb.rand.Intn(…)`)")
	}
	denv := &Env{Names: map[string]string{"hosts.Size()": "size"}, Calls: map[string]string{}}
	bound, err := denv.expr(r.(*ast.CallExpr).Args[0])
	if err != nil {
		return "", fmt.Errorf("refresh: bound of the warm-up draw: %v", err)
	}
	// for i := 0; i < randomPick; i++ { lb.scheduler.NextAndPush(lb.hostWeightFunc) }
	fs, ok := next().(*ast.ForStmt)
	if !ok || fs.Init == nil || fs.Cond == nil || fs.Post == nil || len(fs.Body.List) != 1 {
		return "", fmt.Errorf("refresh: the warm-up loop is missing")
	}
	il, ir, ok1 := assignParts(fs.Init, token.DEFINE)
	cond, ok2 := fs.Cond.(*ast.BinaryExpr)
	post, ok3 := fs.Post.(*ast.IncDecStmt)
	if !ok1 || !ok2 || !ok3 || il != "i" || exprKey(ir) != "0" || cond.Op != token.LSS || exprKey(cond.X) != "i" || exprKey(cond.Y) != "randomPick" ||
		post.Tok != token.INC || exprKey(post.X) != "i" || !isCallStmt(fs.Body.List[0], "lb.scheduler.NextAndPush", 1) ||
		exprKey(fs.Body.List[0].(*ast.ExprStmt).X.(*ast.CallExpr).Args[0]) != "lb.hostWeightFunc" {
		return "", fmt.Errorf("refresh: the warm-up loop is not `for i := 0; i < randomPick; i++ { lb.scheduler.NextAndPush(lb.hostWeightFunc) }`")
	}
	if next() != nil {
		return "", fmt.Errorf("refresh: statements after the warm-up loop")
	}
	b2s := map[bool]string{true: "true", false: "false"}
	s := header("EdfRefresh", src+" (EdfLoadBalancer.refresh)")
	s += "/-- first early return: no scheduler for this many hosts (`hosts.Size()` is rendered as `size`). -/\n"
	s += "def skipSmall (size : Int) : Bool := " + skipSmall + "\n\n"
	s += "/-- second early return (`slowStart.Mode` is `mode`, `hostWeightsAreEqual(hosts)` is `weightsEqual`). -/\n"
	s += "def skipEqual (mode : String) (weightsEqual : Bool) : Bool := " + skipEqual + "\n\n"
	s += "set_option linter.unusedVariables false in\n/-- one call of the `hosts.Range` callback for a host whose `Health()` is `healthy`:\n(the host is added with `lb.scheduler.Add(host, lb.hostWeightFunc(host))`, the iteration goes on). -/\n"
	s += "def rangeStep (healthy : Bool) : Bool × Bool :=\n  " + rangeStep + "\n\n"
	s += "/-- between the Range and the warm-up the scheduler is dropped (`lb.scheduler = nil; return`) when it is empty. -/\n"
	s += "def dropsEmpty : Bool := " + b2s[drops] + "\n\n"
	s += "/-- the warm-up performs `rand.Intn(warmupBound size)` picks. -/\n"
	s += "def warmupBound (size : Int) : Int := " + bound + "\n"
	s += footer("EdfRefresh")
	return s, nil
}
