package main

import (
	"bytes"
	"fmt"
	"go/ast"
	"go/printer"
	"go/token"
	"regexp"
	"strings"
)

// Gen.RecvOrder: in which order the client-side response paths of the stream layer (a) take the stream out of the
// connection's books / destroy it and (b) hand the response to the receiver. Source order of the actions of
//   pkg/stream/client.go        clientStreamReceiverWrapper.OnReceive / OnDecodeError
//   pkg/stream/http/stream.go   clientStream.handleResponse          (HTTP/1: conn.stream slot)
//   pkg/stream/xprotocol/conn.go streamConn.handleResponse           (id table)
//   pkg/stream/http2/stream.go  clientStreamConnection.handleFrame   (id table)
// Actions (nested blocks walked once, in source order; a `defer`red action is appended at the end, last defer first):
//   destroy        <x>.DestroyStream()                 (in the wrapper: x must be w.stream)
//   deliver        <x>.OnReceive(…) / <x>.OnDecodeError(…) with x ending in `receiver` / `streamReceiver`
//   unslot         <x>.stream = nil
//   removeKey      delete(<x>.streams | <x>.clientStreams, key) with key an identifier bound once (`:=`) to an expression
//                  that does not read the stream object (frame.GetRequestId(), f.Header().StreamID): the removal
//                  concerns the id on the wire whatever has happened to the stream object since
//   removeViaObj   the same delete with a key read through a stream object (stream.id, s.id, …): after a delivery the
//                  object may already serve the next request
// Rejected (translation-unsupported): one of these actions inside a `go` statement, a function literal or a select.
// All helpers are prefixed c02g.

func init() { register("RecvOrder", c02gGen) }

func c02gSrc(n ast.Node) string {
	var b bytes.Buffer
	printer.Fprint(&b, fset, n)
	return strings.Join(strings.Fields(b.String()), " ")
}

var c02gObjRead = regexp.MustCompile(`\b(stream|clientStream|serverStream|s|cs)\.`)

// c02gKeyDef finds the single `key := expr` of an identifier in the function body ("" when none or several).
func c02gKeyDef(fd *ast.FuncDecl, name string) string {
	var defs []string
	n := 0
	ast.Inspect(fd.Body, func(x ast.Node) bool {
		switch a := x.(type) {
		case *ast.AssignStmt:
			for i, l := range a.Lhs {
				if id, ok := l.(*ast.Ident); ok && id.Name == name {
					n++
					if a.Tok == token.DEFINE && len(a.Lhs) == len(a.Rhs) {
						defs = append(defs, c02gSrc(a.Rhs[i]))
					} else {
						defs = append(defs, "?")
					}
				}
			}
		case *ast.IncDecStmt:
			if id, ok := a.X.(*ast.Ident); ok && id.Name == name {
				n++
				defs = append(defs, "?")
			}
		}
		return true
	})
	if n != 1 || defs[0] == "?" {
		return ""
	}
	return defs[0]
}

func c02gCall(fd *ast.FuncDecl, c *ast.CallExpr) string {
	switch fn := c.Fun.(type) {
	case *ast.Ident:
		if fn.Name == "delete" && len(c.Args) == 2 {
			tbl := c02gSrc(c.Args[0])
			if !(strings.HasSuffix(tbl, ".streams") || strings.HasSuffix(tbl, ".clientStreams")) {
				return ""
			}
			key := c02gSrc(c.Args[1])
			if id, ok := c.Args[1].(*ast.Ident); ok {
				def := c02gKeyDef(fd, id.Name)
				if def != "" && !c02gObjRead.MatchString(def) {
					return "removeKey"
				}
				return "removeViaObj"
			}
			_ = key
			return "removeViaObj"
		}
	case *ast.SelectorExpr:
		recv := c02gSrc(fn.X)
		switch fn.Sel.Name {
		case "DestroyStream":
			return "destroy:" + recv
		case "OnReceive", "OnDecodeError":
			if strings.HasSuffix(recv, "eceiver") {
				return "deliver:" + recv
			}
		}
	}
	return ""
}

func c02gHas(fd *ast.FuncDecl, n ast.Node) bool {
	found := false
	ast.Inspect(n, func(m ast.Node) bool {
		switch x := m.(type) {
		case *ast.CallExpr:
			if c02gCall(fd, x) != "" {
				found = true
			}
		case *ast.AssignStmt:
			if c02gUnslot(x) {
				found = true
			}
		}
		return !found
	})
	return found
}

func c02gUnslot(a *ast.AssignStmt) bool {
	if a.Tok != token.ASSIGN || len(a.Lhs) != 1 || len(a.Rhs) != 1 {
		return false
	}
	sel, ok := a.Lhs[0].(*ast.SelectorExpr)
	if !ok || sel.Sel.Name != "stream" {
		return false
	}
	id, ok := a.Rhs[0].(*ast.Ident)
	return ok && id.Name == "nil"
}

func c02gActs(fd *ast.FuncDecl) ([]string, error) {
	var acts, deferred []string
	var err error
	ast.Inspect(fd.Body, func(n ast.Node) bool {
		if err != nil {
			return false
		}
		switch x := n.(type) {
		case *ast.GoStmt, *ast.FuncLit, *ast.SelectStmt:
			if c02gHas(fd, x) {
				err = fmt.Errorf("a destroy / deliver / remove action inside a go statement, function literal or select at %s", fset.Position(x.Pos()))
			}
			return false
		case *ast.DeferStmt:
			if a := c02gCall(fd, x.Call); a != "" {
				deferred = append([]string{a}, deferred...)
			} else if c02gHas(fd, x.Call) {
				err = fmt.Errorf("deferred call containing an action at %s", fset.Position(x.Pos()))
			}
			return false
		case *ast.AssignStmt:
			if c02gUnslot(x) {
				acts = append(acts, "unslot")
			}
		case *ast.CallExpr:
			if a := c02gCall(fd, x); a != "" {
				acts = append(acts, a)
			}
		}
		return true
	})
	return append(acts, deferred...), err
}

func c02gLean(acts []string) string {
	var ls []string
	for _, a := range acts {
		if i := strings.IndexByte(a, ':'); i >= 0 {
			a = a[:i]
		}
		ls = append(ls, "."+a)
	}
	return "[" + strings.Join(ls, ", ") + "]"
}

func c02gGen() (string, error) {
	type fn struct{ lean, file, recv, name string }
	fns := []fn{
		{"wrapperOnReceive", "pkg/stream/client.go", "clientStreamReceiverWrapper", "OnReceive"},
		{"wrapperOnDecodeError", "pkg/stream/client.go", "clientStreamReceiverWrapper", "OnDecodeError"},
		{"h1HandleResponse", "pkg/stream/http/stream.go", "clientStream", "handleResponse"},
		{"xHandleResponse", "pkg/stream/xprotocol/conn.go", "streamConn", "handleResponse"},
		{"h2HandleFrame", "pkg/stream/http2/stream.go", "clientStreamConnection", "handleFrame"},
	}
	var b strings.Builder
	b.WriteString(header("RecvOrder", "pkg/stream/client.go, pkg/stream/http/stream.go, pkg/stream/xprotocol/conn.go, pkg/stream/http2/stream.go"))
	b.WriteString("inductive Act | destroy | deliver | unslot | removeKey | removeViaObj\n  deriving DecidableEq, Repr\n")
	for _, x := range fns {
		f, err := parse(x.file)
		if err != nil {
			return "", err
		}
		fd := findFunc(f, x.recv, x.name)
		if fd == nil || fd.Body == nil {
			return "", fmt.Errorf("%s.%s not found in %s", x.recv, x.name, x.file)
		}
		acts, err := c02gActs(fd)
		if err != nil {
			return "", fmt.Errorf("%s.%s: %v", x.recv, x.name, err)
		}
		if x.recv == "clientStreamReceiverWrapper" {
			// the wrapper destroys the stream it was created for and notifies the receiver it was created with
			for _, a := range acts {
				if strings.HasPrefix(a, "destroy:") && a != "destroy:w.stream" {
					return "", fmt.Errorf("%s.%s destroys %s (expected w.stream)", x.recv, x.name, a)
				}
				if strings.HasPrefix(a, "deliver:") && a != "deliver:w.streamReceiver" {
					return "", fmt.Errorf("%s.%s notifies %s (expected w.streamReceiver)", x.recv, x.name, a)
				}
			}
		}
		fmt.Fprintf(&b, "/-- %s.%s (%s) -/\ndef %s : List Act := %s\n", x.recv, x.name, x.file, x.lean, c02gLean(acts))
	}
	// the wrapper is created per NewStream and points INTO the protocol's stream object: record where that pointer comes from
	f, err := parse("pkg/stream/client.go")
	if err != nil {
		return "", err
	}
	ns := findFunc(f, "client", "NewStream")
	if ns == nil || ns.Body == nil {
		return "", fmt.Errorf("client.NewStream not found")
	}
	src := c02gSrc(ns.Body)
	fresh := strings.Contains(src, "wrapper := &clientStreamReceiverWrapper{") && strings.Contains(src, "streamReceiver: respReceiver")
	ptr := strings.Contains(src, "wrapper.stream = streamSender.GetStream()")
	fmt.Fprintf(&b, "/-- client.NewStream allocates one wrapper per stream, bound to the caller's receiver -/\ndef wrapperPerStream : Bool := %v\n", fresh)
	fmt.Fprintf(&b, "/-- the wrapper keeps the protocol stream's pointer (GetStream()), not a copy or a generation -/\ndef wrapperKeepsPointer : Bool := %v\n", ptr)
	b.WriteString(footer("RecvOrder"))
	return b.String(), nil
}
