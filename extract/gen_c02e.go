package main

// Gen/StreamRestore.lean (C02, end-to-end correlation): WHERE the request id of a frame is written on its way through an
// xprotocol stream (pkg/stream/xprotocol/stream.go): every `X.SetRequestId(arg)` call of xStream.AppendHeaders (hijack
// branch / plain branch / after the branch), xStream.buildHijackResp, AppendData, AppendTrailers and endStream, in
// program order, as lists of id operations; the branch test of AppendHeaders; the request id bolt's Hijack gives the
// reply it builds; the id a server stream keeps (conn.go newServerStream) and the key handleResponse looks up.
// Closed world: a SetRequestId call anywhere else in pkg/stream/xprotocol, pkg/stream or pkg/proxy is refused.

import (
	"fmt"
	"go/ast"
	"go/parser"
	"os"
	"path/filepath"
	"strings"
)

func init() {
	register("StreamRestore", genStreamRestore)
}

// c02eSetCall recognises the statement `recv.SetRequestId(arg)`.
func c02eSetCall(s ast.Stmt) (recv string, arg ast.Expr, ok bool) {
	es, isE := s.(*ast.ExprStmt)
	if !isE {
		return "", nil, false
	}
	c, isC := es.X.(*ast.CallExpr)
	if !isC || len(c.Args) != 1 {
		return "", nil, false
	}
	sel, isS := c.Fun.(*ast.SelectorExpr)
	if !isS || sel.Sel.Name != "SetRequestId" {
		return "", nil, false
	}
	return exprKey(sel.X), c.Args[0], true
}

func c02eCountSet(n ast.Node) int {
	cnt := 0
	ast.Inspect(n, func(m ast.Node) bool {
		if c, ok := m.(*ast.CallExpr); ok {
			if sel, ok := c.Fun.(*ast.SelectorExpr); ok && sel.Sel.Name == "SetRequestId" {
				cnt++
			}
		}
		return true
	})
	return cnt
}

// c02eScan reads the id operations among the top-level statements of one block. recvs: receivers that denote the frame
// the stream is going to write; reqVar: the variable holding the frame handed to AppendHeaders ("" = none in scope).
// A SetRequestId call nested in any other statement is refused, unless `skip` accepts that statement (the caller then
// handles it itself).
func c02eScan(where string, stmts []ast.Stmt, recvs map[string]bool, reqVar string, skip func(ast.Stmt) bool) ([]string, error) {
	var ops []string
	for _, s := range stmts {
		if skip != nil && skip(s) {
			continue
		}
		recv, arg, ok := c02eSetCall(s)
		if !ok {
			if c02eCountSet(s) > 0 {
				return nil, fmt.Errorf("%s: SetRequestId inside a %T is not supported", where, s)
			}
			continue
		}
		if !recvs[recv] {
			return nil, fmt.Errorf("%s: SetRequestId on %s is not supported", where, recv)
		}
		switch k := exprKey(arg); {
		case k == "s.id":
			ops = append(ops, ".setStreamId")
		case reqVar != "" && k == reqVar+".GetRequestId()":
			ops = append(ops, ".copyRequestId")
		default:
			return nil, fmt.Errorf("%s: SetRequestId(%s) is not supported", where, k)
		}
	}
	return ops, nil
}

func c02eList(ops []string) string { return "[" + strings.Join(ops, ", ") + "]" }

// c02eEndCall: `if endStream { s.endStream() }`
func c02eEndCall(s ast.Stmt) bool {
	i, ok := s.(*ast.IfStmt)
	if !ok || exprKey(i.Cond) != "endStream" || i.Else != nil || len(i.Body.List) != 1 {
		return false
	}
	es, ok := i.Body.List[0].(*ast.ExprStmt)
	return ok && exprKey(es.X) == "s.endStream()"
}

func c02eSetCallsInDir(rel string) (int, error) {
	ents, err := os.ReadDir(filepath.Join(repo, rel))
	if err != nil {
		return 0, err
	}
	n := 0
	for _, e := range ents {
		if e.IsDir() || !strings.HasSuffix(e.Name(), ".go") || strings.HasSuffix(e.Name(), "_test.go") {
			continue
		}
		f, err := parser.ParseFile(fset, filepath.Join(repo, rel, e.Name()), nil, 0)
		if err != nil {
			return 0, err
		}
		n += c02eCountSet(f)
	}
	return n, nil
}

func genStreamRestore() (string, error) {
	const streamGo, connGo, boltGo = "pkg/stream/xprotocol/stream.go", "pkg/stream/xprotocol/conn.go", "pkg/protocol/xprotocol/bolt/protocol.go"
	sf, err := parse(streamGo)
	if err != nil {
		return "", err
	}
	recognised := 0
	// ---- AppendHeaders
	ah := findFunc(sf, "xStream", "AppendHeaders")
	if ah == nil || len(ah.Type.Params.List) != 3 {
		return "", fmt.Errorf("xStream.AppendHeaders not found")
	}
	hdrParam := ah.Type.Params.List[1].Names[0].Name
	if ah.Type.Params.List[2].Names[0].Name != "endStream" {
		return "", fmt.Errorf("xStream.AppendHeaders: third parameter is not endStream")
	}
	frameVar := ""
	var branch *ast.IfStmt
	for _, s := range ah.Body.List {
		if a, ok := s.(*ast.AssignStmt); ok && len(a.Lhs) == 2 && len(a.Rhs) == 1 {
			if ta, ok := a.Rhs[0].(*ast.TypeAssertExpr); ok && exprKey(ta.X) == hdrParam {
				frameVar = exprKey(a.Lhs[0])
			}
		}
		if i, ok := s.(*ast.IfStmt); ok && c02eHasCall(i.Cond, "GetStreamType") {
			if branch != nil {
				return "", fmt.Errorf("xStream.AppendHeaders: more than one branch on the stream type")
			}
			branch = i
		}
	}
	if frameVar == "" || branch == nil {
		return "", fmt.Errorf("xStream.AppendHeaders: frame assertion / hijack branch not recognised")
	}
	elseBlk, ok := branch.Else.(*ast.BlockStmt)
	if !ok {
		return "", fmt.Errorf("xStream.AppendHeaders: the hijack branch has no plain else block")
	}
	env := boolEnv(map[string]string{"s.direction": "direction", "stream.ServerStream": "dirServer", "stream.ClientStream": "dirClient",
		frameVar + ".GetStreamType()": "streamType", "api.Request": "typeRequest", "api.RequestOneWay": "typeRequestOneWay", "api.Response": "typeResponse"})
	cond, err := env.expr(branch.Cond)
	if err != nil {
		return "", fmt.Errorf("xStream.AppendHeaders: branch test: %v", err)
	}
	// the hijack branch must build s.frame with buildHijackResp(ctx, <frame>, …) and the plain branch must take the frame itself
	hijackAssigned, plainAssigned := false, false
	for _, s := range branch.Body.List {
		if a, ok := s.(*ast.AssignStmt); ok && len(a.Rhs) == 1 && len(a.Lhs) >= 1 && exprKey(a.Lhs[0]) == "s.frame" {
			if c, ok := a.Rhs[0].(*ast.CallExpr); ok && exprKey(c.Fun) == "s.buildHijackResp" && len(c.Args) == 3 && exprKey(c.Args[1]) == frameVar {
				hijackAssigned = true
			}
		}
	}
	for _, s := range elseBlk.List {
		if a, ok := s.(*ast.AssignStmt); ok && len(a.Rhs) == 1 && len(a.Lhs) == 1 && exprKey(a.Lhs[0]) == "s.frame" && exprKey(a.Rhs[0]) == frameVar {
			plainAssigned = true
		}
	}
	if !hijackAssigned || !plainAssigned {
		return "", fmt.Errorf("xStream.AppendHeaders: `s.frame, err = s.buildHijackResp(ctx, %s, …)` / `s.frame = %s` not recognised", frameVar, frameVar)
	}
	errRet := func(s ast.Stmt) bool { // `if err != nil { return }`
		i, ok := s.(*ast.IfStmt)
		return ok && c02eCountSet(i) == 0
	}
	hijackOps, err := c02eScan("AppendHeaders (hijack branch)", branch.Body.List, map[string]bool{"s.frame": true}, frameVar, errRet)
	if err != nil {
		return "", err
	}
	plainOps, err := c02eScan("AppendHeaders (plain branch)", elseBlk.List, map[string]bool{"s.frame": true, frameVar: true}, frameVar, nil)
	if err != nil {
		return "", err
	}
	// around the branch: nothing before it; operations between the branch and the endStream call; nothing after
	var tail []ast.Stmt
	state := 0 // 0 before the branch, 1 between branch and `if endStream`, 2 after
	for _, s := range ah.Body.List {
		switch {
		case s == ast.Stmt(branch):
			state = 1
		case c02eEndCall(s):
			if state != 1 {
				return "", fmt.Errorf("xStream.AppendHeaders: endStream call before the branch")
			}
			state = 2
		case state == 1:
			tail = append(tail, s)
		default:
			if c02eCountSet(s) > 0 {
				return "", fmt.Errorf("xStream.AppendHeaders: SetRequestId before the branch or after the endStream call is not supported")
			}
		}
	}
	if state != 2 {
		return "", fmt.Errorf("xStream.AppendHeaders: `if endStream { s.endStream() }` not recognised")
	}
	tailOps, err := c02eScan("AppendHeaders (after the branch)", tail, map[string]bool{"s.frame": true}, "", nil)
	if err != nil {
		return "", err
	}
	recognised += len(hijackOps) + len(plainOps) + len(tailOps)
	// ---- buildHijackResp
	bh := findFunc(sf, "xStream", "buildHijackResp")
	if bh == nil || len(bh.Type.Params.List) != 3 {
		return "", fmt.Errorf("xStream.buildHijackResp not found")
	}
	reqParam := bh.Type.Params.List[1].Names[0].Name
	var buildOps []string
	hijackCalls := 0
	var scanBuild func(l []ast.Stmt) error
	scanBuild = func(l []ast.Stmt) error {
		local := ""
		for _, s := range l {
			switch x := s.(type) {
			case *ast.AssignStmt:
				if len(x.Rhs) == 1 {
					if c, ok := x.Rhs[0].(*ast.CallExpr); ok {
						if sel, ok := c.Fun.(*ast.SelectorExpr); ok && sel.Sel.Name == "Hijack" {
							if len(c.Args) != 3 || exprKey(c.Args[1]) != reqParam {
								return fmt.Errorf("buildHijackResp: Hijack is not called with the request frame")
							}
							hijackCalls++
							local = exprKey(x.Lhs[0])
							continue
						}
					}
				}
			case *ast.ReturnStmt:
				if len(x.Results) == 2 {
					if c, ok := x.Results[0].(*ast.CallExpr); ok {
						if sel, ok := c.Fun.(*ast.SelectorExpr); ok && sel.Sel.Name == "Hijack" {
							if len(c.Args) != 3 || exprKey(c.Args[1]) != reqParam {
								return fmt.Errorf("buildHijackResp: Hijack is not called with the request frame")
							}
							hijackCalls++
							continue
						}
					}
				}
			case *ast.IfStmt:
				if c02eCountSet(x) > 0 || c02eHasCall(x, "Hijack") {
					if x.Else != nil {
						return fmt.Errorf("buildHijackResp: else branch around Hijack is not supported")
					}
					if err := scanBuild(x.Body.List); err != nil {
						return err
					}
					continue
				}
			}
			if recv, _, ok := c02eSetCall(s); ok {
				if local == "" || recv != local {
					return fmt.Errorf("buildHijackResp: SetRequestId on %s is not supported", recv)
				}
				ops, err := c02eScan("buildHijackResp", []ast.Stmt{s}, map[string]bool{local: true}, reqParam, nil)
				if err != nil {
					return err
				}
				buildOps = append(buildOps, ops...)
				continue
			}
			if c02eCountSet(s) > 0 {
				return fmt.Errorf("buildHijackResp: SetRequestId inside a %T is not supported", s)
			}
		}
		return nil
	}
	if err := scanBuild(bh.Body.List); err != nil {
		return "", err
	}
	if hijackCalls != 1 {
		return "", fmt.Errorf("buildHijackResp: expected exactly one Hijack call, found %d", hijackCalls)
	}
	recognised += len(buildOps)
	// ---- AppendData / AppendTrailers: operations before the endStream call
	before := func(name string) ([]string, error) {
		fd := findFunc(sf, "xStream", name)
		if fd == nil {
			return nil, fmt.Errorf("xStream.%s not found", name)
		}
		var pre []ast.Stmt
		ended := false
		for _, s := range fd.Body.List {
			isEnd := c02eEndCall(s)
			if es, ok := s.(*ast.ExprStmt); ok && exprKey(es.X) == "s.endStream()" {
				isEnd = true
			}
			switch {
			case isEnd:
				ended = true
			case ended:
				if c02eCountSet(s) > 0 {
					return nil, fmt.Errorf("xStream.%s: SetRequestId after the endStream call is not supported", name)
				}
			default:
				pre = append(pre, s)
			}
		}
		if !ended {
			return nil, fmt.Errorf("xStream.%s: endStream call not recognised", name)
		}
		return c02eScan("xStream."+name, pre, map[string]bool{"s.frame": true}, "", nil)
	}
	dataOps, err := before("AppendData")
	if err != nil {
		return "", err
	}
	trailerOps, err := before("AppendTrailers")
	if err != nil {
		return "", err
	}
	recognised += len(dataOps) + len(trailerOps)
	// ---- endStream: operations before the frame is encoded
	es := findFunc(sf, "xStream", "endStream")
	if es == nil {
		return "", fmt.Errorf("xStream.endStream not found")
	}
	var guard *ast.IfStmt
	for _, s := range es.Body.List {
		if i, ok := s.(*ast.IfStmt); ok && c02eHasCall(i, "Encode") {
			if guard != nil {
				return "", fmt.Errorf("xStream.endStream: more than one block encodes the frame")
			}
			guard = i
		}
	}
	guardOK := false
	if guard != nil {
		if be, ok := guard.Cond.(*ast.BinaryExpr); ok && exprKey(be.X) == "s.frame" && exprKey(be.Y) == "nil" && be.Op.String() == "!=" {
			guardOK = true
		}
	}
	if !guardOK {
		return "", fmt.Errorf("xStream.endStream: `if s.frame != nil { … Encode … }` not recognised")
	}
	var preEnc []ast.Stmt
	encoded := false
	for _, s := range es.Body.List {
		if s == ast.Stmt(guard) {
			break
		}
		if _, ok := s.(*ast.DeferStmt); ok && c02eCountSet(s) == 0 {
			continue
		}
		preEnc = append(preEnc, s)
	}
	for _, s := range guard.Body.List {
		if c02eHasCall(s, "Encode") {
			encoded = true
			if c02eCountSet(s) > 0 {
				return "", fmt.Errorf("xStream.endStream: SetRequestId inside the Encode statement")
			}
			continue
		}
		if encoded {
			if c02eCountSet(s) > 0 {
				return "", fmt.Errorf("xStream.endStream: SetRequestId after Encode is not supported")
			}
			continue
		}
		preEnc = append(preEnc, s)
	}
	endOps, err := c02eScan("xStream.endStream", preEnc, map[string]bool{"s.frame": true}, "", nil)
	if err != nil {
		return "", err
	}
	recognised += len(endOps)
	// ---- closed world
	total, err := c02eSetCallsInDir("pkg/stream/xprotocol")
	if err != nil {
		return "", err
	}
	if total != recognised {
		return "", fmt.Errorf("pkg/stream/xprotocol: %d SetRequestId calls, %d at recognised places", total, recognised)
	}
	for _, d := range []string{"pkg/stream", "pkg/proxy"} {
		n, err := c02eSetCallsInDir(d)
		if err != nil {
			return "", err
		}
		if n != 0 {
			return "", fmt.Errorf("%s: %d SetRequestId calls (none expected)", d, n)
		}
	}
	// ---- bolt Hijack: request id of the reply it builds
	bf, err := parse(boltGo)
	if err != nil {
		return "", err
	}
	hj := findFunc(bf, "boltProtocol", "Hijack")
	if hj == nil || len(hj.Type.Params.List) != 3 {
		return "", fmt.Errorf("boltProtocol.Hijack not found")
	}
	hreq := hj.Type.Params.List[1].Names[0].Name
	var ridExprs []ast.Expr
	bad := ""
	ast.Inspect(hj.Body, func(n ast.Node) bool {
		switch x := n.(type) {
		case *ast.KeyValueExpr:
			if exprKey(x.Key) == "RequestId" {
				ridExprs = append(ridExprs, x.Value)
			}
		case *ast.AssignStmt:
			for _, l := range x.Lhs {
				if strings.HasSuffix(exprKey(l), ".RequestId") {
					bad = "assignment to " + exprKey(l)
				}
			}
		}
		return true
	})
	if c02eCountSet(hj.Body) > 0 {
		bad = "SetRequestId call"
	}
	if bad != "" || len(ridExprs) != 1 {
		return "", fmt.Errorf("boltProtocol.Hijack: request id of the reply not recognised (%s, %d RequestId fields)", bad, len(ridExprs))
	}
	henv := &Env{Names: map[string]string{hreq + ".GetRequestId()": "requestId"},
		Calls: map[string]string{"uint32": "u32", "uint64": ""}, Ret: func(rs []string) string { return "ERR" }, Fall: "ERR"}
	hid, err := henv.expr(ridExprs[0])
	if err != nil {
		return "", fmt.Errorf("boltProtocol.Hijack: %v", err)
	}
	// ---- conn.go: the id a server stream keeps, the key of a response, the id of a client stream
	cf, err := parse(connGo)
	if err != nil {
		return "", err
	}
	one := func(fn, lhs string, names map[string]string) (string, error) {
		fd := findFunc(cf, "streamConn", fn)
		if fd == nil {
			return "", fmt.Errorf("streamConn.%s not found", fn)
		}
		var rhs []ast.Expr
		ast.Inspect(fd.Body, func(n ast.Node) bool {
			if a, ok := n.(*ast.AssignStmt); ok && len(a.Lhs) == 1 && len(a.Rhs) == 1 && exprKey(a.Lhs[0]) == lhs {
				rhs = append(rhs, a.Rhs[0])
			}
			return true
		})
		if len(rhs) != 1 {
			return "", fmt.Errorf("streamConn.%s: expected one assignment to %s, found %d", fn, lhs, len(rhs))
		}
		e := &Env{Names: names, Calls: map[string]string{"uint64": "", "uint32": "u32"}, Ret: func(rs []string) string { return "ERR" }, Fall: "ERR"}
		return e.expr(rhs[0])
	}
	sid, err := one("newServerStream", "serverStream.id", map[string]string{"frame.GetRequestId()": "frameId"})
	if err != nil {
		return "", err
	}
	hr := findFunc(cf, "streamConn", "handleResponse")
	if hr == nil {
		return "", fmt.Errorf("streamConn.handleResponse not found")
	}
	keyVar := ""
	ast.Inspect(hr.Body, func(n ast.Node) bool {
		if ix, ok := n.(*ast.IndexExpr); ok && exprKey(ix.X) == "sc.clientStreams" {
			keyVar = exprKey(ix.Index)
		}
		return true
	})
	if keyVar == "" {
		return "", fmt.Errorf("streamConn.handleResponse: table lookup not found")
	}
	rkey, err := one("handleResponse", keyVar, map[string]string{"frame.GetRequestId()": "frameId"})
	if err != nil {
		return "", err
	}
	ncs := findFunc(cf, "streamConn", "newClientStream")
	genOK := false
	if ncs != nil {
		ast.Inspect(ncs.Body, func(n ast.Node) bool {
			if a, ok := n.(*ast.AssignStmt); ok && len(a.Lhs) == 1 && len(a.Rhs) == 1 && exprKey(a.Lhs[0]) == "clientStream.id" &&
				exprKey(a.Rhs[0]) == "sc.protocol.GenerateRequestID(&sc.clientStreamIDBase)" {
				genOK = true
			}
			return true
		})
	}
	if !genOK {
		return "", fmt.Errorf("streamConn.newClientStream: `clientStream.id = sc.protocol.GenerateRequestID(&sc.clientStreamIDBase)` not found")
	}
	srv, err := intConst("pkg/stream", "ServerStream")
	if err != nil {
		return "", err
	}
	cli, err := intConst("pkg/stream", "ClientStream")
	if err != nil {
		return "", err
	}
	var sb strings.Builder
	sb.WriteString(header("StreamRestore", streamGo, connGo, boltGo))
	sb.WriteString("set_option linter.unusedVariables false\n")
	sb.WriteString(`/-- an operation on the request-id field of the frame a stream is going to write -/
inductive IdOp
  | setStreamId     -- X.SetRequestId(s.id)
  | copyRequestId   -- X.SetRequestId(<frame handed to AppendHeaders>.GetRequestId())
  deriving DecidableEq, Repr
def u32 (x : Int) : Int := x % 4294967296
`)
	fmt.Fprintf(&sb, "/-- stream.ServerStream / stream.ClientStream -/\ndef dirServer : Int := %d\ndef dirClient : Int := %d\n", srv, cli)
	sb.WriteString("/-- symbolic tags of api.StreamType -/\ndef typeRequest : Int := 0\ndef typeRequestOneWay : Int := 1\ndef typeResponse : Int := 2\n")
	fmt.Fprintf(&sb, "/-- xStream.AppendHeaders: a local reply is built (buildHijackResp) instead of writing the frame it was handed -/\ndef hijackBranch (direction streamType : Int) : Bool :=\n  %s\n", cond)
	fmt.Fprintf(&sb, "/-- xStream.buildHijackResp: id operations on the frame Hijack returned -/\ndef buildHijackOps : List IdOp := %s\n", c02eList(buildOps))
	fmt.Fprintf(&sb, "/-- xStream.AppendHeaders, hijack branch, after buildHijackResp -/\ndef headersHijackOps : List IdOp := %s\n", c02eList(hijackOps))
	fmt.Fprintf(&sb, "/-- xStream.AppendHeaders, plain branch (s.frame is the frame it was handed) -/\ndef headersPlainOps : List IdOp := %s\n", c02eList(plainOps))
	fmt.Fprintf(&sb, "/-- xStream.AppendHeaders, after the branch and before the endStream call -/\ndef headersTailOps : List IdOp := %s\n", c02eList(tailOps))
	fmt.Fprintf(&sb, "/-- xStream.AppendData, before the endStream call -/\ndef dataOps : List IdOp := %s\n", c02eList(dataOps))
	fmt.Fprintf(&sb, "/-- xStream.AppendTrailers, before the endStream call -/\ndef trailersOps : List IdOp := %s\n", c02eList(trailerOps))
	fmt.Fprintf(&sb, "/-- xStream.endStream, before the frame is encoded -/\ndef endStreamOps : List IdOp := %s\n", c02eList(endOps))
	fmt.Fprintf(&sb, "/-- boltProtocol.Hijack: request id of the reply frame it builds -/\ndef hijackIdBolt (requestId : Int) : Int :=\n  %s\n", hid)
	fmt.Fprintf(&sb, "/-- streamConn.newServerStream: the id the server stream keeps -/\ndef serverStreamId (frameId : Int) : Int :=\n  %s\n", sid)
	fmt.Fprintf(&sb, "/-- streamConn.handleResponse: the key looked up in clientStreams -/\ndef responseKey (frameId : Int) : Int :=\n  %s\n", rkey)
	sb.WriteString(footer("StreamRestore"))
	return sb.String(), nil
}

func c02eHasCall(n ast.Node, method string) bool {
	found := false
	ast.Inspect(n, func(m ast.Node) bool {
		if c, ok := m.(*ast.CallExpr); ok {
			if sel, ok := c.Fun.(*ast.SelectorExpr); ok && sel.Sel.Name == method {
				found = true
			}
		}
		return true
	})
	return found
}
