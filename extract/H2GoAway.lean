-- translation-unsupported H2GoAway: open -out/pkg/module/http2/mhttp2.go: no such file or directory
namespace MosnVerif.Gen.H2GoAway
end MosnVerif.Gen.H2GoAway
