-- translation-unsupported ProxyError: open -out/pkg/types/proxy.go: no such file or directory
namespace MosnVerif.Gen.ProxyError
end MosnVerif.Gen.ProxyError
