-- translation-unsupported ProxyRetry: open -out/pkg/types/stream.go: no such file or directory
namespace MosnVerif.Gen.ProxyRetry
end MosnVerif.Gen.ProxyRetry
