package main

import (
	"fmt"
	"go/ast"
	"go/token"
	"strings"
)

// Gen.HpackEmit: what `Decoder.parseFieldLiteral` / `callEmit` / `readString` (pkg/module/http2/hpack/hpack.go) do with
// the `emitEnabled` flag, and where `MFramer.readMetaFrame` (pkg/module/http2/mhttp2.go) switches it:
//   wantStr     the expression `wantStr := …` over (d.emitEnabled, it.indexed())
//   addGuard    the condition under which the literal enters the dynamic table (`if … { d.dynTab.add(hf) }`)
//   emitGuard   the condition under which callEmit calls the emit function
//   overLimit   the header-list-size test of readMetaFrame's emit callback (`size > remainSize`)
//   literalCases the three literal representations of parseHeaderFieldRepr with their prefix size and index type
// plus shape checks (rejected otherwise): both strings of a literal are read with `readString(buf, wantStr)`, the name of
// an indexed-name literal is the table entry's name, readString materialises a string only under `if wantStr`, the
// emit callback returns right after each SetEmitEnabled(false), readMetaFrame re-enables emitting before it writes a
// block.  All helpers are prefixed c18e.

func init() { register("HpackEmit", c18eGenHpackEmit) }

func c18eBoolEnv(names map[string]string) *Env {
	return &Env{Names: names, Calls: map[string]string{}}
}

// c18eEnclosingIf finds the innermost IfStmt of body whose Body directly contains an expression statement calling `key`.
func c18eEnclosingIf(body *ast.BlockStmt, key string) (cond ast.Expr, found int, unguarded int) {
	var walk func(stmts []ast.Stmt, guard ast.Expr)
	walk = func(stmts []ast.Stmt, guard ast.Expr) {
		for _, st := range stmts {
			switch x := st.(type) {
			case *ast.ExprStmt:
				if c, ok := x.X.(*ast.CallExpr); ok && exprKey(c.Fun) == key {
					found++
					if guard == nil {
						unguarded++
					} else {
						cond = guard
					}
				}
			case *ast.IfStmt:
				if x.Init == nil && x.Else == nil {
					walk(x.Body.List, x.Cond)
				} else {
					walk(x.Body.List, nil)
					if b, ok := x.Else.(*ast.BlockStmt); ok {
						walk(b.List, nil)
					}
				}
			case *ast.BlockStmt:
				walk(x.List, guard)
			}
		}
	}
	walk(body.List, nil)
	return
}

func c18eGenHpackEmit() (string, error) {
	const dir = "pkg/module/http2/hpack"
	hf, err := parse(dir + "/hpack.go")
	if err != nil {
		return "", err
	}
	pfl := findFunc(hf, "Decoder", "parseFieldLiteral")
	ce := findFunc(hf, "Decoder", "callEmit")
	rs := findFunc(hf, "Decoder", "readString")
	repr := findFunc(hf, "Decoder", "parseHeaderFieldRepr")
	if pfl == nil || ce == nil || rs == nil || repr == nil {
		return "", fmt.Errorf("parseFieldLiteral / callEmit / readString / parseHeaderFieldRepr not found")
	}
	// parameters (n uint8, it indexType), receiver d
	if len(pfl.Type.Params.List) != 2 || pfl.Type.Params.List[1].Names[0].Name != "it" || pfl.Recv.List[0].Names[0].Name != "d" {
		return "", fmt.Errorf("parseFieldLiteral: expected (d *Decoder) … (n uint8, it indexType)")
	}
	// indexType.indexed() / sensitive(): `return v == <const>`
	idxConst := map[string]string{}
	for _, m := range []string{"indexed", "sensitive"} {
		fd := findFunc(hf, "indexType", m)
		if fd == nil || len(fd.Body.List) != 1 {
			return "", fmt.Errorf("indexType.%s not found / not a single return", m)
		}
		r, ok := fd.Body.List[0].(*ast.ReturnStmt)
		if !ok || len(r.Results) != 1 {
			return "", fmt.Errorf("indexType.%s is not a single return", m)
		}
		be, ok := r.Results[0].(*ast.BinaryExpr)
		if !ok || be.Op != token.EQL || exprKey(be.X) != fd.Recv.List[0].Names[0].Name {
			return "", fmt.Errorf("indexType.%s is not `v == const`", m)
		}
		idxConst[m] = exprKey(be.Y)
	}
	env := c18eBoolEnv(map[string]string{"d.emitEnabled": "emitEnabled", "it.indexed()": "indexed"})
	var wantStr string
	readCalls, readWant := 0, 0
	nameFromTable := false
	ast.Inspect(pfl.Body, func(n ast.Node) bool {
		switch x := n.(type) {
		case *ast.AssignStmt:
			if len(x.Lhs) == 1 && len(x.Rhs) == 1 && exprKey(x.Lhs[0]) == "wantStr" {
				if s, e := env.expr(x.Rhs[0]); e == nil && wantStr == "" {
					wantStr = s
				} else if e != nil {
					err = e
				} else {
					err = fmt.Errorf("parseFieldLiteral: wantStr assigned twice")
				}
			}
			if len(x.Lhs) == 1 && len(x.Rhs) == 1 && exprKey(x.Lhs[0]) == "hf.Name" && exprKey(x.Rhs[0]) == "ihf.Name" {
				nameFromTable = true
			}
		case *ast.CallExpr:
			if exprKey(x.Fun) == "d.readString" {
				readCalls++
				if len(x.Args) == 2 && exprKey(x.Args[1]) == "wantStr" {
					readWant++
				}
			}
		}
		return true
	})
	if err != nil {
		return "", err
	}
	if wantStr == "" {
		return "", fmt.Errorf("parseFieldLiteral: `wantStr := …` not found")
	}
	if readCalls != 2 || readWant != 2 {
		return "", fmt.Errorf("parseFieldLiteral: expected two d.readString(buf, wantStr) calls, found %d (%d with wantStr)", readCalls, readWant)
	}
	if !nameFromTable {
		return "", fmt.Errorf("parseFieldLiteral: `hf.Name = ihf.Name` not found")
	}
	addCond, nAdd, unguardedAdd := c18eEnclosingIf(pfl.Body, "d.dynTab.add")
	if nAdd != 1 {
		return "", fmt.Errorf("parseFieldLiteral: expected one d.dynTab.add call, found %d", nAdd)
	}
	addGuard := "true"
	if unguardedAdd == 0 {
		if addGuard, err = env.expr(addCond); err != nil {
			return "", err
		}
	}
	// callEmit: the d.emit(hf) call and its guard
	envE := c18eBoolEnv(map[string]string{"d.emitEnabled": "emitEnabled"})
	emitCond, nEmit, unguardedEmit := c18eEnclosingIf(ce.Body, "d.emit")
	if nEmit != 1 {
		return "", fmt.Errorf("callEmit: expected one d.emit call, found %d", nEmit)
	}
	emitGuard := "true"
	if unguardedEmit == 0 {
		if emitGuard, err = envE.expr(emitCond); err != nil {
			return "", err
		}
	}
	// readString: strings are materialised only under `if wantStr`, the remaining bytes do not depend on it
	nWant := 0
	var rets []string
	ast.Inspect(rs.Body, func(n ast.Node) bool {
		switch x := n.(type) {
		case *ast.IfStmt:
			if exprKey(x.Cond) == "wantStr" && x.Else == nil {
				nWant++
			} else if mentionsKey(x.Cond, "wantStr") {
				err = fmt.Errorf("readString: wantStr used in a condition other than `if wantStr` at %s", fset.Position(x.Pos()))
			}
		case *ast.ReturnStmt:
			if len(x.Results) == 3 && exprKey(x.Results[2]) == "nil" {
				if se, ok := x.Results[1].(*ast.SliceExpr); ok {
					rets = append(rets, exprKey(se.X)+"["+c18eKey(se.Low)+":"+c18eKey(se.High)+"]")
				} else {
					rets = append(rets, exprKey(x.Results[1]))
				}
			}
		}
		return true
	})
	if err != nil {
		return "", err
	}
	if nWant != 2 || len(rets) != 2 || rets[0] != "p[strLen:]" || rets[1] != "p[strLen:]" {
		return "", fmt.Errorf("readString: expected two `if wantStr` blocks and two `return s, p[strLen:], nil`, found %d / %v", nWant, rets)
	}
	// parseHeaderFieldRepr: the literal cases
	var cases []string
	sw, ok := func() (*ast.SwitchStmt, bool) {
		for _, st := range repr.Body.List {
			if s, ok := st.(*ast.SwitchStmt); ok && s.Tag == nil {
				return s, true
			}
		}
		return nil, false
	}()
	if !ok {
		return "", fmt.Errorf("parseHeaderFieldRepr: tagless switch not found")
	}
	for _, cc := range sw.Body.List {
		c := cc.(*ast.CaseClause)
		if len(c.List) != 1 || len(c.Body) != 1 {
			continue
		}
		r, ok := c.Body[0].(*ast.ReturnStmt)
		if !ok || len(r.Results) != 1 {
			continue
		}
		call, ok := r.Results[0].(*ast.CallExpr)
		if !ok || exprKey(call.Fun) != "d.parseFieldLiteral" || len(call.Args) != 2 {
			continue
		}
		be, ok := c.List[0].(*ast.BinaryExpr)
		if !ok || be.Op != token.EQL {
			return "", fmt.Errorf("parseHeaderFieldRepr: literal case is not `b&mask == value`")
		}
		and, ok := be.X.(*ast.BinaryExpr)
		if !ok || and.Op != token.AND || exprKey(and.X) != "b" {
			return "", fmt.Errorf("parseHeaderFieldRepr: literal case is not `b&mask == value`")
		}
		mask, ok1 := evalInt(and.Y)
		val, ok2 := evalInt(be.Y)
		bits, ok3 := evalInt(call.Args[0])
		if !ok1 || !ok2 || !ok3 {
			return "", fmt.Errorf("parseHeaderFieldRepr: non-literal mask / value / prefix size")
		}
		cases = append(cases, fmt.Sprintf("(%d, %d, %d, \"%s\")", mask, val, bits, exprKey(call.Args[1])))
	}
	if len(cases) != 3 {
		return "", fmt.Errorf("parseHeaderFieldRepr: expected three parseFieldLiteral cases, found %d", len(cases))
	}

	// readMetaFrame: SetEmitEnabled(true) before the Write loop; every SetEmitEnabled(false) of the callback is followed by return
	mf, err := parse("pkg/module/http2/mhttp2.go")
	if err != nil {
		return "", err
	}
	rmf := findFunc(mf, "MFramer", "readMetaFrame")
	if rmf == nil {
		return "", fmt.Errorf("MFramer.readMetaFrame not found")
	}
	enabledAt, writeAt := -1, -1
	var cb *ast.FuncLit
	for i, st := range rmf.Body.List {
		if isCallStmt(st, "hdec.SetEmitEnabled", 1) && exprKey(st.(*ast.ExprStmt).X.(*ast.CallExpr).Args[0]) == "true" && enabledAt < 0 {
			enabledAt = i
		}
		if es, ok := st.(*ast.ExprStmt); ok {
			if c, ok := es.X.(*ast.CallExpr); ok && exprKey(c.Fun) == "hdec.SetEmitFunc" && len(c.Args) == 1 && cb == nil {
				cb, _ = c.Args[0].(*ast.FuncLit)
			}
		}
		if c18eMentionsCall(st, "hdec.Write") && writeAt < 0 {
			writeAt = i
		}
	}
	if enabledAt < 0 || writeAt < 0 || enabledAt > writeAt {
		return "", fmt.Errorf("readMetaFrame: hdec.SetEmitEnabled(true) does not precede the hdec.Write loop")
	}
	if cb == nil {
		return "", fmt.Errorf("readMetaFrame: emit callback literal not found")
	}
	var overLimit string
	nDisable := 0
	var cbErr error
	var walk func(stmts []ast.Stmt)
	walk = func(stmts []ast.Stmt) {
		for i, st := range stmts {
			if isCallStmt(st, "hdec.SetEmitEnabled", 1) {
				if exprKey(st.(*ast.ExprStmt).X.(*ast.CallExpr).Args[0]) != "false" {
					cbErr = fmt.Errorf("readMetaFrame: the emit callback enables emitting")
				}
				nDisable++
				// the rest of this block up to a return must not append the field
				j := i + 1
				for ; j < len(stmts); j++ {
					if _, ok := stmts[j].(*ast.ReturnStmt); ok {
						break
					}
					if c18eMentionsKey(stmts[j], "mh.Fields") {
						cbErr = fmt.Errorf("readMetaFrame: field kept after SetEmitEnabled(false)")
					}
				}
				if j == len(stmts) {
					cbErr = fmt.Errorf("readMetaFrame: SetEmitEnabled(false) is not followed by return")
				}
			}
			if ifs, ok := st.(*ast.IfStmt); ok {
				if be, ok := ifs.Cond.(*ast.BinaryExpr); ok && exprKey(be.X) == "size" && exprKey(be.Y) == "remainSize" {
					e := c18eBoolEnv(map[string]string{"size": "size", "remainSize": "remain"})
					if s, err := e.expr(ifs.Cond); err == nil {
						overLimit = s
					} else {
						cbErr = err
					}
				}
				walk(ifs.Body.List)
				if b, ok := ifs.Else.(*ast.BlockStmt); ok {
					walk(b.List)
				}
			}
		}
	}
	walk(cb.Body.List)
	if cbErr != nil {
		return "", cbErr
	}
	if nDisable == 0 || overLimit == "" {
		return "", fmt.Errorf("readMetaFrame: emit callback without SetEmitEnabled(false) / without `size > remainSize` test")
	}

	s := header("HpackEmit", dir+"/hpack.go (parseFieldLiteral, callEmit, readString, parseHeaderFieldRepr, indexType)", "pkg/module/http2/mhttp2.go (MFramer.readMetaFrame)")
	s += "/-- `wantStr := …` of parseFieldLiteral: whether the strings of a literal representation are decoded and kept;\n`indexed` = `it.indexed()` -/\n"
	s += "def wantStr (emitEnabled indexed : Bool) : Bool := " + wantStr + "\n"
	s += "/-- the condition of `d.dynTab.add(hf)` in parseFieldLiteral -/\ndef addGuard (emitEnabled indexed : Bool) : Bool := " + addGuard + "\n"
	s += "/-- the condition of `d.emit(hf)` in callEmit -/\ndef emitGuard (emitEnabled : Bool) : Bool := " + emitGuard + "\n"
	s += "/-- the emit callback of readMetaFrame disables emitting (frame truncated) when -/\ndef overLimit (size remain : Int) : Bool := " + overLimit + "\n"
	s += "/-- readMetaFrame calls `hdec.SetEmitEnabled(true)` before it writes the fragments of a block -/\ndef blockStartsEnabled : Bool := true\n"
	s += "/-- `indexType.indexed()` is `v == " + idxConst["indexed"] + "`, `sensitive()` is `v == " + idxConst["sensitive"] + "` -/\n"
	s += "def indexedConst : String := \"" + idxConst["indexed"] + "\"\ndef sensitiveConst : String := \"" + idxConst["sensitive"] + "\"\n"
	s += "/-- parseHeaderFieldRepr: (mask, value, prefix bits, index type) of the literal representations, in source order -/\n"
	s += "def literalCases : List (Nat × Nat × Nat × String) := [" + strings.Join(cases, ", ") + "]\n"
	s += footer("HpackEmit")
	return s, nil
}

func c18eKey(e ast.Expr) string {
	if e == nil {
		return ""
	}
	return exprKey(e)
}

// c18eMentionsCall reports whether node n contains a call of `key`.
func c18eMentionsCall(n ast.Node, key string) bool {
	found := false
	ast.Inspect(n, func(m ast.Node) bool {
		if c, ok := m.(*ast.CallExpr); ok && exprKey(c.Fun) == key {
			found = true
		}
		return true
	})
	return found
}

// c18eMentionsKey reports whether statement st refers to `key`.
func c18eMentionsKey(st ast.Stmt, key string) bool {
	found := false
	ast.Inspect(st, func(n ast.Node) bool {
		if x, ok := n.(ast.Expr); ok && exprKey(x) == key {
			found = true
		}
		return true
	})
	return found
}
