-- translation-unsupported ProxyTimeout: open -out/pkg/proxy/util.go: no such file or directory
namespace MosnVerif.Gen.ProxyTimeout
end MosnVerif.Gen.ProxyTimeout
