-- translation-unsupported Flow: open -out/pkg/module/http2/flow.go: no such file or directory
namespace MosnVerif.Gen.Flow
end MosnVerif.Gen.Flow
