-- translation-unsupported SubsetSlice: open -out/pkg/upstream/cluster/subset_loadbalancer_builder.go: no such file or directory
namespace MosnVerif.Gen.SubsetSlice
end MosnVerif.Gen.SubsetSlice
